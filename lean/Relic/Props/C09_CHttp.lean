/-
  C09 (second half) — request/response compression and its negotiation never change what gets signed.
  Property theorems about Relic.Model.CompressHttp (lib/compresshttp/compress.go, middleware.go and the
  response half of cmdline/remotecmd/client.go doRequest), composed with Relic.Model.Transport.
  The codecs are parameters (`Codec`: `dec (enc ws) = plainOf ws`); every theorem below holds for every
  pair of codecs, the toy instances of Relic.Proofs.CompressHttp show the hypotheses are satisfiable.
  Helper lemmas: Relic/Proofs/CompressHttp.lean.
-/
import Relic.Proofs.CompressHttp
import Relic.Props.C09
namespace Relic.Props.C09
open Relic Relic.Transport Relic.CompressHttp

/-! ## negotiation -/

/-- **negotiation_total.**  Every `Accept-Encoding` value yields a defined choice (x-snappy-framed if
    one comma-separated element, cut at its first `;` and trimmed, is exactly that token; else gzip; else
    none — case-sensitive, q-values and `*` play no role), and every `Content-Encoding` value is either
    mapped to one of the three codings (empty / `identity`, `gzip`, `x-snappy-framed`, exact match) or
    refused; the middleware answers every request in exactly one of three ways: 415 without running the
    handler (unknown coding), 400 without running the handler (the reader's constructor fails: a gzip
    stream without a valid member header), or it runs the handler on the decoded body. -/
theorem negotiation_total (fx : Bool) (C : Codecs) (next : Handler) (pre : Option Nat) (r : Req) (a v : Str) :
    (selectEncoding a = if snappy ∈ tokens a then snappy else if gzip ∈ tokens a then gzip else []) ∧
    (codingOf v = none ↔ v ≠ [] ∧ v ≠ identity ∧ v ≠ gzip ∧ v ≠ snappy) ∧
    (codingOf [] = some .identity ∧ codingOf identity = some .identity ∧ codingOf gzip = some .gzip ∧
      codingOf snappy = some .snappy) ∧
    ((requestCoding r = none ∧ middlewareG fx C next pre r = httpError 415 msg415) ∨
     (∃ k, requestCoding r = some k ∧ (C.of k).opens r.body.1 = false ∧
        middlewareG fx C next pre r = httpError 400 msg400) ∨
     (∃ k, requestCoding r = some k ∧ (C.of k).opens r.body.1 = true ∧
        (middlewareG fx C next pre r).ran = some (readAll (C.of k) r.body))) := by
  refine ⟨encoding_choice a, codingOf_none_iff v, ⟨codingOf_nil, codingOf_identity, codingOf_gzip, codingOf_snappy⟩, ?_⟩
  cases hk : requestCoding r with
  | none => exact Or.inl ⟨rfl, middleware_refuse fx C next pre r hk⟩
  | some k =>
    cases ho : (C.of k).opens r.body.1 with
    | false => exact Or.inr (Or.inl ⟨k, rfl, ho, middleware_badopen fx C next pre r k hk ho⟩)
    | true => exact Or.inr (Or.inr ⟨k, rfl, ho, middleware_ran fx C next pre r k hk ho⟩)

-- mixed case, q-values, `*`, several values, white space: what is and is not recognised
example : codingOf "GZIP".toList = none ∧ codingOf "gzip, identity".toList = none ∧ codingOf "*".toList = none := by decide
example : headerGet [" gzip\t".toList, "br".toList] = gzip := by decide
example : selectEncoding "*;q=1, GZIP, gzip;q=0".toList = gzip := by decide

/-- **default_negotiation.**  Every answer of the middleware — including its own 415 and 400 — advertises
    `x-snappy-framed, gzip`; a client that takes its encodings from there (`getDirectory`) therefore uploads
    under x-snappy-framed, and asks for it in return. -/
theorem default_negotiation (fx : Bool) (C : Codecs) (next : Handler) (pre : Option Nat) (r : Req) :
    (middlewareG fx C next pre r).ae = acceptedEncodings ∧ selectEncoding acceptedEncodings = snappy ∧
    (∀ sched e, (clientRequest C acceptedEncodings sched e).ce = [snappy] ∧
      responseEncoding (clientRequest C acceptedEncodings sched e) = snappy) := by
  refine ⟨?_, by decide, ?_⟩
  · cases hk : requestCoding r with
    | none => rw [middleware_refuse fx C next pre r hk]; rfl
    | some k =>
      cases ho : (C.of k).opens r.body.1 with
      | false => rw [middleware_badopen fx C next pre r k hk ho]; rfl
      | true =>
        by_cases he : responseEncoding r = []
        · rw [middleware_plain fx C next pre r k hk ho he]
        · rw [middleware_compressed fx C next pre r k hk ho he]
          unfold respOf; split <;> rfl
  · intro sched e
    have h : selectEncoding acceptedEncodings = snappy := by decide
    constructor
    · simp [clientRequest, h, snappy_ne_nil]
    · have h2 : acceptedEncodings ≠ [] := by decide
      have h3 : headerGet [acceptedEncodings] = acceptedEncodings := by decide
      simp [clientRequest, responseEncoding, h2, h3, h]

/-- **unknown_encoding_refused.**  A request whose `Content-Encoding` (first header line, outer white
    space dropped) is none of the four recognised values is answered 415 with the fixed text, the handler
    is not invoked, nothing is compressed — and the answer does not depend on the body at all: its bytes
    are never interpreted.  On the client side an answer with an unrecognised `Content-Encoding` makes
    `doRequest` return an error without touching the body. -/
theorem unknown_encoding_refused (fx : Bool) (C : Codecs) (next : Handler) (pre : Option Nat) (r : Req)
    (h : codingOf (headerGet r.ce) = none) :
    (middlewareG fx C next pre r).status = 415 ∧ (middlewareG fx C next pre r).ran = none ∧
    (middlewareG fx C next pre r).ce = none ∧ (middlewareG fx C next pre r).body = msg415 ∧
    (∀ b, middlewareG fx C next pre { r with body := b } = middlewareG fx C next pre r) ∧
    (∀ (explicit chunked : Bool) (v : Str) s ae cl w ran e, codingOf v = none →
        clientRead C explicit chunked ⟨s, some v, ae, cl, w, ran⟩ e = .error) := by
  have hr : requestCoding r = none := h
  rw [middleware_refuse fx C next pre r hr]
  refine ⟨rfl, rfl, rfl, rfl, ?_, ?_⟩
  · intro b
    exact middleware_refuse fx C next pre { r with body := b } hr
  · intro explicit chunked v s ae cl w ran e hv
    have hg : v ≠ gzip := by
      intro hg; rw [hg, codingOf_gzip] at hv; cases hv
    simp [clientRead, hv, hg]

example : (middleware toyCodecs (fun _ => [.write [1]]) none ⟨["br".toList], [], ([9, 9], .eof)⟩).status = 415 := by decide

/-- **response_encoding_only_if_accepted.**  Whatever the handler does (any sequence of `WriteHeader`,
    `Write`, `Flush`), a `Content-Encoding` on the answer is the value `selectEncoding` picked from the
    request's first `Accept-Encoding` line: it is gzip or x-snappy-framed and it is one of the tokens the
    client listed. -/
theorem response_encoding_only_if_accepted (fx : Bool) (C : Codecs) (next : Handler) (pre : Option Nat) (r : Req) (v : Str)
    (h : (middlewareG fx C next pre r).ce = some v) :
    v = responseEncoding r ∧ v ∈ tokens (headerGet r.ae) ∧ (v = gzip ∨ v = snappy) := by
  have key : v = responseEncoding r ∧ responseEncoding r ≠ [] := by
    cases hk : requestCoding r with
    | none => rw [middleware_refuse fx C next pre r hk] at h; cases h
    | some k =>
      cases ho : (C.of k).opens r.body.1 with
      | false => rw [middleware_badopen fx C next pre r k hk ho] at h; cases h
      | true =>
        by_cases he : responseEncoding r = []
        · rw [middleware_plain fx C next pre r k hk ho he] at h; cases h
        · rw [middleware_compressed fx C next pre r k hk ho he] at h
          have inv := RCInv.fold (e := responseEncoding r) (all := next (readAll (C.of k) r.body)) fx
            (next (readAll (C.of k) r.body)) (fun _ h => h) (rc0 (responseEncoding r)) (RCInv.init _ _)
          generalize (next (readAll (C.of k) r.body)).foldl (RC.step fx) (rc0 (responseEncoding r)) = c at h inv
          rw [respOf_finish] at h
          cases hs : c.rw.sent with
          | some x =>
            obtain ⟨s, hd⟩ := x
            simp only [hs] at h
            rcases (inv.sent s hd hs).1 with h1 | h1
            · rw [h1] at h; cases h
            · rw [h1] at h; injection h with h; exact ⟨h.symm, he⟩
          | none =>
            simp only [hs] at h
            rw [inv.unsent hs] at h; cases h
  obtain ⟨hv, hne⟩ := key
  refine ⟨hv, ?_, ?_⟩
  · rw [hv]; exact selectEncoding_mem _ hne
  · rw [hv]
    rcases responseEncoding_cases r with h1 | h1 | h1
    · exact absurd h1 hne
    · exact Or.inl h1
    · exact Or.inr h1

example : (middleware toyCodecs (fun _ => [.write [1]]) none ⟨[], ["br, gzip".toList], ([], .eof)⟩).ce = some gzip := by decide

/-- q-values are not honoured: `gzip;q=0` ("not acceptable" in RFC 9110) still selects gzip
    (`response_encoding_only_if_accepted` speaks about listed tokens) -/
theorem q0_still_selected :
    (middleware toyCodecs (fun _ => [.write [1]]) none ⟨[], ["gzip;q=0".toList], ([], .eof)⟩).ce = some gzip := by decide

/-- **content_length_consistent.**  The answer never carries a `Content-Length` that was set for other
    content: a length present when the middleware is entered survives only on an answer without
    `Content-Encoding` produced by the handler itself; with a coding (and on the 415/400 answers) it is gone
    and net/http frames the body itself. -/
theorem content_length_consistent (fx : Bool) (C : Codecs) (next : Handler) (pre : Option Nat) (r : Req) :
    (middlewareG fx C next pre r).cl = none ∨
      ((middlewareG fx C next pre r).cl = pre ∧ (middlewareG fx C next pre r).ce = none ∧ responseEncoding r = []) := by
  cases hk : requestCoding r with
  | none => rw [middleware_refuse fx C next pre r hk]; exact Or.inl rfl
  | some k =>
    cases ho : (C.of k).opens r.body.1 with
    | false => rw [middleware_badopen fx C next pre r k hk ho]; exact Or.inl rfl
    | true =>
      by_cases he : responseEncoding r = []
      · rw [middleware_plain fx C next pre r k hk ho he]; exact Or.inr ⟨rfl, rfl, he⟩
      · rw [middleware_compressed fx C next pre r k hk ho he]
        left
        have inv := RCInv.fold (e := responseEncoding r) (all := next (readAll (C.of k) r.body)) fx
          (next (readAll (C.of k) r.body)) (fun _ h => h) (rc0 (responseEncoding r)) (RCInv.init _ _)
        generalize (next (readAll (C.of k) r.body)).foldl (RC.step fx) (rc0 (responseEncoding r)) = c at inv
        rw [respOf_finish]
        cases hs : c.rw.sent with
        | some x =>
          obtain ⟨s, hd⟩ := x
          simp only [hs]
          exact (inv.sent s hd hs).2.1
        | none =>
          simp only [hs]
          exact inv.hcl

example : (middleware toyCodecs (fun _ => [.write [1, 2]]) (some 2) ⟨[], [], ([], .eof)⟩).cl = some 2 ∧
    (middleware toyCodecs (fun _ => [.write [1, 2]]) (some 2) ⟨[], [gzip], ([], .eof)⟩).cl = none := by decide

/-- **error_responses_uncompressed.**  Whatever the handler does, an answer with a status of 300 or
    more has no `Content-Encoding` (the client's `httperror.FromResponse` reads such bodies as they are). -/
theorem error_responses_uncompressed (fx : Bool) (C : Codecs) (next : Handler) (pre : Option Nat) (r : Req)
    (h : 300 ≤ (middlewareG fx C next pre r).status) : (middlewareG fx C next pre r).ce = none := by
  cases hk : requestCoding r with
  | none => rw [middleware_refuse fx C next pre r hk]; rfl
  | some k =>
    cases ho : (C.of k).opens r.body.1 with
    | false => rw [middleware_badopen fx C next pre r k hk ho]; rfl
    | true =>
      by_cases he : responseEncoding r = []
      · rw [middleware_plain fx C next pre r k hk ho he]
      · rw [middleware_compressed fx C next pre r k hk ho he] at h ⊢
        have inv := RCInv.fold (e := responseEncoding r) (all := next (readAll (C.of k) r.body)) fx
          (next (readAll (C.of k) r.body)) (fun _ h => h) (rc0 (responseEncoding r)) (RCInv.init _ _)
        generalize (next (readAll (C.of k) r.body)).foldl (RC.step fx) (rc0 (responseEncoding r)) = c at h inv
        rw [respOf_finish] at h ⊢
        cases hs : c.rw.sent with
        | some x =>
          obtain ⟨s, hd⟩ := x
          simp only [hs] at h ⊢
          exact (inv.sent s hd hs).2.2.2 h
        | none =>
          simp only [hs] at h ⊢
          omega

/-- **status_only_from_handler.**  Apart from its own 415 and 400 the middleware invents no status: the
    status of the answer is 200 or one the handler passed to `WriteHeader`.  In particular it never
    answers 406 — the status on which `doRequest` falls back to an uncompressed upload. -/
theorem status_only_from_handler (fx : Bool) (C : Codecs) (next : Handler) (pre : Option Nat) (r : Req) :
    (middlewareG fx C next pre r).status = 415 ∨ (middlewareG fx C next pre r).status = 400 ∨
    (middlewareG fx C next pre r).status = 200 ∨
    ∃ rd, HOp.header (middlewareG fx C next pre r).status ∈ next rd := by
  cases hk : requestCoding r with
  | none => rw [middleware_refuse fx C next pre r hk]; exact Or.inl rfl
  | some k =>
    cases ho : (C.of k).opens r.body.1 with
    | false => rw [middleware_badopen fx C next pre r k hk ho]; exact Or.inr (Or.inl rfl)
    | true =>
      right; right
      by_cases he : responseEncoding r = []
      · rw [middleware_plain fx C next pre r k hk ho he]
        simp only []
        cases hops : next (readAll (C.of k) r.body) with
        | nil => exact Or.inl rfl
        | cons o ops =>
          cases o with
          | header s => exact Or.inr ⟨readAll (C.of k) r.body, by rw [hops]; simp [statusOfOps]⟩
          | write d => exact Or.inl rfl
          | flush => exact Or.inl rfl
      · rw [middleware_compressed fx C next pre r k hk ho he]
        have inv := RCInv.fold (e := responseEncoding r) (all := next (readAll (C.of k) r.body)) fx
          (next (readAll (C.of k) r.body)) (fun _ h => h) (rc0 (responseEncoding r)) (RCInv.init _ _)
        generalize hc : (next (readAll (C.of k) r.body)).foldl (RC.step fx) (rc0 (responseEncoding r)) = c at inv
        rw [respOf_finish]
        cases hs : c.rw.sent with
        | some x =>
          obtain ⟨s, hd⟩ := x
          simp only [hs]
          rcases (inv.sent s hd hs).2.2.1 with h1 | h1
          · exact Or.inl h1
          · exact Or.inr ⟨_, h1⟩
        | none =>
          simp [hs]

/-- **fallback_on_415** (after the repair of F-chttp-415).  A server that cannot decode the chosen coding
    says 415 (the middleware's own status, `status_only_from_handler`); `doRequest` now treats it like 406:
    for every file, every non-empty encodings string, every server list and whatever follows in the script,
    the pass ends in a restart, and the whole request continues from the first server without
    Accept-Encoding and with an unencoded body (`failover_after_406_uncompressed` applies as it is). -/
theorem fallback_on_415 (file : Bytes) (encs : Str) (b : Nat) (rest : List Nat) (more : List Outcome)
    (c : Nat) (hc : c = 406 ∨ c = 415) (he : encs ≠ []) :
    (pass file encs (b :: rest) (.status c :: more)).2.1 = .restart ∧
    ∃ f, doRequest file encs (b :: rest) 0 (.status c :: more)
        = .ok ([⟨b, encs, selectEncoding encs, file⟩] ++ (pass file [] (b :: rest) more).1, f) ∧
      ∀ a ∈ (pass file [] (b :: rest) more).1, a.accept = [] ∧ a.enc = [] ∧ a.offered = file := by
  have hp : pass file encs (b :: rest) (.status c :: more)
      = ([⟨b, encs, selectEncoding encs, file⟩], .restart, more) := by
    have h3 : ¬ c < 300 := by omega
    simp [pass, roundTrip_status, h3, hc, he, getReader]
  refine ⟨by rw [hp], ?_⟩
  obtain ⟨f, h1, h2⟩ := failover_after_406_uncompressed file encs (b :: rest) (.status c :: more) (by rw [hp])
  rw [hp] at h1 h2
  exact ⟨f, h1, h2⟩

-- the signing completes against a server that lacks the coding
example : doRequest [1, 2, 3] snappy [0, 1] 0 [.status 415]
    = .ok ([⟨0, snappy, snappy, [1, 2, 3]⟩, ⟨0, [], [], [1, 2, 3]⟩], .response 200 0) := by decide

/-- **fallback_not_taken_on_415_orig** (finding F-chttp-415, the code before the repair): on 415 `doRequest`
    neither resent uncompressed nor tried the next server; on 406 it did. -/
theorem fallback_not_taken_on_415_orig :
    doRequestOrig [1, 2, 3] snappy [0, 1] 0 [.status 415]
      = .ok ([⟨0, snappy, snappy, [1, 2, 3]⟩], .httpError 415) ∧
    doRequestOrig [1, 2, 3] snappy [0, 1] 0 [.status 406]
      = .ok ([⟨0, snappy, snappy, [1, 2, 3]⟩, ⟨0, [], [], [1, 2, 3]⟩], .response 200 0) := by decide

/-! ## round trips -/

/-- **roundtrip_request.**  For every pair of codecs, every `Accept-Encoding` string the client was
    given, every file and every way `io.Copy` cuts it into writes: the handler behind the middleware
    reads exactly the bytes the client's `GetReader` handed out — under whichever of the three codings
    `CompressRequest` chose.  (And for each coding on its own.) -/
theorem roundtrip_request (fx : Bool) (C : Codecs) (next : Handler) (pre : Option Nat) (accept : Str) (sched : List WOp) :
    (middlewareG fx C next pre (clientRequest C accept sched .eof)).ran = some (.complete (plainOf sched)) ∧
    (∀ k, readAll (C.of k) ((C.of k).enc sched, .eof) = .complete (plainOf sched)) := by
  constructor
  · have key : ∀ (e : Str) (k : Coding), selectEncoding accept = e → codingOf e = some k →
        (e = [] ∨ httpTrim e = e) →
        (middlewareG fx C next pre (clientRequest C accept sched .eof)).ran = some (.complete (plainOf sched)) := by
      intro e k he hk ht
      have hreq : requestCoding (clientRequest C accept sched .eof) = some k := by
        unfold requestCoding clientRequest headerGet
        simp only [he]
        by_cases hn : e = []
        · subst hn; simpa using hk
        · simp only [hn, if_false, List.map_cons, List.map_nil, List.headD_cons]
          rcases ht with ht | ht
          · exact absurd ht hn
          · rw [ht]; exact hk
      have hbody : (clientRequest C accept sched .eof).body = ((C.of k).enc sched, .eof) := by
        simp [clientRequest, he, Codecs.ofStr, hk]
      have hdec := (C.of k).roundtrip sched
      have ho : (C.of k).opens (clientRequest C accept sched .eof).body.1 = true := by
        rw [hbody]; exact (C.of k).opens_of_dec _ _ hdec
      rw [middleware_ran fx C next pre _ k hreq ho, hbody, readAll_eof _ _ _ hdec]
    rcases selectEncoding_cases accept with h | h | h
    · exact key [] .identity h codingOf_nil (Or.inl rfl)
    · exact key gzip .gzip h codingOf_gzip (Or.inr (by decide))
    · exact key snappy .snappy h codingOf_snappy (Or.inr (by decide))
  · intro k
    exact readAll_eof _ _ _ ((C.of k).roundtrip sched)

example : (middleware toyCodecs (fun _ => []) none
      (clientRequest toyCodecs acceptedEncodings [.write [1, 2], .flush, .write [3]] .eof)).ran = some (.complete [1, 2, 3]) :=
  (roundtrip_request true toyCodecs _ none acceptedEncodings [.write [1, 2], .flush, .write [3]]).1

/-- the full statement about the middleware with (`fx = true`) or without (`false`) the repair of
    F-chttp-flush / F-chttp-empty: whatever the handler does, the caller of `doRequest` reads the handler's
    status and exactly the bytes the handler wrote -/
def roundtrip_response_full (fx : Bool) : Prop :=
  ∀ (C : Codecs) (next : Handler) (pre : Option Nat) (r : Req) (k : Coding) (explicit chunked : Bool),
    requestCoding r = some k → (C.of k).opens r.body.1 = true →
    clientRead C explicit chunked (middlewareG fx C next pre r) .eof =
      .body (statusOfOps (next (readAll (C.of k) r.body))) (.complete (plainOfOps (next (readAll (C.of k) r.body))))

/-- **roundtrip_response_partial** (holds for the code before and after the repair).  For every pair of
    codecs, every request the middleware lets through, every response coding it negotiates and every handler
    whose first operation is not `Flush()` and which, if it announces a status below 300 explicitly, also
    writes at least one (possibly empty) chunk or uses a codec that accepts an empty stream: the caller of
    `doRequest` gets the handler's status and reads exactly what the handler wrote — with or without the
    transport's own gzip layer. -/
theorem roundtrip_response_partial (fx : Bool) (C : Codecs) (next : Handler) (pre : Option Nat) (r : Req) (k : Coding)
    (explicit chunked : Bool) (hk : requestCoding r = some k) (ho : (C.of k).opens r.body.1 = true)
    (h1 : (next (readAll (C.of k) r.body)).head? ≠ some .flush)
    (h2 : hasWrite (next (readAll (C.of k) r.body)) = true ∨ 300 ≤ statusOfOps (next (readAll (C.of k) r.body)) ∨
          next (readAll (C.of k) r.body) = [] ∨ (C.ofStr (responseEncoding r)).dec [] = some [] ∨ fx = true) :
    clientRead C explicit chunked (middlewareG fx C next pre r) .eof =
      .body (statusOfOps (next (readAll (C.of k) r.body))) (.complete (plainOfOps (next (readAll (C.of k) r.body)))) := by
  by_cases he : responseEncoding r = []
  · rw [middleware_plain fx C next pre r k hk ho he, clientRead_plain]
  · rw [middleware_compressed fx C next pre r k hk ho he]
    have hgs : responseEncoding r = gzip ∨ responseEncoding r = snappy := by
      rcases responseEncoding_cases r with h | h | h
      · exact absurd h he
      · exact Or.inl h
      · exact Or.inr h
    have hne : responseEncoding r ≠ [] ∧ responseEncoding r ≠ identity := by
      refine ⟨he, ?_⟩
      rcases hgs with h | h <;> rw [h]
      · exact Ne.symm identity_ne_gzip
      · exact Ne.symm identity_ne_snappy
    generalize next (readAll (C.of k) r.body) = ops at h1 h2
    generalize responseEncoding r = e at hgs hne h2
    cases ops with
    | nil => rw [RC.run_nil]; simp [respOf, clientRead_plain, statusOfOps, plainOfOps]
    | cons o rest =>
      cases o with
      | flush => simp at h1
      | header s =>
        by_cases hs : 300 ≤ s
        · rw [RC.run_header_err fx C e s rest hs]
          simp [respOf, clientRead_plain, statusOfOps, plainOfOps]
        · rw [RC.run_header_ok fx C e s rest (by omega) hne]
          simp only [respOf, statusOfOps, plainOfOps]
          cases hw : hasWrite rest with
          | true =>
            simp only [if_true]
            exact clientRead_encoded C explicit chunked e hgs s _ _ _ _ _
              (by rw [(C.ofStr e).roundtrip, plainOf_wopsFrom])
          | false =>
            rw [plainOfOps_of_not_hasWrite rest hw]
            cases fx with
            | true =>
              simp only [Bool.false_eq_true, if_false, if_true]
              exact clientRead_encoded C explicit chunked e hgs s _ _ _ _ _
                (by rw [(C.ofStr e).roundtrip, plainOf_append, plainOf_wopsFrom,
                      plainOfOps_of_not_hasWrite rest hw]; simp [plainOf])
            | false =>
              have hd : (C.ofStr e).dec [] = some [] := by
                rcases h2 with h | h | h | h | h
                · simp [hasWrite, hw] at h
                · simp [statusOfOps] at h; omega
                · cases h
                · exact h
                · cases h
              simp only [Bool.false_eq_true, if_false]
              exact clientRead_encoded C explicit chunked e hgs s _ _ _ _ _ hd
      | write d =>
        rw [RC.run_write]
        simp only [respOf, statusOfOps, plainOfOps]
        exact clientRead_encoded C explicit chunked e hgs 200 _ _ _ _ _
          (by rw [(C.ofStr e).roundtrip]; simp [plainOf, plainOf_wopsFrom])

/-- **roundtrip_response** (FULL strength, for the repaired middleware).  For every pair of codecs, every
    request the middleware lets through, every response coding it negotiates and EVERY handler — any sequence
    of `WriteHeader`, `Write` and `Flush`, including `Flush` first and a 2xx status without a body: the caller
    of `doRequest` gets the status a plain `ResponseWriter` would have sent and reads exactly the bytes the
    handler wrote, with or without the transport's own gzip layer.  No exception remains. -/
theorem roundtrip_response : roundtrip_response_full true := by
  intro C next pre r k explicit chunked hk ho
  by_cases h1 : (next (readAll (C.of k) r.body)).head? = some .flush
  · -- a first Flush now acts like WriteHeader(200)
    by_cases he : responseEncoding r = []
    · rw [middleware_plain true C next pre r k hk ho he, clientRead_plain]
    · obtain ⟨rest, hops⟩ : ∃ rest, next (readAll (C.of k) r.body) = .flush :: rest := by
        cases hn : next (readAll (C.of k) r.body) with
        | nil => rw [hn] at h1; simp at h1
        | cons o rest => rw [hn] at h1; simp at h1; exact ⟨rest, by rw [h1]⟩
      have hne : responseEncoding r ≠ [] ∧ responseEncoding r ≠ identity := by
        refine ⟨he, ?_⟩
        rcases responseEncoding_cases r with h | h | h
        · exact absurd h he
        · rw [h]; exact Ne.symm identity_ne_gzip
        · rw [h]; exact Ne.symm identity_ne_snappy
      -- the same request answered by the handler that says WriteHeader(200) instead of the first Flush
      have key := roundtrip_response_partial true C (fun _ => .header 200 :: rest) pre r k explicit chunked hk ho
        (by simp) (Or.inr (Or.inr (Or.inr (Or.inr rfl))))
      rw [middleware_compressed true C _ pre r k hk ho he] at key
      rw [middleware_compressed true C next pre r k hk ho he, hops, RC.run_flush_fixed C _ rest hne]
      simpa [statusOfOps, plainOfOps] using key
  · exact roundtrip_response_partial true C next pre r k explicit chunked hk ho h1 (Or.inr (Or.inr (Or.inr (Or.inr rfl))))

-- a handler that writes, flushes and writes again (lib/compresshttp/compress_test.go), both codecs
example : clientRead toyCodecs true true
      (middleware toyCodecs (fun _ => [.write [1, 2], .flush, .write [3]]) none ⟨[], [acceptedEncodings], ([], .eof)⟩) .eof
    = .body 200 (.complete [1, 2, 3]) :=
  roundtrip_response toyCodecs _ none _ .identity true true (by decide) (by decide)
-- the two handler shapes that failed before the repair
example : clientRead toyCodecs true false (middleware toyCodecs (fun _ => [.flush, .write [1]]) none ⟨[], [gzip], ([], .eof)⟩) .eof
    = .body 200 (.complete [1]) := roundtrip_response toyCodecs _ none _ .identity true false (by decide) (by decide)
example : clientRead toyCodecs true false (middleware toyCodecs (fun _ => [.header 201]) none ⟨[], [gzip], ([], .eof)⟩) .eof
    = .body 201 (.complete []) := roundtrip_response toyCodecs _ none _ .identity true false (by decide) (by decide)

/-- **flush_first_loses_content_encoding_orig** (finding F-chttp-flush, the code before the repair).  For
    every pair of codecs and every negotiated coding: a handler that calls `Flush()` before its first `Write`
    got its header sent without `Content-Encoding` (net/http wrote it during that flush; `responseCompressor`
    set the field afterwards), and the body was compressed all the same. -/
theorem flush_first_loses_content_encoding_orig (C : Codecs) (next : Handler) (pre : Option Nat) (r : Req) (k : Coding)
    (d : Bytes) (rest : List HOp) (hk : requestCoding r = some k) (ho : (C.of k).opens r.body.1 = true)
    (he : responseEncoding r ≠ [])
    (hn : next (readAll (C.of k) r.body) = .flush :: .write d :: rest) :
    (middlewareOrig C next pre r).status = 200 ∧ (middlewareOrig C next pre r).ce = none ∧
    (middlewareOrig C next pre r).body = (C.ofStr (responseEncoding r)).enc (.write d :: wopsFrom true rest) := by
  unfold middlewareOrig
  rw [middleware_compressed false C next pre r k hk ho he, hn, RC.run_flush_write]
  simp [respOf]

/-- **roundtrip_response_orig_false**: the full statement was false before the repair: (1) `Flush(); Write([1])`
    with gzip negotiated: the client read the compressed bytes as the body; (2) `WriteHeader(200)` and no body
    with gzip negotiated: `Content-Encoding: gzip` on an empty body, `gzip.NewReader` fails, `doRequest`
    returned an error (finding F-chttp-empty). -/
theorem roundtrip_response_orig_false : ¬ roundtrip_response_full false := by
  intro h
  have := h toyCodecs (fun _ => [.flush, .write [1]]) none ⟨[], [gzip], ([], .eof)⟩ .identity true true (by decide) (by decide)
  revert this
  decide

theorem empty_2xx_gzip_unreadable_orig :
    clientRead toyCodecs true false (middlewareOrig toyCodecs (fun _ => [.header 200]) none ⟨[], [gzip], ([], .eof)⟩) .eof = .error ∧
    clientRead toyCodecs false false (middlewareOrig toyCodecs (fun _ => [.header 200]) none ⟨[], [gzip], ([], .eof)⟩) .eof = .error ∧
    clientRead toyCodecs true false (middlewareOrig toyCodecs (fun _ => [.header 200]) none ⟨[], [snappy], ([], .eof)⟩) .eof
      = .body 200 (.complete []) := by decide

/-! ## truncation -/

/-- **truncated_never_accepted.**  For every pair of codecs:
    * a request whose body does not end cleanly on the connection (chunked body left unterminated, fewer
      bytes than Content-Length, reset) — cut at any point, under any coding — is never read to a clean
      end by a handler: either the handler is not invoked (415/400) or its read fails;
    * an answer whose body does not end cleanly never reads as a complete body for the caller of
      `doRequest`: it is an error at once or a read error;
    * with a codec whose streams are self-delimiting (gzip), even a cleanly ended proper prefix of an
      encoded stream fails to read. -/
theorem truncated_never_accepted (fx : Bool) (C : Codecs) (next : Handler) (pre : Option Nat) :
    (∀ (r : Req) (t : Bool), r.body.2 = .error t →
        (middlewareG fx C next pre r).ran = none ∨ (middlewareG fx C next pre r).ran = some .failed) ∧
    (∀ (explicit chunked : Bool) (resp : Resp) (t : Bool),
        clientRead C explicit chunked resp (.error t) = .error ∨
        clientRead C explicit chunked resp (.error t) = .body resp.status .failed) ∧
    (∀ (c : Codec), SelfDelimiting c → ∀ ws p, p <+: c.enc ws → p ≠ c.enc ws → readAll c (p, .eof) = .failed) := by
  refine ⟨?_, ?_, ?_⟩
  · intro r t ht
    cases hk : requestCoding r with
    | none => left; rw [middleware_refuse fx C next pre r hk]; rfl
    | some k =>
      cases ho : (C.of k).opens r.body.1 with
      | false => left; rw [middleware_badopen fx C next pre r k hk ho]; rfl
      | true =>
        right
        rw [middleware_ran fx C next pre r k hk ho]
        have : r.body = (r.body.1, .error t) := by rw [← ht]
        rw [this, readAll_error]
  · intro explicit chunked resp t
    unfold clientRead
    split
    · right; rw [readAll_error]; simp
    · split
      · left; rfl
      · split
        · left; rfl
        · right; rw [readAll_error]
  · intro c hc ws p hp hne
    simp [readAll, hc ws p hp hne]

example : SelfDelimiting toyGzip := toyGzip_selfDelimiting
example : (middleware toyCodecs (fun _ => []) none ⟨[gzip], [], ((encG [.write [1, 2]]).take 4, .error false)⟩).ran = some .failed := by decide

/-- the statement "no cleanly ended proper prefix of an encoded stream is accepted", for every codec -/
def clean_prefix_never_accepted_full : Prop :=
  ∀ (c : Codec) ws p, p <+: c.enc ws → p ≠ c.enc ws → readAll c (p, .eof) = .failed

/-- **snappy_clean_prefix_accepted** (finding F-chttp-snappy-eos).  It is false for a codec that is a bare
    sequence of frames (x-snappy-framed has no end-of-stream marker): the stream cut after a whole frame,
    delivered with a clean end, reads as a shorter body.  Only the HTTP framing (first two items of
    `truncated_never_accepted`) stands between a cut connection and a shorter upload under that coding. -/
theorem snappy_clean_prefix_accepted : ¬ clean_prefix_never_accepted_full := by
  intro h
  have hc : Merkle.chunks 1 ([7, 8] : Bytes) = [[7], [8]] := by
    rw [Merkle.chunks_cons_of 1 _ (by decide) (by simp)]
    simp only [List.take, List.drop]
    rw [Merkle.chunks_cons_of 1 _ (by decide) (by simp)]
    simp [Merkle.chunks_nil]
  have he : (toySnappy 1 (by decide)).enc [.write [7, 8]] = encFrames [[7], [8]] := by
    show encS 1 [.write [7, 8]] = _
    simp [encS, framesOf, hc]
  have := h (toySnappy 1 (by decide)) [.write [7, 8]] (encFrames [[7]]) (by rw [he]; decide) (by rw [he]; decide)
  revert this
  decide

/-- every whole-frame prefix of a frame stream decodes, to the bytes of those frames -/
theorem snappy_frame_prefix_reads (fs : List Bytes) (j : Nat) (B : Nat) (hB : 0 < B) :
    readAll (toySnappy B hB) (encFrames (fs.take j), .eof) = .complete (fs.take j).flatten :=
  readAll_eof _ _ _ (toySnappy_frame_prefix fs j)

/-! ## composition with the client's fail-over loop -/

/-- **transport_preserves_digest.**  For every pair of codecs, every file, advertised encodings, server
    list, retry setting and script of per-attempt outcomes with which `doRequest` terminates — histories with
    transport errors, 5xx, 406 AND 415 answers (`fallback_on_415`) alike — and for every attempt it made
    (first pass with the advertised encodings, second pass after a 406/415 without, any server, any retry),
    every way the file is cut into writes and EVERY handler behind the (repaired) middleware:
    * if the upload of that attempt arrives with a clean end, the handler reads the whole transform
      stream, byte for byte;
    * if it does not arrive with a clean end (source fault, `fault_never_accepted`; broken connection),
      whatever bytes arrived, no handler reads a complete body;
    * the caller of `doRequest` reads the status and exactly the bytes the handler produced from the whole
      file (`roundtrip_response`, no restriction on the handler any more). -/
theorem transport_preserves_digest (C : Codecs) (file : Bytes) (encs : Str) (bases : List Nat) (retries : Int)
    (script : List Outcome) (tr : List Attempt) (f : Final)
    (h : doRequest file encs bases retries script = .ok (tr, f)) :
    ∀ a ∈ tr, ∀ (sched : List WOp), plainOf sched = a.offered → ∀ (next : Handler) (pre : Option Nat),
      (clientRequest C a.accept sched .eof).ce = (if a.enc = [] then [] else [a.enc]) ∧
      (middleware C next pre (clientRequest C a.accept sched .eof)).ran = some (.complete file) ∧
      (∀ (w : Bytes) (t : Bool) (b : Bytes),
          (middleware C next pre { clientRequest C a.accept sched .eof with body := (w, .error t) }).ran ≠
            some (.complete b)) ∧
      (∀ chunked,
        clientRead C (decide (a.accept ≠ [])) chunked (middleware C next pre (clientRequest C a.accept sched .eof)) .eof
          = .body (statusOfOps (next (.complete file))) (.complete (plainOfOps (next (.complete file))))) := by
  intro a ha sched hs next pre
  unfold middleware
  obtain ⟨hall, _, _⟩ := failover_same_body file encs bases retries script tr f h
  obtain ⟨hoff, henc, _⟩ := hall a ha
  have hrun := (roundtrip_request true C next pre a.accept sched).1
  rw [hs, hoff] at hrun
  refine ⟨?_, hrun, ?_, ?_⟩
  · simp [clientRequest, henc]
  · intro w t b
    have := (truncated_never_accepted true C next pre).1
      { clientRequest C a.accept sched .eof with body := (w, .error t) } t rfl
    rcases this with h1 | h1 <;> rw [h1] <;> simp
  · intro chunked
    -- the request coding and the opened reader, as in `roundtrip_request`
    have hread : ∃ k, requestCoding (clientRequest C a.accept sched .eof) = some k ∧
        (C.of k).opens (clientRequest C a.accept sched .eof).body.1 = true ∧
        readAll (C.of k) (clientRequest C a.accept sched .eof).body = .complete file := by
      rcases (negotiation_total true C next pre (clientRequest C a.accept sched .eof) [] []).2.2.2 with hh | hh | hh
      · rw [hh.2] at hrun; cases hrun
      · obtain ⟨k, _, _, hh⟩ := hh; rw [hh] at hrun; cases hrun
      · obtain ⟨k, hk, ho, hr⟩ := hh
        rw [hr] at hrun
        exact ⟨k, hk, ho, by injection hrun⟩
    obtain ⟨k, hk, ho, hr⟩ := hread
    have := roundtrip_response C next pre (clientRequest C a.accept sched .eof) k (decide (a.accept ≠ [])) chunked hk ho
    rw [hr] at this
    exact this

/-- **remote_equals_standalone.**  For every function `sign` from the transform stream to the answer
    (digest, signature, patch: whatever the signer module computes from the bytes it reads), a server
    that answers `sign body` after reading the body to its clean end makes `doRequest` hand out
    `sign file` — the same bytes a standalone run computes from the same stream — for every attempt of
    every fail-over history (406 and 415 restarts included). -/
theorem remote_equals_standalone (C : Codecs) (sign : Bytes → Bytes) (file : Bytes) (encs : Str) (bases : List Nat)
    (retries : Int) (script : List Outcome) (tr : List Attempt) (f : Final)
    (h : doRequest file encs bases retries script = .ok (tr, f)) :
    ∀ a ∈ tr, ∀ (sched : List WOp), plainOf sched = a.offered → ∀ chunked,
      clientRead C (decide (a.accept ≠ [])) chunked
        (middleware C (fun rd => match rd with | .complete b => [.write (sign b)] | .failed => [.header 400]) none
          (clientRequest C a.accept sched .eof)) .eof
        = .body 200 (.complete (sign file)) := by
  intro a ha sched hs chunked
  have := (transport_preserves_digest C file encs bases retries script tr f h a ha sched hs
    (fun rd => match rd with | .complete b => [.write (sign b)] | .failed => [.header 400]) none).2.2.2 chunked
  simpa [statusOfOps, plainOfOps] using this

-- a server that lacks the coding answers 415; the signing completes on the uncompressed second pass
example : ∀ a ∈ [(⟨0, snappy, snappy, [1, 2, 3]⟩ : Attempt), ⟨0, [], [], [1, 2, 3]⟩], ∀ sched, plainOf sched = a.offered → ∀ chunked,
    clientRead toyCodecs (decide (a.accept ≠ [])) chunked
      (middleware toyCodecs (fun rd => match rd with | .complete b => [.write (b ++ b)] | .failed => [.header 400]) none
        (clientRequest toyCodecs a.accept sched .eof)) .eof = .body 200 (.complete [1, 2, 3, 1, 2, 3]) :=
  remote_equals_standalone toyCodecs (fun b => b ++ b) [1, 2, 3] snappy [0, 1] 0 [.status 415] _ (.response 200 0) (by decide)

end Relic.Props.C09

#!/bin/sh
# integrate.sh <name>: copy files that are NEW in /tmp/wk/<name>/verif into /verif (never overwrites)
set -e
n="$1"; src=/tmp/wk/$n/verif
cd "$src"
find lean/Relic harness tools checklib corpus -type f 2>/dev/null | grep -v '/\.lake/' | grep -v __pycache__ | grep -v 'go.sum$' | while read f; do
  if [ ! -e "/verif/$f" ]; then mkdir -p "/verif/$(dirname "$f")"; cp "$f" "/verif/$f"; echo "NEW $f"; 
  elif ! cmp -s "$f" "/verif/$f"; then echo "DIFF $f"; fi
done

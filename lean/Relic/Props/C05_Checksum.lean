/-
  C05 (PE checksum part) — the value relic's streaming `peChecksum` produces, and the four bytes
  `FixPEChecksum` stores, equal the declarative PE checksum `Relic.Spec.peChecksum`
  (Relic/Spec/PEChecksum.lean, written without reference to the code).
  Model: Relic.Model.PEChecksum (lib/authenticode/checksum.go after fix F20).
-/
import Relic.Proofs.PEChecksum
namespace Relic.Props.C05
open Relic Relic.PEChecksum

/-- **pe_checksum_eq_spec.** For every file, every *even* offset `P` of the checksum field and every
    delivery of the file as even-sized writes followed by a last write of any size, `Sum` is the
    declarative PE checksum: little-endian 16-bit words, the four field bytes read as zero, an odd
    final byte zero-extended, carry folded after every addition, final fold, plus the length mod 2^32. -/
theorem pe_checksum_eq_spec (P : Nat) (hP : P % 2 = 0) (file : Bytes) (ws : List Bytes) (last : Bytes)
    (hev : ∀ w ∈ ws, w.length % 2 = 0) (hfile : ws.flatten ++ last = file) :
    ∃ s, writes ⟨some P, 0, 0, 0, false⟩ (ws ++ [last]) = .ok s ∧ sumVal s = Spec.peChecksum file P := by
  rw [writes_append_last _ ws last rfl hev, hfile]
  exact oneshot_even P file hP

/-- the instance for `NewPEChecksum(peStart)` with `peStart > 0` even (PE headers are at least
    4-byte aligned, so `peStart + 88` is even for every loadable image) -/
theorem pe_checksum_eq_spec_new (peStart : Nat) (h0 : 0 < peStart) (hP : peStart % 2 = 0) (file : Bytes)
    (ws : List Bytes) (last : Bytes) (hev : ∀ w ∈ ws, w.length % 2 = 0) (hfile : ws.flatten ++ last = file) :
    ∃ s, writes (new peStart) (ws ++ [last]) = .ok s ∧ sumVal s = Spec.peChecksum file (peStart + 88) := by
  have hn : new (peStart : Int) = ⟨some (peStart + 88), 0, 0, 0, false⟩ := by
    have : peStart ≠ 0 := by omega
    simp [new, this]
  rw [hn]
  exact pe_checksum_eq_spec (peStart + 88) (by omega) file ws last hev hfile

example : ∃ s, writes (new 2) [[1, 2], [3, 4, 5, 6], [7]] = .ok s ∧
    sumVal s = Spec.peChecksum [1, 2, 3, 4, 5, 6, 7] 90 :=
  pe_checksum_eq_spec_new 2 (by omega) rfl _ [[1, 2], [3, 4, 5, 6]] [7] (by simp) rfl

/-- **pe_checksum_odd_pos.** With an *odd* field offset (odd `peStart`), or with no field
    (`peStart ≤ 0`), the code never excludes anything: the words it compares against start at even
    offsets, so `i == ckpos` is never true.  The result is the plain word sum — the field bytes are
    included.  (Not reachable for well-formed images; stated so that it is not mistaken for the
    specification.) -/
theorem pe_checksum_odd_pos (ck : Option Nat) (hck : ∀ p, ck = some p → p % 2 = 1) (file : Bytes)
    (ws : List Bytes) (last : Bytes) (hev : ∀ w ∈ ws, w.length % 2 = 0) (hfile : ws.flatten ++ last = file) :
    ∃ s, writes ⟨ck, 0, 0, 0, false⟩ (ws ++ [last]) = .ok s ∧ sumVal s = Spec.peChecksumPlain file := by
  rw [writes_append_last _ ws last rfl hev, hfile]
  exact oneshot_plain ck file hck

example : ∃ s, writes (new 1) [[1, 2], [3]] = .ok s ∧ sumVal s = Spec.peChecksumPlain [1, 2, 3] :=
  pe_checksum_odd_pos (some 89) (by intro p h; injection h with h; omega) _ [[1, 2]] [3] (by simp) rfl

/-- the plain sum differs from the specification as soon as the field holds a non-zero word -/
example : Spec.peChecksumPlain (List.replicate 8 1) ≠ Spec.peChecksum (List.replicate 8 1) 2 := by decide

/-- **fix_pe_checksum_eq_spec.** What `FixPEChecksum` stores at `e_lfanew + 88` is the declarative
    checksum of the file, for every file it accepts whose `e_lfanew` is even and non-zero — whatever
    even-sized pieces `io.Copy` reads the file in (`checksum_even_splits`). -/
theorem fix_pe_checksum_eq_spec (file : Bytes) (pos v : Nat) (h : fixPE file = .ok (pos, v))
    (hpos : pos % 2 = 0) (h88 : 88 < pos) : v = Spec.peChecksum file pos := by
  unfold fixPE at h
  split at h
  · simp at h
  · split at h
    · simp at h
    · simp only [] at h
      generalize hps : leVal (List.take 4 (List.drop 0x3c file)) = peStart at h
      have hn : new (peStart : Int) = ⟨some (peStart + 88), 0, 0, 0, false⟩ ∨ peStart = 0 := by
        by_cases h0 : peStart = 0
        · exact Or.inr h0
        · exact Or.inl (by simp [new, h0])
      rcases hn with hn | h0
      · rw [hn] at h
        obtain ⟨s, hs, hv⟩ := oneshot_even (peStart + 88) file (by
          cases hw : write ⟨some (peStart + 88), 0, 0, 0, false⟩ file with
          | ok s' => rw [hw] at h; simp at h; omega
          | err e => rw [hw] at h; simp at h
          | panic e => rw [hw] at h; simp at h
          | diverge => rw [hw] at h; simp at h)
        rw [hs] at h
        simp at h
        rw [← h.2, ← h.1, hv]
      · subst h0
        cases hw : write (new ((0 : Nat) : Int)) file with
        | ok s' => rw [hw] at h; simp at h; omega
        | err e => rw [hw] at h; simp at h
        | panic e => rw [hw] at h; simp at h
        | diverge => rw [hw] at h; simp at h

end Relic.Props.C05

/-
  Relic.Proofs.MsiSort — facts about the insertion sort of `Relic.Model.MsiDigest` (`insR`, `sortFold`,
  `sortRes`) that do not depend on the comparator: permutation, totality when no comparison fails,
  sortedness and uniqueness under a key order, parametricity in the payload.  Core tactics only.
-/
import Relic.Model.MsiDigest
namespace Relic.MsiDigest
open Relic

@[simp] theorem Res.bind_ok' {α β} (a : α) (f : α → Res β) : (Res.ok a >>= f) = f a := rfl
@[simp] theorem Res.bind_err' {α β} (e : String) (f : α → Res β) : (Res.err e >>= f) = Res.err e := rfl
@[simp] theorem Res.bind_panic' {α β} (e : String) (f : α → Res β) : (Res.panic e >>= f) = Res.panic e := rfl
@[simp] theorem Res.bind_diverge' {α β} (f : α → Res β) : ((Res.diverge : Res α) >>= f) = Res.diverge := rfl
@[simp] theorem Res.pure_eq {α} (a : α) : (pure a : Res α) = Res.ok a := rfl

variable {α : Type}

/-! ### the pure insertion sort -/

def insP (lt : α → α → Bool) (x : α) : List α → List α
  | [] => [x]
  | y :: rest => if lt x y then y :: insP lt x rest else x :: y :: rest

def foldP (lt : α → α → Bool) : List α → List α → List α
  | acc, [] => acc
  | acc, x :: rest => foldP lt (insP lt x acc) rest

def sortP (lt : α → α → Bool) (l : List α) : List α := (foldP lt [] l).reverse

theorem insP_perm (lt : α → α → Bool) (x : α) : ∀ acc, (insP lt x acc).Perm (x :: acc)
  | [] => by simp [insP]
  | y :: rest => by
    unfold insP
    split
    · exact ((insP_perm lt x rest).cons y).trans (List.Perm.swap x y rest)
    · exact List.Perm.refl _

theorem foldP_perm (lt : α → α → Bool) : ∀ l acc, (foldP lt acc l).Perm (acc ++ l)
  | [], acc => by simp [foldP]
  | x :: rest, acc => by
    unfold foldP
    refine (foldP_perm lt rest _).trans ?_
    refine ((insP_perm lt x acc).append_right rest).trans ?_
    exact List.perm_middle.symm

theorem sortP_perm (lt : α → α → Bool) (l : List α) : (sortP lt l).Perm l := by
  unfold sortP
  exact (List.reverse_perm _).trans (by simpa using foldP_perm lt l [])

/-! ### the comparator never fails ⇒ the monadic sort is the pure one -/

theorem insR_ok (c : α → α → Res Bool) (lt : α → α → Bool) (x : α) :
    ∀ acc, (∀ y ∈ acc, c x y = .ok (lt x y)) → insR c x acc = .ok (insP lt x acc)
  | [], _ => rfl
  | y :: rest, h => by
    have hy := h y (by simp)
    have ih := insR_ok c lt x rest (fun z hz => h z (by simp [hz]))
    unfold insR insP
    rw [hy]
    by_cases hb : lt x y = true
    · simp [hb, ih]
    · simp [hb]

theorem sortFold_ok (c : α → α → Res Bool) (lt : α → α → Bool) :
    ∀ l acc, (∀ x ∈ l, ∀ y ∈ acc, c x y = .ok (lt x y)) →
      l.Pairwise (fun a b => c b a = .ok (lt b a)) →
      sortFold c acc l = .ok (foldP lt acc l)
  | [], _, _, _ => rfl
  | x :: rest, acc, h1, h2 => by
    unfold sortFold foldP
    rw [insR_ok c lt x acc (fun y hy => h1 x (by simp) y hy)]
    simp only [Res.bind_ok']
    apply sortFold_ok c lt rest
    · intro z hz y hy
      have : y ∈ x :: acc := (insP_perm lt x acc).subset hy
      rcases List.mem_cons.mp this with rfl | hy'
      · exact (List.pairwise_cons.mp h2).1 z hz
      · exact h1 z (by simp [hz]) y hy'
    · exact (List.pairwise_cons.mp h2).2

theorem sortRes_ok (c : α → α → Res Bool) (lt : α → α → Bool) (l : List α)
    (h : l.Pairwise (fun a b => c b a = .ok (lt b a))) : sortRes c l = .ok (sortP lt l) := by
  unfold sortRes sortP
  rw [sortFold_ok c lt l [] (by simp) h]
  rfl

/-! ### permutation, for any comparator -/

theorem insR_perm (c : α → α → Res Bool) (x : α) : ∀ acc r, insR c x acc = .ok r → r.Perm (x :: acc)
  | [], r, h => by simp [insR] at h; subst h; exact List.Perm.refl _
  | y :: rest, r, h => by
    unfold insR at h
    cases hc : c x y with
    | ok b =>
      rw [hc] at h
      simp only [Res.bind_ok'] at h
      by_cases hb : b = true
      · simp only [hb, if_true] at h
        cases hr : insR c x rest with
        | ok r' =>
          rw [hr] at h
          simp only [Res.bind_ok', Res.pure_eq, Res.ok.injEq] at h
          subst h
          exact ((insR_perm c x rest r' hr).cons y).trans (List.Perm.swap x y rest)
        | err e => rw [hr] at h; simp at h
        | panic e => rw [hr] at h; simp at h
        | diverge => rw [hr] at h; simp at h
      · have hb' : b = false := by simpa using hb
        subst hb'
        simp only [Res.pure_eq, Bool.false_eq_true, if_false, Res.ok.injEq] at h
        subst h
        exact List.Perm.refl _
    | err e => rw [hc] at h; simp at h
    | panic e => rw [hc] at h; simp at h
    | diverge => rw [hc] at h; simp at h

theorem sortFold_perm (c : α → α → Res Bool) : ∀ l acc r, sortFold c acc l = .ok r → r.Perm (acc ++ l)
  | [], acc, r, h => by simp [sortFold] at h; subst h; simp
  | x :: rest, acc, r, h => by
    unfold sortFold at h
    cases hi : insR c x acc with
    | ok a' =>
      rw [hi] at h
      simp only [Res.bind_ok'] at h
      refine (sortFold_perm c rest a' r h).trans ?_
      refine ((insR_perm c x acc a' hi).append_right rest).trans ?_
      exact List.perm_middle.symm
    | err e => rw [hi] at h; simp at h
    | panic e => rw [hi] at h; simp at h
    | diverge => rw [hi] at h; simp at h

theorem sortRes_perm (c : α → α → Res Bool) (l r : List α) (h : sortRes c l = .ok r) : r.Perm l := by
  unfold sortRes at h
  cases hf : sortFold c [] l with
  | ok a =>
    rw [hf] at h
    simp only [Res.bind_ok', Res.pure_eq, Res.ok.injEq] at h
    subst h
    exact (List.reverse_perm _).trans (by simpa using sortFold_perm c l [] a hf)
  | err e => rw [hf] at h; simp at h
  | panic e => rw [hf] at h; simp at h
  | diverge => rw [hf] at h; simp at h

/-! ### sortedness under a key order -/

/-- `lt` restricted to the members of a list is given by a strict total order on keys -/
structure KeyOrder (key : α → List Nat) (klt : List Nat → List Nat → Bool) : Prop where
  trans : ∀ a b c, klt a b = true → klt b c = true → klt a c = true
  asymm : ∀ a b, klt a b = true → klt b a = false
  total : ∀ a b, a ≠ b → klt a b = true ∨ klt b a = true

theorem insP_sorted {key : α → List Nat} {klt} (ko : KeyOrder key klt) (lt : α → α → Bool) (x : α) :
    ∀ acc, (∀ y ∈ acc, lt x y = klt (key x) (key y)) → (∀ y ∈ acc, key x ≠ key y) →
      acc.Pairwise (fun u v => klt (key v) (key u) = true) →
      (insP lt x acc).Pairwise (fun u v => klt (key v) (key u) = true)
  | [], _, _, _ => by simp [insP]
  | y :: rest, h1, h2, h3 => by
    have hp := List.pairwise_cons.mp h3
    unfold insP
    by_cases hb : lt x y = true
    · simp only [hb, if_true]
      refine List.pairwise_cons.mpr ⟨?_, insP_sorted ko lt x rest (fun z hz => h1 z (by simp [hz]))
        (fun z hz => h2 z (by simp [hz])) hp.2⟩
      intro z hz
      have : z ∈ x :: rest := (insP_perm lt x rest).subset hz
      rcases List.mem_cons.mp this with rfl | hz'
      · rw [← h1 y (by simp)]; exact hb
      · exact hp.1 z hz'
    · simp only [hb]
      refine List.pairwise_cons.mpr ⟨?_, h3⟩
      have hxy : klt (key x) (key y) = false := by
        rw [← h1 y (by simp)]; simpa using hb
      have hyx : klt (key y) (key x) = true := by
        rcases ko.total (key x) (key y) (h2 y (by simp)) with h | h
        · rw [h] at hxy; cases hxy
        · exact h
      intro z hz
      rcases List.mem_cons.mp hz with rfl | hz'
      · exact hyx
      · exact ko.trans _ _ _ (hp.1 z hz') hyx

theorem foldP_sorted {key : α → List Nat} {klt} (ko : KeyOrder key klt) (lt : α → α → Bool) :
    ∀ l acc, (∀ x ∈ l, ∀ y ∈ acc, lt x y = klt (key x) (key y) ∧ key x ≠ key y) →
      l.Pairwise (fun a b => lt b a = klt (key b) (key a) ∧ key b ≠ key a) →
      acc.Pairwise (fun u v => klt (key v) (key u) = true) →
      (foldP lt acc l).Pairwise (fun u v => klt (key v) (key u) = true)
  | [], _, _, _, h => h
  | x :: rest, acc, h1, h2, h3 => by
    unfold foldP
    have hp := List.pairwise_cons.mp h2
    apply foldP_sorted ko lt rest
    · intro z hz y hy
      have : y ∈ x :: acc := (insP_perm lt x acc).subset hy
      rcases List.mem_cons.mp this with rfl | hy'
      · exact hp.1 z hz
      · exact h1 z (by simp [hz]) y hy'
    · exact hp.2
    · exact insP_sorted ko lt x acc (fun y hy => (h1 x (by simp) y hy).1) (fun y hy => (h1 x (by simp) y hy).2) h3

theorem sortP_sorted {key : α → List Nat} {klt} (ko : KeyOrder key klt) (lt : α → α → Bool) (l : List α)
    (h : l.Pairwise (fun a b => lt b a = klt (key b) (key a) ∧ key b ≠ key a)) :
    (sortP lt l).Pairwise (fun u v => klt (key u) (key v) = true) := by
  unfold sortP
  rw [List.pairwise_reverse]
  exact foldP_sorted ko lt l [] (by simp) h (by simp)

/-- two key-sorted permutations of the same list are equal -/
theorem sorted_unique {key : α → List Nat} {klt} (ko : KeyOrder key klt) (s t : List α)
    (hs : s.Pairwise (fun u v => klt (key u) (key v) = true))
    (ht : t.Pairwise (fun u v => klt (key u) (key v) = true)) (hp : s.Perm t) : s = t := by
  refine List.Perm.eq_of_pairwise (le := fun u v => klt (key u) (key v) = true) ?_ hs ht hp
  intro a b _ _ hab hba
  have := ko.asymm _ _ hab
  rw [this] at hba
  cases hba

/-! ### parametricity: the sort only looks at what the comparator looks at -/

/-- results related constructor by constructor -/
def RelRes {β γ : Type} (P : β → γ → Prop) : Res β → Res γ → Prop
  | .ok a, .ok b => P a b
  | .err e, .err e' => e = e'
  | .panic e, .panic e' => e = e'
  | .diverge, .diverge => True
  | _, _ => False

variable {β : Type}

/-- two lists related element by element -/
inductive All2 (R : α → β → Prop) : List α → List β → Prop
  | nil : All2 R [] []
  | cons {a b l1 l2} : R a b → All2 R l1 l2 → All2 R (a :: l1) (b :: l2)

theorem All2.append {R : α → β → Prop} : ∀ {l1 l2 m1 m2}, All2 R l1 l2 → All2 R m1 m2 → All2 R (l1 ++ m1) (l2 ++ m2) := by
  intro l1 l2 m1 m2 h hm
  induction h with
  | nil => exact hm
  | cons hx _ ih => exact All2.cons hx ih

theorem insR_rel (R : α → β → Prop) (c1 : α → α → Res Bool) (c2 : β → β → Res Bool)
    (hc : ∀ a1 a2 b1 b2, R a1 a2 → R b1 b2 → c1 a1 b1 = c2 a2 b2) (x1 : α) (x2 : β) (hx : R x1 x2) :
    ∀ acc1 acc2, All2 R acc1 acc2 → RelRes (All2 R) (insR c1 x1 acc1) (insR c2 x2 acc2)
  | [], [], _ => by
    simp only [insR, RelRes]
    exact All2.cons hx All2.nil
  | y1 :: r1, y2 :: r2, h => by
    cases h with
    | cons hy hr =>
      have ih := insR_rel R c1 c2 hc x1 x2 hx r1 r2 hr
      unfold insR
      rw [hc x1 x2 y1 y2 hx hy]
      cases hcc : c2 x2 y2 with
      | ok b =>
        simp only [Res.bind_ok']
        by_cases hb : b = true
        · simp only [hb, if_true]
          revert ih
          cases insR c1 x1 r1 <;> cases insR c2 x2 r2 <;> simp [RelRes]
          intro ih
          exact All2.cons hy ih
        · have hb' : b = false := by simpa using hb
          subst hb'
          simp only [Res.pure_eq, Bool.false_eq_true, if_false, RelRes]
          exact All2.cons hx (All2.cons hy hr)
      | err e => simp [RelRes]
      | panic e => simp [RelRes]
      | diverge => simp [RelRes]

theorem sortFold_rel (R : α → β → Prop) (c1 : α → α → Res Bool) (c2 : β → β → Res Bool)
    (hc : ∀ a1 a2 b1 b2, R a1 a2 → R b1 b2 → c1 a1 b1 = c2 a2 b2) :
    ∀ l1 l2 acc1 acc2, All2 R l1 l2 → All2 R acc1 acc2 →
      RelRes (All2 R) (sortFold c1 acc1 l1) (sortFold c2 acc2 l2)
  | [], [], acc1, acc2, _, ha => by simpa [sortFold, RelRes] using ha
  | x1 :: r1, x2 :: r2, acc1, acc2, hl, ha => by
    cases hl with
    | cons hx hr =>
      have hi := insR_rel R c1 c2 hc x1 x2 hx acc1 acc2 ha
      unfold sortFold
      revert hi
      cases h1 : insR c1 x1 acc1 <;> cases h2 : insR c2 x2 acc2 <;> simp [RelRes]
      intro hi
      exact sortFold_rel R c1 c2 hc r1 r2 _ _ hr hi

theorem forall₂_reverse (R : α → β → Prop) : ∀ l1 l2, All2 R l1 l2 → All2 R l1.reverse l2.reverse := by
  intro l1 l2 h
  induction h with
  | nil => exact All2.nil
  | cons hx _ ih =>
    simp only [List.reverse_cons]
    exact All2.append ih (All2.cons hx All2.nil)

theorem sortRes_rel (R : α → β → Prop) (c1 : α → α → Res Bool) (c2 : β → β → Res Bool)
    (hc : ∀ a1 a2 b1 b2, R a1 a2 → R b1 b2 → c1 a1 b1 = c2 a2 b2) (l1 : List α) (l2 : List β)
    (hl : All2 R l1 l2) : RelRes (All2 R) (sortRes c1 l1) (sortRes c2 l2) := by
  have h := sortFold_rel R c1 c2 hc l1 l2 [] [] hl All2.nil
  unfold sortRes
  revert h
  cases sortFold c1 [] l1 <;> cases sortFold c2 [] l2 <;> simp [RelRes]
  intro h
  exact forall₂_reverse R _ _ h

end Relic.MsiDigest

/- line-protocol handler for the `C06 rec` ops: predicts, from the request and the configuration
   alone, every identity attribute of the audit record (or the refusal), by running the model
   `Relic.AuditRec.serveSign` / `signCmd` on the fixed universe that harness/c06/rec.go builds with
   real key files, certificates and a real "file" token.  Certificates are named by the
   identifiers the harness uses (A, A2, B, C, PA, PB). -/
import Relic.Model.AuditRec
namespace Relic.Driver.C06Rec
open Relic.AuditRec

def x (n : String) : Option X509Id := some ⟨n, n, n⟩
def p (n : String) : Option PgpId := some ⟨n, n⟩

/-- harness/c06/rec.go `recKeys` -/
def cfg : Config := ⟨[
  ("k1", { token := "ftok", keyFile := "A", x509 := x "A", pgp := p "PA", roles := ["rel"] }),
  ("k2", { token := "ftok", keyFile := "B", x509 := x "B", pgp := p "PB", roles := ["rel", "dev"] }),
  ("k3", { token := "ftok", keyFile := "C", x509 := x "C", roles := ["dev"] }),
  ("k1x", { token := "ftok", keyFile := "A", x509 := x "A2", roles := ["rel"] }),
  ("k2p", { token := "ftok", keyFile := "B", pgp := p "PB", roles := ["dev"] }),
  ("rel", { alias := "k1", token := "ftok", roles := ["dev"] }),
  ("prod", { alias := "k2" }),
  ("devk", { alias := "k3" }),
  ("aa", { alias := "rel" }),
  ("dangling", { alias := "kx" })]⟩

/-- harness/c06/rec.go `recClients`; the DN is printed with '_' for ' ' -/
def client (n : String) : Option Client :=
  if n = "alice" then some { name := "alice", roles := ["rel"] }
  else if n = "bob" then some { name := "bob", roles := ["dev"] }
  else if n = "carol" then some { name := "team", subject := "/C=XX/O=verif_c06/CN=verif_c06_client_carol", roles := ["rel", "dev"] }
  else if n = "carol2" then some { name := "team", subject := "/C=XX/O=verif_c06/CN=verif_c06_client_carol2", roles := ["rel", "dev"] }
  else if n = "dave" then some { name := "team", subject := "/C=XX/O=verif_c06/CN=verif_c06_client_dave", roles := ["rel", "dev"] }
  else none

/-- the signer modules linked into the harness (Name, Aliases, CertTypes of signers/*) -/
def mods : List SignerMod :=
  (["apk", "appmanifest", "cab", "cat", "cosign", "jar", "pe-coff", "pkcs7", "ps", "vsix", "xap"].map
      fun n => { name := n, needX509 := true }) ++
  [{ name := "msi", aliases := ["msi-tar"], needX509 := true }] ++
  (["deb", "pgp", "rpm"].map fun n => { name := n, needPgp := true })

/-- does the module's Sign accept the digest?  (apk: v2 scheme has SHA-256/512 only; go-crypto
    refuses MD5 and SHA-1 OpenPGP signatures except in rpm's own packet writer; xmldsig has no MD5) -/
def signAccepts (u : Used) : Option (List (String × String)) :=
  let ok :=
    if u.modName = "apk" then u.hash = .sha256 || u.hash = .sha512
    else if u.modName = "pgp" || u.modName = "deb" then u.hash != .md5 && u.hash != .sha1
    else if u.modName = "rpm" || u.modName = "vsix" || u.modName = "appmanifest" then u.hash != .md5
    else true
  if ok then some [("content-type", "application/x-binary-patch")] else none

def showOpt : Option String → String
  | none => "-"
  | some "" => "-"
  | some s => s

def certId (a b c : Option String) : String :=
  match a, b, c with
  | none, none, none => "-"
  | some u, some v, some w => if u = v ∧ v = w then u else "?"
  | _, _, _ => "?"

def pgpId (a b : Option String) : String :=
  match a, b with
  | none, none => "-"
  | some u, some v => if u = v then u else "?"
  | _, _ => "?"

def render (a : Attrs) : String :=
  let g := aget a
  s!"type={showOpt (g "sig.type")} key={showOpt (g "sig.keyname")} hash={showOpt (g "sig.hash")} " ++
  s!"x509={certId (g "sig.x509.fingerprint") (g "sig.x509.subject") (g "sig.x509.issuer")} " ++
  s!"pgp={pgpId (g "sig.pgp.fingerprint") (g "sig.pgp.entity")} " ++
  s!"cname={showOpt (g "client.name")} cdn={showOpt (g "client.dn")} cip={showOpt (g "client.ip")} " ++
  s!"file={showOpt (g "client.filename")}"

def dig (d : String) : String := if d = "-" then "" else d

def handle : List String → String
  | ["rec", "srv", key, sigtype, digest, cl0, fname] =>
    -- "a>b": the same request is first made by client a (its outcome is not reported), then by b, on the one running
    -- server; the record of a request depends on that request alone
    let cl := (cl0.splitOn ">").getLast!
    match client cl with
    | none => "err 401 #rec:srv:unauthenticated"
    | some c =>
      -- the file name travels as 'x' ++ hex; "x" alone is the empty name
      let req : Request := { key := key, filename := if fname = "x" then "" else fname, sigtype := sigtype,
                             digest := dig digest, remoteAddr := "127.0.0.1:4711" }
      match serveSign cfg mods c req "now" "host" signAccepts "0" "0" with
      | .error e => s!"err {e.status} #rec:srv:refused"
      | .ok (u, a) => s!"ok {render a} #rec:srv:{u.modName}"
  | ["rec", "cmd", key, sigtype, digest, _cl, fname] =>
    -- "-" = no --sig-type: signers.ByFile detects the type of the fixture (hello.ps1 -> ps)
    let m := if sigtype = "-" then byName mods "ps" else byName mods sigtype
    -- the harness renders the recorded name as x415247 (hex of ARG) when it equals the --file argument it passed
    let _ := fname
    match signCmd cfg m key (dig digest) "x415247" "now" "host" signAccepts with
    | .error _ => "err exit70 #rec:cmd:refused"
    | .ok (u, a) => s!"ok {render a} #rec:cmd:{u.modName}"
  | _ => "bad-op"

end Relic.Driver.C06Rec

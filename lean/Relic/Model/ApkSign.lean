/-
  Relic.Model.ApkBlock — the APK Signing Block as relic writes and reads it (signers/apk/digest.go `makeSigBlock`,
  verify.go `getSigBlock` and the id-value loop of `verify`, serializer.go's uint32-length-prefixed framing as far as
  needed to reach the digests of the first v2 signer), and the *specification's* view of a signed APK: where the
  block is (immediately before the central directory, found through the magic and the size field in front of it)
  and which byte strings are the integrity-protected sections 1, 3, 4 (contents of ZIP entries, central directory,
  end of central directory with the directory offset pointing at the signing block).
  The chunked digest itself is `Relic.Spec.ApkV2.digest`; hashes never run in Lean.
  Core Lean only.
-/
import Relic.Base.Bytes
import Relic.Spec.ApkV2
namespace Relic.ApkSign
open Relic

/-- "APK Sig Block 42" -/
def magic : Bytes := [65, 80, 75, 32, 83, 105, 103, 32, 66, 108, 111, 99, 107, 32, 52, 50]
def sigApkV2 : Nat := 0x7109871a

/-- `makeSigBlock`: size ‖ (size ‖ id ‖ value) ‖ size ‖ magic, one pair (the v2 signer list) -/
def makeSigBlock (sblob : Bytes) : Bytes :=
  leBytes 8 (8 + 4 + sblob.length + 8 + 16) ++ leBytes 8 (4 + sblob.length) ++ leBytes 4 sigApkV2 ++ sblob ++
  leBytes 8 (8 + 4 + sblob.length + 8 + 16) ++ magic

/-- the checks of `getSigBlock` on `blob = f[sigLoc:DirLoc]` (non-empty): the id-value area.
    `blob[len-24:]` and `blob[8:len-24]` are evaluated without a length check: a blob of 16..31 bytes that ends with
    the magic (and, from 24 bytes on, carries consistent size fields) makes the Go code panic. -/
def getSigBlock (blob : Bytes) : Res Bytes :=
  if !magic.isSuffixOf blob then .err "malformed"
  else if blob.length < 24 then .panic "getSigBlock:blob[len-24:]"
  else
    let expected := blob.length - 8
    let size1 := leVal (blob.take 8)
    let size2 := leVal ((blob.drop (blob.length - 24)).take 8)
    if size1 ≠ expected ∨ size2 ≠ expected then .err "malformed"
    else if blob.length < 32 then .panic "getSigBlock:blob[8:len-24]"
    else .ok ((blob.drop 8).take (blob.length - 32))

/-- the loop of `verify` over the id-value pairs -/
def pairs : Nat → Bytes → Res (List (Nat × Bytes))
  | 0, _ => .ok []
  | fuel + 1, block =>
    if block.isEmpty then .ok []
    else if block.length < 12 then .err "truncated"
    else
      let partSize := leVal (block.take 8)
      let rest := block.drop 8
      if partSize < 4 ∨ partSize > rest.length then .err "truncated"
      else
        match pairs fuel (rest.drop partSize) with
        | .ok ps => .ok ((leVal (rest.take 4), (rest.take partSize).drop 4) :: ps)
        | e => e

/-- one uint32-length-prefixed item: (content, remainder) -/
def lp (b : Bytes) : Option (Bytes × Bytes) :=
  if b.length < 4 then none
  else
    let n := leVal (b.take 4)
    if b.length < 4 + n then none else some ((b.drop 4).take n, b.drop (4 + n))

def digestList : Nat → Bytes → Option (List (Nat × Bytes))
  | 0, _ => some []
  | fuel + 1, b =>
    if b.isEmpty then some [] else do
      let (d, rest) ← lp b
      if d.length < 4 then none
      let (v, _) ← lp (d.drop 4)
      let more ← digestList fuel rest
      pure ((leVal (d.take 4), v) :: more)

/-- digests (algorithm id, value) in the signed data of the first signer of a v2 block value -/
def v2Digests (part : Bytes) : Option (List (Nat × Bytes)) := do
  let (signers, _) ← lp part
  let (signer0, _) ← lp signers
  let (sd, _) ← lp signer0
  let (digs, _) ← lp sd
  digestList digs.length digs

/-! ### the specification's view -/

def eocdSig : Bytes := [0x50, 0x4b, 0x05, 0x06]

/-- End of Central Directory: the last position `p` with the signature whose comment length reaches the end of file -/
def findEocd (f : Bytes) : Nat → Nat → Option Nat
  | 0, _ => none
  | fuel + 1, k =>
    if f.length < 22 + k then none
    else
      let p := f.length - 22 - k
      if (f.drop p).take 4 == eocdSig ∧ leVal ((f.drop (p + 20)).take 2) == k then some p
      else findEocd f fuel (k + 1)

structure Extents where
  /-- section 1: contents of ZIP entries = everything before the signing block -/
  contents : Bytes
  /-- section 2: the signing block (empty when the file is not v2-signed) -/
  block : Bytes
  /-- section 3 -/
  cdir : Bytes
  /-- section 4 as it is digested: the directory offset field holds the start of the signing block -/
  eocd : Bytes
  cdOff : Nat
  deriving Repr, DecidableEq

def extents (f : Bytes) : Res Extents :=
  match findEocd f 65536 0 with
  | none => .err "noeocd"
  | some p =>
    let cdSize := leVal ((f.drop (p + 12)).take 4)
    let cdOff := leVal ((f.drop (p + 16)).take 4)
    if cdOff + cdSize > p then .err "baddir"
    else
      let eocd := f.drop p
      let rebased (start : Nat) : Bytes := eocd.take 16 ++ leBytes 4 start ++ eocd.drop 20
      if cdOff ≥ 32 ∧ (f.drop (cdOff - 16)).take 16 == magic then
        let size2 := leVal ((f.drop (cdOff - 24)).take 8)
        if size2 + 8 > cdOff ∨ size2 < 24 then .err "badblock"
        else
          let start := cdOff - (size2 + 8)
          if leVal ((f.drop start).take 8) ≠ size2 then .err "badblock"
          else .ok { contents := f.take start, block := (f.drop start).take (size2 + 8), cdir := (f.drop cdOff).take cdSize,
                     eocd := rebased start, cdOff := cdOff }
      else .ok { contents := f.take cdOff, block := [], cdir := (f.drop cdOff).take cdSize, eocd := rebased cdOff, cdOff := cdOff }

def merkleBlock : Nat := 1048576

/-- the chunks whose digests make up the v2 content digest of `f` according to the specification -/
def specChunks (e : Extents) : List Bytes := Spec.ApkV2.chunkList merkleBlock e.contents e.cdir e.eocd

end Relic.ApkSign

/- The source text (whitespace-normalised, as tools/extractmagic prints it) of the functions that Relic.Model.Magic
   spells out by hand, as they were when the model was written.  Relic.Props.C01.generated_sources_eq compares the
   regenerated text with these: a change there means the model has to be read against the code again. -/
namespace Relic.Magic.Expected

def mzBody : String := "if blob, _ := br.Peek(0x3e); len(blob) == 0x3e { reloc := int(binary.LittleEndian.Uint16(blob[0x3c:0x3e])) if blob, err := br.Peek(reloc + 4); err == nil { if bytes.Equal(blob[reloc:reloc+4], []byte(\"PE\\x00\\x00\")) { return FileTypePECOFF } } }"

def getSigStyle : String := "func GetSigStyle(filename string) (PsSigStyle, bool) { style, ok := psExtMap[filepath.Ext(filename)] return style, ok }"

def helpers : List (String × String) := [
  ("hasPrefix", "func hasPrefix(br *bufio.Reader, blob []byte) bool { return atPosition(br, blob, 0) }"),
  ("contains", "func contains(br *bufio.Reader, blob []byte, n int) bool { d, _ := br.Peek(n) if len(d) < len(blob) { return false } return bytes.Contains(d, blob) }"),
  ("atPosition", "func atPosition(br *bufio.Reader, blob []byte, n int) bool { l := n + len(blob) d, _ := br.Peek(l) if len(d) < l { return false } return bytes.Equal(d[n:], blob) }"),
  ("isTar", "func isTar(br *bufio.Reader) bool { return atPosition(br, []byte(\"ustar\"), 257) }"),
  ("detectTar", "func detectTar(r io.Reader) FileType { return FileTypeUnknown }"),
  ("DetectCompressed", "func DetectCompressed(f *os.File) (FileType, CompressionType) { br := bufio.NewReader(f) ftype := FileTypeUnknown switch { case hasPrefix(br, []byte{0x1f, 0x8b}): return ftype, CompressedGzip case hasPrefix(br, []byte(\"\\xfd7zXZ\\x00\")): return ftype, CompressedXz case hasPrefix(br, []byte{0x50, 0x4b, 0x03, 0x04}): return detectZip(f), CompressedNone } return Detect(br), CompressedNone }"),
  ("detectZip", "func detectZip(f *os.File) FileType { size, err := f.Seek(0, io.SeekEnd) if err != nil { return FileTypeUnknown } inz, err := zip.NewReader(f, size) if err != nil { return FileTypeUnknown } var isJar bool for _, zf := range inz.File { name := zf.Name if strings.HasPrefix(name, \"/\") { name = \".\" + name } name = path.Clean(name) switch name { case \"AndroidManifest.xml\": return FileTypeAPK case \"AppManifest.xaml\": return FileTypeXAP case \"AppxManifest.xml\", \"AppxMetadata/AppxBundleManifest.xml\": return FileTypeAPPX case \"extension.vsixmanifest\": return FileTypeVSIX case \"META-INF/MANIFEST.MF\": isJar = true } switch { case strings.HasSuffix(name, \".app/Info.plist\"): return FileTypeIPA case strings.HasSuffix(name, \".app/Contents/Info.plist\"): return FileTypeIPA } } if isJar { return FileTypeJAR } return FileTypeUnknown }"),
  ("Decompress", "func Decompress(r io.Reader, ctype CompressionType) (io.Reader, error) { switch ctype { case CompressedNone: return r, nil case CompressedGzip: return gzip.NewReader(r) case CompressedXz: return xz.NewReader(r, 0) default: return nil, errors.New(\"invalid compression type\") } }")
]

def lookups : List (String × String) := [
  ("ByName", "func ByName(name string) *Signer { for _, s := range registered { if s.Name == name { return s } for _, n2 := range s.Aliases { if n2 == name { return s } } } return nil }"),
  ("ByMagic", "func ByMagic(m magic.FileType) *Signer { if m == magic.FileTypeUnknown { return nil } for _, s := range registered { if s.Magic == m { return s } } return nil }"),
  ("ByFileName", "func ByFileName(name string) *Signer { for _, s := range registered { if s.TestPath != nil && s.TestPath(name) { return s } } return nil }"),
  ("ByFile", "func ByFile(name, sigtype string) (*Signer, error) { if sigtype != \"\" { mod := ByName(sigtype) if mod == nil { return nil, errors.New(\"no signer with that name\") } return mod, nil } if name == \"-\" { return nil, errors.New(\"reading from standard input is not supported\") } f, err := os.Open(name) if err != nil { return nil, err } defer f.Close() fileType, compressionType := magic.DetectCompressed(f) if compressionType != magic.CompressedNone { return nil, errors.New(\"cannot sign compressed file\") } if mod := ByMagic(fileType); mod != nil { return mod, nil } else if mod := ByFileName(name); mod != nil { return mod, nil } return nil, errors.New(\"unknown filetype\") }")
]

end Relic.Magic.Expected

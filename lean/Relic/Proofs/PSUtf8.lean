/-
  PowerShell digest of UTF-8 scripts (C02 `ps_hashed_injective_utf8`): for text that is valid UTF-8 the stream fed
  to the hash is the UTF-16LE encoding of the text's characters, whatever the division into lines, and UTF-16 is a
  prefix code on Unicode scalar values – so equal streams mean equal text.
-/
import Relic.Proofs.PS
namespace Relic.PS
open Relic

/-! ### `utf8.DecodeRune`, restated -/

theorem ofNat_toNat_lt (n : Nat) (h : n < 256) : (UInt8.ofNat n).toNat = n := by
  simp [Nat.mod_eq_of_lt h]

def clsOf (x0 : Nat) : Option (Nat × Nat × Nat) :=
    if x0 < 0xC2 then none
    else if x0 < 0xE0 then some (2, 0x80, 0xBF)
    else if x0 = 0xE0 then some (3, 0xA0, 0xBF)
    else if x0 = 0xED then some (3, 0x80, 0x9F)
    else if x0 < 0xF0 then some (3, 0x80, 0xBF)
    else if x0 = 0xF0 then some (4, 0x90, 0xBF)
    else if x0 < 0xF4 then some (4, 0x80, 0xBF)
    else if x0 = 0xF4 then some (4, 0x80, 0x8F)
    else none

def contB (b : Nat) : Bool := 0x80 ≤ b ∧ b ≤ 0xBF

def decBody (x0 : Nat) (rest : Bytes) : Option (Nat × Nat × Nat) → Nat × Nat
  | none => (0xFFFD, 1)
  | some (size, lo, hi) =>
    if rest.length + 1 < size then (0xFFFD, 1) else
    match rest with
    | b1 :: r1 =>
      if b1.toNat < lo ∨ hi < b1.toNat then (0xFFFD, 1) else
      if size = 2 then ((x0 % 32) * 64 + b1.toNat % 64, 2) else
      match r1 with
      | b2 :: r2 =>
        if !contB b2.toNat then (0xFFFD, 1) else
        if size = 3 then ((x0 % 16) * 4096 + (b1.toNat % 64) * 64 + b2.toNat % 64, 3) else
        match r2 with
        | b3 :: _ =>
          if !contB b3.toNat then (0xFFFD, 1) else
          ((x0 % 8) * 262144 + (b1.toNat % 64) * 4096 + (b2.toNat % 64) * 64 + b3.toNat % 64, 4)
        | [] => (0xFFFD, 1)
      | [] => (0xFFFD, 1)
    | [] => (0xFFFD, 1)

theorem decodeRune_eq (x : UInt8) (rest : Bytes) :
    decodeRune x rest = if x.toNat < 0x80 then (x.toNat, 1) else decBody x.toNat rest (clsOf x.toNat) := by
  unfold decodeRune
  simp only []
  split
  · rfl
  · rfl

/-! ### decoding what `utf8EncodeChar` wrote -/

theorem dec1 (v : Nat) (rest : Bytes) (h : v ≤ 0x7f) : decodeRune (UInt8.ofNat v) rest = (v, 1) := by
  rw [decodeRune_eq, ofNat_toNat_lt v (by omega), if_pos (by omega)]

theorem dec2 (v : Nat) (rest : Bytes) (h1 : 0x7f < v) (h2 : v ≤ 0x7ff) :
    decodeRune (UInt8.ofNat (v / 64 % 0x20 + 0xc0)) (UInt8.ofNat (v % 0x40 + 0x80) :: rest) = (v, 2) := by
  have e0 : (UInt8.ofNat (v / 64 % 0x20 + 0xc0)).toNat = v / 64 % 0x20 + 0xc0 := ofNat_toNat_lt _ (by omega)
  have e1 : (UInt8.ofNat (v % 0x40 + 0x80)).toNat = v % 0x40 + 0x80 := ofNat_toNat_lt _ (by omega)
  have hc : clsOf (v / 64 % 0x20 + 0xc0) = some (2, 0x80, 0xBF) := by
    unfold clsOf; rw [if_neg (by omega), if_pos (by omega)]
  rw [decodeRune_eq, e0, if_neg (by omega), hc]
  simp only [decBody, List.length_cons, e1]
  rw [if_neg (by omega), if_neg (by omega), if_pos trivial]
  congr 1; omega

theorem dec3 (v : Nat) (rest : Bytes) (h1 : 0x7ff < v) (h2 : v ≤ 0xffff) (hs : v < 0xD800 ∨ 0xE000 ≤ v) :
    decodeRune (UInt8.ofNat (v / 4096 % 0x10 + 0xe0))
      (UInt8.ofNat (v / 64 % 0x40 + 0x80) :: UInt8.ofNat (v % 0x40 + 0x80) :: rest) = (v, 3) := by
  have e0 : (UInt8.ofNat (v / 4096 % 0x10 + 0xe0)).toNat = v / 4096 % 0x10 + 0xe0 := ofNat_toNat_lt _ (by omega)
  have e1 : (UInt8.ofNat (v / 64 % 0x40 + 0x80)).toNat = v / 64 % 0x40 + 0x80 := ofNat_toNat_lt _ (by omega)
  have e2 : (UInt8.ofNat (v % 0x40 + 0x80)).toNat = v % 0x40 + 0x80 := ofNat_toNat_lt _ (by omega)
  have hc : ∃ lo hi, clsOf (v / 4096 % 0x10 + 0xe0) = some (3, lo, hi) ∧ lo ≤ v / 64 % 0x40 + 0x80 ∧ v / 64 % 0x40 + 0x80 ≤ hi := by
    unfold clsOf
    rw [if_neg (by omega), if_neg (by omega)]
    by_cases c1 : v / 4096 % 0x10 + 0xe0 = 0xE0
    · rw [if_pos c1]; exact ⟨_, _, rfl, by omega, by omega⟩
    · rw [if_neg c1]
      by_cases c2 : v / 4096 % 0x10 + 0xe0 = 0xED
      · rw [if_pos c2]; exact ⟨_, _, rfl, by omega, by omega⟩
      · rw [if_neg c2, if_pos (by omega)]; exact ⟨_, _, rfl, by omega, by omega⟩
  obtain ⟨lo, hi, hc, hlo, hhi⟩ := hc
  rw [decodeRune_eq, e0, if_neg (by omega), hc]
  simp only [decBody, List.length_cons, e1, e2, contB]
  rw [if_neg (by omega), if_neg (by omega), if_neg (by omega)]
  have : (decide (128 ≤ v % 64 + 128 ∧ v % 64 + 128 ≤ 191)) = true := by simp; omega
  simp only [this, Bool.not_true, Bool.false_eq_true, if_false, if_true]
  congr 1; omega

theorem dec4 (v : Nat) (rest : Bytes) (h1 : 0xffff < v) (h2 : v < 0x110000) :
    decodeRune (UInt8.ofNat (v / 262144 % 0x08 + 0xf0))
      (UInt8.ofNat (v / 4096 % 0x40 + 0x80) :: UInt8.ofNat (v / 64 % 0x40 + 0x80) :: UInt8.ofNat (v % 0x40 + 0x80) :: rest)
      = (v, 4) := by
  have e0 : (UInt8.ofNat (v / 262144 % 0x08 + 0xf0)).toNat = v / 262144 % 0x08 + 0xf0 := ofNat_toNat_lt _ (by omega)
  have e1 : (UInt8.ofNat (v / 4096 % 0x40 + 0x80)).toNat = v / 4096 % 0x40 + 0x80 := ofNat_toNat_lt _ (by omega)
  have e2 : (UInt8.ofNat (v / 64 % 0x40 + 0x80)).toNat = v / 64 % 0x40 + 0x80 := ofNat_toNat_lt _ (by omega)
  have e3 : (UInt8.ofNat (v % 0x40 + 0x80)).toNat = v % 0x40 + 0x80 := ofNat_toNat_lt _ (by omega)
  have hc : ∃ lo hi, clsOf (v / 262144 % 0x08 + 0xf0) = some (4, lo, hi) ∧ lo ≤ v / 4096 % 0x40 + 0x80 ∧ v / 4096 % 0x40 + 0x80 ≤ hi := by
    unfold clsOf
    rw [if_neg (by omega), if_neg (by omega), if_neg (by omega), if_neg (by omega), if_neg (by omega)]
    by_cases c1 : v / 262144 % 0x08 + 0xf0 = 0xF0
    · rw [if_pos c1]; exact ⟨_, _, rfl, by omega, by omega⟩
    · rw [if_neg c1]
      by_cases c2 : v / 262144 % 0x08 + 0xf0 < 0xF4
      · rw [if_pos c2]; exact ⟨_, _, rfl, by omega, by omega⟩
      · rw [if_neg c2, if_pos (by omega)]; exact ⟨_, _, rfl, by omega, by omega⟩
  obtain ⟨lo, hi, hc, hlo, hhi⟩ := hc
  rw [decodeRune_eq, e0, if_neg (by omega), hc]
  simp only [decBody, List.length_cons, e1, e2, e3, contB]
  rw [if_neg (by omega), if_neg (by omega), if_neg (by omega)]
  have t2 : (decide (128 ≤ v / 64 % 64 + 128 ∧ v / 64 % 64 + 128 ≤ 191)) = true := by simp; omega
  have t3 : (decide (128 ≤ v % 64 + 128 ∧ v % 64 + 128 ≤ 191)) = true := by simp; omega
  simp only [t2, t3, Bool.not_true, Bool.false_eq_true, if_false]
  rw [if_neg (by omega)]
  congr 1; omega

/-- Unicode scalar value -/
def Scalar (v : Nat) : Prop := v < 0xD800 ∨ (0xE000 ≤ v ∧ v < 0x110000)

theorem char_scalar (c : Char) : Scalar c.val.toNat := by
  have := c.valid
  unfold UInt32.isValidChar Nat.isValidChar at this
  exact this

/-- the UTF-8 encoding of a character decodes to the character, whatever follows -/
theorem decode_enc (c : Char) (rest : Bytes) :
    ∃ x tl, String.utf8EncodeChar c = x :: tl ∧ decodeRune x (tl ++ rest) = (c.val.toNat, tl.length + 1) ∧
      (tl = [] ∧ x.toNat < 0x80 ∨ ∀ b ∈ x :: tl, 0x80 ≤ b.toNat) := by
  have hs := char_scalar c
  unfold Scalar at hs
  generalize hv : c.val.toNat = v at hs
  unfold String.utf8EncodeChar
  simp only [hv]
  by_cases h1 : v ≤ 0x7f
  · rw [if_pos h1]
    exact ⟨_, _, rfl, by simpa using dec1 v rest h1, Or.inl ⟨rfl, by rw [ofNat_toNat_lt v (by omega)]; omega⟩⟩
  · rw [if_neg h1]
    by_cases h2 : v ≤ 0x7ff
    · rw [if_pos h2]
      refine ⟨_, _, rfl, by simpa using dec2 v rest (by omega) h2, Or.inr ?_⟩
      intro b hb
      simp only [List.mem_cons, List.not_mem_nil, or_false] at hb
      rcases hb with rfl | rfl <;> (rw [ofNat_toNat_lt _ (by omega)]; omega)
    · rw [if_neg h2]
      by_cases h3 : v ≤ 0xffff
      · rw [if_pos h3]
        refine ⟨_, _, rfl, by simpa using dec3 v rest (by omega) h3 (by omega), Or.inr ?_⟩
        intro b hb
        simp only [List.mem_cons, List.not_mem_nil, or_false] at hb
        rcases hb with rfl | rfl | rfl <;> (rw [ofNat_toNat_lt _ (by omega)]; omega)
      · rw [if_neg h3]
        refine ⟨_, _, rfl, by simpa using dec4 v rest (by omega) (by omega), Or.inr ?_⟩
        intro b hb
        simp only [List.mem_cons, List.not_mem_nil, or_false] at hb
        rcases hb with rfl | rfl | rfl | rfl <;> (rw [ofNat_toNat_lt _ (by omega)]; omega)

/-! ### `toUtf16` on encoded characters -/

theorem toUtf16_skip : ∀ (s : Nat) (l : Bytes), toUtf16 s l = toUtf16 0 (l.drop s)
  | 0, l => by simp
  | s + 1, [] => by simp [toUtf16]
  | s + 1, _ :: rest => by rw [toUtf16, toUtf16_skip s rest]; rfl

def enc8 (cs : List Char) : Bytes := cs.flatMap String.utf8EncodeChar
def enc16 (cs : List Char) : Bytes := cs.flatMap (fun c => encUnit c.val.toNat)

theorem toUtf16_char (c : Char) (rest : Bytes) :
    toUtf16 0 (String.utf8EncodeChar c ++ rest) = encUnit c.val.toNat ++ toUtf16 0 rest := by
  obtain ⟨x, tl, he, hd, _⟩ := decode_enc c rest
  rw [he, List.cons_append, toUtf16]
  simp only [hd, Nat.add_sub_cancel]
  rw [toUtf16_skip, List.drop_left]

/-- **valid UTF-8 is hashed as the UTF-16LE encoding of its characters**, whatever follows -/
theorem toUtf16_enc8 (cs : List Char) (rest : Bytes) : toUtf16 0 (enc8 cs ++ rest) = enc16 cs ++ toUtf16 0 rest := by
  induction cs with
  | nil => rfl
  | cons c cs ih =>
    simp only [enc8, enc16, List.flatMap_cons, List.append_assoc] at ih ⊢
    rw [toUtf16_char, ih]

/-- a piece that ends with a line feed (or is empty) and is followed by `R`, the whole being valid UTF-8, is
    itself valid UTF-8, and so is `R`: a line feed byte is always a character of its own -/
theorem split_at_lf : ∀ (cs : List Char) (l R : Bytes), l ++ R = enc8 cs → (l = [] ∨ l.getLast? = some 10) →
    ∃ cs1 cs2, l = enc8 cs1 ∧ R = enc8 cs2
  | cs, [], R, h, _ => ⟨[], cs, rfl, by simpa using h⟩
  | [], b :: l, R, h, _ => by simp [enc8] at h
  | c :: cs, b :: l, R, h, hl => by
    have hlast : (b :: l).getLast? = some 10 := by
      rcases hl with hl | hl
      · cases hl
      · exact hl
    obtain ⟨x, tl, he, _, hb⟩ := decode_enc c []
    simp only [enc8, List.flatMap_cons] at h
    rcases List.append_eq_append_iff.mp h with ⟨a, h1, h2⟩ | ⟨a, h1, h2⟩
    · -- the piece ends inside (or at the end of) the first character
      have hmem : (10 : UInt8) ∈ String.utf8EncodeChar c := by
        rw [h1]
        exact List.mem_append_left _ (List.mem_of_getLast? hlast)
      rw [he] at hmem h1
      rcases hb with ⟨htl, _⟩ | hb
      · subst htl
        have : b :: l = [x] ∧ a = [] := by
          cases l with
          | nil => simp at h1; exact ⟨by rw [h1.1], h1.2⟩
          | cons _ _ => simp at h1
        refine ⟨[c], cs, ?_, ?_⟩
        · simp [enc8, he, this.1]
        · rw [h2, this.2]; rfl
      · have := hb 10 hmem
        simp at this
    · have ha : a = [] ∨ a.getLast? = some 10 := by
        cases a with
        | nil => exact Or.inl rfl
        | cons y a' =>
          right
          rw [h1, List.getLast?_append] at hlast
          cases hq : (y :: a').getLast? with
          | none => simp at hq
          | some z => rw [hq] at hlast; simpa using hlast
      obtain ⟨cs1, cs2, e1, e2⟩ := split_at_lf cs a R h2.symm ha
      refine ⟨c :: cs1, cs2, ?_, e2⟩
      rw [h1, e1]; simp [enc8]

/-! ### UTF-16 is a prefix code on scalar values -/

theorem ofNat_inj_lt {n m : Nat} (hn : n < 256) (hm : m < 256) (h : UInt8.ofNat n = UInt8.ofNat m) : n = m := by
  have := congrArg UInt8.toNat h
  rwa [ofNat_toNat_lt n hn, ofNat_toNat_lt m hm] at this

theorem le2_prefix {n m : Nat} (hn : n < 65536) (hm : m < 65536) {A B : Bytes}
    (h : leBytes 2 n ++ A = leBytes 2 m ++ B) : n = m ∧ A = B := by
  simp only [leBytes, List.cons_append, List.nil_append, List.cons.injEq] at h
  obtain ⟨h1, h2, h3⟩ := h
  have a := ofNat_inj_lt (Nat.mod_lt _ (by decide)) (Nat.mod_lt _ (by decide)) h1
  have b := ofNat_inj_lt (Nat.mod_lt _ (by decide)) (Nat.mod_lt _ (by decide)) h2
  exact ⟨by omega, h3⟩

theorem encUnit_prefix {v w : Nat} (hv : Scalar v) (hw : Scalar w) {A B : Bytes}
    (h : encUnit v ++ A = encUnit w ++ B) : v = w ∧ A = B := by
  unfold Scalar at hv hw
  unfold encUnit at h
  by_cases h1 : v < 0x10000
  · by_cases h2 : w < 0x10000
    · rw [if_pos h1, if_pos h2] at h
      exact le2_prefix h1 h2 h
    · rw [if_pos h1, if_neg h2, List.append_assoc] at h
      have := (le2_prefix h1 (by omega) h).1
      omega
  · by_cases h2 : w < 0x10000
    · rw [if_neg h1, if_pos h2, List.append_assoc] at h
      have := (le2_prefix (by omega) h2 h).1
      omega
    · rw [if_neg h1, if_neg h2, List.append_assoc, List.append_assoc] at h
      obtain ⟨e1, h'⟩ := le2_prefix (by omega) (by omega) h
      obtain ⟨e2, h''⟩ := le2_prefix (by omega) (by omega) h'
      exact ⟨by omega, h''⟩

theorem encUnit_ne_nil (v : Nat) : encUnit v ≠ [] := by
  unfold encUnit; split <;> simp [leBytes]

theorem enc16_inj : ∀ (a b : List Char), enc16 a = enc16 b → a = b
  | [], [], _ => rfl
  | [], c :: b, h => by
    simp only [enc16, List.flatMap_nil, List.flatMap_cons] at h
    exact absurd (List.append_eq_nil_iff.mp h.symm).1 (encUnit_ne_nil _)
  | c :: a, [], h => by
    simp only [enc16, List.flatMap_nil, List.flatMap_cons] at h
    exact absurd (List.append_eq_nil_iff.mp h).1 (encUnit_ne_nil _)
  | c :: a, d :: b, h => by
    simp only [enc16, List.flatMap_cons] at h
    obtain ⟨e, h'⟩ := encUnit_prefix (char_scalar c) (char_scalar d) h
    have : c = d := Char.ext (UInt32.toNat_inj.mp e)
    rw [this, enc16_inj a b h']

/-! ### the digest loop on UTF-8 text -/

/-- empty, or ending with a line feed -/
def EndsLF (l : Bytes) : Prop := l = [] ∨ l.getLast? = some 10

theorem lines8_ne_nil : ∀ (f cur : Bytes), lines8 cur f ≠ []
  | [], cur => by simp [lines8]
  | b :: bs, cur => by
    simp only [lines8]
    split
    · simp
    · exact lines8_ne_nil bs _

theorem lines8_endsLF : ∀ (f cur : Bytes), ∀ it ∈ (lines8 cur f).dropLast, EndsLF (itemBytes it)
  | [], cur => by simp [lines8]
  | b :: bs, cur => by
    simp only [lines8]
    split
    · intro it hit
      have hne : lines8 [] bs ≠ [] := lines8_ne_nil bs []
      rw [List.dropLast_cons_of_ne_nil hne] at hit
      rcases List.mem_cons.mp hit with rfl | hit
      · right; simp [itemBytes]
      · exact lines8_endsLF bs [] it hit
    · exact lines8_endsLF bs (cur ++ [b])

/-- what the loop feeds to the hash for non-UTF-16 text: the text cut into pieces that end with a line feed (and a
    last piece), each converted on its own -/
theorem digestLoop_stream8 (first : Bytes) (k flen : Nat) (items : List Item) (saved h : Bytes) (ts pos : Nat)
    (H : Bytes) (T S : Nat) (e : digestLoop true true first false k flen items saved h ts pos = .ok (H, T, S))
    (F : Bytes) (done : List Bytes) (hF : F = done.flatten ++ saved ++ joinItems items)
    (hh : h = done.flatMap (toUtf16 0)) (hts : ts = done.flatten.length) (hd : ∀ l ∈ done, EndsLF l)
    (hs : EndsLF saved ∨ items = []) (hi : ∀ it ∈ items.dropLast, EndsLF (itemBytes it)) :
    ∃ (done' : List Bytes) (s : Bytes), F.take T = done'.flatten ++ s ∧
      H = done'.flatMap (toUtf16 0) ++ toUtf16 0 s ∧ ∀ l ∈ done', EndsLF l := by
  induction items generalizing saved h ts pos done with
  | nil =>
    simp only [digestLoop, conv, Bool.false_eq_true, if_false] at e
    injection e with e; injection e with e1 e2; injection e2 with e2 e3
    refine ⟨done, saved, ?_, by rw [← e1, hh], hd⟩
    subst hF; subst e2; subst hts
    simp only [joinItems, List.flatMap_nil, List.append_nil]
    rw [← List.length_append, List.take_length]
  | cons it rest ih =>
    cases it with
    | bad => simp [digestLoop] at e
    | line l phys =>
      simp only [digestLoop] at e
      split at e
      · split at e
        · simp at e
        · rename_i hk
          split at e
          · simp at e
          · injection e with e; injection e with e1 e2; injection e2 with e2 e3
            refine ⟨done, saved.take (saved.length - k), ?_, by rw [← e1, hh]; simp [conv], hd⟩
            subst hF; subst e2; subst hts
            simp only [List.length_take, List.append_assoc]
            have : min (saved.length - k) saved.length = saved.length - k := by omega
            rw [this, take_mid done.flatten saved _ _ (by omega)]
      · have hsv : EndsLF saved := by
          rcases hs with hs | hs
          · exact hs
          · cases hs
        refine ih l (h ++ conv false saved) (ts + saved.length) (pos + phys) e (done ++ [saved]) ?_ ?_ ?_ ?_ ?_ ?_
        · subst hF; simp [joinItems, itemBytes, List.append_assoc]
        · subst hh; simp [conv]
        · subst hts; simp
        · intro x hx
          rcases List.mem_append.mp hx with hx | hx
          · exact hd x hx
          · simp only [List.mem_singleton] at hx; subst hx; exact hsv
        · cases rest with
          | nil => exact Or.inr rfl
          | cons r rs =>
            left
            have := hi (.line l phys) (by simp [List.dropLast])
            simpa [itemBytes] using this
        · intro x hx
          apply hi
          cases rest with
          | nil => simp at hx
          | cons r rs => rw [List.dropLast_cons_of_ne_nil (by simp)]; exact List.mem_cons_of_mem _ hx

/-- pieces cut at line feeds, converted one by one, give the conversion of the whole when the whole is valid -/
theorem pieces_enc16 : ∀ (done : List Bytes) (s : Bytes) (cs : List Char), done.flatten ++ s = enc8 cs →
    (∀ l ∈ done, EndsLF l) → done.flatMap (toUtf16 0) ++ toUtf16 0 s = enc16 cs
  | [], s, cs, h, _ => by
    simp only [List.flatten_nil, List.nil_append] at h
    have := toUtf16_enc8 cs []
    simp only [List.append_nil, toUtf16] at this
    simp [h, this]
  | l :: done, s, cs, h, hd => by
    simp only [List.flatten_cons, List.append_assoc] at h
    obtain ⟨c1, c2, e1, e2⟩ := split_at_lf cs l _ h (hd l (by simp))
    have ih := pieces_enc16 done s c2 e2 (fun x hx => hd x (by simp [hx]))
    have t1 : toUtf16 0 l = enc16 c1 := by
      have := toUtf16_enc8 c1 []
      simp only [List.append_nil, toUtf16] at this
      rw [e1, this]
    have t2 : enc16 cs = enc16 c1 ++ enc16 c2 := by
      have a := toUtf16_enc8 cs []
      have b := toUtf16_enc8 c1 (enc8 c2)
      have c := toUtf16_enc8 c2 []
      simp only [List.append_nil, toUtf16] at a c
      rw [← a, ← h, e1, e2, b, c]
    simp only [List.flatMap_cons, List.append_assoc]
    rw [t1, ih, t2]

/-- valid UTF-8 text: what Lean's `String` holds -/
def IsUtf8 (t : Bytes) : Prop := ∃ cs : List Char, t = enc8 cs

theorem DigestPS_stream8 (f : Bytes) (style : Nat) (d : Digest) (e : DigestPS f style = .ok d) (hu : d.utf16 = false)
    (cs : List Char) (hv : f.take d.textSize = enc8 cs) : d.hashed = enc16 cs := by
  unfold DigestPS digestWith at e
  cases hs : styleOf style with
  | none => simp [hs] at e
  | some se =>
    obtain ⟨st, en⟩ := se
    simp only [hs] at e
    cases hl : digestLoop true true (firstLine st en (isUtf16 f)) (isUtf16 f) (if isUtf16 f = true then 4 else 2) f.length
        (if isUtf16 f = true then lines16 [] f else lines8 [] f) [] [] 0 0 with
    | err _ => simp [hl] at e
    | panic _ => simp [hl] at e
    | diverge => simp [hl] at e
    | ok v =>
      obtain ⟨H, T, S⟩ := v
      simp only [hl] at e
      injection e with e
      subst e
      simp only at hu hv ⊢
      rw [hu] at hl
      simp only [Bool.false_eq_true, if_false] at hl
      obtain ⟨done', s, h1, h2, h3⟩ := digestLoop_stream8 _ _ _ _ _ _ _ _ H T S hl f [] (by
          simp [(lines8_join [] f).1]) rfl rfl (by simp) (Or.inl (Or.inl rfl)) (lines8_endsLF f [])
      rw [h2]
      exact pieces_enc16 done' s cs (by rw [← h1, hv]) h3

/-! ### Lean's `String` as the validity predicate -/

theorem ba_loop (bs : ByteArray) (i : Nat) (r : List UInt8) :
    ByteArray.toList.loop bs i r = r.reverse ++ bs.data.toList.drop i := by
  fun_induction ByteArray.toList.loop bs i r with
  | case1 i r h ih =>
    rw [ih]
    have hi : i < bs.data.size := h
    have hi' : i < bs.data.toList.length := by rw [Array.length_toList]; exact hi
    have e : bs.get! i = bs.data.toList[i] := by
      show bs.data[i]! = _
      rw [getElem!_pos bs.data i hi, Array.getElem_toList]
    rw [e, List.reverse_cons, List.append_assoc, List.drop_eq_getElem_cons hi']
    rfl
  | case2 i r h =>
    have h' : ¬ i < bs.data.size := h
    have : bs.data.toList.length ≤ i := by rw [Array.length_toList]; omega
    rw [List.drop_eq_nil_of_le this, List.append_nil]

theorem toList_toByteArray (l : List UInt8) : l.toByteArray.toList = l := by
  unfold ByteArray.toList
  rw [ba_loop, List.data_toByteArray]
  rfl

theorem isUtf8_of_string (t : Bytes) (h : ∃ s : String, s.toUTF8.toList = t) : IsUtf8 t := by
  obtain ⟨s, rfl⟩ := h
  obtain ⟨m, hm⟩ := s.isValidUTF8
  refine ⟨m, ?_⟩
  rw [String.toUTF8_eq_toByteArray, hm]
  exact toList_toByteArray _

theorem isUtf8_iff_string (t : Bytes) : IsUtf8 t ↔ ∃ s : String, s.toUTF8.toList = t := by
  constructor
  · rintro ⟨cs, rfl⟩
    refine ⟨String.ofList cs, ?_⟩
    rw [String.toUTF8_eq_toByteArray]
    show (String.ofList cs).toByteArray.toList = _
    rw [show (String.ofList cs).toByteArray = cs.utf8Encode from rfl]
    exact toList_toByteArray _
  · exact isUtf8_of_string t

end Relic.PS

/-
  Relic.Proofs.Pgp — relic's packet header writer against the RFC 4880 reader of Relic.Spec.OpenPgp.
  Central lemma: `parsePacket_serialize` (a packet written by serializeHeader reads back as the same tag and body,
  whatever follows).
-/
import Relic.Model.Pgp
import Relic.Spec.OpenPgp
import Relic.Proofs.Codec
namespace Relic.Pgp
open Relic Relic.Spec.OpenPgp

theorem tagOctet (p : Nat) (h : p < 64) : ((0xC0 : UInt8) ||| UInt8.ofNat p).toNat = 192 + p := by
  have : ∀ q : Fin 64, ((0xC0 : UInt8) ||| UInt8.ofNat q.val).toNat = 192 + q.val := by decide
  exact this ⟨p, h⟩

theorem serializeLength_length (n : Nat) :
    (serializeLength n).length = if n < 192 then 1 else if n < 8384 then 2 else 5 := by
  unfold serializeLength
  split
  · rfl
  · split <;> rfl

/-- **the length octets relic writes decode (RFC 4880 §4.2.2) to the length, in the prescribed form** -/
theorem decodeLength_serialize (n : Nat) (h : n < 2 ^ 32) (rest : Bytes) :
    decodeLength (serializeLength n ++ rest) = some (prescribedForm n, n, rest) := by
  unfold serializeLength prescribedForm
  by_cases h1 : n < 192
  · have e : (UInt8.ofNat n).toNat = n := by rw [UInt8.toNat_ofNat']; omega
    have h1' : n ≤ 191 := by omega
    simp only [h1, h1', if_true, List.cons_append, List.nil_append, decodeLength, e]
  · by_cases h2 : n < 8384
    · have e1 : (UInt8.ofNat (192 + (n - 192) / 256)).toNat = 192 + (n - 192) / 256 := by
        rw [UInt8.toNat_ofNat']; omega
      have e2 : (UInt8.ofNat (n - 192)).toNat = (n - 192) % 256 := by rw [UInt8.toNat_ofNat']
      have a1 : ¬ (192 + (n - 192) / 256 < 192) := by omega
      have a2 : 192 + (n - 192) / 256 < 224 := by omega
      have h1' : ¬ n ≤ 191 := by omega
      have h2' : n ≤ 8383 := by omega
      simp only [h1, h2, h1', h2', if_true, if_false, List.cons_append, List.nil_append, decodeLength, e1, e2, a1, a2]
      have : (192 + (n - 192) / 256 - 192) * 256 + (n - 192) % 256 + 192 = n := by omega
      rw [this]
    · have p24 : (2 : Nat) ^ 24 = 16777216 := by simp
      have p16 : (2 : Nat) ^ 16 = 65536 := by simp
      have p8 : (2 : Nat) ^ 8 = 256 := by simp
      have p32 : (2 : Nat) ^ 32 = 4294967296 := by simp
      rw [p32] at h
      have e0 : (255 : UInt8).toNat = 255 := by decide
      have h1' : ¬ n ≤ 191 := by omega
      have h2' : ¬ n ≤ 8383 := by omega
      simp only [h1, h2, h1', h2', if_false, List.cons_append, List.nil_append, decodeLength, e0, UInt8.toNat_ofNat', p24, p16, p8]
      simp only [show ¬ (255 < 192) by decide, show ¬ (255 < 224) by decide, show ¬ (255 < 255) by decide, if_false]
      have : n / 16777216 % 256 * 16777216 + n / 65536 % 256 * 65536 + n / 256 % 256 * 256 + n % 256 = n := by omega
      rw [this]

theorem readBody_serialize (n : Nat) (h : n < 2 ^ 32) (body rest : Bytes) (hb : body.length = n) (fuel : Nat) :
    readBody (fuel + 1) (serializeLength n ++ (body ++ rest)) = some (body, rest) := by
  unfold readBody
  rw [decodeLength_serialize n h]
  have hl : ¬ ((body ++ rest).length < n) := by rw [List.length_append]; omega
  have t : (body ++ rest).take n = body := List.take_left' hb
  have d : (body ++ rest).drop n = rest := List.drop_left' hb
  have hf : prescribedForm n = .one ∨ prescribedForm n = .two ∨ prescribedForm n = .five := by
    unfold prescribedForm
    split
    · exact Or.inl rfl
    · split
      · exact Or.inr (Or.inl rfl)
      · exact Or.inr (Or.inr rfl)
  rcases hf with e | e | e <;> rw [e] <;> simp only [hl, if_false, t, d]

/-- **central lemma.** a packet written as `serializeHeader ptype len(body) ‖ body` reads back (RFC 4880 §4.2) as tag
    `ptype` with exactly `body`, and the reader stops exactly behind it -/
theorem parsePacket_serialize (ptype : Nat) (hp : ptype < 64) (body rest : Bytes) (h : body.length < 2 ^ 32) :
    parsePacket (serializeHeader ptype body.length ++ body ++ rest) = some (⟨ptype, body⟩, rest) := by
  unfold serializeHeader parsePacket
  simp only [List.cons_append, List.append_assoc]
  rw [tagOctet ptype hp]
  have : 192 + ptype ≥ 192 := by omega
  simp only [this, if_true]
  rw [readBody_serialize body.length h body rest rfl]
  have : (192 + ptype) % 64 = ptype := by omega
  simp only [this]

theorem literalMeta_length (filename : Bytes) : (literalMeta filename).length = 6 + min 255 filename.length := by
  unfold literalMeta
  simp [List.length_take]
  omega

/-- §5.9 reading of what relic puts in a literal packet -/
theorem parseLiteral_meta (filename body : Bytes) :
    parseLiteral (literalMeta filename ++ body) = some ⟨0x62, filename.take 255, 0, body⟩ := by
  unfold literalMeta
  have hl : (filename.take 255).length ≤ 255 := by rw [List.length_take]; omega
  have e : (UInt8.ofNat (filename.take 255).length).toNat = (filename.take 255).length := by
    rw [UInt8.toNat_ofNat']; omega
  simp only [List.cons_append, List.nil_append, List.append_assoc, parseLiteral, e]
  generalize filename.take 255 = fn
  have hlen : ¬ ((fn ++ 0 :: 0 :: 0 :: 0 :: body).length < fn.length + 4) := by
    simp only [List.length_append, List.length_cons]; omega
  simp only [hlen, if_false]
  have t : (fn ++ 0 :: 0 :: 0 :: 0 :: body).take fn.length = fn := List.take_left' rfl
  have d : (fn ++ 0 :: 0 :: 0 :: 0 :: body).drop fn.length = 0 :: 0 :: 0 :: 0 :: body := List.drop_left' rfl
  have d4 : (fn ++ 0 :: 0 :: 0 :: 0 :: body).drop (fn.length + 4) = body := by
    rw [← List.drop_drop, d]; rfl
  have bv : beVal (List.take 4 ((0 : UInt8) :: 0 :: 0 :: 0 :: body)) = 0 := by
    simp [List.take, beVal]
  rw [t, d, d4, bv]

theorem parsePackets_step (fuel : Nat) (bs : Bytes) (h : bs ≠ []) :
    parsePackets (fuel + 1) bs =
      match parsePacket bs with
      | some (p, rest) => (parsePackets fuel rest).map (p :: ·)
      | none => none := by
  cases bs with
  | nil => exact absurd rfl h
  | cons b bs => rfl

theorem serializeHeader_ne_nil (p n : Nat) (r : Bytes) : serializeHeader p n ++ r ≠ [] := by
  unfold serializeHeader
  simp

/-- body of the one-pass packet `writeOnePass` emits -/
def onePassBody (i : SigInfo) : Bytes := [3, i.sigType, i.hashId, i.pkAlgo] ++ beBytes 8 i.keyId ++ [1]

theorem onePassBody_length (i : SigInfo) : (onePassBody i).length = 13 := by
  unfold onePassBody
  simp [beBytes_length]

theorem onePass_eq (i : SigInfo) : onePass i = serializeHeader 4 (onePassBody i).length ++ onePassBody i := by
  rw [onePassBody_length]
  unfold onePass onePassBody
  simp only [List.append_assoc]

theorem parseOnePass_body (i : SigInfo) :
    parseOnePass (onePassBody i) = some ⟨i.sigType, i.hashId, i.pkAlgo, beBytes 8 i.keyId, true⟩ := by
  unfold onePassBody
  simp only [List.cons_append, List.nil_append, parseOnePass]
  have l9 : (beBytes 8 i.keyId ++ [1]).length = 9 := by simp [beBytes_length]
  have t : (beBytes 8 i.keyId ++ [1]).take 8 = beBytes 8 i.keyId := List.take_left' (beBytes_length 8 _)
  have d : (beBytes 8 i.keyId ++ [1]).drop 8 = [1] := List.drop_left' (beBytes_length 8 _)
  simp only [l9, t, d, true_and, if_true, List.head?_cons]
  simp

end Relic.Pgp

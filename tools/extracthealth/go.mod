module extracthealth

go 1.22

/-
  Relic.Model.Xar — executable model of relic's xar / Apple flat package (.pkg) signing and verification:
    /repo/lib/fruit/xar/xar.go      (`Open`, `parseHeader`, `parseTOC`, `parseCertificates`, `lastOffset`)
    /repo/lib/fruit/xar/sign.go     (`Sign`, `removeSigs`, `reserveSignatures`, `newSigElement`, `adjustOffsets`, `appendSignatures`)
    /repo/lib/fruit/xar/verify.go   (`(*XAR).Verify`, both `checkFiles`, `checkFile`, `gatherDataFiles`, `streamReaderAt`)
    /repo/lib/fruit/xar/structs.go  (the structs `encoding/xml` fills)
    /repo/signers/xar/xar.go        (Apply = binpatch)

  The table of contents is an element tree (`Xml`).  relic looks at it through TWO readers: `Sign` through etree
  (paths `/xar/toc`, `//file/data`, `//data/offset`, `Text`, `SetText`, `InsertChildAt`, `RemoveChild`), `Open`/`Verify`
  through `encoding/xml` struct unmarshalling (repeated elements merge, the last scalar wins, slices append, character
  data of an integer field is trimmed).  Both are modelled on arbitrary trees.

  Parameters (not axioms): zlib + XML tokenising/serialising (`Env.decode` / `Env.encode`), `strconv` (`Num`),
  base64 + `x509.ParseCertificate` (`Env.certOk`), the hash functions and the CMS / RSA verdicts (`Crypto`).
  No hash is ever computed here: every function that depends on one returns a `Plan` = the list of comparisons the code
  performs, in order, and the outcome if all of them succeed; `Plan.run` interprets it for a given `Crypto`.

  Two trees are modelled: `fx = true` is the current code (fix commits a62cce4 "xar.Open bounds signature and TOC sizes" and
  5d6eee4 "xar.Sign refuses archives it cannot re-sign correctly and shifts extended-attribute offsets"), `fx = false` the
  code before them (`openPlanOrig`, `signPlanOrig`, …), about which the defect theorems (`…_orig`) are stated.

  int64: offsets, lengths and sizes are `Int`; Go's `+` wraps (`w64`).  Core Lean only (linked into the native driver).
-/
import Relic.Base.Bytes
import Relic.Model.Binpatch
namespace Relic.Xar
open Relic
open Relic.Binpatch (Patch)

/-! ### basics -/

def zeros (n : Nat) : Bytes := List.replicate n 0

/-- `b[off : off+n]` clipped to the length of `b` -/
def sl (b : Bytes) (off n : Nat) : Bytes := (b.drop off).take n

/-- int64 wrap-around of Go's arithmetic -/
def w64 (i : Int) : Int := (i + 2 ^ 63) % 2 ^ 64 - 2 ^ 63

/-- an int64 read from its uint64 bit pattern -/
def i64 (n : Nat) : Int := w64 n

/-- uint64 bit pattern of an int64 -/
def u64 (i : Int) : Nat := (i % 2 ^ 64).toNat

def inI64 (i : Int) : Prop := -(2 ^ 63) ≤ i ∧ i < 2 ^ 63
instance (i : Int) : Decidable (inI64 i) := by unfold inI64; infer_instance

/-- hash kinds the format knows and relic supports -/
inductive HK where
  | sha1 | sha256 | sha512
  deriving DecidableEq, Repr

def HK.size : HK → Nat
  | .sha1 => 20 | .sha256 => 32 | .sha512 => 64

/-- `strings.ReplaceAll(strings.ToLower(hashType.String()), "-", "")`, also the `style` attribute values `checkFile` accepts -/
def HK.name : HK → String
  | .sha1 => "sha1" | .sha256 => "sha256" | .sha512 => "sha512"

/-- `hashType` of the file header (`hashSHA1` = 1, `hashSHA256` = 3, `hashSHA512` = 4) -/
def HK.hdr : HK → Nat
  | .sha1 => 1 | .sha256 => 3 | .sha512 => 4

def hkOfHdr (n : Nat) : Option HK :=
  if n = 1 then some .sha1 else if n = 3 then some .sha256 else if n = 4 then some .sha512 else none

def hkOfStyle (s : String) : Option HK :=
  if s = "sha1" then some .sha1 else if s = "sha256" then some .sha256 else if s = "sha512" then some .sha512 else none

/-! ### the element tree -/

inductive Xml where
  | el (name : String) (attrs : List (String × String)) (kids : List Xml)
  | tx (s : String)
  deriving Repr, Inhabited

def Xml.isTx : Xml → Bool
  | .tx _ => true
  | _ => false

def Xml.isEl (n : String) : Xml → Bool
  | .el m _ _ => m == n
  | _ => false

def Xml.kids : Xml → List Xml
  | .el _ _ k => k
  | _ => []

def Xml.attrs : Xml → List (String × String)
  | .el _ a _ => a
  | _ => []

/-- etree `SelectElement(tag)` on a child list: the first child element of that name -/
def first (n : String) : List Xml → Option Xml
  | [] => none
  | k :: ks => if k.isEl n then some k else first n ks

/-- etree `SelectElements(tag)` -/
def named (n : String) (ks : List Xml) : List Xml := ks.filter (·.isEl n)

/-- etree `Element.Text()`: the character data in front of the first child element -/
def etext : List Xml → String
  | .tx s :: ks => s ++ etext ks
  | _ => ""

/-- etree `SetText(s)` for a non-empty `s`: the leading run of character data is replaced by one token -/
def setText (s : String) (ks : List Xml) : List Xml := .tx s :: ks.dropWhile (·.isTx)

/-- all character data directly inside an element (what `encoding/xml` collects for a scalar or `,chardata` field) -/
def allText : List Xml → String
  | [] => ""
  | .tx s :: ks => s ++ allText ks
  | _ :: ks => allText ks

/-- `SelectAttrValue(key, "")` / the attribute loop of `encoding/xml` restricted to one name: first resp. last match -/
def attrFirst (k : String) : List (String × String) → Option String
  | [] => none
  | (a, v) :: as => if a = k then some v else attrFirst k as

def attrLast (k : String) (as : List (String × String)) : Option String := attrFirst k as.reverse

/-! ### parameters -/

/-- `strconv`: `atoi s` = `strconv.ParseInt(s, 10, 64)` as (value, err == nil) — the value is kept because relic uses it after
    `n, _ :=` (0 on a syntax error, ±max on a range error); `atoiT` = the same after `strings.TrimSpace` (`encoding/xml`);
    `fmt` = `strconv.FormatInt(n, 10)`. -/
structure Num where
  atoi : String → Int × Bool
  atoiT : String → Int × Bool
  fmt : Int → String

/-- what the theorems need from `strconv` -/
structure Num.Laws (N : Num) : Prop where
  rt : ∀ n, inI64 n → N.atoi (N.fmt n) = (n, true)
  /-- what `ParseInt` accepts contains no white space: trimming first changes nothing -/
  trim : ∀ s, (N.atoi s).2 = true → N.atoiT s = N.atoi s
  range : ∀ s, inI64 (N.atoi s).1
  empty : (N.atoi "").2 = false
  fmt_ne : ∀ n, N.fmt n ≠ ""

/-- environment: zlib + tokenizer, serialiser + zlib, certificate parser -/
structure Env where
  num : Num
  /-- `decompress` then parse: the root element and the inflated size; `none` = error -/
  decode : Bytes → Option (Xml × Nat)
  /-- `doc.WriteTo(zlib)`: compressed bytes and the uncompressed size -/
  encode : Xml → Bytes × Nat
  /-- `base64.StdEncoding.DecodeString` + `x509.ParseCertificate` succeed on this text -/
  certOk : String → Bool

structure Env.Laws (E : Env) : Prop where
  num : E.num.Laws
  /-- what was serialised comes back, and its inflated size is the size `WriteTo` reported -/
  dec_enc : ∀ t, E.decode (E.encode t).1 = some (t, (E.encode t).2)

/-- cryptography: hash functions, the CMS verdict (`blob` verifies as a detached signature over `content`), the PKCS#1 verdict
    (`x509tools.Verify(pub of cert, hash, digest, sig)`) -/
structure Crypto where
  H : HK → Bytes → Bytes
  cmsOk : Bytes → Bytes → Bool
  rsaOk : String → Bytes → HK → Bytes → Bool

/-! ### plans -/

/-- one comparison the code performs -/
inductive Check where
  /-- `hmac.Equal(H(stream), expected)`; `cls` = error class when it fails -/
  | hashEq (cls : String) (k : HK) (stream expected : Bytes)
  /-- the CMS blob verifies over the content `H(stream)` -/
  | cms (blob : Bytes) (k : HK) (stream : Bytes)
  /-- the classic signature verifies under the first certificate over `H(stream)`, or over `H(H(stream))` -/
  | rsa (cert : String) (sig : Bytes) (k : HK) (stream : Bytes)
  deriving Repr, DecidableEq

def Check.holds (C : Crypto) : Check → Bool
  | .hashEq _ k s e => C.H k s == e
  | .cms b k s => C.cmsOk b (C.H k s)
  | .rsa c sg k s => C.rsaOk c sg k (C.H k s) || C.rsaOk c sg k (C.H k (C.H k s))

def Check.cls : Check → String
  | .hashEq c _ _ _ => c
  | .cms _ _ _ => "cms"
  | .rsa _ _ _ _ => "rsa"

structure Plan (α : Type) where
  checks : List Check
  final : Res α
  deriving Repr

/-- the first failing comparison decides; if none fails, the final outcome -/
def runChecks {α} (C : Crypto) : List Check → Res α → Res α
  | [], r => r
  | c :: cs, r => if c.holds C then runChecks C cs r else .err c.cls

def Plan.run {α} (C : Crypto) (p : Plan α) : Res α := runChecks C p.checks p.final

def Plan.pure {α} (a : α) : Plan α := ⟨[], .ok a⟩
def Plan.fail {α} (e : String) : Plan α := ⟨[], .err e⟩

def Plan.bind {α β} (p : Plan α) (f : α → Plan β) : Plan β :=
  match p.final with
  | .ok a => ⟨p.checks ++ (f a).checks, (f a).final⟩
  | .err e => ⟨p.checks, .err e⟩
  | .panic s => ⟨p.checks, .panic s⟩
  | .diverge => ⟨p.checks, .diverge⟩

/-! ### the file header (`fileHeader` under `binary.Read` / `binary.Write`, big endian, 28 bytes) -/

def xarMagic : Nat := 0x78617221

structure Hdr where
  magic : Nat     -- uint32
  hsize : Nat     -- uint16
  version : Nat   -- uint16
  clen : Int      -- int64 CompressedSize
  ulen : Int      -- int64 UncompressedSize
  htype : Nat     -- uint32
  deriving Repr, DecidableEq

def Hdr.enc (h : Hdr) : Bytes :=
  beBytes 4 h.magic ++ beBytes 2 h.hsize ++ beBytes 2 h.version ++ beBytes 8 (u64 h.clen) ++ beBytes 8 (u64 h.ulen) ++ beBytes 4 h.htype

/-- `binary.Read` of the first 28 bytes; `none` = EOF / unexpected EOF -/
def readHdr (f : Bytes) : Option Hdr :=
  if f.length < 28 then none else
  some { magic := beVal (sl f 0 4), hsize := beVal (sl f 4 2), version := beVal (sl f 6 2), clen := i64 (beVal (sl f 8 8)),
         ulen := i64 (beVal (sl f 16 8)), htype := beVal (sl f 24 4) }

/-- `parseHeader`: error class or the header with its hash kind -/
def parseHeader (f : Bytes) : Except String (Hdr × HK) :=
  match readHdr f with
  | none => .error "short"
  | some h =>
    if h.magic ≠ xarMagic then .error "magic"
    else if h.version ≠ 1 then .error "version"
    else match hkOfHdr h.htype with
      | none => .error "hash"
      | some k => .ok (h, k)

/-- what `io.LimitReader(r, n)` behind the first `off` bytes delivers when read to its end (`n ≤ 0`: nothing): `Sign` -/
def region (f : Bytes) (off : Nat) (n : Int) : Bytes := if n ≤ 0 then [] else sl f off n.toNat

/-- what `io.NewSectionReader(r, off, n)` delivers when read to its end: `Open`.  For `n < 0` the constructor's overflow guard
    (`off <= maxint64-n` is false after wrap-around) sets the limit to 2^63−1: everything from `off` on. -/
def regionSR (f : Bytes) (off : Nat) (n : Int) : Bytes := if n < 0 then f.drop off else region f off n

/-- `(*os.File).ReadAt(buf, off)` with `len(buf) = n`: `none` = error (negative offset, or fewer than `n` bytes from there);
    an empty buffer at a non-negative offset is `0, nil` wherever it points -/
def readAt (f : Bytes) (off : Int) (n : Nat) : Option Bytes :=
  if off < 0 then none else if n = 0 then some [] else if off.toNat + n ≤ f.length then some (sl f off.toNat n) else none

/-! ### `encoding/xml`: the structs of structs.go filled from a tree -/

structure XSig where
  style : String
  offset : Int
  size : Int
  certs : List String
  deriving Repr, DecidableEq

/-- the state of one `tocFile` while its element is read (`hasData` is a ghost field: a `<data>` child was seen) -/
structure FileAcc where
  name : String := ""
  astyle : String := ""
  adigest : String := ""
  offset : Int := 0
  length : Int := 0
  hasData : Bool := false
  deriving Repr, DecidableEq

inductive XFile where
  | mk (a : FileAcc) (kids : List XFile)
  deriving Repr

def XFile.acc : XFile → FileAcc | .mk a _ => a
def XFile.kids : XFile → List XFile | .mk _ k => k
def XFile.offset (x : XFile) : Int := x.acc.offset
def XFile.length (x : XFile) : Int := x.acc.length

structure XToc where
  ck : XSig                -- tocChecksum (no certificates)
  sig : Option XSig        -- *tocSignature
  xsig : Option XSig
  files : List XFile
  deriving Repr

/-- `copyValue` into an int64: empty data is 0, otherwise `ParseInt(TrimSpace(data))`, an error fails the whole `Unmarshal` -/
def intOf (N : Num) (ks : List Xml) : Option Int :=
  let s := allText ks
  if s = "" then some 0 else
  let r := N.atoiT s
  if r.2 then some r.1 else none

/-- the attribute loop for a `style,attr` field: the last attribute of that name wins, none leaves the field alone -/
def styleOf (old : String) (as : List (String × String)) : String := (attrLast "style" as).getD old

/-- unmarshal one `<checksum>` / `<signature>` / `<x-signature>` element into an existing struct value -/
def umSigKids (N : Num) : List Xml → XSig → Option XSig
  | [], s => some s
  | .el n _ ks :: rest, s =>
    if n = "offset" then (intOf N ks).bind fun v => umSigKids N rest { s with offset := v }
    else if n = "size" then (intOf N ks).bind fun v => umSigKids N rest { s with size := v }
    else if n = "KeyInfo" then
      umSigKids N rest { s with certs := s.certs ++ (named "X509Data" ks).flatMap fun xd => (named "X509Certificate" xd.kids).map fun c => allText c.kids }
    else umSigKids N rest s
  | .tx _ :: rest, s => umSigKids N rest s

def umSig (N : Num) (e : Xml) (s : XSig) : Option XSig := umSigKids N e.kids { s with style := styleOf s.style e.attrs }

def emptySig : XSig := ⟨"", 0, 0, []⟩

/-- the children of one `<data>` element (fields with parent path `data`).  `size` is parsed (and can fail) although relic
    never reads it; `extracted-checksum` and `encoding` are strings / attributes only and cannot fail. -/
def umData (N : Num) : List Xml → FileAcc → Option FileAcc
  | [], a => some a
  | .el n as ks :: rest, a =>
    if n = "offset" then (intOf N ks).bind fun v => umData N rest { a with offset := v }
    else if n = "length" then (intOf N ks).bind fun v => umData N rest { a with length := v }
    else if n = "size" then (intOf N ks).bind fun _ => umData N rest a
    else if n = "archived-checksum" then umData N rest { a with astyle := styleOf a.astyle as, adigest := allText ks }
    else umData N rest a
  | .tx _ :: rest, a => umData N rest a

/-- the children of one `<file>` element, in order: the final field values and the nested files (a nested `<file>` starts a
    fresh struct that is appended to `Files`) -/
def umFileKids (N : Num) : List Xml → FileAcc → Option (FileAcc × List XFile)
  | [], a => some (a, [])
  | .tx _ :: rest, a => umFileKids N rest a
  | .el n _ ks :: rest, a =>
    if n = "name" then umFileKids N rest { a with name := allText ks }
    else if n = "data" then
      match umData N ks { a with hasData := true } with
      | none => none
      | some a' => umFileKids N rest a'
    else if n = "file" then
      match umFileKids N ks {} with
      | none => none
      | some (ak, subk) =>
        match umFileKids N rest a with
        | none => none
        | some (a', sub) => some (a', .mk ak subk :: sub)
    else umFileKids N rest a

/-- one `<file>` element given by its children -/
def umFile (N : Num) (ks : List Xml) : Option XFile := (umFileKids N ks {}).map fun r => .mk r.1 r.2

def emptyToc : XToc := ⟨emptySig, none, none, []⟩

/-- the children of one `<toc>` element merged into the struct (files are collected separately, in order) -/
def umTocKids (N : Num) : List Xml → XToc → Option XToc
  | [], t => some t
  | .tx _ :: rest, t => umTocKids N rest t
  | .el n as ks :: rest, t =>
    if n = "checksum" then (umSig N (.el n as ks) t.ck).bind fun s => umTocKids N rest { t with ck := s }
    else if n = "signature" then (umSig N (.el n as ks) (t.sig.getD emptySig)).bind fun s => umTocKids N rest { t with sig := some s }
    else if n = "x-signature" then (umSig N (.el n as ks) (t.xsig.getD emptySig)).bind fun s => umTocKids N rest { t with xsig := some s }
    else if n = "file" then (umFile N ks).bind fun x => umTocKids N rest { t with files := t.files ++ [x] }
    else umTocKids N rest t

/-- the children of the root element (whatever its name): every `<toc>` child is merged into the one struct -/
def umRootKids (N : Num) : List Xml → XToc → Option XToc
  | [], t => some t
  | .el n _ ks :: rest, t => if n = "toc" then (umTocKids N ks t).bind fun t' => umRootKids N rest t' else umRootKids N rest t
  | .tx _ :: rest, t => umRootKids N rest t

/-- `xml.Unmarshal(decomp, new(tocXar))` -/
def unmarshal (N : Num) : Xml → Option XToc
  | .el _ _ ks => umRootKids N ks emptyToc
  | .tx _ => none

/-- `lastOffset` (int64 arithmetic; the loop keeps a running maximum that starts at 0) -/
def lastOffset : List XFile → Int
  | [] => 0
  | .mk a ks :: rest => max (max (max 0 (w64 (a.offset + a.length))) (lastOffset ks)) (lastOffset rest)

/-- `gatherDataFiles`: a file with a non-zero length is taken (its children are NOT visited); otherwise its children are -/
def gather : List XFile → List XFile
  | [] => []
  | .mk a ks :: rest => if a.length ≠ 0 then .mk a ks :: gather rest else gather ks ++ gather rest

/-! ### `checkFile` -/

/-- a member as `checkFile` is given it -/
structure Ref where
  name : String
  offset : Int
  length : Int
  style : String
  digest : String
  deriving Repr, DecidableEq

def FileAcc.ref (a : FileAcc) : Ref := ⟨a.name, a.offset, a.length, a.astyle, a.adigest⟩
def XFile.ref (x : XFile) : Ref := x.acc.ref

/-- `hex.DecodeString` -/
def unhex (s : String) : Option Bytes := fromHexChars s.toList

/-- insertion of one element behind every element that is not larger: `sort.Slice` on at most 12 elements is an insertion
    sort, i.e. stable (beyond 12 pdqsort is not; ties are then reported by the driver) -/
def insertRef (r : Ref) : List Ref → List Ref
  | [] => [r]
  | x :: xs => if r.offset < x.offset then r :: x :: xs else x :: insertRef r xs

def sortRefs (rs : List Ref) : List Ref := rs.foldl (fun acc r => insertRef r acc) []

/-- `checkFile(heap, f)` on the random-access heap of `Open` (`io.NewSectionReader(r, base, 1<<62)`): style, digest text,
    then the section `[offset, offset+length)` of the heap must deliver exactly `length` bytes -/
def checkFileAt (f : Bytes) (base : Int) (r : Ref) : Plan Unit :=
  match hkOfStyle r.style with
  | none => .fail "fstyle"
  | some k =>
    match unhex r.digest with
    | none => .fail "fhex"
    | some exp =>
      -- a negative offset or length, or a range that does not lie inside the file: fewer than `length` bytes are copied
      if r.offset < 0 ∨ r.length < 0 ∨ base < 0 ∨ r.offset ≥ 2 ^ 62 then .fail "fshort" else
      if (base + r.offset).toNat + r.length.toNat ≤ f.length then
        ⟨[.hashEq "fmismatch" k (sl f (base + r.offset).toNat r.length.toNat) exp], .ok ()⟩
      else .fail "fshort"

def checkAllAt (f : Bytes) (base : Int) : List Ref → Plan Unit
  | [] => .pure ()
  | r :: rs => (checkFileAt f base r).bind fun _ => checkAllAt f base rs

/-- `checkFile(heap, f)` on the forward-only heap of `Sign` (`streamReaderAt`); `pos` = bytes consumed so far.  A length of
    zero never touches the stream (the section reader is at its limit at once); a negative one copies nothing and fails. -/
def checkFileStream (heap : Bytes) (pos : Nat) (r : Ref) : Plan Nat :=
  match hkOfStyle r.style with
  | none => .fail "fstyle"
  | some k =>
    match unhex r.digest with
    | none => .fail "fhex"
    | some exp =>
      if r.length < 0 then .fail "fshort"
      else if r.length = 0 then ⟨[.hashEq "fmismatch" k [] exp], .ok pos⟩
      else if r.offset < (pos : Int) then .fail "fseek"
      else if r.offset.toNat + r.length.toNat ≤ heap.length then
        ⟨[.hashEq "fmismatch" k (sl heap r.offset.toNat r.length.toNat) exp], .ok (r.offset.toNat + r.length.toNat)⟩
      else .fail "fshort"

def checkAllStream (heap : Bytes) : Nat → List Ref → Plan Unit
  | _, [] => .pure ()
  | pos, r :: rs => (checkFileStream heap pos r).bind fun pos' => checkAllStream heap pos' rs

/-! ### `Open` -/

/-- `makeslice` refuses a length above this on 64-bit platforms (2^48 bytes) -/
def maxAlloc : Int := 2 ^ 48

structure Opened where
  hk : HK
  tocHash : Bytes               -- the stored checksum (= H(compressed TOC) once the comparison has succeeded)
  toc : XToc
  base : Int                    -- start of the heap
  rsaSig : Option Bytes         -- ClassicSignature
  certs : List String           -- texts of the certificates of <signature>
  cmsSig : Option Bytes         -- CMSSignature
  ticket : Option Bytes         -- NotaryTicket
  alloc : Nat                   -- bytes requested: inflated TOC + checksum + signature buffers + ticket
  deriving Repr

/-- `make([]byte, n)` followed by `r.ReadAt(buf, off)`.  Before the fix `n` came straight from the XML (a negative value or
    one above 2^48 makes `make` panic); now a size that is negative or larger than the file is refused first. -/
def allocRead (fx : Bool) (site cls : String) (f : Bytes) (n off : Int) : Res Bytes :=
  if fx then
    if n < 0 ∨ n > (f.length : Int) then .err cls else
    match readAt f off n.toNat with
    | some b => .ok b
    | none => .err cls
  else
    if n < 0 ∨ n > maxAlloc then .panic site else
    match readAt f off n.toNat with
    | some b => .ok b
    | none => .err cls

/-- the classic signature: size test (fix), `make`, `ReadAt`, `parseCertificates` -/
def readSig (fx : Bool) (E : Env) (f : Bytes) (base : Int) : Option XSig → Res (Option Bytes × List String)
  | none => .ok (none, [])
  | some s =>
    (allocRead fx "xar.Open:makeslice" "sigread" f s.size (w64 (base + s.offset))).bind fun b =>
      if s.certs.isEmpty then .err "certs"
      else if s.certs.all E.certOk then .ok (some b, s.certs) else .err "certs"

/-- the CMS signature: size test (fix), `make`, `ReadAt` -/
def readXSig (fx : Bool) (f : Bytes) (base : Int) : Option XSig → Res (Option Bytes)
  | none => .ok none
  | some s => (allocRead fx "xar.Open:makeslice" "xsigread" f s.size (w64 (base + s.offset))).bind fun b => .ok (some b)

/-- the notary ticket: what lies behind `lastOffset(files) + base`, when that is between 1 and 999999 bytes -/
def readTicket (f : Bytes) (files : List XFile) (base : Int) : Res (Option Bytes) :=
  let lo := w64 (lastOffset files + base)
  let trailer := w64 ((f.length : Int) - lo)
  if trailer > 0 ∧ trailer < 1000000 then
    match readAt f lo trailer.toNat with
    | none => .err "trailer"
    | some t => .ok (some t)
  else .ok none

def optLen (b : Option Bytes) : Nat := (b.map (·.length)).getD 0

/-- `Open` behind the checksum comparison: both signature blobs, the ticket -/
def openRest (fx : Bool) (E : Env) (f : Bytes) (k : HK) (stored : Bytes) (toc : XToc) (base : Int) (inflated : Nat) : Res Opened :=
  (readSig fx E f base toc.sig).bind fun sg =>
  (readXSig fx f base toc.xsig).bind fun cmsSig =>
  (readTicket f toc.files base).bind fun ticket =>
    .ok ⟨k, stored, toc, base, sg.1, sg.2, cmsSig, ticket, inflated + k.size + optLen sg.1 + optLen cmsSig + optLen ticket⟩

/-- `Open` once the table of contents has been read into the struct: size and bytes of the stored checksum -/
def openBody (fx : Bool) (E : Env) (f : Bytes) (k : HK) (reg : Bytes) (inflated : Nat) (toc : XToc) (base : Int) : Plan Opened :=
  if toc.ck.size ≠ k.size then .fail "cksize" else
  match readAt f (w64 (base + toc.ck.offset)) k.size with
  | none => .fail "ckread"
  | some stored => ⟨[.hashEq "ckmismatch" k reg stored], openRest fx E f k stored toc base inflated⟩

/-- `maxTOCSize`: what a header may declare as the uncompressed size of the table of contents (fix) -/
def maxTOCSize : Int := 100000000

/-- the test the fix put in front of `parseTOC`: `CompressedSize` in `[0, size]`, `UncompressedSize` in `[0, maxTOCSize]` -/
def tocSizesOk (h : Hdr) (flen : Nat) : Bool :=
  decide (0 ≤ h.clen ∧ h.clen ≤ (flen : Int) ∧ 0 ≤ h.ulen ∧ h.ulen ≤ maxTOCSize)

/-- `xar.Open(r, size)` on a file with content `f`.  With the fix: the header's sizes are tested first, and `decompress`
    reads at most `UncompressedSize + 1` bytes and refuses a stream that yields more than was declared. -/
def openPlanG (fx : Bool) (E : Env) (f : Bytes) : Plan Opened :=
  match parseHeader f with
  | .error e => .fail e
  | .ok (h, k) =>
    if fx && !tocSizesOk h f.length then .fail "toolarge" else
    match E.decode (regionSR f h.hsize h.clen) with
    | none => .fail "toc"
    | some (root, inflated) =>
      if fx && decide ((inflated : Int) > h.ulen) then .fail "toc" else
      match unmarshal E.num root with
      | none => .fail "toc"
      | some toc => openBody fx E f k (regionSR f h.hsize h.clen) inflated toc (w64 (h.hsize + h.clen))

/-- the current tree -/
def openPlan (E : Env) (f : Bytes) : Plan Opened := openPlanG true E f
/-- the tree before fix a62cce4 -/
def openPlanOrig (E : Env) (f : Bytes) : Plan Opened := openPlanG false E f

/-! ### `(*XAR).Verify` -/

structure Verified where
  hk : HK
  hasTicket : Bool
  deriving Repr, DecidableEq

/-- `x.Verify(skipDigests)`.  The checksum comparison of `Open` has succeeded, so `x.TOCHash = H(region)`: the signature
    comparisons are stated on the compressed bytes `reg` the hash was computed from. -/
def verifyOpened (f reg : Bytes) (o : Opened) (skip : Bool) : Plan Verified :=
  let sigCheck : Plan Unit :=
    match o.cmsSig with
    | some blob => ⟨[.cms blob o.hk reg], .ok ()⟩
    | none =>
      match o.rsaSig with
      | some sg => ⟨[.rsa (o.certs.headD "") sg o.hk reg], .ok ()⟩
      | none => .fail "notsigned"
  sigCheck.bind fun _ =>
    let files : Plan Unit := if skip then .pure () else checkAllAt f o.base (sortRefs ((gather o.toc.files).map XFile.ref))
    files.bind fun _ => .pure ⟨o.hk, o.ticket.isSome⟩

/-- the compressed bytes `Open` hashes -/
def tocRegion (f : Bytes) : Bytes :=
  match readHdr f with
  | some h => regionSR f h.hsize h.clen
  | none => []

/-- `xar.Open` then `Verify` (signers/xar `verify`) -/
def verifyPlanG (fx : Bool) (E : Env) (f : Bytes) (skip : Bool) : Plan Verified :=
  (openPlanG fx E f).bind fun o => verifyOpened f (tocRegion f) o skip

def verifyPlan (E : Env) (f : Bytes) (skip : Bool) : Plan Verified := verifyPlanG true E f skip
def verifyPlanOrig (E : Env) (f : Bytes) (skip : Bool) : Plan Verified := verifyPlanG false E f skip

/-! ### `Sign`: the etree side -/

/-- `strconv.ParseInt(se.Text(), 10, 64)` value of the first `<size>` child, 0 when there is none -/
def sizeOfSigEl (N : Num) (ks : List Xml) : Int :=
  match first "size" ks with
  | some se => (N.atoi (etext se.kids)).1
  | none => 0

def isSigName (n : String) : Bool := n = "checksum" || n = "signature" || n = "x-signature"

def Xml.isSig : Xml → Bool
  | .el n _ _ => isSigName n
  | _ => false

/-- `removeSigs`: the sum of the `<size>` values of the removed children (before wrap-around) and the remaining children -/
def removeSigs (N : Num) : List Xml → Int × List Xml
  | [] => (0, [])
  | .el n as ks :: rest =>
    let r := removeSigs N rest
    if isSigName n then (sizeOfSigEl N ks + r.1, r.2) else (r.1, .el n as ks :: r.2)
  | .tx s :: rest => let r := removeSigs N rest; (r.1, .tx s :: r.2)

/-- `newSigElement` -/
def newSigElement (N : Num) (key style : String) (offset size : Int) (certs : Option (List String)) : Xml :=
  let base := [Xml.el "size" [] [.tx (N.fmt size)], .el "offset" [] [.tx (N.fmt offset)]]
  match certs with
  | none => .el key [("style", style)] base
  | some cs =>
    .el key [("style", style)] (base ++ [.el "KeyInfo" [("xmlns", "http://www.w3.org/2000/09/xmldsig#")]
      [.el "X509Data" [] (cs.map fun c => .el "X509Certificate" [] [.tx c])]])

/-- what the signing key contributes to the layout: certificate texts (base64, 72 columns), total DER length of the chain,
    modulus size in bytes of an RSA leaf (`none`: not RSA, no classic signature) -/
structure KeyInfo where
  certTexts : List String
  derTotal : Nat
  rsaSize : Option Nat
  deriving Repr

/-- `reserveSignatures`: the new first children of `<toc>` and the reserved heap space -/
def reserve (N : Num) (hk : HK) (ki : KeyInfo) : List Xml × Int :=
  let ck := newSigElement N "checksum" hk.name 0 hk.size none
  let cmsSize : Int := 6144 + ki.derTotal
  match ki.rsaSize with
  | some n =>
    ([ck, newSigElement N "signature" "RSA" hk.size n (some ki.certTexts),
      newSigElement N "x-signature" "CMS" (hk.size + n) cmsSize (some ki.certTexts)], hk.size + n + cmsSize)
  | none =>
    ([ck, newSigElement N "x-signature" "CMS" hk.size cmsSize (some ki.certTexts)], hk.size + cmsSize)

/-- the parents whose `<offset>` child `adjustOffsets` shifts: `<data>` (path `//data/offset`), and since fix 5d6eee4 also `<ea>`
    (path `//ea/offset`: extended attributes stored in the heap) -/
def isRef (ea : Bool) (n : String) : Bool := n == "data" || (ea && n == "ea")

mutual
/-- `adjustOffsets`: every `<offset>` child of a `<data>` (`ea`: or `<ea>`) element, anywhere in the document, whose `Text()`
    parses, gets `offset + delta` (int64); `inRef` = the parent is such an element -/
def adjust (N : Num) (ea : Bool) (delta : Int) (inRef : Bool) : Xml → Xml
  | .el n as ks =>
    let ks' := adjustKids N ea delta (isRef ea n) ks
    if inRef && n == "offset" then
      let r := N.atoi (etext ks')
      if r.2 then .el n as (setText (N.fmt (w64 (r.1 + delta))) ks') else .el n as ks'
    else .el n as ks'
  | .tx s => .tx s
def adjustKids (N : Num) (ea : Bool) (delta : Int) (inRef : Bool) : List Xml → List Xml
  | [] => []
  | k :: ks => adjust N ea delta inRef k :: adjustKids N ea delta inRef ks
end

/-- a `<data>` child of a `<file>` element as etree shows it to sign.go: name of the file, `Text()` of the first `<offset>` and
    `<length>` children through `ParseInt` (0 when absent or unreadable), the first `<archived-checksum>` child -/
structure DRef where
  name : String
  offset : Int
  length : Int
  sum : Option (String × String)     -- `style` attribute ("" when absent) and `Text()` of `<archived-checksum>`
  deriving Repr, DecidableEq

def dRefOfData (N : Num) (fileKids dataKids : List Xml) : DRef :=
  let num (n : String) : Int := match first n dataKids with
    | some e => (N.atoi (etext e.kids)).1
    | none => 0
  let name := match first "name" fileKids with
    | some e => etext e.kids
    | none => ""
  ⟨name, num "offset", num "length",
   (first "archived-checksum" dataKids).map fun ek => ((attrFirst "style" ek.attrs).getD "", etext ek.kids)⟩

mutual
/-- `FindElements("//file/data")` in document order (etree's order is breadth first; `checkFiles` sorts by offset afterwards);
    `fileKids` = children of the parent when it is a `<file>` -/
def dRefs (N : Num) (fileKids : Option (List Xml)) : Xml → List DRef
  | .el n _ ks =>
    let here := match fileKids with
      | some fk => if n == "data" then [dRefOfData N fk ks] else []
      | none => []
    here ++ dRefsKids N (if n == "file" then some ks else none) ks
  | .tx _ => []
def dRefsKids (N : Num) (fileKids : Option (List Xml)) : List Xml → List DRef
  | [] => []
  | k :: ks => dRefs N fileKids k ++ dRefsKids N fileKids ks
end

/-- `checkFiles` (sign.go side) skips a `<data>` without `<archived-checksum>` -/
def DRef.toRef? (d : DRef) : Option Ref := d.sum.map fun s => ⟨d.name, d.offset, d.length, s.1, s.2⟩

def eRefs (N : Num) (t : Xml) : List Ref := (dRefs N none t).filterMap DRef.toRef?

structure SignOut where
  hk : HK
  tree : Xml          -- the document that is serialised and compressed
  origSig : Int       -- origSigSize
  newSig : Int        -- newSigSize
  origTotal : Int     -- 28 + CompressedSize + origSigSize
  rsaSize : Option Nat
  deriving Repr

/-- the etree surgery of `Sign` before `adjustOffsets`: `/xar/toc` (the first `<toc>` child of a root named `xar`), old
    signature elements removed, new ones inserted in front -/
structure Prep where
  doc1 : Xml          -- the document with the new signature elements, offsets not yet shifted
  origSig : Int       -- origSigSize
  newSig : Int        -- newSigSize
  deriving Repr

/-- the children around the first child element of that name -/
def splitFirst (n : String) : List Xml → Option (List Xml × Xml × List Xml)
  | [] => none
  | k :: ks => if k.isEl n then some ([], k, ks) else (splitFirst n ks).map fun r => (k :: r.1, r.2.1, r.2.2)

def prep (N : Num) (hk : HK) (ki : KeyInfo) : Xml → Option Prep
  | .tx _ => none
  | .el rn ras rks =>
    if rn ≠ "xar" then none else
    match splitFirst "toc" rks with
    | none => none
    | some (pre, tocEl, post) =>
      let rm := removeSigs N tocEl.kids
      let rv := reserve N hk ki
      some ⟨.el rn ras (pre ++ Xml.el "toc" tocEl.attrs (rv.1 ++ rm.2) :: post), w64 rm.1, rv.2⟩

/-- the document that is serialised: every `//data/offset` (`ea`: and `//ea/offset`) shifted by `newSigSize - origSigSize` -/
def Prep.tree (N : Num) (ea : Bool) (p : Prep) : Xml := adjust N ea (w64 (p.newSig - p.origSig)) false p.doc1

/-! #### what fix 5d6eee4 added to `Sign` -/

/-- `strconv.ParseInt(textOf(el.SelectElement(n)), 10, 64)`: value and `err == nil` (`textOf(nil)` is "") -/
def fieldOf (N : Num) (n : String) (ks : List Xml) : Int × Bool :=
  match first n ks with
  | some e => N.atoi (etext e.kids)
  | none => N.atoi ""

/-- one old signature element as the repaired `removeSigs` accepts it: `(offset, size)` with both numbers readable,
    `0 ≤ size ≤ 10^6`, `0 ≤ offset` -/
def areaOf (N : Num) (ks : List Xml) : Option (Int × Int) :=
  let sz := fieldOf N "size" ks
  let off := fieldOf N "offset" ks
  if sz.2 ∧ off.2 ∧ 0 ≤ sz.1 ∧ sz.1 ≤ 1000000 ∧ 0 ≤ off.1 then some (off.1, sz.1) else none

/-- the areas of the child elements named `key`, in order; `none` = one of them is invalid -/
def areasOfKey (N : Num) (key : String) : List Xml → Option (List (Int × Int))
  | [] => some []
  | .tx _ :: rest => areasOfKey N key rest
  | .el n _ ks :: rest =>
    if n = key then (areaOf N ks).bind fun a => (areasOfKey N key rest).map (a :: ·) else areasOfKey N key rest

/-- all areas in the order `removeSigs` visits them: every `<checksum>`, then every `<signature>`, then every `<x-signature>` -/
def sigAreas (N : Num) (ks : List Xml) : Option (List (Int × Int)) :=
  (areasOfKey N "checksum" ks).bind fun a => (areasOfKey N "signature" ks).bind fun b =>
    (areasOfKey N "x-signature" ks).map fun c => a ++ b ++ c

/-- `sort.Slice(areas, offset <)` as a stable insertion sort (what it is for at most 12 areas) -/
def insertArea (a : Int × Int) : List (Int × Int) → List (Int × Int)
  | [] => [a]
  | x :: xs => if a.1 < x.1 then a :: x :: xs else x :: insertArea a xs

def sortAreas (as : List (Int × Int)) : List (Int × Int) := as.foldl (fun acc a => insertArea a acc) []

/-- the areas must lie back to back from heap offset 0: the running total, or `none`.  (Go accumulates in an int64; with
    sizes of at most 10^6 that cannot overflow below 9·10^12 elements, so exact integers are used.) -/
def tile : Int → List (Int × Int) → Option Int
  | s, [] => some s
  | s, a :: r => if a.1 ≠ s then none else tile (s + a.2) r

/-- the repaired `removeSigs` as a test on the children of `<toc>`: the size of the old signature area, or the error class -/
def checkSigAreas (N : Num) (ks : List Xml) : Except String Int :=
  match sigAreas N ks with
  | none => .error "sigfield"
  | some as =>
    match tile 0 (sortAreas as) with
    | none => .error "sigtile"
    | some s => .ok s

/-- the children of `/xar/toc` -/
def tocKids : Xml → Option (List Xml)
  | .tx _ => none
  | .el rn _ rks => if rn ≠ "xar" then none else (splitFirst "toc" rks).map fun r => r.2.1.kids

/-- the etree surgery of the repaired `Sign`: as `prep`, after the old areas have passed the tiling test -/
def prepFx (N : Num) (hk : HK) (ki : KeyInfo) (t : Xml) : Except String Prep :=
  match prep N hk ki t, tocKids t with
  | some p, some tks =>
    match checkSigAreas N tks with
    | .error e => .error e
    | .ok s => .ok { p with origSig := s }
  | _, _ => .error "notoc"

/-- the tests the repaired `checkFiles` makes while it collects `//file/data`: a member of non-zero length must begin behind
    the old signature area and must carry an `<archived-checksum>`.  The class of the first offender in document order
    (etree walks breadth first: with offenders of both kinds the class may be the other one). -/
def frontCheck (origSig : Int) : List DRef → Option String
  | [] => none
  | d :: ds =>
    if d.length ≠ 0 ∧ d.offset < origSig then some "ffront"
    else if d.sum = none ∧ d.length ≠ 0 then some "fnosum"
    else frontCheck origSig ds

/-- `xar.Sign(ctx, r, cert, hashType)` up to the signature computation; `f` = the whole input stream.
    `Sign` reads the TOC from offset 28 whatever the header says about its own size. -/
def signPlanG (fx : Bool) (E : Env) (f : Bytes) (hk : HK) (ki : KeyInfo) : Plan SignOut :=
  match parseHeader f with
  | .error e => .fail e
  | .ok (h, _) =>
    if h.clen > 1000000 ∨ h.ulen > 10000000 then .fail "toolarge" else
    if fx && decide (h.clen < 0 ∨ h.ulen < 0) then .fail "toolarge" else
    match E.decode (region f 28 h.clen) with
    | none => .fail "toc"
    | some (root, inflated) =>
      if fx && decide ((inflated : Int) > h.ulen) then .fail "toc" else
      match (if fx then prepFx E.num hk ki root else match prep E.num hk ki root with
          | some p => .ok p
          | none => .error "notoc") with
      | .error e => .fail e
      | .ok p =>
        match (if fx then frontCheck p.origSig (dRefs E.num none p.doc1) else none) with
        | some e => .fail e
        | none =>
          let heap := f.drop (28 + h.clen.toNat)
          let files : Plan Unit := checkAllStream heap 0 (sortRefs (eRefs E.num p.doc1))
          files.bind fun _ => .pure ⟨hk, p.tree E.num fx, p.origSig, p.newSig, w64 (28 + h.clen + p.origSig), ki.rsaSize⟩

/-- the current tree -/
def signPlan (E : Env) (f : Bytes) (hk : HK) (ki : KeyInfo) : Plan SignOut := signPlanG true E f hk ki
/-- the tree before fix 5d6eee4 -/
def signPlanOrig (E : Env) (f : Bytes) (hk : HK) (ki : KeyInfo) : Plan SignOut := signPlanG false E f hk ki

/-- the header `appendSignatures` writes -/
def newHdr (hk : HK) (clen ulen : Nat) : Hdr := ⟨xarMagic, 28, 1, clen, ulen, hk.hdr⟩

/-- the bytes `appendSignatures` produces: header, compressed TOC, checksum, classic signature, CMS blob, zero padding up
    to the reserved size; `none` = "signature overflows reserved space" -/
def newBytes (C : Crypto) (E : Env) (so : SignOut) (rsaSig cms : Bytes) : Option Bytes :=
  let z := E.encode so.tree
  let used := so.hk.size + rsaSig.length + cms.length
  if (used : Int) > so.newSig then none else
  some ((newHdr so.hk z.1.length z.2).enc ++ z.1 ++ C.H so.hk z.1 ++ rsaSig ++ cms ++ zeros (so.newSig.toNat - used))

/-- the patch set `Sign` returns: `p.Add(0, origTotal, newBytes)`; `uint32(oldSize)` truncates, a range above 2^32−1 is
    split into one entry per 2^32−1 bytes -/
def patchSet (origTotal : Int) (body : Bytes) : List Patch :=
  if origTotal < 0 then [⟨0, (origTotal % 2 ^ 32).toNat, body⟩]
  else Binpatch.build 4294967295 [⟨0, origTotal.toNat, body⟩]

/-- number of patch entries (each costs 16 bytes of header plus bookkeeping): unbounded by the input length -/
def patchEntries (origTotal : Int) : Nat :=
  if origTotal ≤ 4294967295 then 1 else ((origTotal - 1) / 4294967295).toNat + 1

/-- the reference result: new header + TOC + signature area, then the input from `origTotal` on -/
def written (f : Bytes) (origTotal : Int) (body : Bytes) : Bytes := body ++ f.drop origTotal.toNat

/-- the file found at the output path after `Dump → Load → Apply` -/
def signedFile (f : Bytes) (origTotal : Int) (body : Bytes) (canOverwrite : Bool) : Res (Bytes × Bool) :=
  Binpatch.apply f (Binpatch.sortByOff (patchSet origTotal body)) canOverwrite

/-! ### the format's own view (what a reader of the format sees; independent of both of relic's readers) -/

/-- a heap reference of the table of contents: `<data>` of a `<file>` below `<toc>`, at any depth -/
structure Member where
  offset : Int
  length : Int
  sum : Option (String × String)     -- style and text of `<archived-checksum>`
  deriving Repr, DecidableEq

/-- integer text of the first child of that name, as a careful reader takes it (absent / unreadable: 0) -/
def numChild (N : Num) (n : String) (ks : List Xml) : Int :=
  match first n ks with
  | some e => let r := N.atoiT (allText e.kids); if r.2 then r.1 else 0
  | none => 0

def memberOfData (N : Num) (ks : List Xml) : Member :=
  ⟨numChild N "offset" ks, numChild N "length" ks,
   (first "archived-checksum" ks).map fun e => ((attrFirst "style" e.attrs).getD "", allText e.kids)⟩

mutual
/-- members of one `<file>` element: its first `<data>` child, then those of its `<file>` children -/
def membersOfFile (N : Num) : Xml → List Member
  | .el _ _ ks => ((first "data" ks).map fun d => memberOfData N d.kids).toList ++ membersOfFiles N ks
  | .tx _ => []
def membersOfFiles (N : Num) : List Xml → List Member
  | [] => []
  | .el n as ks :: rest => (if n = "file" then membersOfFile N (.el n as ks) else []) ++ membersOfFiles N rest
  | .tx _ :: rest => membersOfFiles N rest
end

/-- members of a document: root `<xar>`, first `<toc>` -/
def members (N : Num) : Xml → List Member
  | .el n _ ks => if n = "xar" then match first "toc" ks with
      | some t => membersOfFiles N t.kids
      | none => []
    else []
  | .tx _ => []

/-! ### regular documents (the class the theorems of C01 / C03 / C08 are stated for; printed by the driver) -/

def allTx (ks : List Xml) : Bool := ks.all (·.isTx)

def count (n : String) (ks : List Xml) : Nat := (named n ks).length

/-- a number element as both readers read it alike -/
def numOk (N : Num) (ks : List Xml) : Bool := allTx ks && (N.atoi (etext ks)).2

def regDataKid (N : Num) : Xml → Bool
  | .tx _ => true
  | .el n as ks =>
    if n = "offset" ∨ n = "length" then numOk N ks
    else if n = "archived-checksum" then allTx ks && decide ((as.filter (·.1 = "style")).length ≤ 1)
    else true

def regData (N : Num) (ks : List Xml) : Bool :=
  ks.all (regDataKid N) && count "offset" ks == 1 && decide (count "length" ks ≤ 1) && decide (count "archived-checksum" ks ≤ 1)

mutual
def regFile (N : Num) : Xml → Bool
  | .tx _ => true
  | .el n _ ks => if n = "file" then regFileKids N ks && decide (count "data" ks ≤ 1) else if n = "data" then regData N ks else true
def regFileKids (N : Num) : List Xml → Bool
  | [] => true
  | k :: ks => regFile N k && regFileKids N ks
end

/-- root `<xar>`, exactly one `<toc>` child, regular files below it -/
def regularDoc (N : Num) : Xml → Bool
  | .tx _ => false
  | .el rn _ rks =>
    rn == "xar" && match splitFirst "toc" rks with
      | none => false
      | some (_, t, post) => post.all (fun k => !k.isEl "toc") && regFileKids N t.kids


end Relic.Xar

package main

// registration of the reader calculus (harness/readers; first op token RD; served under C09) – kept in its own file so
// that it merges without touching main.go.

import (
	"verifharness/hx"
	"verifharness/readers"
)

func init() {
	handlers["RD"] = readers.Handle
	gens["C09"] = append(gens["C09"], readers.Gen)
	// c09.Impl only knows ops whose first token is C09; route by first token instead (c09.Handle is registered under
	// "C09" and does per line what c09.Impl did)
	customImpl["C09"] = func() { hx.Dispatch(handlers) }
}

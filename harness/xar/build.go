package xar

// An own minimal xar writer and an own reader (header, zlib, element walk, heap ranges).  Neither uses relic.

import (
	"bytes"
	"compress/zlib"
	"crypto/sha1"
	"crypto/sha256"
	"crypto/sha512"
	"encoding/binary"
	"encoding/hex"
	"errors"
	"fmt"
	"io"
	"strconv"
	"strings"

	"verifharness/hx"
)

const Magic = 0x78617221

// header hash types of the format
const (
	HSha1   = 1
	HSha256 = 3
	HSha512 = 4
)

func HashName(h uint32) string {
	switch h {
	case HSha1:
		return "sha1"
	case HSha256:
		return "sha256"
	case HSha512:
		return "sha512"
	}
	return ""
}

func HashSize(h uint32) int {
	switch h {
	case HSha1:
		return 20
	case HSha256:
		return 32
	case HSha512:
		return 64
	}
	return 0
}

func Digest(style string, b []byte) []byte {
	switch style {
	case "sha1":
		d := sha1.Sum(b)
		return d[:]
	case "sha256":
		d := sha256.Sum256(b)
		return d[:]
	case "sha512":
		d := sha512.Sum512(b)
		return d[:]
	}
	return nil
}

// ---------------------------------------------------------------------------------------------- writer

type Mem struct {
	Name    string
	Type    string // <type> text; "" = file / directory according to Dir
	Link    string // link attribute of <type> (hard links: "original" on the entry that owns the data, its id on the others)
	Dir     bool
	Kids    []*Mem
	HasData bool
	Data    []byte // archived bytes (what lies in the heap)
	Sum     string // style of <archived-checksum>; "" = the element is absent
	Gz      bool   // encoding application/x-gzip: Data is the zlib stream of Plain
	Plain   []byte
	EA      []byte // extended attribute stored in the heap (nil: none)
	EASum   string
	off     int64
	eaOff   int64
}

type Arch struct {
	Hash    uint32 // header hash type
	HdrSize int    // 28 unless the header is extended
	Pretty  bool   // whitespace text between elements, as real archives have
	Level   int    // zlib level (0 = stored)
	Mems    []*Mem
	Gap     int  // stray bytes between the checksum/signature area and the first member
	Between int  // stray bytes between members
	Trail   int  // bytes behind the last member
	Reverse bool // heap order is the reverse of the TOC order
	FakeSig int  // size of a reserved <signature style="RSA"> area that nobody can verify (0: none)
	SigEnd  bool // the fake signature area lies BEHIND the members (irregular)
	CkEnd   bool // the TOC checksum lies BEHIND the members (irregular)
	Fill    byte
}

func zcompress(b []byte, level int) []byte {
	var out bytes.Buffer
	zw, _ := zlib.NewWriterLevel(&out, level)
	zw.Write(b)
	zw.Close()
	return out.Bytes()
}

func num(n int64) string { return strconv.FormatInt(n, 10) }

func sumNode(name, style string, data []byte) *Node {
	return El(name, Tx(hex.EncodeToString(Digest(style, data)))).Attr("style", style)
}

func (m *Mem) node(id *int) *Node {
	*id++
	f := El("file").Attr("id", strconv.Itoa(*id))
	f.Add(Leaf("name", m.Name))
	switch {
	case m.Type != "":
		t := Leaf("type", m.Type)
		if m.Link != "" {
			t.Attr("link", m.Link)
		}
		f.Add(t, Leaf("mode", "0644"))
	case m.Dir:
		f.Add(Leaf("type", "directory"), Leaf("mode", "0755"))
	default:
		f.Add(Leaf("type", "file"), Leaf("mode", "0644"))
	}
	if m.EA != nil {
		ea := El("ea").Attr("id", "0")
		ea.Add(Leaf("name", "com.example.note"), Leaf("offset", num(m.eaOff)), Leaf("size", num(int64(len(m.EA)))), Leaf("length", num(int64(len(m.EA)))))
		if m.EASum != "" {
			ea.Add(sumNode("archived-checksum", m.EASum, m.EA))
		}
		ea.Add(El("encoding").Attr("style", "application/octet-stream"))
		f.Add(ea)
	}
	if m.HasData {
		d := El("data")
		plain := m.Data
		enc := "application/octet-stream"
		if m.Gz {
			plain = m.Plain
			enc = "application/x-gzip"
		}
		d.Add(Leaf("length", num(int64(len(m.Data)))), Leaf("offset", num(m.off)), Leaf("size", num(int64(len(plain)))))
		d.Add(El("encoding").Attr("style", enc))
		if m.Sum != "" {
			d.Add(sumNode("extracted-checksum", m.Sum, plain), sumNode("archived-checksum", m.Sum, m.Data))
		}
		f.Add(d)
	}
	for _, k := range m.Kids {
		f.Add(k.node(id))
	}
	return f
}

func flat(ms []*Mem, out *[]*Mem) {
	for _, m := range ms {
		*out = append(*out, m)
		flat(m.Kids, out)
	}
}

func prettify(n *Node, depth int) {
	if n.IsText() || len(n.Kids) == 0 {
		return
	}
	onlyText := true
	for _, k := range n.Kids {
		if !k.IsText() {
			onlyText = false
		}
	}
	if onlyText {
		return
	}
	var out []*Node
	for _, k := range n.Kids {
		out = append(out, Tx("\n"+strings.Repeat(" ", depth+1)))
		prettify(k, depth+1)
		out = append(out, k)
	}
	out = append(out, Tx("\n"+strings.Repeat(" ", depth)))
	n.Kids = out
}

// Layout builds the tree and the heap of an archive (the checksum bytes in the heap are filled in by Assemble).
func (a *Arch) Layout() (*Node, []byte) {
	hs := HashSize(a.Hash)
	var all []*Mem
	flat(a.Mems, &all)
	order := append([]*Mem{}, all...)
	if a.Reverse {
		for i, j := 0, len(order)-1; i < j; i, j = i+1, j-1 {
			order[i], order[j] = order[j], order[i]
		}
	}
	var heap []byte
	fill := func(n int) {
		for i := 0; i < n; i++ {
			heap = append(heap, a.Fill)
		}
	}
	ckOff, sigOff := int64(0), int64(0)
	if !a.CkEnd {
		fill(hs)
	}
	if a.FakeSig > 0 && !a.SigEnd {
		sigOff = int64(len(heap))
		fill(a.FakeSig)
	}
	fill(a.Gap)
	first := true
	for _, m := range order {
		if m.HasData {
			if !first {
				fill(a.Between)
			}
			first = false
			m.off = int64(len(heap))
			heap = append(heap, m.Data...)
		}
		if m.EA != nil {
			m.eaOff = int64(len(heap))
			heap = append(heap, m.EA...)
		}
	}
	if a.CkEnd {
		ckOff = int64(len(heap))
		fill(hs)
	}
	if a.FakeSig > 0 && a.SigEnd {
		sigOff = int64(len(heap))
		fill(a.FakeSig)
	}
	fill(a.Trail)
	toc := El("toc")
	toc.Add(Leaf("creation-time", "2024-01-02T03:04:05"))
	toc.Add(El("checksum", Leaf("offset", num(ckOff)), Leaf("size", num(int64(hs)))).Attr("style", HashName(a.Hash)))
	if a.FakeSig > 0 {
		ki := El("KeyInfo", El("X509Data", Leaf("X509Certificate", CertText("rsa")))).Attr("xmlns", "http://www.w3.org/2000/09/xmldsig#")
		toc.Add(El("signature", Leaf("offset", num(sigOff)), Leaf("size", num(int64(a.FakeSig))), ki).Attr("style", "RSA"))
	}
	id := 0
	for _, m := range a.Mems {
		toc.Add(m.node(&id))
	}
	root := El("xar", toc)
	if a.Pretty {
		prettify(root, 0)
	}
	return root, heap
}

// Assemble writes header, compressed table of contents and heap.  With fixCk the checksum element's heap range (first
// <checksum> under the first <toc>, canonical numbers) receives the hash of the compressed table of contents.
func Assemble(hash uint32, hdrSize int, level int, root *Node, heap []byte, fixCk bool) []byte {
	x := root.XML()
	z := zcompress(x, level)
	return AssembleRaw(hash, hdrSize, z, int64(len(x)), root, heap, fixCk)
}

func AssembleRaw(hash uint32, hdrSize int, z []byte, ulen int64, root *Node, heap []byte, fixCk bool) []byte {
	heap = append([]byte{}, heap...)
	if fixCk && root != nil {
		if toc := root.Child("toc"); toc != nil {
			if ck := toc.Child("checksum"); ck != nil {
				off, e1 := strconv.ParseInt(strings.TrimSpace(textOf(ck.Child("offset"))), 10, 64)
				d := Digest(HashName(hash), z)
				if e1 == nil && off >= 0 && off <= int64(len(heap)) && int(off)+len(d) <= len(heap) {
					copy(heap[off:], d)
				}
			}
		}
	}
	hdr := make([]byte, 28)
	be := binary.BigEndian
	be.PutUint32(hdr[0:], Magic)
	be.PutUint16(hdr[4:], uint16(hdrSize))
	be.PutUint16(hdr[6:], 1)
	be.PutUint64(hdr[8:], uint64(len(z)))
	be.PutUint64(hdr[16:], uint64(ulen))
	be.PutUint32(hdr[24:], hash)
	out := append([]byte{}, hdr...)
	for len(out) < hdrSize {
		out = append(out, 0)
	}
	// a header size below 28 only changes the field: the 28 bytes are always there
	out = append(out, z...)
	return append(out, heap...)
}

func (a *Arch) Build() []byte {
	root, heap := a.Layout()
	hs := a.HdrSize
	if hs == 0 {
		hs = 28
	}
	return Assemble(a.Hash, hs, a.Level, root, heap, true)
}

func textOf(n *Node) string {
	if n == nil {
		return ""
	}
	return n.AllText()
}

// ---------------------------------------------------------------------------------------------- reader

type Header struct {
	Magic   uint32
	HdrSize uint16
	Version uint16
	CLen    int64
	ULen    int64
	Hash    uint32
}

func ParseHeader(f []byte) (h Header, ok bool) {
	if len(f) < 28 {
		return h, false
	}
	be := binary.BigEndian
	h.Magic = be.Uint32(f[0:])
	h.HdrSize = be.Uint16(f[4:])
	h.Version = be.Uint16(f[6:])
	h.CLen = int64(be.Uint64(f[8:]))
	h.ULen = int64(be.Uint64(f[16:]))
	h.Hash = be.Uint32(f[24:])
	return h, true
}

// Region: what io.NewSectionReader(file, off, n) delivers: f[off : off+n] clipped to the file; a negative n makes the
// constructor's overflow guard set the limit to 2^63-1, i.e. everything from off on
func Region(f []byte, off, n int64) []byte {
	if n == 0 || off < 0 || off >= int64(len(f)) {
		return nil
	}
	if n < 0 {
		return f[off:]
	}
	end := off + n
	if end > int64(len(f)) || end < off {
		end = int64(len(f))
	}
	return f[off:end]
}

// maxInflate bounds what the harness's own reader is willing to inflate (relic has no such bound)
const maxInflate = 8 << 20

// Inflate: the zlib stream at the start of the region (bytes behind its end are ignored, as Go's reader does)
func Inflate(region []byte) ([]byte, error) {
	zr, err := zlib.NewReader(bytes.NewReader(region))
	if err != nil {
		return nil, err
	}
	b, err := io.ReadAll(io.LimitReader(zr, maxInflate+1))
	if err != nil {
		return nil, err
	}
	if len(b) > maxInflate {
		return nil, errors.New("inflated size beyond the harness bound")
	}
	return b, nil
}

// TreeAt: the element tree of the table of contents stored at [off, off+clen), and its inflated size
func TreeAt(f []byte, off, clen int64) (*Node, int, error) { return treeOf(Region(f, off, clen)) }

// TreeAtLimited: the same for io.LimitReader(stream, clen), which delivers nothing for clen <= 0
func TreeAtLimited(f []byte, off, clen int64) (*Node, int, error) {
	if clen <= 0 {
		return treeOf(nil)
	}
	return treeOf(Region(f, off, clen))
}

func treeOf(region []byte) (*Node, int, error) {
	x, err := Inflate(region)
	if err != nil {
		return nil, 0, err
	}
	n, err := ParseXML(x)
	return n, len(x), err
}

// Item: one heap range the table of contents refers to
type Item struct {
	Path   string
	Kind   string // data | ea
	Off    int64
	Len    int64
	Style  string // archived-checksum style ("" = absent)
	Digest string
	OK     bool   // numbers readable
	Bytes  []byte // the heap bytes of the range (nil when it does not lie inside the file)
}

type View struct {
	H     Header
	Root  *Node
	ULen  int
	Base  int64
	Items []Item
}

func parseNum(n *Node) (int64, bool) {
	if n == nil {
		return 0, false
	}
	v, err := strconv.ParseInt(strings.TrimSpace(n.AllText()), 10, 64)
	return v, err == nil
}

func (v *View) rangeItem(f []byte, path, kind string, d *Node) {
	off, ok1 := parseNum(d.Child("offset"))
	ln, ok2 := parseNum(d.Child("length"))
	it := Item{Path: path, Kind: kind, Off: off, Len: ln, OK: ok1 && ok2}
	if ac := d.Child("archived-checksum"); ac != nil {
		it.Style = ac.AttrVal("style")
		if it.Style == "" {
			it.Style = "?"
		}
		it.Digest = ac.AllText()
	}
	if it.OK && off >= 0 && ln >= 0 {
		s := v.Base + off
		if s >= 0 && s+ln >= s && s+ln <= int64(len(f)) {
			it.Bytes = f[s : s+ln]
			if it.Bytes == nil {
				it.Bytes = []byte{}
			}
		}
	}
	v.Items = append(v.Items, it)
}

func (v *View) walk(f []byte, prefix string, files []*Node) {
	for i, fe := range files {
		name := textOf(fe.Child("name"))
		if name == "" {
			name = fmt.Sprintf("#%d", i)
		}
		path := prefix + name
		if d := fe.Child("data"); d != nil {
			v.rangeItem(f, path, "data", d)
		}
		for j, ea := range fe.Children("ea") {
			if ea.Child("offset") != nil {
				v.rangeItem(f, fmt.Sprintf("%s@ea%d", path, j), "ea", ea)
			}
		}
		v.walk(f, path+"/", fe.Children("file"))
	}
}

// Read: the archive as the format describes it (root <xar>, first <toc>, <file> elements below it, first <data> each)
func Read(f []byte) (*View, error) {
	h, ok := ParseHeader(f)
	if !ok {
		return nil, errors.New("short header")
	}
	if h.Magic != Magic {
		return nil, errors.New("magic")
	}
	v := &View{H: h}
	root, ulen, err := TreeAt(f, int64(h.HdrSize), h.CLen)
	if err != nil {
		return nil, err
	}
	v.Root, v.ULen = root, ulen
	v.Base = int64(h.HdrSize) + h.CLen
	if root.Name == "xar" {
		if toc := root.Child("toc"); toc != nil {
			v.walk(f, "", toc.Children("file"))
		}
	}
	return v, nil
}

// Table: the heap ranges as `path|kind|off|len|style|sha256-prefix-of-bytes` joined by ';' (for the python predicates)
func (v *View) Table() string {
	if len(v.Items) == 0 {
		return "-"
	}
	var parts []string
	for _, it := range v.Items {
		d := "x"
		if it.Bytes != nil {
			s := sha256.Sum256(it.Bytes)
			d = hex.EncodeToString(s[:6])
		}
		st := it.Style
		if st == "" {
			st = "-"
		}
		parts = append(parts, fmt.Sprintf("%s|%s|%d|%d|%s|%s", hexs(it.Path), it.Kind, it.Off, it.Len, hexs(st), d))
	}
	return strings.Join(parts, ";")
}

var _ = hx.Hex

/- line-protocol handlers for the XAP model (used by C01, C02, C03, C08, C11) -/
import Relic.Model.Xap
namespace Relic.Driver.Xap
open Relic Relic.Xap

def showRes {α} (r : Res α) (f : α → String) : String :=
  match r with
  | .ok a => f a
  | .err e => s!"err {e}"
  | .panic p => s!"panic {p}"
  | .diverge => "diverge"

/-- `namehex:size:datahex,…` -/
def parseTar (s : String) : Option (List Member) :=
  if s = "-" then some [] else
  (s.splitOn ",").mapM fun item =>
    match item.splitOn ":" with
    | [n, sz, d] => do pure ⟨← fromHex n, ← sz.toNat?, ← fromHex d⟩
    | _ => none

def parseEnd (s : String) : Option Bool :=
  if s = "eof" ∨ s = "eof0" then some true else if s = "cut" then some false else none

def showPatches (d : Digest) (s : Bytes) : String :=
  match patchCalls d s with
  | none => s!"{d.patchStart}:{d.patchLen}:{toHex (sigBlock s)}"
  | some cs => ",".intercalate ((Binpatch.build uint32Max cs).map fun p => s!"{p.off}:{p.old}:{toHex p.blob}")

def b01 (b : Bool) : String := if b then "1" else "0"

/-- how many bytes `removeSignature` cuts off the directory blob, and whether that range is a frame `Verify` would recognise
    at the end of the zip member (header consistent with the trailer) -/
def stripTag (zipdata cd : Bytes) : String :=
  let k := cd.length - (removeSignature cd).length
  let framed := match locate zipdata zipdata.length with
    | .ok l => k > 0 && l.n + k == zipdata.length
    | _ => false
  s!"strip={k} framed={b01 framed}"

/-- tag of a digest / sign op: strip, framed, and whether the framing is the one `ZipToTar` writes -/
def tarTag (ms : List Member) (clean : Bool) : String :=
  match walk [] clean ms with
  | .ok (cd, m) =>
    let faithful := m.size == m.data.length && cd.length ≤ m.data.length && m.data.drop (m.data.length - cd.length) == cd
    s!"{stripTag m.data cd} faithful={b01 faithful}"
  | _ => "strip=0 framed=0 faithful=0"

def showDigest (d : Digest) : String := s!"ok stream={toHex d.hashed} start={d.patchStart} len={d.patchLen}"

def showLocate (f : Bytes) (r : Res Located) : String :=
  showRes r fun l => s!"loc {l.n + 8} {l.blob.length} blob={toHex l.blob} stream={toHex (f.take l.n)}"

def locTag (r : Res Located) : String :=
  match r with
  | .ok l => s!"u={l.hu1},{l.hu2},{l.tu} n={l.n}"
  | _ => "u=-"

def parseSize (f : Bytes) (s : String) : Option Int :=
  if s = "-" then some f.length else s.toInt?

/-- `deschex:shex,…` → the blobs -/
def parseRounds (s : String) : Option (List Bytes) :=
  (s.splitOn ",").mapM fun item =>
    match item.splitOn ":" with
    | [_, b] => fromHex b
    | _ => none

/-- one round through the signer module; returns the file and the stream that was hashed; errors carry the stage -/
def round (z s : Bytes) : Res (Bytes × Bytes) :=
  match transform z with
  | .ok ms => (digestTar ms true).bind fun d => (applyPatch z d s).bind fun g => .ok (g, d.hashed)
  | .err e => .err s!"transform-{e}"
  | .panic p => .panic p
  | .diverge => .diverge

/-- rounds `k, k+1, …`: the file, whether every round hashed the stream `h0`; an error names the round -/
def history (k : Nat) : Bytes → Option Bytes → Bool → List Bytes → Res (Bytes × Bool)
  | g, _, same, [] => .ok (g, same)
  | g, h0, same, s :: rest =>
    match round g s with
    | .ok (g', h) =>
      let ref := h0.getD h
      history (k + 1) g' (some ref) (same && h == ref) rest
    | .err e => .err s!"round{k}-{e}"
    | .panic p => .panic p
    | .diverge => .diverge

def transformClass (z : Bytes) : String :=
  match transform z with
  | .ok _ => "ok"
  | .err e => e
  | .panic p => s!"panic-{p}"
  | .diverge => "diverge"

def handle : List String → String
  | ["digest", ts, e] =>
    match parseTar ts, parseEnd e with
    | some ms, some clean => s!"{showRes (digestTar ms clean) showDigest} #{tarTag ms clean}"
    | _, _ => "bad-op"
  | ["sign", ts, e, _desc, _url, shex] =>
    match parseTar ts, parseEnd e, fromHex shex with
    | some ms, some clean, some s =>
      s!"{showRes (digestTar ms clean) fun d => s!"{showDigest d} patch={showPatches d s}"} #{tarTag ms clean}"
    | _, _, _ => "bad-op"
  | ["roundtrip", zhex, _desc, _url, shex, _tab] =>
    match fromHex zhex, fromHex shex with
    | some z, some s =>
      match transform z with
      | .ok ms =>
        showRes (digestTar ms true) fun d =>
          showRes (applyPatch z d s) fun g =>
            s!"ok out={toHex g} V {showLocate g (locate g g.length)} #{tarTag ms true} {locTag (locate g g.length)}"
      | .err e => s!"err transform-{e}"
      | .panic p => s!"panic {p}"
      | .diverge => "diverge"
    | _, _ => "bad-op"
  | ["history", zhex, rounds] =>
    match fromHex zhex, parseRounds rounds with
    | some z, some (s1 :: rest) =>
      showRes (history 1 z none true (s1 :: rest)) fun (g, same) =>
        let last := (s1 :: rest).getLast?.getD s1
        let repl := match round z last with
          | .ok (gd, _) => if gd == g then "replaced" else "not-replaced"
          | _ => "direct-failed"
        s!"ok out={toHex g} digests={if same then "same" else "changed"} {repl} t={transformClass g}"
    | _, _ => "bad-op"
  | ["frame", fhex] =>
    match fromHex fhex with
    | some f => s!"ok {frameSize f}"
    | none => "bad-op"
  | ["verify", fhex, size, _skip, _tab] =>
    match fromHex fhex with
    | some f =>
      match parseSize f size with
      | some sz => s!"{showLocate f (locate f sz)} #{locTag (locate f sz)} alloc={verifyAlloc f sz}"
      | none => "bad-op"
    | none => "bad-op"
  | "mutate" :: ghex :: _tab :: _n :: muts =>
    match fromHex ghex with
    | none => "bad-op"
    | some g =>
      match locate g g.length with
      | .ok l0 =>
        let one (m : String) : String :=
          match m.splitOn ":" with
          | [p, b] =>
            match p.toNat?, b.toNat? with
            | some pos, some byte =>
              let g' := g.set pos (UInt8.ofNat byte)
              if g' = g then "same" else
              match locate g' g'.length with
              | .ok l' =>
                if l'.blob = l0.blob then (if g'.take l'.n = g.take l0.n then "pass" else "fail") else "any"
              | _ => "fail"
            | _, _ => "bad"
          | _ => "bad"
        s!"ok {" ".intercalate (muts.map one)} #n={l0.n} blob={l0.blob.length}"
      | _ => "err not-located"
  | _ => "bad-op"

end Relic.Driver.Xap

#!/bin/bash
# confirm_seed.sh <name> <n> <pkgdir> <runpattern>: confirm demo fails with the patch and passes without, and the suite passes with the patch; then store under /verif/seeded/
export GOFLAGS=-mod=mod GOPROXY=off GOSUMDB=off GOTOOLCHAIN=local
name=$1; n=$2; pkg=$3; pat=$4; prop=$5; caught="$6"
wt=/tmp/mut/$name/repo; m=/tmp/mut/$name/out/$n
cd $wt && git checkout -q -- . && git clean -fdq
cp $m/demo/*_test.go $pkg/ 2>/dev/null
without=$(go test -vet=off -count=1 -run "$pat" ./$pkg/ 2>&1 | tail -1)
git apply $m/patch.diff
with=$(go test -vet=off -count=1 -run "$pat" ./$pkg/ 2>&1 | tail -1)
rm -f $pkg/zz_demo*_test.go
suite=$(go build ./... 2>&1 | tail -1; go test -vet=off -count=1 ./... 2>&1 | grep -c "^FAIL\|^--- FAIL")
git checkout -q -- . ; git clean -fdq
echo "$name/$n demo-without: [$without] demo-with: [$with] suite-FAIL-lines-with-patch: $suite"
id=$name-$n
mkdir -p /verif/seeded/$id && cp $m/patch.diff /verif/seeded/$id/ && cp -r $m/demo /verif/seeded/$id/ && cp $m/notes.md /verif/seeded/$id/
python3 - "$id" "$prop" "$pkg" "$pat" "$without" "$with" "$suite" "$caught" <<'PY'
import json,sys
id,prop,pkg,pat,wo,wi,suite,caught=sys.argv[1:9]
json.dump({"id":id,"breaks_property":prop,"needs_to_manifest":"see notes.md","demo":{"package":pkg,"run":"cp demo/*_test.go <repo>/%s/ && go test -mod=mod -vet=off -count=1 -run '%s' ./%s/"%(pkg,pat,pkg),
  "result_without_change":wo,"result_with_change":wi},"existing_suite_fail_lines_with_change":int(suite),
  "our_check":caught,"confirmed_by":"confirm_seed.sh in scratch worktree; ./check run on /repo with patch applied then reverted"},open('/verif/seeded/%s/meta.json'%id,'w'),indent=1)
PY

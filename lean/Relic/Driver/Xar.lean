/- line-protocol handlers for the xar / flat package model (used by C01, C02, C03, C08, C11)

   tree token (one field, comma separated): node = `e,<hex name>,<nAttrs>,{<hex key>,<hex value>}*,<nKids>,{node}*` | `t,<hex text>`
   TOC field: `<inflated size>:<tree token>` or `-` (the region does not decode) -/
import Relic.Model.Xar
namespace Relic.Driver.Xar
open Relic Relic.Xar

/-! ### strings and trees on the wire -/

def strOfHex (h : String) : Option String := do
  let b ← fromHex h
  String.fromUTF8? (ByteArray.mk b.toArray)

def hexOfStr (s : String) : String := toHex s.toUTF8.toList

def parseAttrs : Nat → List String → Option (List (String × String) × List String)
  | 0, rest => some ([], rest)
  | n + 1, k :: v :: rest => do
    let k ← strOfHex k
    let v ← strOfHex v
    let r ← parseAttrs n rest
    pure ((k, v) :: r.1, r.2)
  | _, _ => none

mutual
def parseNode : Nat → List String → Option (Xml × List String)
  | 0, _ => none
  | f + 1, "e" :: name :: na :: rest => do
    let name ← strOfHex name
    let na ← na.toNat?
    let ar ← parseAttrs na rest
    match ar.2 with
    | nk :: rest2 => do
      let nk ← nk.toNat?
      let kr ← parseNodes f nk rest2
      pure (.el name ar.1 kr.1, kr.2)
    | [] => none
  | _ + 1, "t" :: d :: rest => do
    let d ← strOfHex d
    pure (.tx d, rest)
  | _, _ => none
def parseNodes : Nat → Nat → List String → Option (List Xml × List String)
  | _, 0, rest => some ([], rest)
  | 0, _, _ => none
  | f + 1, n + 1, rest => do
    let k ← parseNode f rest
    let ks ← parseNodes f n k.2
    pure (k.1 :: ks.1, ks.2)
end

def parseTree (tok : String) : Option Xml :=
  let fs := tok.splitOn ","
  match parseNode (fs.length + 1) fs with
  | some (t, []) => some t
  | _ => none

/-- `<inflated size>:<token>`; `-` = nothing decodes there -/
def parseToc (s : String) : Option (Option (Xml × Nat)) :=
  if s = "-" then some none else
  match s.splitOn ":" with
  | [n, tok] => do
    let n ← n.toNat?
    let t ← parseTree tok
    pure (some (t, n))
  | _ => none

partial def tokOf : Xml → String
  | .tx s => s!"t,{hexOfStr s}"
  | .el n as ks =>
    let a := as.foldl (fun acc p => acc ++ s!",{hexOfStr p.1},{hexOfStr p.2}") ""
    let k := ks.foldl (fun acc x => acc ++ "," ++ tokOf x) ""
    s!"e,{hexOfStr n},{as.length}{a},{ks.length}{k}"

/-- adjacent text merged, empty text dropped: what a serialise / parse round trip makes of a tree -/
partial def normKids : List Xml → List Xml
  | [] => []
  | .tx a :: .tx b :: rest => normKids (.tx (a ++ b) :: rest)
  | .tx a :: rest => if a = "" then normKids rest else .tx a :: normKids rest
  | .el n as ks :: rest => .el n as (normKids ks) :: normKids rest

def norm : Xml → Xml
  | .el n as ks => .el n as (normKids ks)
  | t => t

/-! ### strconv -/

def isGoSpace (c : Char) : Bool :=
  c = ' ' || c = '\t' || c = '\n' || c = '\x0b' || c = '\x0c' || c = '\r' || c.toNat = 0x85 || c.toNat = 0xA0

def trimSpace (s : String) : String :=
  String.ofList ((s.toList.dropWhile isGoSpace).reverse.dropWhile isGoSpace).reverse

def digitsVal : List Char → Nat → Option Nat
  | [], acc => some acc
  | c :: cs, acc => if '0' ≤ c ∧ c ≤ '9' then digitsVal cs (acc * 10 + (c.toNat - 48)) else none

/-- `strconv.ParseInt(s, 10, 64)`: value and `err == nil` -/
def goAtoi (s : String) : Int × Bool :=
  let cs := s.toList
  let (neg, ds) : Bool × List Char := match cs with
    | '+' :: r => (false, r)
    | '-' :: r => (true, r)
    | r => (false, r)
  if ds.isEmpty then (0, false) else
  match digitsVal ds 0 with
  | none => (0, false)
  | some n =>
    if neg then (if n ≤ 2 ^ 63 then (-(n : Int), true) else (-(2 ^ 63 : Int), false))
    else (if n < 2 ^ 63 then ((n : Int), true) else ((2 ^ 63 - 1 : Int), false))

def goNum : Num := { atoi := goAtoi, atoiT := fun s => goAtoi (trimSpace s), fmt := fun n => toString n }

/-! ### base64 (certificate text as `reserveSignatures` renders it) -/

def b64Char (n : Nat) : Char :=
  if n < 26 then Char.ofNat (65 + n) else if n < 52 then Char.ofNat (97 + n - 26) else if n < 62 then Char.ofNat (48 + n - 52)
  else if n = 62 then '+' else '/'

def b64 : Bytes → List Char
  | a :: b :: c :: rest =>
    let n := a.toNat * 65536 + b.toNat * 256 + c.toNat
    b64Char (n / 262144) :: b64Char (n / 4096 % 64) :: b64Char (n / 64 % 64) :: b64Char (n % 64) :: b64 rest
  | [a, b] =>
    let n := a.toNat * 65536 + b.toNat * 256
    [b64Char (n / 262144), b64Char (n / 4096 % 64), b64Char (n / 64 % 64), '=']
  | [a] =>
    let n := a.toNat * 65536
    [b64Char (n / 262144), b64Char (n / 4096 % 64), '=', '=']
  | [] => []

/-- a newline after every 72 characters while more than 72 remain -/
partial def lines72 (cs : List Char) : List Char :=
  if cs.length > 72 then cs.take 72 ++ '\n' :: lines72 (cs.drop 72) else cs

def certText (der : Bytes) : String := String.ofList (lines72 (b64 der))

/-! ### environment from an op -/

/-- a hash nobody mistakes for a real one: FNV-1a folded out to the digest size (only used on bytes the model itself
    wrote; comparisons that involve real digests are left to the check) -/
def fakeH (k : HK) (b : Bytes) : Bytes :=
  let h := b.foldl (fun acc x => ((acc ^^^ x.toNat) * 1099511628211) % 2 ^ 64) 14695981039346656037
  (List.range k.size).map fun i => UInt8.ofNat ((h / 2 ^ (8 * (i % 8)) + i * 131) % 256)

/-- serialise + compress, driver version: the token text itself, tagged -/
def encodeD (t : Xml) : Bytes × Nat :=
  let b := ("ZTOC:" ++ tokOf (norm t)).toUTF8.toList
  (b, b.length)

structure Tab where
  entries : List (Bytes × Xml × Nat)

def Tab.decode (tb : Tab) (r : Bytes) : Option (Xml × Nat) :=
  match tb.entries.find? (fun e => e.1 == r) with
  | some e => some e.2
  | none => none

def mkEnv (tb : Tab) (good : List String) : Env :=
  { num := goNum, decode := tb.decode, encode := encodeD, certOk := fun s => good.contains s }

def parseGood (s : String) : Option (List String) :=
  if s = "-" then some [] else (s.splitOn ",").mapM strOfHex

def hkOfGo (n : Nat) : Option HK :=
  if n = 3 then some .sha1 else if n = 5 then some .sha256 else if n = 7 then some .sha512 else none

def goOfHk : HK → Nat
  | .sha1 => 3 | .sha256 => 5 | .sha512 => 7

/-- the table an op describes: the region `Open` reads and the region `Sign` reads -/
def tabOf (f : Bytes) (toc toc28 : Option (Xml × Nat)) : Tab :=
  match readHdr f with
  | none => ⟨[]⟩
  | some h =>
    let e1 := match toc with
      | some t => [(regionSR f h.hsize h.clen, t.1, t.2)]
      | none => []
    let e2 := match toc28 with
      | some t => [(region f 28 h.clen, t.1, t.2)]
      | none => []
    ⟨e1 ++ e2⟩

/-! ### printing -/

def showRes {α} (r : Res α) (f : α → String) : String :=
  match r with
  | .ok a => f a
  | .err e => s!"err {e}"
  | .panic p => s!"panic {p}"
  | .diverge => "diverge"

def checkStr : Check → String
  | .hashEq c k s e => s!"h:{c}:{k.name}:{toHex s}:{toHex e}"
  | .cms b k s => s!"c:{k.name}:{toHex s}:{toHex b}"
  | .rsa c sg k s => s!"r:{k.name}:{toHex s}:{toHex sg}:{hexOfStr c}"

def checksStr (cs : List Check) : String := if cs.isEmpty then "-" else ",".intercalate (cs.map checkStr)

def optHex : Option Bytes → String
  | none => "nil"
  | some b => toHex b

/-- the checks of a mutant relative to those of the unmutated file: `=` where the comparison at that index is unchanged -/
def diffChecks : List Check → List Check → List String
  | _, [] => []
  | [], c :: cs => checkStr c :: diffChecks [] cs
  | b :: bs, c :: cs => (if b = c then "=" else checkStr c) :: diffChecks bs cs

/-- `plan=<checks> ` followed by the final outcome -/
def planLine {α} (p : Plan α) (f : α → String) : String := s!"plan={checksStr p.checks} {showRes p.final f}"

def hasTies (rs : List Ref) : Bool :=
  let os := rs.map (·.offset)
  os.length > 12 || os.any fun o => (os.filter (· = o)).length > 1

/-! ### sign, apply, verify again (model side) -/

def cmsPlaceholder : Bytes := [0x30, 0x03, 0x02, 0x01, 0x2a]

structure SignedModel where
  so : SignOut
  file : Bytes
  z : Bytes

/-- model of one signing: plan, bytes with the driver's hash and placeholder blobs, the applied file -/
def signOnce (E : Env) (f : Bytes) (hk : HK) (ki : KeyInfo) (inplace : Bool) : Plan SignedModel :=
  (signPlan E f hk ki).bind fun so =>
    let C : Crypto := { H := fakeH, cmsOk := fun _ _ => true, rsaOk := fun _ _ _ _ => true }
    match newBytes C E so (zeros (ki.rsaSize.getD 0)) cmsPlaceholder with
    | none => .fail "overflow"
    | some body =>
      -- a patch set of more than 2^20 entries is not built here (the real code allocates them all: outcome alloc / timeout)
      if patchEntries so.origTotal > 1048576 then .fail s!"apply ent={patchEntries so.origTotal}" else
      match signedFile f so.origTotal body inplace with
      | .ok (g, _) => .pure ⟨so, g, (E.encode so.tree).1⟩
      | .err _ => .fail s!"apply ent={(patchSet so.origTotal []).length}"
      | .panic p => ⟨[], .panic p⟩
      | .diverge => ⟨[], .diverge⟩

/-- the verifier's plan on a file the model wrote: the comparisons against bytes the model itself produced (checksum under
    the driver's hash, placeholder CMS blob over the new TOC) are decided here, the member comparisons stay in the plan -/
def verifyWritten (E : Env) (sm : SignedModel) (good : List String) (tb : Tab) : Plan Verified :=
  let E' : Env := { E with decode := (Tab.mk ((sm.z, norm sm.so.tree, sm.z.length) :: tb.entries)).decode,
                           certOk := fun s => good.contains s }
  let p := verifyPlan E' sm.file false
  let rec go : List Check → List Check → Plan Verified
    | [], acc => ⟨acc.reverse, p.final⟩
    | c :: cs, acc =>
      match c with
      | .hashEq "ckmismatch" k s e => if fakeH k s == e then go cs acc else ⟨acc.reverse, .err "ckmismatch"⟩
      | .cms b _ s => if b.take cmsPlaceholder.length == cmsPlaceholder && s == sm.z then go cs acc else ⟨acc.reverse, .err "cms"⟩
      | other => go cs (other :: acc)
  go p.checks []

def keyInfoOf (rsaSize : Nat) (ders : List Bytes) : KeyInfo :=
  { certTexts := ders.map certText, derTotal := (ders.map (·.length)).sum, rsaSize := if rsaSize = 0 then none else some rsaSize }

def parseDers (s : String) : Option (List Bytes) :=
  if s = "-" then some [] else (s.splitOn ",").mapM fromHex

def verifiedStr (v : Verified) : String := s!"ok hf={goOfHk v.hk} ticket={if v.hasTicket then 1 else 0}"

def tiesOf (E : Env) (so : SignOut) : String :=
  s!"ties={if hasTies (eRefs E.num so.tree) then 1 else 0}"

/-- `checkFiles` meets the `<data>` elements in etree's order: when one member lies in front of the signature area and another
    one has no `<archived-checksum>`, which of the two refusals is reported is not compared (both begin with `f`) -/
def bothFrontKinds (E : Env) (hk : HK) (ki : KeyInfo) (t : Xml) : Bool :=
  match prepFx E.num hk ki t with
  | .ok p =>
    let ds := dRefs E.num none p.doc1
    ds.any (fun d => decide (d.length ≠ 0 ∧ d.offset < p.origSig)) &&
      ds.any (fun d => decide (¬ (d.length ≠ 0 ∧ d.offset < p.origSig) ∧ d.sum = none ∧ d.length ≠ 0))
  | .error _ => false

/-- is the document `Sign` reads a regular one (`Relic.Xar.regularDoc`)? -/
def regTag (E : Env) (f : Bytes) : String :=
  match readHdr f with
  | some h => match E.decode (region f 28 h.clen) with
    | some (t, _) => if regularDoc E.num t then "reg=1" else "reg=0"
    | none => "reg=0"
  | none => "reg=0"

/-- rounds of a history: `key:hash:rsaSize:ders` separated by `;` -/
def parseRounds (s : String) : Option (List (Nat × KeyInfo)) :=
  (s.splitOn ";").mapM fun r =>
    match r.splitOn ":" with
    | [_, h, rs, ds] => do
      let h ← h.toNat?
      let rs ← rs.toNat?
      let ds ← parseDers ds
      pure (h, keyInfoOf rs ds)
    | _ => none

/-- fold of signing rounds on the model's own files: checks of all rounds in order; the decode table grows by each new TOC -/
def history (good : List String) : Nat → Bytes → Tab → List (Nat × KeyInfo) → List Check → List Int → Plan (Bytes × Tab × List Int)
  | _, g, tb, [], cs, ns => ⟨cs, .ok (g, tb, ns.reverse)⟩
  | 0, _, _, _, cs, _ => ⟨cs, .err "fuel"⟩
  | fuel + 1, g, tb, (h, ki) :: rest, cs, ns =>
    match hkOfGo h with
    | none => ⟨cs, .err "hashunsup"⟩
    | some hk =>
      let E := mkEnv tb (good ++ ki.certTexts)
      let p := signOnce E g hk ki false
      match p.final with
      | .ok sm =>
        let tb' : Tab := ⟨[(sm.z, norm sm.so.tree, sm.z.length)]⟩
        let v0 := verifyWritten E sm (good ++ ki.certTexts) tb
        let v : Plan Verified := ⟨v0.checks.map (fun c => match c with
          | .hashEq cls k st e => .hashEq ("verify:" ++ cls) k st e
          | other => other), v0.final⟩
        match v.final with
        | .ok _ => history good fuel sm.file tb' rest (cs ++ p.checks ++ v.checks) (sm.so.newSig :: ns)
        | .err e => ⟨cs ++ p.checks ++ v.checks, .err s!"verify:{e}"⟩
        | .panic s => ⟨cs ++ p.checks ++ v.checks, .panic s⟩
        | .diverge => ⟨cs ++ p.checks ++ v.checks, .diverge⟩
      | .err e => ⟨cs ++ p.checks, .err e⟩
      | .panic s => ⟨cs ++ p.checks, .panic s⟩
      | .diverge => ⟨cs ++ p.checks, .diverge⟩

def handle : List String → String
  | ["open", fhex, toc, good] =>
    match fromHex fhex, parseToc toc, parseGood good with
    | some f, some toc, some good =>
      let E := mkEnv (tabOf f toc none) good
      planLine (openPlan E f) fun o =>
        s!"ok hf={goOfHk o.hk} toch={toHex o.tocHash} ncert={o.certs.length} rsa={optHex o.rsaSig} cms={optHex o.cmsSig} ticket={optHex o.ticket} #alloc={o.alloc}"
    | _, _, _ => "bad-op"
  | ["vfy", fhex, toc, good, skip, _oracle] =>
    match fromHex fhex, parseToc toc, parseGood good with
    | some f, some toc, some good =>
      let E := mkEnv (tabOf f toc none) good
      let ties := match toc with
        | some (t, _) => match unmarshal E.num t with
          | some x => hasTies ((gather x.files).map XFile.ref)
          | none => false
        | none => false
      planLine (verifyPlan E f (skip = "1")) verifiedStr ++ s!" ties={if ties then 1 else 0}"
    | _, _, _ => "bad-op"
  | ["sign", fhex, toc, toc28, hash, _key, rsaSize, ders, inplace] =>
    match fromHex fhex, parseToc toc, (if toc28 = "=" then parseToc toc else parseToc toc28), hash.toNat?, rsaSize.toNat?, parseDers ders with
    | some f, some toc, some toc28, some hash, some rsaSize, some ders =>
      let tb := tabOf f toc toc28
      let ki := keyInfoOf rsaSize ders
      let E := mkEnv tb ki.certTexts
      -- an unsupported digest is only noticed in `appendSignatures`, behind everything else
      let hk := (hkOfGo hash).getD .sha256
      let p := signOnce E f hk ki (inplace = "1")
      match p.final with
      | .ok sm =>
        if (hkOfGo hash).isNone then s!"plan={checksStr p.checks} err hashunsup" else
        let v := verifyWritten E sm ki.certTexts tb
        let so := sm.so
        let ps := patchSet so.origTotal []
        let ot := (ps.map (·.old)).sum
        let tail := if ot ≤ f.length then 1 else 0
        s!"plan={checksStr p.checks} ok ot={ot} ent={ps.length} ns={so.newSig} hdr=28,1,{so.hk.hdr} lens=1 cks=1 pad=1 tail={tail} {tiesOf E so} toc={tokOf (norm so.tree)} vplan={checksStr v.checks} vfinal={(showRes v.final verifiedStr).replace " " "_"} #os={so.origSig} origTotal={so.origTotal} {regTag E f}"
      | .err e =>
        let ties := match readHdr f with
          | some h => match E.decode (region f 28 h.clen) with
            | some (t, _) => hasTies (eRefs E.num t) || bothFrontKinds E hk ki t
            | none => false
          | none => false
        s!"plan={checksStr p.checks} err {e} ties={if ties then 1 else 0}"
      | .panic s => s!"plan={checksStr p.checks} panic {s}"
      | .diverge => "diverge"
    | _, _, _, _, _, _ => "bad-op"
  | ["hist", fhex, toc, toc28, good, rounds] =>
    match fromHex fhex, parseToc toc, (if toc28 = "=" then parseToc toc else parseToc toc28), parseGood good, parseRounds rounds with
    | some f, some toc, some toc28, some good, some rounds =>
      let p := history good (rounds.length + 1) f (tabOf f toc toc28) rounds [] []
      planLine p fun (g, tb, ns) =>
        let t := match tb.entries with
          | e :: _ => tokOf e.2.1
          | [] => "-"
        s!"ok rounds={rounds.length} ns={",".intercalate (ns.map toString)} toc={t} tail={toHex (g.drop (g.length - min g.length 16))}"
    | _, _, _, _, _ => "bad-op"
  | "mutate" :: fhex :: toc :: good :: _oracle :: muts =>
    match fromHex fhex, parseToc toc, parseGood good with
    | some f, some toc, some good =>
      let tb := tabOf f toc none
      let E := mkEnv tb good
      let p0 := verifyPlan E f false
      let one (m : String) : String :=
        match m.splitOn ":" with
        | [p, b] =>
          match p.toNat?, b.toNat? with
          | some pos, some byte =>
            let g := f.set pos (UInt8.ofNat byte)
            if g = f then "same" else
            let p := verifyPlan E g false
            let d := diffChecks p0.checks p.checks
            s!"{if d.isEmpty then "-" else ",".intercalate d}|{(showRes p.final verifiedStr).replace " " "_"}"
          | _, _ => "bad"
        | _ => "bad"
      s!"ok base={checksStr p0.checks}|{(showRes p0.final verifiedStr).replace " " "_"} {" ".intercalate (muts.map one)}"
    | _, _, _ => "bad-op"
  | _ => "bad-op"

end Relic.Driver.Xar

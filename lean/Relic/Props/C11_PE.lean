import Relic.Model.PE
import Relic.Proofs.PE
namespace Relic.Props.C11
open Relic Relic.PE

/-! ## 1. `align32` -/

theorem align32_none_iff (a al : Nat) : align32 a al = none ↔ al = 0 := by
  unfold align32
  constructor
  · intro h
    by_cases h0 : al = 0
    · exact h0
    · rw [if_neg h0] at h
      split at h <;> simp at h
  · intro h
    simp [h]

example : align32 7 0 = none := by decide
example : align32 7 4 = some 8 := by decide

/-! ## 2. `fixSections` -/

/-- after skipping leading sections without raw data, the first section with raw data starts at or
    after the section table end and is not the last one of the list: the only place where
    `fixSections` calls `align32` -/
def AlignReached (secTblEnd : Nat) : List Section → Prop
  | [] => False
  | s :: rest => if s.size = 0 then AlignReached secTblEnd rest else secTblEnd ≤ s.ptr ∧ rest ≠ []

theorem fixSections_panic_iff (secTblEnd fa : Nat) (ss : List Section) (soh : Nat) (p : String) :
    fixSections secTblEnd fa ss soh = .panic p ↔
      p = "align32:divide-by-zero" ∧ fa = 0 ∧ AlignReached secTblEnd ss := by
  induction ss generalizing soh with
  | nil => simp [fixSections, AlignReached]
  | cons s rest ih =>
    simp only [fixSections, AlignReached]
    by_cases hz : s.size = 0
    · rw [if_pos hz, if_pos hz, ← ih soh]
      cases hfix : fixSections secTblEnd fa rest soh <;> simp
    · rw [if_neg hz, if_neg hz]
      by_cases hov : s.ptr < secTblEnd
      · rw [if_pos hov]
        constructor
        · intro h; cases h
        · intro ⟨_, _, h, _⟩; omega
      · rw [if_neg hov]
        cases rest with
        | nil => simp
        | cons r rest' =>
          simp only [List.isEmpty_cons, Bool.false_eq_true, if_false]
          by_cases hfa : fa = 0
          · subst hfa
            have : align32 s.size 0 = none := (align32_none_iff _ _).2 rfl
            rw [this]
            simp
            constructor
            · intro h; exact ⟨h.symm, by omega⟩
            · intro h; exact h.1.symm
          · cases hal : align32 s.size fa with
            | none => exact absurd ((align32_none_iff _ _).1 hal) hfa
            | some sz =>
              simp only
              have ih' := ih (if s.ptr < soh then s.ptr else soh)
              constructor
              · intro h
                cases hfix : fixSections secTblEnd fa (r :: rest') (if s.ptr < soh then s.ptr else soh) with
                | ok v => rw [hfix] at h; cases h
                | err _ => rw [hfix] at h; cases h
                | diverge => rw [hfix] at h; cases h
                | panic q =>
                  rw [hfix] at h
                  injection h with h
                  subst h
                  exact absurd (ih'.1 hfix).2.1 hfa
              · intro h; exact absurd h.2.1 hfa

theorem fixSections_no_panic (secTblEnd fa : Nat) (ss : List Section) (soh : Nat) (p : String)
    (h : fa ≠ 0) : fixSections secTblEnd fa ss soh ≠ .panic p := by
  intro e
  exact h ((fixSections_panic_iff _ _ _ _ _).1 e).2.1

theorem fixSections_not_diverge (secTblEnd fa : Nat) (ss : List Section) (soh : Nat) :
    fixSections secTblEnd fa ss soh ≠ .diverge := by
  induction ss generalizing soh with
  | nil => simp [fixSections]
  | cons s rest ih =>
    simp only [fixSections]
    split
    · have := ih soh
      split <;> simp_all
    · split
      · simp
      · split
        · simp
        · split
          · simp
          · have := ih (if s.ptr < soh then s.ptr else soh)
            split <;> simp_all

-- non-vacuity: two sections with raw data after the table, FileAlignment 0
example : fixSections 100 0 [⟨200, 16⟩, ⟨300, 16⟩] 400 = .panic "align32:divide-by-zero" := by decide
example : AlignReached 100 [⟨0, 0⟩, ⟨200, 16⟩, ⟨300, 16⟩] := by simp [AlignReached]
example : ¬ AlignReached 100 [⟨0, 0⟩, ⟨200, 16⟩] := by simp [AlignReached]

/-! ## 3–5. `readHeaders` -/

/-- file offset at which the COFF header is read (`e_lfanew`, or 64 when `e_lfanew < 64`) -/
def hdrOff (f : Bytes) : Nat := if 64 ≤ u32 f 0x3c then u32 f 0x3c else 64

def SizeOfOptionalHeader (f : Bytes) : Nat := u16 f (hdrOff f + 20)

/-- every check of `readHeaders` before `readOptHeader` looks at `buf[:2]` passes -/
def ReachesOptHeader (f : Bytes) : Prop :=
  64 ≤ f.length ∧ seg f 0 2 = [0x4d, 0x5a] ∧ hdrOff f ≤ f.length ∧ hdrOff f + 4 ≤ f.length ∧
  seg f (hdrOff f) (hdrOff f + 4) = [0x50, 0x45, 0, 0] ∧ hdrOff f + 24 ≤ f.length ∧
  hdrOff f + 24 + SizeOfOptionalHeader f ≤ f.length

def NumberOfSections (f : Bytes) : Nat := u16 f (hdrOff f + 6)
def FileAlignment (f : Bytes) : Nat := u32 f (hdrOff f + 24 + 36)
/-- end of the section table as `readSections` computes it (from `e_lfanew`, not from the read position) -/
def SecTblEnd (f : Bytes) : Nat := u32 f 0x3c + 24 + SizeOfOptionalHeader f + NumberOfSections f * 40

/-- every check of `readHeaders` before the section loop passes -/
def ReachesSections (f : Bytes) : Prop :=
  ReachesOptHeader f ∧ 2 ≤ SizeOfOptionalHeader f ∧
  ((u16 f (hdrOff f + 24) = 0x10b ∧ 224 ≤ SizeOfOptionalHeader f ∧ 5 ≤ u32 f (hdrOff f + 24 + 92)) ∨
   (u16 f (hdrOff f + 24) = 0x20b ∧ 240 ≤ SizeOfOptionalHeader f ∧ 5 ≤ u32 f (hdrOff f + 24 + 108))) ∧
  SecTblEnd f ≤ u32 f (hdrOff f + 24 + 60) ∧
  hdrOff f + 24 + SizeOfOptionalHeader f + NumberOfSections f * 40 ≤ f.length

local macro "dead" : tactic =>
  `(tactic| (constructor; (intro h; cases h); (intro h; first | omega | (simp_all; done))))

/-- exact characterisation of every panic of `readHeaders` -/
theorem readHeaders_panic_iff (f : Bytes) (p : String) :
    readHeaders f = .panic p ↔
      (p = "readOptHeader:buf[:2]" ∧ ReachesOptHeader f ∧ SizeOfOptionalHeader f < 2) ∨
      (p = "align32:divide-by-zero" ∧ ReachesSections f ∧ FileAlignment f = 0 ∧
        AlignReached (SecTblEnd f)
          (rawSections f (hdrOff f + 24 + SizeOfOptionalHeader f) (NumberOfSections f))) := by
  unfold readHeaders
  simp only [ReachesSections, ReachesOptHeader, SecTblEnd, FileAlignment, NumberOfSections,
    SizeOfOptionalHeader, hdrOff]
  generalize u32 f 60 = P
  generalize (if 64 ≤ P then P else 64) = C
  generalize u16 f (C + 20) = S
  generalize u16 f (C + 6) = N
  by_cases c1 : f.length < 64
  · rw [if_pos c1]; dead
  rw [if_neg c1]
  by_cases c2 : seg f 0 2 ≠ [77, 90]
  · rw [if_pos c2]; dead
  rw [if_neg c2]
  by_cases c3 : f.length < C
  · rw [if_pos c3]; dead
  rw [if_neg c3]
  by_cases c4 : f.length < C + 4
  · rw [if_pos c4]; dead
  rw [if_neg c4]
  by_cases c5 : seg f C (C + 4) ≠ [80, 69, 0, 0]
  · rw [if_pos c5]; dead
  rw [if_neg c5]
  by_cases c6 : f.length < C + 24
  · rw [if_pos c6]; dead
  rw [if_neg c6]
  by_cases c7 : f.length < C + 24 + S
  · rw [if_pos c7]; dead
  rw [if_neg c7]
  have R : 64 ≤ List.length f ∧ seg f 0 2 = [77, 90] ∧ C ≤ List.length f ∧ C + 4 ≤ List.length f ∧
      seg f C (C + 4) = [80, 69, 0, 0] ∧ C + 24 ≤ List.length f ∧ C + 24 + S ≤ List.length f :=
    ⟨by omega, by simpa using c2, by omega, by omega, by simpa using c5, by omega, by omega⟩
  simp only [R, true_and]
  by_cases c8 : S < 2
  · rw [if_pos c8]
    constructor
    · intro h
      injection h with h
      exact Or.inl ⟨h.symm, c8⟩
    · intro h
      rcases h with ⟨h, _⟩ | ⟨_, ⟨h2, _⟩, _⟩
      · rw [h]
      · omega
  rw [if_neg c8]
  have key : ∀ need nrva dd4,
      ((if S < need then (Res.err "eof" : Res Headers)
       else if u32 f (C + 24 + nrva) < 5 then Res.err "noroom"
       else if u32 f (C + 24 + 60) < P + 24 + S + N * 40 then Res.err "secoverlap"
       else if f.length < C + 24 + S + N * 40 then Res.err "eof"
       else match fixSections (P + 24 + S + N * 40) (u32 f (C + 24 + 36)) (rawSections f (C + 24 + S) N) (u32 f (C + 24 + 60)) with
        | Res.err e => Res.err e
        | Res.panic p => Res.panic p
        | Res.diverge => Res.diverge
        | Res.ok (sections, sizeOfHdr) =>
          if f.length < C + 24 + S + N * 40 + (sizeOfHdr - (P + 24 + S + N * 40)) then Res.err "eof"
          else Res.ok
            { m := { peStart := P, hdrOff := C, soh := S, dd4Start := dd4, posDDCert := P + 24 + dd4,
                     secTblStart := P + 24 + S, sizeOfHdr := sizeOfHdr,
                     pageSize := if u16 f (C + 4) = 512 ∨ u16 f (C + 4) = 388 ∨ u16 f (C + 4) = 644 then 8192 else 4096,
                     fileAlign := u32 f (C + 24 + 36), certStart := u32 f (C + 24 + dd4),
                     certSize := u32 f (C + 24 + dd4 + 4), nsec := N },
              sections := sections,
              hashed := seg f 0 (C + 24 + 64) ++ seg f (C + 24 + 68) (C + 24 + dd4) ++
                seg f (C + 24 + dd4 + 8) (C + 24 + S + N * 40 + (sizeOfHdr - (P + 24 + S + N * 40))),
              cur := C + 24 + S + N * 40 + (sizeOfHdr - (P + 24 + S + N * 40)) }) = Res.panic p ↔
      p = "align32:divide-by-zero" ∧ need ≤ S ∧ 5 ≤ u32 f (C + 24 + nrva) ∧
        P + 24 + S + N * 40 ≤ u32 f (C + 24 + 60) ∧ C + 24 + S + N * 40 ≤ f.length ∧
        u32 f (C + 24 + 36) = 0 ∧ AlignReached (P + 24 + S + N * 40) (rawSections f (C + 24 + S) N)) := by
    intro need nrva dd4
    by_cases d1 : S < need
    · rw [if_pos d1]; dead
    rw [if_neg d1]
    by_cases d2 : u32 f (C + 24 + nrva) < 5
    · rw [if_pos d2]; dead
    rw [if_neg d2]
    by_cases d3 : u32 f (C + 24 + 60) < P + 24 + S + N * 40
    · rw [if_pos d3]; dead
    rw [if_neg d3]
    by_cases d4 : f.length < C + 24 + S + N * 40
    · rw [if_pos d4]; dead
    rw [if_neg d4]
    have hp := fixSections_panic_iff (P + 24 + S + N * 40) (u32 f (C + 24 + 36)) (rawSections f (C + 24 + S) N) (u32 f (C + 24 + 60)) p
    cases hfix : fixSections (P + 24 + S + N * 40) (u32 f (C + 24 + 36)) (rawSections f (C + 24 + S) N) (u32 f (C + 24 + 60)) with
    | err _ =>
      rw [hfix] at hp
      simp only
      constructor
      · intro h; cases h
      · intro h; have := hp.2 ⟨h.1, h.2.2.2.2.2⟩; cases this
    | diverge =>
      rw [hfix] at hp
      simp only
      constructor
      · intro h; cases h
      · intro h; have := hp.2 ⟨h.1, h.2.2.2.2.2⟩; cases this
    | panic q =>
      rw [hfix] at hp
      simp only
      constructor
      · intro h
        injection h with h
        subst h
        have := hp.1 rfl
        exact ⟨this.1, by omega, by omega, by omega, by omega, this.2⟩
      · intro h
        have := hp.2 ⟨h.1, h.2.2.2.2.2⟩
        injection this with this
        rw [this]
    | ok v =>
      obtain ⟨sections, soh'⟩ := v
      rw [hfix] at hp
      simp only
      constructor
      · intro h; split at h <;> cases h
      · intro h; have := hp.2 ⟨h.1, h.2.2.2.2.2⟩; cases this
  by_cases m1 : u16 f (C + 24) = 267
  · simp only [m1, if_true]
    refine Iff.trans (key 224 92 128) ?_
    constructor
    · intro h
      exact Or.inr ⟨h.1, ⟨by omega, Or.inl ⟨trivial, h.2.1, h.2.2.1⟩, h.2.2.2.1, h.2.2.2.2.1⟩, h.2.2.2.2.2⟩
    · intro h
      rcases h with ⟨_, h⟩ | ⟨h0, ⟨_, h1 | h1, h2, h3⟩, h4⟩
      · omega
      · exact ⟨h0, h1.2.1, h1.2.2, h2, h3, h4⟩
      · have := h1.1; omega
  · by_cases m2 : u16 f (C + 24) = 523
    · rw [if_neg m1, if_pos m2]
      simp only [m2]
      refine Iff.trans (key 240 108 144) ?_
      constructor
      · intro h
        exact Or.inr ⟨h.1, ⟨by omega, Or.inr ⟨trivial, h.2.1, h.2.2.1⟩, h.2.2.2.1, h.2.2.2.2.1⟩, h.2.2.2.2.2⟩
      · intro h
        rcases h with ⟨_, h⟩ | ⟨h0, ⟨_, h1 | h1, h2, h3⟩, h4⟩
        · omega
        · have := h1.1; omega
        · exact ⟨h0, h1.2.1, h1.2.2, h2, h3, h4⟩
    · rw [if_neg m1, if_neg m2]
      simp only
      constructor
      · intro h; cases h
      · intro h
        rcases h with ⟨_, h⟩ | ⟨h0, ⟨_, h1 | h1, h2, h3⟩, h4⟩
        · omega
        · exact absurd h1.1 m1
        · exact absurd h1.1 m2

theorem readHeaders_not_diverge (f : Bytes) : readHeaders f ≠ .diverge := by
  unfold readHeaders
  simp only []
  generalize u32 f 60 = P
  generalize (if 64 ≤ P then P else 64) = C
  generalize u16 f (C + 20) = S
  generalize u16 f (C + 6) = N
  intro h
  by_cases c1 : f.length < 64
  · rw [if_pos c1] at h; cases h
  rw [if_neg c1] at h
  by_cases c2 : seg f 0 2 ≠ [77, 90]
  · rw [if_pos c2] at h; cases h
  rw [if_neg c2] at h
  by_cases c3 : f.length < C
  · rw [if_pos c3] at h; cases h
  rw [if_neg c3] at h
  by_cases c4 : f.length < C + 4
  · rw [if_pos c4] at h; cases h
  rw [if_neg c4] at h
  by_cases c5 : seg f C (C + 4) ≠ [80, 69, 0, 0]
  · rw [if_pos c5] at h; cases h
  rw [if_neg c5] at h
  by_cases c6 : f.length < C + 24
  · rw [if_pos c6] at h; cases h
  rw [if_neg c6] at h
  by_cases c7 : f.length < C + 24 + S
  · rw [if_pos c7] at h; cases h
  rw [if_neg c7] at h
  by_cases c8 : S < 2
  · rw [if_pos c8] at h; cases h
  rw [if_neg c8] at h
  split at h
  · cases h
  rename_i need nrva dd4 _
  by_cases d1 : S < need
  · rw [if_pos d1] at h; cases h
  rw [if_neg d1] at h
  by_cases d2 : u32 f (C + 24 + nrva) < 5
  · rw [if_pos d2] at h; cases h
  rw [if_neg d2] at h
  by_cases d3 : u32 f (C + 24 + 60) < P + 24 + S + N * 40
  · rw [if_pos d3] at h; cases h
  rw [if_neg d3] at h
  by_cases d4 : f.length < C + 24 + S + N * 40
  · rw [if_pos d4] at h; cases h
  rw [if_neg d4] at h
  cases hfix : fixSections (P + 24 + S + N * 40) (u32 f (C + 24 + 36)) (rawSections f (C + 24 + S) N) (u32 f (C + 24 + 60)) with
  | err _ => rw [hfix] at h; cases h
  | panic _ => rw [hfix] at h; cases h
  | diverge => exact fixSections_not_diverge _ _ _ _ hfix
  | ok v =>
    obtain ⟨a, b⟩ := v
    rw [hfix] at h
    simp only at h
    split at h <;> cases h

/-! ### corollaries -/

theorem readHeaders_panic_sites (f : Bytes) (p : String) (h : readHeaders f = .panic p) :
    p = "readOptHeader:buf[:2]" ∨ p = "align32:divide-by-zero" := by
  rcases (readHeaders_panic_iff f p).1 h with h | h
  · exact Or.inl h.1
  · exact Or.inr h.1

theorem readHeaders_optHeader_panic_iff (f : Bytes) :
    readHeaders f = .panic "readOptHeader:buf[:2]" ↔ ReachesOptHeader f ∧ SizeOfOptionalHeader f < 2 := by
  rw [readHeaders_panic_iff]
  constructor
  · intro h
    rcases h with h | h
    · exact h.2
    · exact absurd h.1 (by decide)
  · intro h
    exact Or.inl ⟨rfl, h⟩

theorem readHeaders_align_panic_iff (f : Bytes) :
    readHeaders f = .panic "align32:divide-by-zero" ↔
      ReachesSections f ∧ FileAlignment f = 0 ∧
        AlignReached (SecTblEnd f)
          (rawSections f (hdrOff f + 24 + SizeOfOptionalHeader f) (NumberOfSections f)) := by
  rw [readHeaders_panic_iff]
  constructor
  · intro h
    rcases h with h | h
    · exact absurd h.1 (by decide)
    · exact h.2
  · intro h
    exact Or.inr ⟨rfl, h⟩

/-- an optional header of at least 2 bytes and a non-zero FileAlignment exclude every panic -/
theorem readHeaders_no_panic_partial (f : Bytes) (p : String)
    (h1 : 2 ≤ SizeOfOptionalHeader f) (h2 : u32 f (hdrOff f + 24 + 36) ≠ 0) :
    readHeaders f ≠ .panic p := by
  intro h
  rcases (readHeaders_panic_iff f p).1 h with h | h
  · have := h.2.2; omega
  · exact h2 h.2.2.1

/-! ## 6. `DigestPE` -/

theorem readSectionData_no_panic (flen : Nat) (ss : List Section) (i cur next : Nat) (p : String) :
    readSectionData flen ss i cur next ≠ .panic p := by
  induction ss generalizing i cur next with
  | nil => simp [readSectionData]
  | cons s rest ih =>
    simp only [readSectionData]
    split
    · exact ih _ _ _
    · split
      · simp
      · split
        · simp
        · split
          · simp
          · exact ih _ _ _

theorem readSectionData_not_diverge (flen : Nat) (ss : List Section) (i cur next : Nat) :
    readSectionData flen ss i cur next ≠ .diverge := by
  induction ss generalizing i cur next with
  | nil => simp [readSectionData]
  | cons s rest ih =>
    simp only [readSectionData]
    split
    · exact ih _ _ _
    · split
      · simp
      · split
        · simp
        · split
          · simp
          · exact ih _ _ _

/-- after the headers are read, `DigestPE` neither panics nor diverges -/
theorem DigestPE_of_headers_ok (f : Bytes) (h : Headers) (hh : readHeaders f = .ok h) :
    (∀ p, DigestPE f ≠ .panic p) ∧ DigestPE f ≠ .diverge := by
  unfold DigestPE
  rw [hh]
  simp only
  generalize gapOf h.sections h.m.sizeOfHdr = gap
  by_cases g1 : f.length < h.cur + gap
  · rw [if_pos g1]; exact ⟨fun p e => (by cases e), fun e => (by cases e)⟩
  rw [if_neg g1]
  generalize (if gap = 0 then h.m.sizeOfHdr else h.m.sizeOfHdr + gap) = next1
  cases hs : readSectionData f.length h.sections 0 (h.cur + gap) next1 with
  | err _ => simp only; exact ⟨fun p e => (by cases e), fun e => (by cases e)⟩
  | panic q => exact absurd hs (readSectionData_no_panic _ _ _ _ _ _)
  | diverge => exact absurd hs (readSectionData_not_diverge _ _ _ _ _)
  | ok v =>
    obtain ⟨cur2, next2, extents⟩ := v
    simp only
    constructor
    · intro p e
      repeat' split at e
      all_goals cases e
    · intro e
      repeat' split at e
      all_goals cases e

theorem DigestPE_panic_iff_readHeaders (f : Bytes) (p : String) :
    DigestPE f = .panic p ↔ readHeaders f = .panic p := by
  cases hh : readHeaders f with
  | ok h =>
    constructor
    · intro e; exact absurd e ((DigestPE_of_headers_ok f h hh).1 p)
    · intro e; cases e
  | err _ => unfold DigestPE; rw [hh]; simp
  | panic q => unfold DigestPE; rw [hh]; simp
  | diverge => unfold DigestPE; rw [hh]; simp

theorem DigestPE_not_diverge (f : Bytes) : DigestPE f ≠ .diverge := by
  cases hh : readHeaders f with
  | ok h => exact (DigestPE_of_headers_ok f h hh).2
  | err _ => unfold DigestPE; rw [hh]; simp
  | panic q => unfold DigestPE; rw [hh]; simp
  | diverge => exact absurd hh (readHeaders_not_diverge f)

theorem DigestPE_panic_sites (f : Bytes) (p : String) (h : DigestPE f = .panic p) :
    p = "readOptHeader:buf[:2]" ∨ p = "align32:divide-by-zero" :=
  readHeaders_panic_sites f p ((DigestPE_panic_iff_readHeaders f p).1 h)

theorem DigestPE_no_panic_partial (f : Bytes) (p : String)
    (h1 : 2 ≤ SizeOfOptionalHeader f) (h2 : u32 f (hdrOff f + 24 + 36) ≠ 0) :
    DigestPE f ≠ .panic p := by
  intro h
  exact readHeaders_no_panic_partial f p h1 h2 ((DigestPE_panic_iff_readHeaders f p).1 h)

/-! ## 7. the verifier's locator -/

/-- every check of `findSignatures` before `readOptHeader` looks at `buf[:2]` passes
    (`findSignatures` seeks to `e_lfanew`, so there is no clamping to 64 here) -/
def FindSigReachesOptHeader (f : Bytes) : Prop :=
  64 ≤ f.length ∧ seg f 0 2 = [0x4d, 0x5a] ∧ u32 f 0x3c + 4 ≤ f.length ∧
  seg f (u32 f 0x3c) (u32 f 0x3c + 4) = [0x50, 0x45, 0, 0] ∧ u32 f 0x3c + 24 ≤ f.length ∧
  u32 f 0x3c + 24 + u16 f (u32 f 0x3c + 20) ≤ f.length

theorem findSignatures_panic_iff (f : Bytes) (p : String) :
    findSignatures f = .panic p ↔
      p = "readOptHeader:buf[:2]" ∧ FindSigReachesOptHeader f ∧ u16 f (u32 f 0x3c + 20) < 2 := by
  unfold findSignatures
  simp only [FindSigReachesOptHeader]
  generalize u32 f 60 = C
  generalize u16 f (C + 20) = S
  by_cases c1 : f.length < 64
  · rw [if_pos c1]; dead
  rw [if_neg c1]
  by_cases c2 : seg f 0 2 ≠ [77, 90]
  · rw [if_pos c2]; dead
  rw [if_neg c2]
  by_cases c4 : f.length < C + 4
  · rw [if_pos c4]; dead
  rw [if_neg c4]
  by_cases c5 : seg f C (C + 4) ≠ [80, 69, 0, 0]
  · rw [if_pos c5]; dead
  rw [if_neg c5]
  by_cases c6 : f.length < C + 24
  · rw [if_pos c6]; dead
  rw [if_neg c6]
  by_cases c7 : f.length < C + 24 + S
  · rw [if_pos c7]; dead
  rw [if_neg c7]
  have R : 64 ≤ List.length f ∧ seg f 0 2 = [77, 90] ∧ C + 4 ≤ List.length f ∧
      seg f C (C + 4) = [80, 69, 0, 0] ∧ C + 24 ≤ List.length f ∧ C + 24 + S ≤ List.length f :=
    ⟨by omega, by simpa using c2, by omega, by simpa using c5, by omega, by omega⟩
  simp only [R, true_and]
  by_cases c8 : S < 2
  · rw [if_pos c8]
    constructor
    · intro h
      injection h with h
      exact ⟨h.symm, c8⟩
    · intro h
      rw [h.1]
  rw [if_neg c8]
  constructor
  · intro h
    split at h
    · cases h
    · split at h
      · cases h
      · split at h <;> cases h
  · intro h
    exact absurd h.2 c8

theorem findSignatures_not_diverge (f : Bytes) : findSignatures f ≠ .diverge := by
  unfold findSignatures
  simp only []
  generalize u32 f 60 = C
  generalize u16 f (C + 20) = S
  intro h
  iterate 7 (split at h; · cases h)
  split at h
  · cases h
  · split at h
    · cases h
    · split at h <;> cases h

theorem walkCerts_no_panic (fuel : Nat) (b : Bytes) (p : String) : walkCerts fuel b ≠ .panic p := by
  induction fuel generalizing b with
  | zero => simp only [walkCerts]; split <;> simp
  | succ n ih =>
    simp only [walkCerts]
    split
    · simp
    · split
      · simp
      · split
        · simp
        · split
          · simp
          · exact ih _

theorem walkCerts_not_diverge (fuel : Nat) (b : Bytes) : walkCerts fuel b ≠ .diverge := by
  induction fuel generalizing b with
  | zero => simp only [walkCerts]; split <;> simp
  | succ n ih =>
    simp only [walkCerts]
    split
    · simp
    · split
      · simp
      · split
        · simp
        · split
          · simp
          · exact ih _

theorem locate_panic_iff (f : Bytes) (p : String) :
    locate f = .panic p ↔ findSignatures f = .panic p := by
  unfold locate
  cases hh : findSignatures f with
  | err _ => simp
  | panic q => simp
  | diverge => simp
  | ok v =>
    obtain ⟨certStart, certSize⟩ := v
    simp only
    constructor
    · intro e
      split at e
      · cases e
      · split at e
        · cases e
        · exact absurd e (walkCerts_no_panic _ _ _)
    · intro e; cases e

theorem locate_not_diverge (f : Bytes) : locate f ≠ .diverge := by
  unfold locate
  cases hh : findSignatures f with
  | err _ => simp
  | panic q => simp
  | diverge => exact absurd hh (findSignatures_not_diverge f)
  | ok v =>
    obtain ⟨certStart, certSize⟩ := v
    simp only
    intro e
    split at e
    · cases e
    · split at e
      · cases e
      · exact absurd e (walkCerts_not_diverge _ _)

/-! ## 8. page hashes -/

/-- `zeroPage[:needzero]` panics exactly when `SizeOfHeaders` (after the fix-ups) exceeds a page:
    `needzero = pageSize - hdrLen - (sizeOfHdr - hdrLen) = pageSize - sizeOfHdr`, and the other way
    for the slice to fail, `needzero > len(zeroPage) = pageSize`, would need `sizeOfHdr < 0` -/
theorem pageHashInputs_none_iff (f : Bytes) (d : Digest) :
    pageHashInputs f d = none ↔ d.m.pageSize < d.m.sizeOfHdr := by
  unfold pageHashInputs
  simp only []
  split
  · rename_i h
    constructor
    · intro _; omega
    · intro _; rfl
  · rename_i h
    constructor
    · intro e; cases e
    · intro _; omega

/-! ## 9. allocation account of `VerifyPE` -/

theorem leVal_lt (b : Bytes) : leVal b < 256 ^ b.length := by
  induction b with
  | nil => simp [leVal]
  | cons x xs ih =>
    simp only [leVal, List.length_cons, Nat.pow_succ]
    have := x.toNat_lt
    omega

theorem u32_lt (f : Bytes) (off : Nat) : u32 f off < 2 ^ 32 := by
  unfold u32 seg
  have h1 := leVal_lt ((f.drop off).take (off + 4 - off))
  have h2 : ((f.drop off).take (off + 4 - off)).length ≤ 4 := by
    rw [List.length_take]; omega
  have h3 : 256 ^ ((f.drop off).take (off + 4 - off)).length ≤ 256 ^ 4 :=
    Nat.pow_le_pow_right (by decide) h2
  have h4 : (256 : Nat) ^ 4 = 2 ^ 32 := by decide
  omega

/-- bytes requested by `make([]byte, certSize)` in `VerifyPE`, before anything is read -/
def verifyPEAlloc (f : Bytes) : Nat :=
  match findSignatures f with
  | .ok (_, certSize) => certSize
  | _ => 0

theorem verifyPEAlloc_lt (f : Bytes) : verifyPEAlloc f < 2 ^ 32 := by
  unfold verifyPEAlloc
  split
  · rename_i cs sz heq
    unfold findSignatures at heq
    simp only [] at heq
    generalize u32 f 60 = C at heq
    generalize u16 f (C + 20) = S at heq
    iterate 7 (split at heq; · cases heq)
    split at heq
    · cases heq
    · split at heq
      · cases heq
      · split at heq
        · cases heq
        · injection heq with heq
          injection heq with _ h2
          rw [← h2]
          exact u32_lt _ _
  · exact Nat.two_pow_pos 32

/-- a 312-byte file: DOS header, `e_lfanew = 64`, PE32 optional header of 224 bytes,
    `NumberOfRvaAndSizes = 16`, certificate table entry (0, 0x80000000) -/
def allocWitness : Bytes :=
  [0x4d, 0x5a] ++ List.replicate 58 0 ++ [64, 0, 0, 0] ++
  [0x50, 0x45, 0, 0] ++ List.replicate 16 0 ++ [224, 0] ++ List.replicate 2 0 ++
  [0x0b, 0x01] ++ List.replicate 90 0 ++ [16, 0, 0, 0] ++
  List.replicate 32 0 ++ [0, 0, 0, 0] ++ [0, 0, 0, 0x80] ++ List.replicate 88 0

set_option maxRecDepth 100000 in
theorem allocWitness_spec : allocWitness.length = 312 ∧ verifyPEAlloc allocWitness = 2 ^ 31 := by
  decide

/-- the allocation is not bounded by the input size: 312 bytes of input request 2 GiB -/
theorem verifyPEAlloc_unbounded_by_input : ∃ f : Bytes, f.length < 400 ∧ verifyPEAlloc f ≥ 2 ^ 31 :=
  ⟨allocWitness, by rw [allocWitness_spec.1, allocWitness_spec.2]; decide⟩

/-- the same request when the bounds check `certStart + certSize ≤ len(file)` is made first -/
def verifyPEAllocFixed (f : Bytes) : Nat :=
  match findSignatures f with
  | .ok (certStart, certSize) => if certStart + certSize ≤ f.length then certSize else 0
  | _ => 0

theorem verifyPEAllocFixed_le (f : Bytes) : verifyPEAllocFixed f ≤ f.length := by
  unfold verifyPEAllocFixed
  split
  · split <;> omega
  · omega

/-! ## non-vacuity: concrete files reaching each panic site -/

/-- 88 bytes: DOS header, `e_lfanew = 64`, COFF header with `SizeOfOptionalHeader = 0` -/
def optHdrWitness : Bytes :=
  [0x4d, 0x5a] ++ List.replicate 58 0 ++ [64, 0, 0, 0] ++ [0x50, 0x45, 0, 0] ++ List.replicate 20 0

/-- 392 bytes: PE32 header, `FileAlignment = 0`, `SizeOfHeaders = 392`, two sections with
    16 bytes of raw data at 392 -/
def alignWitness : Bytes :=
  [0x4d, 0x5a] ++ List.replicate 58 0 ++ [64, 0, 0, 0] ++
  [0x50, 0x45, 0, 0] ++ [0, 0] ++ [2, 0] ++ List.replicate 12 0 ++ [224, 0] ++ List.replicate 2 0 ++
  [0x0b, 0x01] ++ List.replicate 58 0 ++ [0x88, 0x01, 0, 0] ++ List.replicate 28 0 ++ [16, 0, 0, 0] ++
  List.replicate 128 0 ++
  List.replicate 16 0 ++ [16, 0, 0, 0] ++ [0x88, 0x01, 0, 0] ++ List.replicate 16 0 ++
  List.replicate 16 0 ++ [16, 0, 0, 0] ++ [0x88, 0x01, 0, 0] ++ List.replicate 16 0

set_option maxRecDepth 100000 in
theorem optHdrWitness_readHeaders : readHeaders optHdrWitness = .panic "readOptHeader:buf[:2]" := by
  decide

set_option maxRecDepth 100000 in
theorem optHdrWitness_findSignatures : findSignatures optHdrWitness = .panic "readOptHeader:buf[:2]" := by
  decide

set_option maxRecDepth 100000 in
theorem alignWitness_readHeaders : readHeaders alignWitness = .panic "align32:divide-by-zero" := by
  decide

example : ReachesOptHeader optHdrWitness ∧ SizeOfOptionalHeader optHdrWitness < 2 :=
  (readHeaders_optHeader_panic_iff _).1 optHdrWitness_readHeaders
example : DigestPE optHdrWitness = .panic "readOptHeader:buf[:2]" :=
  (DigestPE_panic_iff_readHeaders _ _).2 optHdrWitness_readHeaders
example : locate optHdrWitness = .panic "readOptHeader:buf[:2]" :=
  (locate_panic_iff _ _).2 optHdrWitness_findSignatures
example : FindSigReachesOptHeader optHdrWitness :=
  ((findSignatures_panic_iff _ _).1 optHdrWitness_findSignatures).2.1
example : ReachesSections alignWitness ∧ FileAlignment alignWitness = 0 ∧
    AlignReached (SecTblEnd alignWitness)
      (rawSections alignWitness (hdrOff alignWitness + 24 + SizeOfOptionalHeader alignWitness)
        (NumberOfSections alignWitness)) :=
  (readHeaders_align_panic_iff _).1 alignWitness_readHeaders
example : DigestPE alignWitness = .panic "align32:divide-by-zero" :=
  (DigestPE_panic_iff_readHeaders _ _).2 alignWitness_readHeaders

-- header larger than a page: the slice `zeroPage[:needzero]` panics
example : pageHashInputs []
    { hashed := [], origSize := 0, certStart := 0, extents := [], hdrLen := 400,
      m := { peStart := 64, hdrOff := 64, soh := 224, dd4Start := 128, posDDCert := 216,
             secTblStart := 312, sizeOfHdr := 5000, pageSize := 4096, fileAlign := 512,
             certStart := 0, certSize := 0, nsec := 0 } } = none :=
  (pageHashInputs_none_iff _ _).2 (by decide)

end Relic.Props.C11

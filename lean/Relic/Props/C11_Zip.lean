/-
  C11 — Malformed input yields an error, never a crash.   ZIP central directory entries (`zipslicer.ReadWithDirectory`),
  over `Relic.Model.Zip` (tied to lib/zipslicer by C17's differential run, panics included).

  The ZIP64 extended-information record (extra tag 0x0001) is read at fixed positions, and every read is guarded by the record's
  own size field (`size >= 8`, `>= 16`, `>= 24`): a record that is shorter than what the 32-bit fields of the entry announce
  leaves the marker unresolved and the entry is refused ("missing ZIP64 header").  So as soon as the entry itself lies
  inside the directory blob, NO content of its extra field can make the parser panic: `zip_entry_no_panic_of_whole`.
  (The listed panics F12-panic-zipslicer.ReadWithDirectory are the complement: a blob shorter than the entry.)
  The sweep of harness/c11/zipsyn.go runs every subset of announced fields against record sizes 0..28 on the real code.
-/
import Relic.Proofs.ZipAgree
import Relic.Props.C11
namespace Relic.Props.C11
open Relic Relic.Zip

/-- **zip_entry_no_panic_of_whole.**  A central header whose name, extra field and comment lie inside the blob is parsed
    without a panic, whatever the extra field holds: the outcome is an entry or the error "missing ZIP64 header". -/
theorem zip_entry_no_panic_of_whole (cd : Bytes)
    (hb : 46 + fld cd 28 2 + fld cd 30 2 + fld cd 32 2 ≤ cd.length) :
    (∃ f rest, readEntry cd = .ok (f, rest)) ∨ readEntry cd = .err "missingzip64" := by
  have h := readEntry_eq cd 0 (by simpa using hb)
  simp only [List.drop_zero] at h
  rw [h]
  split
  · exact Or.inr rfl
  · exact Or.inl ⟨_, _, rfl⟩

theorem zip_entry_no_panic (cd : Bytes) (hb : 46 + fld cd 28 2 + fld cd 30 2 + fld cd 32 2 ≤ cd.length) (s : String) :
    readEntry cd ≠ .panic s := by
  rcases zip_entry_no_panic_of_whole cd hb with ⟨f, rest, h⟩ | h <;> rw [h] <;> simp

/-- a 46-byte header, name "a", both sizes 0xFFFFFFFF, a ZIP64 record of `n` bytes (zero filled) -/
def z64Entry (n : Nat) : Bytes :=
  [0x50, 0x4b, 1, 2] ++ List.replicate 16 0 ++ [0xff, 0xff, 0xff, 0xff, 0xff, 0xff, 0xff, 0xff] ++ [1, 0] ++ [UInt8.ofNat (4 + n), 0] ++
    List.replicate 14 0 ++ [97] ++ [1, 0, UInt8.ofNat n, 0] ++ List.replicate n 0

/-- non-vacuous, and the boundary the guards sit on: with both sizes announced, records of 0 and 8 bytes are refused, a record of
    16 bytes resolves both -/
example : readEntry (z64Entry 0) = .err "missingzip64" ∧ readEntry (z64Entry 8) = .err "missingzip64" ∧
    (match readEntry (z64Entry 16) with | .ok (f, rest) => f.csize == 0 && f.usize == 0 && rest.isEmpty | _ => false) = true := by
  decide

end Relic.Props.C11

/-
  Relic.Proofs.ZipStream — the single-pass reader against the random-access reader (C17).

  Every `ReadAt` the streaming pass issues is one the random-access pass issues too, with the same
  arguments; the stream answers it in the same way as long as it does not lie before the position
  already consumed, and refuses it ("attempted to seek backwards") otherwise.  After `Dump` of a member
  the stream stands exactly at `offset + reported size`.
-/
import Relic.Model.ZipStream
import Relic.Proofs.ZipCodec
namespace Relic.Zip
open Relic

/-- the random-access reader over `z` -/
abbrev RA (z : Bytes) : Rd := ⟨z, false, 0⟩
/-- the stream over `z` with `p` bytes consumed -/
abbrev ST (z : Bytes) (p : Nat) : Rd := ⟨z, true, p⟩

theorem readAt_ra_some {z : Bytes} {off n : Nat} {b : Bytes} {r : Rd} (h : (RA z).readAt off n = .ok (b, r)) :
    off < 2 ^ 63 ∧ off < z.length ∧ off + n ≤ z.length ∧ b = (z.drop off).take n ∧ r = RA z := by
  unfold Rd.readAt at h
  by_cases c1 : off ≥ 2 ^ 63
  · rw [if_pos c1] at h; cases h
  · rw [if_neg c1] at h
    simp only [Bool.false_eq_true, if_false] at h
    by_cases c2 : off ≥ z.length
    · rw [if_pos c2] at h; cases h
    · rw [if_neg c2] at h
      by_cases c3 : off + n ≤ z.length
      · rw [if_pos c3] at h
        simp only [Res.ok.injEq, Prod.mk.injEq] at h
        exact ⟨by omega, by omega, c3, h.1.symm, h.2.symm⟩
      · rw [if_neg c3] at h; cases h

theorem readAt_st_ok (z : Bytes) (p off n : Nat) (hp : p ≤ off) (h63 : off < 2 ^ 63) (hr : off + n ≤ z.length) :
    (ST z p).readAt off n = .ok ((z.drop off).take n, ST z (off + n)) := by
  unfold Rd.readAt
  rw [if_neg (by omega)]
  simp only [if_true]
  rw [if_neg (by omega), if_pos hr]

theorem readAt_st_back (z : Bytes) (p off n : Nat) (hp : off < p) : (ST z p).readAt off n = .err "io" := by
  unfold Rd.readAt
  split
  · rfl
  · simp only [if_true]
    try rw [if_pos hp]

/-- one `ReadAt`: random access succeeds, the stream is not beyond `off` ⇒ same bytes, stream at the end -/
theorem readAt_sim {z : Bytes} {off n p : Nat} {b : Bytes} {r : Rd} (h : (RA z).readAt off n = .ok (b, r)) (hp : p ≤ off) :
    (ST z p).readAt off n = .ok (b, ST z (off + n)) := by
  obtain ⟨h1, _, h3, rfl, _⟩ := readAt_ra_some h
  exact readAt_st_ok z p off n hp h1 h3

theorem readFullAt_ra_some {z : Bytes} {off n : Nat} {b : Bytes} {r : Rd} (h : (RA z).readFullAt off n = .ok (b, r)) :
    r = RA z ∧ b.length = n ∧ (n ≠ 0 → off + n ≤ z.length ∧ off < 2 ^ 63) := by
  unfold Rd.readFullAt at h
  split at h
  · next hn =>
    simp only [Res.ok.injEq, Prod.mk.injEq] at h
    exact ⟨h.2.symm, by rw [← h.1, hn]; rfl, fun c => absurd hn c⟩
  · obtain ⟨h1, _, h3, rfl, h5⟩ := readAt_ra_some h
    refine ⟨h5, ?_, fun _ => ⟨h3, h1⟩⟩
    rw [List.length_take, List.length_drop]; omega

/-- `io.ReadFull` through a section reader: no call reaches the stream for an empty request, so the
    position stays; in both cases it is `≤ off + n` and `≥ p` -/
theorem readFullAt_sim {z : Bytes} {off n p : Nat} {b : Bytes} {r : Rd} (h : (RA z).readFullAt off n = .ok (b, r))
    (hp : p ≤ off) :
    ∃ q, (ST z p).readFullAt off n = .ok (b, ST z q) ∧ p ≤ q ∧ q ≤ off + n ∧ (n ≠ 0 → q = off + n) ∧ (n = 0 → q = p) := by
  unfold Rd.readFullAt at h ⊢
  by_cases hn : n = 0
  · rw [if_pos hn] at h ⊢
    simp only [Res.ok.injEq, Prod.mk.injEq] at h
    exact ⟨p, by rw [h.1], Nat.le_refl _, by omega, fun c => absurd hn c, fun _ => rfl⟩
  · rw [if_neg hn] at h ⊢
    exact ⟨off + n, readAt_sim h hp, by omega, Nat.le_refl _, fun _ => rfl, fun c => absurd c hn⟩

/-- `readLocalHeader` on a fresh `File`: same header, the stream stands at the data offset -/
theorem readLocalHeader_sim {z : Bytes} {f : File} {p : Nat} {l : Lfh} {r : Rd} (hl : f.lfh = none)
    (h : readLocalHeader (RA z) f = .ok (l, r)) (hp : p ≤ f.offset) :
    readLocalHeader (ST z p) f = .ok (l, ST z (f.offset + 30 + l.nameLen + l.extraLen)) ∧
    r = RA z ∧ l.name.length = l.nameLen ∧ l.extra.length = l.extraLen := by
  unfold readLocalHeader at h ⊢
  rw [hl] at h ⊢
  simp only at h ⊢
  cases h1 : (RA z).readFullAt f.offset 30 with
  | ok x =>
    obtain ⟨b, r1⟩ := x
    rw [h1] at h
    simp only at h
    obtain ⟨hr1, _, _⟩ := readFullAt_ra_some h1
    obtain ⟨q1, e1, _, _, hq1, _⟩ := readFullAt_sim h1 hp
    have hq1 := hq1 (by omega)
    subst hq1 hr1
    rw [e1]
    simp only
    split at h
    · cases h
    · next hsig =>
      rw [if_neg hsig]
      cases h2 : (RA z).readFullAt (f.offset + 30) (fld b 26 2) with
      | ok x2 =>
        obtain ⟨nm, r2⟩ := x2
        rw [h2] at h
        simp only at h
        obtain ⟨hr2, hnl, _⟩ := readFullAt_ra_some h2
        obtain ⟨q2, e2, hq2a, hq2b, hq2c, hq2d⟩ := readFullAt_sim h2 (Nat.le_refl (f.offset + 30))
        subst hr2
        rw [e2]
        simp only
        cases h3 : (RA z).readFullAt (f.offset + 30 + fld b 26 2) (fld b 28 2) with
        | ok x3 =>
          obtain ⟨ex, r3⟩ := x3
          rw [h3] at h
          simp only [Res.ok.injEq, Prod.mk.injEq] at h
          obtain ⟨hr3, hel, _⟩ := readFullAt_ra_some h3
          obtain ⟨q3, e3, hq3a, hq3b, hq3c, hq3d⟩ := readFullAt_sim (p := q2) h3 hq2b
          rw [e3]
          obtain ⟨rfl, rfl⟩ := h
          simp only
          refine ⟨?_, hr3, hnl, hel⟩
          have : q3 = f.offset + 30 + fld b 26 2 + fld b 28 2 := by
            by_cases c3 : fld b 28 2 = 0
            · have := hq3d c3
              by_cases c2 : fld b 26 2 = 0
              · have := hq2d c2; omega
              · have := hq2c c2; omega
            · exact hq3c c3
          rw [this]
        | err e => rw [h3] at h; cases h
        | panic s => rw [h3] at h; cases h
        | diverge => rw [h3] at h; cases h
      | err e => rw [h2] at h; cases h
      | panic s => rw [h2] at h; cases h
      | diverge => rw [h2] at h; cases h
  | err e => rw [h1] at h; cases h
  | panic s => rw [h1] at h; cases h
  | diverge => rw [h1] at h; cases h

/-- `readDataDesc` on a `File` without cached descriptor: same result, the stream stands after the
    descriptor that was taken (or where it was, when the member has none) -/
theorem readDataDesc_sim {z : Bytes} {f : File} {l : Lfh} {p : Nat} {d : Bytes} {c : Nat} {r : Rd} (hd : f.ddb = [])
    (h : readDataDesc (RA z) f l = .ok (d, c, r))
    (hp : p ≤ f.offset + (30 + l.name.length + l.extra.length) + f.csize) :
    ∃ q, readDataDesc (ST z p) f l = .ok (d, c, ST z q) ∧ r = RA z ∧
      (d = [] → q = p) ∧ (d ≠ [] → q = f.offset + (30 + l.name.length + l.extra.length) + f.csize + d.length) := by
  unfold readDataDesc at h ⊢
  split at h
  · next hf =>
    rw [if_pos hf]
    simp only [Res.ok.injEq, Prod.mk.injEq] at h
    obtain ⟨rfl, rfl, rfl⟩ := h
    exact ⟨p, rfl, rfl, fun _ => rfl, fun c => absurd rfl c⟩
  · next hf =>
    rw [if_neg hf]
    rw [if_neg (by rw [hd]; exact fun c => c rfl)] at h ⊢
    simp only at h ⊢
    generalize hpos : f.offset + (30 + l.name.length + l.extra.length) + f.csize = pos at *
    cases h1 : (RA z).readAt pos 16 with
    | ok x =>
      obtain ⟨d16, r1⟩ := x
      rw [h1] at h
      simp only at h
      obtain ⟨_, _, _, hb16, hr1⟩ := readAt_ra_some h1
      have hl16 : d16.length = 16 := by rw [hb16, List.length_take, List.length_drop]; omega
      rw [readAt_sim h1 hp]
      subst hr1
      simp only
      split at h
      · cases h
      · next hsig =>
        rw [if_neg hsig]
        split at h
        · next hw =>
          rw [if_pos hw]
          cases h2 : (RA z).readAt (pos + 16) 8 with
          | ok x2 =>
            obtain ⟨d8, r2⟩ := x2
            rw [h2] at h
            simp only at h
            obtain ⟨_, _, _, hb8, hr2⟩ := readAt_ra_some h2
            have hl8 : d8.length = 8 := by rw [hb8, List.length_take, List.length_drop]; omega
            rw [readAt_sim h2 (Nat.le_refl _)]
            simp only
            split at h
            · cases h
            · next hbad =>
              rw [if_neg hbad]
              simp only [Res.ok.injEq, Prod.mk.injEq] at h
              obtain ⟨rfl, rfl, rfl⟩ := h
              refine ⟨pos + 16 + 8, rfl, hr2, ?_, ?_⟩
              · intro c; have := congrArg List.length c; simp [hl16, hl8] at this
              · intro _; simp [hl16, hl8]; try omega
          | err e => rw [h2] at h; cases h
          | panic s => rw [h2] at h; cases h
          | diverge => rw [h2] at h; cases h
        · next hw =>
          rw [if_neg hw]
          simp only [Res.ok.injEq, Prod.mk.injEq] at h
          obtain ⟨rfl, rfl, rfl⟩ := h
          refine ⟨pos + 16, rfl, rfl, ?_, ?_⟩
          · intro c; have := congrArg List.length c; simp [hl16] at this
          · intro _; rw [hl16]
    | err e => rw [h1] at h; cases h
    | panic s => rw [h1] at h; cases h
    | diverge => rw [h1] at h; cases h

/-- **one member.** `Dump` of a fresh `File` whose reported extent lies inside the archive: the stream,
    standing at or before the member, writes the same bytes, reports the same size, leaves the same
    `File`, and stands exactly at `offset + size`. -/
theorem dump_sim {z : Bytes} {f : File} {p n : Nat} {b : Bytes} {f' : File} {r : Rd} (hf : f.fresh)
    (h63 : z.length < 2 ^ 63)
    (h : dump (RA z) f = .ok (b, n, f', r)) (hin : f.offset + n ≤ z.length) (hp : p ≤ f.offset) :
    dump (ST z p) f = .ok (b, n, f', ST z (f.offset + n)) ∧ r = RA z := by
  obtain ⟨hl, hd, hc⟩ := hf
  unfold dump at h ⊢
  cases h1 : readLocalHeader (RA z) f with
  | ok x =>
    obtain ⟨l, r1⟩ := x
    rw [h1] at h
    simp only at h
    obtain ⟨e1, hr1, hnl, hel⟩ := readLocalHeader_sim hl h1 hp
    subst hr1
    rw [e1]
    simp only
    rw [hc] at h ⊢
    simp only at h ⊢
    -- the data
    generalize hdoff : f.offset + 30 + l.nameLen + l.extraLen = doff at *
    by_cases hz : f.csize = 0 ∨ f.csize ≥ 2 ^ 63
    · rw [if_pos hz] at h ⊢
      simp only at h ⊢
      cases h2 : readDataDesc (RA z) f l with
      | ok x2 =>
        obtain ⟨ddb, crc, r2⟩ := x2
        rw [h2] at h
        simp only [Res.ok.injEq, Prod.mk.injEq] at h
        obtain ⟨rfl, rfl, rfl, hr⟩ := h
        have hcs : f.csize = 0 := by
          rcases hz with c | c
          · exact c
          · omega
        obtain ⟨q, e2, hr2, hq0, hq1⟩ := readDataDesc_sim (p := doff) hd h2 (by omega)
        rw [e2]
        simp only [Res.ok.injEq, Prod.mk.injEq, true_and]
        refine ⟨?_, by rw [← hr, hr2]⟩
        congr 1
        by_cases c : ddb = []
        · rw [hq0 c, c]; simp; omega
        · rw [hq1 c]; omega
      | err e => rw [h2] at h; cases h
      | panic s => rw [h2] at h; cases h
      | diverge => rw [h2] at h; cases h
    · rw [if_neg hz] at h ⊢
      simp only [Bool.false_eq_true, if_false, if_true] at h ⊢
      by_cases c63 : doff ≥ 2 ^ 63
      · rw [if_pos c63] at h; cases h
      · rw [if_neg c63] at h
        simp only at h
        cases h2 : readDataDesc (RA z) f l with
        | ok x2 =>
          obtain ⟨ddb, crc, r2⟩ := x2
          rw [h2] at h
          simp only [Res.ok.injEq, Prod.mk.injEq] at h
          obtain ⟨rfl, rfl, rfl, hr⟩ := h
          have hdr : doff + f.csize ≤ z.length := by omega
          rw [readAt_st_ok z doff doff f.csize (Nat.le_refl _) (by omega) hdr]
          simp only
          obtain ⟨q, e2, hr2, hq0, hq1⟩ := readDataDesc_sim (p := doff + f.csize) hd h2 (by omega)
          rw [e2]
          simp only [Res.ok.injEq, Prod.mk.injEq, true_and]
          refine ⟨?_, by rw [← hr, hr2]⟩
          congr 1
          by_cases c : ddb = []
          · rw [hq0 c, c]; simp; omega
          · rw [hq1 c]; omega
        | err e => rw [h2] at h; cases h
        | panic s => rw [h2] at h; cases h
        | diverge => rw [h2] at h; cases h
  | err e => rw [h1] at h; cases h
  | panic s => rw [h1] at h; cases h
  | diverge => rw [h1] at h; cases h

/-- a member that starts before the position the stream has reached is refused -/
theorem dump_back {z : Bytes} {f : File} {p : Nat} (hl : f.lfh = none) (hp : f.offset < p) :
    dump (ST z p) f = .err "io" := by
  unfold dump readLocalHeader
  rw [hl]
  simp only
  unfold Rd.readFullAt
  rw [if_neg (by omega), readAt_st_back z p f.offset 30 hp]

/-- **the whole pass, exactly.** For fresh directory entries whose random-access pass succeeds with every
    reported extent inside the archive: the single pass from position `p` returns the same list of
    results if the members lie forward of one another (`forward`), and fails with the I/O error of
    `streamReaderAt` ("attempted to seek backwards") if they do not. -/
theorem dumpAll_stream {z : Bytes} : ∀ (fs : List File) (outs : List Dumped) (p : Nat),
    z.length < 2 ^ 63 → (∀ f ∈ fs, f.fresh) → dumpAll (RA z) fs = .ok outs → inRange z.length fs outs = true →
    dumpAll (ST z p) fs = if forward p fs outs then .ok outs else .err "io" := by
  intro fs
  induction fs with
  | nil =>
    intro outs p _ _ h _
    simp only [dumpAll, Res.ok.injEq] at h
    subst h
    simp [dumpAll, forward]
  | cons f fs ih =>
    intro outs p h63 hfresh h hin
    unfold dumpAll at h
    cases h1 : dump (RA z) f with
    | ok x =>
      obtain ⟨b, n, f', r1⟩ := x
      rw [h1] at h
      simp only at h
      cases h2 : dumpAll r1 fs with
      | ok l =>
        rw [h2] at h
        simp only [Res.ok.injEq] at h
        subst h
        simp only [inRange, Bool.and_eq_true, decide_eq_true_eq] at hin
        simp only [forward]
        have hr1 := (dump_sim (p := f.offset) (hfresh f (List.mem_cons_self ..)) h63 h1 hin.1 (Nat.le_refl _)).2
        subst hr1
        by_cases hp : p ≤ f.offset
        · unfold dumpAll
          rw [(dump_sim (hfresh f (List.mem_cons_self ..)) h63 h1 hin.1 hp).1]
          simp only
          rw [ih l (f.offset + n) h63 (fun g hg => hfresh g (List.mem_cons_of_mem _ hg)) h2 hin.2]
          by_cases hfw : forward (f.offset + n) fs l = true
          · simp [hp, hfw]
          · simp [hp, hfw]
        · unfold dumpAll
          rw [dump_back (hfresh f (List.mem_cons_self ..)).1 (by omega)]
          simp [hp]
      | err e => rw [h2] at h; cases h
      | panic s => rw [h2] at h; cases h
      | diverge => rw [h2] at h; cases h
    | err e => rw [h1] at h; cases h
    | panic s => rw [h1] at h; cases h
    | diverge => rw [h1] at h; cases h

/-- a member `GetTotalSize` measures, lying inside the archive, is dumped: same size, same `File` -/
theorem dump_of_getTotalSize {z : Bytes} {f : File} {m : Member} {r : Rd} (hf : f.fresh) (h63 : z.length < 2 ^ 63)
    (h : getTotalSize (RA z) f = .ok (m, r)) (hin : f.offset + m.total ≤ z.length) :
    ∃ b, dump (RA z) f = .ok (b, m.total, m.file, RA z) := by
  obtain ⟨hl, hd, hc⟩ := hf
  unfold getTotalSize at h
  unfold dump
  cases h1 : readLocalHeader (RA z) f with
  | ok x =>
    obtain ⟨l, r1⟩ := x
    rw [h1] at h
    simp only at h ⊢
    obtain ⟨_, hr1, hnl, hel⟩ := readLocalHeader_sim hl h1 (Nat.le_refl _)
    subst hr1
    cases h2 : readDataDesc (RA z) f l with
    | ok x2 =>
      obtain ⟨ddb, crc, r2⟩ := x2
      rw [h2] at h
      simp only [Res.ok.injEq, Prod.mk.injEq] at h
      obtain ⟨rfl, _⟩ := h
      obtain ⟨_, _, hr2, _, _⟩ := readDataDesc_sim (p := 0) hd h2 (Nat.zero_le _)
      subst hr2
      simp only at hin
      rw [hc]
      simp only
      by_cases hz : f.csize = 0 ∨ f.csize ≥ 2 ^ 63
      · rw [if_pos hz]
        simp only
        rw [h2]
        exact ⟨_, rfl⟩
      · rw [if_neg hz]
        simp only [Bool.false_eq_true, if_false]
        rw [if_neg (by omega)]
        simp only
        rw [h2]
        exact ⟨_, rfl⟩
    | err e => rw [h2] at h; cases h
    | panic s => rw [h2] at h; cases h
    | diverge => rw [h2] at h; cases h
  | err e => rw [h1] at h; cases h
  | panic s => rw [h1] at h; cases h
  | diverge => rw [h1] at h; cases h

/-- `ReadZipTar` sees the directory `Read` sees -/
theorem readStream_of_read {z : Bytes} {d : Directory} (h : read (RA z) = .ok d) : readStream z = .ok d := by
  unfold read at h
  unfold readStream
  cases hf : findDirectory (RA z) with
  | ok loc =>
    rw [hf] at h
    simp only at h ⊢
    split at h
    · split at h <;> cases h
    · split at h
      · cases h
      · next h63 hle =>
        cases h1 : (RA z).readAt loc (z.length - loc) with
        | ok x =>
          obtain ⟨cd, r⟩ := x
          rw [h1] at h
          simp only at h
          obtain ⟨_, hlt, _, hb, _⟩ := readAt_ra_some h1
          rw [if_neg (by omega), if_neg (by omega)]
          have : cd = z.drop loc := by
            rw [hb]; exact List.take_of_length_le (by rw [List.length_drop]; omega)
          rw [← this]; exact h
        | err e => rw [h1] at h; cases h
        | panic s => rw [h1] at h; cases h
        | diverge => rw [h1] at h; cases h
  | err e => rw [hf] at h; cases h
  | panic s => rw [hf] at h; cases h
  | diverge => rw [hf] at h; cases h

end Relic.Zip

/- the superblob round trip: `parseSuper (marshalSuperBlob items)` finds the items where they were written -/
import Relic.Proofs.CodeDirParse
import Relic.Model.MachO
namespace Relic.CodeDir
open Relic

/-- the bytes of one item -/
def itemBytes (H : Bytes → Bytes) (hs : Nat) (i : Item) : Bytes := render H hs i.data

/-- an item whose blob header states its own length (every blob relic writes does) -/
def WellItem (H : Bytes → Bytes) (hs : Nat) (i : Item) : Prop :=
  8 ≤ (itemBytes H hs i).length ∧ be32 (itemBytes H hs i) 4 = (itemBytes H hs i).length

/-- where `parseSuper` must find the items -/
def rawOf (H : Bytes → Bytes) (hs : Nat) : Nat → List Item → List RawItem
  | _, [] => []
  | off, i :: is =>
    ⟨be32 (itemBytes H hs i) 0, i.itype % 2 ^ 32, off, (itemBytes H hs i).length⟩ :: rawOf H hs (off + (itemBytes H hs i).length) is

def itemsLen (H : Bytes → Bytes) (hs : Nat) (is : List Item) : Nat := ((is.map (itemBytes H hs)).flatten).length

theorem itemsLen_cons (H : Bytes → Bytes) (hs : Nat) (i : Item) (is : List Item) :
    itemsLen H hs (i :: is) = (itemBytes H hs i).length + itemsLen H hs is := by
  simp [itemsLen]

theorem superIndex_length (hs : Nat) : ∀ (is : List Item) (off : Nat), (superIndex hs off is).length = 8 * is.length := by
  intro is
  induction is with
  | nil => intro _; rfl
  | cons i is ih =>
    intro off
    simp only [superIndex, List.length_append, ih, List.length_cons]
    have l4 : ∀ n, (beBytes 4 n).length = 4 := by intro n; simp [beBytes]
    rw [l4, l4]; omega

theorem beBytes4_length (n : Nat) : (beBytes 4 n).length = 4 := by simp [beBytes]

theorem be32_of_drop (blob a t : Bytes) (k : Nat) (h : blob.drop k = a ++ t) (ha : a.length = 4) : be32 blob k = beVal a := by
  unfold be32
  rw [h, List.take_left' ha]

theorem be32_inside (blob r t : Bytes) (k j : Nat) (h : blob.drop k = r ++ t) (hj : j + 4 ≤ r.length) :
    be32 blob (k + j) = be32 r j := by
  unfold be32
  rw [← List.drop_drop, h, List.drop_append_of_le_length (by omega), List.take_append_of_le_length (by simp; omega)]

theorem sliceOf_inside (blob r t : Bytes) (k : Nat) (h : blob.drop k = r ++ t) : MachO.sliceOf blob k r.length = r := by
  unfold MachO.sliceOf
  rw [h, List.take_left' rfl]

/-- the index loop of `parseSuper` on an index / data layout as `marshalSuperBlob` writes it -/
theorem superEntries_ok (H : Bytes → Bytes) (hs : Nat) (hH : ∀ s, (H s).length = hs) (blob : Bytes) (D : Nat)
    (h32 : blob.length < 2 ^ 32) :
    ∀ (is : List Item) (idx off : Nat) (t1 t2 : Bytes),
      blob.drop idx = superIndex hs off is ++ t1 → blob.drop off = (is.map (itemBytes H hs)).flatten ++ t2 →
      D ≤ off → off + itemsLen H hs is ≤ blob.length → (∀ i ∈ is, WellItem H hs i) →
      superEntries blob D is.length idx = .ok (rawOf H hs off is) := by
  intro is
  induction is with
  | nil => intro _ _ _ _ _ _ _ _ _; rfl
  | cons i is ih =>
    intro idx off t1 t2 hidx hoff hD hend hw
    obtain ⟨w8, wl⟩ := hw i List.mem_cons_self
    have hL : segsLen hs i.data = (itemBytes H hs i).length := (render_length H hs hH i.data).symm
    rw [itemsLen_cons] at hend
    simp only [superIndex, List.append_assoc] at hidx
    simp only [List.map_cons, List.flatten_cons, List.append_assoc] at hoff
    have e1 : be32 blob idx = i.itype % 2 ^ 32 := by
      rw [be32_of_drop blob _ _ idx hidx (beBytes4_length _), beVal_beBytes]
    have hidx4 : blob.drop (idx + 4) = beBytes 4 off ++ (superIndex hs (off + segsLen hs i.data) is ++ t1) := by
      rw [← List.drop_drop, hidx, List.drop_left' (beBytes4_length _)]
    have e2 : be32 blob (idx + 4) = off := by
      rw [be32_of_drop blob _ _ (idx + 4) hidx4 (beBytes4_length _), beVal_beBytes]
      exact Nat.mod_eq_of_lt (by omega)
    have e3 : be32 blob (off + 4) = (itemBytes H hs i).length := by
      rw [be32_inside blob _ _ off 4 hoff (by omega), wl]
    have e4 : be32 blob off = be32 (itemBytes H hs i) 0 := be32_inside blob _ _ off 0 hoff (by omega)
    have hidx8 : blob.drop (idx + 8) = superIndex hs (off + (itemBytes H hs i).length) is ++ t1 := by
      have : idx + 8 = (idx + 4) + 4 := by omega
      rw [this, ← List.drop_drop, hidx4, List.drop_left' (beBytes4_length _), hL]
    have hoff' : blob.drop (off + (itemBytes H hs i).length) = (is.map (itemBytes H hs)).flatten ++ t2 := by
      rw [← List.drop_drop, hoff, List.drop_left' rfl]
    have hrec := ih (idx + 8) (off + (itemBytes H hs i).length) t1 t2 hidx8 hoff' (by omega) (by omega)
      (fun j hj => hw j (List.mem_cons_of_mem _ hj))
    simp only [List.length_cons, superEntries, e1, e2, e3, e4, hrec, rawOf]
    have c1 : ¬ (off < D ∨ blob.length - D < 8 ∨ off - D > blob.length - D - 8) := by omega
    have c2 : ¬ (off - D + (itemBytes H hs i).length > blob.length - D) := by omega
    simp only [c1, c2, ↓reduceIte]

theorem render_flatMap (H : Bytes → Bytes) (hs : Nat) (items : List Item) :
    render H hs (items.flatMap (·.data)) = (items.map (itemBytes H hs)).flatten := by
  induction items with
  | nil => rfl
  | cons i is ih => rw [List.flatMap_cons, render_append, ih]; rfl

theorem render_marshal (H : Bytes → Bytes) (hs magic : Nat) (items : List Item) :
    render H hs (marshalSuperBlob hs magic items) =
      (beBytes 4 magic ++ beBytes 4 (12 + 8 * items.length + (items.map (fun i => segsLen hs i.data)).sum) ++
        beBytes 4 items.length ++ superIndex hs (12 + 8 * items.length) items) ++ (items.map (itemBytes H hs)).flatten := by
  unfold marshalSuperBlob
  rw [render_append, render_lit, render_flatMap]

theorem sum_segsLen (H : Bytes → Bytes) (hs : Nat) (hH : ∀ s, (H s).length = hs) (items : List Item) :
    (items.map (fun i => segsLen hs i.data)).sum = itemsLen H hs items := by
  induction items with
  | nil => rfl
  | cons i is ih =>
    rw [itemsLen_cons, List.map_cons, List.sum_cons, ih]
    congr 1
    exact (render_length H hs hH i.data).symm

/-- **parseSuper_marshal_tail.** `parseSuper` of a marshalled superblob followed by arbitrary bytes (the zero padding of the
    reserved signature region), the whole slice below 4 GiB, every item carrying its own length: the magic, and for
    every item its magic, type, position and length, in order. -/
theorem parseSuper_marshal_tail (H : Bytes → Bytes) (hs magic : Nat) (hH : ∀ s, (H s).length = hs) (items : List Item) (tail : Bytes)
    (hw : ∀ i ∈ items, WellItem H hs i) (h32 : (render H hs (marshalSuperBlob hs magic items) ++ tail).length < 2 ^ 32) :
    parseSuper (render H hs (marshalSuperBlob hs magic items) ++ tail) =
      .ok (magic % 2 ^ 32, rawOf H hs (12 + 8 * items.length) items) ∧
    (render H hs (marshalSuperBlob hs magic items) ++ tail).drop (12 + 8 * items.length) =
      (items.map (itemBytes H hs)).flatten ++ tail ∧
    be32 (render H hs (marshalSuperBlob hs magic items) ++ tail) 4 = (render H hs (marshalSuperBlob hs magic items)).length := by
  have hrm := render_marshal H hs magic items
  rw [sum_segsLen H hs hH] at hrm
  have hhdrL : (beBytes 4 magic ++ beBytes 4 (12 + 8 * items.length + itemsLen H hs items) ++
        beBytes 4 items.length ++ superIndex hs (12 + 8 * items.length) items).length = 12 + 8 * items.length := by
    simp only [List.length_append, beBytes4_length, superIndex_length]
  have hlen0 : (render H hs (marshalSuperBlob hs magic items)).length = 12 + 8 * items.length + itemsLen H hs items := by
    rw [hrm, List.length_append, hhdrL]; rfl
  generalize hb : render H hs (marshalSuperBlob hs magic items) ++ tail = blob at *
  have hblob : blob = (beBytes 4 magic ++ beBytes 4 (12 + 8 * items.length + itemsLen H hs items) ++
        beBytes 4 items.length ++ superIndex hs (12 + 8 * items.length) items) ++ ((items.map (itemBytes H hs)).flatten ++ tail) := by
    rw [← hb, hrm, List.append_assoc]
  have hlen : blob.length = 12 + 8 * items.length + itemsLen H hs items + tail.length := by
    rw [← hb, List.length_append, hlen0]
  have hdata : blob.drop (12 + 8 * items.length) = (items.map (itemBytes H hs)).flatten ++ tail := by
    rw [hblob]; exact List.drop_left' hhdrL
  have h0 : blob.drop 0 = beBytes 4 magic ++ (beBytes 4 (12 + 8 * items.length + itemsLen H hs items) ++
        (beBytes 4 items.length ++ (superIndex hs (12 + 8 * items.length) items ++ ((items.map (itemBytes H hs)).flatten ++ tail)))) := by
    rw [List.drop_zero, hblob]; simp
  have h4 : blob.drop 4 = beBytes 4 (12 + 8 * items.length + itemsLen H hs items) ++
        (beBytes 4 items.length ++ (superIndex hs (12 + 8 * items.length) items ++ ((items.map (itemBytes H hs)).flatten ++ tail))) := by
    have := congrArg (List.drop 4) h0
    rw [List.drop_drop, List.drop_left' (beBytes4_length _)] at this
    exact this
  have h8 : blob.drop 8 = beBytes 4 items.length ++ (superIndex hs (12 + 8 * items.length) items ++ ((items.map (itemBytes H hs)).flatten ++ tail)) := by
    have := congrArg (List.drop 4) h4
    rw [List.drop_drop, List.drop_left' (beBytes4_length _)] at this
    exact this
  have h12 : blob.drop 12 = superIndex hs (12 + 8 * items.length) items ++ ((items.map (itemBytes H hs)).flatten ++ tail) := by
    have := congrArg (List.drop 4) h8
    rw [List.drop_drop, List.drop_left' (beBytes4_length _)] at this
    exact this
  have f0 : be32 blob 0 = magic % 2 ^ 32 := by rw [be32_of_drop blob _ _ 0 h0 (beBytes4_length _), beVal_beBytes]
  have f4 : be32 blob 4 = 12 + 8 * items.length + itemsLen H hs items := by
    rw [be32_of_drop blob _ _ 4 h4 (beBytes4_length _), beVal_beBytes]
    exact Nat.mod_eq_of_lt (by omega)
  have f8 : be32 blob 8 = items.length := by
    rw [be32_of_drop blob _ _ 8 h8 (beBytes4_length _), beVal_beBytes]
    exact Nat.mod_eq_of_lt (by omega)
  refine ⟨?_, hdata, by rw [f4, hlen0]⟩
  have hse := superEntries_ok H hs hH blob (12 + 8 * items.length) h32 items 12 (12 + 8 * items.length)
    ((items.map (itemBytes H hs)).flatten ++ tail) tail h12 hdata (Nat.le_refl _) (by omega) hw
  unfold parseSuper
  have c0 : ¬ blob.length < 12 := by omega
  have c1 : ¬ (12 + 8 * items.length + itemsLen H hs items < 8 ∨ blob.length < 12 + 8 * items.length + itemsLen H hs items) := by omega
  have c2 : ¬ (blob.length - 12 < 8 * items.length) := by omega
  simp only [c0, ↓reduceIte, f4, f8, c1, c2, hse, f0]

/-- **parseSuper_marshal.** The same without trailing bytes. -/
theorem parseSuper_marshal (H : Bytes → Bytes) (hs magic : Nat) (hH : ∀ s, (H s).length = hs) (items : List Item)
    (hw : ∀ i ∈ items, WellItem H hs i) (h32 : (render H hs (marshalSuperBlob hs magic items)).length < 2 ^ 32) :
    parseSuper (render H hs (marshalSuperBlob hs magic items)) =
      .ok (magic % 2 ^ 32, rawOf H hs (12 + 8 * items.length) items) ∧
    (render H hs (marshalSuperBlob hs magic items)).drop (12 + 8 * items.length) = (items.map (itemBytes H hs)).flatten := by
  have := parseSuper_marshal_tail H hs magic hH items [] hw (by simpa using h32)
  simp only [List.append_nil] at this
  exact ⟨this.1, this.2.1⟩

/-! ### the items behind the index -/

theorem rawOf_filter (H : Bytes → Bytes) (hs : Nat) (blob : Bytes) (t : Nat) : ∀ (is : List Item) (off : Nat) (t2 : Bytes),
    blob.drop off = (is.map (itemBytes H hs)).flatten ++ t2 →
    ((rawOf H hs off is).filter (fun r => r.itype = t)).map (fun r => MachO.sliceOf blob r.off r.len) =
      (is.filter (fun i => i.itype % 2 ^ 32 = t)).map (itemBytes H hs) := by
  intro is
  induction is with
  | nil => intro _ _ _; rfl
  | cons i is ih =>
    intro off t2 h
    simp only [List.map_cons, List.flatten_cons, List.append_assoc] at h
    have h' : blob.drop (off + (itemBytes H hs i).length) = (is.map (itemBytes H hs)).flatten ++ t2 := by
      rw [← List.drop_drop, h, List.drop_left' rfl]
    have hsl := sliceOf_inside blob _ _ off h
    simp only [rawOf, List.filter_cons]
    by_cases c : i.itype % 2 ^ 32 = t
    · simp only [c, decide_true, ↓reduceIte, List.map_cons, hsl, ih _ t2 h']
    · simp only [c, decide_false, Bool.false_eq_true, ↓reduceIte, ih _ t2 h']

theorem rawOf_lens (H : Bytes → Bytes) (hs : Nat) (t : Nat) : ∀ (is : List Item) (off : Nat),
    ((rawOf H hs off is).filter (fun r => r.itype = t)).map (·.len) =
      (is.filter (fun i => i.itype % 2 ^ 32 = t)).map (fun i => (itemBytes H hs i).length) := by
  intro is
  induction is with
  | nil => intro _; rfl
  | cons i is ih =>
    intro off
    simp only [rawOf, List.filter_cons]
    by_cases c : i.itype % 2 ^ 32 = t
    · simp only [c, decide_true, ↓reduceIte, List.map_cons, ih]
    · simp only [c, decide_false, Bool.false_eq_true, ↓reduceIte, ih]

theorem itemData_rawOf (H : Bytes → Bytes) (hs : Nat) (blob : Bytes) (t : Nat) (is : List Item) (off : Nat) (t2 : Bytes)
    (h : blob.drop off = (is.map (itemBytes H hs)).flatten ++ t2) :
    MachO.itemData blob (rawOf H hs off is) t = ((is.filter (fun i => i.itype % 2 ^ 32 = t)).getLast?).map (itemBytes H hs) := by
  unfold MachO.itemData
  rw [← List.getLast?_map, ← List.getLast?_map]
  congr 1
  exact rawOf_filter H hs blob t is off t2 h

/-- items other than code directories leave the directory list of `parseSignature` alone -/
theorem sigItems_nodir (blob : Bytes) : ∀ (rs : List RawItem) (s : MachO.OldSig), (∀ r ∈ rs, MachO.isDirType r.itype = false) →
    ∃ s', MachO.sigItems blob rs s = .ok s' ∧ s'.dirs = s.dirs := by
  intro rs
  induction rs with
  | nil => intro s _; exact ⟨s, rfl, rfl⟩
  | cons r rs ih =>
    intro s h
    have hr := h r List.mem_cons_self
    have hrest : ∀ x ∈ rs, MachO.isDirType x.itype = false := fun x hx => h x (List.mem_cons_of_mem _ hx)
    unfold MachO.sigItems
    by_cases c1 : r.itype = 2 ∨ r.itype = 0x10002
    · rw [if_pos c1]; exact ih s hrest
    · rw [if_neg c1]
      by_cases c2 : r.itype = 5
      · rw [if_pos c2]
        obtain ⟨s', a, b⟩ := ih { s with entitlement := some (MachO.sliceOf blob r.off r.len) } hrest
        exact ⟨s', a, b⟩
      · rw [if_neg c2]
        by_cases c3 : r.itype = 7
        · rw [if_pos c3]
          obtain ⟨s', a, b⟩ := ih { s with entitlementDER := some (MachO.sliceOf blob r.off r.len) } hrest
          exact ⟨s', a, b⟩
        · rw [if_neg c3]
          have : ¬ (MachO.isDirType r.itype = true) := by rw [hr]; decide
          rw [if_neg this]
          by_cases c4 : r.itype = 0x10000
          · rw [if_pos c4]
            obtain ⟨s', a, b⟩ := ih { s with cmsOpaque := decide (r.len > 8) } hrest
            exact ⟨s', a, b⟩
          · rw [if_neg c4]; exact ih s hrest

end Relic.CodeDir

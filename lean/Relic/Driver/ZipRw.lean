/- line-protocol handlers for the ZIP rewriters (C03/C08: JAR `insertSignature`, VSIX `Mangler`) -/
import Relic.Model.ZipRewrite
import Relic.Spec.Zip
import Relic.Driver.C17
namespace Relic.Driver.ZipRw
open Relic Relic.Zip

def parseNews : Nat → List String → Option (List NewMember)
  | 0, _ => some []
  | n + 1, a :: b :: c :: u :: k :: dfl :: ud :: rest => do
    let name ← fromHex a
    let extra ← fromHex b
    let compd ← fromHex c
    let us ← u.toNat?
    let crc ← k.toNat?
    let ns ← parseNews n rest
    pure (⟨name, extra, compd, us, crc, dfl = "1", ud = "1"⟩ :: ns)
  | _, _ => none

def bits (l : List Bool) : String := if l.isEmpty then "-" else String.ofList (l.map fun b => if b then '1' else '0')

/-- flags of the input under the specification (subset of C17's tags) -/
def inTags (z : Bytes) : String :=
  match SpecZip.parse z with
  | none => "spec=invalid flags="
  | some a =>
    let flags :=
      (if a.ends.comment.isEmpty then [] else ["eocd-comment"]) ++
      (if SpecZip.descSigned a then [] else ["desc-nosig"]) ++
      (if SpecZip.zip64Fixed a then [] else ["zip64-partial"]) ++
      (if Relic.Driver.C17.desc24Empty a then ["desc24-empty"] else []) ++
      (if Relic.Driver.C17.contiguous a then ["contig"] else []) ++
      (match a.members.head? with
       | some m => if m.entry.hoff ≠ 0 then ["prefix"] else []
       | none => if a.ends.cdOff ≠ 0 then ["prefix"] else [])
    s!"spec=valid flags={",".intercalate flags} n={a.members.length}"

/-- stage 1: does the rewriter accept the input (new members of any content), which members stay -/
def stage1 (read : Bytes → Res (Directory × List Member)) (keep : File → Bool) (limit : Bool) (z : Bytes) : String :=
  match read z with
  | .ok (d, ms) =>
    match walk true limit keep ms 0 { files := [], size := 0, dirLoc := 0 } [] with
    | .ok (_, _, pos) =>
      if pos ≠ d.dirLoc then "err notcontig" else s!"ok keep={bits (d.files.map keep)} defl={if jarDeflate d.files then 1 else 0}"
    | x => "err " ++ Relic.Driver.C17.errTag x
  | x => "err " ++ Relic.Driver.C17.errTag x

/-- stage 2: the exact output, and whether the standard-reader view of it is the requested one -/
def stage2 (z : Bytes) (front : Bool) (keepName : Bytes → Bool) (news : List NewMember) (res : Res Bytes) : String :=
  match res with
  | .ok out =>
    let want := (specView z).map fun vin =>
      let kept := vin.filter fun v => keepName v.name
      if front then news.map newView ++ kept else kept ++ news.map newView
    let got := specView out
    let view := if got.isSome && got == want then "same" else if got.isNone then "invalid" else "differs"
    s!"ok {toHex out} #specout={if got.isSome then "valid" else "invalid"} view={view}"
  | x => "err " ++ Relic.Driver.C17.errTag x

def handle : List String → String
  | ["jar", hex, _] =>
    match fromHex hex with
    | some z => s!"{stage1 jarRead jarKeep true z} #{inTags z}"
    | none => "bad-op"
  | ["vsix", hex, _] =>
    match fromHex hex with
    | some z => s!"{stage1 manglerRead vsixKeep false z} #{inTags z}"
    | none => "bad-op"
  | "jarout" :: hex :: mt :: md :: k :: rest =>
    match fromHex hex, mt.toNat?, md.toNat?, k.toNat? with
    | some z, some mt, some md, some k =>
      match parseNews k rest with
      | some news => stage2 z true jarKeepName news (jarRewrite z news mt md)
      | none => "bad-op"
    | _, _, _, _ => "bad-op"
  | "vsixout" :: hex :: mt :: md :: force :: k :: rest =>
    match fromHex hex, mt.toNat?, md.toNat?, k.toNat? with
    | some z, some mt, some md, some k =>
      match parseNews k rest with
      | some news => stage2 z false vsixKeepName news (manglerRewrite z news mt md (force = "1"))
      | none => "bad-op"
    | _, _, _, _ => "bad-op"
  | _ => "bad-op"

end Relic.Driver.ZipRw

/-
  Relic.Model.AuditFields — def-use facts about the audit record, as extracted from the Go source
  by tools/extractaudit (lean/Relic/Generated/AuditFields.lean), and the decidable checks run on
  them.  Expression texts are what go/printer prints.  Core Lean only.
-/
namespace Relic.AuditFields

structure CallFact where
  callee : String
  args : List String
  guards : List String        -- enclosing if-conditions, outermost first ("!(c)" for an else branch)
  deriving Repr, DecidableEq

structure AttrFact where
  map : String                -- the map expression indexed (info.Attributes, opts.Audit.Attributes, a)
  key : String                -- the literal key, or "<dynamic:…>"
  value : String
  guards : List String
  deriving Repr, DecidableEq

structure FuncFacts where
  name : String
  params : List (String × String)
  assigns : List (String × String)
  calls : List CallFact
  attrs : List AttrFact
  fields : List (String × String × String)
  returns : List (List String)
  mentions : List String
  deletes : List String
  deriving Repr

structure SignerFacts where
  pkg : String
  name : String
  aliases : List String
  certTypes : String
  sign : String
  transform : String
  funcs : List FuncFacts
  deriving Repr

end Relic.AuditFields

namespace Relic.AuditFields

/-! ### queries -/

def FuncFacts.attr (f : FuncFacts) (key : String) : List AttrFact := f.attrs.filter (fun a => a.key = key)
def FuncFacts.callsTo (f : FuncFacts) (callee : String) : List CallFact := f.calls.filter (fun c => c.callee = callee)
def FuncFacts.assignsTo (f : FuncFacts) (lhs : String) : List String := (f.assigns.filter (fun a => a.1 = lhs)).map (·.2)
def FuncFacts.argsOf (f : FuncFacts) (callee : String) : List (List String) := (f.callsTo callee).map (·.args)
def FuncFacts.never (f : FuncFacts) (lhs : List String) : Bool := f.assigns.all (fun a => !lhs.contains a.1)

/-- the attributes that identify key, signature type, digest, certificate, client and file -/
def identityKeys : List String :=
  ["sig.type", "sig.keyname", "sig.hash", "sig.timestamp", "sig.hostname",
   "sig.x509.subject", "sig.x509.issuer", "sig.x509.fingerprint", "sig.pgp.fingerprint", "sig.pgp.entity",
   "client.name", "client.dn", "client.ip", "client.filename", "client.sub", "client.iss", "client.decision_id"]

/-- spellings of a digest that is not `opts.Hash` -/
def otherHashSources : List String :=
  ["crypto.MD5", "crypto.SHA1", "crypto.SHA224", "crypto.SHA256", "crypto.SHA384", "crypto.SHA512", "crypto.SHA512_224",
   "crypto.SHA512_256", "crypto.SHA3_256", "crypto.SHA3_384", "crypto.SHA3_512", "x509tools.HashByName", "defaultHash",
   "shared.GetDigest", "shared.DefaultHash", "crypto.Hash"]

/-! ### lib/audit -/

/-- audit.New(keyName, sigType, hash): sig.keyname ← 1st parameter, sig.type ← 2nd, sig.hash ←
    HashNames[3rd]; each written once, unconditionally, into the map that becomes Info.Attributes;
    the parameters are not reassigned -/
def checkAuditNew (f : FuncFacts) : Bool :=
  match f.params, f.attr "sig.keyname" with
  | [(k, "string"), (t, "string"), (h, "crypto.Hash")], [⟨m, _, _, _⟩] =>
    f.attr "sig.keyname" == [⟨m, "sig.keyname", k, []⟩] &&
    f.attr "sig.type" == [⟨m, "sig.type", t, []⟩] &&
    f.attr "sig.hash" == [⟨m, "sig.hash", "x509tools.HashNames[" ++ h ++ "]", []⟩] &&
    f.fields.contains ("Info", "Attributes", m) &&
    f.assignsTo m == ["make(map[string]interface{})"] &&
    f.never [k, t, h] && f.deletes == []
  | _, _ => false

def checkSetX509Cert (f : FuncFacts) : Bool :=
  match f.params with
  | [(i, "*Info"), (c, "*x509.Certificate")] =>
    let m := i ++ ".Attributes"
    f.attrs == [⟨m, "sig.x509.subject", "x509tools.FormatSubject(" ++ c ++ ")", []⟩,
                ⟨m, "sig.x509.issuer", "x509tools.FormatIssuer(" ++ c ++ ")", []⟩,
                ⟨m, "sig.x509.fingerprint", "fmt.Sprintf(\"%x\", d.Sum(nil))", []⟩] &&
    f.assignsTo "d" == ["crypto.SHA1.New()"] &&
    f.callsTo "d.Write" == [⟨"d.Write", [c ++ ".Raw"], []⟩] &&
    f.never [c, i] && f.deletes == []
  | _ => false

def checkSetPgpCert (f : FuncFacts) : Bool :=
  match f.params with
  | [(i, "*Info"), (e, "*openpgp.Entity")] =>
    let m := i ++ ".Attributes"
    f.attrs == [⟨m, "sig.pgp.fingerprint", "fmt.Sprintf(\"%x\", " ++ e ++ ".PrimaryKey.Fingerprint[:])", []⟩,
                ⟨m, "sig.pgp.entity", "pgptools.EntityName(" ++ e ++ ")", []⟩] &&
    f.never [e, i] && f.deletes == []
  | _ => false

/-- the remaining setters write only their own keys -/
def checkOtherSetters (ts mt cs : FuncFacts) : Bool :=
  ts.attrs.map (·.key) == ["sig.timestamp"] && mt.attrs.map (·.key) == ["content-type"] &&
  cs.attrs.map (·.key) == ["sig.ts.timestamper", "sig.ts.timestamp", "sig.ts.hash"] &&
  ts.deletes == [] && mt.deletes == [] && cs.deletes == []

/-- Marshal adds perf.elapsed.ms and marshals the whole map -/
def checkMarshal (f : FuncFacts) : Bool :=
  f.attrs.map (·.key) == ["perf.elapsed.ms"] && f.argsOf "json.Marshal" == [["info.Attributes"]] &&
  f.returns == [["json.Marshal(info.Attributes)"]] && f.deletes == []

/-- CertificateInfo.AuditContext: client.name ← c.Name; client.dn ← c.Subject when non-empty -/
def checkAuditContext (f : FuncFacts) : Bool :=
  match f.params with
  | [(c, "*CertificateInfo"), (i, "*audit.Info")] =>
    let m := i ++ ".Attributes"
    f.attrs == [⟨m, "client.name", c ++ ".Name", []⟩,
                ⟨m, "client.dn", c ++ ".Subject", [c ++ ".Subject != \"\""]⟩] && f.deletes == []
  | _ => false

/-- SignOpts.SetBinPatch / SetPkcs7 touch the record only through SetMimeType / SetCounterSignature -/
def checkOptsSetters (bp p7 : FuncFacts) : Bool :=
  bp.attrs == [] && p7.attrs == [] && bp.deletes == [] && p7.deletes == [] &&
  bp.never ["o.Audit", "o.Hash"] && p7.never ["o.Audit", "o.Hash"]

/-! ### signinit -/

/-- InitKey(ctx, tok, keyName): the certificates and the key configuration come from the SAME key
    object that the token returned for keyName -/
def checkInitKey (f : FuncFacts) : Bool :=
  match f.params with
  | [(ctx, _), (tok, "token.Token"), (kn, "string")] =>
    f.assignsTo "key" == [tok ++ ".GetKey(" ++ ctx ++ ", " ++ kn ++ ")#0"] &&
    f.assignsTo "kconf" == ["key.Config()"] &&
    f.assignsTo "cert" == ["certloader.LoadTokenCertificates(key, kconf.X509Certificate, kconf.PgpCertificate, key.Certificate())#0"] &&
    f.returns.all (fun r => r == ["cert", "kconf", "nil"] || r.take 2 == ["nil", "nil"]) &&
    f.returns.contains ["cert", "kconf", "nil"] && f.never [kn, tok]
  | _ => false

/-- Init: the record is created from kconf.Name(), mod.Name and the hash parameter; the certificate
    attributes come from cert.Leaf / cert.PgpKey of the certificate that is returned for signing,
    guarded only by their presence; opts.Hash is that same hash and opts.Audit that same record -/
def checkInit (f : FuncFacts) : Bool :=
  match f.params with
  | [(ctx, _), (md, "*signers.Signer"), (tok, "token.Token"), (kn, "string"), (h, "crypto.Hash"), (_, _)] =>
    let ik := "InitKey(" ++ ctx ++ ", " ++ tok ++ ", " ++ kn ++ ")"
    f.assignsTo "cert" == [ik ++ "#0"] && f.assignsTo "kconf" == [ik ++ "#1"] &&
    f.callsTo "audit.New" == [⟨"audit.New", ["kconf.Name()", md ++ ".Name", h], []⟩] &&
    f.assignsTo "auditInfo" == ["audit.New(kconf.Name(), " ++ md ++ ".Name, " ++ h ++ ")"] &&
    f.callsTo "auditInfo.SetX509Cert" == [⟨"auditInfo.SetX509Cert", ["cert.Leaf"], ["cert.Leaf != nil"]⟩] &&
    f.callsTo "auditInfo.SetPgpCert" == [⟨"auditInfo.SetPgpCert", ["cert.PgpKey"], ["cert.PgpKey != nil"]⟩] &&
    f.fields.contains ("signers.SignOpts", "Hash", h) && f.fields.contains ("signers.SignOpts", "Audit", "auditInfo") &&
    (f.fields.filter (fun x => x.1 = "signers.SignOpts" && (x.2.1 = "Hash" || x.2.1 = "Audit"))).length == 2 &&
    (f.assignsTo "opts").length == 2 && (f.assignsTo "opts").drop 1 == ["opts.WithContext(" ++ ctx ++ ")"] &&
    f.returns.all (fun r => r == ["cert", "&opts", "nil"] || r.take 2 == ["nil", "nil"]) &&
    f.returns.contains ["cert", "&opts", "nil"] &&
    f.never [kn, h, md, tok, "cert.Leaf", "cert.PgpKey", "opts.Hash", "opts.Audit", "auditInfo.Attributes"] &&
    f.attrs == [] && f.deletes == []
  | _ => false

/-! ### entry points -/

/-- serveSign: key, file name, signature type and digest are read once from the query; the key
    that is authorised (GetKey + Allowed) is the key name handed to Init; the module whose Sign
    runs is the one handed to Init; cert and opts go from Init to Sign unchanged; client.ip,
    client.filename and the caller's identity are written to that opts.Audit, which is what
    PublishAudit receives -/
def checkServeSign (f : FuncFacts) : Bool :=
  let initC := "signinit.Init(request.Context(), mod, tok, keyName, hash, flags)"
  let m := "opts.Audit.Attributes"
  f.assignsTo "keyName" == ["query.Get(\"key\")"] &&
  f.assignsTo "filename" == ["query.Get(\"filename\")"] &&
  f.assignsTo "sigType" == ["query.Get(\"sigtype\")"] &&
  f.assignsTo "query" == ["request.URL.Query()"] &&
  f.assignsTo "mod" == ["signers.ByName(sigType)"] &&
  f.assignsTo "hash" == ["defaultHash", "x509tools.HashByName(digest)"] &&
  f.assignsTo "digest" == ["request.URL.Query().Get(\"digest\")"] &&
  f.callsTo "x509tools.HashByName" == [⟨"x509tools.HashByName", ["digest"], ["digest != \"\""]⟩] &&
  f.assignsTo "userInfo" == ["authmodel.RequestInfo(request)"] &&
  f.assignsTo "keyConf" == ["s.Config.GetKey(keyName)#0"] &&
  f.argsOf "userInfo.Allowed" == [["keyConf"]] &&
  f.assignsTo "tok" == ["s.tokens[keyConf.Token]"] &&
  f.assignsTo "cert" == [initC ++ "#0"] && f.assignsTo "opts" == [initC ++ "#1"] &&
  f.callsTo "mod.Sign" == [⟨"mod.Sign", ["counter", "cert", "*opts"], []⟩] &&
  f.assignsTo "counter" == ["readercounter.New(request.Body)"] &&
  f.callsTo "userInfo.AuditContext" == [⟨"userInfo.AuditContext", ["opts.Audit"], []⟩] &&
  f.argsOf "signinit.PublishAudit" == [["opts.Audit"]] &&
  f.attrs == [⟨m, "client.ip", "zhttp.StripPort(request.RemoteAddr)", []⟩,
              ⟨m, "client.filename", "filename", []⟩,
              ⟨m, "perf.size.in", "counter.N", []⟩,
              ⟨m, "perf.size.patch", "len(blob)", []⟩] &&
  f.never ["opts.Audit", "opts.Hash", "*opts", "request", "s", "s.Config", "request.URL", "request.RemoteAddr", "cert.Leaf", "cert.PgpKey"] &&
  f.deletes == []

/-- signCmd: the key named on the command line selects the token and is the name handed to Init;
    module, hash, cert and opts flow unchanged into mod.Sign; opts.Audit goes to PublishAudit;
    the only attribute the command itself writes is client.filename := argFile (the file that is
    opened, probed, transformed and patched), unconditionally and before mod.Sign -/
def checkSignCmd (f : FuncFacts) : Bool :=
  let initC := "signinit.Init(context.Background(), mod, token, argKeyName, hash, flags)"
  f.assignsTo "mod" == ["signers.ByFile(argFile, argSigType)#0"] &&
  f.assignsTo "hash" == ["shared.GetDigest()#0"] &&
  f.assignsTo "token" == ["openTokenByKey(argKeyName)#0"] &&
  f.assignsTo "cert" == [initC ++ "#0"] && f.assignsTo "opts" == [initC ++ "#1"] &&
  f.assignsTo "opts.Path" == ["argFile"] &&
  f.callsTo "mod.Sign" == [⟨"mod.Sign", ["stream", "cert", "*opts"], []⟩] &&
  f.argsOf "signinit.PublishAudit" == [["opts.Audit"]] &&
  f.never ["argKeyName", "argFile", "argSigType", "opts.Audit", "opts.Hash", "*opts", "cert.Leaf", "cert.PgpKey"] &&
  f.attrs == [⟨"opts.Audit.Attributes", "client.filename", "argFile", []⟩] && f.deletes == []

/-! ### signer modules -/

/-- `….Attributes`: the audit record's map (a dynamic key is not allowed there) -/
def isAuditMap (m : String) : Bool := m.toList.reverse.take 10 == "Attributes".toList.reverse

def certSpellings (c : String) : List String :=
  [c, c ++ ".Leaf", c ++ ".PgpKey", c ++ ".PgpKey.PrivateKey", c ++ ".Signer", c ++ ".Signer().Sign", c ++ ".Chain"]

/-- one registered signer: its Sign function takes (stream, cert, opts); every function of the
    package that sees the options neither names another digest nor reassigns opts / opts.Hash /
    opts.Audit / cert, deletes nothing, and writes no identity attribute; Sign itself passes
    opts.Hash and the certificate parameter on -/
def checkSigner (s : SignerFacts) : Bool :=
  s.name != "" &&
  (s.certTypes == "signers.CertTypeX509" || s.certTypes == "signers.CertTypePgp") &&
  (match s.funcs.find? (fun f => f.name = s.sign) with
   | none => false
   | some f =>
     match f.params with
     | [(_, "io.Reader"), (c, "*certloader.Certificate"), (o, "signers.SignOpts")] =>
       f.mentions.contains (o ++ ".Hash") && f.mentions.any (fun m => (certSpellings c).contains m) &&
       f.never [c, c ++ ".Leaf", c ++ ".PgpKey", c ++ ".PrivateKey"]
     | _ => false) &&
  s.funcs.all (fun f =>
    f.mentions.all (fun m => !otherHashSources.contains m) &&
    f.never ["opts", "opts.Hash", "opts.Audit", "opts.Audit.Attributes", "*opts"] &&
    f.attrs.all (fun a => !identityKeys.contains a.key &&
      (!isAuditMap a.map || a.key.toList.take 9 != "<dynamic:".toList)) &&
    f.deletes == [])

def namesOf (ss : List SignerFacts) : List String := ss.flatMap (fun s => s.name :: s.aliases)

/-- all signers pass, there are some, and no name or alias is claimed twice (ByName is a function
    of the name alone) -/
def checkSigners (ss : List SignerFacts) : Bool :=
  ss.length ≥ 10 && ss.all checkSigner && (namesOf ss).eraseDups.length == (namesOf ss).length

end Relic.AuditFields

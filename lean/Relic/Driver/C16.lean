/- line-protocol handlers for C16 (DER codec, pkcs7 attribute bytes, SignedData walk) -/
import Relic.Model.Der
namespace Relic.Driver.C16
open Relic Relic.Der

def showRes (r : Res String) : String :=
  match r with
  | .ok s => s!"ok {s}".trimAscii.toString
  | .err e => s!"err {e}"
  | .panic s => s!"panic {s}"
  | .diverge => "diverge"

def byteOfHex (s : String) : Option UInt8 :=
  match fromHex s with
  | some [b] => some b
  | _ => none

/-- attrs on the line: n, then per attribute: oid full tag bytes -/
def parseAttrs : Nat → List String → Option (List Attr × List String)
  | 0, rest => some ([], rest)
  | n + 1, o :: f :: t :: b :: rest => do
    let oid ← fromHex o
    let full ← fromHex f
    let tag ← byteOfHex t
    let bytes ← fromHex b
    let (l, rest') ← parseAttrs n rest
    pure (⟨oid, ⟨full, tag, bytes⟩⟩ :: l, rest')
  | _, _ => none

def parseAdds : Nat → List String → Option (List (Bytes × Bytes))
  | 0, _ => some []
  | n + 1, o :: v :: rest => do
    let oid ← fromHex o
    let val ← fromHex v
    let l ← parseAdds n rest
    pure ((oid, val) :: l)
  | _, _ => none

def showOpt : Option Bytes → String
  | none => "none"
  | some b => toHex b

def walkLine (bs : Bytes) (detach : Bool) : Res String := do
  let sd ← sdWalk bs
  let content ← ciContent sd.ci
  let ci ← (if detach then detachCI sd.ci else .ok sd.ci)
  let aabs ← (sortBytes sd.sis).mapM siAab
  let cont := if detach then "none" else showOpt content
  .ok s!"ci={toHex ci} content={cont} si={"|".intercalate (aabs.map showOpt)}"

def handle : List String → String
  | ["tskeep", _style, _k] => "ok same=1 reparse=ok"   -- raw nodes are values: a later reply cannot change an earlier token
  | ["enclen", n] =>
    match n.toNat? with
    | some n => s!"ok {toHex (encLen n)}"
    | none => "bad-op"
  | ["untlv", hex] =>
    match fromHex hex with
    | some bs => showRes ((untlv bs).bind fun (t, c, r) => .ok s!"{toHex [t]} {toHex c} {toHex r}")
    | none => "bad-op"
  | "setbytes" :: n :: rest =>
    match n.toNat? with
    | some n =>
      match parseAttrs n rest with
      | some (l, []) => showRes ((attrListBytes l).bind fun b => .ok (toHex b))
      | _ => "bad-op"
    | none => "bad-op"
  | "add" :: n :: rest =>
    match n.toNat? with
    | some n =>
      match parseAttrs n rest with
      | some (l, m :: rest') =>
        match m.toNat? with
        | some m =>
          match parseAdds m rest' with
          | some adds =>
            let l' := adds.foldl (fun acc p => appendAttr acc p.1 p.2) l
            showRes ((attrListBytes l').bind fun b => .ok (toHex b))
          | none => "bad-op"
        | none => "bad-op"
      | _ => "bad-op"
    | none => "bad-op"
  | ["aab", hex] =>
    match fromHex hex with
    | some raw => showRes ((authAttrBytes ⟨raw, []⟩).bind fun b => .ok (toHex b))
    | none => "bad-op"
  | "sign" :: _kind :: ct :: dg :: m :: rest =>
    match fromHex ct, fromHex dg, m.toNat? with
    | some ct, some dg, some m =>
      match parseAdds m rest with
      | some adds =>
        -- Go: authAttrs stays nil until the first Add
        let l : Option (List Attr) := if adds.isEmpty then none else some (adds.foldl (fun acc p => appendAttr acc p.1 p.2) [])
        match builderAttrs l ct dg with
        | some l' => showRes ((attrListBytes l').bind fun b => .ok s!"signed={toHex b} a0={toHex (emitAuthAttrs (some l'))}")
        | none => "ok signed=none a0=-"
      | none => "bad-op"
    | _, _, _ => "bad-op"
  | ["rt", _kind, hex, _ext] =>
    match fromHex hex with
    | some bs => showRes (walkLine bs false)
    | none => "bad-op"
  | ["rej", _kind, hex] =>
    match fromHex hex with
    | some bs => match walkLine bs false with
      | .ok _ => "ok"
      | _ => "err parse"
    | none => "bad-op"
  | ["detach", _kind, hex] =>
    match fromHex hex with
    | some bs => showRes (walkLine bs true)
    | none => "bad-op"
  | ["stamp", _kind, h0, h1, _tok, _ext] =>
    match fromHex h0, fromHex h1 with
    | some b0, some b1 => showRes (do let a ← walkLine b0 false; let b ← walkLine b1 false; .ok s!"{a} / {b}")
    | _, _ => "bad-op"
  | ["edit", op, _kind, hex, _aux, _ext] =>
    -- parse → (edit) → emit on the tree model; `embed-*` emit the parsed token inside a fresh signer info
    match fromHex hex with
    | some bs =>
      if op = "cat" then showRes (do let sd ← sdWalk bs; .ok s!"ci={toHex sd.ci}")
      else if op = "detach" then
        showRes (do let _ ← walkLine bs true; let f ← sdForest bs; .ok (toHex (emit (detachSD f))))
      else showRes (do let f ← sdForest bs; .ok (toHex (emit f)))
    | none => "bad-op"
  | _ => "bad-op"

end Relic.Driver.C16

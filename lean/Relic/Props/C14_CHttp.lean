/-
  C14 — the compression layer keeps no state between requests.
  (1) T-gen: the package-level variables of lib/compresshttp, re-extracted on every run
      (Relic.Generated.CompressHttp.vars), are exactly `prefs` (a map literal) and `ErrUnacceptableEncoding`
      (an error value); neither is assigned, has an element assigned, has its address taken or has a method
      called on it outside init — in particular there is no sync.Pool and no shared buffer.  The per-request
      object `responseCompressor` is in the shared-state inventory of C14 (Relic.Generated.SharedState) and is
      allow-listed there as per-request.
  (2) The model (Relic.Model.CompressHttp.middleware) is a function of the request alone; serving a batch in
      any order, or interleaved with any other requests, gives every request the answer it gets alone.
-/
import Relic.Generated.CompressHttp
import Relic.Proofs.CompressHttp
namespace Relic.Props.C14
open Relic Relic.CompressHttp

/-- **compresshttp_package_state_readonly** (generated). -/
theorem compresshttp_package_state_readonly :
    Generated.CompressHttp.vars = [("ErrUnacceptableEncoding", "errors.New", 0), ("prefs", "map[string]int", 0)] ∧
    (∀ v ∈ Generated.CompressHttp.vars, v.2.2 = 0) := by decide

/-- a server process: requests are answered one after the other from a list in arrival order -/
def serveAll (C : Codecs) (next : Handler) (pre : Option Nat) (arrivals : List Req) : List Resp :=
  arrivals.map (middleware C next pre)

/-- **codec_state_not_shared.**  For every pair of codecs, every handler and every arrival sequence:
    the answer to the request at position `i` is the answer that request gets when it is served alone,
    whatever was served before it (other codings, broken streams, refused requests) and whatever follows;
    reordering the arrivals reorders the answers and changes none. -/
theorem codec_state_not_shared (C : Codecs) (next : Handler) (pre : Option Nat) (before after : List Req) (r : Req) :
    (serveAll C next pre (before ++ r :: after))[before.length]? = some (middleware C next pre r) ∧
    (serveAll C next pre [r]) = [middleware C next pre r] ∧
    (∀ σ : List Req, σ.Perm (before ++ r :: after) →
        (serveAll C next pre σ).Perm (serveAll C next pre (before ++ r :: after))) := by
  refine ⟨?_, rfl, ?_⟩
  · simp [serveAll]
  · intro σ h
    exact h.map _

example : (serveAll toyCodecs (fun rd => match rd with | .complete b => [.write b] | .failed => [.header 400]) none
      [⟨["br".toList], [], ([1], .eof)⟩, ⟨[gzip], [gzip], ([1, 2, 3], .eof)⟩,
       ⟨[], [snappy], ([7], .eof)⟩])[2]?
    = some (middleware toyCodecs (fun rd => match rd with | .complete b => [.write b] | .failed => [.header 400]) none
        ⟨[], [snappy], ([7], .eof)⟩) :=
  (codec_state_not_shared toyCodecs _ none [⟨["br".toList], [], ([1], .eof)⟩, ⟨[gzip], [gzip], ([1, 2, 3], .eof)⟩]
    [] ⟨[], [snappy], ([7], .eof)⟩).1

end Relic.Props.C14

/-
  C01 — Every signature relic produces verifies.   DEB part, the full statement: archive layer (`deb_sign_then_verify`,
  C01_Deb.lean) + text layer (`checkSig_canonText_message`, Proofs/DebText.lean).
-/
import Relic.Props.C01_Deb
import Relic.Proofs.DebText
namespace Relic.Props.C01
open Relic Relic.Deb

/-- **deb_sign_then_verify_text** (= `deb_sign_then_verify_full`).  With a PGP layer that accepts the document it produced
    and hands back the canonical text (`clearsign`: trailing white space of every line dropped, lines joined by CRLF), hex
    digests of the right widths, member names that survive the text form (`plainName`; that they are non-empty follows from
    the `ar` reader) and are pairwise distinct, and a role that is read back as written: after `Sign` + patch application
    `Verify`'s outcome for the role is success.  The proof composes the archive layer `deb_sign_then_verify` with the text
    layer `Relic.Deb.checkSig_canonText_message`. -/
theorem deb_sign_then_verify_text : deb_sign_then_verify_full := by
  intro H1 H2 cs ctl pgp mt signer date role f o es h8 he ht hpn hdn hrr hH hsd hpgp hs hrb
  have hp : ∀ x ∈ es, isGpgName x.name = isGpgName (pathClean x.name) :=
    fun x hx => (plainName_spec x.name (hpn x hx)).2.2.2
  obtain ⟨hc, hrole⟩ := roleRegular_spec role hrr
  have main := (deb_sign_then_verify H1 H2 cs ctl pgp mt signer date role f o es h8 he ht hp hdn hc hs hrb).2.2.2.2
  rw [main, hpgp]
  simp only
  apply checkSig_canonText_message H1 H2 signer date role (linesOf es)
  · intro l _
    obtain ⟨a, b, c⟩ := hH l.body
    exact ⟨a, b, fun x hx => ⟨(c x hx).1, (c x hx).2.2.1⟩⟩
  · exact hsd
  · exact hrole
  · intro l hl
    obtain ⟨e, hee, rfl⟩ := linesOf_mem es l hl
    obtain ⟨a, b, c, _⟩ := plainName_spec e.name (hpn e hee)
    have hne : e.name ≠ [] := entries_names_ne f es .eof he e hee
    refine ⟨hne, fun x hx => (a x hx).1, b, c, ?_⟩
    intro h13
    exact (a 13 (List.mem_of_getLast? h13)).2 rfl
  · rw [linesOf_names es hp]
    apply pairwise_of_eraseDups
    simpa [distinctNames] using hdn

set_option maxRecDepth 100000 in
/-- non-vacuity: every hypothesis of the full statement holds for the signed sample archive (two digested members and an old
    signature member), role "builder", with stand-ins for the hashes that depend on the stream and a transparent PGP layer;
    the theorem then gives the verdict `ok` for the role. -/
example :
    let H1 : Bytes → Bytes := fun b => List.replicate 32 (48 + UInt8.ofNat (b.length % 10))
    let H2 : Bytes → Bytes := fun b => List.replicate 40 (97 + UInt8.ofNat (b.length % 6))
    let cs : Bytes → Bytes := fun m => m
    let pgp : Bytes → Option Bytes := fun s => some (canonText s)
    let role : Bytes := [98, 117, 105, 108, 100, 101, 114]
    let f := C03.sampleSigned
    let es := (entries f).1
    ∃ o, 8 ≤ f.length ∧ entries f = (es, .eof) ∧ Tight (f.drop 8) es ∧
      (∀ x ∈ es, plainName x.name = true) ∧ distinctNames es = true ∧ roleRegular role = true ∧
      (∀ b, (H1 b).length = 32 ∧ (H2 b).length = 40 ∧ ∀ c ∈ H1 b ++ H2 b, c ≠ 32 ∧ c ≠ 9 ∧ c ≠ 10 ∧ c ≠ 13) ∧
      (∀ c ∈ ([65] : Bytes) ++ [64], c ≠ 10) ∧ (∀ m, pgp (cs m) = some (canonText m)) ∧
      sign H1 H2 cs (fun _ _ => true) [49] [65] [64] role f = .ok o ∧
      ReadsBack (gpg ++ role) [49] (cs (message H1 H2 [65] [64] role (linesOf es))) ∧
      (linesOf es).length = 2 ∧ es.length = 3 ∧
      checkRole pgp (digestsOf H1 H2 (entries (C03.signedBytes f o)).1) (sigsOf (entries (C03.signedBytes f o)).1) role = .ok () := by
  intro H1 H2 cs pgp role f es
  have ht := C03.tight_of_tightB f (by decide)
  have he : entries f = (es, .eof) := Prod.ext rfl ht.2.1
  have hpn : ∀ x ∈ es, plainName x.name = true := by decide
  have hdn : distinctNames es = true := by decide
  have hrr : roleRegular role = true := by decide
  have hH : ∀ b, (H1 b).length = 32 ∧ (H2 b).length = 40 ∧ ∀ c ∈ H1 b ++ H2 b, c ≠ 32 ∧ c ≠ 9 ∧ c ≠ 10 ∧ c ≠ 13 := by
    intro b
    refine ⟨by simp [H1], by simp [H2], ?_⟩
    intro c hc
    simp only [H1, H2, List.mem_append, List.mem_replicate] at hc
    rcases hc with ⟨_, rfl⟩ | ⟨_, rfl⟩
    · have h : b.length % 10 < 10 := by omega
      generalize b.length % 10 = k at h
      have : k = 0 ∨ k = 1 ∨ k = 2 ∨ k = 3 ∨ k = 4 ∨ k = 5 ∨ k = 6 ∨ k = 7 ∨ k = 8 ∨ k = 9 := by omega
      rcases this with h | h | h | h | h | h | h | h | h | h <;> subst h <;> decide
    · have h : b.length % 6 < 6 := by omega
      generalize b.length % 6 = k at h
      have : k = 0 ∨ k = 1 ∨ k = 2 ∨ k = 3 ∨ k = 4 ∨ k = 5 := by omega
      rcases this with h | h | h | h | h | h <;> subst h <;> decide
  have hsd : ∀ c ∈ ([65] : Bytes) ++ [64], c ≠ 10 := by decide
  have hpgp : ∀ m, pgp (cs m) = some (canonText m) := fun _ => rfl
  have hrb : ReadsBack (gpg ++ role) [49] (cs (message H1 H2 [65] [64] role (linesOf es))) :=
    ⟨by decide, by decide, by decide⟩
  have hs : sign H1 H2 cs (fun _ _ => true) [49] [65] [64] role f =
      .ok (signOf H1 H2 cs [49] [65] [64] role f.length es) := by decide
  refine ⟨_, ht.1, he, ht.2.2, hpn, hdn, hrr, hH, hsd, hpgp, hs, hrb, by decide, by decide, ?_⟩
  exact deb_sign_then_verify_text H1 H2 cs (fun _ _ => true) pgp [49] [65] [64] role f _ es ht.1 he ht.2.2 hpn hdn hrr hH hsd hpgp
    hs hrb

end Relic.Props.C01

/-
  C08 — Re-signing.   OpenPGP part: clear-signing a document that already is a cleartext signature (relic's own output, a
  Debian InRelease file) wraps it: the inner document – armor header lines, dash-escaped text, signature block – becomes
  the text of the outer one; its lines starting with '-' are escaped once more and come back by one unescape.
-/
import Relic.Props.C03_Pgp
namespace Relic.Props.C08
open Relic Relic.Pgp Relic.Spec.OpenPgp

/-- **pgp_reclearsign_covers_inner.** For every document `doc` (in particular `clearSign h t a`, relic's own output): the
    outer signature is computed over the lines of `doc` without trailing whitespace joined by CR LF, and dash-unescaping
    the outer text gives exactly those lines – every line of the inner document, including its "- " escapes, its
    BEGIN/END armor lines and its signature block, is recovered (nested escapes are peeled one level per unwrap). -/
theorem pgp_reclearsign_covers_inner (doc : Bytes) :
    hashed doc = joinCRLF ((rawTokens doc).map stripWs) ∧
    (C01.writtenLines doc).map dashUnescape = (rawTokens doc).map stripWs := by
  refine ⟨?_, (C03.pgp_clearsign_payload_preserved doc).1⟩
  unfold hashed EscSt.init
  rw [esc_spec, hashLines_true]

/-- inner = relic's output for the text "-a" with a dummy signature block; outer lines, unescaped, are the inner lines -/
example :
    (C01.writtenLines (clearSign [88] [45, 97] (Pgp.sigHeader ++ [10, 120]))).map dashUnescape =
      [Pgp.beginSigned, [72, 97, 115, 104, 58, 32, 88], [], [45, 32, 45, 97], Pgp.sigHeader, [120]] := by decide

/-- unwrapping is stable: the recovered inner document (lines joined by CR LF, as `VerifyClearSign` hands it out) parses to
    the same text lines and the same signed octets as the inner document as written.  Statement only; exercised by the
    `reclear` ops (1..4 levels, alternating ClearSign and DetachClearSign+MergeClearSign, Debian InRelease as innermost). -/
def pgp_reclearsign_unwraps_full : Prop :=
  ∀ (h t a : Bytes) c, parseCleartext (clearSign h t a) = some c →
    ∃ c', parseCleartext (hashed (clearSign h t a)) = some c' ∧ c'.text = c.text ∧ c'.hashes = c.hashes

end Relic.Props.C08

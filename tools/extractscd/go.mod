module extractscd

go 1.22

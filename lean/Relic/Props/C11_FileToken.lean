/-
  C11 (and C07's anchor token/filetoken/filetoken.go) — the file token: `GetKey` on every kind of key file.

  The library parsers are abstracted (Relic.FileToken.Content says what they report); the theorems are about relic's own code around
  them.

    * `file_getkey_total` — (the code as it is, commit 3202f4d) for every key file, configuration and PasswordGetter (nil or not),
      `filetoken.GetKey` returns a key or an error: no panic, no hang.  `file_getkey_unusable_is_error` names the four errors.
    * `file_getkey_panics_iff_orig` — BEFORE 3202f4d it panicked EXACTLY in four cases (findings F-FILE-1 … F-FILE-4, fixed), each
      confirmed on the unrepaired code by the `ftok` ops:
        1. an EMPTY key file: `blob[0] == asn1Magic` in ParseAnyPrivateKey (index out of range);
        2. an ENCRYPTED PGP private key and no PasswordGetter (what the server passes for every token): `prompt.GetPasswd` on a nil
           interface — the PEM branch checked `prompt == nil`, the PGP branch did not;
        3. `ispkcs12: true` and no PasswordGetter: ParsePKCS12 started with `prompt.GetPasswd` (even for an unencrypted bundle);
        4. a PGP private key whose Go type is not a crypto.Signer (EdDSA with ProtonMail/go-crypto, DSA, ElGamal):
           `privateKey.(crypto.Signer)` without the comma-ok form.
    * `file_key_prompts_bounded` — the passphrase loops end with the getter (both versions).
-/
import Relic.Model.FileToken
namespace Relic.Props.C11
open Relic Relic.Assuan Relic.FileToken

def ftokConf (c : Content) (p12 : Bool := false) : KeyConf := { keyFile := true, exists_ := true, isPkcs12 := p12, content := c }

/-! ### the code as it is -/

/-- an outcome that is a value or an error -/
def ftokOkOrErr {α} : Out α → Bool
  | .ok _ => true
  | .fail _ => true
  | _ => false

theorem parseAny_total (c : Content) (g : Getter) : ftokOkOrErr (parseAny c g).2 = true := by
  unfold parseAny parseAnyWith
  cases c with
  | empty => rfl
  | junk => rfl
  | der p => cases p <;> rfl
  | p12 v pw => rfl
  | pem kb enc pw p =>
    cases kb <;> cases enc <;> cases p <;> simp [ftokOkOrErr]
    all_goals (cases g with
      | none => rfl
      | some answers => cases h : askLoop pw answers with | mk n r => cases r <;> simp [h, ftokOkOrErr])
  | pgp rd hp2 enc pw sg =>
    cases rd <;> cases hp2 <;> cases enc <;> simp [ftokOkOrErr]
    all_goals (cases g with
      | none => rfl
      | some answers => cases h : askLoop pw answers with | mk n r => cases r <;> simp [h, ftokOkOrErr])

/-- **file_getkey_total**: every outcome of `filetoken.GetKey` is a key or an error -/
theorem file_getkey_total (k : KeyConf) (g : Getter) : ftokOkOrErr (getKey k g).2 = true := by
  unfold getKey getKeyWith
  cases hk : k.keyFile <;> simp [ftokOkOrErr]
  cases he : k.exists_ <;> simp [ftokOkOrErr]
  cases hp : k.isPkcs12 <;> simp
  · have ht := parseAny_total k.content g
    unfold parseAny at ht
    generalize parseAnyWith true k.content g = x at ht ⊢
    obtain ⟨n, o⟩ := x
    cases o with
    | ok s => cases s <;> simp [ftokOkOrErr]
    | fail e => simp [ftokOkOrErr]
    | panic s => simp [ftokOkOrErr] at ht
    | block => simp [ftokOkOrErr] at ht
  · cases g with
    | none => simp [ftokOkOrErr]
    | some answers =>
      simp only
      cases hc : k.content with
      | p12 v pw =>
        cases v <;> simp [ftokOkOrErr]
        cases h : p12Loop pw false answers with | mk n r => cases r <;> simp [ftokOkOrErr]
      | empty => simp [ftokOkOrErr]
      | junk => simp [ftokOkOrErr]
      | der p => simp [ftokOkOrErr]
      | pem a b c d => simp [ftokOkOrErr]
      | pgp a b c d e => simp [ftokOkOrErr]

theorem file_getkey_no_panic (k : KeyConf) (g : Getter) : (getKey k g).2.isPanic = false ∧ (getKey k g).2.isBlock = false := by
  have := file_getkey_total k g
  cases h : (getKey k g).2 <;> simp [h, ftokOkOrErr, Out.isPanic, Out.isBlock] at this ⊢

/-- **file_getkey_unusable_is_error**: the four unusable key files, each with its error; no passphrase is asked for in any of them -/
theorem file_getkey_unusable_is_error (g : Getter) (pw : Bytes) (signer : Bool) (c : Content) :
    getKey (ftokConf .empty) g = (0, .fail (.msg "format")) ∧
    getKey (ftokConf (.pgp true true true pw signer)) none = (0, .fail (.msg "noprompt")) ∧
    getKey (ftokConf c true) none = (0, .fail (.msg "p12noprompt")) ∧
    getKey (ftokConf (.pgp true true false [] false)) g = (0, .fail (.msg "notsigner")) := by
  refine ⟨?_, rfl, rfl, ?_⟩ <;> cases g <;> rfl
/-- the neighbouring cases still work: the encrypted PGP key with a getter, the PEM branch's own check -/
example : (getKey (ftokConf (.pgp true true true (ascii "secret") true)) (some [ascii "wrong", ascii "secret"])) = (2, .ok ()) := by decide +kernel
example : (getKey (ftokConf (.pem true true (ascii "secret") true)) none).2 = .fail (.msg "noprompt") := rfl
/-- a non-Signer key behind a passphrase: asked once, then the error -/
example : (getKey (ftokConf (.pgp true true true (ascii "secret") false)) (some [ascii "secret"])) = (1, .fail (.msg "notsigner")) := by decide +kernel

/-! ### the code before 3202f4d -/

/-- when the original GetKey panicked, as a decidable condition on the description of the key file and the getter -/
def ftokPanics (k : KeyConf) (g : Getter) : Bool :=
  k.keyFile && k.exists_ &&
  (if k.isPkcs12 then g.isNone else
   match k.content with
   | .empty => true
   | .pgp true true false _ signer => !signer
   | .pgp true true true password signer =>
     match g with
     | none => true
     | some answers => (askLoop password answers).2 && !signer
   | _ => false)

/-- **file_getkey_panics_iff_orig** -/
theorem file_getkey_panics_iff_orig (k : KeyConf) (g : Getter) : (getKeyOrig k g).2.isPanic = ftokPanics k g := by
  unfold getKeyOrig getKeyWith ftokPanics
  cases hk : k.keyFile <;> simp [Out.isPanic]
  cases he : k.exists_ <;> simp [Out.isPanic]
  cases hp : k.isPkcs12 <;> simp
  · -- not PKCS#12
    cases hc : k.content with
    | empty => simp [parseAnyWith, Out.isPanic]
    | junk => simp [parseAnyWith, Out.isPanic]
    | der p => cases p <;> simp [parseAnyWith, Out.isPanic]
    | p12 v pw => simp [parseAnyWith, Out.isPanic]
    | pem kb enc pw p =>
      cases kb <;> cases enc <;> cases p <;> simp [parseAnyWith, Out.isPanic]
      all_goals (cases g with
        | none => simp [Out.isPanic]
        | some answers => cases h : askLoop pw answers with | mk n r => cases r <;> simp [h, Out.isPanic])
    | pgp rd hp2 enc pw sg =>
      cases rd <;> cases hp2 <;> cases enc <;> cases sg <;> simp [parseAnyWith, Out.isPanic]
      all_goals (cases g with
        | none => simp [Out.isPanic]
        | some answers => cases h : askLoop pw answers with | mk n r => cases r <;> simp [h, Out.isPanic])
  · -- PKCS#12
    cases g with
    | none => simp [Out.isPanic]
    | some answers =>
      simp only [Option.isNone_some]
      cases hc : k.content with
      | p12 v pw =>
        cases v <;> simp [Out.isPanic]
        cases h : p12Loop pw false answers with | mk n r => cases r <;> simp [h, Out.isPanic]
      | empty => simp [Out.isPanic]
      | junk => simp [Out.isPanic]
      | der p => simp [Out.isPanic]
      | pem a b c d => simp [Out.isPanic]
      | pgp a b c d e => simp [Out.isPanic]

/-- the statement for the code BEFORE 3202f4d -/
def file_getkey_total_orig_full : Prop := ∀ (k : KeyConf) (g : Getter), (getKeyOrig k g).2.isPanic = false

/-- F-FILE-1: the empty key file -/
theorem file_empty_keyfile_panics_orig (g : Getter) : (getKeyOrig (ftokConf .empty) g).2 = .panic "certloader.ParseAnyPrivateKey:blob[0]" := by
  cases g <;> rfl
/-- F-FILE-2: an encrypted PGP key without a PasswordGetter (the server's case) -/
theorem file_encrypted_pgp_nil_prompt_panics_orig (pw : Bytes) (signer : Bool) :
    (getKeyOrig (ftokConf (.pgp true true true pw signer)) none).2 = .panic "certloader.parsePgpPrivateKey:prompt.GetPasswd (nil prompt)" := rfl
/-- F-FILE-3: PKCS#12 without a PasswordGetter -/
theorem file_pkcs12_nil_prompt_panics_orig (c : Content) :
    (getKeyOrig (ftokConf c true) none).2 = .panic "certloader.ParsePKCS12:prompt.GetPasswd (nil prompt)" := rfl
/-- F-FILE-4: a PGP key that is not a crypto.Signer -/
theorem file_non_signer_key_panics_orig (g : Getter) :
    (getKeyOrig (ftokConf (.pgp true true false [] false)) g).2 = .panic "filetoken.GetKey:privateKey.(crypto.Signer)" := by cases g <;> rfl

theorem file_getkey_total_orig_full_false : ¬ file_getkey_total_orig_full := by
  intro h
  have := h (ftokConf .empty) none
  rw [file_empty_keyfile_panics_orig] at this
  simp [Out.isPanic] at this

/-- the two versions differ ONLY where the original panicked -/
theorem file_getkey_fix_conservative (k : KeyConf) (g : Getter) (h : ftokPanics k g = false) : getKey k g = getKeyOrig k g := by
  unfold getKey getKeyOrig getKeyWith
  unfold ftokPanics at h
  cases hk : k.keyFile
  · simp
  cases he : k.exists_
  · simp
  cases hp : k.isPkcs12
  · simp only [hk, he, hp, Bool.and_self, Bool.true_and, Bool.false_eq_true, if_false] at h
    simp only [Bool.not_true, Bool.false_eq_true, if_false]
    cases hc : k.content with
    | empty => simp [hc] at h
    | junk => rfl
    | der p => cases p <;> rfl
    | p12 v pw => rfl
    | pem kb enc pw p =>
      cases kb
      · rfl
      cases enc
      · cases p <;> rfl
      cases g with
      | none => rfl
      | some answers =>
        simp only [parseAnyWith, Bool.not_true, Bool.false_eq_true, if_false]
        cases ha : askLoop pw answers with
        | mk n r =>
          cases r
          · rfl
          · cases p <;> rfl
    | pgp rd hp2 enc pw sg =>
      rw [hc] at h
      cases rd
      · rfl
      cases hp2
      · rfl
      cases enc
      · cases sg
        · simp at h
        · rfl
      · cases g with
        | none => simp at h
        | some answers =>
          simp only [parseAnyWith, Bool.not_true, Bool.false_eq_true, if_false]
          cases ha : askLoop pw answers with
          | mk n r =>
            cases r
            · rfl
            · cases sg
              · simp [ha] at h
              · rfl
  · simp only [hk, he, hp, Bool.and_self, Bool.true_and, if_true] at h
    cases g with
    | none => simp at h
    | some answers => rfl

/-! ### the passphrase loops end with the getter (both versions) -/

theorem askLoop_bounded (pw : Bytes) : ∀ (answers : List Bytes), (askLoop pw answers).1 ≤ answers.length + 1
  | [] => by simp [askLoop]
  | a :: rest => by
    unfold askLoop
    by_cases h1 : a.isEmpty
    · simp [h1]
    · by_cases h2 : a = pw
      · subst h2; simp [h1]
      · have := askLoop_bounded pw rest
        simp only [h1, h2, Bool.false_eq_true, if_false, List.length_cons]
        omega

theorem p12Loop_bounded (pw : Bytes) : ∀ (answers : List Bytes) (t : Bool), (p12Loop pw t answers).1 ≤ answers.length + 2
  | [], t => by
    unfold p12Loop
    cases t with
    | true => simp
    | false => by_cases h : pw.isEmpty <;> simp [h]
  | a :: rest, t => by
    unfold p12Loop
    by_cases h1 : a.isEmpty
    · simp only [h1, if_true]
      cases t with
      | true => simp
      | false =>
        by_cases h : pw.isEmpty
        · simp [h]
        · have := p12Loop_bounded pw rest true
          simp only [h, Bool.false_eq_true, if_false, List.length_cons]
          omega
    · by_cases h2 : a = pw
      · subst h2; simp [h1]
      · have := p12Loop_bounded pw rest t
        simp only [h1, h2, Bool.false_eq_true, if_false, List.length_cons]
        omega

theorem parseAny_prompts_bounded (fx : Bool) (c : Content) (answers : List Bytes) : (parseAnyWith fx c (some answers)).1 ≤ answers.length + 1 := by
  cases c with
  | empty => cases fx <;> simp [parseAnyWith]
  | junk => simp [parseAnyWith]
  | der p => simp [parseAnyWith]
  | p12 v pw => simp [parseAnyWith]
  | pem kb enc pw p =>
    have hb := askLoop_bounded pw answers
    cases kb <;> cases enc <;> simp [parseAnyWith]
    generalize askLoop pw answers = x at hb ⊢
    obtain ⟨n, r⟩ := x
    cases r <;> simp at hb ⊢ <;> omega
  | pgp rd hp2 enc pw sg =>
    have hb := askLoop_bounded pw answers
    cases rd <;> cases hp2 <;> cases enc <;> simp [parseAnyWith]
    generalize askLoop pw answers = x at hb ⊢
    obtain ⟨n, r⟩ := x
    cases r <;> simp at hb ⊢ <;> omega

/-- **file_key_prompts_bounded**: at most one GetPasswd per answer supplied, plus the one that returns "" (PKCS#12: plus the second "") -/
theorem file_key_prompts_bounded (fx : Bool) (k : KeyConf) (answers : List Bytes) : (getKeyWith fx k (some answers)).1 ≤ answers.length + 2 := by
  unfold getKeyWith
  cases hk : k.keyFile <;> simp
  cases he : k.exists_ <;> simp
  cases hp : k.isPkcs12 <;> simp
  · have hb := parseAny_prompts_bounded fx k.content answers
    generalize parseAnyWith fx k.content (some answers) = x at hb ⊢
    obtain ⟨n, o⟩ := x
    cases o <;> simp at hb ⊢ <;> omega
  · cases hc : k.content with
    | p12 v pw =>
      cases v <;> simp
      have hb := p12Loop_bounded pw answers false
      generalize p12Loop pw false answers = x at hb ⊢
      obtain ⟨n, r⟩ := x
      cases r <;> simp at hb ⊢ <;> omega
    | empty => simp
    | junk => simp
    | der p => simp
    | pem a b c d => simp
    | pgp a b c d e => simp

/-- without a getter nothing is ever asked -/
theorem file_no_getter_no_prompt (fx : Bool) (k : KeyConf) : (getKeyWith fx k none).1 = 0 := by
  unfold getKeyWith
  cases hk : k.keyFile <;> simp
  cases he : k.exists_ <;> simp
  cases hp : k.isPkcs12 <;> simp
  · cases hc : k.content with
    | empty => cases fx <;> simp [parseAnyWith]
    | junk => simp [parseAnyWith]
    | der p => cases p <;> simp [parseAnyWith]
    | p12 v pw => simp [parseAnyWith]
    | pem kb enc pw p => cases kb <;> cases enc <;> cases p <;> simp [parseAnyWith]
    | pgp rd hp2 enc pw sg => cases rd <;> cases hp2 <;> cases enc <;> cases sg <;> cases fx <;> simp [parseAnyWith]
  · cases fx <;> simp

end Relic.Props.C11

/-
  Relic.Model.Server — abstract model of the relic signing server under concurrent requests
  (property C14).  Core Lean only.

  Shared state (what `tools/extractshared` inventories in the Go source, see `knownShared` below):
    * key cache        `tokencache.Cache.keys`  (one mutex `c.mu`; the wrapped token's GetKey, i.e. the
                       rate limiter's `Wait`, runs *inside* that critical section)
    * limiter tokens   `rate.Limiter` of `tokencache.RateLimited`
    * health counters  `server.healthStatus`, `server.healthLastPing` under `server.healthMu`
    * timestamper      `signinit.ts` under `signinit.mu`, created lazily
    * audit log        the O_APPEND file: one atomic append per successful sign (C06 proves atomicity)
    * metrics          prometheus counters (commutative increments)
    * shutdown flag    `http.Server` in shutdown (contract assumed)
  Everything else a handler touches (parsed query, flags, `SignOpts`, `audit.Info`, body reader,
  response writer) is that request's own `Local` record.

  A request is a list of steps.  Each step is either local or ONE critical section on ONE shared
  component (`getKey` additionally consumes a limiter token inside the cache mutex: the fixed nesting
  cache-mutex → limiter wait).  An execution is any merge (`Merges`) of the step lists of all
  threads; "environment" threads (clock ticks = cache expiry, limiter refill, iterations of the
  health-check loop, the shutdown) are threads like any other.

  Over-approximation: in `exec` a step that needs a limiter token runs even when none is left
  (`limiter - 1` saturates).  The set of executions quantified over by `isolation` is therefore a
  superset of the real one, which is sound for a universally quantified statement.  Blocking is
  treated separately (`Enabled`, `deadlock_free` in Props/C14).
-/
namespace Relic.Server

abbrev Name := Nat
abbrev KeyId := Nat
abbrev TsId := Nat
abbrev Sig := Nat

/-- fixed configuration and the functions the model is parametric in (token contents, the signature
    primitive, the hash) -/
structure World where
  tokenKey : Name → Option KeyId          -- what the underlying token returns for a key name
  tsNew : Option TsId                      -- result of `newTimestamper()` (the same every time: it reads the config)
  expiry : Nat                             -- `Cache.expiry`
  maxFail : Nat                            -- `TokenCheckFailures`
  staleAfter : Nat                         -- 3 * healthCheckInterval
  disabled : Bool                          -- `Config.Server.Disabled`
  sign : KeyId → Nat → Nat → Option TsId → Sig   -- key, digest, options(sigtype+flags), timestamper
  digest : Nat → Nat → Nat                 -- hash algorithm, body
  listing : Nat → List Name                -- client → key names it may see (static configuration)

structure Entry where
  key : KeyId
  expires : Nat
  deriving DecidableEq, Repr

/-- one line of the audit log -/
structure Record where
  key : Name
  opts : Nat
  hash : Nat
  file : Nat
  deriving DecidableEq, Repr

structure State where
  now : Nat
  cache : Name → Option Entry
  limiter : Nat
  hStatus : Nat
  hPing : Nat
  ts : Option TsId
  audit : List Record
  metrics : Nat
  shutdown : Bool

def upd {α : Type} (f : Nat → α) (i : Nat) (v : α) : Nat → α := fun j => if j = i then v else f j

@[simp] theorem upd_same {α : Type} (f : Nat → α) (i : Nat) (v : α) : upd f i v i = v := by simp [upd]
theorem upd_other {α : Type} (f : Nat → α) (i j : Nat) (v : α) (h : j ≠ i) : upd f i v j = f j := by simp [upd, h]

/-- `Inv`: every cache entry maps a name to the key the token has *for that name*; the timestamper,
    once created, is the configured one; the health fields are consistent. -/
def Inv (w : World) (s : State) : Prop :=
  (∀ n e, s.cache n = some e → w.tokenKey n = some e.key) ∧
  (∀ t, s.ts = some t → w.tsNew = some t) ∧
  s.hStatus ≤ w.maxFail ∧ s.hPing ≤ s.now

inductive Step
  | accept            -- connection accepted?  observes the shutdown flag
  | parse             -- local: query, flags, authorisation against static config
  | getKey            -- critical section: cache mutex (→ limiter wait → token)
  | metric            -- commutative counter increment
  | getTs             -- critical section: timestamper mutex
  | sign              -- limiter wait, then local: signature over THIS request's digest; builds its audit.Info
  | audit             -- one atomic append of this request's record
  | readHealth        -- critical section: healthMu
  | respond           -- local: write the response
  | tick              -- environment: time passes (cache entries expire)
  | refill            -- environment: limiter refill
  | healthCheck (ok : Bool)  -- environment: one iteration of healthCheck (writes under healthMu)
  | shutdown          -- environment: http.Server.Shutdown begins
  deriving DecidableEq, Repr

inductive Kind | sign | keyInfo | listKeys | health | env
  deriving DecidableEq, Repr

structure Req where
  kind : Kind
  client : Nat := 0
  key : Name := 0
  opts : Nat := 0        -- signature type and flags
  hash : Nat := 0
  body : Nat := 0
  file : Nat := 0        -- client.filename
  wantTs : Bool := false
  valid : Bool := true   -- passes the checks that depend only on the request and static configuration
  env : List Step := []  -- program of an environment thread (kind = env)
  deriving DecidableEq, Repr

inductive Resp
  | refused
  | error (code : Nat)
  | signed (sig : Sig)
  | keyInfo (k : KeyId)
  | keys (ks : List Name)
  | health (ok : Bool)
  deriving DecidableEq, Repr

/-- per-request state: nothing in here is reachable from another request -/
structure Local where
  refused : Bool := false
  failed : Option Nat := none
  key : Option KeyId := none
  ts : Option TsId := none
  sig : Option Sig := none
  info : Option Record := none
  hv : Bool := false
  resp : Option Resp := none
  deriving DecidableEq, Repr

def isEnvStep : Step → Bool
  | .tick | .refill | .healthCheck _ | .shutdown => true
  | _ => false

def prog (r : Req) : List Step :=
  match r.kind with
  | .sign => [.accept, .parse, .getKey, .metric, .getTs, .sign, .audit, .respond]
  | .keyInfo => [.accept, .parse, .getKey, .metric, .respond]
  | .listKeys => [.accept, .parse, .respond]
  | .health => [.accept, .readHealth, .respond]
  | .env => r.env.filter isEnvStep

/-- `(*Server).Healthy` -/
def healthy (w : World) (s : State) : Bool :=
  !w.disabled && !(decide (s.now - s.hPing > w.staleAfter)) && decide (s.hStatus > 0)

/-- steps whose result depends on *when* they run -/
def stateDep : Step → Bool
  | .accept | .readHealth => true
  | _ => false

def observe (w : World) (st : Step) (s : State) : Bool :=
  match st with
  | .accept => s.shutdown
  | .readHealth => healthy w s
  | _ => false

inductive View
  | unit
  | key (k : Option KeyId)
  | ts (t : Option TsId)
  | flag (b : Bool)
  deriving DecidableEq, Repr

/-- `Cache.GetKey`, hit: an unexpired entry under the requested name -/
def cachedKey (r : Req) (s : State) : Option KeyId :=
  match s.cache r.key with
  | some e => if s.now < e.expires then some e.key else none
  | none => none

/-- `Cache.GetKey`, miss: limiter wait, fetch from the token, store under the requested name -/
def cacheMiss (w : World) (r : Req) (s : State) : State :=
  { s with
    limiter := s.limiter - 1
    cache := if w.expiry > 0 then
               (match w.tokenKey r.key with
                | some k => upd s.cache r.key (some ⟨k, s.now + w.expiry⟩)
                | none => s.cache)
             else s.cache }

/-- what a step reads from the shared state -/
def view (w : World) (r : Req) (st : Step) (s : State) : View :=
  match st with
  | .accept => .flag s.shutdown
  | .readHealth => .flag (healthy w s)
  | .getKey =>
    .key (match cachedKey r s with | some k => some k | none => w.tokenKey r.key)
  | .getTs => .ts (match s.ts with | some t => some t | none => w.tsNew)
  | _ => .unit

/-- what the same step reads in any state satisfying `Inv` (state-independent steps) -/
def canon (w : World) (r : Req) (st : Step) : View :=
  match st with
  | .getKey => .key (w.tokenKey r.key)
  | .getTs => .ts w.tsNew
  | .accept | .readHealth => .flag false
  | _ => .unit

/-- a request that was refused or has failed performs nothing but `respond` -/
def skip (st : Step) (l : Local) : Bool :=
  st != .respond && (l.refused || l.failed.isSome)

/-- effect of a step on the shared state (`l` = the acting request's own record) -/
def stepShared (w : World) (r : Req) (l : Local) (st : Step) (s : State) : State :=
  match st with
  | .getKey => (match cachedKey r s with | some _ => s | none => cacheMiss w r s)
  | .metric => { s with metrics := s.metrics + 1 }
  | .getTs => if r.wantTs then { s with ts := (match s.ts with | some t => some t | none => w.tsNew) } else s
  | .sign => { s with limiter := s.limiter - 1 }
  | .audit => { s with audit := s.audit ++ l.info.toList }
  | .tick => { s with now := s.now + 1 }
  | .refill => { s with limiter := s.limiter + 1 }
  | .healthCheck ok => { s with hStatus := if ok then w.maxFail else s.hStatus - 1, hPing := s.now }
  | .shutdown => { s with shutdown := true }
  | _ => s

def response (w : World) (r : Req) (l : Local) : Resp :=
  if l.refused then .refused else
  match l.failed with
  | some c => .error c
  | none =>
    match r.kind with
    | .sign => (match l.sig with | some sg => .signed sg | none => .error 500)
    | .keyInfo => (match l.key with | some k => .keyInfo k | none => .error 500)
    | .listKeys => .keys (w.listing r.client)
    | .health => .health l.hv
    | .env => .error 0

/-- effect of a step on the acting request's own record, given what it read -/
def stepLocal (w : World) (r : Req) (st : Step) (v : View) (l : Local) : Local :=
  match st with
  | .accept => (match v with | .flag true => { l with refused := true } | _ => l)
  | .parse => if r.valid then l else { l with failed := some 400 }
  | .getKey => (match v with | .key (some k) => { l with key := some k } | _ => { l with failed := some 500 })
  | .getTs =>
    if r.wantTs then (match v with | .ts (some t) => { l with ts := some t } | _ => { l with failed := some 500 })
    else l
  | .sign =>
    (match l.key with
     | some k => { l with sig := some (w.sign k (w.digest r.hash r.body) r.opts l.ts),
                          info := some ⟨r.key, r.opts, r.hash, r.file⟩ }
     | none => { l with failed := some 500 })
  | .readHealth => (match v with | .flag b => { l with hv := b } | _ => l)
  | .respond => { l with resp := some (response w r l) }
  | _ => l

def stepL (w : World) (r : Req) (st : Step) (v : View) (l : Local) : Local :=
  if skip st l then l else stepLocal w r st v l

/-- one step of request `r` -/
def exec (w : World) (r : Req) (st : Step) (s : State) (l : Local) : State × Local :=
  (if skip st l then s else stepShared w r l st s, stepL w r st (view w r st s) l)

/-! ### executions -/

abbrev Event := Nat × Step

structure Cfg where
  shared : State
  locals : Nat → Local

def execEv (w : World) (reqs : Nat → Req) (c : Cfg) (e : Event) : Cfg :=
  let p := exec w (reqs e.1) e.2 c.shared (c.locals e.1)
  ⟨p.1, upd c.locals e.1 p.2⟩

def run (w : World) (reqs : Nat → Req) (c : Cfg) (σ : List Event) : Cfg := σ.foldl (execEv w reqs) c

/-- `Merges ls σ`: the schedule `σ` is an interleaving of the step lists `ls i` (thread `i`'s
    remaining steps), each event tagged with its thread. -/
inductive Merges : (Nat → List Step) → List Event → Prop
  | done {ls : Nat → List Step} : (∀ i, ls i = []) → Merges ls []
  | pick {ls : Nat → List Step} {σ : List Event} (i : Nat) (st : Step) (rest : List Step) :
      ls i = st :: rest → Merges (upd ls i rest) σ → Merges ls ((i, st) :: σ)

/-- the request run alone -/
def runSeq (w : World) (r : Req) : List Step → State → Local → State × Local
  | [], s, l => (s, l)
  | st :: rest, s, l => runSeq w r rest (exec w r st s l).1 (exec w r st s l).2

def solo (w : World) (r : Req) (s : State) : Option Resp := (runSeq w r (prog r) s {}).2.resp

/-! ### the request's own computation, given the time-dependent observations it makes -/

def nextView (w : World) (r : Req) (st : Step) (obs : List Bool) : View × List Bool :=
  if stateDep st then (.flag (obs.headD false), obs.tail) else (canon w r st, obs)

def localRun (w : World) (r : Req) : List Bool → List Step → Local → Local
  | _, [], l => l
  | obs, st :: rest, l => localRun w r (nextView w r st obs).2 rest (stepL w r st (nextView w r st obs).1 l)

def emit (st : Step) (l : Local) : List Record :=
  if st = .audit && !skip st l then l.info.toList else []

def auditOf (w : World) (r : Req) : List Bool → List Step → Local → List Record
  | _, [], _ => []
  | obs, st :: rest, l =>
    emit st l ++ auditOf w r (nextView w r st obs).2 rest (stepL w r st (nextView w r st obs).1 l)

/-- the response the request computes from its own fields and the static world
    (`hv` = the health flag it read, relevant for `/health` only) -/
def expected (w : World) (r : Req) (hv : Bool) : Resp :=
  match r.kind with
  | .health => .health hv
  | .listKeys => if r.valid then .keys (w.listing r.client) else .error 400
  | .keyInfo =>
    if r.valid then (match w.tokenKey r.key with | some k => .keyInfo k | none => .error 500) else .error 400
  | .sign =>
    if r.valid then
      (match w.tokenKey r.key with
       | none => .error 500
       | some k =>
         if r.wantTs then
           (match w.tsNew with
            | some t => .signed (w.sign k (w.digest r.hash r.body) r.opts (some t))
            | none => .error 500)
         else .signed (w.sign k (w.digest r.hash r.body) r.opts none))
    else .error 400
  | .env => .error 0

def succeeds (w : World) (r : Req) : Bool :=
  match r.kind, expected w r false with
  | .sign, .signed _ => true
  | _, _ => false

def record (r : Req) : Record := ⟨r.key, r.opts, r.hash, r.file⟩

def sumTo (n : Nat) (f : Nat → Nat) : Nat :=
  match n with
  | 0 => 0
  | n + 1 => sumTo n f + f n

/-! ### locks -/

inductive Lock | cacheMu | limiter | tsMu | healthMu
  deriving DecidableEq, Repr

def Lock.rank : Lock → Nat
  | .cacheMu => 0 | .limiter => 1 | .tsMu => 2 | .healthMu => 3

/-- locks a step acquires, in acquisition order; all are released before the step ends.
    (`audit`: O_APPEND write, no lock; `metric`: atomic add) -/
def locks : Step → List Lock
  | .getKey => [.cacheMu, .limiter]
  | .sign => [.limiter]
  | .getTs => [.tsMu]
  | .readHealth => [.healthMu]
  | .healthCheck _ => [.healthMu]
  | _ => []

def needsToken (st : Step) : Bool := locks st |>.contains .limiter

/-- a step can run unless it has to wait for a limiter token (mutexes are free between steps) -/
def Enabled (s : State) (st : Step) (l : Local) : Bool :=
  skip st l || !needsToken st || decide (s.limiter > 0)

/-! ### the shared-state table the source inventory is checked against -/

structure SharedVar where
  pkg : String
  var : String
  writer : String
  lockedBy : Option String
  deriving DecidableEq, Repr

/-- shared objects written by request-time code, with the mutex the model assigns to each write:
    these are the components of `State` (`cache`, `hStatus`/`hPing`, `ts`) and the close-once latch
    of token workers. -/
def knownShared : List SharedVar :=
  [ ⟨"server", "healthStatus", "Server.healthCheck", some "healthMu"⟩,
    ⟨"server", "healthLastPing", "Server.healthCheck", some "healthMu"⟩,
    ⟨"internal/signinit", "ts", "GetTimestamper", some "mu"⟩,
    ⟨"token/tokencache", "Cache.keys", "Cache.GetKey", some "c.mu"⟩,
    ⟨"internal/closeonce", "Closed.done", "Closed.Close", some "o.mu"⟩,
    ⟨"internal/closeonce", "Closed.err", "Closed.Close", some "o.mu"⟩ ]

def perRequest (why : String) : String := "object created per request (" ++ why ++ "); part of the request's `Local` record"
def startup : String := "server.New, before Handler() is handed to http.Server and before `go healthCheckLoop` starts"
def cmdlineOnly : String := "command-line set-up or client-side code (cobra flag binding / config loading), runs before the server starts; not reachable from the handlers"

/-- unguarded writes that are not request-time shared state, each with the reason -/
def allowList : List (SharedVar × String) :=
  [ (⟨"server", "healthStatus", "Server.startHealthCheck", none⟩, startup),
    (⟨"server", "healthLastPing", "Server.startHealthCheck", none⟩, startup),
    (⟨"server", "Server.tokens", "Server.openTokens", none⟩, startup),
    (⟨"server", "Server.closeCh", "Server.Close", none⟩,
     "Daemon.Close calls it once, after http.Server.Shutdown has returned (no handler running)"),
    (⟨"signers", "registered", "Register", none⟩, "called from the signer packages' init() only (registration time, single goroutine)"),
    (⟨"signers", "flagMap", "MergeFlags", none⟩, cmdlineOnly),
    (⟨"cmdline/shared", "lateHooks", "AddLateHook", none⟩, "called from init() of command packages only"),
    (⟨"cmdline/shared", "ArgConfig", "initConfig", none⟩, cmdlineOnly),
    (⟨"cmdline/shared", "CurrentConfig", "initConfig", none⟩, cmdlineOnly),
    (⟨"cmdline/shared", "ArgDigest", "AddDigestFlag", none⟩, cmdlineOnly),
    (⟨"cmdline/shared", "ArgDigest", "GetDigest", none⟩, cmdlineOnly),
    (⟨"signers/pgp", "argDigest", "AddCompatFlags", none⟩, cmdlineOnly),
    (⟨"signers/pgp", "argOutput", "AddCompatFlags", none⟩, cmdlineOnly),
    (⟨"signers/pgp", "argOutput", "CallCmd", none⟩, cmdlineOnly),
    (⟨"signers/pgp", "argPgpArmor", "AddCompatFlags", none⟩, cmdlineOnly),
    (⟨"signers/pgp", "argPgpClearsign", "AddCompatFlags", none⟩, cmdlineOnly),
    (⟨"signers/pgp", "argPgpDetached", "AddCompatFlags", none⟩, cmdlineOnly),
    (⟨"signers/pgp", "argPgpTextMode", "AddCompatFlags", none⟩, cmdlineOnly),
    (⟨"signers/pgp", "argPgpUser", "AddCompatFlags", none⟩, cmdlineOnly),
    (⟨"internal/zhttp", "Logger.length", "Logger.Write", none⟩, perRequest "zhttp.LoggingMiddleware wraps each ResponseWriter"),
    (⟨"internal/zhttp", "Logger.started", "Logger.WriteHeader", none⟩, perRequest "zhttp.LoggingMiddleware wraps each ResponseWriter"),
    (⟨"internal/zhttp", "Logger.status", "Logger.WriteHeader", none⟩, perRequest "zhttp.LoggingMiddleware wraps each ResponseWriter"),
    (⟨"internal/zhttp", "Logger.status", "Logger.Hijack", none⟩, perRequest "zhttp.LoggingMiddleware wraps each ResponseWriter"),
    (⟨"internal/zhttp", "halfCloseLogger.rl", "halfCloseLogger.SetStatus", none⟩, perRequest "wrapper of one hijacked connection"),
    (⟨"internal/zhttp", "hijackLogger.rl", "hijackLogger.SetStatus", none⟩, perRequest "wrapper of one hijacked connection"),
    (⟨"lib/audit", "Info.Attributes", "Info.Marshal", none⟩, perRequest "audit.New in signinit.Init"),
    (⟨"lib/audit", "Info.Attributes", "Info.SetCounterSignature", none⟩, perRequest "audit.New in signinit.Init"),
    (⟨"lib/audit", "Info.Attributes", "Info.SetMimeType", none⟩, perRequest "audit.New in signinit.Init"),
    (⟨"lib/audit", "Info.Attributes", "Info.SetPgpCert", none⟩, perRequest "audit.New in signinit.Init"),
    (⟨"lib/audit", "Info.Attributes", "Info.SetTimestamp", none⟩, perRequest "audit.New in signinit.Init"),
    (⟨"lib/audit", "Info.Attributes", "Info.SetX509Cert", none⟩, perRequest "audit.New in signinit.Init"),
    (⟨"lib/compresshttp", "responseCompressor.encoding", "responseCompressor.WriteHeader", none⟩, perRequest "compresshttp.Middleware wraps each ResponseWriter"),
    (⟨"lib/compresshttp", "responseCompressor.wc", "responseCompressor.Write", none⟩, perRequest "compresshttp.Middleware wraps each ResponseWriter"),
    (⟨"lib/compresshttp", "responseCompressor.wroteHeader", "responseCompressor.Write", none⟩, perRequest "compresshttp.Middleware wraps each ResponseWriter"),
    (⟨"lib/compresshttp", "responseCompressor.wroteHeader", "responseCompressor.WriteHeader", none⟩, perRequest "compresshttp.Middleware wraps each ResponseWriter") ]

/-- the obligation on a generated inventory: every entry is a known shared object written under the
    lock the model assigns to it, or an allow-listed write -/
def inventoryOk (entries : List SharedVar) : Bool :=
  entries.all fun e => knownShared.contains e || (allowList.map (·.1)).contains e

/-- every shared component of the model is still present in the source (the table is not stale) -/
def tableLive (entries : List SharedVar) : Bool :=
  knownShared.all fun e => entries.contains e

end Relic.Server

/-
  Property C10, fragment "attach sites": at every place where relic embeds a timestamp token, which value is
  time-stamped, whether the token is compared with it before the artefact leaves, and what the verifier accepts.

  Theorems about `Relic.Model.TsaPool` sections 4 and 5.  Tied to the real code by the TSX `site` ops: every signer
  module signs a fixture with a harness-owned key and the fake authority, the produced file goes through relic's
  verifier and `VerifyChain`; modes direct / cache miss / foreign cache entry / off / all authorities failing.
-/
import Relic.Props.C10
import Relic.Props.C10_Pools
import Relic.Props.C10_Rate
import Relic.Props.C10_CacheKey
namespace Relic.Props.C10
open Relic Relic.Tsa Relic.TsaX

/-! ## 1. Verification: a countersignature is reported only for a token that covers THIS signature value -/

/-- **site_countersig_binds** — at every site (token attributes of a CMS signer info, `as:Timestamp` of a manifest,
`EncodedTime` of a VSIX signature, cosign's annotation) the verifier reports a countersignature only when the
embedded token covers the signature value of the enclosing signature and is correctly signed -/
theorem site_countersig_binds (H : Nat → Nat) (g : Bool) (a : ArtX) (cs : CounterSig)
    (h : verifyX H g a = .ok (some cs)) : ∃ t, a.token = some t ∧ Covers H t a.sigValue ∧ cs.cert = t.tsa := by
  unfold verifyX at h
  cases ht : a.token with
  | none => simp [ht] at h
  | some t =>
    simp only [ht] at h
    have hrfc : ∀ {r}, liftCs (verifyRfcToken H g t a.sigValue) = r → r = .ok (some cs) →
        Covers H t a.sigValue ∧ cs.cert = t.tsa := by
      intro r hr hok
      subst hr
      cases hv : verifyRfcToken H g t a.sigValue with
      | ok cs' =>
        simp only [hv, liftCs] at hok
        have : cs' = cs := by simpa using hok
        subst this
        exact ⟨(verifyRfc_covers hv).1, (verifyRfc_covers hv).2.1⟩
      | err e => simp [hv, liftCs] at hok
      | panic s => simp [hv, liftCs] at hok
      | diverge => simp [hv, liftCs] at hok
    refine ⟨t, rfl, ?_⟩
    cases hsite : a.site <;> simp only [hsite] at h
    case manifest =>
      unfold verifyManifestTs at h
      cases hct : t.ctypeTst with
      | true =>
        simp only [hct, if_true] at h
        exact hrfc rfl h
      | false =>
        simp only [hct, Bool.false_eq_true, if_false] at h
        cases hv : verifyMsToken t a.sigValue with
        | ok cs' =>
          simp only [hv, liftCs] at h
          have : cs' = cs := by simpa using h
          subst this
          exact ⟨(verifyMs_covers (H := H) hv).1, (verifyMs_covers (H := H) hv).2⟩
        | err e => simp [hv, liftCs] at h
        | panic s => simp [hv, liftCs] at h
        | diverge => simp [hv, liftCs] at h
    all_goals exact hrfc rfl h

/-- a token present is never ignored: the verifier answers with a countersignature or not at all -/
theorem site_token_never_ignored (H : Nat → Nat) (g : Bool) (a : ArtX) (t : Token) (ht : a.token = some t) :
    verifyX H g a ≠ .ok none := by
  unfold verifyX
  simp only [ht]
  cases a.site <;> simp only <;>
    first
      | (unfold verifyManifestTs; split <;> (cases verifyRfcToken H g t a.sigValue <;> simp [liftCs]) <;>
          (cases verifyMsToken t a.sigValue <;> simp [liftCs]))
      | (cases verifyRfcToken H g t a.sigValue <;> simp [liftCs])

/-- **site_judged_at_attested_time** — once a countersignature is reported, the chains are judged at the time it
attests (`validity_time`), and that time is the token's own: genTime of the TSTInfo for RFC 3161 tokens -/
theorem site_judged_at_attested_time (H : Nat → Nat) (g : Bool) (a : ArtX) (cs : CounterSig)
    (chainOK : Nat → Usage → Int → Bool) (now : Int) (h : verifyX H g a = .ok (some cs)) :
    (verifyChain chainOK now a.leaf (some cs) = .ok () ↔
      chainOK cs.cert .timestamping (cs.time.getD now) = true ∧ chainOK a.leaf .requested (cs.time.getD now) = true) ∧
    (∀ t i, a.token = some t → t.content = .tst i → cs.time = i.time) := by
  refine ⟨by simpa using validity_time chainOK now a.leaf (some cs), ?_⟩
  intro t i ht hc
  unfold verifyX at h
  simp only [ht] at h
  have hrfc : liftCs (verifyRfcToken H g t a.sigValue) = .ok (some cs) → cs.time = i.time := by
    intro hok
    cases hv : verifyRfcToken H g t a.sigValue with
    | ok cs' =>
      simp only [hv, liftCs] at hok
      have : cs' = cs := by simpa using hok
      subst this
      obtain ⟨_, _, i', hc', hti⟩ := verifyRfc_covers hv
      rw [hc] at hc'
      have : i = i' := by simpa using hc'
      rw [this]; exact hti
    | err e => simp [hv, liftCs] at hok
    | panic s => simp [hv, liftCs] at hok
    | diverge => simp [hv, liftCs] at hok
  cases hsite : a.site <;> simp only [hsite] at h
  case manifest =>
    unfold verifyManifestTs at h
    cases hct : t.ctypeTst with
    | true => simp only [hct, if_true] at h; exact hrfc h
    | false =>
      simp only [hct, Bool.false_eq_true, if_false] at h
      cases hv : verifyMsToken t a.sigValue with
      | ok cs' =>
        have := (verifyMs_covers (H := H) hv).1.2.2
        rcases this with ⟨i', hc', _⟩ | hd
        · -- a legacy token accepted by VerifyMicrosoftToken has data content, not a TSTInfo
          simp only [verifyMsToken] at hv
          split at hv <;> try (simp at hv; done)
          split at hv <;> try (simp at hv; done)
          rename_i hdat
          rw [hc] at hdat
          simp at hdat
        · rw [hc] at hd; simp at hd
      | err e => simp [hv, liftCs] at h
      | panic s => simp [hv, liftCs] at h
      | diverge => simp [hv, liftCs] at h
  all_goals exact hrfc h

/-! ## 2. Attaching -/

/-- **attach_site_genuine** — every attach site (CMS with either attribute OID, ClickOnce manifest, VSIX since fix
a163120, cosign): whatever the time-stamper is (the client, the limiter, the cache with any content, a chain of
them), a signature that comes out carries exactly the token the time-stamper returned for the request made with THIS
signature value, and that token covers this value and is correctly signed. -/
theorem attach_site_genuine (H : Nat → Nat) (g : Bool) (site : Site) (ed leaf : Nat) (o : Outcome) (a : ArtX)
    (hs : site ≠ .unsupported) (h : (signSite H g site ed leaf (some o)).1 = .ok a) :
    ∃ s t, o.res = .ok (s, t) ∧ a = ⟨site, ed, leaf, some t⟩ ∧ Covers H t ed := by
  have hshape : ∀ s t, o.res = .ok (s, t) → attachX H g site ed leaf t = .ok a →
      a = ⟨site, ed, leaf, some t⟩ ∧ Covers H t ed := by
    intro s t _ hat
    unfold attachX at hat
    simp only at hat
    cases hv : verifyX H g ⟨site, ed, leaf, some t⟩ with
    | ok cs =>
      simp only [hv] at hat
      have ha : a = ⟨site, ed, leaf, some t⟩ := by simpa using hat.symm
      refine ⟨ha, ?_⟩
      cases cs with
      | none => exact absurd hv (site_token_never_ignored H g _ t rfl)
      | some c =>
        obtain ⟨t', ht', hcov, _⟩ := site_countersig_binds H g _ c hv
        have : t = t' := by simpa using ht'
        subst this
        exact hcov
    | err e => simp [hv] at hat
    | panic s => simp [hv] at hat
    | diverge => simp [hv] at hat
  cases hres : o.res with
  | ok p =>
    obtain ⟨s, t⟩ := p
    have hat : attachX H g site ed leaf t = .ok a := by
      cases site <;> first | exact absurd rfl hs | (simpa [signSite, hres] using h)
    obtain ⟨ha, hcov⟩ := hshape s t hres hat
    exact ⟨s, t, rfl, ha, hcov⟩
  | err e => cases site <;> first | exact absurd rfl hs | (simp [signSite, hres] at h)
  | panic s => cases site <;> first | exact absurd rfl hs | (simp [signSite, hres] at h)
  | diverge => cases site <;> first | exact absurd rfl hs | (simp [signSite, hres] at h)

/-- pe-coff, msi, cab, ps, xap, appx (both signatures), cat, jar, dmg, macho, xar: `pkcs9.TimestampAndMarshal`.  The
time-stamped value is the EncryptedDigest of the signer info; the token goes under the Authenticode or the RFC 3161
attribute OID; `Verify` + `VerifyOptionalTimestamp` run before the blob is marshalled. -/
theorem attach_site_cms_genuine (H : Nat → Nat) (g : Bool) (auth : Bool) (ed leaf : Nat) (o : Outcome) (a : ArtX)
    (h : (signSite H g (if auth then .cmsAuth else .cmsPlain) ed leaf (some o)).1 = .ok a) :
    ∃ s t, o.res = .ok (s, t) ∧ a = ⟨if auth then .cmsAuth else .cmsPlain, ed, leaf, some t⟩ ∧ Covers H t ed := by
  cases auth
  · exact attach_site_genuine H g .cmsPlain ed leaf o a (by simp) h
  · exact attach_site_genuine H g .cmsAuth ed leaf o a (by simp) h

/-- ClickOnce manifests: `SignedManifest.AddTimestamp` → `VerifyTimestamp` (RFC 3161 or legacy, by content type) on the
raw SignatureValue of the authenticode signature, before the document is replaced -/
theorem attach_site_manifest_genuine (H : Nat → Nat) (g : Bool) (ed leaf : Nat) (o : Outcome) (a : ArtX)
    (h : (signSite H g .manifest ed leaf (some o)).1 = .ok a) :
    ∃ s t, o.res = .ok (s, t) ∧ a = ⟨.manifest, ed, leaf, some t⟩ ∧ Covers H t ed :=
  attach_site_genuine H g .manifest ed leaf o a (by simp) h

/-- cosign: `pkcs9.Verify(timestamp, rawSignature)` before the annotation is written -/
theorem attach_site_cosign_genuine (H : Nat → Nat) (g : Bool) (ed leaf : Nat) (o : Outcome) (a : ArtX)
    (h : (signSite H g .cosign ed leaf (some o)).1 = .ok a) :
    ∃ s t, o.res = .ok (s, t) ∧ a = ⟨.cosign, ed, leaf, some t⟩ ∧ Covers H t ed :=
  attach_site_genuine H g .cosign ed leaf o a (by simp) h

/-- **cached_token_still_checked_sites** — the composition asked for: whatever the memcache holds under the request's
key (a token for another signature, another authority's token, anything that parses), whatever the limiter does, no
attach site lets a signature out unless the token it got covers this signature value -/
theorem cached_token_still_checked_sites (D : Nat → List Char) (H : Nat → Nat) (c : Cfg) (conf : TsConf) (name : Name)
    (memcache up : Bool) (sh : Shared) (now : Nat) (ctx : Ctx) (world : Url → Wire) (site : Site) (rfcFlag : Bool)
    (hash nonce ed leaf : Nat) (a : ArtX) (hs : site ≠ .unsupported)
    (h : (signSite H c.guards site ed leaf
      (some (stamperCall D H c conf name memcache up sh now ctx world (site.legacy rfcFlag) hash nonce ed).1.outcome)).1 = .ok a) :
    ∃ t, a.token = some t ∧ a.sigValue = ed ∧ Covers H t ed := by
  obtain ⟨s, t, _, ha, hcov⟩ := attach_site_genuine H c.guards site ed leaf _ a hs h
  exact ⟨t, by rw [ha], by rw [ha], hcov⟩

/-! ## 3. The VSIX site -/

/-- **attach_site_vsix_genuine** — signers/vsix `makeSignature` (current code, fix a163120: `pkcs9.Verify(tst,
SignatureValue)` before the token is embedded): the statement that was open as `attach_site_vsix_genuine_full` -/
theorem attach_site_vsix_genuine (H : Nat → Nat) (g : Bool) (ed leaf : Nat) (o : Outcome) (a : ArtX)
    (h : (signSite H g .vsix ed leaf (some o)).1 = .ok a) :
    ∃ s t, o.res = .ok (s, t) ∧ a = ⟨.vsix, ed, leaf, some t⟩ ∧ Covers H t ed :=
  attach_site_genuine H g .vsix ed leaf o a (by simp) h

/-- a genuine token of the trusted authority, issued for signature value 777 -/
def foreignTok : Token := ⟨88, true, 1, true, .tst ⟨some 99, 1777, true, some 0⟩, none, 1, true⟩

/-- regression witness of F52 on the current code: a planted entry under the request's memcache key is refused at
signing time by the VSIX site like by every other one; no authority is asked (the cache answered) -/
theorem vsix_foreign_cache_entry_refused :
    let D : Nat → List Char := fun n => List.replicate 61 'x' ++ Nat.toDigits 10 (n % 1000)
    let key := cacheKey D ⟨false, [], 5, 100⟩
    let good : Token := ⟨1, true, 1, true, .tst ⟨some 7, 1100, true, some 0⟩, none, 1, true⟩
    let out := signOp D (· + 1000) Cfg.fixed (some ⟨[0], [], []⟩) ⟨true, []⟩ "" true true ⟨[(key, .tok foreignTok)], none⟩ 0
      Ctx.background (fun _ => .http 200 (.der 0 good false)) .vsix true 5 7 100 10
    out.1 = .err "selfcheck:imprint" ∧ out.2.contacted = [] := by
  decide

example :
    let D : Nat → List Char := fun n => List.replicate 61 'x' ++ Nat.toDigits 10 (n % 1000)
    let key := cacheKey D ⟨false, [], 5, 100⟩
    (signOp D (· + 1000) Cfg.fixed (some ⟨[0], [], []⟩) ⟨true, []⟩ "" true true ⟨[(key, .tok foreignTok)], none⟩ 0
      Ctx.background (fun _ => .reset) .cmsAuth true 5 7 100 10).1 = .err "selfcheck:imprint" := by
  decide

/-! ### the code before fix a163120 (`signSiteOrig`, `signOpOrig`): finding F52 -/

/-- the unrepaired signer modules differ from the current ones at the VSIX site only -/
theorem signSiteOrig_eq (H : Nat → Nat) (g : Bool) (site : Site) (ed leaf : Nat) (ts : Option Outcome) (hs : site ≠ .vsix) :
    signSiteOrig H g site ed leaf ts = signSite H g site ed leaf ts := by
  cases site <;> first | exact absurd rfl hs | skip
  all_goals
    cases ts with
    | none => rfl
    | some o => simp only [signSiteOrig, signSite, attachXOrig, Site.selfChecksOrig, if_true]

/-- the full-strength statement for the VSIX signer as it was before the repair -/
def attach_site_vsix_genuine_full_orig : Prop :=
  ∀ (H : Nat → Nat) (g : Bool) (ed leaf : Nat) (o : Outcome) (a : ArtX),
    (signSiteOrig H g .vsix ed leaf (some o)).1 = .ok a →
    ∃ s t, o.res = .ok (s, t) ∧ a = ⟨.vsix, ed, leaf, some t⟩ ∧ Covers H t ed

/-- **attach_site_vsix_unchecked_orig** (finding F52, fixed by a163120) — it was false: `makeSignature` embedded whatever
`Timestamp` returned.  Witness: the cache answers the request for signature value 100 with a token issued for 777;
signing succeeds and the package carries that token. -/
theorem attach_site_vsix_unchecked_orig : ¬ attach_site_vsix_genuine_full_orig := by
  intro h
  obtain ⟨s, t, hres, _, hcov⟩ := h (· + 1000) true 100 10 ⟨.ok (.cache, foreignTok), [], []⟩
    ⟨.vsix, 100, 10, some foreignTok⟩ (by decide)
  have : t = foreignTok := by
    have : (Src.cache, foreignTok) = (s, t) := by simpa using hres
    exact (Prod.mk.inj this).2.symm
  subst this
  rcases hcov.2.2 with ⟨i, hc, hi, _⟩ | hd
  · have : i = ⟨some 99, 1777, true, some 0⟩ := by simpa [foreignTok] using hc.symm
    subst this
    simp at hi
  · simp [foreignTok] at hd

/-- the same through the whole pipeline of the unrepaired tree: a planted entry under the request's memcache key
reached the package although every authority would have answered correctly (none was asked), and the package did
not verify -/
theorem vsix_unchecked_through_cache_orig :
    let D : Nat → List Char := fun n => List.replicate 61 'x' ++ Nat.toDigits 10 (n % 1000)
    let conf : TsConf := ⟨[0], [], []⟩
    let key := cacheKey D ⟨false, [], 5, 100⟩
    let good : Token := ⟨1, true, 1, true, .tst ⟨some 7, 1100, true, some 0⟩, none, 1, true⟩
    let out := signOpOrig D (· + 1000) Cfg.fixed (some conf) ⟨true, []⟩ "" true true ⟨[(key, .tok foreignTok)], none⟩ 0
      Ctx.background (fun _ => .http 200 (.der 0 good false)) .vsix true 5 7 100 10
    out.1 = .ok ⟨.vsix, 100, 10, some foreignTok⟩ ∧ out.2.contacted = [] ∧
    verifyX (· + 1000) true ⟨.vsix, 100, 10, some foreignTok⟩ = .err "imprint" := by
  decide

/-- **vsix_foreign_token_rejected_by_verifier** — such a package never verifies: relic's `checkTimestamp` (and any
verifier that compares the imprint) refuses a token that does not cover the SignatureValue; it is not ignored either -/
theorem vsix_foreign_token_rejected_by_verifier (H : Nat → Nat) (g : Bool) (ed leaf : Nat) (t : Token)
    (hn : ¬ Covers H t ed) : ∀ r, verifyX H g ⟨.vsix, ed, leaf, some t⟩ ≠ .ok r := by
  intro r h
  cases r with
  | none => exact site_token_never_ignored H g _ t rfl h
  | some cs =>
    obtain ⟨t', ht', hcov, _⟩ := site_countersig_binds H g _ cs h
    have : t = t' := by simpa using ht'
    subst this
    exact hn hcov

/-- a success of the client comes from an authority of the selected list whose reply the client accepted -/
theorem clientTs_ok_accepted (c : Cfg) (conf : TsConf) (name : Name) (r : Req) (pre : Bool) (world : Url → Wire)
    (s : Src) (t : Token) (h : (clientTs c conf name r pre world).res = .ok (s, t)) :
    ∃ u, doOne c r (world u) = .ok t := by
  unfold clientTs at h
  cases hsel : selectPool conf name r.legacy with
  | err e => simp [hsel] at h
  | panic p => simp [hsel] at h
  | diverge => simp [hsel] at h
  | ok us =>
    simp only [hsel, globalise] at h
    have hinner : ∃ s', (timestamp c r pre (us.map world)).res = .ok (s', t) := by
      cases hr : (timestamp c r pre (us.map world)).res with
      | ok p =>
        obtain ⟨s', t'⟩ := p
        simp only [hr] at h
        cases s' with
        | url i =>
          have : t' = t := by
            have : (Src.url (us.getD i 0), t') = (s, t) := by simpa using h
            exact (Prod.mk.inj this).2
          exact ⟨_, by rw [this]⟩
        | cache =>
          have : t' = t := by
            have : (Src.cache, t') = (s, t) := by simpa using h
            exact (Prod.mk.inj this).2
          exact ⟨_, by rw [this]⟩
      | err e => simp [hr] at h
      | panic p => simp [hr] at h
      | diverge => simp [hr] at h
    obtain ⟨s', hs'⟩ := hinner
    cases hws : us.map world with
    | nil => simp [hws, timestamp] at hs'
    | cons w0 ws0 =>
      simp only [hws, timestamp] at hs'
      cases pre with
      | true => simp at hs'
      | false =>
        simp only [Bool.false_eq_true, if_false] at hs'
        obtain ⟨k, w, _, hk, hok, _⟩ := tryFrom_ok c r (w0 :: ws0) 0 "" s' t hs'
        rw [← hws] at hk
        have : ∃ u, world u = w := by
          rw [List.getElem?_map] at hk
          cases hu : us[k]? with
          | none => simp [hu] at hk
          | some u => exact ⟨u, by simpa [hu] using hk⟩
        obtain ⟨u, hu⟩ := this
        exact ⟨u, by rw [hu]; exact hok⟩

/-- **attach_site_vsix_genuine_partial_orig** — what did hold for the unrepaired VSIX signer: when the time-stamper is the
client itself, with or without the rate limiter but WITHOUT a memcache, the embedded token is one an authority of the
selected pool sent in a reply the client accepted for this very request (`accept_iff`), hence it covers this
SignatureValue.  What was missing for the full statement, a check of the token at the site, is what a163120 added. -/
theorem attach_site_vsix_genuine_partial_orig (D : Nat → List Char) (H : Nat → Nat) (c : Cfg) (conf : TsConf) (name : Name)
    (up : Bool) (sh : Shared) (now : Nat) (ctx : Ctx) (world : Url → Wire) (hash nonce ed leaf : Nat) (a : ArtX)
    (halg : c.algChecked = true)
    (h : (signSiteOrig H c.guards .vsix ed leaf
      (some (stamperCall D H c conf name false up sh now ctx world false hash nonce ed).1.outcome)).1 = .ok a) :
    ∃ t u, a = ⟨.vsix, ed, leaf, some t⟩ ∧ Genuine c ⟨false, nonce, H ed⟩ (world u) t ∧ Covers H t ed := by
  obtain ⟨s, t, hres, ha⟩ : ∃ s t, (stamperCall D H c conf name false up sh now ctx world false hash nonce ed).1.outcome.res = .ok (s, t) ∧
      a = ⟨.vsix, ed, leaf, some t⟩ := by
    simp only [signSiteOrig, attachXOrig, Site.selfChecksOrig] at h
    cases ho : (stamperCall D H c conf name false up sh now ctx world false hash nonce ed).1.outcome.res with
    | ok p => obtain ⟨s, t⟩ := p; simp only [ho] at h; exact ⟨s, t, rfl, by simpa using h.symm⟩
    | err e => simp [ho] at h
    | panic p => simp [ho] at h
    | diverge => simp [ho] at h
  -- the outcome is the client's, possibly delayed
  have hcl : ∃ pre, (clientTs c conf name ⟨false, nonce, H ed⟩ pre world).res = .ok (s, t) := by
    simp only [stamperCall, Bool.false_eq_true, if_false] at hres
    cases hl : sh.lim with
    | none =>
      simp only [hl, limitedOpt] at hres
      exact ⟨_, hres⟩
    | some l =>
      simp only [hl, limitedOpt] at hres
      obtain ⟨t1, _, heq⟩ := rate_limit_never_skips l now ctx _ (s, t) hres
      rw [heq] at hres
      exact ⟨_, hres⟩
  obtain ⟨pre, hcl⟩ := hcl
  obtain ⟨u, hok⟩ := clientTs_ok_accepted c conf name _ pre world s t hcl
  have hgen := (accept_iff c ⟨false, nonce, H ed⟩ (world u) t rfl).1 hok
  refine ⟨t, u, ha, hgen, ?_⟩
  obtain ⟨st, i, _, _, hcont, _, hmd, hsig, _, himp, hal⟩ := hgen
  exact ⟨hsig, hmd, Or.inl ⟨i, hcont, himp, hal halg⟩⟩

/-- non-vacuity (current code): VSIX, no memcache, limiter present (bucket empty: the call waits one period), first authority down,
second one genuine: the package carries the second one's token and verifies -/
example :
    let good : Token := ⟨2, true, 1, true, .tst ⟨some 7, 1100, true, some (-20)⟩, none, 1, true⟩
    let call := stamperCall (fun _ => []) (· + 1000) Cfg.fixed ⟨[0, 1], [], []⟩ [] false false ⟨[], some ⟨some 100, 1, 0, 0⟩⟩ 0
      Ctx.background (fun u => if u = 1 then .http 200 (.der 0 good false) else .reset) false 5 7 100
    (signSite (· + 1000) true .vsix 100 10 (some call.1.outcome)).1 = .ok ⟨.vsix, 100, 10, some good⟩ ∧
    call.1.time = 100 ∧ call.1.outcome.contacted = [0, 1] ∧
    verifyX (· + 1000) true ⟨.vsix, 100, 10, some good⟩ = .ok (some ⟨some (-20), 1, 2⟩) := by decide

/-- non-vacuity of `site_judged_at_attested_time`: leaf valid from day -30 to day -10, token attests day -20: accepted
now (day 0); the same artefact without the token is not -/
example :
    let good : Token := ⟨2, true, 1, true, .tst ⟨some 7, 1100, true, some (-20)⟩, none, 1, true⟩
    let chain : Nat → Usage → Int → Bool := fun cert u t => match u with
      | .timestamping => cert = 1
      | .requested => cert = 10 && decide (-30 ≤ t ∧ t ≤ -10)
    verifyChain chain 0 10 (some ⟨some (-20), 1, 2⟩) = .ok () ∧ verifyChain chain 0 10 none = .err "chain" ∧
    verifyX (· + 1000) true ⟨.cmsAuth, 100, 10, some good⟩ = .ok (some ⟨some (-20), 1, 2⟩) := by decide

/-! ## 4. Site table facts -/

/-- only the ClickOnce manifest signer ever makes a legacy (Microsoft) request, and only with `rfc3161-timestamp=false` -/
theorem site_request_style (s : Site) (rfcFlag : Bool) : s.legacy rfcFlag = true ↔ s = .manifest ∧ rfcFlag = false := by
  cases s <;> cases rfcFlag <;> simp [Site.legacy]

/-- the CMS sites are the flows `p7` / `p7ac` of `Relic.Model.Tsa`: same check, same verdict -/
theorem cms_site_agrees_with_flow (H : Nat → Nat) (g : Bool) (ed leaf : Nat) (t : Token) :
    (attachX H g .cmsPlain ed leaf t = .ok ⟨.cmsPlain, ed, leaf, some t⟩ ↔
      attachAndCheck H g .p7 ed leaf t = .ok ⟨ed, leaf, .tsToken t⟩) ∧
    (attachX H g .cmsAuth ed leaf t = .ok ⟨.cmsAuth, ed, leaf, some t⟩ ↔
      attachAndCheck H g .p7ac ed leaf t = .ok ⟨ed, leaf, .spcToken t⟩) := by
  constructor <;>
  · simp only [attachX, verifyX, attachAndCheck, verifyAttach, mkAttach]
    cases verifyRfcToken H g t ed <;> simp [liftCs]

/-- **site_attribute_oid** — which attribute carries the token: the Authenticode formats (pe-coff, msi, cab, ps, xap,
appx, cat) use Microsoft's RFC 3161 OID, the other CMS formats (jar, dmg, macho, xar) id-aa-timeStampToken; the
verifier (`VerifyPkcs7`) looks under both -/
theorem site_attribute_oid (typ : String) (s : Site) (n : Nat) (h : siteOfType typ = some (s, n)) :
    s.oid = if typ ∈ ["pe-coff", "msi", "cab", "ps", "xap", "appx", "cat"] then some "spc"
            else if typ ∈ ["jar", "dmg", "macho", "xar"] then some "tst" else none := by
  unfold siteOfType at h
  split at h <;> simp at h <;> (obtain ⟨hs, _⟩ := h; subst hs; simp [Site.oid])

example : siteOfType "appx" = some (.cmsAuth, 2) := by decide
example : siteOfType "apk" = some (.unsupported, 0) := by decide

end Relic.Props.C10

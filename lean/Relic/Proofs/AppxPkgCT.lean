/-
  Lemmas about `[Content_Types].xml` in `Relic.Model.AppxPkg` (lib/signappx/contenttypes.go): Go maps as association lists,
  `Add`, `Find`, the sorted lists `Marshal` writes and `Parse` reads back, attribute escaping.
-/
import Relic.Model.AppxPkg
import Relic.Proofs.VsixSort
namespace Relic.AppxPkg
open Relic Relic.Appx

/-! ### Go maps -/

theorem find_filter_ne (m : SMap) (k : Bytes) : (m.filter fun e => e.1 ≠ k).find? (fun e => e.1 = k) = none := by
  rw [List.find?_eq_none]
  intro e he
  have := (List.mem_filter.1 he).2
  simpa using this

theorem mget_mset_same (m : SMap) (k v : Bytes) : Vsix.mget (Vsix.mset m k v) k = v := by
  unfold Vsix.mget Vsix.mset
  rw [List.find?_append, find_filter_ne]
  simp

theorem mset_mset_same (m : SMap) (k v : Bytes) : Vsix.mset (Vsix.mset m k v) k v = Vsix.mset m k v := by
  unfold Vsix.mset
  simp [List.filter_append, List.filter_filter]

/-! ### `Add` -/

theorem octet_ne_nil : octetStreamType ≠ [] := by decide

/-- `Add` as a decision tree -/
theorem ctAdd_eq (c : CT) (name : Bytes) : ctAdd c name =
    if name = sBundle then { c with byExt := Vsix.mset c.byExt sXml bundleManifestType }
    else if defaultOverride (47 :: name) ≠ [] then { c with byOvr := Vsix.mset c.byOvr (47 :: name) (defaultOverride (47 :: name)) }
    else if Vsix.mget c.byOvr (47 :: name) ≠ [] then c
    else if Jar.pathExt (Jar.pathBase name) ≠ [] ∧ (Jar.pathExt (Jar.pathBase name)).head? = some 46 then
      (if defaultExtension ((Jar.pathExt (Jar.pathBase name)).drop 1) ≠ [] then
        { c with byExt := Vsix.mset c.byExt ((Jar.pathExt (Jar.pathBase name)).drop 1) (defaultExtension ((Jar.pathExt (Jar.pathBase name)).drop 1)) }
      else if Vsix.mget c.byExt ((Jar.pathExt (Jar.pathBase name)).drop 1) ≠ [] then c
      else { c with byExt := Vsix.mset c.byExt ((Jar.pathExt (Jar.pathBase name)).drop 1) octetStreamType })
    else { c with byOvr := Vsix.mset c.byOvr (47 :: name) octetStreamType } := rfl

/-- **Add is idempotent** -/
theorem ctAdd_idem (c : CT) (name : Bytes) : ctAdd (ctAdd c name) name = ctAdd c name := by
  by_cases h0 : name = sBundle
  · have e : ctAdd c name = { c with byExt := Vsix.mset c.byExt sXml bundleManifestType } := by rw [ctAdd_eq, if_pos h0]
    rw [e, ctAdd_eq, if_pos h0]
    simp only [mset_mset_same]
  · by_cases h1 : defaultOverride (47 :: name) ≠ []
    · have e : ctAdd c name = { c with byOvr := Vsix.mset c.byOvr (47 :: name) (defaultOverride (47 :: name)) } := by
        rw [ctAdd_eq, if_neg h0, if_pos h1]
      rw [e, ctAdd_eq, if_neg h0, if_pos h1]
      simp only [mset_mset_same]
    · by_cases h2 : Vsix.mget c.byOvr (47 :: name) ≠ []
      · have e : ctAdd c name = c := by rw [ctAdd_eq, if_neg h0, if_neg h1, if_pos h2]
        rw [e, e]
      · by_cases h3 : Jar.pathExt (Jar.pathBase name) ≠ [] ∧ (Jar.pathExt (Jar.pathBase name)).head? = some 46
        · by_cases h4 : defaultExtension ((Jar.pathExt (Jar.pathBase name)).drop 1) ≠ []
          · have e : ctAdd c name = { c with byExt := Vsix.mset c.byExt ((Jar.pathExt (Jar.pathBase name)).drop 1) (defaultExtension ((Jar.pathExt (Jar.pathBase name)).drop 1)) } := by
              rw [ctAdd_eq, if_neg h0, if_neg h1, if_neg h2, if_pos h3, if_pos h4]
            rw [e, ctAdd_eq, if_neg h0, if_neg h1, if_neg (by exact h2), if_pos h3, if_pos h4]
            simp only [mset_mset_same]
          · by_cases h5 : Vsix.mget c.byExt ((Jar.pathExt (Jar.pathBase name)).drop 1) ≠ []
            · have e : ctAdd c name = c := by rw [ctAdd_eq, if_neg h0, if_neg h1, if_neg h2, if_pos h3, if_neg h4, if_pos h5]
              rw [e, e]
            · have e : ctAdd c name = { c with byExt := Vsix.mset c.byExt ((Jar.pathExt (Jar.pathBase name)).drop 1) octetStreamType } := by
                rw [ctAdd_eq, if_neg h0, if_neg h1, if_neg h2, if_pos h3, if_neg h4, if_neg h5]
              rw [e, ctAdd_eq, if_neg h0, if_neg h1, if_neg (by exact h2), if_pos h3, if_neg h4,
                if_pos (by simp only [mget_mset_same]; exact octet_ne_nil)]
        · have e : ctAdd c name = { c with byOvr := Vsix.mset c.byOvr (47 :: name) octetStreamType } := by
            rw [ctAdd_eq, if_neg h0, if_neg h1, if_neg h2, if_neg h3]
          rw [e, ctAdd_eq, if_neg h0, if_neg h1, if_pos (by simp only [mget_mset_same]; exact octet_ne_nil)]

theorem bundle_ext : Jar.pathExt (Jar.pathBase sBundle) = [46, 120, 109, 108] := by decide
theorem bundle_ovr : Vsix.mget ([] : SMap) (47 :: sBundle) = [] := rfl

theorem ctFind_eq (c : CT) (name : Bytes) : Vsix.ctFind c name =
    if Vsix.mget c.byOvr (47 :: name) ≠ [] then Vsix.mget c.byOvr (47 :: name)
    else if Jar.pathExt (Jar.pathBase name) ≠ [] ∧ (Jar.pathExt (Jar.pathBase name)).head? = some 46 then
      Vsix.mget c.byExt ((Jar.pathExt (Jar.pathBase name)).drop 1)
    else [] := rfl

/-- **every name that was added has a content type**: `Find` after `Add` is never empty, for a table that holds no override
    for the bundle manifest (relic never writes one) -/
theorem ctFind_after_add (c : CT) (name : Bytes) (hb : name = sBundle → Vsix.mget c.byOvr (47 :: sBundle) = []) :
    Vsix.ctFind (ctAdd c name) name ≠ [] := by
  by_cases h0 : name = sBundle
  · subst h0
    have e : ctAdd c sBundle = { c with byExt := Vsix.mset c.byExt sXml bundleManifestType } := by rw [ctAdd_eq, if_pos rfl]
    have hx : ([46, 120, 109, 108] : Bytes).drop 1 = sXml := by decide
    rw [e, ctFind_eq, if_neg (by simp only [hb rfl]; simp), bundle_ext, if_pos (by decide), hx]
    simp only [mget_mset_same]
    decide
  · by_cases h1 : defaultOverride (47 :: name) ≠ []
    · have e : ctAdd c name = { c with byOvr := Vsix.mset c.byOvr (47 :: name) (defaultOverride (47 :: name)) } := by
        rw [ctAdd_eq, if_neg h0, if_pos h1]
      rw [e, ctFind_eq]
      simp only [mget_mset_same, h1, if_true, ne_eq, not_false_eq_true]
    · by_cases h2 : Vsix.mget c.byOvr (47 :: name) ≠ []
      · have e : ctAdd c name = c := by rw [ctAdd_eq, if_neg h0, if_neg h1, if_pos h2]
        rw [e, ctFind_eq, if_pos h2]; exact h2
      · by_cases h3 : Jar.pathExt (Jar.pathBase name) ≠ [] ∧ (Jar.pathExt (Jar.pathBase name)).head? = some 46
        · by_cases h4 : defaultExtension ((Jar.pathExt (Jar.pathBase name)).drop 1) ≠ []
          · have e : ctAdd c name = { c with byExt := Vsix.mset c.byExt ((Jar.pathExt (Jar.pathBase name)).drop 1) (defaultExtension ((Jar.pathExt (Jar.pathBase name)).drop 1)) } := by
              rw [ctAdd_eq, if_neg h0, if_neg h1, if_neg h2, if_pos h3, if_pos h4]
            rw [e, ctFind_eq, if_neg (by exact h2), if_pos h3]
            simp only [mget_mset_same]; exact h4
          · by_cases h5 : Vsix.mget c.byExt ((Jar.pathExt (Jar.pathBase name)).drop 1) ≠ []
            · have e : ctAdd c name = c := by rw [ctAdd_eq, if_neg h0, if_neg h1, if_neg h2, if_pos h3, if_neg h4, if_pos h5]
              rw [e, ctFind_eq, if_neg h2, if_pos h3]; exact h5
            · have e : ctAdd c name = { c with byExt := Vsix.mset c.byExt ((Jar.pathExt (Jar.pathBase name)).drop 1) octetStreamType } := by
                rw [ctAdd_eq, if_neg h0, if_neg h1, if_neg h2, if_pos h3, if_neg h4, if_neg h5]
              rw [e, ctFind_eq, if_neg (by exact h2), if_pos h3]
              simp only [mget_mset_same]; exact octet_ne_nil
        · have e : ctAdd c name = { c with byOvr := Vsix.mset c.byOvr (47 :: name) octetStreamType } := by
            rw [ctAdd_eq, if_neg h0, if_neg h1, if_neg h2, if_neg h3]
          rw [e, ctFind_eq]
          simp only [mget_mset_same, octet_ne_nil, if_true, ne_eq, not_false_eq_true]

/-! ### `Marshal` then `Parse` -/

open Vsix in
theorem foldl_mset_append : ∀ (l acc : SMap), (keys (acc ++ l)).Nodup → l.foldl (fun m d => mset m d.1 d.2) acc = acc ++ l
  | [], acc, _ => by simp
  | e :: l, acc, h => by
    simp only [List.foldl_cons]
    have hk : e.1 ∉ keys acc := by
      simp only [keys, List.map_append, List.map_cons] at h
      have := (List.nodup_append.1 h).2.2
      intro hmem
      exact this e.1 hmem e.1 (by simp) rfl
    have e1 : mset acc e.1 e.2 = acc ++ [e] := by
      unfold mset
      have : acc.filter (fun x => x.1 ≠ e.1) = acc := by
        rw [List.filter_eq_self]; intro x hx
        have : x.1 ≠ e.1 := fun heq => hk (by rw [← heq]; exact List.mem_map_of_mem hx)
        simpa using this
      rw [this]
    rw [e1, foldl_mset_append l (acc ++ [e]) (by simpa [List.append_assoc] using h)]
    simp [List.append_assoc]

open Vsix in
theorem sortMap_of_sorted : ∀ (l : SMap), KSorted l → sortMap l = l
  | [], _ => rfl
  | [e], _ => rfl
  | e :: f :: l, h => by
    have hs : KSorted (f :: l) := by
      unfold KSorted keys at h ⊢
      simp only [List.map_cons] at h ⊢
      exact (List.pairwise_cons.1 h).2
    have hlt : Xml.bytesLt e.1 f.1 = true := by
      unfold KSorted keys at h
      simp only [List.map_cons] at h
      exact (List.pairwise_cons.1 h).1 f.1 (by simp)
    show insSorted e.1 e.2 (sortMap (f :: l)) = e :: f :: l
    rw [sortMap_of_sorted (f :: l) hs]
    simp [insSorted, hlt]

open Vsix in
theorem keys_sortMap_nodup (m : SMap) (h : (keys m).Nodup) : (keys (sortMap m)).Nodup := by
  have hs := sortMap_sorted m h
  unfold KSorted at hs
  refine List.Pairwise.imp ?_ hs
  intro a b hab heq
  subst heq
  -- bytesLt is irreflexive
  have irr : ∀ x : Bytes, Xml.bytesLt x x = false := by
    intro x; induction x with
    | nil => rfl
    | cons c x ih => simp [Xml.bytesLt, ih]
  rw [irr] at hab; cases hab

/-- **Parse ∘ Marshal on the lists.**  Reading the `Default` / `Override` lists `Marshal` writes into an empty table gives
    exactly those lists, and marshalling that table again writes the same lists (`Marshal ∘ Parse ∘ Marshal = Marshal`). -/
theorem ctParse_lists (c : CT) (h1 : (Vsix.keys c.byExt).Nodup) (h2 : (Vsix.keys c.byOvr).Nodup) :
    Vsix.ctParse {} (ctLists c).1 (ctLists c).2 = ⟨(ctLists c).1, (ctLists c).2⟩ ∧
    ctLists (Vsix.ctParse {} (ctLists c).1 (ctLists c).2) = ctLists c := by
  have n1 := keys_sortMap_nodup _ h1
  have n2 := keys_sortMap_nodup _ h2
  have e : Vsix.ctParse {} (ctLists c).1 (ctLists c).2 = ⟨(ctLists c).1, (ctLists c).2⟩ := by
    unfold Vsix.ctParse ctLists
    simp only
    rw [foldl_mset_append _ [] (by simpa using n1), foldl_mset_append _ [] (by simpa using n2)]
    simp
  refine ⟨e, ?_⟩
  rw [e]
  unfold ctLists
  simp only
  rw [sortMap_of_sorted _ (Vsix.sortMap_sorted _ h1), sortMap_of_sorted _ (Vsix.sortMap_sorted _ h2)]

/-- the parsed-back table answers every lookup as the original -/
theorem mget_sortMap (m : SMap) (h : (Vsix.keys m).Nodup) (k : Bytes) : Vsix.mget (Vsix.sortMap m) k = Vsix.mget m k := by
  have key : ∀ (l : SMap), (Vsix.keys l).Nodup → ∀ v, (l.find? fun e => e.1 = k) = some (k, v) ↔ (k, v) ∈ l := by
    intro l hl v
    constructor
    · intro hf; exact List.mem_of_find?_eq_some hf
    · intro hm
      induction l with
      | nil => simp at hm
      | cons a l ih =>
        simp only [Vsix.keys, List.map_cons, List.nodup_cons] at hl
        rcases List.mem_cons.1 hm with rfl | hm'
        · simp [List.find?_cons]
        · have : a.1 ≠ k := by
            intro heq
            exact hl.1 (by rw [heq]; exact List.mem_map_of_mem (f := (·.1)) hm')
          simp only [List.find?_cons, this, decide_false]
          exact ih hl.2 hm'
  have none_iff : ∀ (l : SMap), (l.find? fun e => e.1 = k) = none ↔ ∀ v, (k, v) ∉ l := by
    intro l
    rw [List.find?_eq_none]
    constructor
    · intro hh v hv; have := hh (k, v) hv; simp at this
    · intro hh e he heq
      have : e = (k, e.2) := by cases e; simp at heq; simp [heq]
      rw [this] at he; exact hh e.2 he
  have n' := keys_sortMap_nodup m h
  unfold Vsix.mget
  cases hf : (m.find? fun e => e.1 = k) with
  | none =>
    have : ((Vsix.sortMap m).find? fun e => e.1 = k) = none := by
      rw [none_iff]; intro v hv
      exact (none_iff m).1 hf v (Vsix.mem_sortMap.1 hv)
    rw [this]
  | some e =>
    have hk : e.1 = k := by simpa using List.find?_some hf
    have he : e = (k, e.2) := by cases e; simp at hk; simp [hk]
    rw [he] at hf
    have hm : (k, e.2) ∈ m := (key m h e.2).1 hf
    have : ((Vsix.sortMap m).find? fun e => e.1 = k) = some (k, e.2) := (key _ n' e.2).2 (Vsix.mem_sortMap.2 hm)
    rw [this]

/-! ### attribute escaping -/

/-- text that `EscapeString` copies or replaces by a character reference, never by U+FFFD: printable ASCII, TAB, LF, CR -/
def asciiClean (s : Bytes) : Prop := ∀ b ∈ s, b.toNat < 128 ∧ (32 ≤ b.toNat ∨ b = 9 ∨ b = 10 ∨ b = 13)

theorem unesc_plain (b : UInt8) (r : Bytes) (h : b ≠ 38) : unescAttr (b :: r) = b :: unescAttr r := by
  rw [unescAttr]; simp [h]

theorem unesc_entity (b : UInt8) (e r : Bytes) (he : escByte b = some e) : unescAttr (e ++ r) = b :: unescAttr r := by
  unfold escByte at he
  split at he
  · cases he; subst_vars; rw [eQuot]; simp only [List.cons_append, List.nil_append]; rw [unescAttr]; simp [eQuot]
  split at he
  · cases he; subst_vars; rw [eApos]; simp only [List.cons_append, List.nil_append]; rw [unescAttr]; simp [eQuot, eApos]
  split at he
  · cases he; subst_vars; rw [eAmp]; simp only [List.cons_append, List.nil_append]; rw [unescAttr]; simp [eQuot, eApos, eAmp]
  split at he
  · cases he; subst_vars; rw [eLt]; simp only [List.cons_append, List.nil_append]; rw [unescAttr]; simp [eQuot, eApos, eAmp, eLt]
  split at he
  · cases he; subst_vars; rw [eGt]; simp only [List.cons_append, List.nil_append]; rw [unescAttr]; simp [eQuot, eApos, eAmp, eLt, eGt]
  split at he
  · cases he; subst_vars; rw [eTab]; simp only [List.cons_append, List.nil_append]; rw [unescAttr]; simp [eQuot, eApos, eAmp, eLt, eGt, eTab]
  split at he
  · cases he; subst_vars; rw [eNl]; simp only [List.cons_append, List.nil_append]; rw [unescAttr]
    simp [eQuot, eApos, eAmp, eLt, eGt, eTab, eNl]
  split at he
  · cases he; subst_vars; rw [eCr]; simp only [List.cons_append, List.nil_append]; rw [unescAttr]
    simp [eQuot, eApos, eAmp, eLt, eGt, eTab, eNl, eCr]
  · cases he

theorem escByte_none_ne_amp (b : UInt8) (h : escByte b = none) : b ≠ 38 := by
  intro e; subst e; simp [escByte] at h

/-- **reading back what `EscapeString` wrote** (XML-clean ASCII) -/
theorem unesc_esc : ∀ (fuel : Nat) (s : Bytes), s.length ≤ fuel → asciiClean s → unescAttr (escAttrF fuel s) = s
  | 0, s, h, _ => by
    have : s = [] := List.eq_nil_of_length_eq_zero (by omega)
    subst this; simp [escAttrF, unescAttr]
  | fuel + 1, [], _, _ => by simp [escAttrF, unescAttr]
  | fuel + 1, b :: r, h, hc => by
    have hb := hc b (by simp)
    have hr : asciiClean r := fun x hx => hc x (by simp [hx])
    have ih := unesc_esc fuel r (by simp at h; omega) hr
    unfold escAttrF
    cases he : escByte b with
    | some e => simp only; rw [unesc_entity b e _ he, ih]
    | none =>
      simp only
      have hd : decodeRune (b :: r) = (b.toNat, 1) := by simp [decodeRune, hb.1]
      have hin : inCharRange b.toNat = true := by
        unfold inCharRange
        rcases hb.2 with h | h | h | h
        · have : b.toNat ≤ 0xD7FF := by omega
          simp [h, this]
        · subst h; decide
        · subst h; decide
        · subst h; decide
      have hne : ¬ (b.toNat = 0xFFFD) := by omega
      simp only [hd, hin, Bool.not_true, Bool.false_or, Bool.and_eq_true, decide_eq_true_eq, hne, false_and, if_false]
      simp only [List.take, Nat.sub_self, List.drop_zero, List.cons_append, List.nil_append]
      rw [unesc_plain b _ (escByte_none_ne_amp b he), ih]

end Relic.AppxPkg

/- pointwise semantics of the patch set `PatchSignature` builds: header patches cut from the final header buffer plus
   the signature patch -/
import Relic.Model.MachO
import Relic.Proofs.Binpatch
namespace Relic.MachO
open Relic Relic.Binpatch

theorem getElem?_splice (x : Bytes) (off old : Nat) (blob : Bytes) (h : off ≤ x.length) (i : Nat) :
    (splice x off old blob)[i]? =
      if i < off then x[i]? else if i < off + blob.length then blob[i - off]? else x[i - blob.length + old]? := by
  unfold splice
  have ht : (x.take off).length = off := by simp [List.length_take]; omega
  by_cases c1 : i < off
  · simp only [c1, ↓reduceIte]
    rw [List.append_assoc, List.getElem?_append_left (by omega), List.getElem?_take_of_lt c1]
  · simp only [c1, ↓reduceIte]
    rw [List.append_assoc, List.getElem?_append_right (by omega), ht]
    by_cases c2 : i < off + blob.length
    · simp only [c2, ↓reduceIte]
      rw [List.getElem?_append_left (by omega)]
    · simp only [c2, ↓reduceIte]
      rw [List.getElem?_append_right (by omega), List.getElem?_drop]
      congr 1; omega

def inRanges (rs : List (Nat × Nat)) (i : Nat) : Bool := rs.any (fun r => decide (r.1 ≤ i ∧ i < r.1 + r.2))

/-- the patches `PatchSignature` records for the header: `(offset, size, newHeader[offset:offset+size])` -/
def hdrPatches (h3 : Bytes) (rs : List (Nat × Nat)) : List Patch := rs.map (fun r => ⟨r.1, r.2, (h3.drop r.1).take r.2⟩)

theorem sem_hdrPatches_length (h3 x : Bytes) : ∀ (rs : List (Nat × Nat)), (∀ r ∈ rs, r.1 + r.2 ≤ h3.length) → h3.length ≤ x.length →
    (sem x (hdrPatches h3 rs)).length = x.length := by
  intro rs
  induction rs with
  | nil => intro _ _; rfl
  | cons r t ih =>
    intro hr hx
    have := ih (fun q hq => hr q (List.mem_cons_of_mem _ hq)) hx
    have hr0 := hr r List.mem_cons_self
    simp only [hdrPatches, List.map_cons, sem, List.foldr_cons] at *
    rw [splice_length]
    simp only [List.length_take, List.length_drop]
    omega

/-- **header patches overwrite with the final buffer**: after applying them, a byte inside a patched range is the
    byte of the final header buffer, every other byte is untouched -/
theorem sem_hdrPatches_getElem? (h3 x : Bytes) : ∀ (rs : List (Nat × Nat)), (∀ r ∈ rs, r.1 + r.2 ≤ h3.length) → h3.length ≤ x.length →
    ∀ i, (sem x (hdrPatches h3 rs))[i]? = if inRanges rs i then h3[i]? else x[i]? := by
  intro rs
  induction rs with
  | nil => intro _ _ i; simp [hdrPatches, sem, inRanges]
  | cons r t ih =>
    intro hr hx i
    have hr0 := hr r List.mem_cons_self
    have hrt := fun q hq => hr q (List.mem_cons_of_mem _ hq)
    have hlen := sem_hdrPatches_length h3 x t hrt hx
    have hi := ih hrt hx i
    have hb : ((h3.drop r.1).take r.2).length = r.2 := by simp only [List.length_take, List.length_drop]; omega
    show (splice (sem x (hdrPatches h3 t)) r.1 r.2 ((h3.drop r.1).take r.2))[i]? = _
    rw [getElem?_splice _ _ _ _ (by omega), hb]
    by_cases c1 : i < r.1
    · have : inRanges (r :: t) i = inRanges t i := by simp [inRanges]; omega
      simp only [c1, ↓reduceIte, this, hi]
    · by_cases c2 : i < r.1 + r.2
      · have : inRanges (r :: t) i = true := by simp [inRanges]; omega
        simp only [c1, c2, ↓reduceIte, this]
        rw [List.getElem?_take_of_lt (by omega), List.getElem?_drop]
        congr 1; omega
      · have : inRanges (r :: t) i = inRanges t i := by simp [inRanges]; omega
        simp only [c1, c2, ↓reduceIte, this]
        have e : i - r.2 + r.2 = i := by omega
        rw [e, hi]

/-- the file `PatchSignature`'s patch set produces (reference semantics of the patch set) -/
def written (f h3 : Bytes) (rs : List (Nat × Nat)) (cs sigLen padding : Nat) (sigBuf : Bytes) : Bytes :=
  sem f (hdrPatches h3 rs ++ [⟨cs, sigLen, zeros padding ++ sigBuf⟩])

structure Layout (f h3 : Bytes) (rs : List (Nat × Nat)) (cs sigLen : Nat) : Prop where
  ranges : ∀ r ∈ rs, r.1 + r.2 ≤ h3.length
  agree : ∀ i, i < h3.length → inRanges rs i = false → h3[i]? = f[i]?   -- the buffer is the file's header except in the patched ranges
  hdrBelow : h3.length ≤ cs
  oldInside : cs + sigLen ≤ f.length

theorem written_getElem? (f h3 : Bytes) (rs : List (Nat × Nat)) (cs sigLen padding : Nat) (sigBuf : Bytes)
    (L : Layout f h3 rs cs sigLen) (i : Nat) :
    (written f h3 rs cs sigLen padding sigBuf)[i]? =
      if inRanges rs i then h3[i]?
      else if i < cs then f[i]?
      else if i < cs + padding then some 0
      else if i < cs + padding + sigBuf.length then sigBuf[i - (cs + padding)]?
      else f[i - (padding + sigBuf.length) + sigLen]? := by
  unfold written
  rw [sem_append]
  have hcs : cs ≤ f.length := by have := L.oldInside; omega
  have hsp : sem f [⟨cs, sigLen, zeros padding ++ sigBuf⟩] = splice f cs sigLen (zeros padding ++ sigBuf) := rfl
  have hl1 : (splice f cs sigLen (zeros padding ++ sigBuf)).length = f.length + (padding + sigBuf.length) - sigLen := by
    rw [splice_length]; have := L.oldInside; simp [zeros]; omega
  rw [hsp, sem_hdrPatches_getElem? h3 _ rs L.ranges (by rw [hl1]; have := L.hdrBelow; have := L.oldInside; omega)]
  by_cases c0 : inRanges rs i
  · simp [c0]
  · simp only [c0, Bool.false_eq_true, ↓reduceIte]
    rw [getElem?_splice _ _ _ _ hcs]
    have hzl : (zeros padding ++ sigBuf).length = padding + sigBuf.length := by simp [zeros]
    rw [hzl]
    by_cases c1 : i < cs
    · simp [c1]
    · simp only [c1, ↓reduceIte]
      by_cases c2 : i < cs + padding
      · have c2' : i < cs + (padding + sigBuf.length) := by omega
        simp only [c2, c2', ↓reduceIte]
        rw [List.getElem?_append_left (by simp [zeros]; omega)]
        simp only [zeros, List.getElem?_replicate]
        have : i - cs < padding := by omega
        simp [this]
      · simp only [c2, ↓reduceIte]
        by_cases c3 : i < cs + padding + sigBuf.length
        · have c3' : i < cs + (padding + sigBuf.length) := by omega
          simp only [c3, c3', ↓reduceIte]
          rw [List.getElem?_append_right (by simp [zeros]; omega)]
          congr 1; simp [zeros]; omega
        · have c3' : ¬ i < cs + (padding + sigBuf.length) := by omega
          simp only [c3, c3', ↓reduceIte]

/-- the image `machos.Sign` feeds to the page hasher: patched header, rest of the file, padding; cut at `sigStart` -/
def hashedImage (f h3 : Bytes) (cs padding : Nat) : Bytes := (h3 ++ f.drop h3.length ++ zeros padding).take (cs + padding)

/-- **the ordering crux**: the hashed image IS the prefix of the written file, because the header that goes into the
    hash is the already-patched buffer and the patches are cut from that same buffer.  Needs: nothing behind the end
    of code except the old signature when padding is inserted (`padding = 0 ∨ f.length = cs`). -/
theorem hashed_eq_written_prefix (f h3 : Bytes) (rs : List (Nat × Nat)) (cs sigLen padding : Nat) (sigBuf : Bytes)
    (L : Layout f h3 rs cs sigLen) (hreg : padding = 0 ∨ f.length = cs) :
    (written f h3 rs cs sigLen padding sigBuf).take (cs + padding) = hashedImage f h3 cs padding := by
  apply List.ext_getElem?
  intro i
  have hcs : cs ≤ f.length := by have := L.oldInside; omega
  have hh := L.hdrBelow
  by_cases ci : i < cs + padding
  · rw [List.getElem?_take_of_lt ci, written_getElem? f h3 rs cs sigLen padding sigBuf L i]
    unfold hashedImage
    rw [List.getElem?_take_of_lt ci]
    have hfd : (f.drop h3.length).length = f.length - h3.length := by simp
    by_cases c0 : inRanges rs i
    · -- inside a patched range: below the end of the buffer
      have hlt : i < h3.length := by
        simp only [inRanges, List.any_eq_true, decide_eq_true_eq] at c0
        obtain ⟨r, hr, h1, h2⟩ := c0
        have := L.ranges r hr
        omega
      simp only [c0, ↓reduceIte]
      rw [List.append_assoc, List.getElem?_append_left hlt]
    · simp only [c0, Bool.false_eq_true, ↓reduceIte]
      by_cases c1 : i < cs
      · simp only [c1, ↓reduceIte]
        by_cases c2 : i < h3.length
        · rw [List.append_assoc, List.getElem?_append_left c2]
          exact (L.agree i c2 (by simpa using c0)).symm
        · rw [List.append_assoc, List.getElem?_append_right (by omega), List.getElem?_append_left (by rw [hfd]; omega),
            List.getElem?_drop]
          congr 1; omega
      · simp only [c1, ci, ↓reduceIte]
        rcases hreg with h0 | hfl
        · omega
        · rw [List.getElem?_append_right (by simp only [List.length_append, hfd]; omega)]
          simp only [List.length_append, hfd, zeros]
          rw [List.getElem?_replicate]
          have : i - (h3.length + (f.length - h3.length)) < padding := by omega
          simp [this]
  · rw [List.getElem?_eq_none_iff.mpr (by simp only [List.length_take]; omega)]
    unfold hashedImage
    rw [List.getElem?_eq_none_iff.mpr (by simp only [List.length_take]; omega)]

end Relic.MachO

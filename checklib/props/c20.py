"""C20 — health reporting follows token state with the configured hysteresis (server/view_health.go)."""
import os, subprocess
import runner

TIE = "corr:health + gen:healthloop"
TIE_THEOREM = ("Relic.Props.C20.healthy_iff / status_counts_trailing_failures (model Relic.Model.Health vs server.healthCheck, "
               "Healthy, serveHealth through GET /health); relic_health_loop_exits_on_close / relic_healthy_shape on the "
               "term regenerated from server/view_health.go")
RULE = ("exhaustive: thresholds 1..3 (thorough 1..4) x every ok/error history of length <=4 (<=6) on one token; every age in "
        "{future, 0, 1ms, 3I-1s, 3I-0.4s, 3I+0.4s, 3I+1s, 30I} x disabled x ok/error x 5 interval settings; plus seeded random "
        "histories: raw threshold in {1..5 mostly, 0 (normalised to 3), negative, 6..8}, 0..3 scripted fake tokens (each step a "
        "non-empty failing subset with per-history failure rate 10/50/80/95 %, outcomes ok/error/timeout with real 1 s context "
        "timeouts in ~3 % of histories), <=12 (thorough <=40) checks, healthLastPing moved to chosen ages in 30 % of steps, "
        "Disabled never/per-step/always; after every check GET /health through Server.Handler() and the shared counter are "
        "recorded. Plus the real healthCheckLoop run in a goroutine and closed after 0/1 (thorough 2, 3) checks. "
        "Non-trivial = distinct history with N>=1 in which /health changed its answer at least once or whose trailing-failure "
        "count reached N-1 or more, or a loop op.")
ASSUMPTIONS = ["a token's Ping honours its context (a Ping that ignores the deadline and later returns nil counts as success in pingOne)",
               "s.Closed is the channel closed by Server.Close (server.New / VerifNew wire closeCh and Closed to the same channel); observed dynamically by the loop ops",
               "statements the loop language calls `other`/`call` terminate (healthCheck is bounded by TokenCheckTimeout per token only if Ping honours its context)",
               "time: milliseconds; 3*interval does not overflow int64 nanoseconds; the exact boundary time.Since == 3*interval is covered by the regenerated comparison operator, not by execution",
               "Go runtime semantics of select: a receive from a closed channel is always ready; among ready cases the choice is arbitrary (schedules are universally quantified)"]
TRUSTED = ["model Relic.Model.Health is hand-written; tied to server/view_health.go by differential execution on every run",
           "tools/extracthealth (go/ast, ~300 lines): emits lean/Relic/Generated/HealthLoop.lean; anything outside the loop language becomes `.unsupported` and fails the obligation",
           "wall-clock jitter of time.Timer and the prometheus gauges are not modelled"]
UNPROVED = []
IMPL_PARALLEL = 16
GENERATED = os.path.join(runner.LEAN, "Relic", "Generated", "HealthLoop.lean")
OBLIGATIONS = ["Relic.Props.C20.relic_health_loop_exits_on_close", "Relic.Props.C20.relic_healthy_shape"]


def generate(ctx):
    """T-gen: regenerate Relic/Generated/HealthLoop.lean from the current server/view_health.go"""
    tool = runner.build_tool("extracthealth")
    tmp = GENERATED + ".tmp"
    if os.path.exists(tmp):
        os.remove(tmp)
    r = runner.sh([tool, os.path.join(runner.REPO, "server", "view_health.go"), tmp])
    if r.returncode != 0 or not os.path.exists(tmp):
        raise runner.Broken("extracthealth failed on server/view_health.go", r.stdout[-2000:])
    new = open(tmp).read()
    old = open(GENERATED).read() if os.path.exists(GENERATED) else None
    if new != old:          # keep the mtime (and lake's cache) when nothing changed
        os.replace(tmp, GENERATED)
    else:
        os.remove(tmp)
    ctx["c20_generated"] = new
    return list(OBLIGATIONS)


def _impl(ops):
    env = dict(runner.GOENV)
    p = subprocess.run([runner.VH, "C20", "impl"], input="\n".join(ops) + "\n", stdout=subprocess.PIPE,
                       stderr=subprocess.DEVNULL, text=True, env=env, timeout=600)
    return p.stdout.split("\n")[:len(ops)]


def search_after_broken_obligation(ctx, broken):
    """An obligation on the regenerated term no longer elaborates.  If the term itself says the loop
    does not end on close, look for the concrete behaviour on the real code."""
    try:
        runner.lean_build(["relic_driver"])
    except runner.Broken:
        return []
    out = []
    # (1) the comparisons of Healthy: a changed operator/constant can be invisible to execution
    #     (time.Since == 3*interval exactly is never observed), so it is reported from the regenerated facts
    import re
    gen = ctx.get("c20_generated", "")
    m = re.search(r"def healthyShape : HealthyShape := (.*)", gen)
    expected = '⟨">", 3, ">", 0, true⟩'
    if m and m.group(1).strip() != expected:
        out.append(runner.Finding("broken-tie", "gen:healthloop", OBLIGATIONS[1], "", expected, m.group(1).strip(),
                                  "server.Healthy no longer has the shape `Disabled first; time.Since(healthLastPing) > 3*interval; "
                                  "healthStatus > 0` that Relic.Model.Health.healthy models (⟨staleOp, staleFactor, statusOp, statusRhs, "
                                  "disabledFirst⟩ regenerated from source; `?`/0/false = construct not found)"))
    # (2) the loop: if the regenerated term itself says it does not end on close, show it on the real code
    ops = ["C20 loop 1 60", "C20 loop 0 60"]
    model = runner.run_lines([runner.DRIVER], ops)
    if model and not model[0].startswith("exited"):
        for op, il in zip(ops, _impl(ops)):
            if not il.startswith("exited"):
                out.append(runner.Finding("counterexample", "gen:healthloop", OBLIGATIONS[0], op,
                                          "exited" + (" extra=0" if op.split()[2] != "0" else ""), il,
                                          "Server.Close() does not end healthCheckLoop: the goroutine did not return within 1 s "
                                          "(regenerated loop term: exitsOnClose = false; model says `%s`). Generated:\n%s" % (model[0], gen[-1100:])))
                break
        else:
            out.append(runner.Finding("broken-tie", "gen:healthloop", OBLIGATIONS[0], ops[0], "exitsOnClose term = true", model[0],
                                      "the regenerated loop term does not satisfy exitsOnClose but the real loop ended on close in this run. Generated:\n" + gen[-1100:]))
    return out


def _parse(op):
    f = op.split()
    n, iv, ntok, k = int(f[2]), int(f[3]), int(f[4]), int(f[5])
    steps = [s.split(",") for s in f[6:]]
    return n, iv, ntok, k, steps


def _spec(op):
    """the right-hand side of healthy_iff computed from the op alone (python), per step: (trailing, stale, disabled)"""
    n, iv, ntok, k, steps = _parse(op)
    N = 3 if n == 0 else n
    I = 1000 * (60 if iv == 0 else iv)
    tf, out = 0, []
    for o, age, d in steps:
        ok = all(c == "o" for c in o) if o != "-" else True
        tf = 0 if ok else tf + 1
        a = 0 if age == "-" else int(age)
        out.append((tf, 1 if a > 3 * I else 0, int(d)))
    return N, I, out


def _tag(tag):
    p = tag.split()
    N = int(p[0][2:]); I = int(p[1][2:])
    return N, I, [tuple(int(x) for x in s.split(",")) for s in p[2:]]


def nontrivial(op, mres, tag):
    f = op.split()
    if f[1] in ("loop", "slow", "loopmid", "idle", "busy"):
        return True
    if f[1] != "hist" or not mres.startswith("ok") or not tag:
        return False
    N, I, st = _tag(tag)
    if N < 1:
        return False
    codes = {x.split(":")[0] for x in mres.split()[1:]}
    return len(codes) > 1 or any(t >= N - 1 for t, _, _ in st)


def branch(op, mres, tag):
    f = op.split()
    if f[1] in ("loop", "loopmid"):
        return f[1] + ":" + mres
    if f[1] in ("slow", "idle", "busy"):
        return f[1] + ":" + mres
    if not mres.startswith("ok") or not tag:
        return "hist:" + mres.split(" ")[0]
    N, I, st = _tag(tag)
    why = set()
    for t, s, d in st:
        why.add("disabled" if d else "stale" if s else "count" if t >= N else "healthy")
    return "hist:N%s:%s" % ("<=0" if N < 1 else ">=1", "+".join(sorted(why)))


def predicate(op, il, mres, tag):
    """the property itself, on the implementation's behaviour"""
    f = op.split()
    if il.startswith("panic") or il.startswith("crash"):
        return ("Relic.Props.C20.healthy_iff", mres, "implementation crashed")
    if f[1] in ("loop", "loopmid"):
        # closing the server ends its background checking (whatever the model of the current loop says)
        if not il.startswith("exited"):
            return (OBLIGATIONS[0], "exited", "Server.Close() did not end healthCheckLoop within 1 s: " + il)
        if "extra=" in il and not il.endswith("extra=0"):
            return (OBLIGATIONS[0], "exited extra=0", "a health check ran after Close()")
        return None
    if f[1] == "idle":
        if il.split()[1:2] != ["200"] or "loop-not-ended" in il:
            return ("Relic.Props.C20.healthy_iff", "ok 200", "a server on which nothing is disabled and no check has failed (%s served tokens) "
                    "answered /health with %s after %s ms" % (f[2], il, f[4]))
        return None
    if f[1] == "busy":
        if il != "ok 200":
            return ("Relic.Props.C20.healthy_iff", "ok 200", "/health while a token ping hangs (previous round healthy, less than an interval "
                    "ago): " + il)
        return None
    if f[1] == "slow":
        ntok, ping, wait, iv = (int(x) for x in f[2:6])
        want = "200" if wait <= 3 * 1000 * (iv or 60) else "503"
        if il.startswith("ok") and il.split()[1] != want:
            return ("Relic.Props.C20.healthy_iff", "ok " + want,
                    "/health answered %s %d ms after a successful check round of %d ms completed (interval %d s): staleness must be "
                    "counted from the completion of the last check" % (il.split()[1], wait, ntok * ping, iv or 60))
        return None
    if f[1] != "hist" or not il.startswith("ok"):
        return None
    N, I, spec = _spec(op)
    if tag:
        tN, tI, tspec = _tag(tag)
        if (tN, tI, tspec) != (N, I, spec):
            return ("Relic.Props.C20.healthy_iff", "%s %s %s" % (N, I, spec), "python and Lean disagree on trailingFailures/stale for this op (harness defect)")
    if N < 1:
        return None          # the property quantifies over N >= 1; N <= 0 is covered by the tie only
    got = il.split()[1:]
    if len(got) != len(spec):
        return ("Relic.Props.C20.healthy_iff", mres, "wrong number of answers")
    for i, (g, (tf, stale, dis)) in enumerate(zip(got, spec)):
        code, status = g.split(":")
        want = "200" if (not dis and not stale and tf < N) else "503"
        if code != want:
            return ("Relic.Props.C20.healthy_iff", mres,
                    "step %d: /health answered %s, expected %s (N=%d trailingFailures=%d stale=%d disabled=%d)" % (i + 1, code, want, N, tf, stale, dis))
        if int(status) != N - min(N, tf):
            return ("Relic.Props.C20.status_counts_trailing_failures", mres,
                    "step %d: healthStatus=%s, expected %d (N=%d trailingFailures=%d)" % (i + 1, status, N - min(N, tf), N, tf))
    return None


def matches_known(k, op, il, mres, tag):
    return False


# --- DAEMON ops (server/daemon New / Serve / Close, internal/activation, zhttp recovery against the REAL daemon on loopback listeners):
# a further correspondence under the pseudo-property C20DMN, checklib/models/daemon.py; theorems in lean/Relic/Props/C20_Daemon.lean
import sys as _sys_dmn, os as _os_dmn
_sys_dmn.path.insert(0, _os_dmn.path.join(_os_dmn.path.dirname(_os_dmn.path.dirname(_os_dmn.path.abspath(__file__))), "models"))
import daemon as _dmn; _dmn.wrap(globals(), "C20")

/-
  C01 — Every signature relic produces verifies.   xar / flat package part (model `Relic.Model.Xar`).

  `Sign` works on the table of contents through etree (`/xar/toc`, `//file/data`, `//data/offset`), `Open` / `Verify` read
  what it wrote through `encoding/xml` structs: two readers with different rules (first vs last child, `Text()` vs all
  character data, untrimmed vs trimmed numbers).  `xar_sign_then_verify` shows that on regular documents they agree and that
  the verifier then finds the signature, compares the hash of exactly the TOC bytes the signer wrote, and finds every
  member's bytes at the shifted offset.  The hypotheses are what the xar tools produce; each one is needed:
  `xar_verify_needs_archived_checksum` (a member without `<archived-checksum>` is skipped by `Sign` but refused by `Verify`:
  listed finding FXAR1) and C03 `xar_front_member_lost` (members in front of the old signature area).
-/
import Relic.Proofs.XarSign
namespace Relic.Props.C01
open Relic Relic.Xar

/-- **xar_sign_then_verify.**  For every hash function `H` of the right output length, every hash kind the format has a
    number for, every key (certificate texts that parse, any chain length, RSA or not), every classic signature `rsa` of
    modulus length and every CMS blob `cms` that fits the reserved space and verifies over `H(compressed TOC)` (trailing
    zero padding is ignored by the BER reader): let `Sign` succeed on input `f` — header parsed, TOC at offset 28 decoded to
    document `t`, `/xar/toc` found, every `//file/data` with an `<archived-checksum>` hashed on the forward-only heap — where
    * `t` is a regular document (`regularDoc`: one `<toc>`; per `<file>` at most one `<data>`; per `<data>` one `<offset>`,
      at most one `<length>` / `<archived-checksum>`, numbers spelled as `ParseInt` accepts them) that `encoding/xml` accepts,
    * every `<data>` of non-zero length has an `<archived-checksum>` (`hsum`),
    * the old signature area (`origSigSize` = sum of the `<size>`s) lies inside the file and every member of non-zero length
      begins behind it (`MembersOk`).
    Then `Open` + `Verify` (digests on) on the patched file succeed and name the requested hash: the checksum comparison is
    over the compressed TOC bytes the signer wrote (`open_layout`), the CMS check over their hash, and every member check
    reads, at `newBase + offset + newSigSize − origSigSize`, the bytes `Sign` hashed at `base + offset` (`member_check_after`). -/
theorem xar_sign_then_verify (C : Crypto) (E : Env) (hE : E.Laws) (hH : ∀ k b, (C.H k b).length = k.size)
    (f : Bytes) (hk : HK) (ki : KeyInfo) (hki : ki.small) (so : SignOut) (rsa cms body : Bytes)
    (hs : (signPlan E f hk ki).run C = .ok so)
    (hb : newBytes C E so rsa cms = some body)
    (hrsa : rsa.length = ki.rsaSize.getD 0)
    (hc1 : ki.certTexts ≠ []) (hc2 : ∀ c ∈ ki.certTexts, E.certOk c = true)
    (hcms : C.cmsOk (cms ++ zeros (so.newSig.toNat - (so.hk.size + rsa.length + cms.length))) (C.H hk (E.encode so.tree).1) = true)
    (hd : Hdr) (k0 : HK) (t : Xml) (n : Nat) (x0 : XToc)
    (hp : parseHeader f = .ok (hd, k0)) (hdec : E.decode (region f 28 hd.clen) = some (t, n))
    (hreg : regularDoc E.num t = true) (hu : unmarshal E.num t = some x0)
    (hsum : ∀ p, prep E.num hk ki t = some p → ∀ d ∈ dRefs E.num none p.doc1, d.length ≠ 0 → d.sum ≠ none)
    (hm : MembersOk x0 so.origSig f.length) (h0 : 0 ≤ so.origSig) (hcl : 0 ≤ hd.clen)
    (h1 : 28 + hd.clen + so.origSig ≤ f.length)
    (hzl : (E.encode so.tree).1.length < 2 ^ 40) (hul : (E.encode so.tree).2 < 2 ^ 63) :
    ∃ v, (verifyPlan E (written f so.origTotal body) false).run C = .ok v ∧ v.hk = hk :=
  sign_then_verify_core C E hE hH f hk ki hki so rsa cms body hs hb hrsa hc1 hc2 hcms hd k0 t n x0 hp hdec hreg hu hsum hm h0 hcl h1
    hzl hul

/-- the statement the unchanged code does not meet: `Sign` succeeding on a document `encoding/xml` accepts implies that the
    result verifies (no regularity, no `<archived-checksum>`, no layout hypothesis) -/
def xar_sign_then_verify_full : Prop :=
  ∀ (C : Crypto) (E : Env), E.Laws → (∀ k b, (C.H k b).length = k.size) →
  ∀ (f : Bytes) (hk : HK) (ki : KeyInfo) (so : SignOut) (rsa cms body : Bytes),
    (signPlan E f hk ki).run C = .ok so → newBytes C E so rsa cms = some body →
    (∀ pad, C.cmsOk (cms ++ zeros pad) (C.H hk (E.encode so.tree).1) = true) →
    ∃ v, (verifyPlan E (written f so.origTotal body) false).run C = .ok v

/-! ### the hypotheses are satisfiable -/

/-- a regular document: one file with data and checksum, one directory with a nested file, white space, foreign elements -/
def xarSampleDoc (off1 off2 : String) : Xml :=
  .el "xar" [] [.tx "\n", .el "toc" [] [
    .el "creation-time" [] [.tx "2024-01-02T03:04:05"],
    .el "checksum" [("style", "sha1")] [.el "offset" [] [.tx "0"], .el "size" [] [.tx "20"]],
    .el "file" [("id", "1")] [.el "name" [] [.tx "a"], .tx " ",
      .el "data" [] [.el "length" [] [.tx "11"], .el "offset" [] [.tx off1], .el "encoding" [("style", "application/octet-stream")] [],
        .el "archived-checksum" [("style", "sha1")] [.tx "00"]]],
    .el "file" [("id", "2")] [.el "name" [] [.tx "d"], .el "type" [] [.tx "directory"],
      .el "file" [("id", "3")] [.el "ea" [] [.el "offset" [] [.tx "9"]],
        .el "data" [] [.el "offset" [] [.tx off2], .el "length" [] [.tx "0"]]]]]]

example (N : Num) (h1 : (N.atoi "20").2 = true) (h2 : (N.atoi "31").2 = true) (h3 : (N.atoi "11").2 = true) (h4 : (N.atoi "0").2 = true) :
    regularDoc N (xarSampleDoc "20" "31") = true := by
  simp [regularDoc, xarSampleDoc, splitFirst, regFileKids, regFile, regData, regDataKid, numOk, allTx, etext, count, named, h1, h2, h3, h4]

example : MembersOk ⟨emptySig, none, none, [.mk { offset := 20, length := 11, hasData := true } []]⟩ 20 645 :=
  ⟨by simp [flatXs, flatX], by simp [flatXs, flatX], by decide⟩

/-! ### why `<archived-checksum>` is a hypothesis -/

/-- `checkFiles` on the signing side never looks at a `<data>` without `<archived-checksum>` … -/
theorem xar_sign_skips_unsummed (d : DRef) (h : d.sum = none) : d.toRef? = none := by simp [DRef.toRef?, h]

/-- … **xar_verify_needs_archived_checksum**: while `Verify` hands every struct of non-zero length to `checkFile`, which
    refuses a style other than sha1 / sha256 / sha512 — the empty style of a missing element included — before it reads a
    byte.  So for such an archive `Sign` succeeds (exit 0) and relic's own verifier rejects the result, as it rejects the
    input's member check. -/
theorem xar_verify_needs_archived_checksum (C : Crypto) (f : Bytes) (base : Int) : ∀ (rs : List Ref),
    (∃ r ∈ rs, hkOfStyle r.style = none) → (checkAllAt f base rs).run C ≠ .ok ()
  | [], h => by obtain ⟨r, hr, _⟩ := h; simp at hr
  | x :: xs, h => by
    intro hok
    simp only [checkAllAt] at hok
    obtain ⟨u, h1, h2⟩ := run_bind_ok C _ _ _ hok
    obtain ⟨r, hr, hs⟩ := h
    simp only [List.mem_cons] at hr
    rcases hr with rfl | hr
    · rw [run_ok_iff] at h1
      unfold checkFileAt at h1
      simp [hs, Plan.fail] at h1
    · exact xar_verify_needs_archived_checksum C f base xs ⟨r, hr, hs⟩ h2

example : hkOfStyle "" = none := by decide

end Relic.Props.C01

/-
  Relic.Model.Binpatch — executable model of /repo/lib/binpatch/binpatch.go
  (Add, Dump, Load, Apply, applyRewrite, the in-place strategy) and of the
  reference semantics of a patch set.
-/
import Relic.Base.Bytes
namespace Relic.Binpatch
open Relic

structure Patch where
  off : Nat
  old : Nat
  blob : Bytes
  deriving Repr, DecidableEq

/-- The reference: "the original bytes with each listed range replaced by its blob".
    Ranges are replaced from the last to the first, so earlier offsets stay valid. -/
def sem (f : Bytes) (ps : List Patch) : Bytes :=
  ps.foldr (fun p acc => splice acc p.off p.old p.blob) f

/-! ### constructible call sequences -/

/-- ascending, non-overlapping, inside a file of length `n`, starting at or after `pos` -/
def wfFrom (n pos : Nat) : List Patch → Bool
  | [] => true
  | p :: ps => decide (pos ≤ p.off) && decide (p.off + p.old ≤ n) && wfFrom n (p.off + p.old) ps

/-- read position after the last patch -/
def endPos (pos : Nat) : List Patch → Nat
  | [] => pos
  | p :: ps => endPos (p.off + p.old) ps

/-! ### `PatchSet.Add` -/

/-- the tail of `Add`: the `for oldSize > uint32Max` splitting loop plus the final append.
    `M` is the constant `uint32Max` (a parameter so the thresholds can be exercised). -/
def addSplit (M off old : Nat) (blob : Bytes) : List Patch :=
  if _h : 0 < M ∧ M < old then ⟨off, M, []⟩ :: addSplit M (off + M) (old - M) blob
  else [⟨off, old, blob⟩]
termination_by old
decreasing_by omega

/-- `p.Add(offset, oldSize, blob)` on the patch list in call order. -/
def add (M : Nat) (ps : List Patch) (c : Patch) : List Patch :=
  match ps.getLast? with
  | some l =>
    if c.off = l.off + l.old ∧ l.old + c.old ≤ M ∧ l.blob.length + c.blob.length ≤ M then
      ps.dropLast ++ [⟨l.off, l.old + c.old, l.blob ++ c.blob⟩]
    else ps ++ addSplit M c.off c.old c.blob
  | none => ps ++ addSplit M c.off c.old c.blob

def build (M : Nat) (cs : List Patch) : List Patch := cs.foldl (add M) []

/-! ### `Dump` / `Load` -/

/-- insertion into a list sorted by offset (before equal offsets: `foldr` then gives a stable sort) -/
def insertByOff (p : Patch) : List Patch → List Patch
  | [] => [p]
  | q :: qs => if p.off ≤ q.off then p :: q :: qs else q :: insertByOff p qs

/-- `sort.Sort(sorter{p})` – modelled by a stable sort; see `C12.strict_sorted_perm_unique`
    for why instability cannot matter on builder output. -/
def sortByOff (ps : List Patch) : List Patch := ps.foldr insertByOff []

def dumpHeader (p : Patch) : Bytes :=
  beBytes 8 p.off ++ beBytes 4 p.old ++ beBytes 4 p.blob.length

/-- `Dump` of an already sorted list -/
def dumpSorted (ps : List Patch) : Bytes :=
  beBytes 4 1 ++ beBytes 4 ps.length ++ (ps.flatMap dumpHeader) ++ (ps.flatMap (·.blob))

def dump (ps : List Patch) : Bytes := dumpSorted (sortByOff ps)

/-- read `n` 16-byte patch headers -/
def loadHeaders : Nat → Bytes → Option (List (Nat × Nat × Nat) × Bytes)
  | 0, b => some ([], b)
  | n + 1, b =>
    if b.length < 16 then none else
    match loadHeaders n (b.drop 16) with
    | none => none
    | some (hs, rest) =>
      some ((beVal (b.take 8), beVal ((b.drop 8).take 4), beVal ((b.drop 12).take 4)) :: hs, rest)

def loadBlobs : List (Nat × Nat × Nat) → Bytes → Option (List Patch)
  | [], _ => some []
  | (off, old, new) :: hs, b =>
    if b.length < new then none else
    match loadBlobs hs (b.drop new) with
    | none => none
    | some ps => some (⟨off, old, b.take new⟩ :: ps)

/-- `binpatch.Load`. Trailing bytes after the last blob are ignored, as in Go. -/
def load (b : Bytes) : Res (List Patch) :=
  if b.length < 8 then .err "short" else
  if beVal (b.take 4) ≠ 1 then .err "version" else
  match loadHeaders (beVal ((b.drop 4).take 4)) (b.drop 8) with
  | none => .err "short"
  | some (hs, rest) =>
    match loadBlobs hs rest with
    | none => .err "short"
    | some ps => .ok ps

/-! ### `applyRewrite` -/

/-- the copy–skip–write loop; `pos` is the read position in the input file -/
def rewriteLoop (f : Bytes) (pos : Nat) : List Patch → Res Bytes
  | [] => .ok (f.drop pos)
  | p :: ps =>
    if p.off < pos then .err "outoforder"
    else if pos < p.off ∧ f.length < p.off then .err "shortcopy"
    else
      match rewriteLoop f (p.off + p.old) ps with
      | .ok rest => .ok ((f.drop pos).take (p.off - pos) ++ p.blob ++ rest)
      | e => e

def applyRewrite (f : Bytes) (ps : List Patch) : Res Bytes := rewriteLoop f 0 ps

/-! ### the in-place strategy -/

/-- `File.WriteAt(blob, off)`: an empty write does nothing; beyond EOF zero-fills -/
def writeAt (f : Bytes) (off : Nat) (blob : Bytes) : Bytes :=
  if blob.isEmpty then f
  else f.take off ++ List.replicate (off - f.length) 0 ++ blob ++ f.drop (off + blob.length)

/-- `File.Truncate(n)` -/
def truncate (f : Bytes) (n : Nat) : Bytes :=
  f.take n ++ List.replicate (n - f.length) 0

/-- the loop in `Apply` deciding whether an in-place overwrite is possible; returns the
    final size when it is -/
def inPlaceSize (flen : Nat) : List Patch → Nat → Option Nat
  | [], size => some size
  | p :: ps, size =>
    if p.old = p.blob.length then inPlaceSize flen ps size
    else if !ps.isEmpty then none
    else if p.off + p.old ≠ flen then none
    else inPlaceSize flen ps (p.off + p.blob.length)

def applyInPlace (f : Bytes) (ps : List Patch) (size : Nat) : Bytes :=
  truncate (ps.foldl (fun g p => writeAt g p.off p.blob) f) size

/-- `PatchSet.Apply(infile, outpath)`; `canOverwrite` = regular ∧ same inode ∧ nlink = 1.
    Returns the content found at the output path and which strategy ran. -/
def apply (f : Bytes) (ps : List Patch) (canOverwrite : Bool) : Res (Bytes × Bool) :=
  match (if canOverwrite then inPlaceSize f.length ps f.length else none) with
  | some size => .ok (applyInPlace f ps size, true)
  | none =>
    match applyRewrite f ps with
    | .ok g => .ok (g, false)
    | .err e => .err e
    | .panic s => .panic s
    | .diverge => .diverge

end Relic.Binpatch

/-
  The declarations `pullDown` collects from the ancestors (`collectSpaces`) against the namespace context
  Exclusive C14N starts from (`ctxMap`): the initial invariant of `Relic.Proofs.XmlExc`.
-/
import Relic.Proofs.XmlExc
namespace Relic.Xml
open Relic Relic.ExcC14N

theorem mapGet_ne_nil_iff (s : Bytes) : ∀ (m : SpaceMap), (∀ e ∈ m, e.2 ≠ []) → (mapGet m s ≠ [] ↔ ∃ e ∈ m, e.1 = s) := by
  intro m
  induction m with
  | nil => intro _; simp [mapGet]
  | cons e m ih =>
    intro hv
    obtain ⟨k, v⟩ := e
    simp only [mapGet]
    by_cases h : k = s
    · rw [if_pos h]
      constructor
      · intro _; exact ⟨(k, v), List.mem_cons_self, h⟩
      · intro _; exact hv (k, v) List.mem_cons_self
    · rw [if_neg h, ih (fun e he => hv e (List.mem_cons_of_mem _ he))]
      constructor
      · rintro ⟨e, he, hes⟩; exact ⟨e, List.mem_cons_of_mem _ he, hes⟩
      · rintro ⟨e, he, hes⟩
        rcases List.mem_cons.mp he with e1 | e1
        · subst e1; exact absurd hes h
        · exact ⟨e, e1, hes⟩

theorem mapSet_absent (s v : Bytes) : ∀ (m : SpaceMap), (∀ e ∈ m, e.1 ≠ s) → mapSet m s v = m ++ [(s, v)] := by
  intro m
  induction m with
  | nil => intro _; rfl
  | cons e m ih =>
    intro h
    obtain ⟨k, w⟩ := e
    have hk : k ≠ s := h (k, w) List.mem_cons_self
    simp only [mapSet, if_neg hk, List.cons_append]
    rw [ih (fun e he => h e (List.mem_cons_of_mem _ he))]

theorem collectAttrs_spec : ∀ (attrs : List Attr),
    (∀ a ∈ attrs, ∀ b ∈ attrs, ∀ p, getDecl a = some p → getDecl b = some p → a.value = b.value) →
    (∀ a ∈ attrs, ∀ p, getDecl a = some p → a.value ≠ []) →
    ∀ (m : SpaceMap), (∀ e ∈ m, e.2 ≠ []) →
    (∀ e ∈ collectAttrs m attrs, e.2 ≠ []) ∧
    ∀ p v, (p, v) ∈ collectAttrs m attrs ↔
      ((p, v) ∈ m ∨ ((∀ e ∈ m, e.1 ≠ p) ∧ ∃ a ∈ attrs, getDecl a = some p ∧ a.value = v)) := by
  intro attrs
  induction attrs with
  | nil =>
    intro _ _ m hv
    refine ⟨hv, ?_⟩
    intro p v
    simp [collectAttrs]
  | cons a as ih =>
    intro hU hD m hv
    have hU' : ∀ x ∈ as, ∀ b ∈ as, ∀ p, getDecl x = some p → getDecl b = some p → x.value = b.value :=
      fun x hx b hb => hU x (List.mem_cons_of_mem _ hx) b (List.mem_cons_of_mem _ hb)
    have hD' : ∀ x ∈ as, ∀ p, getDecl x = some p → x.value ≠ [] := fun x hx => hD x (List.mem_cons_of_mem _ hx)
    simp only [collectAttrs]
    cases hg : getDecl a with
    | none =>
      simp only
      obtain ⟨i1, i2⟩ := ih hU' hD' m hv
      refine ⟨i1, ?_⟩
      intro p v
      rw [i2 p v]
      constructor
      · rintro (h | ⟨h1, x, hx, h2⟩)
        · exact Or.inl h
        · exact Or.inr ⟨h1, x, List.mem_cons_of_mem _ hx, h2⟩
      · rintro (h | ⟨h1, x, hx, h2⟩)
        · exact Or.inl h
        · rcases List.mem_cons.mp hx with e | e
          · subst e; rw [hg] at h2; cases h2.1
          · exact Or.inr ⟨h1, x, e, h2⟩
    | some s =>
      simp only
      by_cases hm : mapGet m s ≠ []
      · rw [if_pos hm]
        obtain ⟨i1, i2⟩ := ih hU' hD' m hv
        refine ⟨i1, ?_⟩
        intro p v
        rw [i2 p v]
        constructor
        · rintro (h | ⟨h1, x, hx, h2⟩)
          · exact Or.inl h
          · exact Or.inr ⟨h1, x, List.mem_cons_of_mem _ hx, h2⟩
        · rintro (h | ⟨h1, x, hx, h2⟩)
          · exact Or.inl h
          · rcases List.mem_cons.mp hx with e | e
            · subst e
              rw [hg] at h2
              have hps : s = p := Option.some.inj h2.1
              obtain ⟨e, he, hes⟩ := (mapGet_ne_nil_iff s m hv).mp hm
              exact absurd (hes.trans hps) (h1 e he)
            · exact Or.inr ⟨h1, x, e, h2⟩
      · rw [if_neg hm]
        have habs : ∀ e ∈ m, e.1 ≠ s := by
          intro e he hes
          exact hm ((mapGet_ne_nil_iff s m hv).mpr ⟨e, he, hes⟩)
        rw [mapSet_absent s a.value m habs]
        have hav : a.value ≠ [] := hD a List.mem_cons_self s hg
        have hv' : ∀ e ∈ m ++ [(s, a.value)], e.2 ≠ [] := by
          intro e he
          rcases List.mem_append.mp he with h | h
          · exact hv e h
          · have : e = (s, a.value) := by simpa using h
            rw [this]; exact hav
        obtain ⟨i1, i2⟩ := ih hU' hD' _ hv'
        refine ⟨i1, ?_⟩
        intro p v
        rw [i2 p v]
        constructor
        · rintro (h | ⟨h1, x, hx, h2⟩)
          · rcases List.mem_append.mp h with h' | h'
            · exact Or.inl h'
            · have : (p, v) = (s, a.value) := by simpa using h'
              have hp : p = s := congrArg Prod.fst this
              have hvv : v = a.value := congrArg Prod.snd this
              subst hp
              exact Or.inr ⟨habs, a, List.mem_cons_self, hg, hvv.symm⟩
          · exact Or.inr ⟨fun e he => h1 e (List.mem_append_left _ he), x, List.mem_cons_of_mem _ hx, h2⟩
        · rintro (h | ⟨h1, x, hx, h2⟩)
          · exact Or.inl (List.mem_append_left _ h)
          · by_cases hps : p = s
            · subst hps
              have : x.value = a.value := hU x hx a List.mem_cons_self p h2.1 hg
              left
              apply List.mem_append_right
              rw [← h2.2, this]
              exact List.mem_singleton.mpr rfl
            · rcases List.mem_cons.mp hx with e | e
              · subst e; rw [hg] at h2; exact absurd (Option.some.inj h2.1).symm hps
              · right
                refine ⟨?_, x, e, h2⟩
                intro e' he'
                rcases List.mem_append.mp he' with h' | h'
                · exact h1 e' h'
                · have : e' = (s, a.value) := by simpa using h'
                  rw [this]; exact fun hh => hps hh.symm

/-- an ancestor's attribute list as namespace well-formedness gives it -/
def CtxWF (ctx : List (List Attr)) : Prop := ∀ l ∈ ctx, AttrsOK l ∧ DeclsOK l

theorem collectSpaces_spec : ∀ (ctx : List (List Attr)), CtxWF ctx → ∀ (m : SpaceMap), (∀ e ∈ m, e.2 ≠ []) →
    (∀ e ∈ ctx.foldl collectAttrs m, e.2 ≠ []) ∧
    ∀ p v, (p, v) ∈ ctx.foldl collectAttrs m ↔
      ((p, v) ∈ m ∨ ((∀ e ∈ m, e.1 ≠ p) ∧ lookup (ctxMap ctx) p = some v)) := by
  intro ctx
  induction ctx with
  | nil =>
    intro _ m hv
    refine ⟨hv, ?_⟩
    intro p v
    simp [ctxMap, lookup]
  | cons c rest ih =>
    intro hwf m hv
    have hc := hwf c List.mem_cons_self
    have hrest : CtxWF rest := fun l hl => hwf l (List.mem_cons_of_mem _ hl)
    have hU : ∀ a ∈ c, ∀ b ∈ c, ∀ p, getDecl a = some p → getDecl b = some p → a.value = b.value := by
      intro a ha b hb p hga hgb
      rw [decl_unique c hc.1 a b ha hb p hga hgb]
    have hD : ∀ a ∈ c, ∀ p, getDecl a = some p → a.value ≠ [] := fun a ha p hg => (hc.2 a ha p hg).1
    obtain ⟨c1, c2⟩ := collectAttrs_spec c hU hD m hv
    obtain ⟨i1, i2⟩ := ih hrest (collectAttrs m c) c1
    simp only [List.foldl_cons]
    refine ⟨i1, ?_⟩
    intro p v
    rw [i2 p v]
    have hmap : ctxMap (c :: rest) = bindDecls (ctxMap rest) c := rfl
    rw [hmap]
    constructor
    · rintro (h | ⟨h1, h2⟩)
      · rcases (c2 p v).mp h with h' | ⟨h3, a, ha, hg, hav⟩
        · exact Or.inl h'
        · right
          refine ⟨h3, ?_⟩
          rw [lookup_bind_own c hc.1 _ a ha p hg, hav]
      · right
        have hm : ∀ e ∈ m, e.1 ≠ p := fun e he => h1 e ((c2 e.1 e.2).mpr (Or.inl he))
        have hno : ∀ a ∈ c, getDecl a ≠ some p := by
          intro a ha hg
          exact h1 (p, a.value) ((c2 p a.value).mpr (Or.inr ⟨hm, a, ha, hg, rfl⟩)) rfl
        refine ⟨hm, ?_⟩
        rw [lookup_bind_none p c _ hno]
        exact h2
    · rintro (h | ⟨h1, h2⟩)
      · exact Or.inl ((c2 p v).mpr (Or.inl h))
      · by_cases hown : ∃ a ∈ c, getDecl a = some p
        · obtain ⟨a, ha, hg⟩ := hown
          rw [lookup_bind_own c hc.1 _ a ha p hg] at h2
          exact Or.inl ((c2 p v).mpr (Or.inr ⟨h1, a, ha, hg, Option.some.inj h2⟩))
        · have hno : ∀ a ∈ c, getDecl a ≠ some p := fun a ha hg => hown ⟨a, ha, hg⟩
          rw [lookup_bind_none p c _ hno] at h2
          right
          refine ⟨?_, h2⟩
          intro e he
          rcases (c2 e.1 e.2).mp he with h' | ⟨_, a, ha, hg, _⟩
          · exact h1 e h'
          · exact fun hh => hno a ha (by rw [hg, hh])

theorem lookup_ctxMap_xml (ctx : List (List Attr)) (h : CtxWF ctx) : lookup (ctxMap ctx) sXml = none := by
  induction ctx with
  | nil => rfl
  | cons c rest ih =>
    have hmap : ctxMap (c :: rest) = bindDecls (ctxMap rest) c := rfl
    rw [hmap, lookup_bind_none sXml c _ (fun a ha hg => ((h c List.mem_cons_self).2 a ha sXml hg).2 rfl)]
    exact ih (fun l hl => h l (List.mem_cons_of_mem _ hl))

/-- **the initial invariant** -/
theorem inv_init (ctx : List (List Attr)) (hwf : CtxWF ctx) (hx : ∀ attrs ∈ ctx, NoXmlnsName attrs) :
    Inv (collectSpaces ctx) (ctxMap ctx) [] := by
  obtain ⟨s1, s2⟩ := collectSpaces_spec ctx hwf [] (fun e he => by cases he)
  have hok : CtxOK ctx := by
    intro attrs hat a ha hg
    exact hx attrs hat a ha (Or.inl (getDecl_xmlns_name a hg))
  have hmem : ∀ e ∈ collectSpaces ctx, lookup (ctxMap ctx) e.1 = some e.2 := by
    intro e he
    rcases (s2 e.1 e.2).mp he with h | ⟨_, h⟩
    · cases h
    · exact h
  constructor
  · exact collectSpaces_ok ctx hok
  · intro e he hxml
    have := hmem e he
    rw [hxml, lookup_ctxMap_xml ctx hwf] at this
    cases this
  · intro e he
    exact ⟨hmem e he, s1 e he, by simp [lookup]⟩
  · intro p hp
    cases hl : lookup (ctxMap ctx) p with
    | none => rfl
    | some v =>
      have : (p, v) ∈ collectSpaces ctx := (s2 p v).mpr (Or.inr ⟨fun e he => (by cases he), hl⟩)
      exact absurd rfl (hp (p, v) this)

/-- **agreement with Exclusive C14N on the class without deviation trigger** -/
theorem canon_eq_excC14N_agree (ctx : List (List Attr)) (sp tag : Bytes) (attrs : List Attr) (kids : List Node)
    (hctx : CtxWF ctx) (hwf : WF (.elem sp tag attrs kids)) (hag : agree ctx (.elem sp tag attrs kids) = true) :
    canon ctx (.elem sp tag attrs kids) = excC14N ctx (.elem sp tag attrs kids) := by
  obtain ⟨_, a2, a3⟩ := agree_unpack ctx _ hag
  exact canon_eq_excC14N_of_inv ctx sp tag attrs kids (inv_init ctx hctx a2) hwf a3

end Relic.Xml

package c19

// Metamorphic oracle on the implementation: sign a generated document with xmldsig.Sign / SignEnveloping,
// re-serialise the signed document with a meaning-preserving transformation (must still verify) or apply a
// meaning-changing edit inside the signed region (must not verify).

import (
	"bytes"
	"crypto/x509"
	"fmt"
	"strings"

	"github.com/beevik/etree"

	"github.com/sassoftware/relic/v8/lib/xmldsig"

	"verifharness/hx"
)

var dbgErr bool

type rsOpt struct {
	r         *hx.Rng
	single    bool
	longEmpty bool
	charref   bool
	tagSpace  bool
	cdata     bool
}

func (o *rsOpt) escAttr(v string, q byte) string {
	var sb strings.Builder
	for _, c := range v {
		switch {
		case c == '<':
			sb.WriteString("&lt;")
		case c == '&':
			sb.WriteString("&amp;")
		case c == '>':
			sb.WriteString("&gt;")
		case c == rune(q) && q == '"':
			sb.WriteString("&quot;")
		case c == rune(q):
			sb.WriteString("&apos;")
		case c == '\t' || c == '\n' || c == '\r':
			fmt.Fprintf(&sb, "&#%d;", c)
		default:
			if o.charref && c > ' ' && o.r.Intn(4) == 0 {
				fmt.Fprintf(&sb, "&#x%X;", c)
			} else {
				sb.WriteRune(c)
			}
		}
	}
	return sb.String()
}

func (o *rsOpt) escText(v string) string {
	var sb strings.Builder
	for _, c := range v {
		switch {
		case c == '<':
			sb.WriteString("&lt;")
		case c == '&':
			sb.WriteString("&amp;")
		case c == '>':
			sb.WriteString("&gt;")
		case c == '\r':
			sb.WriteString("&#13;")
		default:
			if o.charref && c > ' ' && o.r.Intn(4) == 0 {
				fmt.Fprintf(&sb, "&#%d;", c)
			} else {
				sb.WriteRune(c)
			}
		}
	}
	return sb.String()
}

func (o *rsOpt) write(b *bytes.Buffer, t etree.Token) {
	switch n := t.(type) {
	case *etree.Element:
		b.WriteString("<" + n.FullTag())
		for _, a := range n.Attr {
			if o.tagSpace {
				b.WriteString([]string{"  ", "\n\t", " \r\n "}[o.r.Intn(3)])
			} else {
				b.WriteString(" ")
			}
			q := byte('"')
			if o.single {
				q = '\''
			}
			eq := "="
			if o.tagSpace {
				eq = " = "
			}
			b.WriteString(a.FullKey() + eq + string(q) + o.escAttr(a.Value, q) + string(q))
		}
		if o.tagSpace {
			b.WriteString(" ")
		}
		if len(n.Child) == 0 {
			if o.longEmpty {
				b.WriteString("></" + n.FullTag() + ">")
			} else {
				b.WriteString("/>")
			}
			return
		}
		b.WriteString(">")
		for _, c := range n.Child {
			o.write(b, c)
		}
		b.WriteString("</" + n.FullTag())
		if o.tagSpace {
			b.WriteString("\n")
		}
		b.WriteString(">")
	case *etree.CharData:
		if o.cdata && n.Data != "" && !strings.Contains(n.Data, "]]>") && !strings.Contains(n.Data, "\r") && o.r.Intn(2) == 0 {
			b.WriteString("<![CDATA[" + n.Data + "]]>")
		} else {
			b.WriteString(o.escText(n.Data))
		}
	case *etree.Comment:
		b.WriteString("<!--" + n.Data + "-->")
	case *etree.ProcInst:
		b.WriteString("<?" + n.Target)
		if n.Inst != "" {
			b.WriteString(" " + n.Inst)
		}
		b.WriteString("?>")
	case *etree.Directive:
		b.WriteString("<!" + n.Data + ">")
	}
}

func allElems(e *etree.Element, skip *etree.Element, out *[]*etree.Element) {
	if e == skip {
		return
	}
	*out = append(*out, e)
	for _, c := range e.ChildElements() {
		allElems(c, skip, out)
	}
}

// elements whose canonical form is covered by the signature
func signedRegion(root *etree.Element, flow string) (region []*etree.Element, regionRoot *etree.Element) {
	var sig *etree.Element
	if flow == "enveloped" {
		sig = root.SelectElement("Signature")
		allElems(root, sig, &region)
		regionRoot = root
	} else {
		sig = root
		regionRoot = sig.SelectElement("Object")
		allElems(regionRoot, nil, &region)
	}
	if si := sig.SelectElement("SignedInfo"); si != nil {
		allElems(si, nil, &region)
	}
	return
}

func isDeclAttr(a etree.Attr) bool {
	return (a.Space == "" && a.Key == "xmlns") || a.Space == "xmlns"
}

func applyKeep(kind string, r *hx.Rng, doc *etree.Document, o *rsOpt, prolog *string) {
	root := doc.Root()
	var els []*etree.Element
	allElems(root, nil, &els)
	all := kind == "keep-all"
	if kind == "keep-attr-order" || all {
		for _, e := range els {
			for i := len(e.Attr) - 1; i > 0; i-- {
				j := r.Intn(i + 1)
				e.Attr[i], e.Attr[j] = e.Attr[j], e.Attr[i]
			}
		}
	}
	if kind == "keep-single-quote" || all {
		o.single = true
	}
	if kind == "keep-empty-form" || all {
		o.longEmpty = true
	}
	if kind == "keep-comments" || all {
		for _, e := range els {
			if r.Intn(2) == 0 {
				e.InsertChildAt(r.Intn(len(e.Child)+1), etree.NewComment(" re-serialised "))
			}
		}
	}
	if kind == "keep-unused-ns" || all {
		for i, e := range els {
			if r.Intn(2) == 0 || i == 0 {
				e.CreateAttr(fmt.Sprintf("xmlns:zzunused%d", i), "urn:nobody:uses:this")
			}
		}
	}
	if kind == "keep-xmldecl" || all {
		*prolog = "<?xml version=\"1.0\" encoding=\"UTF-8\" standalone=\"yes\"?>\n<!-- prolog comment -->\n"
	}
	if kind == "keep-charref" || all {
		o.charref = true
	}
	if kind == "keep-tag-space" || all {
		o.tagSpace = true
	}
	if kind == "keep-cdata" || all {
		o.cdata = true
	}
	if kind == "keep-hoist-decl" || all {
		// move a prefixed declaration to the document element when that prefix is declared exactly once in the document
		count := map[string]int{}
		for _, e := range els {
			for _, a := range e.Attr {
				if a.Space == "xmlns" {
					count[a.Key]++
				}
			}
		}
		for _, e := range els[1:] {
			for _, a := range append([]etree.Attr(nil), e.Attr...) {
				if a.Space == "xmlns" && count[a.Key] == 1 {
					e.RemoveAttr("xmlns:" + a.Key)
					root.CreateAttr("xmlns:"+a.Key, a.Value)
				}
			}
		}
	}
}

// applyChange edits the signed region; returns false when the document offers no place for this edit
func applyChange(kind string, r *hx.Rng, doc *etree.Document, flow string) bool {
	region, _ := signedRegion(doc.Root(), flow)
	pick := func(ok func(e *etree.Element) bool) *etree.Element {
		var c []*etree.Element
		for _, e := range region {
			if ok(e) {
				c = append(c, e)
			}
		}
		if len(c) == 0 {
			return nil
		}
		return c[r.Intn(len(c))]
	}
	plainAttrs := func(e *etree.Element) []int {
		var ix []int
		for i, a := range e.Attr {
			if !isDeclAttr(a) {
				ix = append(ix, i)
			}
		}
		return ix
	}
	switch kind {
	case "change-text":
		e := pick(func(e *etree.Element) bool {
			for _, c := range e.Child {
				if cd, ok := c.(*etree.CharData); ok && cd.Data != "" {
					return true
				}
			}
			return false
		})
		if e == nil {
			e = region[r.Intn(len(region))]
			e.InsertChildAt(0, etree.NewText("x"))
			return true
		}
		for _, c := range e.Child {
			if cd, ok := c.(*etree.CharData); ok && cd.Data != "" {
				b := []rune(cd.Data)
				i := r.Intn(len(b))
				if b[i] == 'q' {
					b[i] = 'Q'
				} else {
					b[i] = 'q'
				}
				cd.SetData(string(b))
				return true
			}
		}
	case "change-attr-value", "change-attr-name", "change-attr-remove":
		e := pick(func(e *etree.Element) bool { return len(plainAttrs(e)) > 0 })
		if e == nil {
			return false
		}
		ix := plainAttrs(e)
		i := ix[r.Intn(len(ix))]
		switch kind {
		case "change-attr-value":
			e.Attr[i].Value += "x"
		case "change-attr-name":
			e.Attr[i].Key += "Zq"
		default:
			e.Attr = append(e.Attr[:i], e.Attr[i+1:]...)
		}
		return true
	case "change-attr-add":
		e := region[r.Intn(len(region))]
		e.CreateAttr("zzAdded", "1")
		return true
	case "change-elem-name":
		e := region[r.Intn(len(region))]
		e.Tag += "Zq"
		return true
	case "change-elem-order":
		// two adjacent child elements with different canonical forms
		var cands [][2]*etree.Element
		for _, e := range region {
			ce := e.ChildElements()
			for i := 0; i+1 < len(ce); i++ {
				a, _ := xmldsig.SerializeCanonical(ce[i])
				b, _ := xmldsig.SerializeCanonical(ce[i+1])
				if !bytes.Equal(a, b) && inRegion(region, ce[i]) && inRegion(region, ce[i+1]) {
					cands = append(cands, [2]*etree.Element{ce[i], ce[i+1]})
				}
			}
		}
		if len(cands) == 0 {
			return false
		}
		c := cands[r.Intn(len(cands))]
		p := c[0].Parent()
		i, j := c[0].Index(), c[1].Index()
		p.Child[i], p.Child[j] = p.Child[j], p.Child[i]
		p.ReindexChildren()
		return true
	case "change-elem-remove":
		e := pick(func(e *etree.Element) bool {
			return e.Parent() != nil && e.Parent().Parent() != nil && inRegion(region, e.Parent()) && e.Tag != "SignedInfo"
		})
		if e == nil {
			return false
		}
		e.Parent().RemoveChild(e)
		return true
	case "change-elem-add":
		e := region[r.Intn(len(region))]
		e.InsertChildAt(r.Intn(len(e.Child)+1), etree.NewElement("zzAdded"))
		return true
	case "change-whitespace":
		e := region[r.Intn(len(region))]
		e.InsertChildAt(r.Intn(len(e.Child)+1), etree.NewText(" "))
		return true
	case "change-ns-uri":
		// the URI bound to a prefix that an element of the signed region uses, declared inside the region
		e := pick(func(e *etree.Element) bool {
			for _, a := range e.Attr {
				if a.Space == "xmlns" && prefixUsedBelow(e, a.Key) {
					return true
				}
			}
			return false
		})
		if e == nil {
			return false
		}
		for i, a := range e.Attr {
			if a.Space == "xmlns" && prefixUsedBelow(e, a.Key) {
				e.Attr[i].Value += "-changed"
				return true
			}
		}
	case "change-pi":
		e := region[r.Intn(len(region))]
		e.InsertChildAt(r.Intn(len(e.Child)+1), etree.NewProcInst("injected", "after signing"))
		return true
	}
	return false
}

func inRegion(region []*etree.Element, e *etree.Element) bool {
	for _, x := range region {
		if x == e {
			return true
		}
	}
	return false
}

// is prefix p (declared on e) used by e or a descendant before being redeclared?
func prefixUsedBelow(e *etree.Element, p string) bool {
	if e.Space == p {
		return true
	}
	for _, a := range e.Attr {
		if a.Space == p {
			return true
		}
	}
	for _, c := range e.ChildElements() {
		if c.SelectAttr("xmlns:"+p) != nil {
			continue
		}
		if prefixUsedBelow(c, p) {
			return true
		}
	}
	return false
}

func doMeta(kind, flow, kk, hn string, seed uint64, docb []byte) string {
	r := hx.NewRng(seed)
	k := getKey(kk)
	hash := hashOf(hn)
	certs := []*x509.Certificate{k.cert}
	src, err := parseDoc(docb, "std")
	if err != nil {
		return "err parse"
	}
	var signed []byte
	sigpath := "Signature"
	var extra []*x509.Certificate
	if flow == "enveloped" {
		root := src.Root()
		opts := xmldsig.SignOptions{MsCompatHashNames: r.Bool() && hn != "sha224", IncludeKeyValue: true, IncludeX509: r.Bool()}
		if err := xmldsig.Sign(root, root, hash, k.priv, certs, opts); err != nil {
			return "err sign " + classify(err)
		}
		signed, err = src.WriteToBytes()
	} else {
		// the generated OPC-like document becomes the content of the <Object>
		obj := etree.NewElement("Object")
		obj.CreateAttr("Id", "idPackageObject")
		man := obj.CreateElement("Manifest")
		for _, c := range src.Root().ChildElements() {
			man.AddChild(c.Copy())
		}
		opts := xmldsig.SignOptions{UseRecC14n: true, IncludeKeyValue: r.Bool()}
		if !opts.IncludeKeyValue || r.Bool() {
			opts.IncludeX509 = true
		}
		sigel, err2 := xmldsig.SignEnveloping(obj, hash, k.priv, certs, opts)
		if err2 != nil {
			return "err sign " + classify(err2)
		}
		d := etree.NewDocument()
		d.SetRoot(sigel)
		signed, err = d.WriteToBytes()
		sigpath = "."
		if !opts.IncludeX509 {
			extra = certs
		}
	}
	if err != nil {
		return "err write"
	}
	doc, err := parseDoc(signed, "std")
	if err != nil {
		return "err reparse-signed"
	}
	o := &rsOpt{r: r}
	prolog := ""
	if strings.HasPrefix(kind, "keep") {
		applyKeep(kind, r, doc, o, &prolog)
	} else if !applyChange(kind, r, doc, flow) {
		// no place for this edit in this document: fall back to an edit that always applies
		if !applyChange("change-attr-add", r, doc, flow) {
			return "err no-edit"
		}
	}
	var b bytes.Buffer
	b.WriteString(prolog)
	o.write(&b, doc.Root())
	out, err := parseDoc(b.Bytes(), "std")
	if err != nil {
		return "err reparse-transformed"
	}
	if _, err := xmldsig.Verify(out.Root(), sigpath, extra); err != nil {
		if dbgErr {
			fmt.Println(err)
			fmt.Println(b.String())
		}
		return "ok fail #" + classify(err)
	}
	return "ok pass"
}

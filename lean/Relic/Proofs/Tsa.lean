/-
  Relic.Proofs.Tsa — helper definitions and lemmas for property C10 (model Relic.Model.Tsa).
-/
import Relic.Model.Tsa
namespace Relic.Tsa

/-- an attempt ends the loop: success, panic, divergence, or failure with the caller's context cancelled -/
def stops (c : Cfg) (r : Req) (w : Wire) : Bool :=
  match doOne c r w with
  | .err _ => decide (w = .cancel)
  | _ => true

/-- number of authorities that receive a request -/
def attempts (c : Cfg) (r : Req) : List Wire → Nat
  | [] => 0
  | w :: ws => if stops c r w then 1 else 1 + attempts c r ws

theorem tryFrom_contacted (c : Cfg) (r : Req) (ws : List Wire) :
    ∀ i last, (tryFrom c r i ws last).contacted = List.range' i (attempts c r ws) := by
  induction ws with
  | nil => intro i last; simp [tryFrom, attempts]
  | cons w ws ih =>
    intro i last
    cases hd : doOne c r w with
    | ok t => simp [tryFrom, attempts, stops, hd]
    | panic s => simp [tryFrom, attempts, stops, hd]
    | diverge => simp [tryFrom, attempts, stops, hd]
    | err e =>
      by_cases hcw : w = .cancel
      · subst hcw
        simp [tryFrom, attempts, stops, doOne]
      · simp only [tryFrom, attempts, stops, hd, hcw, if_false, decide_false]
        rw [ih (i + 1) e, show 1 + attempts c r ws = attempts c r ws + 1 from by omega]
        rfl

/-- neither panic nor divergence -/
def OkOrErr {α : Type} (x : Res α) : Prop := (∃ a, x = .ok a) ∨ (∃ e, x = .err e)

theorem p7Verify_ooe (t : Token) : OkOrErr (p7Verify t) := by
  unfold p7Verify OkOrErr
  repeat' split
  all_goals simp

theorem verifyMsToken_ooe (t : Token) (ed : Nat) : OkOrErr (verifyMsToken t ed) := by
  unfold verifyMsToken
  rcases p7Verify_ooe t with ⟨a, h⟩ | ⟨e, h⟩
  · simp only [h]
    unfold OkOrErr
    repeat' split
    all_goals simp
  · simp [h, OkOrErr]

theorem unpack_ooe (t : Token) : OkOrErr (unpack true t) := by
  unfold unpack OkOrErr
  split <;> simp

theorem sanityCheck_ooe (c : Cfg) (r : Req) (t : Token) (hg : c.guards = true) : OkOrErr (sanityCheck c r t) := by
  unfold sanityCheck
  rcases p7Verify_ooe t with ⟨a, h⟩ | ⟨e, h⟩
  · simp only [h, hg]
    rcases unpack_ooe t with ⟨i, hu⟩ | ⟨e, hu⟩
    · simp only [hu]
      unfold OkOrErr
      split
      · simp
      · repeat' split
        all_goals simp
    · simp [hu, OkOrErr]
  · simp [h, OkOrErr]

theorem doOne_ooe (c : Cfg) (r : Req) (w : Wire) (hg : c.guards = true) (ht : c.timeout = true) :
    OkOrErr (doOne c r w) := by
  cases w with
  | reset => simp [doOne, OkOrErr]
  | hang => simp [doOne, ht, OkOrErr]
  | cancel => simp [doOne, OkOrErr]
  | http code b =>
    simp only [doOne]
    split
    · simp [OkOrErr]
    · cases b with
      | garbage => simp [parseBody, OkOrErr]
      | b64 o =>
        cases o with
        | none => simp [parseBody, OkOrErr]
        | some t =>
          simp only [parseBody]
          split
          · split
            · rcases verifyMsToken_ooe t r.imprint with ⟨a, h⟩ | ⟨e, h⟩ <;> simp [h, OkOrErr]
            · simp [OkOrErr]
          · simp [OkOrErr]
      | der st t tr =>
        simp only [parseBody]
        split
        · simp [OkOrErr]
        · split
          · simp [OkOrErr]
          · split
            · simp [OkOrErr]
            · exact sanityCheck_ooe c r t hg

/-- in a tree with the guards and a client timeout an attempt stops the loop only by succeeding or by cancellation -/
theorem stops_iff (c : Cfg) (r : Req) (w : Wire) (hg : c.guards = true) (ht : c.timeout = true) :
    stops c r w = true ↔ (∃ t, doOne c r w = .ok t) ∨ w = .cancel := by
  unfold stops
  rcases doOne_ooe c r w hg ht with ⟨a, h⟩ | ⟨e, h⟩ <;> simp [h]

/-- result of the loop: a success comes from the first authority whose reply is accepted -/
theorem tryFrom_ok (c : Cfg) (r : Req) (ws : List Wire) :
    ∀ i last s t, (tryFrom c r i ws last).res = .ok (s, t) →
      ∃ k w, s = .url (i + k) ∧ ws[k]? = some w ∧ doOne c r w = .ok t ∧
        ∀ j w', j < k → ws[j]? = some w' → ∃ e, doOne c r w' = .err e := by
  induction ws with
  | nil => intro i last s t h; simp [tryFrom] at h
  | cons w ws ih =>
    intro i last s t h
    simp only [tryFrom] at h
    cases hd : doOne c r w with
    | ok t' =>
      simp only [hd] at h
      have h' : Src.url i = s ∧ t' = t := by simpa using h
      obtain ⟨hs, ht⟩ := h'
      subst hs ht
      exact ⟨0, w, by simp, by simp, hd, by intro j w' hj; omega⟩
    | panic s' => simp [hd] at h
    | diverge => simp [hd] at h
    | err e =>
      simp only [hd] at h
      by_cases hcw : w = .cancel
      · simp [hcw] at h
      · simp only [hcw, if_false] at h
        obtain ⟨k, w1, hs, hk, hok, hbefore⟩ := ih (i + 1) e s t h
        refine ⟨k + 1, w1, by rw [hs]; congr 1; omega, by simpa using hk, hok, ?_⟩
        intro j w' hj hw'
        cases j with
        | zero =>
          have : w = w' := by simpa using hw'
          subst this
          exact ⟨e, hd⟩
        | succ j => exact hbefore j w' (by omega) (by simpa using hw')

/-- every authority failing makes the client fail (never a success out of nothing) -/
theorem tryFrom_all_fail (c : Cfg) (r : Req) (ws : List Wire) :
    ∀ i last, (∀ w, w ∈ ws → ∃ e, doOne c r w = .err e) → ∃ e, (tryFrom c r i ws last).res = .err e := by
  induction ws with
  | nil => intro i last _; exact ⟨_, rfl⟩
  | cons w ws ih =>
    intro i last hall
    obtain ⟨e, he⟩ := hall w (by simp)
    simp only [tryFrom, he]
    by_cases hcw : w = .cancel
    · simp [hcw]
    · simp only [hcw, if_false]
      exact ih (i + 1) e (fun w' hw' => hall w' (by simp [hw']))

def reqOf (H : Nat → Nat) (legacy : Bool) (nonce ed : Nat) : Req := ⟨legacy, nonce, if legacy then ed else H ed⟩

/-- what the post-attachment self-check establishes: the token covers this very signature value, its own
messageDigest attribute matches that content (`mdOK`) and its signature verifies (`sigOK`) -/
def Covers (H : Nat → Nat) (t : Token) (ed : Nat) : Prop :=
  t.sigOK = true ∧ t.mdOK = true ∧ ((∃ i, t.content = .tst i ∧ i.imprint = H ed ∧ i.algOK = true) ∨ t.content = .data ed)

theorem verifyRfc_covers {H g t ed cs} (h : verifyRfcToken H g t ed = .ok cs) :
    Covers H t ed ∧ cs.cert = t.tsa ∧ ∃ i, t.content = .tst i ∧ cs.time = i.time := by
  simp only [verifyRfcToken] at h
  split at h <;> try (simp at h; done)
  split at h <;> try (simp at h; done)
  rename_i i hu
  split at h <;> try (simp at h; done)
  split at h <;> try (simp at h; done)
  split at h <;> try (simp at h; done)
  rename_i himp hmd hsig
  have hcont : t.content = .tst i := by
    unfold unpack at hu
    split at hu <;> (try split at hu) <;> simp_all
  have hcs : cs = ⟨i.time, t.tsa, t.serial⟩ := by simpa using h.symm
  have himp' : i.algOK = true ∧ i.imprint = H ed := by
    constructor
    · cases ha : i.algOK <;> simp_all
    · apply Classical.byContradiction; intro hne; exact himp (Or.inr hne)
  refine ⟨⟨by simpa using hsig, by simpa using hmd, Or.inl ⟨i, hcont, himp'.2, himp'.1⟩⟩, by simp [hcs], i, hcont, by simp [hcs]⟩

theorem verifyMs_covers {H : Nat → Nat} {t ed cs} (h : verifyMsToken t ed = .ok cs) : Covers H t ed ∧ cs.cert = t.tsa := by
  simp only [verifyMsToken, p7Verify] at h
  split at h <;> try (simp at h; done)
  rename_i hp
  split at hp <;> try (simp at hp; done)
  split at hp <;> try (simp at hp; done)
  split at hp <;> try (simp at hp; done)
  split at hp <;> try (simp at hp; done)
  rename_i _ _ hmd hso
  split at h <;> try (simp at h; done)
  rename_i hd
  split at h <;> try (simp at h; done)
  have hcs : cs.cert = t.tsa := by
    have := h; simp at this; rw [← this]
  exact ⟨⟨by simpa using hso, by simpa using hmd, Or.inr (by simpa using hd)⟩, hcs⟩

theorem verifyCs_covers {H : Nat → Nat} {t ed cs} (h : verifyCounterSign t ed = .ok cs) : Covers H t ed ∧ cs.cert = t.tsa := by
  simp only [verifyCounterSign] at h
  split at h <;> try (simp at h; done)
  rename_i hd
  split at h <;> try (simp at h; done)
  rename_i hso
  split at h <;> try (simp at h; done)
  have hcs : cs.cert = t.tsa := by
    have := h; simp at this; rw [← this]
  have hd' : t.content = .data ed ∧ t.mdOK = true := by
    constructor
    · apply Classical.byContradiction; intro hne; exact hd (Or.inl hne)
    · cases hm : t.mdOK
      · exact absurd (Or.inr hm) hd
      · rfl
  exact ⟨⟨by simpa using hso, hd'.2, Or.inr hd'.1⟩, hcs⟩

theorem signWith_ok {H g flow ed leaf o a} (h : (signWith H g flow ed leaf o).res = .ok a) :
    ∃ s t cs, o.res = .ok (s, t) ∧ a = ⟨ed, leaf, mkAttach flow t⟩ ∧ verifyAttach H g a = .ok cs := by
  unfold signWith at h
  cases ho : o.res with
  | ok p =>
    obtain ⟨s, t⟩ := p
    simp only [ho, attachAndCheck] at h
    split at h <;> try (simp at h; done)
    rename_i cs hv
    have ha : a = ⟨ed, leaf, mkAttach flow t⟩ := by simpa using h.symm
    exact ⟨s, t, cs, rfl, ha, by rw [ha]; exact hv⟩
  | err e => simp [ho] at h
  | panic s => simp [ho] at h
  | diverge => simp [ho] at h

theorem mkAttach_token (flow : Flow) (t : Token) : (mkAttach flow t).token? = some t := by
  cases flow <;> rfl

theorem verifyAttach_some {H g ed leaf flow t cs} (h : verifyAttach H g ⟨ed, leaf, mkAttach flow t⟩ = .ok cs) :
    ∃ c, cs = some c := by
  cases flow <;> simp only [verifyAttach, mkAttach] at h
  all_goals (split at h <;> simp at h; exact ⟨_, h.symm⟩)

end Relic.Tsa

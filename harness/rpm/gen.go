package rpm

import (
	"bufio"
	"encoding/binary"
	"errors"
	"fmt"
	"os"
	"path/filepath"
	"strings"

	rpmutils "github.com/sassoftware/go-rpmutils"

	"verifharness/hx"
)

// readAndDump: rpmutils.ReadHeader then DumpSignatureHeader(true) (the header round trip, on the real library)
func readAndDump(f []byte) ([]byte, error) {
	p := tmpFile(f)
	defer os.Remove(p)
	fh, err := os.Open(p)
	if err != nil {
		return nil, err
	}
	defer fh.Close()
	h, err := rpmutils.ReadHeader(fh)
	if err != nil {
		return nil, err
	}
	if h == nil {
		return nil, errors.New("nil header")
	}
	return h.DumpSignatureHeader(true)
}

const t0 = 1700000000

var signAlgs = []int{8, 2, 10, 9, 11}

func fixture() []byte {
	repo := os.Getenv("VERIF_REPO")
	if repo == "" {
		repo = "/repo"
	}
	m, _ := filepath.Glob(filepath.Join(repo, "functest/packages/*.rpm"))
	for _, p := range m {
		if b, err := os.ReadFile(p); err == nil && len(b) < 60000 {
			return b
		}
	}
	return nil
}

func trustOf(keys ...int) string {
	var s []string
	for _, k := range keys {
		s = append(s, fmt.Sprint(keyID(k)))
	}
	return strings.Join(s, ",")
}

// validVariants: well-formed packages around every branch of the signer and of DumpSignatureHeader
func validVariants(r *hx.Rng, n int) []*Spec {
	var out []*Spec
	for i := 0; i < n; i++ {
		s := baseSpec(r)
		switch i % 14 {
		case 1: // already signed the way relic signs
			k, a := r.Intn(2), signAlgs[r.Intn(len(signAlgs))]
			s.Sigs = []PreSig{{Tag: 268, Key: k, Alg: a, Time: t0 - 5}, {Tag: 1002, Key: k, Alg: a, Time: t0 - 5}}
		case 2: // legacy slots
			k := r.Intn(2)
			s.Sigs = []PreSig{{Tag: 267, Key: k, Alg: 2, Time: t0 - 9}, {Tag: 1005, Key: k, Alg: 2, Time: t0 - 9}}
		case 3: // header-only signature alone
			s.Sigs = []PreSig{{Tag: 268, Key: r.Intn(2), Alg: 8, Time: t0 - 7}}
		case 4: // two signers
			s.Sigs = []PreSig{{Tag: 268, Key: 0, Alg: 8, Time: t0 - 7}, {Tag: 1002, Key: 1, Alg: 10, Time: t0 - 6}}
		case 5: // no regions, unsorted, 64-bit size
			s.GenRegion, s.SigRegion, s.Sorted, s.LongSize = false, false, false, true
		case 6: // unknown tags, one of them aligned and behind the reserved space
			s.SigExtra = []TagV{binTag(999, r.Bytes(r.Pick(1, 3, 5))), strTag(100, "x"), i16Tag(2000, 7), i64Tag(1009, 1, 2), i32Tag(70, 9)}
			if s.Reserved < 0 {
				s.Reserved = r.Pick(3, 700, 1301)
			}
		case 7: // payload digest only
			s.Md5, s.PayloadAlg = false, r.Pick(8, 2, 10)
		case 8: // legacy MD5 only, no header digest at all
			s.PayloadAlg, s.Sha1, s.Sha256 = 0, false, false
		case 9: // one-character SHA1 value: the comparison is skipped (`len(hash) > 1`)
			x := "x"
			s.Sha1Text, s.Sha256 = &x, false
		case 10: // epoch in other integer types
			s.Epoch, s.EpochType = int64(r.Pick(0, 3)), int32(r.Pick(3, 5))
		case 11: // source package, algorithm tag as INT16
			s.Source, s.PayloadAlg, s.PayloadAlgType = true, 8, 3
		case 12: // all four slots filled
			s.Sigs = []PreSig{{Tag: 267, Key: 1, Alg: 2, Time: t0 - 9}, {Tag: 268, Key: 0, Alg: 8, Time: t0 - 8}, {Tag: 1002, Key: 0, Alg: 8, Time: t0 - 8}, {Tag: 1005, Key: 1, Alg: 2, Time: t0 - 9}}
		case 13: // tags below 64 other than the region (dropped by WriteTo), duplicate tag
			s.SigExtra = []TagV{binTag(10, []byte{1, 2}), binTag(63, make([]byte, 16)), strTag(269, "zz")}
			s.Sorted = false
		}
		out = append(out, s)
	}
	return out
}

// unsignable / irregular but parseable inputs
func oddVariants(r *hx.Rng) []*Spec {
	var out []*Spec
	mk := func(f func(s *Spec)) {
		s := baseSpec(r)
		f(s)
		out = append(out, s)
	}
	mk(func(s *Spec) { s.Md5, s.PayloadAlg = false, 0 })                     // no usable payload digest
	mk(func(s *Spec) { s.BadMd5, s.PayloadAlg = true, 0 })                   // md5 mismatch
	mk(func(s *Spec) { s.BadMd5, s.PayloadAlg = true, 8 })                   // wrong md5 beside a good payload digest: never compared
	mk(func(s *Spec) { s.BadSha1, s.Sha256 = true, true })                   // wrong sha1 beside a good sha256: never compared
	mk(func(s *Spec) { s.BadSha1, s.Sha256 = true, false })                  // wrong sha1
	mk(func(s *Spec) { s.BadSha256, s.Sha256 = true, true })                 // wrong sha256
	mk(func(s *Spec) { s.PayloadAlg, s.BadPayloadDigest = 8, true })         // wrong payload digest
	mk(func(s *Spec) { s.PayloadAlg, s.PayloadAlgType = 8, 5 })              // INT64 algorithm tag: ignored, falls back to md5
	mk(func(s *Spec) { s.PayloadAlg = 3 })                                   // unknown algorithm number: ignored
	mk(func(s *Spec) { s.Drop = map[int32]bool{1000: true} })                // no NAME
	mk(func(s *Spec) { s.Drop = map[int32]bool{1022: true} })                // no ARCH
	mk(func(s *Spec) { s.Drop = map[int32]bool{1001: true, 1002: true} })    // no VERSION / RELEASE
	mk(func(s *Spec) { s.EmptyCount = map[int32]bool{1000: true} })          // NAME with count 0
	mk(func(s *Spec) { s.Epoch, s.EpochType = 1, 6 })                        // EPOCH as a string
	mk(func(s *Spec) { s.Name = "a-0:b"; s.Epoch = 0 })                      // "-0:" inside the name
	mk(func(s *Spec) { s.EmptyCount = map[int32]bool{5092: true}; s.PayloadAlg = 8 }) // PAYLOADDIGEST with count 0
	return out
}

func emitSign(w *bufio.Writer, f []byte, key, alg int, t int64) {
	pgp, rsa := newSigs(f, key, alg, t)
	h, _ := tables(f)
	fmt.Fprintf(w, "RPM sign %s %d %d %d %s,%s %s\n", hx.Hex(f), key, alg, t, hx.Hex(pgp), hx.Hex(rsa), h)
}

func emitRt(w *bufio.Writer, f []byte, key, alg int, t int64, trust string) {
	pgp, rsa := newSigs(f, key, alg, t)
	h, p := tables(f, pgp, rsa)
	fmt.Fprintf(w, "RPM rt %s %d %d %d %s,%s %s %s %s\n", hx.Hex(f), key, alg, t, hx.Hex(pgp), hx.Hex(rsa), h, p, trust)
}

func emitVerify(w *bufio.Writer, g []byte, trust string, noChain bool, label string) {
	h, p := tables(g)
	fmt.Fprintf(w, "RPM verify %s %s %s %s %s %s\n", hx.Hex(g), trust, b01(noChain), h, p, label)
}

func emitDump(w *bufio.Writer, f []byte) {
	h, _ := tables(f)
	fmt.Fprintf(w, "RPM dump %s %s\n", hx.Hex(f), h)
}

type round struct {
	key, alg int
	t        int64
}

func emitHist(w *bufio.Writer, f []byte, rs []round) {
	var extra [][]byte
	var parts []string
	keys := map[int]bool{}
	for _, x := range rs {
		pgp, rsa := newSigs(f, x.key, x.alg, x.t)
		extra = append(extra, pgp, rsa)
		parts = append(parts, fmt.Sprintf("%d:%d:%d:%s:%s", x.key, x.alg, x.t, hx.Hex(pgp), hx.Hex(rsa)))
		keys[x.key] = true
	}
	h, p := tables(f, extra...)
	fmt.Fprintf(w, "RPM hist %s %s %s %s %s\n", hx.Hex(f), h, p, trustOf(0, 1), strings.Join(parts, ";"))
}

func signedSpec(r *hx.Rng, k, a int) *Spec {
	s := baseSpec(r)
	s.Sigs = []PreSig{{Tag: 268, Key: k, Alg: a, Time: t0}, {Tag: 1002, Key: k, Alg: a, Time: t0}}
	return s
}

func emitMutate(w *bufio.Writer, r *hx.Rng, g []byte, trust string) {
	l := readLayout(g)
	if !l.ok {
		return
	}
	pos := []int{0, 3, 4, 6, 7, 9, 10, 50, 78, 95, 96, 99, 103, 104, 107, 108, 111}
	for i := 0; i < len(l.sigTags) && i < 12; i++ {
		base := 112 + 16*i
		pos = append(pos, base+3, base+7, base+11, base+15)
	}
	store := 112 + 16*len(l.sigTags)
	for i := 0; i < 24; i++ {
		pos = append(pos, store+r.Intn(l.gen-store))
	}
	pos = append(pos, l.gen-1, l.gen-2, l.gen, l.gen+3, l.gen+11, l.gen+15, l.gen+16, l.gen+19, l.gen+23, l.gen+27, l.gen+31)
	for i := 0; i < 12; i++ {
		pos = append(pos, l.gen+r.Intn(l.pay-l.gen))
	}
	pos = append(pos, l.pay-1)
	if len(g) > l.pay {
		pos = append(pos, l.pay, len(g)-1, l.pay+(len(g)-l.pay)/2)
	}
	var ms []string
	for _, p := range pos {
		if p < 0 || p >= len(g) {
			continue
		}
		b := g[p] ^ byte(1<<uint(r.Intn(8)))
		if r.Intn(4) == 0 {
			b = byte(r.Intn(256))
		}
		ms = append(ms, fmt.Sprintf("%d:%d", p, b))
	}
	h, p := tables(g)
	fmt.Fprintf(w, "RPM mutate %s %s %s %s %d %s\n", hx.Hex(g), trust, h, p, len(ms), strings.Join(ms, " "))
}

// structural edits of signed packages (C02)
func genStructural(w *bufio.Writer, r *hx.Rng) {
	both := trustOf(0, 1)
	// the signed package itself, the same without a keyring (NoChain on / off), with another keyring
	s := signedSpec(r, 0, 8)
	g := s.Build()
	emitVerify(w, g, trustOf(0), true, "signed")
	emitVerify(w, g, "-", true, "no-keyring-nochain")
	emitVerify(w, g, "-", false, "no-keyring")
	emitVerify(w, g, trustOf(1), true, "other-keyring")
	emitVerify(w, g, "0", true, "empty-keyring")
	// a signature over the wrong stream / other bytes / followed by garbage / of another type
	for _, wr := range []int{1, 2} {
		for _, tag := range []int32{268, 1002, 267, 1005} {
			s := baseSpec(r)
			if len(s.Payload) == 0 {
				s.Payload = r.Bytes(9) // with an empty payload the two streams coincide
			}
			s.Sigs = []PreSig{{Tag: tag, Key: 0, Alg: 8, Time: t0, Wrong: wr}}
			emitVerify(w, s.Build(), both, true, fmt.Sprintf("wrong-stream-%d-%d", wr, tag))
		}
	}
	s = baseSpec(r)
	s.Sigs = []PreSig{{Tag: 268, Key: 0, Alg: 8, Time: t0, Append: []byte{0}}}
	emitVerify(w, s.Build(), both, true, "trailing")
	s = baseSpec(r)
	s.Sigs = []PreSig{{Tag: 1002, Key: 0, Alg: 8, Time: t0, Type: 6}}
	emitVerify(w, s.Build(), both, true, "sig-as-string")
	s = baseSpec(r)
	s.SigExtra = []TagV{binTag(268, []byte{0x88, 0x02, 0x04}), binTag(1002, nil)}
	emitVerify(w, s.Build(), both, true, "garbage-packets")
	// header-only signature, payload exchanged, legacy MD5 recomputed: nothing signed covers the payload
	s = baseSpec(r)
	s.PayloadAlg, s.Md5 = 0, true
	s.Payload = r.Bytes(40)
	s.Sigs = []PreSig{{Tag: 268, Key: 0, Alg: 8, Time: t0}}
	emitVerify(w, s.Build(), both, true, "header-only")
	s.Payload = r.Bytes(41)
	emitVerify(w, s.Build(), both, true, "header-only-payload-exchanged")
	// the same with a payload digest in the (signed) general header: caught
	s.PayloadAlg = 8
	g1 := s.Build()
	l := readLayout(g1)
	g2 := append([]byte{}, g1...)
	g2[len(g2)-1] ^= 1
	emitVerify(w, g1, both, true, "header-only-with-payload-digest")
	emitVerify(w, g2, both, true, "header-only-with-payload-digest-payload-changed")
	_ = l
	// unknown tags in the signature header, a second signature by the same key, by another key
	s = signedSpec(r, 1, 10)
	s.SigExtra = []TagV{binTag(999, r.Bytes(20)), strTag(5000, "anything")}
	emitVerify(w, s.Build(), both, true, "unknown-sig-tags")
	s = baseSpec(r)
	s.Sigs = []PreSig{{Tag: 267, Key: 0, Alg: 2, Time: t0}, {Tag: 268, Key: 0, Alg: 8, Time: t0}, {Tag: 1002, Key: 0, Alg: 10, Time: t0}, {Tag: 1005, Key: 0, Alg: 9, Time: t0}}
	emitVerify(w, s.Build(), both, true, "four-by-one-key")
	s.Sigs[3].Key = 1
	emitVerify(w, s.Build(), both, true, "two-keys")
	emitVerify(w, s.Build(), trustOf(0), true, "two-keys-one-trusted")
	// no signature at all; no digest at all
	s = baseSpec(r)
	emitVerify(w, s.Build(), both, true, "unsigned")
	s.Md5, s.PayloadAlg = false, 0
	emitVerify(w, s.Build(), both, true, "no-digest")
	// the lead: arbitrary bytes after the magic
	s = signedSpec(r, 0, 8)
	g = s.Build()
	copy(g[4:96], r.Bytes(92))
	emitVerify(w, g, both, true, "lead-scrambled")
	// appended bytes belong to the payload
	g = append(s.Build(), 0)
	emitVerify(w, g, both, true, "appended")
	// signature header of another package grafted
	a, b := signedSpec(r, 0, 8), signedSpec(r, 0, 8)
	b.Payload = r.Bytes(19)
	ga, gb := a.Build(), b.Build()
	la, lb := readLayout(ga), readLayout(gb)
	emitVerify(w, append(append([]byte{}, ga[:la.gen]...), gb[lb.gen:]...), both, true, "grafted")
}

// malformed: structure-aware corruption around every slice / index / length expression
func malformed(r *hx.Rng, i int) []byte {
	s := baseSpec(r)
	if r.Bool() {
		s = signedSpec(r, r.Intn(2), 8)
	}
	offs := func(n int) []int32 {
		return []int32{-1, 0, 1, int32(n - 1), int32(n), int32(n + 1), 0x7fffffff, -0x80000000, int32(n / 2)}
	}
	cnts := []int32{-1, 0, 1, 2, 16, 1000, 0x7fffffff, -0x80000000, 0x10000000}
	types := []int32{0, 1, 2, 3, 4, 5, 6, 7, 8, 9, 10, -1, 0x7fffffff}
	edit := func(ts []TagV) []TagV {
		if len(ts) == 0 {
			return ts
		}
		k := r.Intn(len(ts))
		store := 0
		for _, t := range ts {
			store += len(t.Data)
		}
		switch r.Intn(4) {
		case 0:
			v := offs(store + 16)[r.Intn(9)]
			ts[k].Off = &v
		case 1:
			ts[k].Count = cnts[r.Intn(len(cnts))]
		case 2:
			ts[k].Type = types[r.Intn(len(types))]
		case 3:
			v := offs(store + 16)[r.Intn(9)]
			ts[k].Off = &v
			ts[k].Count = cnts[r.Intn(len(cnts))]
			ts[k].Type = types[r.Intn(len(types))]
		}
		return ts
	}
	u := func(v uint32) *uint32 { return &v }
	if (i%12 == 10 || i%12 == 11 || i%12 == 1) && r.Bool() {
		s.Sha1, s.Sha256 = false, false
	}
	switch i % 12 {
	case 0:
		s.SigEdit = edit
	case 1:
		s.GenEdit = edit
	case 2:
		s.SigOpts.Entries = u([]uint32{0, 1, 0x10000000, 0x10000001, 0x0fffffff & 0x00500000, 0xffffffff, 0x00500000}[r.Intn(7)])
	case 3:
		s.SigOpts.Size = u([]uint32{0, 1, 7, 0xfffffff9, 0xffffffff, 0x06000000, 15}[r.Intn(7)])
	case 4:
		s.GenOpts.Entries = u([]uint32{0, 1, 0x10000000, 0x10000002, 0x00500000, 0xffffffff}[r.Intn(6)])
	case 5:
		s.GenOpts.Size = u([]uint32{0, 1, 0x06000000, 0xffffffff, 8}[r.Intn(5)])
	case 6: // the four tags nevra() needs, the digest tags the library indexes with [0]
		t := []int32{1000, 1001, 1002, 1022, 1003, 5092, 5093}[r.Intn(7)]
		if r.Bool() {
			s.Drop = map[int32]bool{t: true}
		} else {
			s.EmptyCount = map[int32]bool{t: true}
			s.PayloadAlg = 8
		}
	case 7: // SHA1 / SHA256 entries with count 0 / -1 / of another type
		tag := int32(r.Pick(269, 273))
		c, ty := cnts[r.Intn(3)], []int32{6, 8, 9, 7, 4}[r.Intn(5)]
		s.SigEdit = func(ts []TagV) []TagV {
			for k := range ts {
				if ts[k].Tag == tag {
					ts[k].Count, ts[k].Type = c, ty
				}
			}
			return ts
		}
		s.Sha256 = true
	case 8:
		v := []int32{0, 16, -16, 0x7fffffff, -0x80000000}[r.Intn(5)]
		s.SigOpts.TrailerOf = &v
		s.SigOpts.Magic = []uint32{0, 0x8eade800, 0x8eade801}[r.Intn(3)]
	}
	f := s.Build()
	l := readLayout(f)
	switch i % 12 {
	case 9: // truncation at and around every boundary
		cuts := []int{0, 1, 4, 95, 96, 97, 111, 112, 113}
		if l.ok {
			cuts = append(cuts, l.gen-1, l.gen, l.gen+1, l.gen+15, l.gen+16, l.gen+17, l.pay-1, l.pay, l.pay+1, len(f)-1)
		}
		c := cuts[r.Intn(len(cuts))]
		if c >= 0 && c < len(f) {
			f = f[:c]
		}
	case 10: // a field of an index entry overwritten in place (signature header or general header)
		base := 96
		if l.ok && r.Bool() {
			base = l.gen
		}
		if len(f) > base+16 {
			n := int(binary.BigEndian.Uint32(f[base+8:]))
			if n > 0 {
				at := base + 16 + 16*r.Intn(n) + 4*r.Intn(4)
				binary.BigEndian.PutUint32(f[at:], uint32([]int32{-1, 0, 1, 7, 6, 0x7fffffff, -0x80000000, 300, 64}[r.Intn(9)]))
			}
		}
	case 11: // random bytes
		for k := 0; k < 1+r.Intn(3); k++ {
			f[r.Intn(len(f))] = byte(r.Intn(256))
		}
	}
	return f
}

func genMalformed(w *bufio.Writer, r *hx.Rng, n int) {
	for i := 0; i < n; i++ {
		f := malformed(r, i)
		emitVerify(w, f, trustOf(0, 1), true, "mal")
		if i%2 == 0 {
			emitSign(w, f, r.Intn(2), 8, t0)
		}
	}
}

// Gen writes the RPM ops of one property
func Gen(w *bufio.Writer, seed uint64, tier string, prop string) {
	r := hx.NewRng(seed ^ 0x52504d)
	thorough := tier == "thorough"
	n := 28
	if thorough {
		n = 280
	}
	fx := fixture()
	switch prop {
	case "C01", "C03":
		for i, s := range validVariants(r, n) {
			f := s.Build()
			k, a := r.Intn(2), signAlgs[i%len(signAlgs)]
			emitRt(w, f, k, a, t0+int64(i), trustOf(k))
			if i%3 == 0 {
				emitSign(w, f, k, a, t0+int64(i))
			}
			if prop == "C03" {
				emitDump(w, f)
			}
		}
		for _, s := range oddVariants(r) {
			f := s.Build()
			emitRt(w, f, 0, 8, t0, trustOf(0))
		}
		if fx != nil {
			for _, a := range signAlgs {
				emitRt(w, fx, a%2, a, t0, trustOf(a%2))
			}
			emitDump(w, fx)
		}
	case "C06":
		for i, s := range append(validVariants(r, 14), oddVariants(r)...) {
			emitSign(w, s.Build(), i%2, 8, t0)
		}
		if fx != nil {
			emitSign(w, fx, 0, 8, t0)
		}
	case "C08":
		for i, s := range validVariants(r, n) {
			f := s.Build()
			var rs []round
			for j := 0; j < 2+r.Intn(3); j++ {
				rs = append(rs, round{r.Intn(2), signAlgs[r.Intn(len(signAlgs))], t0 + int64(10*i+j)})
			}
			emitHist(w, f, rs)
			if i%4 == 0 {
				emitRt(w, f, 0, 8, t0, trustOf(0))
			}
		}
		// reserved space around the size of the two new packets: shrink / exact / grow
		for res := 560; res <= 680; res += 8 {
			s := baseSpec(r)
			s.Reserved = res
			emitHist(w, s.Build(), []round{{0, 8, t0}, {1, 10, t0 + 1}, {0, 2, t0 + 2}})
		}
		if fx != nil {
			emitHist(w, fx, []round{{0, 8, t0}, {1, 2, t0 + 1}, {1, 10, t0 + 2}})
		}
	case "C02":
		m := 8
		if thorough {
			m = 80
		}
		for i := 0; i < m; i++ {
			k := r.Intn(2)
			s := signedSpec(r, k, signAlgs[i%len(signAlgs)])
			switch i % 4 {
			case 1:
				s.PayloadAlg, s.Md5 = 8, true
			case 2:
				s.PayloadAlg, s.Sha256, s.Sha1 = 0, false, false
			case 3:
				s.Reserved = 64
			}
			if len(s.Payload) == 0 {
				s.Payload = r.Bytes(9)
			}
			emitMutate(w, r, s.Build(), trustOf(k))
		}
		genStructural(w, r)
	case "C11":
		m := 140
		if thorough {
			m = 3000
		}
		genMalformed(w, r, m)
		for _, s := range oddVariants(r) {
			emitVerify(w, s.Build(), trustOf(0, 1), true, "odd")
		}
	}
}

/- the frame property for PowerShell: digesting the signed script finds the same text and hashes the same stream -/
import Relic.Proofs.PS
set_option linter.unusedSimpArgs false
set_option linter.unusedVariables false
namespace Relic.PS
open Relic

theorem digestLoop_ts_le (first : Bytes) (u16 : Bool) (k flen : Nat) (items : List Item) (saved h : Bytes) (ts pos : Nat)
    (H : Bytes) (T S : Nat) (e : digestLoop true true first u16 k flen items saved h ts pos = .ok (H, T, S)) : ts ≤ T := by
  induction items generalizing saved h ts pos with
  | nil =>
    simp only [digestLoop] at e
    injection e with e; injection e with e1 e2; injection e2 with e2 e3
    omega
  | cons it rest ih =>
    cases it with
    | bad => simp [digestLoop] at e
    | line l phys =>
      simp only [digestLoop] at e
      split at e
      · split at e
        · simp at e
        · split at e
          · simp at e
          · injection e with e; injection e with e1 e2; injection e2 with e2 e3
            omega
      · have := ih _ _ _ _ e
        omega

/-- **core of the frame property.**  Two runs of the digest loop over item lists with a common prefix `xs`.  In the first
    (the input) the prefix is followed by the line `p ++ x` and anything; in the second (the signed file) by the line
    `p ++ eol`, the begin marker and anything.  If the first run reports a text that ends exactly after `p`, the second
    reports the same stream and the same text size. -/
theorem digestLoop_frame (first eol : Bytes) (u16 : Bool) (flen flen' : Nat) (hk : 0 < eol.length)
    (p x : Bytes) (restf more : List Item) (ph1 ph2 ph3 : Nat)
    (hx : x = [] → restf = []) (nf : p ++ eol ≠ first) (hsfx : first.drop (first.length - eol.length) = eol) :
    ∀ (xs : List Item) (saved h : Bytes) (ts pos : Nat) (H : Bytes) (T S : Nat), Good xs →
      pos = ts + saved.length →
      digestLoop true true first u16 eol.length flen (xs ++ (.line (p ++ x) ph1 :: restf)) saved h ts pos = .ok (H, T, S) →
      T = pos + (joinItems xs).length + p.length →
      ∃ S', digestLoop true true first u16 eol.length flen' (xs ++ (.line (p ++ eol) ph2 :: .line first ph3 :: more)) saved h ts pos
        = .ok (H, T, S') := by
  intro xs
  induction xs with
  | nil =>
    intro saved h ts pos H T S _ hp e hT
    simp only [List.nil_append, joinItems, List.flatMap_nil, List.length_nil, Nat.add_zero] at e hT ⊢
    -- the second run: `p ++ eol` is not the marker, the next line is
    have run2 : digestLoop true true first u16 eol.length flen' (.line (p ++ eol) ph2 :: .line first ph3 :: more) saved h ts pos
        = .ok (h ++ conv u16 saved ++ conv u16 p, ts + saved.length + p.length,
               eol.length + first.length + (flen' - (pos + ph2 + ph3))) := by
      simp only [digestLoop, if_neg nf, if_true]
      rw [if_neg (by simp)]
      rw [if_neg (by
        intro hc
        apply hc.2
        rw [hsfx, List.length_append, Nat.add_sub_cancel, List.drop_left])]
      simp [List.length_append, List.take_append_of_le_length, Nat.add_assoc]
    rw [run2]
    suffices hh : H = h ++ conv u16 saved ++ conv u16 p ∧ T = ts + saved.length + p.length by
      rw [hh.1, hh.2]; exact ⟨_, rfl⟩
    -- the first run
    simp only [digestLoop] at e
    split at e
    · -- `p ++ x` is the marker: the text would end before `p`
      split at e
      · simp at e
      · split at e
        · simp at e
        · injection e with e; injection e with e1 e2; injection e2 with e2 e3
          simp only [List.length_take] at e2
          omega
    · cases restf with
      | nil =>
        simp only [digestLoop] at e
        injection e with e; injection e with e1 e2; injection e2 with e2 e3
        have hx0 : x = [] := by
          cases x with
          | nil => rfl
          | cons a as => simp only [List.length_append, List.length_cons] at e2; omega
        subst hx0
        simp only [List.append_nil] at e1 e2
        exact ⟨e1.symm, by omega⟩
      | cons it2 rest2 =>
        have hxne : x ≠ [] := by
          intro h0; have := hx h0; cases this
        have hxl : 0 < x.length := by
          cases x with
          | nil => exact absurd rfl hxne
          | cons a as => simp
        cases it2 with
        | bad => simp [digestLoop] at e
        | line l2 phys2 =>
          simp only [digestLoop] at e
          split at e
          · split at e
            · simp at e
            · rename_i hge
              split at e
              · simp at e
              · injection e with e; injection e with e1 e2; injection e2 with e2 e3
                simp only [List.length_take, List.length_append] at e2 hge
                have hxk : x.length = eol.length := by omega
                have : List.take ((p ++ x).length - eol.length) (p ++ x) = p := by
                  rw [List.length_append, hxk, Nat.add_sub_cancel, List.take_left' rfl]
                rw [this] at e1
                exact ⟨e1.symm, by omega⟩
          · have := digestLoop_ts_le _ _ _ _ _ _ _ _ _ _ _ _ e
            simp only [List.length_append] at this
            omega
  | cons it xs ih =>
    intro saved h ts pos H T S hg hp e hT
    cases it with
    | bad => simp [digestLoop] at e
    | line l phys =>
      simp only [List.cons_append, digestLoop] at e ⊢
      by_cases hl : l = first
      · rw [if_pos hl] at e ⊢
        split at e
        · simp at e
        · rename_i hge
          rw [if_neg hge]
          split at e
          · simp at e
          · rename_i hck
            rw [if_neg hck]
            injection e with e; injection e with e1 e2; injection e2 with e2 e3
            exact ⟨_, by rw [e1, e2]⟩
      · rw [if_neg hl] at e ⊢
        obtain ⟨b, hb⟩ := hg (.line l phys) (by simp)
        injection hb with hb1 hb2
        subst hb1
        subst hb2
        refine ih _ _ _ _ H T S (fun y hy => hg y (by simp [hy])) (by omega) e ?_
        simp only [joinItems, List.flatMap_cons, itemBytes, List.length_append] at hT ⊢
        omega

/-! ### splitting a concatenation into lines -/

/-- complete lines of `a` (UTF-8 mode), `cur` being the line read so far -/
def comp8 : Bytes → Bytes → List Item
  | _, [] => []
  | cur, b :: bs => if b = 10 then .line (cur ++ [10]) (cur.length + 1) :: comp8 [] bs else comp8 (cur ++ [b]) bs

/-- the unterminated last line -/
def pend8 : Bytes → Bytes → Bytes
  | cur, [] => cur
  | cur, b :: bs => if b = 10 then pend8 [] bs else pend8 (cur ++ [b]) bs

theorem lines8_append (cur a b : Bytes) : lines8 cur (a ++ b) = comp8 cur a ++ lines8 (pend8 cur a) b := by
  induction a generalizing cur with
  | nil => simp [comp8, pend8]
  | cons x xs ih =>
    simp only [List.cons_append, lines8, comp8, pend8]
    split
    · rw [ih]; simp
    · rw [ih]

theorem comp8_join (cur a : Bytes) : joinItems (comp8 cur a) ++ pend8 cur a = cur ++ a ∧ Good (comp8 cur a) := by
  induction a generalizing cur with
  | nil => exact ⟨by simp [comp8, pend8, joinItems], fun _ h => by simp [comp8] at h⟩
  | cons x xs ih =>
    simp only [comp8, pend8]
    split
    · rename_i hx
      obtain ⟨j, g⟩ := ih []
      refine ⟨?_, ?_⟩
      · simp only [joinItems, List.flatMap_cons, itemBytes] at j ⊢
        rw [List.append_assoc, j, hx]; simp
      · intro it hit
        rcases List.mem_cons.mp hit with h | h
        · exact ⟨cur ++ [10], by rw [h]; simp⟩
        · exact g it h
    · obtain ⟨j, g⟩ := ih (cur ++ [x])
      exact ⟨by rw [j]; simp, g⟩

theorem lines8_head (cur t : Bytes) : ∃ x restf ph, lines8 cur t = .line (cur ++ x) ph :: restf ∧ (x = [] → restf = []) := by
  induction t generalizing cur with
  | nil => exact ⟨[], [], cur.length, by simp [lines8], fun _ => rfl⟩
  | cons b bs ih =>
    simp only [lines8]
    split
    · exact ⟨[10], _, _, rfl, fun h => by cases h⟩
    · obtain ⟨x, r, ph, e, _⟩ := ih (cur ++ [b])
      exact ⟨b :: x, r, ph, by rw [e]; simp, fun h => by cases h⟩

theorem lines8_nolf (cur body r : Bytes) (h : ∀ y ∈ body, y ≠ 10) :
    lines8 cur (body ++ 10 :: r) = .line (cur ++ body ++ [10]) ((cur ++ body).length + 1) :: lines8 [] r := by
  induction body generalizing cur with
  | nil => simp [lines8]
  | cons y ys ih =>
    have hy : y ≠ 10 := h y (by simp)
    simp only [List.cons_append, lines8, if_neg hy]
    rw [ih (cur ++ [y]) (fun z hz => h z (by simp [hz]))]
    simp

/-! ### UTF-16 -/

def comp16 : Bytes → Bytes → List Item
  | _, [] => []
  | _, [_] => []
  | cur, a :: b :: bs =>
    if a = 10 ∧ b = 0 then .line (cur ++ [10, 0]) (cur.length + 2) :: comp16 [] bs else comp16 (cur ++ [a, b]) bs

def pend16 : Bytes → Bytes → Bytes
  | cur, [] => cur
  | cur, [b] => cur ++ [b]
  | cur, a :: b :: bs => if a = 10 ∧ b = 0 then pend16 [] bs else pend16 (cur ++ [a, b]) bs

theorem lines16_append (cur a b : Bytes) (he : a.length % 2 = 0) :
    lines16 cur (a ++ b) = comp16 cur a ++ lines16 (pend16 cur a) b := by
  fun_induction comp16 cur a with
  | case1 cur => simp [pend16]
  | case2 cur x => simp at he
  | case3 cur x y bs hxy ih =>
    have he' : bs.length % 2 = 0 := by simp only [List.length_cons] at he; omega
    simp only [List.cons_append, lines16, pend16, if_pos hxy]
    rw [ih he']
  | case4 cur x y bs hxy ih =>
    have he' : bs.length % 2 = 0 := by simp only [List.length_cons] at he; omega
    simp only [List.cons_append, lines16, pend16, if_neg hxy]
    rw [ih he']

theorem comp16_join (cur a : Bytes) : joinItems (comp16 cur a) ++ pend16 cur a = cur ++ a ∧ Good (comp16 cur a) := by
  fun_induction comp16 cur a with
  | case1 cur => exact ⟨by simp [pend16, joinItems], fun _ h => by simp at h⟩
  | case2 cur x => exact ⟨by simp [pend16, joinItems], fun _ h => by simp at h⟩
  | case3 cur x y bs hxy ih =>
    obtain ⟨j, g⟩ := ih
    obtain ⟨hx, hy⟩ := hxy
    refine ⟨?_, ?_⟩
    · simp only [pend16, if_pos (And.intro hx hy), joinItems, List.flatMap_cons, itemBytes] at j ⊢
      rw [List.append_assoc, j, hx, hy]; simp
    · intro it hit
      rcases List.mem_cons.mp hit with h | h
      · exact ⟨cur ++ [10, 0], by rw [h]; simp⟩
      · exact g it h
  | case4 cur x y bs hxy ih =>
    obtain ⟨j, g⟩ := ih
    exact ⟨by simp only [pend16, if_neg hxy]; rw [j]; simp, g⟩

theorem lines16_head (cur t : Bytes) : ∃ x restf ph, lines16 cur t = .line (cur ++ x) ph :: restf ∧ (x = [] → restf = []) := by
  fun_induction lines16 cur t with
  | case1 cur => exact ⟨[], [], cur.length, by simp, fun _ => rfl⟩
  | case2 cur b => exact ⟨[b], [], _, rfl, fun h => by cases h⟩
  | case3 cur a b bs hab ih => exact ⟨[10, 0], _, _, rfl, fun h => by cases h⟩
  | case4 cur a b bs hab ih =>
    obtain ⟨x, r, ph, e, _⟩ := ih
    exact ⟨a :: b :: x, r, ph, by rw [e]; simp, fun h => by cases h⟩

theorem lines16_nolf (cur body r : Bytes) (h : ∀ y ∈ body, y ≠ 10) :
    lines16 cur (widen body ++ 10 :: 0 :: r) =
      .line (cur ++ widen body ++ [10, 0]) ((cur ++ widen body).length + 2) :: lines16 [] r := by
  induction body generalizing cur with
  | nil => simp [lines16, widen]
  | cons y ys ih =>
    have hy : y ≠ 10 := h y (by simp)
    have hw : widen (y :: ys) = y :: 0 :: widen ys := by simp [widen]
    rw [hw]
    simp only [List.cons_append, lines16]
    rw [if_neg (by intro hc; exact hy hc.1)]
    rw [ih (cur ++ [y, 0]) (fun z hz => h z (by simp [hz]))]
    simp

/-! ### the signed script -/

theorem isUtf16_eq (l : Bytes) : isUtf16 l = decide (l.take 2 = [0xff, 0xfe]) := by
  match l with
  | [] => rfl
  | [a] => simp [isUtf16]
  | a :: b :: r =>
    simp only [List.take_succ_cons, List.take_zero]
    unfold isUtf16
    split
    · rename_i h; injection h with h1 h2; injection h2 with h2 h3; subst h1; subst h2; rfl
    · rename_i h
      symm
      apply decide_eq_false
      intro hc
      injection hc with h1 h2; injection h2 with h2 h3
      exact h r (by rw [h1, h2])

theorem widen_append (a b : Bytes) : widen (a ++ b) = widen a ++ widen b := by simp [widen]

def blockRest (st en sig : Bytes) : Bytes :=
  sigLines st en (base64 sig).length (base64 sig) ++ (st ++ psEnd ++ en ++ crlf)

theorem block_split8 (st en sig : Bytes) : block st en false sig = crlf ++ (firstLine st en false ++ blockRest st en sig) := by
  simp [block, firstLine, blockRest, List.append_assoc]

theorem block_split16 (st en sig : Bytes) :
    block st en true sig = widen crlf ++ (firstLine st en true ++ widen (blockRest st en sig)) := by
  simp [block, firstLine, blockRest, List.append_assoc, widen_append]

/-- the text of the begin marker contains no line feed, whatever the style -/
theorem marker_nolf (style : Nat) (st en : Bytes) (hs : styleOf style = some (st, en)) :
    ∀ y ∈ st ++ psBegin ++ en ++ [13], y ≠ 10 := by
  unfold styleOf at hs
  split at hs
  all_goals first
    | (injection hs with hs; injection hs with h1 h2; subst h1; subst h2; decide)
    | cases hs

/-- the last two bytes of the begin-marker line (UTF-16: the last four) are its CRLF: what fix F-ps-eol compares with -/
theorem firstLine_sfx8 (st en : Bytes) :
    (firstLine st en false).drop ((firstLine st en false).length - crlf.length) = crlf := by
  have : firstLine st en false = (st ++ psBegin ++ en) ++ crlf := by simp [firstLine]
  rw [this, List.length_append, Nat.add_sub_cancel, List.drop_left]

theorem firstLine_sfx16 (st en : Bytes) :
    (firstLine st en true).drop ((firstLine st en true).length - (widen crlf).length) = widen crlf := by
  have : firstLine st en true = widen (st ++ psBegin ++ en) ++ widen crlf := by simp [firstLine, widen_append]
  rw [this, List.length_append, Nat.add_sub_cancel, List.drop_left]

/-- UTF-8 (more precisely: not UTF-16 with BOM) scripts -/
theorem DigestPS_signed8 (f : Bytes) (style : Nat) (d : Digest) (st en sig : Bytes) (e : DigestPS f style = .ok d)
    (hs : styleOf style = some (st, en)) (hu : isUtf16 f = false)
    (hnf : ∀ l, l ++ crlf = firstLine st en false → ¬ l <:+ f.take d.textSize) :
    ∃ d', DigestPS (signedBytes f d st en sig) style = .ok d' ∧ d'.hashed = d.hashed ∧ d'.textSize = d.textSize ∧
      d'.utf16 = d.utf16 := by
  have H := DigestPS_spec f style d e
  have hz := H.sizes
  unfold DigestPS digestWith at e
  rw [hs] at e
  simp only [hu, Bool.false_eq_true, if_false] at e
  cases hl : digestLoop true true (firstLine st en false) false 2 f.length (lines8 [] f) [] [] 0 0 with
  | err _ => simp [hl] at e
  | panic _ => simp [hl] at e
  | diverge => simp [hl] at e
  | ok v =>
    obtain ⟨Hh, T, S⟩ := v
    simp only [hl] at e
    injection e with e
    subst e
    simp only at hz hnf ⊢
    -- split the file at the end of the text
    obtain ⟨text, tf, hf, hTl⟩ : ∃ text tf, f = text ++ tf ∧ text.length = T :=
      ⟨f.take T, f.drop T, (List.take_append_drop T f).symm, by simp [List.length_take]; omega⟩
    subst hf
    have htk : (text ++ tf).take T = text := List.take_left' hTl
    rw [htk] at hnf
    unfold signedBytes
    simp only [htk]
    rw [lines8_append] at hl
    obtain ⟨x, restf, ph1, hhead, hx⟩ := lines8_head (pend8 [] text) tf
    rw [hhead] at hl
    obtain ⟨hj, hg⟩ := comp8_join [] text
    simp only [List.nil_append] at hj
    have hsuf : pend8 [] text <:+ text := ⟨_, hj⟩
    have nf : pend8 [] text ++ crlf ≠ firstLine st en false := fun hc => hnf _ hc hsuf
    have hT : T = 0 + (joinItems (comp8 [] text)).length + (pend8 [] text).length := by
      have := congrArg List.length hj
      simp only [List.length_append] at this
      omega
    -- the items of the signed file
    have hfl : firstLine st en false = (st ++ psBegin ++ en ++ [13]) ++ [10] := by
      simp [firstLine, crlf, List.append_assoc]
    have hitems : lines8 [] (text ++ block st en false sig) =
        comp8 [] text ++ (.line (pend8 [] text ++ crlf) ((pend8 [] text ++ [13]).length + 1) ::
          .line (firstLine st en false) (([] ++ (st ++ psBegin ++ en ++ [13])).length + 1) ::
          lines8 [] (blockRest st en sig)) := by
      rw [lines8_append, block_split8]
      have : crlf ++ (firstLine st en false ++ blockRest st en sig) = [13] ++ 10 :: (firstLine st en false ++ blockRest st en sig) := rfl
      rw [this, lines8_nolf _ [13] _ (by decide), hfl, List.append_assoc (st ++ psBegin ++ en ++ [13]) [10]]
      rw [List.singleton_append, lines8_nolf [] _ _ (marker_nolf style st en hs)]
      simp [crlf, List.append_assoc]
    obtain ⟨S', hrun⟩ := digestLoop_frame (firstLine st en false) crlf false (text ++ tf).length
      (text ++ block st en false sig).length (by decide) (pend8 [] text) x restf (lines8 [] (blockRest st en sig)) ph1
      ((pend8 [] text ++ [13]).length + 1) (([] ++ (st ++ psBegin ++ en ++ [13])).length + 1) hx nf (firstLine_sfx8 st en)
      (comp8 [] text) [] [] 0 0 Hh T S hg rfl hl hT
    have hu' : isUtf16 (text ++ block st en false sig) = false := by
      rw [isUtf16_eq] at hu ⊢
      rw [block_split8]
      apply decide_eq_false
      have hu0 := of_decide_eq_false hu
      intro hc
      apply hu0
      match text, hTl with
      | [], _ => simp [crlf] at hc
      | [a], _ => simp [crlf] at hc
      | a :: b :: r, _ => simpa using hc
    refine ⟨⟨Hh, T, S', false, style⟩, ?_, rfl, rfl, rfl⟩
    unfold DigestPS digestWith
    rw [hs]
    simp only [hu', Bool.false_eq_true, if_false]
    rw [hitems]
    have : crlf.length = 2 := rfl
    rw [this] at hrun
    rw [hrun]

/-- UTF-16LE scripts (with BOM) -/
theorem DigestPS_signed16 (f : Bytes) (style : Nat) (d : Digest) (st en sig : Bytes) (e : DigestPS f style = .ok d)
    (hs : styleOf style = some (st, en)) (hu : isUtf16 f = true) (heven : d.textSize % 2 = 0) (h2 : 2 ≤ d.textSize)
    (hnf : ∀ l, l ++ widen crlf = firstLine st en true → ¬ l <:+ f.take d.textSize) :
    ∃ d', DigestPS (signedBytes f d st en sig) style = .ok d' ∧ d'.hashed = d.hashed ∧ d'.textSize = d.textSize ∧
      d'.utf16 = d.utf16 := by
  have H := DigestPS_spec f style d e
  have hz := H.sizes
  unfold DigestPS digestWith at e
  rw [hs] at e
  simp only [hu, if_true] at e
  cases hl : digestLoop true true (firstLine st en true) true 4 f.length (lines16 [] f) [] [] 0 0 with
  | err _ => simp [hl] at e
  | panic _ => simp [hl] at e
  | diverge => simp [hl] at e
  | ok v =>
    obtain ⟨Hh, T, S⟩ := v
    simp only [hl] at e
    injection e with e
    subst e
    simp only at hz hnf heven h2 ⊢
    obtain ⟨text, tf, hf, hTl⟩ : ∃ text tf, f = text ++ tf ∧ text.length = T :=
      ⟨f.take T, f.drop T, (List.take_append_drop T f).symm, by simp [List.length_take]; omega⟩
    subst hf
    have htk : (text ++ tf).take T = text := List.take_left' hTl
    rw [htk] at hnf
    unfold signedBytes
    simp only [htk]
    rw [lines16_append _ _ _ (by rw [hTl]; exact heven)] at hl
    obtain ⟨x, restf, ph1, hhead, hx⟩ := lines16_head (pend16 [] text) tf
    rw [hhead] at hl
    obtain ⟨hj, hg⟩ := comp16_join [] text
    simp only [List.nil_append] at hj
    have hsuf : pend16 [] text <:+ text := ⟨_, hj⟩
    have nf : pend16 [] text ++ widen crlf ≠ firstLine st en true := fun hc => hnf _ hc hsuf
    have hT : T = 0 + (joinItems (comp16 [] text)).length + (pend16 [] text).length := by
      have := congrArg List.length hj
      simp only [List.length_append] at this
      omega
    have hfl : firstLine st en true = widen (st ++ psBegin ++ en ++ [13]) ++ [10, 0] := by
      simp [firstLine, crlf, List.append_assoc, widen_append, widen]
    have hitems : lines16 [] (text ++ block st en true sig) =
        comp16 [] text ++ (.line (pend16 [] text ++ widen crlf) ((pend16 [] text ++ widen [13]).length + 2) ::
          .line (firstLine st en true) (([] ++ widen (st ++ psBegin ++ en ++ [13])).length + 2) ::
          lines16 [] (widen (blockRest st en sig))) := by
      rw [lines16_append _ _ _ (by rw [hTl]; exact heven), block_split16]
      have : widen crlf ++ (firstLine st en true ++ widen (blockRest st en sig)) =
          widen [13] ++ 10 :: 0 :: (firstLine st en true ++ widen (blockRest st en sig)) := rfl
      rw [this, lines16_nolf _ [13] _ (by decide), hfl, List.append_assoc (widen (st ++ psBegin ++ en ++ [13])) [10, 0]]
      have : [10, 0] ++ widen (blockRest st en sig) = 10 :: 0 :: widen (blockRest st en sig) := rfl
      rw [this, lines16_nolf [] _ _ (marker_nolf style st en hs)]
      simp [crlf, widen, List.append_assoc]
    obtain ⟨S', hrun⟩ := digestLoop_frame (firstLine st en true) (widen crlf) true (text ++ tf).length
      (text ++ block st en true sig).length (by decide) (pend16 [] text) x restf (lines16 [] (widen (blockRest st en sig))) ph1
      ((pend16 [] text ++ widen [13]).length + 2) (([] ++ widen (st ++ psBegin ++ en ++ [13])).length + 2) hx nf
      (firstLine_sfx16 st en) (comp16 [] text) [] [] 0 0 Hh T S hg rfl hl hT
    have hu' : isUtf16 (text ++ block st en true sig) = true := by
      rw [isUtf16_eq] at hu ⊢
      have hu0 := of_decide_eq_true hu
      apply decide_eq_true
      match text, hTl with
      | [], hh => simp at hh; omega
      | [a], hh => simp at hh; omega
      | a :: b :: r, _ => simpa using hu0
    refine ⟨⟨Hh, T, S', true, style⟩, ?_, rfl, rfl, rfl⟩
    unfold DigestPS digestWith
    rw [hs]
    simp only [hu', if_true]
    rw [hitems]
    have : (widen crlf).length = 4 := rfl
    rw [this] at hrun
    rw [hrun]

end Relic.PS

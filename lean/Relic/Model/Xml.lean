/-
  Relic.Model.Xml — model of /repo/lib/xmldsig/canonicalize.go (`SerializeCanonical`) on element trees
  as github.com/beevik/etree v1.4.1 presents them after parsing, together with the part of etree's
  writer that `SerializeCanonical` drives (`CanonicalEndTags`, `CanonicalText`, `CanonicalAttrVal`).

  Strings are Go strings = byte lists; Go's `<` on strings is the lexicographic order on bytes (`bytesLt`).
  The tree is immutable here; the Go code mutates a deep copy, so "copy" is the identity.

  Map iteration (`pullDown`: `for space, value := range spaces`) is modelled in first-insertion order.
  The pushed declarations have pairwise different names, are appended to `Attr`, and `walkAttributes`
  sorts `Attr` afterwards with a comparator that is a strict total order on distinct names, so the order
  can matter only through `usesSpace`/`SelectAttr` seeing an attribute of prefix/key `xmlns`
  (a declared prefix literally named `xmlns`, which Namespaces-in-XML forbids).  The correspondence run
  executes the Go code (whose map order is randomised per iteration) on every generated document,
  so an order dependence would show as a broken tie.

  Core Lean only (linked into the native driver).
-/
import Relic.Base.Bytes
namespace Relic.Xml
open Relic

structure Attr where
  space : Bytes
  key : Bytes
  value : Bytes
  deriving DecidableEq, Repr

/-- etree tokens: Element / CharData (with its cdata flag) / Comment / ProcInst / Directive -/
inductive Node where
  | elem (space tag : Bytes) (attrs : List Attr) (kids : List Node)
  | text (data : Bytes) (cdata : Bool)
  | comment (data : Bytes)
  | procinst (target inst : Bytes)
  | directive (data : Bytes)
  deriving Repr

/-- "xmlns" -/
def sXmlns : Bytes := [0x78, 0x6d, 0x6c, 0x6e, 0x73]

/-- Go's `<` on strings -/
def bytesLt : Bytes → Bytes → Bool
  | [], [] => false
  | [], _ :: _ => true
  | _ :: _, [] => false
  | a :: as, b :: bs => if a.toNat < b.toNat then true else if b.toNat < a.toNat then false else bytesLt as bs

/-! ### canonicalize.go helpers -/

/-- `getDecl`: the prefix a declaration attribute declares -/
def getDecl (a : Attr) : Option Bytes :=
  if a.space = [] ∧ a.key = sXmlns then some []
  else if a.space = sXmlns then some a.key
  else none

def isDecl (a : Attr) : Bool := (getDecl a).isSome

/-- `putDecl space` followed by etree's `spaceDecompose` (split at the first colon):
    `"xmlns"` ↦ `("", "xmlns")`, `"xmlns:" ++ p` ↦ `("xmlns", p)` -/
def declName (space : Bytes) : Bytes × Bytes :=
  if space = [] then ([], sXmlns) else (sXmlns, space)

/-- `elem.SelectAttr(key) != nil`; etree's `spaceMatch` lets an empty query prefix match every prefix -/
def selectAttr (name : Bytes × Bytes) (attrs : List Attr) : Bool :=
  attrs.any fun a => (name.1 = [] ∨ name.1 = a.space) ∧ name.2 = a.key

/-- `elem.CreateAttr(key, value)`: replace the value of the first attribute of exactly that name, else append -/
def createAttr (name : Bytes × Bytes) (value : Bytes) : List Attr → List Attr
  | [] => [⟨name.1, name.2, value⟩]
  | a :: as =>
    if name.1 = a.space ∧ name.2 = a.key then { a with value := value } :: as
    else a :: createAttr name value as

/-- `usesSpace` -/
def usesSpace (espace : Bytes) (attrs : List Attr) (space : Bytes) : Bool :=
  if espace = space then true
  else if space = [] then false
  else attrs.any fun a => a.space = space

mutual
/-- `pushDown(top, elem, space, key, value)`; `isTop` is `elem == top` -/
def pushDown (isTop : Bool) (space value : Bytes) : Node → Node
  | .elem sp tag attrs kids =>
    if !isTop && selectAttr (declName space) attrs then .elem sp tag attrs kids
    else if usesSpace sp attrs space then .elem sp tag (createAttr (declName space) value attrs) kids
    else .elem sp tag attrs (pushDownList space value kids)
  | n => n
/-- the loop over `elem.ChildElements()` -/
def pushDownList (space value : Bytes) : List Node → List Node
  | [] => []
  | n :: ns => pushDown false space value n :: pushDownList space value ns
end

/-! ### pullDown -/

abbrev SpaceMap := List (Bytes × Bytes)

def mapGet (m : SpaceMap) (k : Bytes) : Bytes :=
  match m with
  | [] => []
  | (k', v) :: rest => if k' = k then v else mapGet rest k

def mapSet (m : SpaceMap) (k v : Bytes) : SpaceMap :=
  match m with
  | [] => [(k, v)]
  | (k', v') :: rest => if k' = k then (k, v) :: rest else (k', v') :: mapSet rest k v

/-- one ancestor: `for _, attr := range p.Attr { … if spaces[space] != "" {continue}; spaces[space] = attr.Value }` -/
def collectAttrs (m : SpaceMap) : List Attr → SpaceMap
  | [] => m
  | a :: as =>
    match getDecl a with
    | none => collectAttrs m as
    | some s => if mapGet m s ≠ [] then collectAttrs m as else collectAttrs (mapSet m s a.value) as

/-- `ctx` = attribute lists of the ancestors of the apex element, nearest first -/
def collectSpaces (ctx : List (List Attr)) : SpaceMap := ctx.foldl collectAttrs []

def pullDownWith (m : SpaceMap) (root : Node) : Node :=
  m.foldl (fun t e => pushDown false e.1 e.2 t) root

def pullDown (ctx : List (List Attr)) (root : Node) : Node := pullDownWith (collectSpaces ctx) root

/-! ### walkAttributes -/

/-- the comparator passed to `sort.Slice` -/
def attrLess (x y : Attr) : Bool :=
  if x.space = [] ∧ x.key = sXmlns then true
  else if y.space = [] ∧ y.key = sXmlns then false
  else if x.space = sXmlns ∧ y.space ≠ sXmlns then true
  else if y.space = sXmlns ∧ x.space ≠ sXmlns then false
  else if x.space ≠ y.space then bytesLt x.space y.space
  else bytesLt x.key y.key

def insertAttr (a : Attr) : List Attr → List Attr
  | [] => [a]
  | b :: bs => if attrLess b a then b :: insertAttr a bs else a :: b :: bs

/-- `sort.Slice(elem.Attr, less)` modelled as insertion sort (see `Props.C19.sort_unique`) -/
def sortAttrs : List Attr → List Attr
  | [] => []
  | a :: as => insertAttr a (sortAttrs as)

/-- the first loop of `walkAttributes`: `done` = attributes already passed (kept), `a :: todo` = `elem.Attr[i:]`.
    An unused declaration is pushed to the child elements and removed. -/
def walkLoop (espace : Bytes) : List Attr → List Attr → List Node → List Attr × List Node
  | done, [], kids => (done, kids)
  | done, a :: todo, kids =>
    match getDecl a with
    | some s =>
      if usesSpace espace (done ++ a :: todo) s then walkLoop espace (done ++ [a]) todo kids
      else walkLoop espace done todo (pushDownList s a.value kids)
    | none => walkLoop espace (done ++ [a]) todo kids

mutual
/-- number of tokens (attributes do not count): the termination measure of `walk` -/
def cnt : Node → Nat
  | .elem _ _ _ kids => 1 + cntL kids
  | _ => 1
def cntL : List Node → Nat
  | [] => 0
  | n :: ns => cnt n + cntL ns
end

theorem cnt_pos (n : Node) : 0 < cnt n := by cases n <;> simp [cnt] <;> omega

mutual
theorem cnt_pushDown (t : Bool) (s v : Bytes) : ∀ n, cnt (pushDown t s v n) = cnt n
  | .elem sp tag attrs kids => by
    simp only [pushDown]
    split
    · rfl
    · split
      · simp [cnt]
      · simp [cnt, cntL_pushDownList s v kids]
  | .text _ _ => by simp [pushDown]
  | .comment _ => by simp [pushDown]
  | .procinst _ _ => by simp [pushDown]
  | .directive _ => by simp [pushDown]
theorem cntL_pushDownList (s v : Bytes) : ∀ ns, cntL (pushDownList s v ns) = cntL ns
  | [] => by simp [pushDownList]
  | n :: ns => by simp [pushDownList, cntL, cnt_pushDown false s v n, cntL_pushDownList s v ns]
end

theorem cntL_walkLoop (esp : Bytes) (done todo : List Attr) (kids : List Node) :
    cntL (walkLoop esp done todo kids).2 = cntL kids := by
  induction todo generalizing done kids with
  | nil => simp [walkLoop]
  | cons a todo ih =>
    simp only [walkLoop]
    split
    · split
      · exact ih _ _
      · rw [ih, cntL_pushDownList]
    · exact ih _ _

mutual
/-- `walkAttributes` -/
def walk : Node → Node
  | .elem sp tag attrs kids =>
    .elem sp tag (sortAttrs (walkLoop sp [] attrs kids).1) (walkKids (walkLoop sp [] attrs kids).2)
  | n => n
termination_by n => 2 * cnt n
decreasing_by
  simp only [cnt, cntL_walkLoop]; omega
/-- the second loop: recurse into elements, keep character data, remove everything else -/
def walkKids : List Node → List Node
  | [] => []
  | .elem sp tag attrs kids :: rest => walk (.elem sp tag attrs kids) :: walkKids rest
  | .text d c :: rest => .text d c :: walkKids rest
  | .comment _ :: rest => walkKids rest
  | .procinst _ _ :: rest => walkKids rest
  | .directive _ :: rest => walkKids rest
termination_by ns => 2 * cntL ns + 1
decreasing_by
  all_goals simp only [cntL, cnt]
  all_goals omega
end

/-! ### etree's writer with the canonical write settings -/

/-- one byte of `escapeString(w, s, escapeCanonicalText)`; the bytes concerned are ASCII, so working on
    bytes instead of runes is exact for valid UTF-8 (encoding/xml rejects anything else) -/
def escTextByte (b : UInt8) : Bytes :=
  if b = 0x26 then [0x26, 0x61, 0x6d, 0x70, 0x3b]        -- &amp;
  else if b = 0x3c then [0x26, 0x6c, 0x74, 0x3b]         -- &lt;
  else if b = 0x3e then [0x26, 0x67, 0x74, 0x3b]         -- &gt;
  else if b = 0x0d then [0x26, 0x23, 0x78, 0x44, 0x3b]   -- &#xD;
  else [b]

def escText (s : Bytes) : Bytes := s.flatMap escTextByte

/-- one byte of `escapeString(w, s, escapeCanonicalAttr)` -/
def escAttrByte (b : UInt8) : Bytes :=
  if b = 0x26 then [0x26, 0x61, 0x6d, 0x70, 0x3b]              -- &amp;
  else if b = 0x3c then [0x26, 0x6c, 0x74, 0x3b]               -- &lt;
  else if b = 0x22 then [0x26, 0x71, 0x75, 0x6f, 0x74, 0x3b]   -- &quot;
  else if b = 0x09 then [0x26, 0x23, 0x78, 0x39, 0x3b]         -- &#x9;
  else if b = 0x0a then [0x26, 0x23, 0x78, 0x41, 0x3b]         -- &#xA;
  else if b = 0x0d then [0x26, 0x23, 0x78, 0x44, 0x3b]         -- &#xD;
  else [b]

def escAttr (s : Bytes) : Bytes := s.flatMap escAttrByte

/-- `FullTag` / `FullKey` -/
def fullName (space name : Bytes) : Bytes := if space = [] then name else space ++ 0x3a :: name

/-- ` key="value"` -/
def serAttr (a : Attr) : Bytes := 0x20 :: fullName a.space a.key ++ [0x3d, 0x22] ++ escAttr a.value ++ [0x22]

def serAttrs (as : List Attr) : Bytes := as.flatMap serAttr

def cdataOpen : Bytes := [0x3c, 0x21, 0x5b, 0x43, 0x44, 0x41, 0x54, 0x41, 0x5b]
def cdataClose : Bytes := [0x5d, 0x5d, 0x3e]

mutual
/-- `Token.WriteTo` with `CanonicalEndTags`, `CanonicalText`, `CanonicalAttrVal` -/
def ser : Node → Bytes
  | .elem sp tag attrs kids =>
    0x3c :: fullName sp tag ++ serAttrs attrs ++ 0x3e :: serKids kids ++ [0x3c, 0x2f] ++ fullName sp tag ++ [0x3e]
  | .text d c => if c then cdataOpen ++ d ++ cdataClose else escText d
  | .comment d => [0x3c, 0x21, 0x2d, 0x2d] ++ d ++ [0x2d, 0x2d, 0x3e]
  | .procinst t i => [0x3c, 0x3f] ++ t ++ (if i = [] then [] else 0x20 :: i) ++ [0x3f, 0x3e]
  | .directive d => [0x3c, 0x21] ++ d ++ [0x3e]
def serKids : List Node → Bytes
  | [] => []
  | n :: ns => ser n ++ serKids ns
end

/-- `SerializeCanonical(apex)`, `ctx` being the attribute lists of the apex's ancestors (nearest first) -/
def canon (ctx : List (List Attr)) (root : Node) : Bytes := ser (walk (pullDown ctx root))

end Relic.Xml

/-
  Relic.Model.CsBlob — executable model of `parseSuper` (/repo/lib/fruit/csblob/superblob.go) and of
  `removeSignature` (/repo/lib/signxap/sign.go).  `fx = false`: the unchanged tree; `fx = true`: with the guard of
  fix-csblob.parseSuper.patch / fix-signxap.removeSignature.patch.
-/
import Relic.Base.Bytes
namespace Relic.CsBlob
open Relic

def be32 (b : Bytes) (off : Nat) : Nat := beVal ((b.drop off).take 4)

/-- one index entry: `offset` is the raw uint32 from the index, `dataOffset = 12 + 8*count`, `data` the bytes after
    the index.  Go:
    ```
    offset -= dataOffset
    if offset > len(blob)-8 { return errShort }
    length := int(binary.BigEndian.Uint32(blob[offset+4:]))     // panics when offset+4 < 0
    if offset+length > len(blob) { return errShort }
    ... blob[offset:] ...                                        // panics when offset < 0
    ``` -/
def entry (fx : Bool) (data : Bytes) (dataOffset offsetRaw : Nat) : Res Unit :=
  let offset : Int := (offsetRaw : Int) - dataOffset
  if fx ∧ offset < 0 then .err "short" else
  if offset > (data.length : Int) - 8 then .err "short" else
  if offset + 4 < 0 then .panic "csblob.parseSuper:slice" else
  let length : Int := be32 data (offset + 4).toNat
  if offset + length > data.length then .err "short" else
  if offset < 0 then .panic "csblob.parseSuper:slice" else
  .ok ()

/-- the loop over the `count` index entries (8 bytes each: type, offset) -/
def entries (fx : Bool) (data : Bytes) (dataOffset : Nat) : Nat → Bytes → Res Unit
  | 0, _ => .ok ()
  | n + 1, idx =>
    (entry fx data dataOffset (be32 idx 4)).bind fun _ => entries fx data dataOffset n (idx.drop 8)

/-- `parseSuper`: returns the magic -/
def parseSuper (fx : Bool) (blob : Bytes) : Res Nat :=
  if blob.length < 12 then .err "short" else
  let length := be32 blob 4
  let count := be32 blob 8
  if length < 8 ∨ blob.length < length then .err "length" else
  let b := blob.drop 12
  if b.length < 8 * count then .err "short" else
  (entries fx (b.drop (8 * count)) (12 + 8 * count) count (b.take (8 * count))).bind fun _ => .ok (be32 blob 0)

/-- `parseSignature` up to the magic test; what follows (code directories, CMS) is outside the model: class "post" -/
def verifyBlob (fx : Bool) (blob : Bytes) : Res Unit :=
  (parseSuper fx blob).bind fun magic =>
    if magic ≠ 4208856256 ∧ magic ≠ 4208856257 then .err "magic" else .err "post"

/-- `removeSignature(cd)` of signxap: `cd[size-10:size]` then, when the trailer magic "XapS" matches,
    `cd[:size - (TrailerSize + 10)]` -/
def removeSignature (fx : Bool) (cd : Bytes) : Res Bytes :=
  if cd.length < 10 then (if fx then .ok cd else .panic "signxap.removeSignature:slice") else
  let tr := cd.drop (cd.length - 10)
  if leVal (tr.take 4) = 1399873880 then
    let ts := leVal ((tr.drop 6).take 4)
    if cd.length < ts + 10 then (if fx then .ok cd else .panic "signxap.removeSignature:slice")
    else .ok (cd.take (cd.length - (ts + 10)))
  else .ok cd

end Relic.CsBlob

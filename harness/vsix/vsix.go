// Package vsix: OPC package generator and implementation runner for the VSIX model (signers/vsix/*.go,
// lib/signappx/contenttypes.go as the VSIX signer uses it).
//
//	VSIX sign   <hash> <detach> <key> <stem> <chain> <time> <ids> <parts>
//	VSIX resign <cfg1: 7 fields> <cfg2: 7 fields> <parts>
//	VSIX verify <b64table> <parts+oracles> <label>
//	VSIX path   <fn> <arg>
//
// The XML-DSig layer, encoding/xml on relationship and content-type parts and x509 parsing are parameters of the model:
// their verdicts on each part are computed here with the real code and travel on the op line (annotations R, C, X, T, H);
// the runner recomputes them and refuses an op whose annotations are stale.
package vsix

import (
	"archive/zip"
	"bufio"
	"bytes"
	"crypto"
	"crypto/sha256"
	"crypto/x509"
	"encoding/base64"
	"encoding/hex"
	"encoding/pem"
	"encoding/xml"
	"errors"
	"fmt"
	"io"
	"net/url"
	"os"
	"path"
	"path/filepath"
	"runtime/debug"
	"sort"
	"strings"
	"sync"
	"sync/atomic"
	"time"

	"github.com/beevik/etree"

	"github.com/sassoftware/relic/v8/lib/audit"
	"github.com/sassoftware/relic/v8/lib/certloader"
	"github.com/sassoftware/relic/v8/lib/signappx"
	"github.com/sassoftware/relic/v8/lib/xmldsig"
	"github.com/sassoftware/relic/v8/signers"
	"github.com/sassoftware/relic/v8/signers/sigerrors"
	vsixsigner "github.com/sassoftware/relic/v8/signers/vsix"

	"verifharness/c19"
	"verifharness/hx"
)

// constants of signers/vsix/consts.go (unexported there; a divergence shows as a broken tie)
const (
	contentTypesPath = "[Content_Types].xml"
	digSigPath       = "package/services/digital-signature"
	originPath       = digSigPath + "/origin.psdor"
	xmlSigPath       = digSigPath + "/xml-signature"
	xmlCertPath      = digSigPath + "/certificate"
	sigOriginType    = "http://schemas.openxmlformats.org/package/2006/relationships/digital-signature/origin"
	sigType          = "http://schemas.openxmlformats.org/package/2006/relationships/digital-signature/signature"
	certType         = "http://schemas.openxmlformats.org/package/2006/relationships/digital-signature/certificate"
	nsCT             = "http://schemas.openxmlformats.org/package/2006/content-types"
	nsRels           = "http://schemas.openxmlformats.org/package/2006/relationships"
)

type part struct {
	name string
	data []byte
}

/* ---------- zip ---------- */

func buildZip(ps []part) []byte {
	var b bytes.Buffer
	w := zip.NewWriter(&b)
	for i, p := range ps {
		m := zip.Deflate
		if len(p.data) == 0 || i%3 == 2 {
			m = zip.Store
		}
		fw, err := w.CreateHeader(&zip.FileHeader{Name: p.name, Method: m})
		if err != nil {
			panic(err)
		}
		if _, err := fw.Write(p.data); err != nil {
			panic(err)
		}
	}
	if err := w.Close(); err != nil {
		panic(err)
	}
	return b.Bytes()
}

func readZip(z []byte) ([]part, error) {
	r, err := zip.NewReader(bytes.NewReader(z), int64(len(z)))
	if err != nil {
		return nil, err
	}
	var out []part
	for _, f := range r.File {
		rc, err := f.Open()
		if err != nil {
			return nil, err
		}
		d, err := io.ReadAll(rc)
		rc.Close()
		if err != nil {
			return nil, err
		}
		out = append(out, part{f.Name, d})
	}
	return out, nil
}

/* ---------- keys ---------- */

var (
	keyMu sync.Mutex
	certs = map[string]*certloader.Certificate{}
)

func parseKeyCert(kind string) (crypto.Signer, *x509.Certificate) {
	kb, _ := pem.Decode([]byte(keyPEM[kind]))
	cb, _ := pem.Decode([]byte(certPEM[kind]))
	if kb == nil || cb == nil {
		panic("no key " + kind)
	}
	k, err := x509.ParsePKCS8PrivateKey(kb.Bytes)
	if err != nil {
		panic(err)
	}
	c, err := x509.ParseCertificate(cb.Bytes)
	if err != nil {
		panic(err)
	}
	return k.(crypto.Signer), c
}

// getCert: key "rsa" | "p256" | "p384" | "p521", optionally "+2" for a chain of two (leaf, intermediate)
func getCert(key string) *certloader.Certificate {
	keyMu.Lock()
	defer keyMu.Unlock()
	if c := certs[key]; c != nil {
		return c
	}
	kind := strings.TrimSuffix(key, "+2")
	k, leaf := parseKeyCert(kind)
	c := &certloader.Certificate{Leaf: leaf, Certificates: []*x509.Certificate{leaf}, PrivateKey: k, KeyName: "verif-vsix-" + kind}
	if kind != key {
		_, inter := parseKeyCert("inter")
		c.Certificates = append(c.Certificates, inter)
	}
	certs[key] = c
	return c
}

func keyID(pub crypto.PublicKey) string {
	der, err := x509.MarshalPKIXPublicKey(pub)
	if err != nil {
		return "00"
	}
	s := sha256.Sum256(der)
	return hex.EncodeToString(s[:8])
}

var hashes = map[string]crypto.Hash{"sha1": crypto.SHA1, "sha224": crypto.SHA224, "sha256": crypto.SHA256, "sha384": crypto.SHA384, "sha512": crypto.SHA512}

func hashName(h crypto.Hash) string {
	for n, v := range hashes {
		if v == h {
			return n
		}
	}
	return "?"
}

/* ---------- the signing pipeline (cmdline/token/signcmd.go; like harness/sg, with a fixed signing time) ---------- */

var (
	tmpOnce sync.Once
	tmpDir  string
	tmpSeq  atomic.Int64
	sigTime = time.Date(2024, 6, 1, 12, 0, 0, 0, time.UTC)
)

func scratch(name string) string {
	tmpOnce.Do(func() {
		d, err := os.MkdirTemp("", "vh-vsix-")
		if err != nil {
			panic(err)
		}
		tmpDir = d
		hx.OnExit(func() { os.RemoveAll(d) })
	})
	return filepath.Join(tmpDir, fmt.Sprintf("%d-%s", tmpSeq.Add(1), name))
}

// panicSite names the innermost relic function on the stack of a recovered panic.
func panicSite(stack []byte) string {
	const pfx = "github.com/sassoftware/relic/v8/"
	seenPanic := false
	for _, line := range strings.Split(string(stack), "\n") {
		if strings.HasPrefix(line, "panic(") {
			seenPanic = true
			continue
		}
		if !seenPanic || !strings.HasPrefix(line, pfx) {
			continue
		}
		fn := line[len(pfx):]
		if i := strings.LastIndex(fn, "("); i > 0 {
			fn = fn[:i]
		}
		if i := strings.LastIndex(fn, "/"); i >= 0 {
			fn = fn[i+1:]
		}
		return fn
	}
	return "?"
}

func guarded(f func() error) (err error, site string) {
	defer func() {
		if r := recover(); r != nil {
			site = panicSite(debug.Stack())
		}
	}()
	return f(), ""
}

func signFile(in, out string, cert *certloader.Certificate, hash crypto.Hash, detach bool) error {
	mod := signers.ByName("vsix")
	q := url.Values{}
	if detach {
		q.Set("detach-certs", "true")
	}
	fv, err := mod.FlagsFromQuery(q)
	if err != nil {
		return err
	}
	info := audit.New(cert.KeyName, mod.Name, hash)
	info.SetTimestamp(sigTime)
	info.SetX509Cert(cert.Leaf)
	opts := signers.SignOpts{Path: in, Hash: hash, Time: sigTime, Audit: info, Flags: fv}
	f, err := os.Open(in)
	if err != nil {
		return err
	}
	defer f.Close()
	tr, err := mod.GetTransform(f, opts)
	if err != nil {
		return fmt.Errorf("transform: %w", err)
	}
	stream, err := tr.GetReader()
	if err != nil {
		return err
	}
	blob, err := mod.Sign(stream, cert, opts)
	if err != nil {
		return fmt.Errorf("sign: %w", err)
	}
	return tr.Apply(out, opts.Audit.GetMimeType(), bytes.NewReader(blob))
}

func verifyFile(p string) string {
	var sigs []*signers.Signature
	err, site := guarded(func() error {
		f, err := os.Open(p)
		if err != nil {
			return err
		}
		defer f.Close()
		var e error
		sigs, e = signers.ByName("vsix").Verify(f, signers.VerifyOpts{FileName: p, NoChain: true})
		return e
	})
	if site != "" {
		return "panic:" + clean(site)
	}
	if err != nil {
		return "err:" + classify(err)
	}
	if len(sigs) != 1 || sigs[0].X509Signature == nil || sigs[0].X509Signature.Certificate == nil {
		return fmt.Sprintf("odd:sigs=%d", len(sigs))
	}
	return "ok:" + hashName(sigs[0].Hash) + ":" + keyID(sigs[0].X509Signature.Certificate.PublicKey)
}

func clean(s string) string {
	return strings.NewReplacer(" ", "_", ".", "_", ":", "_", ";", "_", "+", "_", "=", "_", "#", "_").Replace(s)
}

func classify(err error) string {
	var ns sigerrors.NotSignedError
	if errors.As(err, &ns) {
		return "notsigned"
	}
	s := err.Error()
	if i := strings.Index(s, "xmldsig:"); i >= 0 {
		for _, kv := range [][2]string{{"multiple signatures", "multiple"}, {"unsupported canonicalization", "unsupported-c14n"},
			{"unsupported digest", "unsupported-digest"}, {"unsupported signature algorithm", "unsupported-sigalg"},
			{"invalid public key", "badkey"}, {"unsupported ECDSA curve", "badkey"}, {"invalid X509", "badcert"},
			{"xmldsig: invalid signature", "invalid"}, {"missing public key", "nokey"}, {"unsupported reference transform", "unsupported-transform"},
			{"unsupported reference URI", "unsupported-uri"}, {"unable to locate reference", "noref"}, {"digest mismatch", "digest"},
			{"expected element type", "xml"}, {"verification error", "badsig"}, {"ECDSA verification failed", "badsig"},
			{"invalid ECDSA signature", "badsig"}, {"first certificate must match", "certkey"}, {"no root element", "noroot"},
			{"no enclosing document", "noparent"}} {
			if strings.Contains(s, kv[0]) {
				return "x-" + kv[1]
			}
		}
		return "x-other_" + clean(s[i:])
	}
	for _, kv := range [][2]string{{"duplicate zip member", "duplicate"}, {"part is not covered by the signature", "uncovered"},
		{"cannot be referenced from the signature manifest", "unreferencable"}, {"neither a content type nor an extension", "no-content-type"},
		{"file missing from zip", "missing"}, {"error parsing rels", "rels"}, {"failed to parse certificate", "badcert"},
		{"validation failed: file not found", "file-not-found"}, {"validation failed: unsupported digest", "unsupported-digest"},
		{"validation failed: invalid digest", "invalid-digest"}, {"validation failed: digest mismatch", "digest-mismatch"},
		{"validation failed:", "manifest-xml"}, {"leaf x509 certificate not found", "noleaf"}, {"timestamp check failed", "ts"},
		{"parsing [Content_Types].xml", "ctypes"}, {"zip members are not contiguous", "noncontig"}, {"XML syntax error", "x-xml"},
		{"etree:", "x-xml"}, {"EOF", "x-xml"}, {"ECDSA verification failed", "x-badsig"}, {"verification error", "x-badsig"},
		{"invalid ECDSA signature", "x-badsig"}, {"not a valid zip", "zip"}} {
		if strings.Contains(s, kv[0]) {
			return kv[1]
		}
	}
	return "other_" + clean(s)
}

/* ---------- configuration of one signing ---------- */

type cfg struct {
	hash   string
	detach bool
	key    string // rsa | p256 | p384 | p521, "+2" = two certificates
}

func hexs(s string) string { return hx.Hex([]byte(s)) }

func list(items []string) string {
	if len(items) == 0 {
		return "_"
	}
	return strings.Join(items, "+")
}

func (c cfg) sigName() string {
	return path.Join(xmlSigPath, vsixsigner.VerifCalcFileName(getCert(c.key).Leaf)+".psdsxs")
}

// fields: "<hash> <detach> <key> <stem> <chain> <time> <ids>"
func (c cfg) fields() string {
	cert := getCert(c.key)
	stem := vsixsigner.VerifCalcFileName(cert.Leaf)
	var chain, ids []string
	var certPairs [][2]string
	for _, x := range cert.Chain() {
		st := vsixsigner.VerifCalcFileName(x)
		chain = append(chain, hexs(st)+"."+hx.Hex(x.Raw)+"."+keyID(x.PublicKey))
		certPairs = append(certPairs, [2]string{path.Join(xmlCertPath, st+".cer"), certType})
	}
	addIDs := func(pairs [][2]string) {
		rels, _, err := vsixsigner.VerifAppend(pairs)
		if err != nil {
			panic(err)
		}
		for i, r := range rels {
			ids = append(ids, hexs(pairs[i][0])+"."+hexs(pairs[i][1])+"."+hexs(r.Id))
		}
	}
	addIDs([][2]string{{originPath, sigOriginType}})
	addIDs([][2]string{{c.sigName(), sigType}})
	if c.detach {
		addIDs(certPairs)
	}
	d := "0"
	if c.detach {
		d = "1"
	}
	return fmt.Sprintf("%s %s %s %s %s - %s", c.hash, d, c.key, hexs(stem), list(chain), list(ids))
}

func parseCfg(f []string) cfg { return cfg{hash: f[0], detach: f[1] == "1", key: f[2]} }

/* ---------- parts on the op line ---------- */

func partsField(ps []part, ann func(i int, p part) string) string {
	if len(ps) == 0 {
		return "_"
	}
	items := make([]string, len(ps))
	for i, p := range ps {
		items[i] = hexs(p.name) + ":" + hx.Hex(p.data)
		if ann != nil {
			items[i] += ann(i, p)
		}
	}
	return strings.Join(items, ";")
}

func parseParts(s string) []part {
	if s == "_" {
		return nil
	}
	var out []part
	for _, it := range strings.Split(s, ";") {
		f := strings.SplitN(it, ":", 3)
		out = append(out, part{string(hx.MustUnHex(f[0])), hx.MustUnHex(f[1])})
	}
	return out
}

func pairs(m map[string]string) string {
	keys := make([]string, 0, len(m))
	for k := range m {
		keys = append(keys, k)
	}
	sort.Strings(keys)
	items := make([]string, len(keys))
	for i, k := range keys {
		items[i] = hexs(k) + "." + hexs(m[k])
	}
	return list(items)
}

// ctOracle: what ContentTypes.Parse makes of a part
func ctOracle(blob []byte) string {
	ct := signappx.NewContentTypes()
	if err := ct.Parse(blob); err != nil {
		return "err"
	}
	return pairs(ct.ByExt) + "/" + pairs(ct.ByOverride)
}

func signAnn(_ int, p part) string {
	if p.name == contentTypesPath {
		return ":T=" + ctOracle(p.data)
	}
	return ""
}

/* ---------- oracles for verify ops ---------- */

func relsOracle(blob []byte) string {
	rels, err := vsixsigner.VerifParseRels(blob)
	if err != nil {
		return "err"
	}
	items := make([]string, len(rels))
	for i, r := range rels {
		items[i] = hexs(r.Target) + "." + hexs(r.Type)
	}
	return list(items)
}

func certOracle(blob []byte) ([]*x509.Certificate, string) {
	cs, err := x509.ParseCertificates(blob)
	if err != nil {
		return nil, "err"
	}
	items := make([]string, len(cs))
	for i, c := range cs {
		items[i] = keyID(c.PublicKey)
	}
	return cs, list(items)
}

type xres struct {
	s    string
	refs []vsixsigner.VerifManifestRef
}

func xOracle(blob []byte, extra []*x509.Certificate) (res xres) {
	defer func() {
		if r := recover(); r != nil {
			res = xres{s: "panic." + clean(panicSite(debug.Stack()))}
		}
	}()
	doc := etree.NewDocument()
	if err := doc.ReadFromString(string(blob)); err != nil {
		return xres{s: "err." + clean(classify(err))}
	}
	root := doc.Root()
	xs, err := xmldsig.Verify(root, ".", extra)
	if err != nil {
		return xres{s: "err." + clean(classify(err))}
	}
	ts := "-"
	if _, err := vsixsigner.VerifCheckTimestamp(root, xs.EncryptedDigest); err != nil {
		ts = "ts"
	}
	var emb []string
	for _, c := range xs.Certificates[len(extra):] {
		emb = append(emb, keyID(c.PublicKey))
	}
	refs, _ := vsixsigner.VerifDecodeManifest(xs.Reference)
	return xres{s: fmt.Sprintf("ok.%s.%s.%s.%s.%s", hashName(xs.Hash), keyID(xs.PublicKey), list(emb), ts, c19.TreeToken(xs.Reference)), refs: refs}
}

// annotate: the parts field of a verify op and its base64 table
func annotate(ps []part) (string, string) {
	var all []*x509.Certificate
	cor := make([]string, len(ps))
	for i, p := range ps {
		var cs []*x509.Certificate
		cs, cor[i] = certOracle(p.data)
		all = append(all, cs...)
	}
	xor := make([]xres, len(ps))
	algs := map[string]crypto.Hash{}
	btab := map[string]string{}
	for i, p := range ps {
		xor[i] = xOracle(p.data, all)
		for _, r := range xor[i].refs {
			if _, h := xmldsig.HashAlgorithm(r.Algorithm); h.Available() {
				algs[hashName(h)] = h
			}
			if d, err := base64.StdEncoding.DecodeString(r.DigestValue); err != nil {
				btab[r.DigestValue] = "bad"
			} else {
				btab[r.DigestValue] = hx.Hex(d)
			}
		}
	}
	an := make([]string, 0, len(algs))
	for n := range algs {
		an = append(an, n)
	}
	sort.Strings(an)
	field := partsField(ps, func(i int, p part) string {
		s := ":R=" + relsOracle(p.data) + ":C=" + cor[i] + ":X=" + xor[i].s
		if len(an) > 0 {
			hs := make([]string, len(an))
			for j, n := range an {
				d := algs[n].New()
				d.Write(p.data)
				hs[j] = n + "." + hx.Hex(d.Sum(nil))
			}
			s += ":H=" + strings.Join(hs, "+")
		}
		return s
	})
	bk := make([]string, 0, len(btab))
	for k := range btab {
		bk = append(bk, k)
	}
	sort.Strings(bk)
	items := make([]string, len(bk))
	for i, k := range bk {
		items[i] = hexs(k) + "." + btab[k]
	}
	return field, list(items)
}

/* ---------- running a signing on the real code ---------- */

type signed struct {
	parts []part
	zip   []byte
}

func signParts(ps []part, c cfg) (*signed, string) {
	in, out := scratch("in.vsix"), scratch("out.vsix")
	defer os.Remove(in)
	defer os.Remove(out)
	zin := buildZip(ps)
	if err := os.WriteFile(in, zin, 0o644); err != nil {
		panic(err)
	}
	err, site := guarded(func() error { return signFile(in, out, getCert(c.key), hashes[c.hash], c.detach) })
	if site != "" {
		return nil, "panic " + clean(site)
	}
	if err != nil {
		// a refusal must leave the input as it was and write nothing
		now, _ := os.ReadFile(in)
		if _, statErr := os.Stat(out); statErr == nil || !bytes.Equal(now, zin) {
			return nil, "err " + classify(err) + " dirty"
		}
		return nil, "err " + classify(err)
	}
	z, err := os.ReadFile(out)
	if err != nil {
		panic(err)
	}
	o, err := readZip(z)
	if err != nil {
		return nil, "err output-unreadable"
	}
	return &signed{o, z}, ""
}

// describe: the observable result of a signing: parts (name, SHA-256), the Manifest as written, the content type table as
// ContentTypes.Parse reads it back, relic's verdict on the output
func describe(s *signed, c cfg) string {
	var sb strings.Builder
	sb.WriteString("ok parts=")
	sigName := c.sigName()
	var refs []string
	algs := "ok"
	ct := "?"
	for i, p := range s.parts {
		if i > 0 {
			sb.WriteString(";")
		}
		h := sha256.Sum256(p.data)
		sb.WriteString(hexs(p.name) + ":" + hex.EncodeToString(h[:]))
		if p.name == sigName {
			doc := etree.NewDocument()
			if err := doc.ReadFromBytes(p.data); err != nil || doc.Root() == nil {
				algs = "unparsable"
				continue
			}
			for _, r := range doc.Root().FindElements("Object/Manifest/Reference") {
				dv, dm := "", ""
				if e := r.SelectElement("DigestValue"); e != nil {
					dv = e.Text()
				}
				if e := r.SelectElement("DigestMethod"); e != nil {
					dm = e.SelectAttrValue("Algorithm", "")
				}
				if dm != xmldsig.HashUris[hashes[c.hash]] {
					algs = "bad"
				}
				raw, err := base64.StdEncoding.DecodeString(dv)
				if err != nil {
					algs = "badb64"
				}
				refs = append(refs, hexs(r.SelectAttrValue("URI", ""))+"="+hx.Hex(raw))
			}
		}
		if p.name == contentTypesPath {
			ct = ctOracle(p.data)
		}
	}
	rf := "_"
	if len(refs) > 0 {
		rf = strings.Join(refs, ";")
	}
	vf := scratch("v.vsix")
	defer os.Remove(vf)
	if err := os.WriteFile(vf, s.zip, 0o644); err != nil {
		panic(err)
	}
	fmt.Fprintf(&sb, " refs=%s ct=%s V=%s algs=%s", rf, ct, verifyFile(vf), algs)
	return sb.String()
}

/* ---------- Handle ---------- */

func goPath(fn, a string) string {
	switch fn {
	case "clean":
		return "ok " + hexs(path.Clean(a))
	case "base":
		return "ok " + hexs(path.Base(a))
	case "dir":
		return "ok " + hexs(path.Dir(a))
	case "ext":
		return "ok " + hexs(path.Ext(a))
	case "rel":
		return "ok " + hexs(vsixsigner.VerifRelPath(a))
	case "uri":
		// checkManifest
		p := path.Join("./" + a)
		if i := strings.IndexByte(p, '?'); i >= 0 {
			p = p[:i]
		}
		return "ok " + hexs(p)
	case "find":
		return "ok " + hexs(vsixsigner.VerifFind([]vsixsigner.VerifRel{{Target: a, Type: "t"}}, "t"))
	case "keep":
		if vsixsigner.VerifKeepFile(a) {
			return "ok 1"
		}
		return "ok 0"
	case "targetback":
		// Append writes path.Clean("/"+zipPath); Find reads path.Clean("./"+target)
		rels, _, err := vsixsigner.VerifAppend([][2]string{{a, "t"}})
		if err != nil || len(rels) != 1 {
			return "err"
		}
		if vsixsigner.VerifFind(rels, "t") == a {
			return "ok 1"
		}
		return "ok 0"
	}
	return "bad-op"
}

// Handle runs one op on the real code.
func Handle(f []string) string {
	if len(f) == 0 {
		return "bad-op"
	}
	switch f[0] {
	case "sign":
		if len(f) != 9 {
			return "bad-op"
		}
		c := parseCfg(f[1:])
		if want := c.fields(); want != strings.Join(f[1:8], " ") {
			return "stale-op cfg"
		}
		ps := parseParts(f[8])
		if want := partsField(ps, signAnn); want != f[8] {
			return "stale-op parts"
		}
		s, bad := signParts(ps, c)
		if s == nil {
			return bad
		}
		return describe(s, c)
	case "resign":
		if len(f) != 16 {
			return "bad-op"
		}
		c1, c2 := parseCfg(f[1:]), parseCfg(f[8:])
		if c1.fields() != strings.Join(f[1:8], " ") || c2.fields() != strings.Join(f[8:15], " ") {
			return "stale-op cfg"
		}
		ps := parseParts(f[15])
		s1, bad := signParts(ps, c1)
		if s1 == nil {
			return bad
		}
		// relic cannot read the data descriptors of the empty members it writes (listed finding F7a): hand the first
		// result to the second signing through a plain archive/zip rewrite of the same parts
		s2, bad := signParts(s1.parts, c2)
		if s2 == nil {
			return "second-" + bad
		}
		return describe(s2, c2)
	case "verify":
		if len(f) != 4 {
			return "bad-op"
		}
		ps := parseParts(f[2])
		if pf, bt := annotate(ps); pf != f[2] || bt != f[1] {
			return "stale-op oracles"
		}
		vf := scratch("m.vsix")
		defer os.Remove(vf)
		if err := os.WriteFile(vf, buildZip(ps), 0o644); err != nil {
			panic(err)
		}
		v := verifyFile(vf)
		switch {
		case strings.HasPrefix(v, "ok:"):
			return "ok " + strings.ReplaceAll(v[3:], ":", " ")
		case strings.HasPrefix(v, "err:"):
			return "err " + v[4:]
		case strings.HasPrefix(v, "panic:"):
			return "panic " + v[6:]
		}
		return v
	case "path":
		if len(f) != 3 {
			return "bad-op"
		}
		return goPath(f[1], string(hx.MustUnHex(f[2])))
	}
	return "bad-op"
}

/* ---------- generator ---------- */

func ctXML(defs, ovrs [][2]string) []byte {
	esc := func(s string) string {
		var b bytes.Buffer
		xml.EscapeText(&b, []byte(s))
		return b.String()
	}
	var sb strings.Builder
	sb.WriteString(`<?xml version="1.0" encoding="utf-8"?><Types xmlns="` + nsCT + `">`)
	for _, d := range defs {
		fmt.Fprintf(&sb, `<Default Extension="%s" ContentType="%s"/>`, esc(d[0]), esc(d[1]))
	}
	for _, o := range ovrs {
		fmt.Fprintf(&sb, `<Override PartName="%s" ContentType="%s"/>`, esc(o[0]), esc(o[1]))
	}
	sb.WriteString(`</Types>`)
	return []byte(sb.String())
}

var (
	plainNames = []string{"a.txt", "dir/b.dll", "x/y/z.png", "readme.md", "lib/net45/tool.exe", "catalog.json", "manifest.json", "icon.PNG", "c.cer"}
	keptOdd    = []string{"_rels/x.txt", "x.RELS", "package/services/digital-signaturex/a.txt", "[content_types].xml", "sub/[Content_Types].xml",
		".txt", "a.", "dir.d/file.e", "a b.txt", "a&b<c>.txt", "\xc3\xa9.txt", "a%20b.txt", "a#b.txt", "a'b\".txt", "a.txt/", "../up.txt", "_relsx/.txt",
		"package/services/a.psdorx", "a.rels.txt"}
	dropped = []string{"x.rels", "sub/_rels/y.txt.rels", "z.psdor", "q.psdsxs", "_rels/", "_rels/.rels", "package/services/digital-signature/foo.txt",
		"package/services/digital-signature/origin.psdor", "package/services/digital-signature/xml-signature/old.psdsxs",
		"package/services/digital-signature/_rels/origin.psdor.rels", "package/services/digital-signature/", "dir/.rels"}
	noExt  = []string{"LICENSE", "dir/", "package/services/digital-signature", "dir.d/noext", "a/"}
	noTrip = []string{"a?b.txt", "a//b.txt", "./c.txt", "/abs.txt", "a/../b.txt", "a/./b.txt", "?x.txt", "a.txt?", "a/b/../../../c.txt", "//d.txt"}
	ctVals = []string{"text/plain", "application/octet-stream", "application/x-msdownload", "application/vnd.x+xml", "image/png", "text/xml"}
	ctOdd  = []string{"", "q/../../w", "../x", "a//b", "x?y", "a/./b", "t/../u", "a b", "a&b\"c"}
)

func pick(r *hx.Rng, xs []string) string { return xs[r.Intn(len(xs))] }

func genData(r *hx.Rng) []byte {
	switch r.Intn(6) {
	case 0:
		return nil
	case 1:
		return []byte("<x/>")
	case 2:
		return r.Bytes(1)
	default:
		return r.Bytes(1 + r.Intn(40))
	}
}

type genOpts struct {
	odd     bool // names / content types off the regular path
	noTrip  bool // names that do not survive the URI round trip
	noExtOK bool // names without extension, with an Override
	panicky bool // names without extension and without content type
}

// genPackage: parts of an unsigned package
func genPackage(r *hx.Rng, o genOpts) []part {
	var ps []part
	used := map[string]bool{}
	add := func(n string) {
		if used[n] {
			return // duplicate member names are added on purpose further down, not by chance
		}
		d := genData(r)
		if strings.HasSuffix(n, "/") {
			d = nil // archive/zip refuses data for a directory entry
		}
		ps = append(ps, part{n, d})
		used[n] = true
	}
	add("extension.vsixmanifest")
	for i, n := 0, r.Pick(0, 1, 2, 2, 3, 5); i < n; i++ {
		add(pick(r, plainNames))
	}
	if o.odd {
		for i, n := 0, r.Pick(1, 2, 3); i < n; i++ {
			add(pick(r, keptOdd))
		}
		for i, n := 0, r.Pick(0, 1, 2); i < n; i++ {
			add(pick(r, dropped))
		}
	}
	if o.noTrip {
		add(pick(r, noTrip))
	}
	var ovrs [][2]string
	if o.noExtOK {
		n := pick(r, noExt)
		add(n)
		ovrs = append(ovrs, [2]string{"/" + n, pick(r, ctVals)})
	}
	if o.panicky {
		add(pick(r, noExt))
	}
	// shuffle
	for i := len(ps) - 1; i > 0; i-- {
		j := r.Intn(i + 1)
		ps[i], ps[j] = ps[j], ps[i]
	}
	// content types
	var defs [][2]string
	exts := map[string]bool{}
	for _, p := range ps {
		e := path.Ext(path.Base(p.name))
		if len(e) > 1 && !exts[e[1:]] && r.Intn(4) > 0 {
			exts[e[1:]] = true
			v := pick(r, ctVals)
			if o.odd && r.Intn(5) == 0 {
				v = pick(r, ctOdd)
			}
			defs = append(defs, [2]string{e[1:], v})
		}
		if r.Intn(6) == 0 {
			nm := "/" + p.name
			if o.odd && r.Intn(3) == 0 {
				nm = p.name // no leading slash: never matches
			}
			v := pick(r, ctVals)
			if o.odd && r.Intn(4) == 0 {
				v = pick(r, ctOdd)
			}
			ovrs = append(ovrs, [2]string{nm, v})
		}
	}
	if o.odd && r.Intn(3) == 0 && len(defs) > 0 {
		defs = append(defs, [2]string{defs[0][0], pick(r, ctVals)}) // duplicate Default: the last one wins
	}
	if o.odd && r.Intn(4) == 0 {
		defs = append(defs, [2]string{"rels", "text/plain"}, [2]string{"psdor", "text/plain"}) // overwritten by newCtypes
	}
	k := r.Intn(10)
	switch {
	case k == 0 && o.odd:
		// no content types part at all
	case k == 1 && o.odd:
		i := r.Intn(len(ps) + 1)
		ps = append(ps[:i:i], append([]part{{contentTypesPath, ctXML(defs[:len(defs)/2], nil)}}, ps[i:]...)...)
		ps = append(ps, part{contentTypesPath, ctXML(defs[len(defs)/2:], ovrs)})
	default:
		i := r.Intn(len(ps) + 1)
		ps = append(ps[:i:i], append([]part{{contentTypesPath, ctXML(defs, ovrs)}}, ps[i:]...)...)
	}
	// duplicate member names (refused by the signer since the repair of FV4)
	if o.odd && r.Intn(6) == 0 {
		i := r.Intn(len(ps))
		if ps[i].name != contentTypesPath {
			j := r.Intn(len(ps) + 1)
			d := genData(r)
			if strings.HasSuffix(ps[i].name, "/") {
				d = nil
			}
			ps = append(ps[:j:j], append([]part{{ps[i].name, d}}, ps[j:]...)...)
		}
	}
	return ps
}

var hashNames = []string{"sha256", "sha1", "sha384", "sha512", "sha224"}
var keyNames = []string{"rsa", "p256", "p384", "p521"}

func genCfg(r *hx.Rng) cfg {
	c := cfg{hash: hashNames[r.Intn(len(hashNames))], key: keyNames[r.Intn(len(keyNames))], detach: r.Intn(3) == 0}
	if c.detach && r.Bool() {
		c.key += "+2"
	}
	return c
}

func emitSign(w *bufio.Writer, c cfg, ps []part) {
	fmt.Fprintf(w, "VSIX sign %s %s\n", c.fields(), partsField(ps, signAnn))
}

func emitVerify(w *bufio.Writer, ps []part, label string) {
	pf, bt := annotate(ps)
	fmt.Fprintf(w, "VSIX verify %s %s %s\n", bt, pf, label)
}

func clone(ps []part) []part {
	out := make([]part, len(ps))
	for i, p := range ps {
		out[i] = part{p.name, append([]byte(nil), p.data...)}
	}
	return out
}

func idx(ps []part, pred func(part) bool) int {
	for i, p := range ps {
		if pred(p) {
			return i
		}
	}
	return -1
}

func insert(ps []part, i int, p part) []part {
	return append(ps[:i:i], append([]part{p}, ps[i:]...)...)
}

func remove(ps []part, i int) []part { return append(ps[:i:i], ps[i+1:]...) }

func relsXML(rels [][2]string) []byte {
	var sb strings.Builder
	sb.WriteString(xml.Header + `<Relationships xmlns="` + nsRels + `">`)
	for i, r := range rels {
		fmt.Fprintf(&sb, `<Relationship Target="%s" Id="R%d" Type="%s"/>`, r[0], i, r[1])
	}
	sb.WriteString(`</Relationships>`)
	return []byte(sb.String())
}

type mutation struct {
	label string
	f     func(r *hx.Rng, ps []part, c cfg, other *signed) []part
}

// uniq: payload parts whose name occurs once (the edits labelled p- must change what the verifier sees under that name)
func uniq(ps []part) func(part) bool {
	n := map[string]int{}
	for _, p := range ps {
		n[p.name]++
	}
	return func(p part) bool { return isPayload(p) && n[p.name] == 1 }
}

func isPayload(p part) bool {
	return vsixsigner.VerifKeepFile(p.name) && !strings.HasSuffix(p.name, "/")
}

func flip(r *hx.Rng, d []byte) []byte {
	if len(d) == 0 {
		return []byte{byte(r.Intn(256))}
	}
	o := append([]byte(nil), d...)
	o[r.Intn(len(o))] ^= byte(1 << uint(r.Intn(8)))
	return o
}

// label prefix: "p-" = the edit changes something the signature protects (must be rejected), "g-" = a stated gap (accepted by
// the verifier: listed findings; before the repairs "p-add-part" and "p-shadow-before" were among them), "n-" = neutral (same verdict as before), "s-" = structural (whatever the model says)
var mutations = []mutation{
	{"n-none", func(r *hx.Rng, ps []part, c cfg, o *signed) []part { return ps }},
	{"n-reorder", func(r *hx.Rng, ps []part, c cfg, o *signed) []part {
		// parts of one name must keep their relative order: leave packages with duplicates alone
		seen := map[string]bool{}
		for _, p := range ps {
			if seen[p.name] {
				return nil
			}
			seen[p.name] = true
		}
		for i := len(ps) - 1; i > 0; i-- {
			j := r.Intn(i + 1)
			ps[i], ps[j] = ps[j], ps[i]
		}
		return ps
	}},
	{"p-flip-payload", func(r *hx.Rng, ps []part, c cfg, o *signed) []part {
		i := pickIdx(r, ps, uniq(ps))
		if i < 0 {
			return nil
		}
		ps[i].data = flip(r, ps[i].data)
		return ps
	}},
	{"p-append-payload", func(r *hx.Rng, ps []part, c cfg, o *signed) []part {
		i := pickIdx(r, ps, uniq(ps))
		if i < 0 {
			return nil
		}
		ps[i].data = append(ps[i].data, 0)
		return ps
	}},
	{"p-remove-payload", func(r *hx.Rng, ps []part, c cfg, o *signed) []part {
		i := pickIdx(r, ps, uniq(ps))
		if i < 0 {
			return nil
		}
		n := ps[i].name
		var out []part
		for _, p := range ps {
			if p.name != n {
				out = append(out, p)
			}
		}
		return out
	}},
	{"p-rename-payload", func(r *hx.Rng, ps []part, c cfg, o *signed) []part {
		i := pickIdx(r, ps, uniq(ps))
		if i < 0 {
			return nil
		}
		ps[i].name = "renamed-" + strings.ReplaceAll(ps[i].name, "/", "_")
		return ps
	}},
	{"p-shadow-after", func(r *hx.Rng, ps []part, c cfg, o *signed) []part {
		i := pickIdx(r, ps, uniq(ps))
		if i < 0 {
			return nil
		}
		return append(ps, part{ps[i].name, append([]byte("shadow"), ps[i].data...)})
	}},
	{"p-shadow-before", func(r *hx.Rng, ps []part, c cfg, o *signed) []part {
		i := pickIdx(r, ps, isPayload)
		if i < 0 {
			return nil
		}
		return insert(ps, r.Intn(i+1), part{ps[i].name, append([]byte("shadow"), ps[i].data...)})
	}},
	{"p-add-part", func(r *hx.Rng, ps []part, c cfg, o *signed) []part {
		return insert(ps, r.Intn(len(ps)+1), part{pick(r, []string{"evil.dll", "extra/payload.exe", "NOEXT", "package/services/digital-signaturex/evil.dll", "_rels/evil.bin"}), r.Bytes(5)})
	}},
	{"g-add-meta", func(r *hx.Rng, ps []part, c cfg, o *signed) []part {
		// names the verifier takes for signature metadata (keepFile refuses them) and does not look up
		return insert(ps, r.Intn(len(ps)+1), part{pick(r, []string{"x.rels", "package/services/digital-signature/extra.bin", "evil.psdor", "dir/_rels/evil.dll.rels"}), r.Bytes(5)})
	}},
	{"g-ctypes-changed", func(r *hx.Rng, ps []part, c cfg, o *signed) []part {
		i := idx(ps, func(p part) bool { return p.name == contentTypesPath })
		if i < 0 {
			return nil
		}
		ps[i].data = ctXML([][2]string{{"txt", "application/x-msdownload"}, {"vsixmanifest", "image/png"}}, nil)
		return ps
	}},
	{"g-ctypes-removed", func(r *hx.Rng, ps []part, c cfg, o *signed) []part {
		i := idx(ps, func(p part) bool { return p.name == contentTypesPath })
		if i < 0 {
			return nil
		}
		return remove(ps, i)
	}},
	{"g-ctypes-garbage", func(r *hx.Rng, ps []part, c cfg, o *signed) []part {
		i := idx(ps, func(p part) bool { return p.name == contentTypesPath })
		if i < 0 {
			return nil
		}
		ps[i].data = []byte("<not-xml")
		return ps
	}},
	{"p-flip-toprels", func(r *hx.Rng, ps []part, c cfg, o *signed) []part { return editNamed(r, ps, "_rels/.rels", flipSafe) }},
	{"p-ws-toprels", func(r *hx.Rng, ps []part, c cfg, o *signed) []part {
		return editNamed(r, ps, "_rels/.rels", func(r *hx.Rng, d []byte) []byte { return append(d, '\n') })
	}},
	{"p-ws-originrels", func(r *hx.Rng, ps []part, c cfg, o *signed) []part {
		return editNamed(r, ps, digSigPath+"/_rels/origin.psdor.rels", func(r *hx.Rng, d []byte) []byte { return append(d, ' ') })
	}},
	{"p-origin-nonempty", func(r *hx.Rng, ps []part, c cfg, o *signed) []part {
		return editNamed(r, ps, originPath, func(r *hx.Rng, d []byte) []byte { return []byte{0} })
	}},
	{"s-toprels-removed", func(r *hx.Rng, ps []part, c cfg, o *signed) []part { return dropNamed(ps, "_rels/.rels") }},
	{"s-originrels-removed", func(r *hx.Rng, ps []part, c cfg, o *signed) []part {
		return dropNamed(ps, digSigPath+"/_rels/origin.psdor.rels")
	}},
	{"s-origin-removed", func(r *hx.Rng, ps []part, c cfg, o *signed) []part { return dropNamed(ps, originPath) }},
	{"s-sig-removed", func(r *hx.Rng, ps []part, c cfg, o *signed) []part { return dropNamed(ps, c.sigName()) }},
	{"s-toprels-garbage", func(r *hx.Rng, ps []part, c cfg, o *signed) []part {
		return editNamed(r, ps, "_rels/.rels", func(r *hx.Rng, d []byte) []byte { return []byte("<Relationships") })
	}},
	{"s-toprels-wrong-ns", func(r *hx.Rng, ps []part, c cfg, o *signed) []part {
		return editNamed(r, ps, "_rels/.rels", func(r *hx.Rng, d []byte) []byte {
			return bytes.Replace(d, []byte(nsRels), []byte("http://example.com/rels"), 1)
		})
	}},
	{"s-toprels-no-origin", func(r *hx.Rng, ps []part, c cfg, o *signed) []part {
		return editNamed(r, ps, "_rels/.rels", func(r *hx.Rng, d []byte) []byte { return relsXML([][2]string{{"/x", "http://example.com/other"}}) })
	}},
	{"s-toprels-retarget", func(r *hx.Rng, ps []part, c cfg, o *signed) []part {
		t := pick(r, []string{"/nowhere.psdor", "package/services/digital-signature/origin.psdor", "./package/services/../package/services/digital-signature/origin.psdor",
			"/package/services/digital-signature/origin.psdor/", "", "/", ".."})
		return editNamed(r, ps, "_rels/.rels", func(r *hx.Rng, d []byte) []byte { return relsXML([][2]string{{t, sigOriginType}}) })
	}},
	{"s-toprels-two-origins", func(r *hx.Rng, ps []part, c cfg, o *signed) []part {
		a, b := [2]string{"/nowhere.psdor", sigOriginType}, [2]string{"/" + originPath, sigOriginType}
		if r.Bool() {
			a, b = b, a
		}
		return editNamed(r, ps, "_rels/.rels", func(r *hx.Rng, d []byte) []byte {
			return relsXML([][2]string{{"/other", "http://example.com/t"}, a, b})
		})
	}},
	{"s-originrels-retarget", func(r *hx.Rng, ps []part, c cfg, o *signed) []part {
		t := pick(r, []string{"/nowhere.psdsxs", "/extension.vsixmanifest", "/" + originPath, c.sigName(), "/" + c.sigName() + "/."})
		return editNamed(r, ps, digSigPath+"/_rels/origin.psdor.rels", func(r *hx.Rng, d []byte) []byte { return relsXML([][2]string{{t, sigType}}) })
	}},
	{"s-originrels-no-sig", func(r *hx.Rng, ps []part, c cfg, o *signed) []part {
		return editNamed(r, ps, digSigPath+"/_rels/origin.psdor.rels", func(r *hx.Rng, d []byte) []byte { return relsXML([][2]string{{"/" + c.sigName(), certType}}) })
	}},
	{"s-sig-flip", func(r *hx.Rng, ps []part, c cfg, o *signed) []part { return editNamed(r, ps, c.sigName(), flipSafe) }},
	{"s-sig-empty", func(r *hx.Rng, ps []part, c cfg, o *signed) []part {
		return editNamed(r, ps, c.sigName(), func(r *hx.Rng, d []byte) []byte { return nil })
	}},
	{"s-sig-comment-only", func(r *hx.Rng, ps []part, c cfg, o *signed) []part {
		return editNamed(r, ps, c.sigName(), func(r *hx.Rng, d []byte) []byte { return []byte("<!-- nothing -->") })
	}},
	{"s-sig-not-signature", func(r *hx.Rng, ps []part, c cfg, o *signed) []part {
		return editNamed(r, ps, c.sigName(), func(r *hx.Rng, d []byte) []byte { return []byte("<x/>") })
	}},
	{"s-sig-garbage", func(r *hx.Rng, ps []part, c cfg, o *signed) []part {
		return editNamed(r, ps, c.sigName(), func(r *hx.Rng, d []byte) []byte { return []byte("<Signature") })
	}},
	{"s-sig-digest-edited", func(r *hx.Rng, ps []part, c cfg, o *signed) []part {
		// change one DigestValue inside the signed Object: the XML layer must notice
		return editNamed(r, ps, c.sigName(), func(r *hx.Rng, d []byte) []byte {
			i := bytes.Index(d, []byte("<DigestValue>"))
			if i < 0 {
				return d
			}
			o := append([]byte(nil), d...)
			j := i + len("<DigestValue>") + 2
			if o[j] == 'A' {
				o[j] = 'B'
			} else {
				o[j] = 'A'
			}
			return o
		})
	}},
	{"p-wrap-object", func(r *hx.Rng, ps []part, c cfg, o *signed) []part {
		// XML signature wrapping: a payload part is altered; in front of the signed package object (the Id="idPackageObject"
		// target of the SignedInfo reference, left untouched) the signature part gets an unreferenced copy of it, without the Id,
		// whose manifest lists the digest of the altered part.  The part digests must be judged on the element the signature covers.
		i := pickIdx(r, ps, func(p part) bool { return uniq(ps)(p) && isPayload(p) })
		h, ok := hashes[c.hash]
		if i < 0 || !ok {
			return nil
		}
		oldSum, newData := h.New(), flip(r, ps[i].data)
		oldSum.Write(ps[i].data)
		newSum := h.New()
		newSum.Write(newData)
		oldB64 := base64.StdEncoding.EncodeToString(oldSum.Sum(nil))
		newB64 := base64.StdEncoding.EncodeToString(newSum.Sum(nil))
		done := false
		out := editNamed(r, ps, c.sigName(), func(r *hx.Rng, d []byte) []byte {
			a := bytes.Index(d, []byte("<Object Id=\"idPackageObject\""))
			e := bytes.Index(d, []byte("</Object>"))
			if a < 0 || e < a || !bytes.Contains(d[a:e], []byte(oldB64)) {
				return d
			}
			e += len("</Object>")
			cp := bytes.Replace(append([]byte(nil), d[a:e]...), []byte(" Id=\"idPackageObject\""), nil, 1)
			cp = bytes.Replace(cp, []byte(oldB64), []byte(newB64), 1)
			done = true
			return append(append(append([]byte(nil), d[:a]...), cp...), d[a:]...)
		})
		if !done || out == nil {
			return nil
		}
		for k := range out {
			if out[k].name == ps[i].name {
				out[k].data = newData
			}
		}
		return out
	}},
	{"s-sig-swapped", func(r *hx.Rng, ps []part, c cfg, o *signed) []part {
		// the signature part of another signing (same or other package, same or other key)
		if o == nil {
			return nil
		}
		j := idx(o.parts, func(p part) bool { return strings.HasSuffix(p.name, ".psdsxs") })
		if j < 0 {
			return nil
		}
		return editNamed(r, ps, c.sigName(), func(r *hx.Rng, d []byte) []byte { return o.parts[j].data })
	}},
	{"s-cert-flip", func(r *hx.Rng, ps []part, c cfg, o *signed) []part {
		i := idx(ps, func(p part) bool { return strings.HasSuffix(p.name, ".cer") && strings.HasPrefix(p.name, xmlCertPath) })
		if i < 0 {
			return nil
		}
		ps[i].data = flip(r, ps[i].data)
		return ps
	}},
	{"s-cert-removed", func(r *hx.Rng, ps []part, c cfg, o *signed) []part {
		i := idx(ps, func(p part) bool { return strings.HasSuffix(p.name, ".cer") && strings.HasPrefix(p.name, xmlCertPath) })
		if i < 0 {
			return nil
		}
		return remove(ps, i)
	}},
	{"s-cert-other", func(r *hx.Rng, ps []part, c cfg, o *signed) []part {
		i := idx(ps, func(p part) bool { return strings.HasSuffix(p.name, ".cer") && strings.HasPrefix(p.name, xmlCertPath) })
		if i < 0 {
			return nil
		}
		_, other := parseKeyCert("root")
		ps[i].data = other.Raw
		return ps
	}},
	{"s-sigrels-removed", func(r *hx.Rng, ps []part, c cfg, o *signed) []part {
		return dropNamed(ps, vsixsigner.VerifRelPath(c.sigName()))
	}},
	{"s-sigrels-garbage", func(r *hx.Rng, ps []part, c cfg, o *signed) []part {
		return editNamed(r, ps, vsixsigner.VerifRelPath(c.sigName()), func(r *hx.Rng, d []byte) []byte { return []byte("garbage") })
	}},
	{"s-sigrels-added", func(r *hx.Rng, ps []part, c cfg, o *signed) []part {
		// a certificate relationship part for a signature that embeds its certificates
		n := vsixsigner.VerifRelPath(c.sigName())
		if idx(ps, func(p part) bool { return p.name == n }) >= 0 {
			return nil
		}
		t := pick(r, []string{"/extension.vsixmanifest", "/nowhere.cer", "/" + originPath})
		return append(ps, part{n, relsXML([][2]string{{t, certType}})})
	}},
}

func flipSafe(r *hx.Rng, d []byte) []byte { return flip(r, d) }

func pickIdx(r *hx.Rng, ps []part, pred func(part) bool) int {
	var c []int
	for i, p := range ps {
		if pred(p) {
			c = append(c, i)
		}
	}
	if len(c) == 0 {
		return -1
	}
	return c[r.Intn(len(c))]
}

// the member of that name the verifier looks at
func lastOfName(ps []part, i int) int {
	if i < 0 {
		return -1
	}
	for j := len(ps) - 1; j > i; j-- {
		if ps[j].name == ps[i].name {
			return j
		}
	}
	return i
}

func editNamed(r *hx.Rng, ps []part, name string, f func(*hx.Rng, []byte) []byte) []part {
	i := lastOfName(ps, idx(ps, func(p part) bool { return p.name == name }))
	if i < 0 {
		return nil
	}
	ps[i].data = f(r, ps[i].data)
	return ps
}

func dropNamed(ps []part, name string) []part {
	var out []part
	found := false
	for _, p := range ps {
		if p.name == name {
			found = true
			continue
		}
		out = append(out, p)
	}
	if !found {
		return nil
	}
	return out
}

// crafted manifests: Objects built here and signed with the real xmldsig.SignEnveloping, so that checkManifest's own logic
// is exercised beyond what relic's signer writes
type cref struct{ uri, alg, dv string }

func craftSig(c cfg, manifests [][]cref, extraObjKids func(obj *etree.Element)) []byte {
	cert := getCert(c.key)
	obj := etree.NewElement("Object")
	obj.CreateAttr("Id", "idPackageObject")
	for _, refs := range manifests {
		m := obj.CreateElement("Manifest")
		for _, rf := range refs {
			e := m.CreateElement("Reference")
			e.CreateAttr("URI", rf.uri)
			if rf.alg != "-" {
				e.CreateElement("DigestMethod").CreateAttr("Algorithm", rf.alg)
			}
			if rf.dv != "-" {
				e.CreateElement("DigestValue").SetText(rf.dv)
			}
		}
	}
	if extraObjKids != nil {
		extraObjKids(obj)
	}
	sigel, err := xmldsig.SignEnveloping(obj, hashes[c.hash], cert.Signer(), cert.Chain(), xmldsig.SignOptions{UseRecC14n: true, IncludeKeyValue: true, IncludeX509: true})
	if err != nil {
		panic(err)
	}
	doc := etree.NewDocument()
	doc.SetRoot(sigel)
	b, err := doc.WriteToBytes()
	if err != nil {
		panic(err)
	}
	return b
}

// envelopedRootPkg: payload plus signature plumbing whose signature part is an enveloped Signature element on its own
func envelopedRootPkg(c cfg, payload []part) []part {
	doc := etree.NewDocument()
	rootEl := doc.CreateElement("doc")
	rootEl.CreateElement("payload").SetText("x")
	cert := getCert(c.key)
	if err := xmldsig.Sign(rootEl, rootEl, hashes[c.hash], cert.Signer(), cert.Chain(), xmldsig.SignOptions{IncludeKeyValue: true, IncludeX509: true}); err != nil {
		panic(err)
	}
	sd := etree.NewDocument()
	sd.SetRoot(rootEl.SelectElement("Signature").Copy())
	sb, err := sd.WriteToBytes()
	if err != nil {
		panic(err)
	}
	sn := c.sigName()
	return append(clone(payload),
		part{"_rels/.rels", relsXML([][2]string{{"/" + originPath, sigOriginType}})},
		part{digSigPath + "/_rels/origin.psdor.rels", relsXML([][2]string{{"/" + sn, sigType}})},
		part{originPath, nil}, part{sn, sb})
}

func b64digest(h crypto.Hash, d []byte) string {
	w := h.New()
	w.Write(d)
	return base64.StdEncoding.EncodeToString(w.Sum(nil))
}

func genCrafted(w *bufio.Writer, r *hx.Rng, n int) {
	for i := 0; i < n; i++ {
		c := cfg{hash: hashNames[r.Intn(len(hashNames))], key: keyNames[r.Intn(2)]}
		payload := []part{{"extension.vsixmanifest", []byte("<x/>")}, {"a.txt", r.Bytes(4)}, {"dir/b.dll", r.Bytes(6)}, {"e.txt", nil}, {"a", []byte("short")}}
		uriOf := func(p part) string { return "/" + p.name + "?ContentType=text/plain" }
		good := func(p part) cref {
			return cref{uriOf(p), xmldsig.HashUris[hashes[c.hash]], b64digest(hashes[c.hash], p.data)}
		}
		var ms [][]cref
		label := ""
		if i%15 == 14 {
			// a validly signed *enveloped* Signature stored as the signature part: xmldsig.Verify(root, ".") finds the root itself
			emitVerify(w, envelopedRootPkg(c, payload), "c-enveloped-root")
			continue
		}
		switch k := i % 14; k {
		case 0:
			label = "c-all-good"
			ms = [][]cref{{good(payload[0]), good(payload[1]), good(payload[2]), good(payload[3])}}
		case 1:
			label = "c-empty-manifest"
			ms = [][]cref{{}}
		case 2:
			label = "c-no-manifest"
		case 3:
			label = "c-two-manifests"
			ms = [][]cref{{good(payload[0])}, {good(payload[1])}}
			if r.Bool() {
				ms[1][0].dv = b64digest(hashes[c.hash], []byte("other"))
			}
		case 4:
			label = "c-other-alg"
			h2 := hashNames[r.Intn(len(hashNames))]
			ms = [][]cref{{good(payload[0]), {uriOf(payload[1]), xmldsig.HashUris[hashes[h2]], b64digest(hashes[h2], payload[1].data)}}}
		case 5:
			label = "c-alg-variants"
			alg := pick(r, []string{"sha256", xmldsig.NsXMLDsig + "sha256", xmldsig.NsXMLDsigMore + "sha256", "http://example.com/sha256", xmldsig.NsXMLEnc + "md5", "", "-", xmldsig.NsXMLDsig + xmldsig.NsXMLEnc + "sha256"})
			ms = [][]cref{{{uriOf(payload[1]), alg, b64digest(crypto.SHA256, payload[1].data)}}}
		case 6:
			label = "c-bad-b64"
			dv := pick(r, []string{"!!!", "", "-", "AAA", b64digest(hashes[c.hash], payload[1].data) + "=", " " + b64digest(hashes[c.hash], payload[1].data), b64digest(hashes[c.hash], payload[1].data)[:8] + "\n" + b64digest(hashes[c.hash], payload[1].data)[8:], "AAAA"})
			ms = [][]cref{{{uriOf(payload[1]), xmldsig.HashUris[hashes[c.hash]], dv}}}
		case 7:
			label = "c-uri-variants"
			u := pick(r, []string{"/a.txt", "a.txt", "./a.txt", "/dir/../a.txt", "//a.txt", "/a.txt?", "/a.txt?x?y", "/a.txt/", "/a.txt/.", "/dir/b.dll/../../a.txt?ContentType=x", "/a.txt?ContentType=q/../../dir/b.dll", "/a?.txt", "", "/", "?", "/missing.txt?ContentType=text/plain", "/A.TXT"})
			ms = [][]cref{{{u, xmldsig.HashUris[hashes[c.hash]], b64digest(hashes[c.hash], payload[1].data)}}}
		case 8:
			label = "c-wrong-digest"
			ms = [][]cref{{good(payload[0]), {uriOf(payload[1]), xmldsig.HashUris[hashes[c.hash]], b64digest(hashes[c.hash], []byte("not it"))}}}
		case 9:
			label = "c-first-error-wins"
			ms = [][]cref{{{"/missing1?x", xmldsig.HashUris[hashes[c.hash]], "!!!"}, {uriOf(payload[1]), "bogus", "!!!"}}}
			if r.Bool() {
				ms[0][0], ms[0][1] = ms[0][1], ms[0][0]
			}
		case 10:
			label = "c-dup-children"
			// repeated DigestMethod / DigestValue children: encoding/xml keeps the last
			ms = nil
		case 11:
			label = "c-covers-signature-parts"
			ms = [][]cref{{good(payload[0]), {"/" + originPath + "?ContentType=x", xmldsig.HashUris[hashes[c.hash]], b64digest(hashes[c.hash], nil)}}}
		case 12:
			label = "c-same-part-twice"
			ms = [][]cref{{good(payload[1]), good(payload[1])}}
		case 13:
			label = "c-prefixed-elements"
			ms = nil
		}
		var extra func(obj *etree.Element)
		if label == "c-dup-children" {
			extra = func(obj *etree.Element) {
				m := obj.CreateElement("Manifest")
				e := m.CreateElement("Reference")
				e.CreateAttr("URI", uriOf(payload[1]))
				e.CreateElement("DigestMethod").CreateAttr("Algorithm", "bogus")
				e.CreateElement("DigestMethod").CreateAttr("Algorithm", xmldsig.HashUris[hashes[c.hash]])
				e.CreateElement("DigestValue").SetText("!!!")
				e.CreateElement("DigestValue").SetText(b64digest(hashes[c.hash], payload[1].data))
				e.CreateElement("Transforms").CreateElement("Transform").CreateAttr("Algorithm", "whatever")
				if r.Bool() {
					e.CreateElement("DigestMethod") // no Algorithm attribute: the field keeps its value
				}
			}
		}
		if label == "c-prefixed-elements" {
			extra = func(obj *etree.Element) {
				obj.CreateAttr("xmlns:o", "http://example.com/o")
				m := obj.CreateElement("o:Manifest")
				e := m.CreateElement("o:Reference")
				e.CreateAttr("URI", uriOf(payload[1]))
				if r.Bool() {
					e.CreateAttr("o:URI", uriOf(payload[2]))
				}
				e.CreateElement("o:DigestMethod").CreateAttr("Algorithm", xmldsig.HashUris[hashes[c.hash]])
				e.CreateElement("DigestValue").SetText(b64digest(hashes[c.hash], payload[1].data))
				// a Reference that is not inside a Manifest is ignored
				o2 := obj.CreateElement("Reference")
				o2.CreateAttr("URI", "/missing")
			}
		}
		sig := craftSig(c, ms, extra)
		sn := c.sigName()
		ps := append(clone(payload),
			part{"_rels/.rels", relsXML([][2]string{{"/" + originPath, sigOriginType}})},
			part{digSigPath + "/_rels/origin.psdor.rels", relsXML([][2]string{{"/" + sn, sigType}})},
			part{originPath, nil},
			part{sn, sig})
		emitVerify(w, ps, label)
	}
}

var pathArgs = []string{"", ".", "..", "/", "//", "a", "a/", "/a", "a/b", "a//b", "a/./b", "a/../b", "../a", "../../a", "a/..", "a/../..", "/..", "/../a", "a/b/",
	"a.txt", "a.b.c", ".rels", "_rels/.rels", "_rels/", "_rels", "dir/.rels", "x.rels", "x.rels/", "x.rels/y", "a.", ".", "a/.b", "a.b/c", "dir.d/noext",
	"[Content_Types].xml", "[Content_Types].xml/", "sub/[Content_Types].xml", originPath, digSigPath, digSigPath + "/", digSigPath + "x/y.txt", digSigPath + "/x",
	"x.psdor", "x.psdsxs", "x.psdsxs.bak", "X.RELS", "/a.txt?ContentType=text/plain", "/a?b.txt?ContentType=text/plain", "/a.txt?ContentType=q/../../w",
	"/a.txt?ContentType=../x", "/dir/a.txt?ContentType=a//b", "/../up.txt?ContentType=x", "//a", "/./a", "/a/", "?", "a?", "/package/services/digital-signature/origin.psdor",
	"package/services/digital-signature/xml-signature/abc.psdsxs", "a/b/../../../c", "./", "./.", "a/./", "...", ".../a", "a/...", "..a", "a..", "a/..b/c"}

func genPaths(w *bufio.Writer, r *hx.Rng, n int) {
	fns := []string{"clean", "base", "dir", "ext", "rel", "uri", "find", "keep", "targetback"}
	for _, a := range pathArgs {
		for _, fn := range fns {
			fmt.Fprintf(w, "VSIX path %s %s\n", fn, hexs(a))
		}
	}
	alphabet := []string{"a", "b", ".", "..", "/", "//", "?", "_rels", ".rels", "x.txt", ".psdor", "package/services/digital-signature", "?ContentType=", "[Content_Types].xml", "./"}
	for i := 0; i < n; i++ {
		var sb strings.Builder
		for j, k := 0, 1+r.Intn(6); j < k; j++ {
			sb.WriteString(pick(r, alphabet))
			if r.Intn(3) == 0 {
				sb.WriteString("/")
			}
		}
		fmt.Fprintf(w, "VSIX path %s %s\n", fns[r.Intn(len(fns))], hexs(sb.String()))
	}
}

// Gen writes the op list of one property.
func Gen(w *bufio.Writer, seed uint64, tier string, prop string) {
	r := hx.NewRng(hx.NewRng(seed ^ 0x7651).U64())
	scale := 1
	if tier == "thorough" {
		scale = 8
	}
	nSign, nMutBases, nResign, nCraft, nPath := 0, 0, 0, 0, 0
	switch prop {
	case "C01":
		nSign, nMutBases, nResign, nCraft, nPath = 120, 4, 10, 0, 60
	case "C02":
		nSign, nMutBases, nResign, nCraft, nPath = 10, 30, 0, 70, 20
	case "C03":
		nSign, nMutBases, nResign, nCraft, nPath = 120, 0, 10, 0, 60
	case "C08":
		nSign, nMutBases, nResign, nCraft, nPath = 10, 2, 60, 0, 0
	default:
		return
	}
	if nPath > 0 {
		genPaths(w, r, nPath*scale)
	}
	for i := 0; i < nSign*scale; i++ {
		o := genOpts{}
		switch i % 8 {
		case 1, 2:
			o.odd = true
		case 3:
			o.noTrip = true
		case 4:
			o.noExtOK = true
		case 5:
			o.odd, o.noExtOK = true, true
		case 6:
			o.panicky = i%16 == 6
			o.odd = i%16 != 6
		}
		emitSign(w, genCfg(r), genPackage(r, o))
	}
	for i := 0; i < nResign*scale; i++ {
		o := genOpts{odd: i%3 == 1, noExtOK: i%5 == 2}
		c1, c2 := genCfg(r), genCfg(r)
		if i%4 == 0 {
			c2 = c1
		}
		ps := genPackage(r, o)
		fmt.Fprintf(w, "VSIX resign %s %s %s\n", c1.fields(), c2.fields(), partsField(ps, signAnn))
	}
	for i := 0; i < nMutBases*scale; i++ {
		o := genOpts{odd: i%3 == 1, noExtOK: i%4 == 3}
		c := genCfg(r)
		if i%2 == 0 {
			c.detach = true
		}
		ps := genPackage(r, o)
		s, _ := signParts(ps, c)
		if s == nil {
			continue
		}
		// another signing whose signature part can be swapped in: same package / other key, or another package
		var other *signed
		c2 := c
		if i%2 == 0 {
			c2.key = keyNames[(idx2(keyNames, strings.TrimSuffix(c.key, "+2"))+1)%len(keyNames)]
			other, _ = signParts(ps, c2)
		} else {
			other, _ = signParts(genPackage(r, genOpts{}), c2)
		}
		for _, m := range mutations {
			if prop != "C02" && !strings.HasPrefix(m.label, "n-") && !strings.HasPrefix(m.label, "g-") {
				continue
			}
			if prop == "C02" && tier != "thorough" && (i+len(m.label))%2 == 1 && strings.HasPrefix(m.label, "s-") {
				continue
			}
			out := m.f(r, clone(s.parts), c, other)
			if out == nil {
				continue
			}
			emitVerify(w, out, m.label)
		}
	}
	if nCraft > 0 {
		genCrafted(w, r, nCraft*scale)
	}
}

func idx2(xs []string, s string) int {
	for i, x := range xs {
		if x == s {
			return i
		}
	}
	return 0
}

// WitnessOps regenerates the corpus files of the listed VSIX findings (corpus/C0x/vsix-*.ops): fixed packages, RSA key.
func WitnessOps() map[string][]string {
	out := map[string][]string{}
	var buf bytes.Buffer
	w := bufio.NewWriter(&buf)
	take := func() []string {
		w.Flush()
		lines := strings.Split(strings.TrimSpace(buf.String()), "\n")
		buf.Reset()
		return lines
	}
	c := cfg{hash: "sha256", key: "rsa"}
	ct := ctXML([][2]string{{"txt", "text/plain"}, {"vsixmanifest", "text/xml"}}, nil)
	// C01: a part name with a '?', one with an empty segment
	emitSign(w, c, []part{{"extension.vsixmanifest", []byte("<x/>")}, {"a?b.txt", []byte("payload")}, {contentTypesPath, ct}})
	emitSign(w, c, []part{{"extension.vsixmanifest", []byte("<x/>")}, {"dir//b.txt", []byte("payload")}, {contentTypesPath, ct}})
	out["C01/vsix-uri-roundtrip.ops"] = take()
	// C03: relationship part of a payload part, an unrelated .psdor file
	emitSign(w, c, []part{{"extension.vsixmanifest", []byte("<x/>")}, {"sub/y.txt", []byte("payload")},
		{"sub/_rels/y.txt.rels", relsXML([][2]string{{"/extension.vsixmanifest", "http://example.com/rel"}})}, {"notes.psdor", []byte("not a signature origin")}, {contentTypesPath, ct}})
	out["C03/vsix-foreign-parts.ops"] = take()
	// C02: edits of a signed package that relic's verifier accepts
	s, bad := signParts([]part{{"extension.vsixmanifest", []byte("<x/>")}, {"a.txt", []byte("payload")}, {contentTypesPath, ct}}, c)
	if s == nil {
		panic(bad)
	}
	emitVerify(w, append(clone(s.parts), part{"evil.dll", []byte("MZ")}), "p-add-part")
	emitVerify(w, insert(clone(s.parts), 0, part{"a.txt", []byte("shadow")}), "p-shadow-before")
	emitVerify(w, append(clone(s.parts), part{"package/services/digital-signature/evil.dll", []byte("MZ")}), "g-add-meta")
	ch := clone(s.parts)
	ch[len(ch)-1].data = ctXML([][2]string{{"txt", "application/x-msdownload"}}, nil)
	emitVerify(w, ch, "g-ctypes-changed")
	emitVerify(w, clone(s.parts)[:len(s.parts)-1], "g-ctypes-removed")
	out["C02/vsix-gaps.ops"] = take()
	// C11: an enveloped Signature as signature part (sigEl.Parent() is nil in xmldsig.Verify), in C11's own op format
	out["C11/vsix_enveloped_root.ops"] = []string{"C11 ep verify:vsix hex:" + hx.Hex(buildZip(envelopedRootPkg(c, []part{{"extension.vsixmanifest", []byte("<x/>")}}))) + " -"}
	return out
}

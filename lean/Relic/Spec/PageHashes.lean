/-
  Relic.Spec.PageHashes — the Authenticode *page hashes* attribute (SPC_PE_IMAGE_PAGE_HASHES_V1/V2) written from the
  public description, i.e. the table that signtool `/ph` emits and that osslsigncode reproduces in
  `pe_calc_page_hash` / `pe_page_hash_calc`:

    entry 0     offset 0, digest of the headers `[0, SizeOfHeaders)` without the CheckSum field and without the
                Certificate Table data-directory entry, followed by `pageSize - SizeOfHeaders` zero bytes
                (so `pageSize - 12` bytes are hashed);
    then        for every section-table entry with `SizeOfRawData ≠ 0`, in section-table order, for every
                `l = 0, ps, 2·ps, … < SizeOfRawData`: offset `PointerToRawData + l` (32-bit), digest of the
                `min(ps, SizeOfRawData - l)` file bytes at that offset zero-padded to `ps` bytes;
    last entry  offset = `PointerToRawData + SizeOfRawData` of the last such section (0 when there is none),
                all-zero digest (here: empty hash input, as in the model's output convention).

  Everything is read from the FILE BYTES (`e_lfanew`, NumberOfSections, SizeOfOptionalHeader, the section table,
  SizeOfHeaders, Machine / SectionAlignment).  Shares only the byte helpers `seg`/`u16`/`u32` with `Relic.Model.PE`
  (and the offset of the certificate-table directory entry with `Relic.Spec.Authenticode`).

  UNCERTAIN CLAUSE — the page size.  The Authenticode document does not define it.  Microsoft's description of the
  mechanism (page hashes are checked when a page is faulted in) makes it the architecture's page size: 4096, and
  8192 for IA-64 / Alpha.  osslsigncode takes the optional header's SectionAlignment instead.  The two coincide on
  every image with the default SectionAlignment.  The specification is therefore parameterised (`pageHashesWith ps`);
  `pageHashes` instantiates the architectural size, `pageHashesSA` osslsigncode's choice.
-/
import Relic.Model.PE
import Relic.Spec.Authenticode
namespace Relic.Spec.PageHashes
open Relic Relic.PE

/-- the section table as `(PointerToRawData, SizeOfRawData)` pairs, in table order -/
def sectionTable (f : Bytes) : List (Nat × Nat) :=
  let pe := u32 f 0x3c
  let n := u16 f (pe + 6)                       -- NumberOfSections
  let tbl := pe + 24 + u16 f (pe + 20)          -- after the optional header (SizeOfOptionalHeader)
  (List.range n).map fun i => (u32 f (tbl + 40 * i + 20), u32 f (tbl + 40 * i + 16))

/-- SizeOfHeaders (optional header offset 60, both variants) -/
def sizeOfHeaders (f : Bytes) : Nat := u32 f (u32 f 0x3c + 84)

/-- FileAlignment (optional header offset 36) -/
def fileAlignment (f : Bytes) : Nat := u32 f (u32 f 0x3c + 60)

/-- SectionAlignment (optional header offset 32) -/
def sectionAlignment (f : Bytes) : Nat := u32 f (u32 f 0x3c + 56)

/-- architectural page size by COFF Machine: IA-64 (0x200), Alpha (0x184), Alpha64 (0x284) have 8 KiB pages -/
def archPageSize (f : Bytes) : Nat :=
  let machine := u16 f (u32 f 0x3c + 4)
  if machine = 0x200 ∨ machine = 0x184 ∨ machine = 0x284 then 8192 else 4096

/-- entry 0: the headers `[0, hdr)` minus CheckSum and the certificate-table directory entry at `dd`, zero-padded
    as if to a full page -/
def headerEntry (ps : Nat) (f : Bytes) (dd hdr : Nat) : Nat × Bytes :=
  let pe := u32 f 0x3c
  (0, seg f 0 (pe + 88) ++ seg f (pe + 92) dd ++ seg f (dd + 8) hdr ++ List.replicate (ps - hdr) 0)

/-- the entries of one section: `ro = PointerToRawData`, `rs = SizeOfRawData` -/
def sectionPages (ps : Nat) (f : Bytes) (ro rs : Nat) : List (Nat × Bytes) :=
  (List.range ((rs + ps - 1) / ps)).map fun k =>
    let l := k * ps
    let n := min ps (rs - l)
    ((ro + l) % 2 ^ 32, seg f (ro + l) (ro + l + n) ++ List.replicate (ps - n) 0)

/-- the table for a given page size, directory-entry offset, header size and section table: a list of
    (offset, hash input); the final entry has the empty input (null digest).  `none`: the headers do not fit into one
    page (the description has no answer). -/
def tableOf (ps : Nat) (f : Bytes) (dd hdr : Nat) (table : List (Nat × Nat)) : Option (List (Nat × Bytes)) :=
  if ps = 0 ∨ ps < hdr then none else
  let secs := table.filter fun s => s.2 ≠ 0
  let lastpos := secs.foldl (fun _ s => (s.1 + s.2) % 2 ^ 32) 0
  some (headerEntry ps f dd hdr :: secs.flatMap (fun s => sectionPages ps f s.1 s.2) ++ [(lastpos, [])])

/-- the page-hash table of the file `f` for page size `ps`, everything read from the file bytes -/
def pageHashesWith (ps : Nat) (f : Bytes) : Option (List (Nat × Bytes)) :=
  match Spec.Authenticode.certDirOffset f with
  | none => none
  | some dd => tableOf ps f dd (sizeOfHeaders f) (sectionTable f)

/-- the specification with the architectural page size -/
def pageHashes (f : Bytes) : Option (List (Nat × Bytes)) := pageHashesWith (archPageSize f) f

/-- osslsigncode's variant: page size = SectionAlignment -/
def pageHashesSA (f : Bytes) : Option (List (Nat × Bytes)) := pageHashesWith (sectionAlignment f) f

/-! ### the class of images on which relic's section-table fix-ups are the identity -/

/-- every section except the LAST TABLE ENTRY is empty or has a SizeOfRawData that is a multiple of `fa` -/
def sizesAligned (fa : Nat) : List (Nat × Nat) → Bool
  | [] => true
  | [_] => true
  | s :: rest => (s.2 = 0 || s.2 % fa = 0) && sizesAligned fa rest

/-- `regular f`: (1) the raw sizes of all sections but the last table entry are multiples of FileAlignment,
    (2) no non-empty section starts below SizeOfHeaders.  Decidable on the file bytes. -/
def regular (f : Bytes) : Bool :=
  sizesAligned (fileAlignment f) (sectionTable f) &&
  (sectionTable f).all fun s => s.2 = 0 || sizeOfHeaders f ≤ s.1

end Relic.Spec.PageHashes

/- line-protocol handlers for the TSX ops (time-stamping surroundings: pools, limiter, cache key, attach sites) -/
import Relic.Model.TsaPool
import Relic.Driver.C10
namespace Relic.Driver.TsaX
open Relic Relic.Tsa Relic.TsaX
open Relic.Driver.C10 (H wireOf rfcTok msTok csvN csvS chainClass srcName nonce0 leafId edA)

def cfg : Cfg := Cfg.fixed

/-- pool / signature-value names travel as hex -/
def nameOf (s : String) : Option Name :=
  if s = "-" then some [] else (fromHex s).map fun b => b.map fun x => Char.ofNat x.toNat

/-- a signature value given as hex bytes, as an abstract value: length-prefixed big-endian number (injective) -/
def edOf (s : String) : Option Nat := (fromHex s).map fun b => beVal (UInt8.ofNat (b.length % 256) :: b)

/-- stand-in for the 64 hex characters of SHA-256: injective, 64 characters for every value the harness uses -/
def D (ed : Nat) : List Char :=
  let ds := Nat.toDigits 10 ed
  List.replicate (64 - ds.length) 'x' ++ ds

def str (cs : List Char) : String := String.ofList cs

def worldOf (r : Req) (script : List String) : Url → Wire :=
  fun u => (wireOf r u (script.getD u "http500")).getD .reset

def scriptOK (r : Req) (script : List String) : Bool :=
  script.all fun b => (wireOf r 0 b).isSome

def reqFor (legacy : Bool) (ed : Nat) : Req := ⟨legacy, nonce0, if legacy then ed else H ed⟩

/-- chain judgement with everything long-lived; only the rogue authority (certificate 2) is untrusted -/
def chainLong (cert : Nat) (u : Usage) (_ : Int) : Bool :=
  match u with
  | .timestamping => cert = 1
  | .requested => cert = leafId

def tailOf (o : Outcome) : String := s!" contacted={csvN o.contacted} errs={csvS o.errs}"

/-- the result line of one signing operation through `signOp` with the manifest site -/
def showOp (res : Res ArtX) (o : Outcome) : String :=
  match res with
  | .ok a =>
    match verifyX H cfg.guards a with
    | .ok cs =>
      let who := match cs, o.res with
        | some _, .ok (s, _) => srcName s
        | some _, _ => "foreign"
        | none, _ => "none"
      let tl := if a.token.isSome then tailOf o else " contacted=- errs=-"
      s!"ok {who} {chainClass (verifyChain chainLong 0 a.leaf cs)}{tl}"
    | _ => "err re-verification" ++ tailOf o
  | .err e => if o = noOutcome then s!"err {e} contacted=- errs=-" else s!"err {e}{tailOf o}"
  | .panic s => s!"panic {s} contacted={csvN o.contacted}"
  | .diverge => "diverge"

/-- parse `k` pairs (name, n) -/
def poolsOf : Nat → List String → Option (List (Name × Nat) × List String)
  | 0, rest => some ([], rest)
  | k + 1, nm :: n :: rest => do
    let name ← nameOf nm
    let cnt ← n.toNat?
    let (ps, rest') ← poolsOf k rest
    pure ((name, cnt) :: ps, rest')
  | _, _ => none

def assign : Nat → List (Name × Nat) → List (Name × List Url)
  | _, [] => []
  | at0, (n, c) :: rest => (n, List.range' at0 c) :: assign (at0 + c) rest

def poolLine (kts : Bool) (kname : Name) (nots : String) (sect : Bool) (legacy : Bool) (d m : Nat)
    (pools : List (Name × Nat)) (script : List String) : String :=
  let conf : TsConf := ⟨List.range' 0 d, List.range' d m, assign (d + m) pools⟩
  let r := reqFor legacy edA
  if !scriptOK r script then "bad-op" else
  let out := signOp D H cfg (if sect then some conf else none) ⟨kts, kname⟩ (if nots = "-" then "" else nots)
    false false ⟨[], none⟩ 0 Ctx.background (worldOf r script) .manifest (!legacy) 5 nonce0 edA leafId
  showOp out.1 out.2

/-! ### ckeys -/

def showKey (legacy : Bool) (name : Name) (hash : Nat) (edHex : String) : String :=
  str ((if legacy then pfxMs else pfxRfc) ++ name) ++ s!"-{hash}-@{edHex}"

def fitsTok (legacy : Bool) (t : Token) (ed : Nat) : Bool :=
  if legacy then (match verifyMsToken t ed with | .ok _ => true | _ => false)
  else (match verifyRfcToken H cfg.guards t ed with | .ok _ => true | _ => false)

structure CkReq where
  legacy : Bool
  name : Name
  hash : Nat
  edHex : String
  ed : Nat

def ckConf (a b : CkReq) : TsConf :=
  let names := (if a.name ≠ [] then [a.name] else []) ++ (if b.name ≠ [] ∧ b.name ≠ a.name then [b.name] else [])
  ⟨[0, 1], [2, 3], assign 4 (names.map fun n => (n, 1))⟩

def ckOne (conf : TsConf) (up : Bool) (sh : Shared) (q : CkReq) : String × Shared :=
  let r := reqFor q.legacy q.ed
  -- every configured URL answers "valid"
  let call := stamperCall D H cfg conf q.name true up sh 0 Ctx.background (fun u => (wireOf r u "valid").getD .reset) q.legacy q.hash nonce0 q.ed
  let key := cacheKey D ⟨q.legacy, q.name, q.hash, q.ed⟩
  let usable := up && legalKey key
  let shown := showKey q.legacy q.name q.hash q.edHex
  match call.1.outcome.res with
  | .ok (src, t) =>
    let stored := usable && src ≠ .cache
    (s!"ok {srcName src} get={if usable then shown else "-"} set={if stored then shown else "-"} exp={if stored then toString expirySeconds else "-"} fits={if fitsTok q.legacy t q.ed then 1 else 0}",
      call.2)
  | .err e => (s!"err {e}", call.2)
  | .panic s => (s!"panic {s}", call.2)
  | .diverge => ("diverge", call.2)

def ckLine (a b : CkReq) (mode : String) : String :=
  let conf := ckConf a b
  let up := mode ≠ "down"
  let (la, sh1) := ckOne conf up ⟨[], none⟩ a
  let (lb, sh2) := ckOne conf up sh1 b
  s!"A[{la}] B[{lb}] stored={sh2.store.length}"

def ckReqOf (l n h e : String) : Option CkReq := do
  let name ← nameOf n
  let hash ← h.toNat?
  let ed ← edOf e
  pure ⟨l = "1", name, hash, e, ed⟩

/-! ### rate -/

def stubTok : Token := ⟨1, true, 1, true, .tst ⟨some 0, 0, true, some 0⟩, none, 1, true⟩

def stubInner (b : String) : Outcome :=
  if b = "ok" then ⟨.ok (.url 0, stubTok), [0], []⟩ else ⟨.err "fail", [0], ["fail"]⟩

def clsOf (o : Outcome) : String :=
  match o.res with
  | .ok _ => "tok"
  | .err e => e
  | .panic s => "panic-" ++ s
  | .diverge => "diverge"

/-- sequential calls; each starts when the previous returned -/
def rateRun (special : Nat) (kind : String) (arg : Nat) : Option Lim → Nat → Nat → List String → List (String × Nat)
  | _, _, _, [] => []
  | lim, i, now, b :: bs =>
    let ctx : Ctx :=
      if i ≠ special then Ctx.background
      else if kind = "pre" then ⟨some now, none⟩
      else if kind = "dl" then ⟨none, some (now + arg)⟩
      else if kind = "cancel" then ⟨some (now + arg), none⟩
      else Ctx.background
    let r := limitedOpt lim now ctx (fun _ => stubInner b)
    let o := r.1.outcome
    (s!"{clsOf o}/{o.contacted.length}", r.1.time) :: (if o.res = .diverge then [] else rateRun special kind arg r.2 (i + 1) r.1.time bs)

def periodOf (rate : Int) : Option Nat := if rate > 0 then some (1000000 / rate.toNat) else none

def rateLine (rate burst : Int) (spec : String) (script : List String) : String :=
  let parts := spec.splitOn ":"
  let kind := parts.getD 0 "none"
  let special := if kind = "none" then script.length + 1 else ((parts.getD 1 "0").toNat?.getD 0)
  let arg := (parts.getD 2 "0").toNat?.getD 0
  let rs := rateRun special kind arg (mkLim (rate = 0) (periodOf rate) burst 0) 0 0 script
  if rs.any (fun p => p.1.startsWith "diverge") then "diverge"
  else "ok " ++ " ".intercalate (rs.map (·.1)) ++ " #t=" ++ csvN (rs.map (·.2))

/-! ### wire -/

def wireLine (mode : String) : String :=
  let conf : TsConf := ⟨[0], [], []⟩
  let lim := mkLim (mode = "nolim") (some 500) 1 0
  let ed2 := if mode = "hit" then edA else edA + 1
  let world (ed : Nat) : Url → Wire := fun u => (wireOf (reqFor false ed) u "valid").getD .reset
  let c1 := stamperCall D H cfg conf [] true true ⟨[], lim⟩ 0 Ctx.background (world edA) false 5 nonce0 edA
  let c2 := stamperCall D H cfg conf [] true true c1.2 c1.1.time Ctx.background (world ed2) false 5 nonce0 ed2
  let one (o : Outcome) (ed : Nat) : String :=
    match o.res with
    | .ok (s, t) => s!"{srcName s}:fits={if fitsTok false t ed then 1 else 0}"
    | .err e => "err:" ++ e
    | _ => "?"
  s!"ok {one c1.1.outcome edA} {one c2.1.outcome ed2} #t={c1.1.time},{c2.1.time}"

/-! ### site -/

def between (lo hi t : Int) : Bool := lo ≤ t && t ≤ hi

/-- leaf valid from day -30 to day -10, the authority's certificate long-lived and trusted -/
def chainSite (cert : Nat) (u : Usage) (t : Int) : Bool :=
  match u with
  | .timestamping => cert = 1
  | .requested => cert = leafId && between (-30) (-10) t

def withTime (att : Int) (t : Token) : Token :=
  match t.content with
  | .tst i => { t with content := .tst { i with time := some att } }
  | _ => { t with sigTime := some (some att) }

structure SiteAcc where
  sh : Shared
  reqs : Nat
  contacted : List Nat
  gets : Nat
  sets : Nat
  last : Option (ArtX × Outcome × Nat)     -- artefact, outcome, signature value of the last request

def siteLine (orig : Bool) (typ hn : String) (att : Int) (mode : String) (rfcFlag : Bool) : String :=
  match siteOfType typ with
  | none => "bad-op"
  | some (site, nreq) =>
    let legacy := site.legacy rfcFlag
    let hash : Nat := if hn = "sha1" then 3 else if hn = "sha384" then 6 else if hn = "sha512" then 7 else 5
    let script : List String :=
      if mode = "fail" then ["http500", if legacy then "garbage" else "wnonce"] else ["http500", "valid"]
    let conf : TsConf := ⟨[0, 1], [0, 1], []⟩
    let memcache := mode = "miss" || mode = "foreign"
    let other := 777
    let foreignTok : Token := withTime att (if legacy then msTok 88 other else rfcTok 88 (some 99) (H other) true)
    let eds := (List.range nreq).map (edA + ·)
    let step (acc : Res SiteAcc) (ed : Nat) : Res SiteAcc :=
      match acc with
      | .ok a =>
        let r := reqFor legacy ed
        let key := cacheKey D ⟨legacy, [], hash, ed⟩
        let sh : Shared := if mode = "foreign" then ⟨(key, .tok foreignTok) :: a.sh.store, a.sh.lim⟩ else a.sh
        let world : Url → Wire := fun u =>
          match wireOf r u (script.getD u "http500") with
          | some (.http 200 (.der st t tr)) => .http 200 (.der st (withTime att t) tr)
          | some (.http 200 (.b64 (some t))) => .http 200 (.b64 (some (withTime att t)))
          | some w => w
          | none => .reset
        let call := stamperCall D H cfg conf [] memcache true sh 0 Ctx.background world legacy hash nonce0 ed
        let o := call.1.outcome
        -- `orig`: the signer modules as they were before fix a163120 (VSIX embedded the token unchecked, F52)
        let ts := if mode = "off" then none else some o
        let res := if orig then (signSiteOrig H cfg.guards site ed leafId ts).1 else (signSite H cfg.guards site ed leafId ts).1
        let stored := memcache && (match o.res with | .ok (.url _, _) => true | _ => false)
        let a' : SiteAcc := { sh := if mode = "foreign" then a.sh else call.2, reqs := a.reqs + 1, contacted := a.contacted ++ o.contacted,
                              gets := a.gets + (if memcache then 1 else 0), sets := a.sets + (if stored then 1 else 0), last := a.last }
        match res with
        | .ok art => .ok { a' with last := some (art, o, ed) }
        | .err e => .err s!"err {e} reqs={a'.reqs} contacted={csvN a'.contacted}"
        | .panic s => .err s!"panic {s} contacted={csvN a'.contacted}"
        | .diverge => .err "diverge"
      | e => e
    let start : SiteAcc := ⟨⟨[], none⟩, 0, [], 0, 0, none⟩
    let run : Res SiteAcc := if mode = "off" then .ok start else eds.foldl step (.ok start)
    match run with
    | .err line => line
    | .ok a =>
      let noTok (oid : String) : String :=
        s!"ok signed reqs=0 given=none contacted=- verify[none oid={oid} same=- ed=- at=- {chainClass (verifyChain chainSite 0 leafId none)}]"
      let cms := site = .cmsAuth || site = .cmsPlain
      match a.last with
      | none => noTok (if cms then "none" else "-")
      | some (art, o, ed) =>
        let given := match art.token with
          | some t => if fitsTok legacy t ed then "this" else "other"
          | none => "none"
        let cacheDesc := if memcache then s!" cache[gets={a.gets} sets={a.sets} n={a.sets} key=1 stored={if a.sets > 0 then 1 else 0}]" else ""
        let v :=
          match verifyX H cfg.guards art with
          | .ok (some cs) =>
            let who := match o.res with | .ok (s, _) => srcName s | _ => "foreign"
            let oid := site.oid.getD "-"
            let at1 := match cs.time with | some t => toString t | none => "z"
            s!"{who} oid={oid} same=1 ed={if cms then "1" else "-"} at={at1} {chainClass (verifyChain chainSite 0 leafId (some cs))}"
          | .ok none => "none"
          | .err e => "err " ++ e
          | .panic s => "panic " ++ s
          | .diverge => "diverge"
        s!"ok signed reqs={a.reqs} legacy={if legacy then 1 else 0} reqhash={hn} given={given}{cacheDesc} contacted={csvN a.contacted} verify[{v}]"
    | _ => "bad-op"

/-! ### conc: N requests through one shared time-stamper, here in index order (every order gives each request the
same result: Relic.Props.C14.shared_stamper_order_irrelevant) -/

def concConf : TsConf := ⟨[0], [], [(['a'], [1]), (['b'], [2])]⟩
def concNames : List Name := [[], ['a'], ['b']]

def concGo (withCache : Bool) : Nat → Shared → Nat → List String × List Nat × Shared
  | 0, sh, _ => ([], [], sh)
  | k + 1, sh, i =>
    let ed := edA + i
    let name := concNames.getD (i % 3) []
    let world : Url → Wire := fun u => (wireOf (reqFor false ed) u "valid").getD .reset
    -- the wait itself is not shown: the clock of the model stays at 0
    let call := stamperCall D H cfg concConf name withCache true { sh with lim := none } 0 Ctx.background world false 5 nonce0 ed
    let o := call.1.outcome
    let r := match (signSite H cfg.guards (if i % 2 = 1 then .cmsAuth else .cmsPlain) ed leafId (some o)).1, o.res with
      | .ok art, .ok (.url g, _) =>
        (match verifyX H cfg.guards art with
         | .ok (some _) => if g = i % 3 then "own" else s!"wrong-pool:url{g}"
         | .ok none => "none"
         | _ => "err:verify")
      | .ok _, _ => "none"
      | .err e, _ => "err:" ++ e
      | _, _ => "?"
    let rest := concGo withCache k call.2 (i + 1)
    (r :: rest.1, o.contacted ++ rest.2.1, rest.2.2)

def concLine (n : Nat) (rate burst : Int) (withCache : Bool) : String :=
  let out := concGo withCache n ⟨[], none⟩ 0
  let per (u : Nat) : Nat := (out.2.1.filter (· = u)).length
  let b : Nat := if burst < 1 then 1 else burst.toNat
  let tmin : Nat := match periodOf rate with
    | some p => (n - b) * p
    | none => 0
  s!"ok {" ".intercalate out.1} per={per 0},{per 1},{per 2} stored={out.2.2.store.length} #tmin={tmin}"

/-! ### cachert -/

def cacheRtLine (legacy : Bool) : String :=
  let conf : TsConf := ⟨[0], [0], []⟩
  let world : Url → Wire := fun u => (wireOf (reqFor legacy edA) u "valid").getD .reset
  let c1 := stamperCall D H cfg conf [] true true ⟨[], none⟩ 0 Ctx.background world legacy 5 nonce0 edA
  let c2 := stamperCall D H cfg conf [] true true c1.2 0 Ctx.background world legacy 5 nonce0 edA
  match c1.1.outcome.res, c2.1.outcome.res with
  | .ok (_, t1), .ok (s2, t2) =>
    let stored := lookupX c1.2.store (cacheKey D ⟨legacy, [], 5, edA⟩) = some (.tok t1)
    let same := decide (t1 = t2)
    let b (x : Bool) : Nat := if x then 1 else 0
    s!"ok second={if s2 = .cache then "cache" else "authority"} stored={b stored} again={b same} attr={b same} inattr={b same} fits={b (fitsTok legacy t2 edA)}"
  | .err e, _ => "err first:" ++ e
  | _, .err e => "err second:" ++ e
  | _, _ => "bad-op"

def b01 (s : String) : Bool := s = "1"

def handle : List String → String
  | "pool" :: kts :: kname :: nots :: sect :: style :: d :: m :: k :: rest =>
    match nameOf kname, d.toNat?, m.toNat?, k.toNat? with
    | some kn, some d, some m, some k =>
      match poolsOf k rest with
      | some (pools, script) =>
        let total := d + m + (pools.map (·.2)).foldl (· + ·) 0
        if script.length ≠ total then "bad-op"
        else poolLine (b01 kts) kn nots (b01 sect) (style = "legacy") d m pools script
      | none => "bad-op"
    | _, _, _, _ => "bad-op"
  | ["ckeys", la, na, ha, ea, lb, nb, hb, eb, mode] =>
    match ckReqOf la na ha ea, ckReqOf lb nb hb eb with
    | some a, some b => ckLine a b mode
    | _, _ => "bad-op"
  | "rate" :: rate :: burst :: n :: spec :: script =>
    match rate.toInt?, burst.toInt?, n.toNat? with
    | some r, some b, some n => if script.length ≠ n then "bad-op" else rateLine r b spec script
    | _, _, _ => "bad-op"
  | ["wire", mode] => wireLine mode
  | ["site", typ, _key, hn, att, mode, flags] =>
    match att.toInt? with
    | some a =>
      let rfc := !(flags.splitOn ";").contains "rfc3161-timestamp=false"
      -- the prediction is the current (repaired) code; the tag says what the tree before fix a163120 did, so that an
      -- implementation that behaves like it is named as such in the violation
      let main := siteLine false typ hn a mode rfc
      let old := siteLine true typ hn a mode rfc
      if old = main then main else main ++ " #orig " ++ old
    | none => "bad-op"
  | ["conc", n, rate, burst, cache] =>
    match n.toNat?, rate.toInt?, burst.toInt? with
    | some n, some r, some b => concLine n r b (b01 cache)
    | _, _, _ => "bad-op"
  | ["cachert", style] => cacheRtLine (style = "legacy")
  | _ => "bad-op"

end Relic.Driver.TsaX

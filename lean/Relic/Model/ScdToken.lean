/-
  Relic.Model.ScdToken — token/scdtoken/scdtoken.go.

  Part 1 (`Relic.ScdToken`): the token methods against a daemon (Open/login, GetKey, ListKeys, Ping, Close, scdKey.Sign), built on
  the client of Relic.Model.Assuan; every pointer dereference / index that Go would check at run time is explicit.

  Part 2 (`Relic.ScdToken.Sched`): a small-step model of CONCURRENT calls on one token.  A call is a little program of
  events: acquire / release of the token mutex and transactions on the one shared connection (each `Conn.Transact` is atomic:
  it runs under `c.mu`).  The daemon side is what the protocol defines: the connection state is the last SETDATA value, PKSIGN
  signs whatever was stored last with the key named.  A schedule is ANY list of thread indices; a step is enabled unless it
  is an `acq` while the mutex is held.  Two lock disciplines: `locked` (the code as it is: mutex held from before SETDATA
  until after PKSIGN returns) and `unlocked` (mutex released before the card operation).
-/
import Relic.Model.Assuan
import Relic.Model.LockSpan
namespace Relic.ScdToken
open Relic Relic.Assuan

/-! ## Part 1: the token methods -/

structure KeyConf where
  name : String
  id : Bytes              -- keyConf.ID ("" = take the first key)
  deriving Repr, DecidableEq

structure TokenConf where
  serial : Bytes                    -- tconf.Serial ("" = any)
  pin : Option Bytes                -- tconf.Pin (nil = ask)
  getter : Option (List Bytes)      -- the PasswordGetter: `none` = nil getter; the list = its successive answers, then ""
  keys : List KeyConf
  deriving Repr

structure Token (σ : Type) where
  sock : ScdConn σ
  sockNil : Bool            -- `tok.sock == nil` (after Close); the keys keep their own pointer to the ScdConn
  serial : Bytes
  pin : Bytes
  keyInfos : List ScdKey
  conf : TokenConf

/-- `scdKey` -/
structure Key where
  key : ScdKey
  pub : RsaPub
  deriving Repr, DecidableEq

/-- `passprompt.Login` with keyring off, then the error mapping of `token.Login`.  One CHECKPIN per password supplied; the
    Nat counts the login attempts (calls of `loginFunc`). -/
def promptLoop {σ} (dm : Daemon σ) : ScdConn σ → List Bytes → ScdConn σ × Nat × Out Bytes
  | s, [] => (s, 0, .fail (.msg "aborted"))                    -- getter returned "": io.EOF → "Aborted"
  | s, p :: rest =>
    if p.isEmpty then (s, 0, .fail (.msg "aborted")) else
    match checkPin dm s p with
    | (s, .ok ()) => (s, 1, .ok p)
    | (s, .fail e) =>
      if e = .msg "badpin" then
        match promptLoop dm s rest with                        -- loginFunc: (false, nil) → ask again
        | (s', n, o) => (s', n + 1, o)
      else (s, 1, .fail e)
    | (s, .panic x) => (s, 1, .panic x)
    | (s, .block) => (s, 1, .block)

/-- `token.Login` as used by scdToken.login: the number of login attempts and the PIN that unlocked the token -/
def tokenLogin {σ} (dm : Daemon σ) (s : ScdConn σ) (tc : TokenConf) : ScdConn σ × Nat × Out Bytes :=
  match tc.pin with
  | some p =>
    match checkPin dm s p with          -- exactly one attempt with a configured PIN
    | (s, .ok ()) => (s, 1, .ok p)
    | (s, .fail e) => (s, 1, .fail e)
    | (s, .panic x) => (s, 1, .panic x)
    | (s, .block) => (s, 1, .block)
  | none =>
    match tc.getter with
    | none => (s, 0, .fail (.msg "nopin"))
    | some answers => promptLoop dm s answers

/-- `scdtoken.Open` (Dial + login).  On a login error the socket is closed. -/
def openToken {σ} (dm : Daemon σ) (s0 : σ) (tc : TokenConf) : ScdConn σ × Out (Token σ) :=
  match dial dm s0 with
  | (c, .fail e) => (⟨c, []⟩, .fail e)
  | (c, .panic x) => (⟨c, []⟩, .panic x)
  | (c, .block) => (⟨c, []⟩, .block)
  | (c, .ok ()) =>
    let s : ScdConn σ := ⟨c, []⟩
    match learn dm s with
    | (s, .fail e) => ({ s with conn := close s.conn }, .fail e)
    | (s, .panic x) => (s, .panic x)
    | (s, .block) => (s, .block)
    | (s, .ok infos) =>
      match idx infos 0 "scdtoken.login:keyInfos[0]" with
      | .panic x => (s, .panic x)
      | .fail e => (s, .fail e)
      | .block => (s, .block)
      | .ok k0 =>
        if !tc.serial.isEmpty && tc.serial ≠ k0.serial then ({ s with conn := close s.conn }, .fail (.msg "serial")) else
        match tokenLogin dm s tc with
        | (s, _, .ok pin) => (s, .ok { sock := s, sockNil := false, serial := k0.serial, pin := pin, keyInfos := infos, conf := tc })
        | (s, _, .fail e) => ({ s with conn := close s.conn }, .fail e)
        | (s, _, .panic x) => (s, .panic x)
        | (s, _, .block) => (s, .block)

/-- the loop of GetKey: the FIRST key info when `id` is empty, else the first whose KeyId equals `id`; `none` = `key` stays nil -/
def findKey (infos : List ScdKey) (id : Bytes) : Option ScdKey :=
  infos.find? fun kc => id.isEmpty || id = kc.keyId

/-- `scdToken.GetKey`, parametrised by what happens when no key info matches (`key` stays nil) -/
def getKeyWith {σ} (onNil : Out Key) (dm : Daemon σ) (t : Token σ) (name : String) : Token σ × Out Key :=
  match t.conf.keys.find? (·.name = name) with
  | none => (t, .fail (.msg "nokeyconf"))
  | some kc =>
    match findKey t.keyInfos kc.id with
    | none => (t, onNil)
    | some k =>
      if k.keyId.isEmpty then (t, .fail (.msg "notfound")) else
      match scdPublic dm t.sock.conn k with
      | (c, .ok p) => ({ t with sock := { t.sock with conn := c } }, .ok { key := k, pub := p })
      | (c, .fail e) => ({ t with sock := { t.sock with conn := c } }, .fail e)
      | (c, .panic x) => ({ t with sock := { t.sock with conn := c } }, .panic x)
      | (c, .block) => ({ t with sock := { t.sock with conn := c } }, .block)

/-- `scdToken.GetKey` as it is (commit e11c4f9): `if key == nil || key.KeyId == ""` → "key … not found in token …" -/
def getKey {σ} (dm : Daemon σ) (t : Token σ) (name : String) : Token σ × Out Key :=
  getKeyWith (.fail (.msg "notfound")) dm t name

/-- `scdToken.GetKey` BEFORE e11c4f9: `if key.KeyId == ""` with `key == nil` — a nil dereference (finding F-SCD-1) -/
def getKeyOrig {σ} (dm : Daemon σ) (t : Token σ) (name : String) : Token σ × Out Key :=
  getKeyWith (.panic "scdtoken.GetKey:key.KeyId (nil key)") dm t name

/-- `scdKey.Sign` (under the token mutex): `key.key.Sign(digest, opts, key.token.pin)` -/
def keySign {σ} (dm : Daemon σ) (t : Token σ) (k : Key) (digest : Bytes) (opts : SignOpts) : Token σ × Out Bytes :=
  match scdSign dm t.sock.conn k.key digest opts t.pin with
  | (c, o) => ({ t with sock := { t.sock with conn := c } }, o)

/-- `scdToken.Close` -/
def closeToken {σ} (t : Token σ) : Token σ :=
  if t.sockNil then t else { t with sock := { t.sock with conn := close t.sock.conn }, sockNil := true }

/-- one `Write` call made by ListKeys on its output -/
inductive Chunk where
  | serial (s : Bytes)                                  -- "serial: %#v\n"
  | header (i : Nat) (id fpr grip : Bytes)              -- "key %d:\n id: … fingerprint: … keygrip: …\n"
  | readErr (e : Err)                                   -- " error reading key: …\n"
  | rsa (p : RsaPub)                                    -- " n: 0x%x\n e: %d\n"
  deriving Repr

def listLoop {σ} (dm : Daemon σ) (id : Bytes) (values : Bool) : Conn σ → Nat → List ScdKey → List Chunk → Conn σ × Out (List Chunk)
  | c, _, [], acc => (c, .ok acc)
  | c, i, k :: rest, acc =>
    if !id.isEmpty && id ≠ k.keyId then listLoop dm id values c (i + 1) rest acc else
    let acc := acc ++ [Chunk.header (i + 1) k.keyId k.fingerprint k.keyGrip]
    if values then
      match scdPublic dm c k with
      | (c, .ok p) => listLoop dm id values c (i + 1) rest (acc ++ [.rsa p])
      | (c, .fail e) => listLoop dm id values c (i + 1) rest (acc ++ [.readErr e])
      | (c, .panic x) => (c, .panic x)
      | (c, .block) => (c, .block)
    else listLoop dm id values c (i + 1) rest acc

/-- `scdToken.ListKeys` -/
def listKeys {σ} (dm : Daemon σ) (t : Token σ) (id : Bytes) (values : Bool) : Token σ × Out (List Chunk) :=
  match listLoop dm id values t.sock.conn 0 t.keyInfos [Chunk.serial t.serial] with
  | (c, o) => ({ t with sock := { t.sock with conn := c } }, o)

/-! ## Part 2: concurrent calls on one token -/
namespace Sched

abbrev KeyId := Nat
abbrev Digest := Bytes

/-- an abstract signature: "made by key `key` over `digest`" -/
structure Sig where
  key : KeyId
  digest : Digest
  deriving Repr, DecidableEq

/-- a transaction on the connection (one `Conn.Transact`, atomic under `c.mu`) -/
inductive Txn where
  | setdata (d : Digest)
  | pksign (k : KeyId)
  | other                         -- READKEY / LEARN / CHECKPIN: does not touch the stored data
  deriving Repr, DecidableEq

/-- scdaemon, per connection: SETDATA stores, PKSIGN signs what is stored with the key named -/
def daemonStep (data : Option Digest) : Txn → Option Digest × Option (Option Sig)
  | .setdata d => (some d, none)
  | .pksign k => (data, some (data.map fun d => ⟨k, d⟩))
  | .other => (data, none)

inductive Call where
  | sign (k : KeyId) (d : Digest)
  | getKey                        -- one READKEY
  | ping
  | listKeys (n : Nat)            -- n READKEYs (opts.Values)
  | idle                          -- no call
  deriving Repr, DecidableEq

inductive Ev where
  | acq
  | rel
  | txn (t : Txn)
  deriving Repr, DecidableEq

/-- the transactions a call performs -/
def body : Call → List Txn
  | .sign k d => [.setdata d, .pksign k]
  | .getKey => [.other]
  | .ping => []
  | .listKeys n => List.replicate n .other
  | .idle => []

inductive Discipline where
  | locked      -- token mutex held across the whole body (scdtoken.go as it is)
  | unlocked    -- token mutex taken and released BEFORE the body (the lock only guards the read of `tok.pin`)
  deriving Repr, DecidableEq

def prog (D : Discipline) (c : Call) : List Ev :=
  match c with
  | .idle => []
  | _ =>
    match D with
    | .locked => .acq :: (body c).map .txn ++ [.rel]
    | .unlocked => .acq :: .rel :: (body c).map .txn

structure State where
  pc : Nat → Nat                       -- next event of each thread
  holder : Option Nat                  -- who holds the token mutex
  data : Option Digest                 -- the daemon's stored data (ONE connection)
  res : Nat → Option (Option Sig)      -- result of the thread's PKSIGN, once it has run (`some none` = "No data" error)

def init : State := { pc := fun _ => 0, holder := none, data := none, res := fun _ => none }

def bump (f : Nat → Nat) (i : Nat) : Nat → Nat := fun j => if j = i then f j + 1 else f j

/-- thread `i` performs its next event; `none` = not enabled (mutex busy) or the thread has finished -/
def step (D : Discipline) (calls : Nat → Call) (s : State) (i : Nat) : Option State :=
  match (prog D (calls i))[s.pc i]? with
  | none => none
  | some .acq => if s.holder = none then some { s with holder := some i, pc := bump s.pc i } else none
  | some .rel => some { s with holder := none, pc := bump s.pc i }
  | some (.txn t) =>
    let (d', r) := daemonStep s.data t
    some { s with data := d', pc := bump s.pc i,
                  res := match r with
                    | some x => fun j => if j = i then some x else s.res j
                    | none => s.res }

def run (D : Discipline) (calls : Nat → Call) : State → List Nat → Option State
  | s, [] => some s
  | s, i :: rest => match step D calls s i with
    | some s' => run D calls s' rest
    | none => none

/-- thread `i` has completed its call -/
def done (D : Discipline) (calls : Nat → Call) (s : State) (i : Nat) : Prop := s.pc i = (prog D (calls i)).length

/-- calls given as a list (threads beyond it are idle) -/
def ofList (l : List Call) : Nat → Call := fun i => l.getD i .idle

end Sched

/-! ## Part 3: what tools/extractscd re-extracts from the source (Relic.Generated.ScdLocks) -/
namespace Extract

structure Method where
  span : LockSpan.Func         -- top-level statement shape + every lock operation in the body
  calls : List String          -- callee text of every other call in the body, in source order
  spawns : Nat                 -- `go` statements and function literals in the body
  deriving Repr

/-- the body is one critical section of its mutex, and nothing in it runs outside the calling goroutine -/
def atomicBody (m : Method) : Bool := LockSpan.heldThroughout m.span && m.spawns == 0

/-- the mutex the body holds -/
def mutexOf (m : Method) : String :=
  match m.span.top with
  | .lock x :: _ => x
  | _ => ""

/-- the discipline of `scdKey.Sign` as read off the source: `locked` iff the card operation `key.key.Sign` is called inside a
    body that holds the token mutex throughout -/
def signDiscipline (m : Method) : Sched.Discipline :=
  if atomicBody m && m.calls.contains "key.key.Sign" && mutexOf m == "key.token.mu" then .locked else .unlocked

end Extract
end Relic.ScdToken

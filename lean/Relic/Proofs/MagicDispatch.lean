/-
  Relic.Proofs.MagicDispatch — lemmas about the look-ups over the signer table: what `find?` returns is a member that
  satisfies the test; a table whose keys are pairwise disjoint can be searched in any order.
-/
import Relic.Model.Magic
namespace Relic.Magic
open Relic

theorem find?_perm_unique {α : Type} (p : α → Bool) {l l' : List α} (h : l.Perm l')
    (hu : ∀ a ∈ l, ∀ b ∈ l, p a = true → p b = true → a = b) : l.find? p = l'.find? p := by
  cases hf : l.find? p with
  | none =>
    have hn : ∀ x ∈ l, ¬ p x = true := by simpa [List.find?_eq_none] using hf
    symm
    rw [List.find?_eq_none]
    intro x hx
    exact hn x (h.mem_iff.mpr hx)
  | some a =>
    have ha : p a = true := List.find?_some hf
    have hal : a ∈ l := List.mem_of_find?_eq_some hf
    cases hf' : l'.find? p with
    | none =>
      have hn : ∀ x ∈ l', ¬ p x = true := by simpa [List.find?_eq_none] using hf'
      exact absurd ha (hn a (h.mem_iff.mp hal))
    | some b =>
      have hb : p b = true := List.find?_some hf'
      have hbl : b ∈ l := h.mem_iff.mpr (List.mem_of_find?_eq_some hf')
      rw [hu a hal b hbl ha hb]

/-! ### `filepath.Ext` of a name ending in `.dmg` -/

theorem ext_of_dmg (p : Bytes) (h : isSuffix extDmg p = true) : ext p = extDmg := by
  unfold isSuffix at h
  unfold ext
  generalize p.reverse = q at h
  match q, h with
  | 103 :: 109 :: 100 :: 46 :: rest, _ => simp [extGo, extDmg]
  | [], h => simp [extDmg] at h
  | [a], h => simp [extDmg, List.isPrefixOf] at h
  | [a, b], h => simp [extDmg, List.isPrefixOf] at h
  | [a, b, c], h => simp [extDmg, List.isPrefixOf] at h
  | a :: b :: c :: d :: rest, h =>
    simp [extDmg, List.isPrefixOf] at h
    obtain ⟨rfl, rfl, rfl, rfl⟩ := h
    simp [extGo, extDmg]

theorem pathTests_disjoint (p : Bytes) : ¬ (PathTest.dmg.eval p = true ∧ PathTest.ps.eval p = true) := by
  rintro ⟨h1, h2⟩
  simp only [PathTest.eval] at h1 h2
  rw [ext_of_dmg p h1] at h2
  revert h2
  decide

/-! ### keys of the table -/

def Signer.keys (s : Signer) : List Bytes := s.name :: s.aliases

theorem answers_iff (s : Signer) (n : Bytes) : s.answers n = true ↔ n ∈ s.keys := by
  simp only [Signer.answers, Signer.keys, Bool.or_eq_true, beq_iff_eq, List.mem_cons, List.contains_eq_mem, decide_eq_true_eq]
  constructor
  · rintro (h | h)
    · exact Or.inl h.symm
    · exact Or.inr h
  · rintro (h | h)
    · exact Or.inl h.symm
    · exact Or.inr h

/-- no two modules answer to one name -/
theorem keys_disjoint : ∀ a ∈ registered, ∀ b ∈ registered, a ≠ b → ∀ k ∈ a.keys, k ∉ b.keys := by decide

theorem magics_distinct : ∀ a ∈ registered, ∀ b ∈ registered, a.magic = b.magic → a.magic ≠ .unknown → a = b := by decide

theorem testPaths_distinct : ∀ a ∈ registered, ∀ b ∈ registered, a.testPath.isSome → b.testPath.isSome → a.testPath = b.testPath → a = b := by decide

theorem testPath_kinds : ∀ a ∈ registered, a.testPath = none ∨ a.testPath = some .dmg ∨ a.testPath = some .ps := by decide

theorem byName_self : ∀ m ∈ registered, byName m.name = some m := by decide

theorem byFileIn_mem {l : List Signer} {name sigtype bs : Bytes} {zn : Option (List Bytes)} {m : Signer}
    (h : byFileIn l name sigtype bs zn = .ok m) : m ∈ l := by
  unfold byFileIn at h
  split at h
  · split at h
    · cases h
    · rename_i m' hm
      injection h with h; subst h
      exact List.mem_of_find?_eq_some hm
  · split at h
    · cases h
    · simp only at h
      split at h
      · cases h
      · split at h
        · rename_i m' hm
          injection h with h; subst h
          unfold byMagicIn at hm
          split at hm
          · cases hm
          · exact List.mem_of_find?_eq_some hm
        · split at h
          · rename_i m' hm
            injection h with h; subst h
            exact List.mem_of_find?_eq_some hm
          · cases h

theorem signDispatchIn_ok {l : List Signer} {name sigtype bs : Bytes} {zn : Option (List Bytes)} {m : Signer}
    (h : signDispatchIn l name sigtype bs zn = .ok m) : byFileIn l name sigtype bs zn = .ok m ∧ m.hasSign = true := by
  unfold signDispatchIn at h
  split at h
  · cases h
  · rename_i m' hm
    split at h
    · injection h with h; subst h; exact ⟨hm, by assumption⟩
    · cases h

theorem find?_eq_some_of_unique {α : Type} (p : α → Bool) {l : List α} {m : α} (hm : m ∈ l) (hp : p m = true)
    (hu : ∀ a ∈ l, p a = true → a = m) : l.find? p = some m := by
  cases hf : l.find? p with
  | none =>
    have hn : ∀ x ∈ l, ¬ p x = true := by simpa [List.find?_eq_none] using hf
    exact absurd hp (hn m hm)
  | some a => rw [hu a (List.mem_of_find?_eq_some hf) (List.find?_some hf)]

theorem byFileName_ps (name : Bytes) (h : psExts.contains (ext name) = true) : byFileName name = some sPs := by
  have k1 : ∀ a ∈ registered, a.testPath = some .ps → a = sPs := by decide
  apply find?_eq_some_of_unique _ (by decide) (by simpa [sPs, mk, PathTest.eval] using h)
  intro a ha pa
  rcases testPath_kinds a ha with ka | ka | ka
  · simp [ka] at pa
  · simp only [ka] at pa
    exact absurd ⟨pa, h⟩ (pathTests_disjoint name)
  · exact k1 a ha ka

theorem byFileName_dmg (name : Bytes) (h : isSuffix extDmg name = true) : byFileName name = some sDmg := by
  have k1 : ∀ a ∈ registered, a.testPath = some .dmg → a = sDmg := by decide
  apply find?_eq_some_of_unique _ (by decide) (by simpa [sDmg, mk, PathTest.eval] using h)
  intro a ha pa
  rcases testPath_kinds a ha with ka | ka | ka
  · simp [ka] at pa
  · exact k1 a ha ka
  · simp only [ka] at pa
    exact absurd ⟨h, pa⟩ (pathTests_disjoint name)

end Relic.Magic

// machobig replays finding F-MACHO-3 (fixed in /repo 5805b39) on the real code: a thin Mach-O whose code is larger than
// (10e6-16384)*4096/(20+hashSize) bytes (786 MB for SHA-256) needs a signature region of more than 10e6 bytes, which
// machos.Verify (readSigBlob) refuses as "unreasonably large".  Before the fix machos.Sign signed such an image (exit 0) into
// a file relic's own verifier rejected; since the fix machos.Sign refuses ("image too large: ...", exit status 2 here).
// Usage: machobig [textMB]   (default 800; needs about 3x that much memory, a few seconds)
//        With a size below the threshold (e.g. 700) the image is signed and verifies.
//        machobig reuse [regionBytes]   (default 10000008) finding F-MACHO-3b (fixed in /repo e678460; Lean:
//        Relic.Props.C01.macho_reused_oversize_region_refused_orig, macho_sign_refuses_oversize_reuse): a small image that
//        ALREADY carries a signature region of more than 10e6 bytes, at least as large as the estimate.  Before the fix the
//        region was reused without a size test: sign: ok, verify: error.  Since the fix machos.Sign refuses (exit status 2);
//        with a region of exactly 10000000 bytes the image is signed and verifies.
package main

import (
	"bytes"
	"context"
	"crypto"
	"fmt"
	"os"
	"strconv"

	"github.com/sassoftware/relic/v8/lib/binpatch"
	"github.com/sassoftware/relic/v8/lib/fruit/csblob"
	"github.com/sassoftware/relic/v8/lib/fruit/machos"

	"verifharness/hx"
	"verifharness/macho"
	"verifharness/pe"
	"verifharness/sg"
)

func main() {
	mb := 800
	var f []byte
	if len(os.Args) > 1 && os.Args[1] == "reuse" {
		region := 10000008
		if len(os.Args) > 2 {
			region, _ = strconv.Atoi(os.Args[2])
		}
		p := macho.Params{Is64: true, TextSize: 8192, Slack: 64, LinkEdit: 4096, Sections: 1, OldSig: region}
		f = macho.Build(hx.NewRng(1), p, []byte{0xfa, 0xde, 0x0c, 0xc0, 0, 0, 0, 12, 0, 0, 0, 0})
	} else {
		if len(os.Args) > 1 {
			mb, _ = strconv.Atoi(os.Args[1])
		}
		p := macho.Params{Is64: true, TextSize: mb << 20, Slack: 64, LinkEdit: 4096, Sections: 1}
		f = macho.Build(hx.NewRng(1), p, nil)
	}
	fmt.Printf("image: %d bytes\n", len(f))
	params := &csblob.SignatureParams{HashFunc: crypto.SHA256, SigningIdentity: "com.example.verif", Flags: 0x10000}
	patch, _, err := machos.Sign(context.Background(), bytes.NewReader(f), sg.Cert("p256"), params)
	if err != nil {
		fmt.Println("sign: error:", err)
		os.Exit(2)
	}
	q, err := binpatch.Load(patch.Dump())
	if err != nil {
		fmt.Println("dump/load:", err)
		os.Exit(2)
	}
	g := pe.ApplyMem(f, q)
	if g == nil {
		fmt.Println("apply failed")
		os.Exit(2)
	}
	fmt.Printf("sign: ok, output %d bytes (signature region %d bytes)\n", len(g), len(g)-len(f))
	if _, err := machos.Verify(bytes.NewReader(g), nil, nil, false); err != nil {
		fmt.Println("verify: error:", err)
		os.Exit(1)
	}
	fmt.Println("verify: ok")
}

/-
  C08 — Re-signing replaces the signature; digests ignore existing signatures.
  CAB part, over `Relic.Model.Cab` (model of lib/cabfile/cabfile.go, lib/authenticode/cabfile.go).
  Hypotheses common to the CAB theorems: `Regular d` (OffsetFiles = end of the folder headers ≤ TotalSize – the layout of
  every real cabinet, which `cabfile.Digest` does not check; see `C03.cab_irregular_not_preserved`) and `NoWrap d`
  (a cabinet without reserve header is smaller than 4 GiB − 24).
-/
import Relic.Proofs.CabSign
import Relic.Props.C12
namespace Relic.Props.C08
open Relic Relic.Cab

/-- **cab_signed_file.** What `Sign → Apply` writes for a cabinet whose digest succeeded: the new 60-byte header
    (with the final `SignatureSize`), the rebased folder headers, the data, the blob padded to 8; obtained through
    the *real* patch path (`Add`, `Dump`-order, rewrite loop). -/
theorem cab_signed_file (f : Bytes) (d : Digest) (sig : Bytes) (e : DigestCab f = .ok d) (R : Regular d) (W : NoWrap d)
    (M : Nat) : Binpatch.applyRewrite f (Binpatch.build M (makePatch d sig)) = .ok (signedBytes d sig) := by
  have H := DigestCab_spec f d e
  rw [C12.add_spec M f _ (makePatch_constructible f d sig H R W), sem_makePatch f d sig H R W]

/-- **cab_digest_ignores_signature.** Full statement, success included: digesting the signed cabinet succeeds and feeds
    the hash exactly the stream hashed for the input (`resigned d sig` has the header, folders and data of `d`). -/
theorem cab_digest_ignores_signature (f : Bytes) (d : Digest) (sig : Bytes) (e : DigestCab f = .ok d) (R : Regular d)
    (W : NoWrap d) (hs : (padded sig).length < 2 ^ 32) :
    ∃ d', DigestCab (signedBytes d sig) = .ok d' ∧ d'.hashed = d.hashed :=
  ⟨resigned d sig, DigestCab_signed f d sig (DigestCab_spec f d e) R W hs, rfl⟩

/-- one signing round on the model: digest, build the patch, apply it (reference semantics of the patch set;
    `cab_signed_file` ties it to the real patch path) -/
def cabSignRound (f sig : Bytes) : Res Bytes :=
  match DigestCab f with
  | .ok d => .ok (Binpatch.sem f (makePatch d sig))
  | .err e => .err e
  | .panic p => .panic p
  | .diverge => .diverge

/-- **cab_resign_replaces.** Signing relic's own output again succeeds and yields exactly what signing the original
    with the new blob yields: the earlier signature is gone, nothing else moved. -/
theorem cab_resign_replaces (f : Bytes) (d : Digest) (s1 s2 : Bytes) (e : DigestCab f = .ok d) (R : Regular d) (W : NoWrap d)
    (h1 : (padded s1).length < 2 ^ 32) : cabSignRound (signedBytes d s1) s2 = .ok (signedBytes d s2) := by
  have H := DigestCab_spec f d e
  have e' := DigestCab_signed f d s1 H R W h1
  obtain ⟨R', W'⟩ := resigned_regular f d s1 H R W
  unfold cabSignRound
  rw [e']
  simp only
  rw [sem_makePatch _ _ s2 (DigestCab_spec _ _ e') R' W', signedBytes_resigned]

/-- **cab_history_total.** Every history of signing rounds `s₁ … sₙ` applied to relic's own output succeeds, and the
    artifact after the last round is the original signed once with the last blob. -/
theorem cab_history_total (f : Bytes) (d : Digest) (e : DigestCab f = .ok d) (R : Regular d) (W : NoWrap d) :
    ∀ (sigs : List Bytes) (last : Bytes), (padded last).length < 2 ^ 32 →
      (∀ s ∈ sigs, (padded s).length < 2 ^ 32) →
      sigs.foldlM cabSignRound (signedBytes d last) = .ok (signedBytes d ((last :: sigs).getLast (by simp))) := by
  intro sigs
  induction sigs with
  | nil => intro last _ _; rfl
  | cons s rest ih =>
    intro last hl hs
    rw [List.foldlM_cons, cab_resign_replaces f d last s e R W hl]
    have := ih s (hs s (by simp)) (fun x hx => hs x (by simp [hx]))
    rw [List.getLast_cons (by simp)]
    exact this

/-! ### non-vacuity -/

/-- a minimal cabinet: no reserve header, one folder, 5 bytes of data -/
def minimalCab : Bytes :=
  [0x4d, 0x53, 0x43, 0x46, 0, 0, 0, 0, 49, 0, 0, 0, 0, 0, 0, 0, 44, 0, 0, 0, 0, 0, 0, 0, 3, 1, 1, 0, 1, 0, 0, 0, 0x34, 0x12, 0, 0] ++
  [60, 0, 0, 0, 1, 0, 0, 0] ++ [1, 2, 3, 4, 5]

/-- the same cabinet with a zero-filled reserve area of 20 + 4 bytes -/
def paddedCab : Bytes :=
  [0x4d, 0x53, 0x43, 0x46, 0, 0, 0, 0, 77, 0, 0, 0, 0, 0, 0, 0, 72, 0, 0, 0, 0, 0, 0, 0, 3, 1, 1, 0, 1, 0, 4, 0, 0x34, 0x12, 0, 0] ++
  [24, 0, 0, 0] ++ List.replicate 24 0 ++ [88, 0, 0, 0, 1, 0, 0, 0] ++ [1, 2, 3, 4, 5]

def cabOk (c : Bytes) : Bool :=
  match DigestCab c with
  | .ok d =>
    decide (d.offFiles = d.foldersStart + 8 * d.nFolders ∧ d.offFiles ≤ d.total) && decide (d.delta = 24 → d.total + 24 < 2 ^ 32) &&
    (match cabSignRound c [9, 9, 9] with
     | .ok g => g == signedBytes d [9, 9, 9] && g.length == 81 && (locate g == .ok [9, 9, 9, 0, 0, 0, 0, 0]) &&
         (match DigestCab g, cabSignRound g [7] with
          | .ok d2, .ok g2 => d2.hashed == d.hashed && locate g2 == .ok [7, 0, 0, 0, 0, 0, 0, 0] && g2.length == 81
          | _, _ => false)
     | _ => false)
  | _ => false

set_option maxRecDepth 100000 in
example : cabOk minimalCab = true ∧ cabOk paddedCab = true := by decide

end Relic.Props.C08

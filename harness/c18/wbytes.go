// Byte-level tie of the Lean writer model (lean/Relic/Model/CfbBytes.lean) to lib/comdoc.
//
//	C18 wb <tag> <filehex> <n> (s <k> (a <namehex> <datahex> | d <namehex>)*)*
//
// Every session is WriteFile + the AddFile / DeleteFile steps + Close with the REAL code on a temp copy; the answer is
// the status and the bytes of the file after every completed session.  The Lean model (openFile, addFileB,
// deleteFileB, closeB) predicts the same bytes from the same input bytes.
package c18

import (
	"bufio"
	"encoding/binary"
	"fmt"
	"os"
	"path/filepath"
	"strings"

	"github.com/sassoftware/relic/v8/lib/comdoc"

	"verifharness/hx"
)

type bstep struct {
	del  bool
	name []uint16
	data []byte
}

// a history of harness steps as explicit AddFile / DeleteFile steps (InsertMSISignature spelled out as relic does it)
func explicit(hist [][]step) [][]bstep {
	var out [][]bstep
	for _, s := range hist {
		var bs []bstep
		for _, st := range s {
			switch st.kind {
			case "a":
				bs = append(bs, bstep{false, st.name, content(st.n1, st.salt)})
			case "d":
				bs = append(bs, bstep{true, st.name, nil})
			case "g":
				if st.n2 > 0 {
					bs = append(bs, bstep{false, units(sigExName), content(st.n2, st.salt+1)})
				} else {
					bs = append(bs, bstep{true, units(sigExName), nil})
				}
				bs = append(bs, bstep{false, units(sigName), content(st.n1, st.salt)})
			}
		}
		out = append(out, bs)
	}
	return out
}

func fmtBHistory(sessions [][]bstep) string {
	var sb strings.Builder
	fmt.Fprintf(&sb, "%d", len(sessions))
	for _, s := range sessions {
		fmt.Fprintf(&sb, " s %d", len(s))
		for _, st := range s {
			if st.del {
				fmt.Fprintf(&sb, " d %s", nameHex(st.name))
			} else {
				fmt.Fprintf(&sb, " a %s %s", nameHex(st.name), hx.Hex(st.data))
			}
		}
	}
	return sb.String()
}

func parseBHistory(f []string) [][]bstep {
	n := int(hx.Atoi(f[0]))
	i := 1
	var out [][]bstep
	for s := 0; s < n; s++ {
		if f[i] != "s" {
			panic("bad history")
		}
		k := int(hx.Atoi(f[i+1]))
		i += 2
		var ss []bstep
		for j := 0; j < k; j++ {
			switch f[i] {
			case "a":
				ss = append(ss, bstep{false, unNameHex(f[i+1]), hx.MustUnHex(f[i+2])})
				i += 3
			case "d":
				ss = append(ss, bstep{true, unNameHex(f[i+1]), nil})
				i += 2
			default:
				panic("bad step")
			}
		}
		out = append(out, ss)
	}
	return out
}

func emitWb(w *bufio.Writer, tag string, file []byte, hist [][]bstep) {
	fmt.Fprintf(w, "C18 wb %s %s %s\n", tag, hx.Hex(file), fmtBHistory(hist))
}

func addB(name string, n int, salt uint64) bstep { return bstep{false, units(name), content(n, salt)} }
func delB(name string) bstep                     { return bstep{true, units(name), nil} }

// root storage with the given short / long streams
func simpleFile(r *hx.Rng, shift int, sizes []int, mod func(c *cfg)) []byte {
	c := &cfg{shift: shift, root: &ent{name: units("Root Entry"), storage: true}}
	copy(c.root.clsid[:], r.Bytes(16))
	c.root.ctime, c.root.mtime = r.U64(), r.U64()
	for i, sz := range sizes {
		e := &ent{name: msiName(r, 2+i), data: r.Bytes(sz)}
		if i%2 == 1 {
			e.state = uint32(r.U64())
			e.mtime = r.U64()
		}
		c.root.kids = append(c.root.kids, e)
	}
	if mod != nil {
		mod(c)
	}
	return build(c, r)
}

func genWb(w *bufio.Writer, r *hx.Rng, tier string, seed uint64) {
	// (1) the shapes of (b), one history each
	variants := []string{"plain", "gaps", "dirfull", "nested", "presigned", "zero+emptydir", "nested+gaps+presigned",
		"scatter+emptydir", "fatroom+gaps", "dirfull+presigned", "plain+nomini", "gaps+nomini", "nested+nomini+presigned",
		"emptystorage+gaps", "mixedcase"}
	rounds, maxSessions := 6, 3
	if tier == "thorough" {
		rounds, maxSessions = 30, 6
	}
	k := int(seed) * 7
	for round := 0; round < rounds; round++ {
		for _, shift := range []int{9, 12} {
			for _, v := range variants {
				budget := 14000
				if shift == 12 {
					budget = 9000
				}
				f := genFile(r, shift, v, budget)
				k++
				emitWb(w, fmt.Sprintf("%s/%d", v, shift), f.data, explicit(genHistory(r, f.data, maxSessions, k, strings.Contains(v, "nomini"))))
			}
		}
	}
	for _, shift := range []int{9, 12} {
		ss := 1 << shift
		perMini := ss / 64
		// (2) the mini stream ends exactly at a sector boundary / one mini sector before it: the next short stream makes the
		//     container grow by one sector, by several sectors (512 only), or fills it exactly
		for _, used := range []int{perMini, perMini - 1, 2*perMini - 1, 1} {
			sizes := []int{}
			left := used
			for left > 0 {
				n := left
				if n > 40 {
					n = 40
				}
				sizes = append(sizes, n*64-int(r.Intn(63)))
				left -= n
			}
			f := simpleFile(r, shift, sizes, nil)
			for _, add := range []int{1, 64, 65, ss - 64, ss, ss + 1, 2*ss + 1, 4095} {
				if add >= 4096 {
					continue
				}
				emitWb(w, fmt.Sprintf("minigrow/%d", shift), f, [][]bstep{{addB("Grow", add, r.U64()>>2)}})
			}
			emitWb(w, fmt.Sprintf("minigrow/%d", shift), f, [][]bstep{{addB("G1", 4095, 1), addB("G2", 65, 2)}, {addB("G3", 130, 3), delB("G1")}, {addB("G4", 4000, 4)}})
		}
		// (3) free mini sectors below the end of the mini stream: the new stream fits into them, fits exactly, or needs
		//     them all and more (the root entry's size must stay / grow, never shrink)
		for _, gaps := range []int{1, 2, 5} {
			f := simpleFile(r, shift, []int{100, 700, 64, 3000, 1}, func(c *cfg) { c.miniGaps = gaps })
			for _, add := range []int{1, 64, 64*gaps - 1, 64 * gaps, 64*gaps + 1, 64*gaps + 200} {
				emitWb(w, fmt.Sprintf("minigap/%d", shift), f, [][]bstep{{addB("Fill", add, r.U64()>>2)}})
			}
			// deleting a short stream in the middle leaves a hole; the next one reuses it
			emitWb(w, fmt.Sprintf("minigap/%d", shift), f, [][]bstep{{delB(goName(rootStreams(f)[0]))}, {addB("Fill", 64, 9)}, {addB("Fill2", 300, 10)}})
		}
		// (4) a sub-storage holding streams named like the signature streams: only the root level is touched
		{
			c := &cfg{shift: shift, root: &ent{name: units("Root Entry"), storage: true}}
			sub := &ent{name: units("Sub"), storage: true}
			copy(sub.clsid[:], r.Bytes(16))
			sub.kids = []*ent{{name: units(sigName), data: r.Bytes(300)}, {name: units(sigExName), data: r.Bytes(32)}, {name: msiName(r, 3), data: r.Bytes(4500)}}
			c.root.kids = []*ent{sub, {name: msiName(r, 4), data: r.Bytes(1000)}, {name: msiName(r, 6), data: r.Bytes(5000)}}
			f := build(c, r)
			sg := func(pk, ex int, salt uint64) []bstep {
				if ex > 0 {
					return []bstep{addB(sigExName, ex, salt+1), addB(sigName, pk, salt)}
				}
				return []bstep{delB(sigExName), addB(sigName, pk, salt)}
			}
			emitWb(w, fmt.Sprintf("subsig/%d", shift), f, [][]bstep{sg(700, 32, 21)})
			emitWb(w, fmt.Sprintf("subsig/%d", shift), f, [][]bstep{sg(4096, 0, 22), sg(100, 20, 23)})
			emitWb(w, fmt.Sprintf("subsig/%d", shift), f, [][]bstep{{delB(sigName), delB(sigExName)}})
			emitWb(w, fmt.Sprintf("subsig/%d", shift), f, [][]bstep{sg(5000, 64, 24), {delB(sigName), delB(sigExName)}, {addB("sub", 10, 25)}})
			// replacing the storage itself is refused
			emitWb(w, fmt.Sprintf("subsig/%d", shift), f, [][]bstep{{addB("SUB", 10, 26)}})
		}
		// (5) name length limits: 31 units fit, 32 do not (refused AFTER the stream was stored)
		{
			f := simpleFile(r, shift, []int{10, 5000}, nil)
			emitWb(w, fmt.Sprintf("names/%d", shift), f, [][]bstep{{addB(strings.Repeat("n", 31), 70, 31)}, {addB(strings.Repeat("N", 31), 5000, 32)}})
			emitWb(w, fmt.Sprintf("names/%d", shift), f, [][]bstep{{addB(strings.Repeat("n", 32), 70, 33)}})
			emitWb(w, fmt.Sprintf("names/%d", shift), f, [][]bstep{{}}) // nothing changed: Close writes nothing
			emitWb(w, fmt.Sprintf("names/%d", shift), f, [][]bstep{{delB("absent")}, {addB("", 3, 34)}})
		}
	}
	// (6) an existing DIFAT sector is rewritten by Close (110..112 FAT sectors, mostly describing sectors beyond EOF)
	for i := 0; i < 2; i++ {
		f := genFile(r, 9, "difat+gaps", 3000)
		k++
		emitWb(w, "difat/9", f.data, explicit(genHistory(r, f.data, 2, k, false)))
	}
	// (7) FAT without a free entry: every allocation extends the table; the directory needs one more sector at Close
	//     (root + 3 streams fill the only directory sector), so do the mini-FAT and the FAT itself
	for _, nf := range []int{1, 2} {
		f := genFull(r, 9, nf)
		emitWb(w, "fatfull/9", f, [][]bstep{{addB(sigExName, 32, 41), addB(sigName, 2000, 42)}})
		emitWb(w, "fatfull/9", f, [][]bstep{{addB(sigName, 9000, 43)}, {addB(sigExName, 20, 44), addB(sigName, 64, 45)}})
		g := genFullDir(r, 9, nf)
		emitWb(w, "fatfull-dirfull/9", g, [][]bstep{{addB(sigName, 700, 46)}})
		emitWb(w, "fatfull-dirfull/9", g, [][]bstep{{addB(sigName, 4096, 47)}, {delB(sigName)}})
	}
	// (8) DIFAT growth: 109 FAT sectors without a free entry (7 MiB, mostly zeros)
	{
		f := genFullZero(r, 9, 109)
		emitWb(w, "difatgrow/9", f, [][]bstep{{addB(sigExName, 32, 51), addB(sigName, 9000, 52)}})
		if tier == "thorough" {
			emitWb(w, "difatgrow/9", f, [][]bstep{{addB(sigName, 700, 53)}, {addB(sigExName, 32, 54), addB(sigName, 70000, 55)}})
			emitWb(w, "fatfull/12", genFull(r, 12, 1), [][]bstep{{addB(sigExName, 32, 56), addB(sigName, 5000, 57)}})
		}
	}
	genDifat2(w, r, tier) // (8') two and three DIFAT sectors (difat2.go)
	// (9) the repository's fixtures
	for _, fx := range fixtureFiles() {
		nh := 4
		if tier == "thorough" {
			nh = 30
		}
		for h := 0; h < nh; h++ {
			k++
			emitWb(w, "fixture", fx, explicit(genHistory(r, fx, maxSessions, k, false)))
		}
	}
	// (10) malformed inputs (none of them makes relic loop): truncations, header fields, dangling links
	{
		base := simpleFile(r, 9, []int{100, 5000, 64}, nil)
		le := binary.LittleEndian
		mut := func(tag string, f func(b []byte) []byte) {
			b := f(append([]byte{}, base...))
			emitWb(w, "malformed-"+tag, b, [][]bstep{{addB(sigName, 700, 61)}})
		}
		for _, cut := range []int{0, 8, 511, 512, 513, 1024, len(base) - 512, len(base) - 1, len(base) - 100} {
			c := cut
			mut("trunc", func(b []byte) []byte { return b[:c] })
		}
		mut("tail", func(b []byte) []byte { return append(b, 1, 2, 3) })
		mut("tailsec", func(b []byte) []byte { return append(b, make([]byte, 700)...) })
		mut("magic", func(b []byte) []byte { b[3] ^= 1; return b })
		mut("byteorder", func(b []byte) []byte { b[28] = 0xff; return b })
		mut("minishift", func(b []byte) []byte { le.PutUint16(b[32:], 9); return b })
		mut("shift4", func(b []byte) []byte { le.PutUint16(b[30:], 4); return b })
		mut("nfat0", func(b []byte) []byte { le.PutUint32(b[44:], 0); return b })
		mut("nfat2", func(b []byte) []byte { le.PutUint32(b[44:], 2); return b })
		mut("nminifat0", func(b []byte) []byte { le.PutUint32(b[64:], 0); return b })
		mut("nminifat3", func(b []byte) []byte { le.PutUint32(b[64:], 3); return b })
		mut("dirstart-oob", func(b []byte) []byte { le.PutUint32(b[48:], 5000); return b })
		mut("dirstart-eoc", func(b []byte) []byte { le.PutUint32(b[48:], 0xfffffffe); return b })
		mut("minifat-oob", func(b []byte) []byte { le.PutUint32(b[60:], 5000); return b })
		mut("cutoff0", func(b []byte) []byte { le.PutUint32(b[56:], 0); return b })
		mut("cutoff-big", func(b []byte) []byte { le.PutUint32(b[56:], 100000); return b })
		mut("version4", func(b []byte) []byte { le.PutUint16(b[26:], 4); return b })
		mut("reserved", func(b []byte) []byte {
			copy(b[34:40], []byte{1, 2, 3, 4, 5, 6})
			le.PutUint32(b[52:], 77)
			copy(b[8:24], r.Bytes(16))
			return b
		})
		// the directory sector of this file: find it through relic's reader
		if cdf, err := comdoc.ReadFile(bytesReader(base)); err == nil {
			dirOff := 512 * (int(cdf.Header.DirNextSector) + 1)
			rootOff := dirOff + 128*cdf.VerifRootStorage()
			mut("noroot", func(b []byte) []byte { b[rootOff+66] = 1; return b })
			mut("child-oob", func(b []byte) []byte { le.PutUint32(b[rootOff+76:], 999); return b })
			mut("child-neg", func(b []byte) []byte { le.PutUint32(b[rootOff+76:], 0xfffffffd); return b })
			mut("sizehi", func(b []byte) []byte { le.PutUint32(b[dirOff+128+124:], 7); le.PutUint32(b[dirOff+124:], 9); return b })
			mut("rootsize-small", func(b []byte) []byte { le.PutUint32(b[rootOff+120:], 64); return b })
			mut("rootsize-0", func(b []byte) []byte { le.PutUint32(b[rootOff+120:], 0); return b })
			for i := range cdf.Files {
				o := dirOff + 128*i
				if cdf.Files[i].Type == comdoc.DirStream {
					ii := o
					mut("left-oob", func(b []byte) []byte { le.PutUint32(b[ii+68:], 4000); return b })
					mut("right-neg", func(b []byte) []byte { le.PutUint32(b[ii+72:], 0xfffffff0); return b })
					mut("namelen0", func(b []byte) []byte { le.PutUint16(b[ii+64:], 0); return b })
					mut("namelen1", func(b []byte) []byte { le.PutUint16(b[ii+64:], 1); return b })
					mut("namelen-odd", func(b []byte) []byte { le.PutUint16(b[ii+64:], 7); return b })
					mut("namelen-big", func(b []byte) []byte { le.PutUint16(b[ii+64:], 70); return b })
					mut("garbage-after-name", func(b []byte) []byte { le.PutUint16(b[ii+62:], 0x41); le.PutUint16(b[ii+60:], 0x62); return b })
					break
				}
			}
		}
	}
}

// genFull with the directory exactly full: root + 3 streams in the only directory sector (512-byte sectors)
func genFullDir(r *hx.Rng, shift, nFat int) []byte {
	c := &cfg{shift: shift, root: &ent{name: units("Root Entry"), storage: true}}
	ss := 1 << shift
	big := nFat*(ss/4) - nFat - 1 - 1 - 1
	c.root.kids = append(c.root.kids, &ent{name: msiName(r, 4), data: r.Bytes(big * ss)})
	c.root.kids = append(c.root.kids, &ent{name: msiName(r, 5), data: r.Bytes(100)})
	c.root.kids = append(c.root.kids, &ent{name: msiName(r, 6), data: r.Bytes(0)})
	return build(c, r)
}

// genFull whose big stream is all zeros (so that the op line compresses and hashes fast)
func genFullZero(r *hx.Rng, shift, nFat int) []byte {
	c := &cfg{shift: shift, root: &ent{name: units("Root Entry"), storage: true}}
	ss := 1 << shift
	nDif := 0
	big := nFat*(ss/4) - nFat - nDif - 1 - 1 - 1
	c.root.kids = append(c.root.kids, &ent{name: msiName(r, 4), data: make([]byte, big*ss)})
	c.root.kids = append(c.root.kids, &ent{name: msiName(r, 5), data: r.Bytes(100)})
	return build(c, r)
}

type byteReaderAt []byte

func (b byteReaderAt) ReadAt(p []byte, off int64) (int, error) {
	if off >= int64(len(b)) {
		return 0, fmt.Errorf("EOF")
	}
	n := copy(p, b[off:])
	if n < len(p) {
		return n, fmt.Errorf("EOF")
	}
	return n, nil
}

func bytesReader(b []byte) byteReaderAt { return byteReaderAt(b) }

// ---------------------------------------------------------------------------------------------
// implementation side

func wbSession(path string, steps []bstep) (status string) {
	f, err := os.OpenFile(path, os.O_RDWR, 0)
	if err != nil {
		panic(err)
	}
	defer f.Close()
	defer func() {
		if r := recover(); r != nil {
			status = panicClass(r)
		}
	}()
	cdf, err := comdoc.WriteFile(f)
	if err != nil {
		return "err:open"
	}
	for _, s := range steps {
		var err error
		if s.del {
			err = cdf.DeleteFile(goName(s.name))
		} else {
			err = cdf.AddFile(goName(s.name), s.data)
		}
		if err != nil {
			return "err:" + classify(err)
		}
	}
	if err := cdf.Close(); err != nil {
		return "err:" + classify(err)
	}
	return "ok"
}

func implWb(tmp string, seq int, f []string) string {
	p := filepath.Join(tmp, fmt.Sprintf("b%d.msi", seq))
	if err := os.WriteFile(p, hx.MustUnHex(f[2]), 0o644); err != nil {
		panic(err)
	}
	defer os.Remove(p)
	hist := parseBHistory(f[3:])
	var sb strings.Builder
	status := "ok"
	for si, s := range hist {
		if r := wbSession(p, s); r != "ok" {
			status = fmt.Sprintf("%s@s%d", r, si)
			break
		}
		ob, err := os.ReadFile(p)
		if err != nil {
			panic(err)
		}
		sb.WriteByte(' ')
		sb.WriteString(hx.Hex(ob))
	}
	return status + sb.String()
}

"""IDENT model glue: the identity fields relic derives from the signing certificate (lib/appmanifest/publictoken.go,
lib/x509tools/names.go, appmanifest.Sign / Verify, audit sig.x509.subject, Signature.SignerName).
Canonicalisation (hashing happens here, never in Lean) and the predicates evaluated on the implementation's output."""
import hashlib

TOKENS = ["IDENT"]
RULE = ("IDENT: (1) dn: DER RDNSequences built attribute by attribute (every attribute type of either name table, types only Windows "
        "names (X21Address, dnQualifier), businessCategory / jurisdiction / random OIDs with arcs at 0, 39, 40, 127/128, 16383/16384, 2^31-1; "
        "values as UTF8String / PrintableString / IA5String / T61String (incl. non-UTF-8 bytes) / BMPString (surrogate pairs, lone surrogates, "
        "terminator) / NumericString, with , + \" \\ < > ; # = ' / LF CR TAB NUL VT FF, leading / trailing / only spaces, '#' first / last / inside, "
        "values that look like separators (', CN=b', ' + O=y'), empty values, 100..260-byte values (long-form lengths), UTF-8 of 2/3/4 bytes, "
        "NBSP / EM SPACE / BOM; non-string values: INTEGER (0, -1, +-2^63 edges, non-minimal, 9 bytes, empty), OBJECT IDENTIFIER (valid, empty, "
        "non-minimal, truncated, arc 2^31, 6-byte arc), BIT STRING (padding variants), OCTET STRING, BOOLEAN / NULL / ENUMERATED / "
        "VisibleString / GeneralString / UniversalString, constructed and context-tagged values; invalid string contents (Printable with _ / @ / "
        "UTF-8 bytes, IA5 0x80, 13 malformed or boundary UTF-8 sequences, odd BMP, letters in Numeric); 0..6 RDNs, multi-valued RDNs, empty SETs, "
        "missing value, extra fields, wrong tags, trailing bytes; a fixed list around every branch of attValue / attName; every 4th name also byte-"
        "mutated) in the three styles: FormatPkixName(der, style) == Model.Ident.formatPkixName, and for the MS-OSCO style == the transcription of "
        "CertNameToStr(X500 | REVERSE) unless a listed deviation trigger is present. (2) snk / skid: PublicKeyToSnk + PublicKeyToken and "
        "SubjectKeyID on 11 real RSA keys (1024..4096 bits, 2047- and 2056-bit moduli, e = 3, 5, 17, 65537, 2^29+11, 2^31-1) and 10 real ECDSA keys "
        "(P-256/384/521 incl. coordinates with a leading zero byte), on synthetic (n, e) with modulus lengths 0..513 bytes around 64/128/256/512, "
        "top bytes 01/7f/80/ff, powers of 256, low zero bytes, e up to 2^62+1, synthetic EC coordinates with 0/1/2/all leading zero bytes, P-224, "
        "Ed25519: blob == model blob == strong-name blob of the specification (RSA), token == the model's selection applied to SHA-1(model blob). "
        "(3) sign: the real appmanifest signer + verifier (signers.ByName) on generated ClickOnce manifests (assemblyIdentity missing / nested / "
        "twice / prefixed root / with, without, upper-case and namespace-prefixed publicKeyToken attribute; 0..3 old publisherIdentity elements, "
        "nested ones) with certificates made in-process: generated subjects, self-signed or CA-issued (chain order leaf-first, CA-first, CA "
        "missing, decoy with the CA's name and another key first), one or two signing rounds (re-sign with another certificate): token, "
        "publisherIdentity (name, issuerKeyHash, count), attribute list of assemblyIdentity, audit sig.x509.subject == model; Verify passes, "
        "returns the signing certificate, SignerName == audit subject, audit assembly.publicKeyToken / fingerprint, licence copies of subject "
        "and token. (4) vgap: manifests signed through xmldsig.Sign (both signatures good) with chosen identity fields: correct (CA-issued and "
        "self-signed leaf), publisher name of somebody else / missing / twice, issuerKeyHash of somebody else / of the leaf, token of another key / "
        "missing, licence X509SubjectName of somebody else / missing, issuer certificate not carried (correct hash; foreign hash = the listed gap "
        "F-ident-verify-publisher-issuer): Verify == Model.Ident.verifyIdent, and every case but the correct ones must be refused. "
        "Non-trivial = distinct op other than a dn op whose name has no attribute.")
TRUSTED = ["Relic.Model.Ident is hand-written from lib/appmanifest/publictoken.go, signmanifest.go, verify.go, lib/x509tools/names.go, util.go and "
           "go1.23 encoding/asn1 (parseField for interface{}, parseSequenceOf, string checkers); tied by differential execution on every run",
           "Relic.Spec.Ident: strong-name / CAPI blob layout from ECMA-335 II.6 and wincrypt.h; CertNameToStr(CERT_X500_NAME_STR | REVERSE) key "
           "table and quoting rule transcribed from the documentation (no Windows in the sandbox to run it against)",
           "SHA-1 is computed here (hashlib) on the model's streams; the generator's digests on the op lines come from an independent Go "
           "re-computation and are re-checked here", "etree's writer (escapeString) is re-implemented here to compare attribute values as a reader sees them"]
ASSUMPTIONS = ["rsa.PublicKey.E >= 0 (crypto/x509 refuses certificates with a non-positive exponent)",
               "NameStyle is one of the three constants (any other value panics in attName)",
               "UTCTime / GeneralizedTime attribute values (time.Time is a Stringer) and multi-byte tags in the value position are outside the DN model "
               "(the model answers `unmodelled`; such ops are not compared)",
               "sign ops: subjects without CR (a CR in a manifest is the known F16-cr-write); what etree's writer does to a name it cannot carry "
               "(invalid UTF-8, C0 controls, U+FFFE/F -> U+FFFD) is computed here, the model's Verify then refuses the manifest (F-ident-t61-bytes)",
               "the leaf of a signature is the first carried certificate with the signature's key (x509tools.SameKey ignores the curve of an EC key; the model compares it)"]

UNPROVED = ["publisher_is_spec_full (relic's MS-OSCO string = CertNameToStr(X500|REVERSE) for every name: false, witnesses publisher_ne_spec_apostrophe / "
            "_edge_white / _key_name; proved on the decidable class Spec.Ident.Agree: publisher_is_spec)",
            "dn_format_injective_full (false: dn_format_collision_*; proved on the class of string-valued, non-empty RDNs: dn_format_injective_partial)",
            "verify_checks_identity_full (false: verify_accepts_foreign_issuer_hash - the issuerKeyHash is judged only when a certificate named like "
            "the issuer is carried; proved otherwise: verify_checks_identity)",
            "verify_accepts_signed without IssuerAgrees (false: verify_accepts_signed_needs_agreement)"]

KNOWN_CLASSES = {"apostrophe", "edgewhite", "keyname", "t61-bytes", "unwritable-name", "verify-publisher-issuer"}


def _b(h):
    return b"" if h in ("-", "") else bytes.fromhex(h)


def _kv(s):
    return dict(p.split("=", 1) for p in s.split(" ") if "=" in p)


def _sha1(b):
    return hashlib.sha1(b).hexdigest()


def _go_runes(b):
    """utf8.DecodeRune over b: list of (rune, width)"""
    out, i, n = [], 0, len(b)
    while i < n:
        c = b[i]
        if c < 0x80:
            out.append((c, 1)); i += 1; continue
        need, lo, hi = 0, 0x80, 0xBF
        if 0xC2 <= c <= 0xDF:
            need = 1
        elif 0xE0 <= c <= 0xEF:
            need = 2
            if c == 0xE0: lo = 0xA0
            if c == 0xED: hi = 0x9F
        elif 0xF0 <= c <= 0xF4:
            need = 3
            if c == 0xF0: lo = 0x90
            if c == 0xF4: hi = 0x8F
        else:
            out.append((0xFFFD, 1)); i += 1; continue
        if i + need >= n:          # truncated sequence
            out.append((0xFFFD, 1)); i += 1; continue
        ok = lo <= b[i + 1] <= hi and all(0x80 <= b[i + k] <= 0xBF for k in range(2, need + 1))
        if not ok:
            out.append((0xFFFD, 1)); i += 1; continue
        if need == 1:
            r = (c & 0x1F) << 6 | (b[i + 1] & 0x3F)
        elif need == 2:
            r = (c & 0x0F) << 12 | (b[i + 1] & 0x3F) << 6 | (b[i + 2] & 0x3F)
        else:
            r = (c & 0x07) << 18 | (b[i + 1] & 0x3F) << 12 | (b[i + 2] & 0x3F) << 6 | (b[i + 3] & 0x3F)
        out.append((r, need + 1)); i += need + 1
    return out


def _in_char_range(r):
    return r in (9, 10, 13) or 0x20 <= r <= 0xD7FF or 0xE000 <= r <= 0xFFFD or 0x10000 <= r <= 0x10FFFF


def xml_written(b):
    """what an XML reader gets back for the Go string b after etree wrote it: (bytes, saw_invalid_utf8, saw_unrepresentable)"""
    out, bad_utf8, unrep = bytearray(), False, False
    i = 0
    for r, w in _go_runes(b):
        if r == 0xFFFD and w == 1:
            bad_utf8 = True
            out += "�".encode()
        elif not _in_char_range(r):
            unrep = True
            out += "�".encode()
        else:
            out += b[i:i + w]
        i += w
    return bytes(out), bad_utf8, unrep


def canon_model(op, mres):
    f = op.split(" ")
    if f[1] == "skid" and mres.startswith("ok "):
        return "ok " + _sha1(_b(mres.split(" ")[1]))
    if f[1] == "sign" and mres.startswith("ok "):
        parts = mres.split(" ")
        changed = False
        for i, p in enumerate(parts):
            if p.startswith("name="):
                raw = _b(p[5:])
                w, _, _ = xml_written(raw)
                changed = w != raw
                parts[i] = "name=" + (w.hex() if w else "-")
        if changed:
            # the name a reader gets back is not the string Verify recomputes from the certificate (theorem
            # verify_rejects_rewritten_name): the repaired Verify refuses relic's own output
            parts = ["verify=publisher-name-mismatch" if p == "verify=pass" else p for p in parts]
        return " ".join(parts)
    return mres


def _unmodelled(mres):
    return mres.startswith("err unmodelled")


def equiv(op, il, mres):
    if _unmodelled(mres):
        return True
    if il == mres:
        return True
    f = op.split(" ")
    if f[1] == "sign" and il.startswith("ok ") and mres.startswith("ok "):
        # extras after '!' are judged by the predicate
        return il.split(" !")[0] == mres
    return False


def weight(op):
    return 1


def _asi_attrs(s):
    if s in ("none", "-"):
        return []
    out = []
    for item in s.split(","):
        sk, v = item.split(":")
        sp, k = sk.split(".")
        out.append((_b(sp).decode("latin1"), _b(k).decode("latin1"), _b(v).decode("latin1")))
    return out


def _sign_devs(f, mres, tag=""):
    devs = set()
    raw = _kv(tag).get("rawname")
    if raw is not None:
        _, bad_utf8, unrep = xml_written(_b(raw))
        if bad_utf8:
            devs.add("t61-bytes")
        elif unrep:
            devs.add("unwritable-name")
    return devs


def _devs(op, mres, tag):
    f = op.split(" ")
    kv = _kv(tag)
    if f[1] == "dn":
        if f[2] == "msosco" and kv.get("spec", "").startswith("ne"):
            d = kv.get("dev", "none")
            return set() if d == "none" else set(d.split("+")) - {"nonstring"}
        return set()
    if f[1] == "sign":
        return _sign_devs(f, mres, tag)
    if f[1] == "vgap" and f[2].startswith("gap-"):
        return {"verify-publisher-issuer"}
    return set()


def nontrivial(op, mres, tag):
    f = op.split(" ")
    if f[1] == "dn":
        kv = _kv(tag)
        return kv.get("parse") == "ok" and int(kv.get("natv", "0")) >= 1
    return not _unmodelled(mres)


def branch(op, mres, tag):
    f = op.split(" ")
    kv = _kv(tag)
    if f[1] == "dn":
        if _unmodelled(mres):
            return "dn:unmodelled"
        sp = kv.get("spec", "na")
        return "dn:%s:%s:parse=%s:spec=%s:dev=%s" % (f[2], f[4] if len(f) > 4 else "", kv.get("parse"), sp[:2], kv.get("dev", "none") if sp.startswith("ne") else "-")
    if f[1] == "snk":
        return "snk:%s:%s:spec=%s" % (f[2].split(":")[0], mres.split(" ")[0], kv.get("spec", "-"))
    if f[1] == "skid":
        return "skid:%s:%s" % (f[2].split(":")[0], mres.split(" ")[0])
    if f[1] == "sign":
        rounds = f[2].count("|") + 1
        if not mres.startswith("ok"):
            return "sign:%d:%s" % (rounds, mres.split(" #")[0])
        return "sign:%d:verify=%s:%s" % (rounds, _kv(mres).get("verify"), "+".join(sorted(_sign_devs(f, mres, tag))) or "plain")
    if f[1] == "vgap":
        return "vgap:%s:%s" % (f[2], mres)
    return f[1]


def _thm(prop, name):
    return "Relic.Props.%s.%s" % (prop, name)


def predicate(prop, op, il, mres, tag):
    """the property itself, evaluated on what the implementation did"""
    f = op.split(" ")
    kv = _kv(tag)
    kind = f[1]
    if il.startswith(("panic", "crash", "not-run")):
        return (_thm(prop, "identity_total"), mres, "implementation crashed / panicked")
    if _unmodelled(mres):
        return None
    if kind == "snk":
        if mres.startswith("ok "):
            blob = _b(mres.split(" ")[1])
            if _sha1(blob) != f[3]:
                return (_thm("C19", "token_is_spec (digest on the op line)"), f[3], "the generator's reference digest is not SHA-1 of the model's blob")
            if kv.get("spec") == "ne":
                return (_thm("C19", "token_is_spec"), "strong-name blob of the specification", "model blob differs from Spec.Ident.strongNameBlob")
            if kv.get("tokspec") == "0":
                return (_thm("C19", "token_is_spec"), "low 64 bits of the digest", "token selection differs from the specification")
        if il != mres:
            if not f[2].startswith("rsa"):
                return (_thm("C19", "ecdsa_blob_injective (model of the non-RSA blob)"), mres, "blob / token of a non-RSA key differs from the modelled one")
            return (_thm("C19", "token_is_spec"), mres, "public key blob / token is not the one the specification derives from this key")
        return None
    if kind == "skid":
        if il != mres:
            return (_thm("C19", "identity_fields_are_signers (issuerKeyHash stream)"), mres, "SubjectKeyID is not SHA-1 of the subjectPublicKey bits")
        return None
    if kind == "dn":
        if f[2] == "msosco" and kv.get("parse") == "ok" and kv.get("spec", "na") != "na":
            spec = mres.split(" ")[1] if kv["spec"] == "eq" else kv["spec"][3:]
            if il != "ok " + spec:
                devs = _devs(op, mres, tag)
                return (_thm("C19", "publisher_is_spec_full"), "ok " + spec,
                        "publisher string differs from CertNameToStr(X500|REVERSE) as documented; deviation triggers present: " + (",".join(sorted(devs)) or "none"))
        if il != mres:
            style_thm = {"msosco": ("C19", "publisher_is_spec"),
                         "ldap": {"C06": ("C06", "audit_subject_identifies_certificate_partial"),
                                  "C01": ("C01", "signer_name_names_certificate_partial")}.get(prop, ("C19", "dn_format_injective_partial")),
                         "openssl": ("C06", "client_dn_not_injective") if prop == "C06" else ("C19", "openssl_style_not_injective")}[f[2]]
            return (_thm(*style_thm), mres, "FormatPkixName differs from the modelled format (%s style) the theorem is stated for" % f[2])
        return None
    if kind == "sign":
        # digests the model was given
        certs = f[2].split("|")
        sts = kv.get("streams", "").split("|") if "streams" in kv else []
        for cs, st in zip(certs, sts):
            c = cs.split(";")
            ss = st.split("+")
            if len(ss) == 2:
                if ss[0] != "-" and _sha1(_b(ss[0])) != c[4]:
                    return (_thm("C19", "identity_fields_are_signers (digest on the op line)"), c[4], "reference digest of the key blob is not SHA-1 of the model's blob")
                if ss[1] != "-" and c[5] != "-" and _sha1(_b(ss[1])) != c[5]:
                    return (_thm("C19", "identity_fields_are_signers (digest on the op line)"), c[5], "reference digest of the issuer key is not SHA-1 of the model's stream")
        if not mres.startswith("ok "):
            return None if il == mres else (_thm("C19", "identity_fields_are_signers"), mres, "Sign outcome differs from the model")
        if not il.startswith("ok "):
            return (_thm("C19", "identity_fields_are_signers"), mres, "Sign failed where the model signs")
        ik, mk = _kv(il.split(" !")[0]), _kv(mres)
        thm = {"C01": _thm("C01", "appmanifest_identity_sign_then_verify"),
               "C06": _thm("C06", "audit_subject_identifies_certificate_partial")}.get(prop, _thm("C19", "identity_fields_are_signers"))
        # the fields a reader of the written manifest sees must be the signer's
        want_token = dict((a[1] if a[0] == "" else a[0] + ":" + a[1], a[2]) for a in _asi_attrs(mk.get("asi", "-"))).get("publicKeyToken")
        if ik.get("token") != want_token:
            return (thm, "token=%s" % want_token, "publicKeyToken read back from the signed manifest is not the signing key's")
        for fld in ("name", "ikh", "npub", "ldap"):
            if ik.get(fld) != mk.get(fld):
                return (thm, "%s=%s" % (fld, mk.get(fld)), "%s of the signed manifest / record is not the signing certificate's" % fld)
        # model name before the XML writer: invalid UTF-8 means the publisher string cannot be what Windows derives
        dv = _devs(op, mres, tag)
        if "t61-bytes" in dv:
            return (thm, "publisher name = the certificate's subject", "publisherIdentity/@name carries U+FFFD where the subject has a "
                    "non-UTF-8 T61String byte (the bytes are never transcoded); relic's Verify refuses the manifest")
        if "unwritable-name" in dv:
            return (thm, "publisher name = the certificate's subject", "the subject has a character XML cannot carry; etree writes U+FFFD "
                    "and relic's Verify refuses the manifest relic signed")
        if ik.get("verify") != "pass":
            return (_thm("C01", "appmanifest_identity_sign_then_verify") if prop == "C01" else
                    _thm("C19", "verify_accepts_signed"), "verify=pass",
                    "relic's verifier rejects the manifest relic just signed: " + str(ik.get("verify")))
        if " !" in il:
            return (thm, "no discrepancy", "after Sign+Verify: " + il.split(" !", 1)[1])
        if ik.get("asi") != mk.get("asi"):
            return (thm, "asi=%s" % mk.get("asi"), "attributes of assemblyIdentity other than publicKeyToken changed")
        return None
    if kind == "vgap":
        sts = kv.get("streams", "").split("|") if "streams" in kv else []
        want = [f[8]] + [c.split("~")[3] for c in f[4].split(",")]
        for st, d in zip(sts, want):
            if _sha1(_b(st)) != d:
                return (_thm("C19", "verify_checks_identity (digest on the op line)"), d, "reference digest is not SHA-1 of the model's stream")
        bad = not f[2].startswith("good")
        if bad and il == "ok pass":
            return (_thm("C19", "verify_checks_identity_full" if f[2].startswith("gap-") else "verify_checks_identity"), "err",
                    "appmanifest.Verify accepts a manifest whose identity fields are not the signing certificate's (%s)" % f[2])
        if not bad and il != "ok pass":
            return (_thm("C19", "verify_accepts_signed"), "ok pass", "Verify rejects a correctly identified manifest")
        if il != mres:
            return (_thm("C19", "verify_checks_identity"), mres, "Verify's outcome differs from the modelled comparison")
        return None
    return None


def matches_known(k, op, il, mres, tag):
    """identity of a listed deviation: the op carries only listed trigger classes and the implementation does what the
    model of the code says"""
    devs = _devs(op, mres, tag)
    kc = set(k.get("classes", []))
    if not devs or not (kc & devs) or not devs <= KNOWN_CLASSES:
        return False
    return equiv(op, il, mres)

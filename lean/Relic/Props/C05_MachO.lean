/-
  C05 — digests and encodings are what the specifications prescribe.   Apple code directory part
  (model `Relic.Model.CodeDir` of lib/fruit/csblob/{pagehash,codedir}.go; specification `Relic.Spec.CodeDirectory`,
  written as the READER's view of Apple's published layout plus the page rule).
-/
import Relic.Proofs.CodeDirSpec
namespace Relic.Props.C05
open Relic Relic.CodeDir
open Relic.Spec.CodeDirectory (Describes Content)

/-- **codedir_hashes_eq_spec.** For every hash function and every image stream: `hashPages` produces exactly
    `⌈len/4096⌉` slots, sets `codeLimit = len`, and slot `i` is `H` of the bytes `[4096·i, min(4096·(i+1), len))` —
    the list the specification prescribes for page size 2^12 (last page short, no slot for an empty tail). -/
theorem codedir_hashes_eq_spec (H : Bytes → Bytes) (hs : Nat) (img : Bytes) :
    (hashPages img false).count = Spec.CodeDirectory.nCodeSlots img.length 12 ∧
    (hashPages img false).limit = img.length ∧
    (hashPages img false).slots.map (Seg.render H hs) = Spec.CodeDirectory.codeSlots H img img.length 12 := by
  have h12 : (2 : Nat) ^ 12 = 4096 := by decide
  have hlen := pages_length 4096 (by decide) img
  refine ⟨?_, rfl, ?_⟩
  · show (pages 4096 img).length = _
    rw [hlen]; simp [Spec.CodeDirectory.nCodeSlots, h12]
  · show ((pages 4096 img).map Seg.hash).map (Seg.render H hs) = _
    apply List.ext_getElem?
    intro i
    simp only [List.map_map, List.getElem?_map, pages_getElem? 4096 (by decide) img i, Spec.CodeDirectory.codeSlots,
      Spec.CodeDirectory.nCodeSlots, h12]
    by_cases c : i * 4096 < img.length
    · have c2 : i < (img.length + 4095) / 4096 := by omega
      simp [c, List.getElem?_range c2, Seg.render, Spec.CodeDirectory.page, h12]
    · have c2 : (img.length + 4095) / 4096 ≤ i := by omega
      have : (List.range ((img.length + 4095) / 4096))[i]? = none := by
        rw [List.getElem?_eq_none_iff]; simpa using c2
      simp [c, this]

/-- the single-slot form used for disk images: one slot over the whole stream -/
theorem codedir_single_slot (img : Bytes) :
    hashPages img true = ⟨[.hash img], 1, img.length⟩ := rfl

/-- **codedir_serialisation_eq_spec.** Whenever `newCodeDirectory` succeeds on parameters that fit the field widths
    (`Fits`: hash values of the advertised size, one stored slot per counted slot, NUL-free identifiers, total size
    below 4 GiB), the bytes it marshals are — read back by Apple's layout — a CodeDirectory with magic 0xfade0c02, its
    own length, version 0x20300 (0x20400 with exec-segment data), the flags, slot counts, code limit (32- or 64-bit
    field), hash size/type, page size, identifier, team identifier, and slot `i` / special slot `−k` at
    `hashOffset ± i·hashSize` holding exactly the intended values, all inside the blob. -/
theorem codedir_serialisation_eq_spec (H : Bytes → Bytes) (p : Params) (ht : Nat) (segs : List Seg)
    (hht : hashTypeOf p.hash = some ht) (F : Fits H p) (e : newCodeDirectory p = .ok segs) :
    Describes (render H (hashSizeOf p.hash) segs) (contentOf H p ht) :=
  newCodeDirectory_describes H p ht segs hht F e

/-- `newCodeDirectory` refuses exactly the hash functions without a code-directory hash type (e.g. SHA-512) -/
theorem codedir_refuses_iff (p : Params) : (∃ segs, newCodeDirectory p = .ok segs) ↔ (hashTypeOf p.hash).isSome := by
  unfold newCodeDirectory
  cases h : hashTypeOf p.hash <;> simp

/-- **sign_codedir_eq_spec.** The two composed, as `csblob.Sign` composes them for a Mach-O image (no rep-specific
    slot): the code directory describes `⌈len/4096⌉` code slots with `codeLimit = len` and page size 2^12, and code
    slot `i` holds `H(page_i)` of the stream that was hashed. -/
theorem sign_codedir_eq_spec (H : Bytes → Bytes) (sp : SignParams) (stream : Bytes) (s : Signed) (ht : Nat)
    (hrep : sp.repSpecific = none) (e : signBlob sp stream = .ok s) (hht : hashTypeOf sp.hash = some ht) :
    s.pages = hashPages stream false ∧
    ∃ p : Params, newCodeDirectory p = .ok s.cd ∧ p.codeSlotCount = Spec.CodeDirectory.nCodeSlots stream.length 12 ∧
      p.codeLimit = stream.length ∧ p.single = false ∧ p.hash = sp.hash ∧
      (∀ i, i < p.codeSlotCount →
        (contentOf H p ht).code i = H (Spec.CodeDirectory.page stream stream.length 12 i)) ∧
      (Fits H p → Describes (render H (hashSizeOf sp.hash) s.cd) (contentOf H p ht)) := by
  unfold signBlob at e
  simp only [hrep, Option.isSome_none] at e
  split at e
  · cases e
  · cases e
  · cases e
  · rename_i req hreq
    split at e
    · rename_i cd hcd
      simp only [Res.ok.injEq] at e
      subst e
      refine ⟨rfl, _, hcd, ?_, rfl, rfl, rfl, ?_, ?_⟩
      · exact (codedir_hashes_eq_spec H 0 stream).1
      · intro i hi
        have h3 := (codedir_hashes_eq_spec H (hashSizeOf sp.hash) stream).2.2
        have hi' : i < ((hashPages stream false).slots.map (Seg.render H (hashSizeOf sp.hash))).length := by
          simpa [hashPages] using hi
        have := congrArg (fun l => l[i]?) h3
        simp only [List.getElem?_map] at this
        have hn : i < Spec.CodeDirectory.nCodeSlots stream.length 12 := by
          have := (codedir_hashes_eq_spec H 0 stream).1
          simpa [this] using hi
        simp only [Spec.CodeDirectory.codeSlots, List.getElem?_map, List.getElem?_range hn, Option.map_some] at this
        have hi2 : i < (hashPages stream false).slots.length := by simpa using hi'
        simp only [contentOf, List.getD, List.getElem?_eq_getElem hi2, Option.getD_some]
        rw [List.getElem?_eq_getElem hi2] at this
        simpa using this
      · intro F
        exact newCodeDirectory_describes H _ ht _ hht F hcd
    · cases e
    · cases e
    · cases e

/-! ### non-vacuity -/

/-- pages of a 5-byte stream with page size 4: one full page and a short one -/
example : pages 4 [1, 2, 3, 4, 5] = [[1, 2, 3, 4], [5]] := by decide

/-- an empty stream has no page (and no slot) -/
example : (hashPages [] false).count = 0 := by decide

def sampleParams : Params :=
  { flags := 0x10000, ident := [97, 46, 98], team := [84], execBase := 0, execLimit := 0, execFlags := 0,
    specials := [none, none, none, some [1, 2], none], codeSlots := [.hash [1, 2, 3], .hash [4]], codeSlotCount := 2,
    hash := 5, codeLimit := 4097, single := false }

def sampleH : Bytes → Bytes := fun s => List.replicate 32 (UInt8.ofNat s.length)

example : (newCodeDirectory sampleParams).isOk = true ∧ hashTypeOf sampleParams.hash = some 2 := by decide

example : Fits sampleH sampleParams where
  hashLen := by intro s; simp [sampleH, sampleParams, hashSizeOf]
  slotLen := by
    intro s hs
    simp only [sampleParams, List.mem_cons, List.mem_nil_iff, or_false] at hs
    rcases hs with rfl | rfl <;> simp [Seg.render, sampleH, sampleParams, hashSizeOf]
  count := rfl
  identNoNul := by decide
  teamNoNul := by decide
  flags := by decide
  size := by decide
  limit := by decide
  execBase := by decide
  execLimit := by decide
  execFlags := by decide

/-- SHA-512 (crypto.Hash 7) has no code-directory hash type: refused -/
example : newCodeDirectory { sampleParams with hash := 7 } = .err "hashtype" := by decide

end Relic.Props.C05

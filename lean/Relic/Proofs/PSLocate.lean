/- the verifier's scan on the signed script (UTF-8 and UTF-16LE): it finds exactly the base64 lines `MakePatch` wrote -/
import Relic.Proofs.PSFrame
set_option linter.unusedSimpArgs false
set_option linter.unusedVariables false
namespace Relic.PS
open Relic

/-! ### base64 text -/

/-- alphabet or padding -/
def okChar (c : UInt8) : Bool := isB64 c || c == 61

theorem b64char_ok : ∀ n, n < 64 → isB64 (b64char n) = true := by decide

theorem base64_ok (x : Bytes) : b64okF (base64 x) = true ∧ (base64 x).all okChar = true := by
  fun_induction base64 x with
  | case1 a b c rest n ih =>
    obtain ⟨i1, i2⟩ := ih
    have h1 := b64char_ok (n / 262144) (by have := a.toNat_lt; have := b.toNat_lt; have := c.toNat_lt; omega)
    have h2 := b64char_ok (n / 4096 % 64) (by omega)
    have h3 := b64char_ok (n / 64 % 64) (by omega)
    have h4 := b64char_ok (n % 64) (by omega)
    refine ⟨?_, ?_⟩
    · simp only [List.cons_append, List.nil_append, b64okF]
      split
      · simp [h1, h2, h3, h4]
      · simp [h1, h2, h3, h4, i1]
    · simp [okChar, h1, h2, h3, h4, i2]
  | case2 a b n =>
    have h1 := b64char_ok (n / 262144) (by have := a.toNat_lt; have := b.toNat_lt; omega)
    have h2 := b64char_ok (n / 4096 % 64) (by omega)
    have h3 := b64char_ok (n / 64 % 64) (by omega)
    simp [b64okF, okChar, h1, h2, h3]
  | case3 a n =>
    have h1 := b64char_ok (n / 262144) (by have := a.toNat_lt; omega)
    have h2 := b64char_ok (n / 4096 % 64) (by omega)
    simp [b64okF, okChar, h1, h2]
  | case4 => simp [b64okF]

/-- cutting valid base64 text at a multiple of four characters leaves two valid texts -/
theorem b64ok_take_drop (m : Nat) (s : Bytes) (h : b64okF s = true) :
    b64okF (s.take (4 * m)) = true ∧ b64okF (s.drop (4 * m)) = true := by
  induction m generalizing s with
  | zero => simp [b64okF, h]
  | succ m ih =>
    match s, h with
    | [], _ => simp [b64okF]
    | [_], h => simp [b64okF] at h
    | [_, _], h => simp [b64okF] at h
    | [_, _, _], h => simp [b64okF] at h
    | a :: b :: c :: d :: rest, h =>
      have e4 : 4 * (m + 1) = 4 * m + 4 := by omega
      simp only [e4, List.take_succ_cons, List.drop_succ_cons]
      simp only [b64okF] at h
      by_cases hr : rest.isEmpty = true
      · have : rest = [] := by simpa using hr
        subst this
        simp only [List.take_nil, List.drop_nil]
        simp only [List.isEmpty_nil, if_true] at h
        refine ⟨?_, by simp [b64okF]⟩
        simp only [b64okF, List.isEmpty_nil, if_true]
        exact h
      · rw [if_neg hr] at h
        simp only [Bool.and_eq_true] at h
        obtain ⟨⟨⟨⟨ha, hb⟩, hc⟩, hd⟩, hrest⟩ := h
        obtain ⟨i1, i2⟩ := ih rest hrest
        refine ⟨?_, i2⟩
        simp only [b64okF]
        split
        · simp [ha, hb, hc, hd]
        · simp [ha, hb, hc, hd, i1]

/-! ### the scan -/

theorem lines8_ne_nil (cur t : Bytes) : lines8 cur t ≠ [] := by
  obtain ⟨x, r, ph, e, _⟩ := lines8_head cur t
  rw [e]; simp

/-- the run that reported a text ending after `p` met no begin marker inside the text -/
theorem no_marker_prefix (first : Bytes) (u16 : Bool) (k flen : Nat) (hk : 0 < k) (p x : Bytes) (restf : List Item) (ph1 : Nat) :
    ∀ (xs : List Item) (saved h : Bytes) (ts pos : Nat) (H : Bytes) (T S : Nat), Good xs → pos = ts + saved.length →
      digestLoop true true first u16 k flen (xs ++ (.line (p ++ x) ph1 :: restf)) saved h ts pos = .ok (H, T, S) →
      T = pos + (joinItems xs).length + p.length → ∀ l ph, Item.line l ph ∈ xs → l ≠ first := by
  intro xs
  induction xs with
  | nil => intro _ _ _ _ _ _ _ _ _ _ _ l ph hm; simp at hm
  | cons it xs ih =>
    intro saved h ts pos H T S hg hp e hT l ph hm
    obtain ⟨b, hb⟩ := hg it (by simp)
    subst hb
    simp only [List.cons_append, digestLoop] at e
    simp only [joinItems, List.flatMap_cons, itemBytes, List.length_append] at hT
    by_cases hl : b = first
    · rw [if_pos hl] at e
      split at e
      · simp at e
      · split at e
        · simp at e
        · injection e with e; injection e with e1 e2; injection e2 with e2 e3
          simp only [List.length_take] at e2
          omega
    · rw [if_neg hl] at e
      rcases List.mem_cons.mp hm with h1 | h1
      · injection h1 with h1 _; rw [h1]; exact hl
      · exact ih _ _ _ _ H T S (fun y hy => hg y (by simp [hy])) (by omega) e
          (by simp only [joinItems]; omega) l ph h1

/-- lines in front of the block that are not the begin marker are passed over -/
theorem locate_skip (guard : Bool) (st en first last : Bytes) (u16 : Bool) (more : List Item) (hm : more ≠ []) :
    ∀ (xs : List Item) (acc : List Bytes), Good xs → (∀ l ph, Item.line l ph ∈ xs → l ≠ first) →
      locateLoop guard st en first last u16 (xs ++ more) false acc = locateLoop guard st en first last u16 more false acc := by
  intro xs
  induction xs with
  | nil => intro _ _ _; rfl
  | cons it xs ih =>
    intro acc hg hn
    obtain ⟨b, hb⟩ := hg it (by simp)
    subst hb
    have hne : (xs ++ more).isEmpty = false := by
      cases xs with
      | nil => cases more with
        | nil => exact absurd rfl hm
        | cons _ _ => rfl
      | cons _ _ => rfl
    have hb : b ≠ first := hn b b.length (by simp)
    simp only [List.cons_append, locateLoop, hne, Bool.false_eq_true, if_false, false_and, if_neg hb]
    exact ih acc (fun y hy => hg y (by simp [hy])) (fun l ph hl => hn l ph (by simp [hl]))

theorem style_nolf (style : Nat) (st en : Bytes) (hs : styleOf style = some (st, en)) :
    (∀ y ∈ st, y ≠ 10) ∧ (∀ y ∈ en, y ≠ 10) ∧ (∀ y ∈ st ++ psEnd ++ en ++ [13], y ≠ 10) := by
  unfold styleOf at hs
  split at hs
  all_goals first
    | (injection hs with hs; injection hs with h1 h2; subst h1; subst h2; decide)
    | cases hs

theorem okChar_facts : okChar 10 = false ∧ okChar 13 = false ∧ psEnd.all okChar = false := by decide

/-- one signature line, as the scan sees it -/
theorem sigline_step (st en c : Bytes) (hc : c.all okChar = true) (hb : b64okF c = true) (hne : c ≠ psEnd)
    (rest : List Item) (hr : rest ≠ []) (acc : List Bytes) (ph : Nat) :
    locateLoop true st en (firstLine st en false) (lastLine st en false) false
      (.line (st ++ c ++ en ++ crlf) ph :: rest) true acc =
    locateLoop true st en (firstLine st en false) (lastLine st en false) false rest true (c :: acc) := by
  have hre : rest.isEmpty = false := by cases rest with | nil => exact absurd rfl hr | cons _ _ => rfl
  have hlast : st ++ c ++ en ++ crlf ≠ lastLine st en false := by
    intro h
    simp only [lastLine, Bool.false_eq_true, if_false, List.append_assoc] at h
    have h1 := List.append_cancel_left h
    have : c ++ (en ++ crlf) = psEnd ++ (en ++ crlf) := h1
    exact hne (List.append_cancel_right this)
  have hpre : hasPrefix (st ++ c ++ en ++ crlf) st = true := by
    simp [hasPrefix, List.append_assoc]
  have hsuf : hasSuffix (st ++ c ++ en ++ crlf) (en ++ crlf) = true := by
    have e : st ++ c ++ en ++ crlf = (st ++ c) ++ (en ++ crlf) := by simp [List.append_assoc]
    rw [e]
    simp only [hasSuffix, List.length_append, Bool.and_eq_true, decide_eq_true_eq, beq_iff_eq]
    refine ⟨by omega, ?_⟩
    have : (st.length + c.length + (en.length + crlf.length)) - (en.length + crlf.length) = (st ++ c).length := by
      simp [List.length_append]
    rw [this, List.drop_left' rfl]
  have hpay : ((st ++ c ++ en ++ crlf).drop st.length).take ((st ++ c ++ en ++ crlf).length - en.length - 2 - st.length) = c := by
    have e : st ++ c ++ en ++ crlf = st ++ (c ++ (en ++ crlf)) := by simp [List.append_assoc]
    rw [e, List.drop_left' rfl]
    have : (st ++ (c ++ (en ++ crlf))).length - en.length - 2 - st.length = c.length := by
      simp [List.length_append, crlf]; omega
    rw [this, List.take_left' rfl]
  have hj : ¬ ((st ++ c ++ en ++ crlf).length - en.length - 2 < st.length) := by
    simp [List.length_append, crlf]; omega
  have hok : b64ok c = true := by
    unfold b64ok
    have : c.filter (fun x => x != 10 && x != 13) = c := by
      apply List.filter_eq_self.mpr
      intro y hy
      have hy' := (List.all_eq_true.mp hc) y hy
      have f := okChar_facts
      have h10 : y ≠ 10 := by intro h; rw [h, f.1] at hy'; cases hy'
      have h13 : y ≠ 13 := by intro h; rw [h, f.2.1] at hy'; cases hy'
      simp [h10, h13]
    rw [this]; exact hb
  simp only [locateLoop, hre, Bool.false_eq_true, if_false, true_and, if_neg hlast, if_true, hpre, hsuf, Bool.not_true,
    Bool.or_self, if_neg hj, hpay, hok]

/-- the scan over the signature lines and the end marker -/
theorem sig_scan8 (style : Nat) (st en : Bytes) (hs : styleOf style = some (st, en)) :
    ∀ (fuel : Nat) (b : Bytes) (acc : List Bytes), b.length ≤ fuel → b64okF b = true → b.all okChar = true →
      locateLoop true st en (firstLine st en false) (lastLine st en false) false
        (lines8 [] (sigLines st en fuel b ++ (st ++ psEnd ++ en ++ crlf))) true acc
      = .ok (acc.reverse ++ chunks64 fuel b) := by
  obtain ⟨nst, nen, nlast⟩ := style_nolf style st en hs
  -- the end marker, then the empty line returned with io.EOF
  have hend : ∀ acc, locateLoop true st en (firstLine st en false) (lastLine st en false) false
      (lines8 [] (st ++ psEnd ++ en ++ crlf)) true acc = .ok acc.reverse := by
    intro acc
    have e : st ++ psEnd ++ en ++ crlf = (st ++ psEnd ++ en ++ [13]) ++ 10 :: [] := by simp [crlf, List.append_assoc]
    rw [e, lines8_nolf [] _ [] nlast]
    have hl : [] ++ (st ++ psEnd ++ en ++ [13]) ++ [10] = lastLine st en false := by
      simp [lastLine, crlf, List.append_assoc]
    rw [hl]
    simp [locateLoop, lines8]
  intro fuel
  induction fuel with
  | zero =>
    intro b acc hl _ _
    have : b = [] := by cases b with | nil => rfl | cons _ _ => simp at hl
    subst this
    simp only [sigLines, chunks64, List.nil_append, List.append_nil]
    exact hend acc
  | succ fuel ih =>
    intro b acc hl hb hc
    by_cases hbe : b.isEmpty = true
    · simp only [sigLines, chunks64, hbe, if_true, List.nil_append, List.append_nil]
      exact hend acc
    · simp only [sigLines, chunks64, hbe, Bool.false_eq_true, if_false]
      have hbne : b ≠ [] := by intro h; rw [h] at hbe; simp at hbe
      obtain ⟨t1, t2⟩ := b64ok_take_drop 16 b hb
      have call : ∀ y ∈ b, okChar y = true := List.all_eq_true.mp hc
      have ctake : (b.take 64).all okChar = true := List.all_eq_true.mpr fun y hy => call y (List.mem_of_mem_take hy)
      have cdrop : (b.drop 64).all okChar = true := List.all_eq_true.mpr fun y hy => call y (List.mem_of_mem_drop hy)
      have f := okChar_facts
      have hne : b.take 64 ≠ psEnd := by
        intro h; rw [h] at ctake; rw [f.2.2] at ctake; cases ctake
      have nolf : ∀ y ∈ st ++ b.take 64 ++ en ++ [13], y ≠ 10 := by
        intro y hy
        simp only [List.mem_append, List.mem_singleton] at hy
        rcases hy with ((hy | hy) | hy) | hy
        · exact nst y hy
        · intro h; have := List.all_eq_true.mp ctake y hy; rw [h, f.1] at this; cases this
        · exact nen y hy
        · rw [hy]; decide
      have e : st ++ b.take 64 ++ en ++ crlf ++ sigLines st en fuel (b.drop 64) ++ (st ++ psEnd ++ en ++ crlf) =
          (st ++ b.take 64 ++ en ++ [13]) ++ 10 :: (sigLines st en fuel (b.drop 64) ++ (st ++ psEnd ++ en ++ crlf)) := by
        simp [crlf, List.append_assoc]
      rw [e, lines8_nolf [] _ _ nolf]
      have hl2 : [] ++ (st ++ b.take 64 ++ en ++ [13]) ++ [10] = st ++ b.take 64 ++ en ++ crlf := by
        simp [crlf, List.append_assoc]
      rw [hl2, sigline_step st en (b.take 64) ctake t1 hne _ (lines8_ne_nil _ _)]
      rw [ih (b.drop 64) (b.take 64 :: acc) (by simp only [List.length_drop]; omega) t2 cdrop]
      simp

/-- **the verifier's scan on a signed UTF-8 script** finds exactly the 64-character base64 lines of the blob -/
theorem locate_signed8 (f : Bytes) (style : Nat) (d : Digest) (st en sig : Bytes) (e : DigestPS f style = .ok d)
    (hs : styleOf style = some (st, en)) (hu : isUtf16 f = false)
    (hnf : ∀ l, l ++ crlf = firstLine st en false → ¬ l <:+ f.take d.textSize) :
    locate (signedBytes f d st en sig) style = .ok (chunks64 (base64 sig).length (base64 sig)) := by
  have H := DigestPS_spec f style d e
  have hz := H.sizes
  unfold DigestPS digestWith at e
  rw [hs] at e
  simp only [hu, Bool.false_eq_true, if_false] at e
  cases hl : digestLoop true true (firstLine st en false) false 2 f.length (lines8 [] f) [] [] 0 0 with
  | err _ => simp [hl] at e
  | panic _ => simp [hl] at e
  | diverge => simp [hl] at e
  | ok v =>
    obtain ⟨Hh, T, S⟩ := v
    simp only [hl] at e
    injection e with e
    subst e
    simp only at hz hnf ⊢
    obtain ⟨text, tf, hf, hTl⟩ : ∃ text tf, f = text ++ tf ∧ text.length = T :=
      ⟨f.take T, f.drop T, (List.take_append_drop T f).symm, by simp [List.length_take]; omega⟩
    subst hf
    have htk : (text ++ tf).take T = text := List.take_left' hTl
    rw [htk] at hnf
    unfold signedBytes
    simp only [htk]
    rw [lines8_append] at hl
    obtain ⟨x, restf, ph1, hhead, hx⟩ := lines8_head (pend8 [] text) tf
    rw [hhead] at hl
    obtain ⟨hj, hg⟩ := comp8_join [] text
    simp only [List.nil_append] at hj
    have hsuf : pend8 [] text <:+ text := ⟨_, hj⟩
    have nf : pend8 [] text ++ crlf ≠ firstLine st en false := fun hc => hnf _ hc hsuf
    have hT : T = 0 + (joinItems (comp8 [] text)).length + (pend8 [] text).length := by
      have := congrArg List.length hj
      simp only [List.length_append] at this
      omega
    have nomark := no_marker_prefix (firstLine st en false) false 2 (text ++ tf).length (by decide) (pend8 [] text) x restf ph1
      (comp8 [] text) [] [] 0 0 Hh T S hg rfl hl hT
    have hfl : firstLine st en false = (st ++ psBegin ++ en ++ [13]) ++ [10] := by
      simp [firstLine, crlf, List.append_assoc]
    have hitems : lines8 [] (text ++ block st en false sig) =
        comp8 [] text ++ (.line (pend8 [] text ++ crlf) ((pend8 [] text ++ [13]).length + 1) ::
          .line (firstLine st en false) (([] ++ (st ++ psBegin ++ en ++ [13])).length + 1) ::
          lines8 [] (blockRest st en sig)) := by
      rw [lines8_append, block_split8]
      have : crlf ++ (firstLine st en false ++ blockRest st en sig) = [13] ++ 10 :: (firstLine st en false ++ blockRest st en sig) := rfl
      rw [this, lines8_nolf _ [13] _ (by decide), hfl, List.append_assoc (st ++ psBegin ++ en ++ [13]) [10]]
      rw [List.singleton_append, lines8_nolf [] _ _ (marker_nolf style st en hs)]
      simp [crlf, List.append_assoc]
    have hu' : isUtf16 (text ++ block st en false sig) = false := by
      rw [isUtf16_eq] at hu ⊢
      rw [block_split8]
      apply decide_eq_false
      have hu0 := of_decide_eq_false hu
      intro hc
      apply hu0
      match text, hTl with
      | [], _ => simp [crlf] at hc
      | [a], _ => simp [crlf] at hc
      | a :: b :: r, _ => simpa using hc
    unfold locate locateWith
    rw [hs]
    simp only [hu', Bool.false_eq_true, if_false]
    rw [hitems, locate_skip true st en _ _ false _ (by simp) (comp8 [] text) [] hg nomark]
    have hne : (Item.line (firstLine st en false) (([] ++ (st ++ psBegin ++ en ++ [13])).length + 1) ::
        lines8 [] (blockRest st en sig)).isEmpty = false := rfl
    have hne2 : (lines8 [] (blockRest st en sig)).isEmpty = false := by
      cases h : lines8 [] (blockRest st en sig) with
      | nil => exact absurd h (lines8_ne_nil _ _)
      | cons _ _ => rfl
    simp only [locateLoop, hne, hne2, Bool.false_eq_true, if_false, false_and, if_neg nf, if_true]
    obtain ⟨b1, b2⟩ := base64_ok sig
    have := sig_scan8 style st en hs (base64 sig).length (base64 sig) [] (Nat.le_refl _) b1 b2
    simp only [List.reverse_nil, List.nil_append] at this
    exact this

/-! ### UTF-16 -/

theorem widen_cons (x : UInt8) (l : Bytes) : widen (x :: l) = x :: 0 :: widen l := by simp [widen]

theorem widen_inj (a b : Bytes) (h : widen a = widen b) : a = b := by
  induction a generalizing b with
  | nil => cases b with
    | nil => rfl
    | cons y ys => simp [widen] at h
  | cons x xs ih => cases b with
    | nil => simp [widen] at h
    | cons y ys =>
      rw [widen_cons, widen_cons] at h
      injection h with h1 h2
      injection h2 with _ h3
      rw [h1, ih ys h3]

theorem encUtf8_ascii (x : UInt8) (h : x.toNat < 128) : encUtf8 x.toNat = [x] := by
  unfold encUtf8
  rw [if_pos h]
  simp

/-- `fromUtf16` undoes `toUtf16` on ASCII text -/
theorem fromUtf16_widen (l : Bytes) (h : ∀ y ∈ l, y.toNat < 128) : fromUtf16 (widen l) = l := by
  induction l with
  | nil => simp [widen, fromUtf16]
  | cons x xs ih =>
    have hx : x.toNat < 128 := h x (by simp)
    have ih' := ih (fun y hy => h y (by simp [hy]))
    cases xs with
    | nil =>
      have : widen [x] = [x, 0] := by simp [widen]
      rw [this]
      simp only [fromUtf16]
      have z : (0 : UInt8).toNat = 0 := rfl
      rw [z, Nat.mul_zero, Nat.add_zero, if_neg (by omega), encUtf8_ascii x hx]
    | cons y ys =>
      have hy : y.toNat < 128 := h y (by simp)
      rw [widen_cons, widen_cons]
      simp only [fromUtf16]
      have z : (0 : UInt8).toNat = 0 := rfl
      rw [z, Nat.mul_zero, Nat.add_zero, Nat.add_zero, if_neg (by omega), if_neg (by omega), encUtf8_ascii x hx]
      rw [widen_cons] at ih'
      rw [ih']
      simp

set_option maxRecDepth 100000 in
theorem okChar_ascii_nat : ∀ n, n < 256 → okChar (UInt8.ofNat n) = true → n < 128 := by decide

theorem okChar_ascii (y : UInt8) (h : okChar y = true) : y.toNat < 128 := by
  have := okChar_ascii_nat y.toNat y.toNat_lt (by simpa using h)
  exact this

theorem style_ascii (style : Nat) (st en : Bytes) (hs : styleOf style = some (st, en)) :
    (∀ y ∈ st, y.toNat < 128) ∧ (∀ y ∈ en, y.toNat < 128) := by
  unfold styleOf at hs
  split at hs
  all_goals first
    | (injection hs with hs; injection hs with h1 h2; subst h1; subst h2; decide)
    | cases hs

/-- one signature line of a UTF-16 script, as the scan sees it -/
theorem sigline_step16 (st en c : Bytes) (hst : ∀ y ∈ st, y.toNat < 128) (hen : ∀ y ∈ en, y.toNat < 128)
    (hc : c.all okChar = true) (hb : b64okF c = true) (hne : c ≠ psEnd)
    (rest : List Item) (hr : rest ≠ []) (acc : List Bytes) (ph : Nat) :
    locateLoop true st en (firstLine st en true) (lastLine st en true) true
      (.line (widen (st ++ c ++ en ++ crlf)) ph :: rest) true acc =
    locateLoop true st en (firstLine st en true) (lastLine st en true) true rest true (c :: acc) := by
  have hre : rest.isEmpty = false := by cases rest with | nil => exact absurd rfl hr | cons _ _ => rfl
  have hlast : widen (st ++ c ++ en ++ crlf) ≠ lastLine st en true := by
    intro h
    simp only [lastLine, if_true] at h
    have h := widen_inj _ _ h
    simp only [List.append_assoc] at h
    have h1 := List.append_cancel_left h
    have : c ++ (en ++ crlf) = psEnd ++ (en ++ crlf) := h1
    exact hne (List.append_cancel_right this)
  have hdec : fromUtf16 (widen (st ++ c ++ en ++ crlf)) = st ++ c ++ en ++ crlf := by
    apply fromUtf16_widen
    intro y hy
    simp only [List.mem_append] at hy
    rcases hy with ((hy | hy) | hy) | hy
    · exact hst y hy
    · exact okChar_ascii y (List.all_eq_true.mp hc y hy)
    · exact hen y hy
    · simp [crlf] at hy; rcases hy with hy | hy <;> (rw [hy]; decide)
  have hpre : hasPrefix (st ++ c ++ en ++ crlf) st = true := by
    simp [hasPrefix, List.append_assoc]
  have hsuf : hasSuffix (st ++ c ++ en ++ crlf) (en ++ crlf) = true := by
    have e : st ++ c ++ en ++ crlf = (st ++ c) ++ (en ++ crlf) := by simp [List.append_assoc]
    rw [e]
    simp only [hasSuffix, List.length_append, Bool.and_eq_true, decide_eq_true_eq, beq_iff_eq]
    refine ⟨by omega, ?_⟩
    have : (st.length + c.length + (en.length + crlf.length)) - (en.length + crlf.length) = (st ++ c).length := by
      simp [List.length_append]
    rw [this, List.drop_left' rfl]
  have hpay : ((st ++ c ++ en ++ crlf).drop st.length).take ((st ++ c ++ en ++ crlf).length - en.length - 2 - st.length) = c := by
    have e : st ++ c ++ en ++ crlf = st ++ (c ++ (en ++ crlf)) := by simp [List.append_assoc]
    rw [e, List.drop_left' rfl]
    have : (st ++ (c ++ (en ++ crlf))).length - en.length - 2 - st.length = c.length := by
      simp [List.length_append, crlf]; omega
    rw [this, List.take_left' rfl]
  have hj : ¬ ((st ++ c ++ en ++ crlf).length - en.length - 2 < st.length) := by
    simp [List.length_append, crlf]; omega
  have hok : b64ok c = true := by
    unfold b64ok
    have : c.filter (fun x => x != 10 && x != 13) = c := by
      apply List.filter_eq_self.mpr
      intro y hy
      have hy' := (List.all_eq_true.mp hc) y hy
      have f := okChar_facts
      have h10 : y ≠ 10 := by intro h; rw [h, f.1] at hy'; cases hy'
      have h13 : y ≠ 13 := by intro h; rw [h, f.2.1] at hy'; cases hy'
      simp [h10, h13]
    rw [this]; exact hb
  simp only [locateLoop, hre, Bool.false_eq_true, if_false, true_and, if_neg hlast, if_true, hdec, hpre, hsuf, Bool.not_true,
    Bool.or_self, if_neg hj, hpay, hok]

/-- the scan over the signature lines and the end marker, UTF-16 -/
theorem sig_scan16 (style : Nat) (st en : Bytes) (hs : styleOf style = some (st, en)) :
    ∀ (fuel : Nat) (b : Bytes) (acc : List Bytes), b.length ≤ fuel → b64okF b = true → b.all okChar = true →
      locateLoop true st en (firstLine st en true) (lastLine st en true) true
        (lines16 [] (widen (sigLines st en fuel b ++ (st ++ psEnd ++ en ++ crlf)))) true acc
      = .ok (acc.reverse ++ chunks64 fuel b) := by
  obtain ⟨nst, nen, nlast⟩ := style_nolf style st en hs
  obtain ⟨ast, aen⟩ := style_ascii style st en hs
  have hend : ∀ acc, locateLoop true st en (firstLine st en true) (lastLine st en true) true
      (lines16 [] (widen (st ++ psEnd ++ en ++ crlf))) true acc = .ok acc.reverse := by
    intro acc
    have e : widen (st ++ psEnd ++ en ++ crlf) = widen (st ++ psEnd ++ en ++ [13]) ++ 10 :: 0 :: [] := by
      simp [crlf, List.append_assoc, widen_append, widen]
    rw [e, lines16_nolf [] _ [] nlast]
    have hl : [] ++ widen (st ++ psEnd ++ en ++ [13]) ++ [10, 0] = lastLine st en true := by
      simp [lastLine, crlf, List.append_assoc, widen_append, widen]
    rw [hl]
    simp [locateLoop, lines16]
  intro fuel
  induction fuel with
  | zero =>
    intro b acc hl _ _
    have : b = [] := by cases b with | nil => rfl | cons _ _ => simp at hl
    subst this
    simp only [sigLines, chunks64, List.nil_append, List.append_nil]
    exact hend acc
  | succ fuel ih =>
    intro b acc hl hb hc
    by_cases hbe : b.isEmpty = true
    · simp only [sigLines, chunks64, hbe, if_true, List.nil_append, List.append_nil]
      exact hend acc
    · simp only [sigLines, chunks64, hbe, Bool.false_eq_true, if_false]
      have hbne : b ≠ [] := by intro h; rw [h] at hbe; simp at hbe
      obtain ⟨t1, t2⟩ := b64ok_take_drop 16 b hb
      have call : ∀ y ∈ b, okChar y = true := List.all_eq_true.mp hc
      have ctake : (b.take 64).all okChar = true := List.all_eq_true.mpr fun y hy => call y (List.mem_of_mem_take hy)
      have cdrop : (b.drop 64).all okChar = true := List.all_eq_true.mpr fun y hy => call y (List.mem_of_mem_drop hy)
      have f := okChar_facts
      have hne : b.take 64 ≠ psEnd := by
        intro h; rw [h] at ctake; rw [f.2.2] at ctake; cases ctake
      have nolf : ∀ y ∈ st ++ b.take 64 ++ en ++ [13], y ≠ 10 := by
        intro y hy
        simp only [List.mem_append, List.mem_singleton] at hy
        rcases hy with ((hy | hy) | hy) | hy
        · exact nst y hy
        · intro h; have := List.all_eq_true.mp ctake y hy; rw [h, f.1] at this; cases this
        · exact nen y hy
        · rw [hy]; decide
      have e : widen (st ++ b.take 64 ++ en ++ crlf ++ sigLines st en fuel (b.drop 64) ++ (st ++ psEnd ++ en ++ crlf)) =
          widen (st ++ b.take 64 ++ en ++ [13]) ++ 10 :: 0 :: widen (sigLines st en fuel (b.drop 64) ++ (st ++ psEnd ++ en ++ crlf)) := by
        simp [crlf, List.append_assoc, widen_append, widen]
      rw [e, lines16_nolf [] _ _ nolf]
      have hl2 : [] ++ widen (st ++ b.take 64 ++ en ++ [13]) ++ [10, 0] = widen (st ++ b.take 64 ++ en ++ crlf) := by
        simp [crlf, List.append_assoc, widen_append, widen]
      rw [hl2, sigline_step16 st en (b.take 64) ast aen ctake t1 hne _ (by
        obtain ⟨x, r, ph, e, _⟩ := lines16_head [] (widen (sigLines st en fuel (b.drop 64) ++ (st ++ psEnd ++ en ++ crlf)))
        rw [e]; simp)]
      rw [ih (b.drop 64) (b.take 64 :: acc) (by simp only [List.length_drop]; omega) t2 cdrop]
      simp

/-- **the verifier's scan on a signed UTF-16 script** finds exactly the 64-character base64 lines of the blob -/
theorem locate_signed16 (f : Bytes) (style : Nat) (d : Digest) (st en sig : Bytes) (e : DigestPS f style = .ok d)
    (hs : styleOf style = some (st, en)) (hu : isUtf16 f = true) (heven : d.textSize % 2 = 0) (h2 : 2 ≤ d.textSize)
    (hnf : ∀ l, l ++ widen crlf = firstLine st en true → ¬ l <:+ f.take d.textSize) :
    locate (signedBytes f d st en sig) style = .ok (chunks64 (base64 sig).length (base64 sig)) := by
  have H := DigestPS_spec f style d e
  have hz := H.sizes
  unfold DigestPS digestWith at e
  rw [hs] at e
  simp only [hu, if_true] at e
  cases hl : digestLoop true true (firstLine st en true) true 4 f.length (lines16 [] f) [] [] 0 0 with
  | err _ => simp [hl] at e
  | panic _ => simp [hl] at e
  | diverge => simp [hl] at e
  | ok v =>
    obtain ⟨Hh, T, S⟩ := v
    simp only [hl] at e
    injection e with e
    subst e
    simp only at hz hnf heven h2 ⊢
    obtain ⟨text, tf, hf, hTl⟩ : ∃ text tf, f = text ++ tf ∧ text.length = T :=
      ⟨f.take T, f.drop T, (List.take_append_drop T f).symm, by simp [List.length_take]; omega⟩
    subst hf
    have htk : (text ++ tf).take T = text := List.take_left' hTl
    rw [htk] at hnf
    unfold signedBytes
    simp only [htk]
    rw [lines16_append _ _ _ (by rw [hTl]; exact heven)] at hl
    obtain ⟨x, restf, ph1, hhead, hx⟩ := lines16_head (pend16 [] text) tf
    rw [hhead] at hl
    obtain ⟨hj, hg⟩ := comp16_join [] text
    simp only [List.nil_append] at hj
    have hsuf : pend16 [] text <:+ text := ⟨_, hj⟩
    have nf : pend16 [] text ++ widen crlf ≠ firstLine st en true := fun hc => hnf _ hc hsuf
    have hT : T = 0 + (joinItems (comp16 [] text)).length + (pend16 [] text).length := by
      have := congrArg List.length hj
      simp only [List.length_append] at this
      omega
    have nomark := no_marker_prefix (firstLine st en true) true 4 (text ++ tf).length (by decide) (pend16 [] text) x restf ph1
      (comp16 [] text) [] [] 0 0 Hh T S hg rfl hl hT
    have hfl : firstLine st en true = widen (st ++ psBegin ++ en ++ [13]) ++ [10, 0] := by
      simp [firstLine, crlf, List.append_assoc, widen_append, widen]
    have hitems : lines16 [] (text ++ block st en true sig) =
        comp16 [] text ++ (.line (pend16 [] text ++ widen crlf) ((pend16 [] text ++ widen [13]).length + 2) ::
          .line (firstLine st en true) (([] ++ widen (st ++ psBegin ++ en ++ [13])).length + 2) ::
          lines16 [] (widen (blockRest st en sig))) := by
      rw [lines16_append _ _ _ (by rw [hTl]; exact heven), block_split16]
      have : widen crlf ++ (firstLine st en true ++ widen (blockRest st en sig)) =
          widen [13] ++ 10 :: 0 :: (firstLine st en true ++ widen (blockRest st en sig)) := rfl
      rw [this, lines16_nolf _ [13] _ (by decide), hfl, List.append_assoc (widen (st ++ psBegin ++ en ++ [13])) [10, 0]]
      have : [10, 0] ++ widen (blockRest st en sig) = 10 :: 0 :: widen (blockRest st en sig) := rfl
      rw [this, lines16_nolf [] _ _ (marker_nolf style st en hs)]
      simp [crlf, widen, List.append_assoc]
    have hu' : isUtf16 (text ++ block st en true sig) = true := by
      rw [isUtf16_eq] at hu ⊢
      have hu0 := of_decide_eq_true hu
      apply decide_eq_true
      match text, hTl with
      | [], hh => simp at hh; omega
      | [a], hh => simp at hh; omega
      | a :: b :: r, _ => simpa using hu0
    unfold locate locateWith
    rw [hs]
    simp only [hu', if_true]
    rw [hitems, locate_skip true st en _ _ true _ (by simp) (comp16 [] text) [] hg nomark]
    have hne : (Item.line (firstLine st en true) (([] ++ widen (st ++ psBegin ++ en ++ [13])).length + 2) ::
        lines16 [] (widen (blockRest st en sig))).isEmpty = false := rfl
    have hne2 : (lines16 [] (widen (blockRest st en sig))).isEmpty = false := by
      obtain ⟨x, r, ph, e, _⟩ := lines16_head [] (widen (blockRest st en sig))
      rw [e]; rfl
    simp only [locateLoop, hne, hne2, Bool.false_eq_true, if_false, false_and, if_neg nf, if_true]
    obtain ⟨b1, b2⟩ := base64_ok sig
    have := sig_scan16 style st en hs (base64 sig).length (base64 sig) [] (Nat.le_refl _) b1 b2
    simp only [List.reverse_nil, List.nil_append] at this
    exact this

end Relic.PS

/-
  Relic.Spec.Cfb — a decidable validity predicate for compound files, written from [MS-CFB]
  (not from relic's code), evaluated by the native driver on the *bytes* relic wrote, plus the
  list of streams/storages (path, metadata, content) used for the preservation check.

  `validate b = .ok p` iff
    * header: magic, byte order, (major 3, shift 9) or (major 4, shift 12), mini shift 6, cutoff 4096;
      file length is a whole number of sectors and the last sector is in use (no trailing garbage);
    * DIFAT chain in bounds, acyclic, ENDOFCHAIN-terminated, `numDifat` long; FAT sector list =
      non-free prefix of the DIFAT, `numFatSectors` long, in bounds; FAT covers the file and is
      FREESECT beyond it; FAT[s] = FATSECT exactly on the FAT sectors, DIFSECT exactly on the DIFAT
      sectors;
    * directory chain, mini-FAT chain, mini-stream container chain and every stream chain
      (FAT for size ≥ cutoff, mini-FAT below) are in bounds, acyclic, ENDOFCHAIN-terminated, pass
      through no FREE/FAT/DIF entry, have exactly ⌈size / sector⌉ elements, and are pairwise
      disjoint (and disjoint from FAT/DIFAT sectors); header counts equal the lengths found;
    * entry 0 is the root storage; every storage's children are reachable through in-bounds,
      acyclic left/right links, each entry reached once, all unreached entries are empty;
      names are well formed; each sibling tree is a strict binary search tree under the
      [MS-CFB] 2.6.4 order (length, then upper-cased code units) and a red-black tree
      (black root, no red-red, equal black height).
  Core Lean only: linked into the native driver.
-/
import Relic.Model.Cfb
import Relic.Model.RedBlack
namespace Relic.Spec.Cfb
open Relic Relic.Cfb

/-- what is compared before/after: one record per storage or stream -/
structure SEntry where
  path : List (List Nat)
  typ : Nat
  clsid : List UInt8
  state : Nat
  ctime : Nat
  mtime : Nat
  size : Nat
  data : List UInt8
  deriving BEq, Repr

structure Parsed where
  hdr : Header
  ss : Nat
  nsec : Nat
  fatSectors : List Nat
  difatSectors : List Nat
  dirChain : List Nat
  miniFatChain : List Nat
  container : List Nat
  nEntries : Nat
  streams : List SEntry
  /-- sibling pairs on which relic's `lessDirEnt` and the [MS-CFB] order disagree -/
  mixedPairs : Nat
  /-- every sibling tree is a BST under the model of relic's `lessDirEnt` -/
  relicOrderOk : Bool
  /-- allocated FAT entries that belong to no chain (leaked sectors; allowed, reported) -/
  leaked : Nat

abbrev V := Except String

/-- follow a chain in an allocation table: in bounds (`< limit`), no special value inside,
    at most `fuel` elements (more means a cycle) -/
def walk (tbl : Array Nat) (limit : Nat) (what : String) : Nat → Nat → List Nat → V (List Nat)
  | fuel, s, acc =>
    if s = ENDOFCHAIN then pure acc.reverse
    else if s > MAXREGSECT then throw s!"chain-special:{what}"
    else if s ≥ limit then throw s!"chain-oob:{what}"
    else match fuel with
      | 0 => throw s!"chain-cycle:{what}"
      | fuel + 1 =>
        match tbl[s]? with
        | none => throw s!"chain-oob:{what}"
        | some nx => walk tbl limit what fuel nx (s :: acc)

def walkDifat (b : Buf) (ss nsec : Nat) : Nat → Nat → List Nat → List Nat → V (List Nat × List Nat)
  | fuel, s, secs, ents =>
    if s = ENDOFCHAIN then pure (secs.reverse, ents)
    else if s > MAXREGSECT then throw "difat-special"
    else if s ≥ nsec then throw "difat-oob"
    else match fuel with
      | 0 => throw "difat-cycle"
      | fuel + 1 =>
        match u32s? b (sectorOffset ss s) (ss / 4) with
        | none => throw "difat-oob"
        | some vs => walkDifat b ss nsec fuel (vs.getLastD ENDOFCHAIN) (s :: secs) (ents ++ vs.dropLast)

/-- mark sectors as owned; a sector owned twice is an overlap -/
def claim (what : String) : List Nat → Array Bool → V (Array Bool)
  | [], used => pure used
  | s :: rest, used =>
    match used[s]? with
    | none => throw s!"chain-oob:{what}"
    | some true => throw s!"overlap:{what}"
    | some false => claim what rest (used.setIfInBounds s true)

def ceilDiv (a b : Nat) : Nat := (a + b - 1) / b

structure Ctx where
  b : Buf
  ss : Nat
  limit : Nat              -- sectors addressable: min (sectors in file) (FAT length)
  cutoff : Nat
  fat : Array Nat
  miniFat : Array Nat
  miniLimit : Nat
  containerBytes : Buf
  ents : Array DirEntry
  names : Array (Option (List Nat))

structure St where
  used : Array Bool
  miniUsed : Array Bool
  vis : Array Bool
  streams : List SEntry
  mixed : Nat
  relicOk : Bool

def nameOf (c : Ctx) (i : Nat) : List Nat := ((c.names[i]?).getD none).getD []

/-- sibling tree below entry index `i` (keys = entry indices), marking entries as visited -/
def buildTree (c : Ctx) : Nat → Nat → Array Bool → V (RedBlack.Tree Nat × Array Bool)
  | fuel, i, vis =>
    if i = NOSTREAM then pure (.nil, vis)
    else match fuel with
      | 0 => throw "tree-cycle"
      | fuel + 1 =>
        match c.ents[i]?, vis[i]? with
        | some e, some false =>
          if e.typ ≠ 1 ∧ e.typ ≠ 2 then throw "tree-type"
          else if e.color > 1 then throw "tree-colour"
          else if (c.names[i]?).getD none = none then throw "name"
          else do
            let (l, vis) ← buildTree c fuel e.left (vis.setIfInBounds i true)
            let (r, vis) ← buildTree c fuel e.right vis
            pure (.node (e.color = 0) l i r, vis)
        | some _, some true => throw "tree-cycle"
        | _, _ => throw "tree-oob"

def sectorBytes (c : Ctx) (s : Nat) : List UInt8 :=
  (c.b.extract (sectorOffset c.ss s) (sectorOffset c.ss s + c.ss)).toList

def readStream (c : Ctx) (e : DirEntry) (st : St) : V (List UInt8 × St) :=
  if e.sizeHi ≠ 0 then throw "size-hi"
  else if e.size ≥ c.cutoff then do
    let ch ← walk c.fat c.limit "stream" (c.limit + 1) e.start []
    if ch.length ≠ ceilDiv e.size c.ss then throw "size-chain:stream"
    let used ← claim "stream" ch st.used
    pure (((ch.flatMap (sectorBytes c)).take e.size), { st with used })
  else if e.size = 0 then pure ([], st)
  else do
    let ch ← walk c.miniFat c.miniLimit "mini" (c.miniLimit + 1) e.start []
    if ch.length ≠ ceilDiv e.size 64 then throw "size-chain:mini"
    let miniUsed ← claim "mini" ch st.miniUsed
    let data := ch.flatMap fun m => (c.containerBytes.extract (m * 64) (m * 64 + 64)).toList
    if data.length ≠ ch.length * 64 then throw "chain-oob:mini-container"
    pure (data.take e.size, { st with miniUsed })

def countMixed : List (List Nat) → Nat
  | [] => 0
  | a :: rest =>
    (rest.filter fun b =>
      RedBlack.lessDirEnt a b != RedBlack.mscfbLess RedBlack.upperUnit a b ||
      RedBlack.lessDirEnt b a != RedBlack.mscfbLess RedBlack.upperUnit b a).length + countMixed rest

mutual
/-- validate the children of storage entry `idx` (whose path is `path`) and collect them -/
def doStorage (c : Ctx) : Nat → List (List Nat) → Nat → St → V St
  | 0, _, _, _ => throw "tree-depth"
  | fuel + 1, path, idx, st =>
    match c.ents[idx]? with
    | none => throw "tree-oob"
    | some e => do
      let (t, vis) ← buildTree c (c.ents.size + 1) e.child st.vis
      let less := fun i j => RedBlack.mscfbLess RedBlack.upperUnit (nameOf c i) (nameOf c j)
      let why := RedBlack.whyInvalid less t
      let kids := RedBlack.toList t
      let nms := kids.map (nameOf c)
      -- `dir-order-relic`: not ordered per [MS-CFB] but a search tree under relic's `lessDirEnt`
      if why = "order" ∧ RedBlack.sortedB RedBlack.lessDirEnt nms then throw "dir-order-relic"
      if why ≠ "valid" then throw s!"dir-{why}"
      let st := { st with vis, mixed := st.mixed + countMixed nms,
                          relicOk := st.relicOk && RedBlack.sortedB RedBlack.lessDirEnt nms }
      doKids c fuel path kids st

def doKids (c : Ctx) : Nat → List (List Nat) → List Nat → St → V St
  | _, _, [], st => pure st
  | fuel, path, i :: rest, st =>
    match c.ents[i]? with
    | none => throw "tree-oob"
    | some e => do
      let p := path ++ [nameOf c i]
      if e.typ = 2 then
        let (data, st) ← readStream c e st
        let rec_ : SEntry := ⟨p, 2, e.clsid, e.state, e.ctime, e.mtime, e.size, data⟩
        doKids c fuel path rest { st with streams := rec_ :: st.streams }
      else
        let rec_ : SEntry := ⟨p, 1, e.clsid, e.state, e.ctime, e.mtime, 0, []⟩
        let st ← doStorage c fuel p i { st with streams := rec_ :: st.streams }
        doKids c fuel path rest st
end

def allEq (v : Nat) : List Nat → Bool
  | [] => true
  | x :: r => x == v && allEq v r

def readEntries (b : Buf) (ss : Nat) : List Nat → V (List DirEntry)
  | [] => pure []
  | s :: rest => do
    let es ← (List.range (ss / 128)).mapM fun k =>
      match readDirEntry b (sectorOffset ss s + 128 * k) with
      | some e => pure e
      | none => throw "chain-oob:dir"
    let more ← readEntries b ss rest
    pure (es ++ more)

def countIdx (p : Nat → Nat → Bool) (a : Array Nat) : Nat :=
  (List.range a.size).foldl (fun n i => if p i (a.getD i 0) then n + 1 else n) 0

def validate (b : Buf) : V Parsed := do
  let h ← readHeader b
  if h.byteOrder ≠ 0xFFFE then throw "hdr-byteorder"
  if ¬ ((h.major = 3 ∧ h.sectorShift = 9) ∨ (h.major = 4 ∧ h.sectorShift = 12)) then throw "hdr-version"
  if h.miniShift ≠ 6 then throw "hdr-minishift"
  if h.miniCutoff ≠ 4096 then throw "hdr-cutoff"
  let ss := 2 ^ h.sectorShift
  if b.size % ss ≠ 0 ∨ b.size < 2 * ss then throw "len-align"
  let nsec := b.size / ss - 1
  -- DIFAT and FAT
  let (difSecs, difEnts) ← walkDifat b ss nsec (nsec + 1) h.firstDifat [] []
  if difSecs.length ≠ h.numDifat then throw "difat-count"
  let allDif := h.difat ++ difEnts
  let fatSecs := allDif.takeWhile (· ≠ FREESECT)
  if ¬ allEq FREESECT (allDif.dropWhile (· ≠ FREESECT)) then throw "difat-hole"
  if fatSecs.length ≠ h.numFatSectors then throw "fat-count"
  if fatSecs.any (· ≥ nsec) then throw "fat-oob"
  let fatL ← fatSecs.mapM fun s =>
    match u32s? b (sectorOffset ss s) (ss / 4) with
    | some vs => pure vs
    | none => throw "fat-oob"
  let fat : Array Nat := fatL.flatten.toArray
  if fat.size < nsec then throw "fat-short"
  if countIdx (fun i v => i ≥ nsec && v != FREESECT) fat ≠ 0 then throw "fat-beyond-eof"
  if fat.getD (nsec - 1) FREESECT = FREESECT then throw "trailing-free"
  if fatSecs.any (fun s => fat.getD s 0 ≠ FATSECT) then throw "fat-mark"
  if difSecs.any (fun s => fat.getD s 0 ≠ DIFSECT) then throw "difat-mark"
  if countIdx (fun _ v => v == FATSECT) fat ≠ fatSecs.length then throw "fat-mark-extra"
  if countIdx (fun _ v => v == DIFSECT) fat ≠ difSecs.length then throw "difat-mark-extra"
  let limit := nsec
  let used0 : Array Bool := Array.replicate nsec false
  let used ← claim "fat" fatSecs used0
  let used ← claim "difat" difSecs used
  -- directory
  let dirChain ← walk fat limit "dir" (limit + 1) h.firstDir []
  if dirChain = [] then throw "dir-empty"
  if h.major = 4 ∧ h.numDirSectors ≠ dirChain.length then throw "dir-count"
  if h.major = 3 ∧ h.numDirSectors ≠ 0 then throw "dir-count"
  let used ← claim "dir" dirChain used
  let entsL ← readEntries b ss dirChain
  let ents := entsL.toArray
  let some root := ents[0]? | throw "dir-empty"
  if root.typ ≠ 5 then throw "root-type"
  if (entsL.drop 1).any (·.typ = 5) then throw "root-dup"
  -- mini FAT and mini stream container
  let miniFatChain ← walk fat limit "minifat" (limit + 1) h.firstMiniFat []
  if miniFatChain.length ≠ h.numMiniFat then throw "minifat-count"
  let used ← claim "minifat" miniFatChain used
  let miniL ← miniFatChain.mapM fun s =>
    match u32s? b (sectorOffset ss s) (ss / 4) with
    | some vs => pure vs
    | none => throw "chain-oob:minifat"
  let miniFat : Array Nat := miniL.flatten.toArray
  let container ← if root.size = 0 then pure [] else walk fat limit "ministream" (limit + 1) root.start []
  if container.length ≠ ceilDiv root.size ss then throw "size-chain:ministream"
  let used ← claim "ministream" container used
  let containerBytes : Buf :=
    container.foldl (fun acc s => acc ++ b.extract (sectorOffset ss s) (sectorOffset ss s + ss)) #[]
  let c : Ctx := { b, ss, limit, cutoff := h.miniCutoff, fat, miniFat,
                   miniLimit := min miniFat.size (root.size / 64), containerBytes, ents,
                   names := ents.map (·.name?) }
  let st0 : St := { used, miniUsed := Array.replicate miniFat.size false,
                    vis := (Array.replicate ents.size false).setIfInBounds 0 true,
                    streams := [⟨[], 5, root.clsid, root.state, root.ctime, root.mtime, 0, []⟩],
                    mixed := 0, relicOk := true }
  let st ← doStorage c (ents.size + 1) [] 0 st0
  if (List.range ents.size).any (fun i => !(st.vis.getD i false) && (ents[i]?.map (·.typ)).getD 0 != 0) then
    throw "dir-unreached"
  let leaked := countIdx (fun i v => v != FREESECT && !(st.used.getD i true)) fat
  pure { hdr := h, ss, nsec, fatSectors := fatSecs, difatSectors := difSecs, dirChain, miniFatChain,
         container, nEntries := ents.size, streams := st.streams.reverse, mixedPairs := st.mixed,
         relicOrderOk := st.relicOk, leaked }

def validB (b : Buf) : Bool := match validate b with | .ok _ => true | .error _ => false

/-- names of compound files compare case-insensitively -/
def sameName (a b : List Nat) : Bool := a.map RedBlack.upperUnit == b.map RedBlack.upperUnit

/-- the stream list expected after `touched` (root-level name ↦ new content, or `none` = deleted)
    has been applied to `ins`: untouched records unchanged, touched names replaced -/
def expectedStreams (ins : List SEntry) (touched : List (List Nat × Option (List UInt8))) : List SEntry :=
  (ins.filter fun e => !(e.path.length == 1 && touched.any fun t => sameName t.1 (e.path.headD []))) ++
  touched.filterMap fun t =>
    t.2.map fun d => ⟨[t.1], 2, List.replicate 16 0, 0, 0, 0, d.length, d⟩

/-- `none` = preserved; otherwise a reason -/
def preservedWhy (ins outs : List SEntry) (touched : List (List Nat × Option (List UInt8))) : Option String :=
  let exp := expectedStreams ins touched
  if outs.length ≠ exp.length then some s!"count:{outs.length}!={exp.length}"
  else if ¬ exp.all (fun e => outs.contains e) then some "missing-or-changed"
  else if ¬ outs.all (fun e => exp.contains e) then some "extra"
  else none

end Relic.Spec.Cfb

"""C13 — interrupted output never leaves a torn or missing file (lib/atomicfile and its users).

Tie: system-call traces.  Every scenario (`vh C13 scenario <strategy> <dir> <aux>`: ONE output operation of
the real relic code) is run under strace; the recorded calls restricted to the scenario directory are
evaluated by the Lean model (`C13 trace …`: `atomicShape`, `firstBad` = the invariant at every prefix,
final listing).  Then the real process is killed (`strace -e inject=<call>:signal=SIGKILL:when=<k>`, delivered
on entry, the call does not run) at every mutating call, and the directory it leaves is compared with the
model state for the calls that completed and with the property itself.  Errno injection covers the handled
error paths (no temp file may remain).
"""
import os, re, resource, shutil, subprocess, threading, zlib
from collections import Counter
from concurrent.futures import ThreadPoolExecutor

import runner
from runner import Finding, Broken, DRIVER, REPO, NCPU
from runner import VH13 as VH   # scenario binary of its own: ordinals of injected system calls must not depend on other packages

TIE = "trace:atomicfile"
TIE_THEOREM = "Relic.Props.C13.trace_shape_sound (model Relic.Model.FS vs strace of the real process)"
RULE = ("exhaustive over system-call boundaries: strategies {atomicfile.WriteFile, signers.fileProducer.Apply whole-file, "
        "fileProducer.Apply binpatch -> PatchSet.applyRewrite, atomicfile.WriteInPlace+WriteAt+Truncate+Commit, msiTransformer.Apply "
        "on functest/packages/dummy.msi, pgpTransformer.Apply detached / clearsign merge / inline merge} x destination "
        "{pre-existing, absent, symbolic link to an existing file}: one strace dry run (trace -> Lean: atomicShape, invariant at every prefix, model final listing = "
        "real listing), then SIGKILL injected on entry of EVERY mutating call of the output phase (creating openat, write, pwrite64, "
        "copy_file_range, ftruncate, fchmod, close, unlinkat, renameat) with the directory compared to the model state of the completed "
        "calls and to the property (dest = old or new, still present if it was, input unchanged); errno injection (ENOSPC on "
        "content-writing calls, EXDEV on renameat; first+last point quick, every point thorough) checking dest/input and that no "
        "*.tmp* sibling remains; three deliberately non-atomic control writers must be flagged. Payload sizes seeded "
        "(quick 50-100 KB, thorough 300-400 KB: several write calls each). Non-trivial = a crash/error run whose directory differs "
        "from the initial one, or a dry run.")
ASSUMPTIONS = ["rename(2) replaces its target atomically and a SIGKILLed process leaves exactly the effects of its completed system "
               "calls (POSIX; ext4 here)",
               "a SIGKILL in the middle of one write(2) leaves a prefix of that buffer in the *temp* file only "
               "(Relic.Props.C13.partial_write_covered reduces it to a boundary state of a re-chunked program)",
               "no power loss / fsync durability (the property is about killing the process)",
               "the destination and the input are different paths in one directory (in-place patching is outside C13's scope)",
               "files are changed only through the traced calls (no MAP_SHARED mmap, io_uring); the parser flags any other "
               "file-changing call that names the scenario directory"]
TRUSTED = ["strace 6.1 (trace fidelity, inject=…:signal=SIGKILL delivered on syscall entry)",
           "the strace parser in checklib/props/c13.py (about 120 lines)",
           "Relic.Model.FS is a hand-written model of openat/write/pwrite/copy_file_range/ftruncate/fchmod/close/unlink/rename; "
           "tied to the kernel+relic by comparing its state with the real directory after every kill and error run"]
UNPROVED = []

DEST, INPUT = "out.bin", "in.bin"


# the default correspondence is replaced by run(ctx); these exist for the interface only
def nontrivial(op, mres, tag): return True
def branch(op, mres, tag): return op.split()[1] if " " in op else op
def predicate(op, il, mres, tag): return None
def matches_known(k, op, il, mres, tag): return False

TRACE_SET = ("open,openat,openat2,creat,read,pread64,readv,lseek,write,pwrite64,writev,pwritev,pwritev2,copy_file_range,sendfile,"
             "splice,ftruncate,truncate,fallocate,fchmod,fchmodat,chmod,close,rename,renameat,renameat2,unlink,unlinkat,link,linkat,"
             "symlink,symlinkat,mkdir,mkdirat,rmdir,dup,dup2,dup3")
UNSUPPORTED = {"open", "openat2", "creat", "readv", "writev", "pwritev", "pwritev2", "splice", "truncate", "fallocate", "fchmodat",
               "chmod", "link", "linkat", "symlink", "symlinkat", "mkdir", "mkdirat", "rmdir", "dup", "dup2", "dup3"}
OLD = (b"previous content of the destination\n" * 97)[:3333]
TMP_RE = re.compile(r"out\.bin\.tmp\d+")


# ---------------------------------------------------------------- strace parsing

def _unq(tok):
    """a -xx string literal -> bytes"""
    tok = tok.strip()
    if tok.endswith("..."):
        raise ValueError("truncated string in trace")
    assert tok.startswith('"') and tok.endswith('"'), tok[:40]
    return bytes.fromhex(tok[1:-1].replace("\\x", ""))


_ARG = re.compile(r'\s*("[^"]*"(?:\.\.\.)?|[^,"]*)\s*(?:,|$)')


def _split(args):
    """split a syscall argument list at top-level commas (-xx strings contain neither commas nor quotes)"""
    out = _ARG.findall(args)
    if out and out[-1] == "" and not args.rstrip().endswith(","):
        out.pop()
    return [a.strip() for a in out]


LINE = re.compile(r"^(\d+)\s+(.*)$")
CALL = re.compile(r"^(\w+)\((.*)\)\s+= (-?\d+|\?)(.*)$", re.S)


def parse_trace(path, d):
    """-> dict(ops=[(token list, pid, name, ordinal)], calls=[(pid,name)], main=pid, unsupported=[...], killed=bool)
    ops are the *completed, successful* calls that concern directory d, as Lean driver tokens."""
    pend, fdin = {}, {}
    ops, unsupported = [], []
    ordn = Counter()
    main = None
    killed = False
    pref = d.rstrip("/") + "/"

    def rel(p):
        p = p.decode("utf-8", "replace")
        return p[len(pref):] if p.startswith(pref) else None

    for raw in open(path, errors="replace"):
        m = LINE.match(raw.rstrip("\n"))
        if not m:
            continue
        pid, rest = int(m.group(1)), m.group(2)
        if main is None:
            main = pid
        if rest.startswith("+++ killed"):
            killed = True
            continue
        if rest.startswith("+++") or rest.startswith("---"):
            continue
        if rest.endswith("<unfinished ...>"):
            name = rest.split("(", 1)[0]
            ordn[(pid, name)] += 1
            pend[pid] = (rest[:-len("<unfinished ...>")], ordn[(pid, name)])
            continue
        mo = re.match(r"^<\.\.\. (\w+) resumed>(.*)$", rest, re.S)
        if mo:
            if pid not in pend:
                continue
            head, k = pend.pop(pid)
            rest = head + mo.group(2)
            name = mo.group(1)
        else:
            name = rest.split("(", 1)[0]
            ordn[(pid, name)] += 1
            k = ordn[(pid, name)]
        c = CALL.match(rest)
        if not c:
            continue
        name, args, ret = c.group(1), _split(c.group(2)), c.group(3)
        if ret == "?" or int(ret) < 0:
            continue
        ret = int(ret)
        tok = None
        try:
            if name == "openat":
                p = rel(_unq(args[1]))
                fdin[ret] = p is not None
                if p is not None:
                    fl = args[2]
                    tok = ["O", p, str(ret), "".join("1" if f in fl.split("|") else "0" for f in ("O_CREAT", "O_EXCL", "O_TRUNC"))]
                    if "O_APPEND" in fl or "O_TMPFILE" in fl or "O_DIRECTORY" in fl:
                        unsupported.append(rest[:120])
            elif name == "close":
                if fdin.pop(int(args[0]), False):
                    tok = ["X", args[0]]
            elif name in ("read", "lseek"):
                if fdin.get(int(args[0])):
                    tok = ["R" if name == "read" else "L", args[0], str(ret)]
            elif name == "pread64":
                pass
            elif name == "write":
                if fdin.get(int(args[0])):
                    tok = ["W", args[0], (_unq(args[1])[:ret].hex() or "-")]
            elif name == "pwrite64":
                if fdin.get(int(args[0])):
                    tok = ["P", args[0], args[3], (_unq(args[1])[:ret].hex() or "-")]
            elif name in ("copy_file_range", "sendfile"):
                fi, fo = (int(args[0]), int(args[2])) if name == "copy_file_range" else (int(args[1]), int(args[0]))
                if fdin.get(fo) or fdin.get(fi):
                    offs = [args[1], args[3]] if name == "copy_file_range" else [args[2]]
                    if not (fdin.get(fo) and fdin.get(fi)) or any(o != "NULL" for o in offs):
                        unsupported.append(rest[:120])
                    else:
                        tok = ["C", str(fi), str(fo), str(ret)]
            elif name == "ftruncate":
                if fdin.get(int(args[0])):
                    tok = ["T", args[0], args[1]]
            elif name == "fchmod":
                if fdin.get(int(args[0])):
                    tok = ["M", args[0], str(int(args[1], 8))]
            elif name in ("unlink", "unlinkat"):
                p = rel(_unq(args[0] if name == "unlink" else args[1]))
                if p is not None:
                    tok = ["U", p]
                    if name == "unlinkat" and args[2] != "0":
                        unsupported.append(rest[:120])
            elif name in ("rename", "renameat", "renameat2"):
                a, b = (args[0], args[1]) if name == "rename" else (args[1], args[3])
                a, b = rel(_unq(a)), rel(_unq(b))
                if a is not None or b is not None:
                    if a is None or b is None or (name == "renameat2" and args[4] != "0"):
                        unsupported.append(rest[:120])
                    else:
                        tok = ["N", a, b]
            elif name in UNSUPPORTED:
                # any other file-changing call that names the directory or one of its descriptors
                hit = False
                for a in args:
                    if a.startswith('"'):
                        hit = hit or rel(_unq(a)) is not None
                    elif re.fullmatch(r"\d+", a) and name.startswith(("dup", "writev", "pwritev", "readv", "fallocate", "splice")):
                        hit = hit or bool(fdin.get(int(a)))
                if hit:
                    unsupported.append(rest[:120])
        except (ValueError, IndexError, AssertionError) as e:
            unsupported.append("unparsed: %s (%s)" % (rest[:100], e))
        if tok is not None:
            if any(" " in t or t == "" for t in tok):
                unsupported.append("path with blank: " + rest[:100])
            ops.append((tok, pid, name, k))
    return {"ops": ops, "main": main, "unsupported": unsupported, "killed": killed}


MUTATING = {"W", "P", "C", "T", "M", "X", "U", "N"}


def is_mutating(tok):
    return tok[0] in MUTATING or (tok[0] == "O" and tok[3][0] == "1")


def norm(toks):
    """normalise random temp names (and nothing else) for comparing two runs"""
    names = {}
    out = []
    for t in toks:
        out.append(tuple(TMP_RE.sub(lambda m: names.setdefault(m.group(0), "out.bin.tmp#%d" % len(names)), x) for x in t))
    return out


# ---------------------------------------------------------------- running

def listing(d):
    out = {}
    for fn in sorted(os.listdir(d)):
        b = open(os.path.join(d, fn), "rb").read()
        out[fn] = b
    return out


def sig(b):
    return "%d:%d:%d" % (len(b), zlib.adler32(b), zlib.crc32(b))


def show(ls):
    return ",".join("%s:%s" % (TMP_RE.sub("out.bin.tmp#", k), sig(v)) for k, v in sorted(ls.items())) or "-"


def model_listing(s):
    """the driver's final=… -> comparable string"""
    if s == "-":
        return "-"
    ents = [e.split(":", 1) for e in s.split(",")]
    return ",".join("%s:%s" % (TMP_RE.sub("out.bin.tmp#", k), v) for k, v in sorted(ents))


class Env:
    def __init__(self, ctx):
        self.ctx = ctx
        self.scratch = ctx["scratch"]
        self.aux = os.path.join(self.scratch, "aux")
        self.n = 0
        self.lock = threading.Lock()
        self.env = dict(runner.GOENV, GOMAXPROCS="1", GOGC="off", GODEBUG="asyncpreemptoff=1",
                        VERIF_SEED=str(ctx["seed"]), VERIF_TIER=ctx["tier"])

    def prep(self):
        os.makedirs(self.aux, exist_ok=True)
        r = subprocess.run([VH, "C13", "prep", self.aux], env=self.env, stdout=subprocess.PIPE, stderr=subprocess.PIPE, text=True)
        if r.returncode != 0:
            raise Broken("vh C13 prep failed", r.stderr[-2000:])
        shutil.copyfile(os.path.join(REPO, "functest", "packages", "dummy.msi"), os.path.join(self.aux, "in.msi"))
        r = subprocess.run([VH, "C13", "list"], stdout=subprocess.PIPE, text=True)
        lines = r.stdout.strip().split("\n")
        return lines[0].split(), lines[1].split()

    def input_for(self, strategy):
        name = "in.msi" if strategy == "msi" else "msg.txt" if strategy.startswith("pgp") else "in.bin"
        return open(os.path.join(self.aux, name), "rb").read()

    def run(self, strategy, destmode, inject=None):
        """one process run in a fresh directory -> dict(rc, trace, before, after, dir)"""
        with self.lock:
            self.n += 1
            d = os.path.join(self.scratch, "r%06d" % self.n)
        os.mkdir(d)
        inp = self.input_for(strategy)
        open(os.path.join(d, INPUT), "wb").write(inp)
        if destmode == "exists":
            open(os.path.join(d, DEST), "wb").write(OLD)
        elif destmode == "symlink":
            # the output path is a symbolic link to an existing regular file (kept outside the directory): the path
            # must go on holding the old content until it holds the complete new content, like any other destination
            open(d + ".target", "wb").write(OLD)
            os.symlink(d + ".target", os.path.join(d, DEST))
        elif destmode == "hardlink":
            # the output path exists and is another directory entry of the input's inode (cp -l in out): it is a path
            # "not being patched in place" (-o differs from the input), so it holds old-or-new at every instant and the
            # input keeps its bytes
            os.link(os.path.join(d, INPUT), os.path.join(d, DEST))
        before = listing(d)
        tr = d + ".trace"
        cmd = ["strace", "-f", "-o", tr, "-s", "16777216", "-xx", "-e", "trace=" + TRACE_SET]
        if inject:
            for one in inject.split("&&"):      # several injections in one run: "a:error=E:when=k&&b:signal=SIGKILL:when=m"
                cmd += ["-e", "inject=" + one]
        cmd += [VH, "C13", "scenario", strategy, d, self.aux]
        p = subprocess.run(cmd, env=self.env, stdout=subprocess.PIPE, stderr=subprocess.PIPE, timeout=120)
        res = {"rc": p.returncode, "stderr": p.stderr.decode("utf-8", "replace")[-1500:], "before": before, "after": listing(d),
               "trace": parse_trace(tr, d), "dir": d}
        shutil.rmtree(d, ignore_errors=True)
        os.remove(tr)
        if destmode == "symlink":
            os.remove(d + ".target")
        return res


def _stack():
    try:
        resource.setrlimit(resource.RLIMIT_STACK, (resource.RLIM_INFINITY, resource.RLIM_INFINITY))
    except (ValueError, OSError):
        pass


def model_eval(before, toks_list):
    """ask the Lean driver about a list of traces; each item (before listing, [tokens])"""
    lines = []
    for before, toks in toks_list:
        init = []
        for k in sorted(before):
            init += [k, before[k].hex() or "-"]
        lines.append(" ".join(["C13", "trace", DEST, INPUT, str(len(before))] + init + [x for t in toks for x in t]))
    if not lines:
        return []
    def one(line):
        p = subprocess.run([DRIVER], input=line + "\n", stdout=subprocess.PIPE, stderr=subprocess.PIPE, text=True, preexec_fn=_stack)
        o = p.stdout.strip()
        if not o.startswith("ok "):
            return {"raw": o or ("driver rc=%d %s" % (p.returncode, p.stderr[-200:]))}
        f = dict(x.split("=", 1) for x in o.split(" ")[1:])
        f["raw"] = o
        return f
    with ThreadPoolExecutor(max_workers=NCPU) as ex:
        return list(ex.map(one, lines))


def opname(strategy, destmode, what):
    return "C13 %s strategy=%s dest=%s" % (what, strategy, destmode)


def prop_violations(before, after, new):
    """the property itself on a directory left behind; `new` = complete new content (bytes) or None if unknown"""
    bad = []
    if after.get(INPUT) != before.get(INPUT):
        bad.append("input-modified")
    if DEST in before and DEST not in after:
        bad.append("destination-missing")
    elif DEST in after and after[DEST] != before.get(DEST) and (new is None or after[DEST] != new):
        bad.append("destination-torn(len=%d)" % len(after[DEST]))
    return bad


def leftovers(after):
    return sorted(k for k in after if k not in (DEST, INPUT))


def run(ctx):
    env = Env(ctx)
    strategies, controls = env.prep()
    thorough = ctx["tier"] == "thorough"
    aux = lambda n: open(os.path.join(env.aux, n), "rb").read()
    expected_new = {"writefile": aux("payload.bin"), "producer": aux("payload.bin"), "rewrite": aux("rewrite.expect"),
                    "pgp-detached": aux("sig-detached.bin")}
    findings, samples = [], []
    stats = Counter()
    branches = Counter()
    scen = [(s, dm) for s in strategies + controls for dm in ("exists", "absent")] + [(s, "symlink") for s in strategies] + [(s, "hardlink") for s in strategies]
    only = None
    if ctx.get("replay_ops") is not None:
        only = []
        for op in ctx["replay_ops"]:
            f = dict(x.split("=", 1) for x in op.split()[2:] if "=" in x)
            only.append((op.split()[1], f))
        scen = sorted({(f["strategy"], f["dest"]) for _, f in only})

    pool = ThreadPoolExecutor(max_workers=NCPU)
    # ---- (a) dry runs
    dry = dict(zip(scen, pool.map(lambda sd: env.run(sd[0], sd[1]), scen)))
    mres = dict(zip(scen, model_eval(None, [(dry[sd]["before"], [o[0] for o in dry[sd]["trace"]["ops"]]) for sd in scen])))
    jobs = []  # (kind, strategy, destmode, inject, index j into dry ops or None)
    multi, boundaries, hit = {}, {}, {}
    flagged_controls = set()
    for sd in scen:
        s, dm = sd
        r, m = dry[sd], mres[sd]
        ctl = s.startswith("ctl-")
        op = opname(s, dm, "dry")
        stats["dry"] += 1
        tr = r["trace"]
        if r["rc"] != 0 or tr["unsupported"] or "shape" not in m:
            findings.append(Finding("broken-tie", TIE, TIE_THEOREM, op, "scenario completes; every call in the directory is modelled",
                                    "rc=%s %s unsupported=%s model=%s" % (r["rc"], r["stderr"][-300:], tr["unsupported"][:3], m.get("raw", "")[:200])))
            if tr["unsupported"] or "shape" not in m:
                continue
        multi[sd] = any(pid != tr["main"] for _, pid, _, _ in tr["ops"])
        new = r["after"].get(DEST)
        samples.append("%s n=%s dest=%s calls=%s" % (op, m["n"], m["dest"], "".join(t[0][0] for t in tr["ops"])))
        branches["dry:%s:%s:shape=%s" % (s, dm, m["shape"])] += 1
        if not ctl and r["after"].get(INPUT) != r["before"].get(INPUT):
            findings.append(Finding("counterexample", TIE, "Relic.Props.C13.commit_atomic", op, "input file unmodified (the output path is not the input path)",
                                    "input-modified; directory: %s" % show(r["after"])))
        # tie: model final state = real final state
        if model_listing(m["final"]) != show(r["after"]):
            findings.append(Finding("broken-tie", TIE, TIE_THEOREM, op, model_listing(m["final"]), show(r["after"]),
                                    "model final listing differs from the real directory"))
            continue
        if s in expected_new and new != expected_new[s]:
            findings.append(Finding("counterexample", TIE, "Relic.Props.C13.commit_atomic", op, "dest = complete new content",
                                    "dest=%s" % (sig(new) if new is not None else "missing")))
        if not ctl:
            if leftovers(r["after"]):
                findings.append(Finding("counterexample", TIE, "Relic.Props.C13.commit_atomic", op, "no temporary file after normal completion",
                                        "left: %s" % leftovers(r["after"])))
            if m["shape"] != "1" or m["bad"] != "-":
                findings.append(Finding("broken-tie", TIE, "Relic.Props.C13.trace_shape_sound", op + " prefix=" + m["bad"],
                                        "atomicShape = true and the invariant at every prefix of the recorded trace",
                                        "shape=%s first-bad-prefix=%s dest-per-prefix=%s" % (m["shape"], m["bad"], m["dest"]),
                                        "the recorded trace of the real code does not have the atomic shape; see the crash sweep for the real failing state"))
        elif m["shape"] != "1" or m["bad"] != "-":
            flagged_controls.add((sd, "model"))
        # ---- plan the sweep
        ops = tr["ops"]
        muts = [j for j, o in enumerate(ops) if is_mutating(o[0])]
        # a kill point is identified by the disk state it exposes = number of mutating calls completed
        boundaries[sd] = set(range(len(muts)))
        specs = []
        for j, o in enumerate(ops):
            _, pid, name, k = o
            if j in muts or multi[sd]:
                specs.append((name, k, j))
            if pid != tr["main"]:
                # a helper goroutine's call: which thread runs it varies from run to run and strace counts per thread,
                # so try every ordinal up to this one and see afterwards which state was hit (three attempts each)
                specs += [(name, o2, None) for o2 in range(1, k)] * 3 + [(name, k, None)] * 2
        seen = Counter()
        for name, k, j in specs:
            if seen[(name, k)] == 0 or (multi[sd] and j is None):
                jobs.append(("crash", s, dm, "%s:signal=SIGKILL:when=%d" % (name, k), j))
            seen[(name, k)] += 1
        if not ctl:
            content = [j for j in muts if ops[j][0][0] in ("W", "P", "C", "T")]
            ren = [j for j in muts if ops[j][0][0] == "N"]
            pts = content if thorough else sorted(set(content[:1] + content[-1:]))
            for j in pts:
                jobs.append(("error", s, dm, "%s:error=ENOSPC:when=%d" % (ops[j][2], ops[j][3]), j))
            for j in ren:
                jobs.append(("error", s, dm, "%s:error=EXDEV:when=%d" % (ops[j][2], ops[j][3]), j))
            # the temporary file cannot be created (name too long for the file system, directory not writable): a handled
            # error that leaves the destination alone, or - if the code falls back to another way of writing - still an
            # atomic one
            for j in [j for j in muts if ops[j][0][0] == "O" and TMP_RE.search(ops[j][0][1])][:1]:
                for e in ("ENAMETOOLONG", "EACCES"):
                    jobs.append(("error", s, dm, "%s:error=%s:when=%d" % (ops[j][2], e, ops[j][3]), j))
            if thorough:
                for j in [j for j in muts if ops[j][0][0] == "X"]:
                    jobs.append(("error", s, dm, "%s:error=EIO:when=%d" % (ops[j][2], ops[j][3]), j))
    if only is not None:
        # a replayed double injection ("error&&kill") is found again through its first half: the planned error run
        want = {(k, f["strategy"], f["dest"], (f.get("inject") or "").split("&&")[0] or None) for k, f in only}
        jobs = [jb for jb in jobs if (jb[0], jb[1], jb[2], jb[3]) in want]

    # ---- (b)+(d) crash sweep and error injection: real runs
    runs = list(pool.map(lambda jb: env.run(jb[1], jb[2], inject=jb[3]), jobs))
    mruns = model_eval(None, [(r["before"], [o[0] for o in r["trace"]["ops"]]) for r in runs])
    pool.shutdown()
    for jb, r, m in zip(jobs, runs, mruns):
        kind, s, dm, inject, j = jb
        sd = (s, dm)
        ctl = s.startswith("ctl-")
        op = opname(s, dm, kind) + " inject=" + inject
        stats[kind] += 1
        tr = r["trace"]
        new = dry[sd]["after"].get(DEST)
        dops = [o[0] for o in dry[sd]["trace"]["ops"]]
        got = [o[0] for o in tr["ops"]]
        if r["after"] != r["before"]:
            stats["nontrivial"] += 1
        if "final" not in m or tr["unsupported"]:
            findings.append(Finding("broken-tie", TIE, TIE_THEOREM, op, "modelled trace", "model=%s unsupported=%s" % (m.get("raw", "")[:200], tr["unsupported"][:3])))
            continue
        if kind == "crash":
            if multi[sd] and not tr["killed"] and r["rc"] == 0:
                stats["kill-not-reached(multi-thread)"] += 1
                continue
            exact = not multi[sd]
            # single-threaded scenarios: the completed calls must be exactly the dry-run prefix before call #j.
            # multi-threaded ones (a helper goroutine writes): the interleaving of the two threads' calls varies between
            # runs, so only the run's own trace is used (model state = real directory, shape of the trace, property).
            if not tr["killed"] or (exact and (norm(got) != norm(dops[:len(got)]) or len(got) != j)):
                findings.append(Finding("broken-tie", TIE, TIE_THEOREM, op, "process killed on entry of call #%s; completed calls = dry-run prefix" % j,
                                        "killed=%s rc=%s completed=%d calls %s" % (tr["killed"], r["rc"], len(got), "".join(t[0] for t in got)),
                                        "kill point not reproducible"))
                continue
            if not exact and not ctl and m.get("shape") != "1":
                findings.append(Finding("broken-tie", TIE, "Relic.Props.C13.trace_shape_sound", op, "atomicShape = true on the calls completed before the kill",
                                        "shape=%s calls %s" % (m.get("shape"), "".join(t[0] for t in got))))
            j = len(got)
            hit.setdefault(sd, set()).add(sum(1 for t in got if is_mutating(t)))
            branches["crash:%s:%s" % (dops[min(j, len(dops) - 1)][0], "tmp-visible" if leftovers(r["after"]) else "no-tmp")] += 1
        else:
            branches["error:%s:rc=%s:%s" % (inject.split(":")[1], r["rc"], "left" if leftovers(r["after"]) else "clean")] += 1
        # tie: the model state for the completed calls = the real directory
        if model_listing(m["final"]) != show(r["after"]):
            findings.append(Finding("broken-tie", TIE, TIE_THEOREM, op, model_listing(m["final"]), show(r["after"]),
                                    "model state after the completed calls differs from the real directory"))
            continue
        # the property itself on what the real process left
        bad = prop_violations(r["before"], r["after"], new)
        thm = "Relic.Props.C13.commit_atomic"
        if kind == "error":
            if r["rc"] == 2 and "goroutine" in r["stderr"] and not ctl:
                # the Go runtime aborted the process (panic / "all goroutines are asleep - deadlock!"): the error was not handled
                why = "deadlock" if "chan send" in r["stderr"] or "deadlock" in r["stderr"] else "panic"
                findings.append(Finding("counterexample", TIE, "Relic.Props.C13.abort_path_clean", op,
                                        "the injected error is returned to the caller and the temp file removed",
                                        "process aborted by the Go runtime (%s) instead of returning the error; directory: %s; %s"
                                        % (why, show(r["after"]), " ".join(r["stderr"].split())[-200:]), "unhandled-error:" + why))
                continue
            if r["rc"] not in (0, 3):
                findings.append(Finding("broken-tie", TIE, TIE_THEOREM, op, "handled error (exit 3) or success", "rc=%s %s" % (r["rc"], r["stderr"])))
                continue
            if leftovers(r["after"]):
                bad.append("temp-file-left-after-handled-error:" + ",".join(TMP_RE.sub("out.bin.tmp#", x) for x in leftovers(r["after"])))
                thm = "Relic.Props.C13.abort_path_clean"
            if r["rc"] == 0 and not bad and r["after"].get(DEST) != new:
                bad.append("success-reported-but-destination-not-new")
            if r["rc"] == 0 and not ctl and not bad and (m.get("shape") != "1" or m.get("bad", "-") != "-"):
                # the run got past the injected error by writing some other way: that way must be atomic too
                # search for the failing state: the same run, killed inside the second content write of the fallback
                wcalls = [t for t in tr["ops"] if t[0][0] in ("W", "P")]
                if len(wcalls) >= 2:
                    _, _, wname, wk = wcalls[1]
                    r2 = env.run(s, dm, inject=inject + "&&%s:signal=SIGKILL:when=%d" % (wname, wk))
                    bad2 = prop_violations(r2["before"], r2["after"], new)
                    if bad2:
                        findings.append(Finding("counterexample", TIE, "Relic.Props.C13.commit_atomic",
                                                op + "&&%s:signal=SIGKILL:when=%d" % (wname, wk),
                                                "dest in {old, new} at every instant, also on the path taken after the injected error",
                                                "%s; directory: %s" % (" ".join(bad2), show(r2["after"])),
                                                "killed inside the write that follows the injected error"))
                        continue
                findings.append(Finding("broken-tie", TIE, "Relic.Props.C13.trace_shape_sound", op,
                                        "atomicShape = true on the trace of the run that worked around the injected error",
                                        "shape=%s first-bad-prefix=%s calls %s" % (m.get("shape"), m.get("bad"), "".join(t[0] for t in got)),
                                        "after the injected error the output was written in a way that is not old-or-new at every instant"))
                continue
        if ctl:
            if bad:
                flagged_controls.add((sd, "real"))
            continue
        if bad:
            findings.append(Finding("counterexample", TIE, thm, op,
                                    "dest in {old %s, new %s}, present if it was, input unchanged, no temp file after a handled error"
                                    % (sig(OLD) if dm in ("exists", "symlink") else "input" if dm == "hardlink" else "absent", sig(new) if new is not None else "?"),
                                    "%s; directory: %s (rc=%s)" % (" ".join(bad), show(r["after"]), r["rc"]),
                                    "call #%d of the output phase (%s); completed calls: %s" % (j, " ".join(dops[min(j, len(dops) - 1)][:2]), "".join(t[0] for t in got))))
    # ---- negative controls: each non-atomic writer must be flagged by the model on its trace AND by a real kill
    ctl_ok = 0
    if only is None:
        for c in controls:
            sd = (c, "exists")
            if (sd, "model") in flagged_controls and (sd, "real") in flagged_controls:
                ctl_ok += 1
            else:
                findings.append(Finding("broken-tie", TIE, TIE_THEOREM, opname(c, "exists", "control"), "non-atomic control writer flagged by model and by kill sweep",
                                        "model=%s real=%s" % ((sd, "model") in flagged_controls, (sd, "real") in flagged_controls),
                                        "the check has lost its ability to see a violation"))
    unreached = {"%s/%s" % sd: sorted(boundaries[sd] - hit.get(sd, set())) for sd in boundaries
                 if only is None and boundaries[sd] - hit.get(sd, set())}
    for sd in boundaries:
        if only is None and not multi[sd] and boundaries[sd] - hit.get(sd, set()) and not any(f.op.startswith(opname(sd[0], sd[1], "crash")) or f.op.startswith(opname(sd[0], sd[1], "dry")) for f in findings):
            findings.append(Finding("broken-tie", TIE, TIE_THEOREM, opname(sd[0], sd[1], "sweep"), "every mutating call boundary killed once",
                                    "not reached: %s" % sorted(boundaries[sd] - hit.get(sd, set()))))
    ev = stats["dry"] + stats["crash"] + stats["error"]
    cov = {"evaluations": ev, "distinct_nontrivial": stats["nontrivial"] + stats["dry"], "rule": RULE,
           "samples": [x[:600] for x in samples[:2] + samples[len(samples) // 2:len(samples) // 2 + 1] + samples[-1:]] or ["(none)"],
           "op_kinds": {"dry-run traces": stats["dry"], "SIGKILL runs": stats["crash"], "errno-injection runs": stats["error"]},
           "model_branches": dict(branches.most_common(60)),
           "traces_validated_against_impl": ev,
           "kill_boundaries": {"%s/%s" % sd: len(b) for sd, b in boundaries.items()},
           "kill_boundaries_unreached(multi-threaded scenarios only)": unreached,
           "multi_threaded_scenarios": sorted("%s/%s" % sd for sd in multi if multi[sd]),
           "negative_controls_flagged": "%d/%d" % (ctl_ok, len(controls)) if only is None else "n/a (replay)",
           "scenarios": ["%s/%s" % sd for sd in scen]}
    return cov, findings, []

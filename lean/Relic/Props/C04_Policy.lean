/-
  Property C04 in POLICY (Open Policy Agent / bearer token) mode — `server.policyurl` is set.

  Theorems about `Relic.Model.AuthzPolicy`.  The policy server is a parameter `opa : PolicyPost → OpaReply`; every theorem
  quantifies over all of them.  `handlePolicy cfg url opa req` is the whole server (start-up, real-ip, routing,
  `PolicyAuth.Authenticate`, view); `serve` adds `authmodel.New`'s choice between the two authenticators.
  All statements rest on the case analysis `authenticated_case` (Relic.Proofs.AuthzPolicy.AuthCase).
-/
import Relic.Model.AuthzPolicy
import Relic.Proofs.AuthzPolicy
namespace Relic.Props.C04
open Relic Relic.Authz Relic.RealIP Relic.Policy Relic.Proofs.Authz Relic.Proofs.AuthzPolicy

/-! ### entitlement -/

/-- **C04 in policy mode, main statement.**  If `/sign` or `/keys/{k}` answers 2xx or makes any call into the token layer,
    then: the decision request for exactly this request (`mkPost`: its path, query, bearer token, presented certificates)
    was sent, the answer had a status below 300 and parsed, it says `allow`, and the key the requested name resolves to
    (one alias hop) is named in `allowed_keys` or has a role among `roles`; every token call went to that key's token. -/
theorem policy_sign_only_if_entitled (cfg : Config) (url : String) (opa : Opa) (req : PReq) (n : String)
    (hn : req.ep.keyName = some n)
    (hs : (handlePolicy cfg url opa req).out.is2xx = true ∨ (handlePolicy cfg url opa req).out.events ≠ []) :
    PolicyEntitledFor cfg url opa req n (handlePolicy cfg url opa req) := by
  cases hst : startCheck cfg with
  | some e => simp [handlePolicy, hst, Outcome.is2xx, Outcome.events] at hs
  | none =>
    rw [handlePolicy_auth url opa hst (keyName_not_public hn)] at hs ⊢
    have hc := authenticated_case cfg url opa req (ptransport cfg req).1
    generalize authenticated cfg url opa req (ptransport cfg req).1 = r at hc hs
    cases hc with
    | certErr _ _ => simp [unhandled, Outcome.is2xx, Outcome.events] at hs
    | noCred _ _ => simp [Outcome.is2xx, Outcome.events] at hs
    | fetchFail certs st _ _ _ h =>
      rcases h with rfl | rfl <;> simp [unhandled, Outcome.is2xx, Outcome.events] at hs
    | deny certs d _ _ _ _ =>
      rcases denyStatus_cases d.errors with ⟨h, _⟩ | ⟨h, _⟩ <;> simp [h, Outcome.is2xx, Outcome.events] at hs
    | allow certs d hpc _ hf ha =>
      obtain ⟨t, hr, hal, hev⟩ := viewWith_entitled hn hs
      exact ⟨certs, d, t, hpc, rfl, hf, ha, hr, (pallowed_iff d.user t).1 hal, hev⟩

/-- the converse, i.e. the **trust boundary**: relic adds no check of its own to the decision.  Whatever credential is
    presented (any non-empty bearer string, any certificate, recognised by the configuration or not), if the policy
    server answers 2xx with a parsable `allow: true` that names the resolved key (or one of its roles), a well-formed
    request reaches the token.  What a wrong or malicious policy answer can do is therefore everything the
    configuration's keys can do; this is outside the property. -/
theorem policy_decision_trusted (cfg : Config) (url : String) (opa : Opa) (req : PReq) (n : String) (kc : Key)
    (certs : List String) (d : Decision)
    (hst : startCheck cfg = none) (hn : req.ep.keyName = some n)
    (hw : ∀ m f s, req.ep = .sign m f s → m ≠ "" ∧ f = true ∧ s = true)
    (hg : getKey cfg n = .ok kc) (ht : tokenOpen cfg kc.token = true)
    (hpc : presentedCerts cfg req = .ok certs) (hcred : ¬ (bearerToken req.authz = "" ∧ certs = []))
    (hf : fetched opa (mkPost url req certs) = some d) (ha : d.allow = true)
    (hk : kc.name ∈ d.allowedKeys ∨ ∃ r, r ∈ kc.roles ∧ r ∈ d.roles) :
    (handlePolicy cfg url opa req).out.is2xx = true ∧ (handlePolicy cfg url opa req).out.events ≠ [] := by
  rw [handlePolicy_auth url opa hst (keyName_not_public hn)]
  have hal : pallowed d.user kc = true := (pallowed_iff d.user kc).2 hk
  have : authenticated cfg url opa req (ptransport cfg req).1 =
      { out := viewWith (pallowed d.user) cfg d.sub (ptransport cfg req).1 req.ep, post := some (mkPost url req certs) } := by
    unfold authenticated
    simp only [hpc, hcred, ↓reduceIte]
    obtain ⟨st, hop, hlt⟩ := (fetched_some_iff opa _ d).1 hf
    have : ¬ st ≥ 300 := by omega
    simp [hop, this, ha]
  rw [this]
  exact viewWith_granted hn hg hal ht hw

/-- the outcome depends on the policy server only through its answer to the one decision request of this request -/
theorem policy_decision_local (cfg : Config) (url : String) (opa opa' : Opa) (req : PReq)
    (h : ∀ certs, presentedCerts cfg req = .ok certs → opa (mkPost url req certs) = opa' (mkPost url req certs)) :
    handlePolicy cfg url opa req = handlePolicy cfg url opa' req := by
  unfold handlePolicy authenticated
  cases hpc : presentedCerts cfg req with
  | ok certs => simp only [h certs hpc]
  | err e => rfl
  | panic s => rfl
  | diverge => rfl

/-! ### failures of the policy fetch -/

/-- what counts as a failed fetch: `cli.Do` fails (connection refused, reset, time-out), or the status is 300 or above, or
    the body does not unmarshal (bad JSON, empty body, wrongly typed members).  Members that are merely *missing* are zero
    values: `allow` is then false and `policy_deny_never_grants` applies. -/
theorem policy_fetch_failures (opa : Opa) (p : PolicyPost) :
    fetched opa p = none ↔
      (∃ dl, opa p = .transport dl) ∨ (∃ st b, opa p = .http st b ∧ (st ≥ 300 ∨ b = .bad)) :=
  fetched_none_iff opa p

/-- **Fail closed.**  On an authenticated route, if the decision could not be fetched (any of the failures above), the
    answer is an error — 500, or 504 when the request's deadline passed, or 401 when the request carried no credential
    in the first place — with no token event, nothing listed, no authenticated user; never access. -/
theorem policy_fail_closed (cfg : Config) (url : String) (opa : Opa) (req : PReq)
    (hst : startCheck cfg = none) (hp : req.ep.isPublic = false)
    (hf : ∀ certs, presentedCerts cfg req = .ok certs → fetched opa (mkPost url req certs) = none) :
    PRefused (handlePolicy cfg url opa req).out ∧
    ∃ r, (handlePolicy cfg url opa req).out = .resp r ∧ r.events = [] ∧ r.keys = [] ∧ r.user = "" ∧
      (r.status = 401 ∨ r.status = 500 ∨ r.status = 504) := by
  rw [handlePolicy_auth url opa hst hp]
  have hc := authenticated_case cfg url opa req (ptransport cfg req).1
  generalize authenticated cfg url opa req (ptransport cfg req).1 = r at hc
  cases hc with
  | certErr _ _ => exact ⟨by simp [unhandled, PRefused], _, rfl, rfl, rfl, rfl, by simp⟩
  | noCred _ _ => exact ⟨by simp [PRefused], _, rfl, rfl, rfl, rfl, by simp⟩
  | fetchFail certs st _ _ _ h =>
    rcases h with rfl | rfl
    · exact ⟨by simp [unhandled, PRefused], _, rfl, rfl, rfl, rfl, by simp⟩
    · exact ⟨by simp [unhandled, PRefused], _, rfl, rfl, rfl, rfl, by simp⟩
  | deny certs d hpc _ hfd _ => rw [hf certs hpc] at hfd; cases hfd
  | allow certs d hpc _ hfd _ => rw [hf certs hpc] at hfd; cases hfd

/-- **No credentials.**  A request to an authenticated route without a bearer token (`Authorization` absent, not
    `Bearer …`, or `Bearer` followed by nothing) and without a certificate is answered 401 `token-required`, and the
    policy server is not even asked.  (500 if a trusted proxy's `Ssl-Client-Cert` does not decode.) -/
theorem policy_no_credentials_401 (cfg : Config) (url : String) (opa : Opa) (req : PReq)
    (hst : startCheck cfg = none) (hp : req.ep.isPublic = false) (hc : hasCredentials cfg req = false) :
    (handlePolicy cfg url opa req).post = none ∧
    ((handlePolicy cfg url opa req).out = .resp { status := 401, problem := "token-required", ip := (ptransport cfg req).1 } ∨
     ((handlePolicy cfg url opa req).out = unhandled 500 (ptransport cfg req).1 ∧ req.sslCert = .bad)) := by
  rw [handlePolicy_auth url opa hst hp]
  have hcase := authenticated_case cfg url opa req (ptransport cfg req).1
  generalize authenticated cfg url opa req (ptransport cfg req).1 = r at hcase
  unfold hasCredentials at hc
  simp only [ne_eq, Bool.or_eq_false_iff, decide_eq_false_iff_not, Decidable.not_not] at hc
  obtain ⟨htok, hcs⟩ := hc
  have hnil : ∀ certs, presentedCerts cfg req = .ok certs → certs = [] := by
    intro certs h
    rw [h] at hcs
    cases certs with
    | nil => rfl
    | cons a as => simp at hcs
  cases hcase with
  | certErr _ hb => exact ⟨rfl, Or.inr ⟨rfl, hb⟩⟩
  | noCred _ _ => exact ⟨rfl, Or.inl rfl⟩
  | fetchFail certs st hpc hn _ _ => exact absurd ⟨htok, hnil certs hpc⟩ hn
  | deny certs d hpc hn _ _ => exact absurd ⟨htok, hnil certs hpc⟩ hn
  | allow certs d hpc hn _ _ => exact absurd ⟨htok, hnil certs hpc⟩ hn

/-- the policy server is asked only about requests that carry a credential -/
theorem policy_asked_only_with_credentials (cfg : Config) (url : String) (opa : Opa) (req : PReq)
    (h : (handlePolicy cfg url opa req).post ≠ none) : hasCredentials cfg req = true := by
  cases hst : startCheck cfg with
  | some e => simp [handlePolicy, hst] at h
  | none =>
    cases hp : req.ep.isPublic with
    | true => simp [handlePolicy, hst, hp] at h
    | false =>
      cases hc : hasCredentials cfg req with
      | true => rfl
      | false => exact absurd (policy_no_credentials_401 cfg url opa req hst hp hc).1 h

/-! ### denial -/

/-- **A denial never grants anything.**  If the fetched decision has `allow: false` — whatever its `roles`,
    `allowed_keys`, `sub`, and whether `errors` is empty or not — the answer is 401 or 403 `token-authorization-failed`
    with exactly the decision's errors, no token event, nothing listed. -/
theorem policy_deny_never_grants (cfg : Config) (url : String) (opa : Opa) (req : PReq) (certs : List String) (d : Decision)
    (hst : startCheck cfg = none) (hp : req.ep.isPublic = false)
    (hpc : presentedCerts cfg req = .ok certs) (hcred : ¬ (bearerToken req.authz = "" ∧ certs = []))
    (hf : fetched opa (mkPost url req certs) = some d) (ha : d.allow = false) :
    handlePolicy cfg url opa req =
      { out := .resp { status := denyStatus d.errors, problem := "token-authorization-failed",
                       ip := (ptransport cfg req).1, user := d.sub },
        post := some (mkPost url req certs), errors := d.errors } ∧
    PRefused (handlePolicy cfg url opa req).out := by
  rw [handlePolicy_auth url opa hst hp]
  have hcase := authenticated_case cfg url opa req (ptransport cfg req).1
  generalize authenticated cfg url opa req (ptransport cfg req).1 = r at hcase
  cases hcase with
  | certErr h _ => exact absurd hpc (h certs)
  | noCred h1 h2 => rw [hpc] at h1; cases h1; exact absurd ⟨h2, rfl⟩ hcred
  | fetchFail certs' st h1 _ h3 _ => rw [hpc] at h1; cases h1; rw [hf] at h3; cases h3
  | deny certs' d' h1 _ h3 _ =>
    rw [hpc] at h1; cases h1; rw [hf] at h3; cases h3
    refine ⟨rfl, ?_⟩
    rcases denyStatus_cases d.errors with ⟨h, _⟩ | ⟨h, _⟩ <;> simp [PRefused, h]
  | allow certs' d' h1 _ h3 h4 => rw [hpc] at h1; cases h1; rw [hf] at h3; cases h3; rw [ha] at h4; cases h4

/-- **Status of a denial**: 401 iff one of the decision's errors is in `should401`, otherwise 403 (in particular for an
    empty list) -/
theorem policy_deny_status (es : List String) :
    (denyStatus es = 401 ↔ ∃ e, e ∈ es ∧ e ∈ should401) ∧ (denyStatus es = 403 ↔ ∀ e ∈ es, e ∉ should401) ∧
    (denyStatus es = 401 ∨ denyStatus es = 403) := by
  rcases denyStatus_cases es with ⟨h, e, he, hs⟩ | ⟨h, hn⟩
  · refine ⟨⟨fun _ => ⟨e, he, hs⟩, fun _ => h⟩, ⟨fun h' => by omega, fun h' => absurd hs (h' e he)⟩, Or.inl h⟩
  · refine ⟨⟨fun h' => by omega, fun ⟨e, he, hs⟩ => absurd hs (hn e he)⟩, ⟨fun _ => hn, fun _ => h⟩, Or.inr h⟩

/-! ### key listing -/

/-- **Key listing in policy mode.**  When the server started, no token is named "", `Keys` is a map, and every entry that
    `allowed_keys` names has a `token:`: the listing is exactly the sorted list of non-hidden names for which `/sign`
    would pass authorisation for this user. -/
theorem policy_list_exact (cfg : Config) (u : PUser) (hst : startCheck cfg = none) (hnt : "" ∉ cfg.tokens)
    (hak : namedHaveTokens cfg u = true) (hd : ∀ k ∈ cfg.keys, lookupKey cfg k.name = some k) :
    listKeysWith (pallowed u) cfg = specListWith (pallowed u) cfg ∧ (listKeysWith (pallowed u) cfg).Pairwise (· ≤ ·) ∧
    ∀ n, n ∈ listKeysWith (pallowed u) cfg ↔
      ∃ k ∈ cfg.keys, k.name = n ∧ hidden cfg k = false ∧ psignAuthorised (pallowed u) cfg n = true := by
  have hf : cfg.keys.filter (listedWith (pallowed u) cfg) =
      cfg.keys.filter (fun k => !hidden cfg k && psignAuthorised (pallowed u) cfg k.name) := by
    apply List.filter_congr
    intro k hk
    exact listedWith_eq_spec hst hnt hak hk (hd k hk)
  have heq : listKeysWith (pallowed u) cfg = specListWith (pallowed u) cfg := by
    unfold listKeysWith specListWith
    rw [hf]
  refine ⟨heq, sorted_sortStrings _, ?_⟩
  intro n
  rw [heq]
  unfold specListWith
  simp only [mem_sortStrings, List.mem_map, List.mem_filter, Bool.and_eq_true, Bool.not_eq_eq_eq_not, Bool.not_true]
  constructor
  · rintro ⟨k, ⟨hk, hh, hs⟩, rfl⟩
    exact ⟨k, hk, rfl, hh, hs⟩
  · rintro ⟨k, hk, rfl, hh, hs⟩
    exact ⟨k, ⟨hk, hh, hs⟩, rfl⟩

/-- why the hypothesis on `allowed_keys` is needed: an entry without `token:` (and without roles, so start-up accepts it)
    that the decision names is listed, but `/sign` refuses it -/
theorem policy_list_needs_tokens :
    let cfg : Config := { clients := [], keys := [{ name := "k", token := "", alias := "", roles := [], hide := false }],
                          tokens := ["t0"], proxiesOK := true, inNets := fun _ => false }
    let u : PUser := { sub := "alice", roles := [], allowedKeys := ["k"] }
    startCheck cfg = none ∧ listKeysWith (pallowed u) cfg = ["k"] ∧ psignAuthorised (pallowed u) cfg "k" = false := by
  refine ⟨by decide, by decide, by decide⟩

/-! ### the input sent to the policy -/

/-- **Faithful input.**  Whenever a decision request is sent, it goes to the configured URL, is wrapped as
    `{"input": …}` exactly when the URL contains `/v1/data`, and carries this request's path, query and bearer token,
    and the certificates the real-ip layer attributes to the caller: those of the TLS connection unless the request is
    proxied (direct peer in the trusted networks *and* relaying a forwarded-for hop) — in particular always for a peer
    outside the trusted networks, whatever headers it sends — and otherwise those of `Ssl-Client-Cert`.  The fingerprint
    is that of the first (leaf) certificate and the chain is written leaf last. -/
theorem policy_input_faithful (cfg : Config) (url : String) (opa : Opa) (req : PReq) (p : PolicyPost)
    (h : (handlePolicy cfg url opa req).post = some p) :
    p.dest = url ∧ p.wrapped = !usesDefault url ∧ p.input.path = pathOf req.ep ∧ p.input.query = queryOf req.ep ∧
    p.input.token = bearerToken req.authz ∧
    ∃ certs, presentedCerts cfg req = .ok certs ∧ p.input.fingerprint = certs.head?.getD "" ∧
      p.input.clientCert = certs.reverse ∧
      (hopTrusted cfg.inNets (stripPort req.remoteAddr) = false → certs = req.tls.names) ∧
      ((ptransport cfg req).2 = false → certs = req.tls.names) ∧
      ((ptransport cfg req).2 = true → (req.sslCert = .absent ∧ certs = []) ∨ ∃ c, req.sslCert = .certs c ∧ certs = c.names) := by
  have key : ∃ certs, presentedCerts cfg req = .ok certs ∧ p = mkPost url req certs := by
    cases hst : startCheck cfg with
    | some e => simp [handlePolicy, hst] at h
    | none =>
      cases hp : req.ep.isPublic with
      | true => simp [handlePolicy, hst, hp] at h
      | false =>
        rw [handlePolicy_auth url opa hst hp] at h
        have hcase := authenticated_case cfg url opa req (ptransport cfg req).1
        generalize authenticated cfg url opa req (ptransport cfg req).1 = r at hcase h
        cases hcase with
        | certErr _ _ => simp at h
        | noCred _ _ => simp at h
        | fetchFail certs st hpc _ _ _ => simp only [Option.some.injEq] at h; exact ⟨certs, hpc, h.symm⟩
        | deny certs d hpc _ _ _ => simp only [Option.some.injEq] at h; exact ⟨certs, hpc, h.symm⟩
        | allow certs d hpc _ _ _ => simp only [Option.some.injEq] at h; exact ⟨certs, hpc, h.symm⟩
  obtain ⟨certs, hpc, rfl⟩ := key
  refine ⟨rfl, rfl, rfl, rfl, rfl, certs, hpc, rfl, rfl, ?_, ?_, ?_⟩
  · intro hu
    have := ptransport_untrusted cfg req hu
    simp [presentedCerts, this, ppeerCerts] at hpc
    exact hpc.symm
  · intro hprox
    simp [presentedCerts, hprox, ppeerCerts] at hpc
    exact hpc.symm
  · intro hprox
    simp only [presentedCerts, hprox, ppeerCerts, Bool.not_true, Bool.false_eq_true, ↓reduceIte] at hpc
    cases hs : req.sslCert with
    | absent => simp [hs] at hpc; exact Or.inl ⟨rfl, hpc⟩
    | bad => simp [hs] at hpc
    | certs c => simp [hs] at hpc; exact Or.inr ⟨c, rfl, hpc.symm⟩

/-- **Untrusted headers in policy mode.**  If the direct peer is not a trusted proxy, the whole result — response, decision
    request sent, address recorded — is independent of `X-Forwarded-For` and `Ssl-Client-Cert`. -/
theorem policy_untrusted_headers_ignored (cfg : Config) (url : String) (opa : Opa) (req : PReq) (xff' : List String)
    (ssl' : PHdr) (hu : hopTrusted cfg.inNets (stripPort req.remoteAddr) = false) :
    handlePolicy cfg url opa { req with xff := xff', sslCert := ssl' } = handlePolicy cfg url opa req := by
  have tv : ∀ x s, ptransport cfg { req with xff := x, sslCert := s } = (stripPort (stripPort req.remoteAddr), false) :=
    fun x s => ptransport_untrusted cfg { req with xff := x, sslCert := s } hu
  have tv0 : ptransport cfg req = (stripPort (stripPort req.remoteAddr), false) := ptransport_untrusted cfg req hu
  have pc : ∀ x s, presentedCerts cfg { req with xff := x, sslCert := s } = .ok req.tls.names := by
    intro x s; simp [presentedCerts, tv, ppeerCerts]
  have pc0 : presentedCerts cfg req = .ok req.tls.names := by simp [presentedCerts, tv0, ppeerCerts]
  have ha : ∀ ip, authenticated cfg url opa { req with xff := xff', sslCert := ssl' } ip =
      authenticated cfg url opa req ip := by
    intro ip
    unfold authenticated
    rw [pc xff' ssl', pc0]
    rfl
  unfold handlePolicy
  rw [tv xff' ssl', tv0]
  simp only [ha]

/-- `bearerToken`: a non-empty token `t` is extracted exactly when the header is seven bytes that read `bearer ` in any
    letter case, followed by `t` (no trimming, no other scheme) -/
theorem policy_bearer_spec (a t : List Char) (ht : t ≠ []) :
    bearerTokenL a = t ↔ ∃ pfx, a = pfx ++ t ∧ pfx.length = 7 ∧ pfx.map lowerAscii = bearerPrefix :=
  bearerTokenL_spec a t ht

/-! ### which authenticator -/

/-- **Policy mode is exclusive.**  With a policy URL configured the `clients:` section grants nothing and denies nothing:
    it is read only by the start-up validation of `Config.Normalize`; any two client sections that both pass it give
    the same server.  (And `serve` is `handlePolicy`: `CertificateAuth` is not consulted at all.) -/
theorem policy_mode_exclusive (cfg : Config) (url : String) (opa : Opa) (req : PReq) (clients' : List Client)
    (hu : url ≠ "") (h1 : startCheck cfg = none) (h2 : startCheck { cfg with clients := clients' } = none) :
    serve cfg url opa req = [handlePolicy cfg url opa req] ∧
    serve { cfg with clients := clients' } url opa req = serve cfg url opa req := by
  have e1 : ∀ c : Config, serve c url opa req = [handlePolicy c url opa req] := by
    intro c; simp [serve, hu]
  refine ⟨e1 cfg, ?_⟩
  rw [e1, e1]
  unfold handlePolicy
  simp only [h1, h2]
  rfl

/-- without a policy URL the certificate authenticator is used: bearer tokens and the policy server play no role -/
theorem cert_mode_ignores_bearer (cfg : Config) (opa opa' : Opa) (req : PReq) (authz' : String) :
    serve cfg "" opa' { req with authz := authz' } = serve cfg "" opa req ∧
    ∀ r ∈ serve cfg "" opa req, r.post = none := by
  refine ⟨by simp [serve, PReq.toReq], ?_⟩
  intro r hr
  simp only [serve, ne_eq, not_true_eq_false, ↓reduceIte, List.mem_map] at hr
  obtain ⟨o, _, rfl⟩ := hr
  rfl

/-- the shape of the decision request: the bare input for the default decision, `{"input": …}` for a `/v1/data` URL -/
theorem policy_request_shape (url : String) (req : PReq) (certs : List String) :
    (mkPost url req certs).wrapped = isInfix v1data url.toList ∧ (mkPost url req certs).dest = url := by
  simp [mkPost, usesDefault]

/-- in policy mode both modes' views coincide: certificate mode is the instance `Allowed = role intersection` -/
theorem views_shared (cfg : Config) (c : Client) (user ip : String) (ep : Endpoint) :
    view true cfg c user ip ep = viewWith (allowed c) cfg user ip ep ∧ listKeys cfg c = listKeysWith (allowed c) cfg :=
  ⟨view_eq_viewWith cfg c user ip ep, rfl⟩

/-- policy mode never panics (tree with fix-F2) -/
theorem policy_no_panic (cfg : Config) (url : String) (opa : Opa) (req : PReq) :
    (handlePolicy cfg url opa req).out.isPanic = false := by
  cases hst : startCheck cfg with
  | some e => simp [handlePolicy, hst, Outcome.isPanic]
  | none =>
    cases hp : req.ep.isPublic with
    | true => simp [handlePolicy, hst, hp, Outcome.isPanic]
    | false =>
      rw [handlePolicy_auth url opa hst hp]
      have hcase := authenticated_case cfg url opa req (ptransport cfg req).1
      generalize authenticated cfg url opa req (ptransport cfg req).1 = r at hcase
      cases hcase with
      | certErr _ _ => rfl
      | noCred _ _ => rfl
      | fetchFail _ _ _ _ _ _ => rfl
      | deny _ _ _ _ _ _ => rfl
      | allow _ d _ _ _ _ => exact viewWith_no_panic ..

/-! ### non-vacuity -/

/-- keys `k1` (roles r0, r1), alias `a` of `k1`, `norole` (token, no roles), a fingerprint client L1; 10.0.0.1 trusted -/
def pexCfg : Config :=
  { clients := [{ key := "L1", valid64 := true, nick := "n1", roles := ["r0"], ca := none }],
    keys := [{ name := "k1", token := "t0", alias := "", roles := ["r0", "r1"], hide := false },
             { name := "a", token := "", alias := "k1", roles := [], hide := false },
             { name := "h", token := "t0", alias := "", roles := ["r0"], hide := true },
             { name := "k2", token := "t1", alias := "", roles := ["r2"], hide := false }],
    tokens := ["t0", "t1"], proxiesOK := true, inNets := fun a => a == "10.0.0.1" }

def pexReq (authz : String) (ep : Endpoint) : PReq :=
  { remoteAddr := "1.2.3.4:999", tls := { names := [] }, xff := ["6.6.6.6"],
    sslCert := .certs { names := ["L1", "I0"] }, authz, ep }

def pexUrl : String := "http://opa/v1/data/relic/authz"

/-- a policy server that allows `alice` the key `k1` by name, for any request with token `tokA` -/
def pexOpa : Opa := fun p =>
  if p.input.token = "tokA" then .http 200 (.dec { allow := true, sub := "alice", allowedKeys := ["k1"] })
  else .http 200 (.dec { errors := ["token is expired"], roles := ["r0", "r1", "r2"], allowedKeys := ["k1", "k2"] })

/-- premises of `policy_sign_only_if_entitled` / `policy_decision_trusted`: the alias `a` resolves to `k1`, which the
    decision names; the request is wrapped for the `/v1/data` URL and carries the TLS-level view (no certificate: the
    peer is not a trusted proxy, so `Ssl-Client-Cert` is ignored) -/
example : handlePolicy pexCfg pexUrl pexOpa (pexReq "bEARER tokA" (.sign "a" true true)) =
    { out := .resp { status := 200, ip := "1.2.3.4", user := "alice",
                     events := [⟨"getkey", "t0", "k1"⟩, ⟨"sign", "t0", "k1"⟩] },
      post := some { dest := pexUrl, wrapped := true,
                     input := { path := "/sign", query := [("filename", "a.ps1"), ("key", "a"), ("ps-style", ".ps1"), ("sigtype", "ps")],
                                token := "tokA", fingerprint := "", clientCert := [] } } } := by decide

/-- premises of `policy_deny_never_grants`: `allow: false` with roles and keys filled in, an error in `should401` -/
example : handlePolicy pexCfg pexUrl pexOpa (pexReq "Bearer other" (.sign "k1" true true)) =
    { out := .resp { status := 401, problem := "token-authorization-failed", ip := "1.2.3.4" },
      post := some (mkPost pexUrl (pexReq "Bearer other" (.sign "k1" true true)) []),
      errors := ["token is expired"] } := by decide

/-- the same denial with an empty error list: 403 -/
example : (handlePolicy pexCfg pexUrl
      (fun _ => .http 200 (.dec { roles := ["r0"], allowedKeys := ["k1"] })) (pexReq "Bearer x" (.getKey "k1"))).out =
    .resp { status := 403, problem := "token-authorization-failed", ip := "1.2.3.4" } := by decide

/-- premises of `policy_fail_closed`: status 500 with a body that says allow; unparsable body; transport failure -/
example : (handlePolicy pexCfg pexUrl (fun _ => .http 500 (.dec { allow := true, allowedKeys := ["k1"] }))
      (pexReq "Bearer tokA" (.sign "k1" true true))).out = unhandled 500 "1.2.3.4" ∧
    (handlePolicy pexCfg pexUrl (fun _ => .http 200 .bad) (pexReq "Bearer tokA" (.sign "k1" true true))).out = unhandled 500 "1.2.3.4" ∧
    (handlePolicy pexCfg pexUrl (fun _ => .transport true) (pexReq "Bearer tokA" .listKeys)).out = unhandled 504 "1.2.3.4" := by
  refine ⟨by decide, by decide, by decide⟩

/-- premise of `policy_no_credentials_401`: `Bearer ` followed by nothing, no TLS certificate, header from an untrusted peer -/
example : hasCredentials pexCfg (pexReq "Bearer " .home) = false ∧
    handlePolicy pexCfg pexUrl pexOpa (pexReq "Bearer " .home) =
      { out := .resp { status := 401, problem := "token-required", ip := "1.2.3.4" } } := by
  refine ⟨by decide, by decide⟩

/-- `policy_input_faithful`, proxied case: from the trusted proxy 10.0.0.1 the forwarded certificate chain is what the
    policy sees (leaf last), with the leaf's fingerprint; no bearer token is needed then -/
example : (handlePolicy pexCfg "http://opa" pexOpa { pexReq "" .home with remoteAddr := "10.0.0.1:7" }).post =
    some { dest := "http://opa", wrapped := false,
           input := { path := "/", query := [], token := "", fingerprint := "L1", clientCert := ["I0", "L1"] } } := by decide

/-- premises of `policy_list_exact`: the alias is listed under its own name because the decision names its target -/
example : startCheck pexCfg = none ∧ "" ∉ pexCfg.tokens ∧
    namedHaveTokens pexCfg { sub := "alice", roles := ["r2"], allowedKeys := ["k1", "h"] } = true ∧
    (∀ k ∈ pexCfg.keys, lookupKey pexCfg k.name = some k) ∧
    listKeysWith (pallowed { sub := "alice", roles := ["r2"], allowedKeys := ["k1", "h"] }) pexCfg = ["a", "k1", "k2"] := by
  refine ⟨by decide, by decide, by decide, by decide, by decide⟩

/-- `policy_mode_exclusive`: the recognised client certificate L1 (role r0, which `k1` carries) gets nothing in policy
    mode when the policy denies, and everything in certificate mode -/
example : (serve pexCfg pexUrl (fun _ => .http 200 (.dec {}))
      { pexReq "" (.getKey "k1") with tls := { names := ["L1"] } }).map (·.out) =
      [.resp { status := 403, problem := "token-authorization-failed", ip := "1.2.3.4" }] ∧
    (serve pexCfg "" (fun _ => .http 200 (.dec {}))
      { pexReq "" (.getKey "k1") with tls := { names := ["L1"] } }).map (·.out) =
      [.resp { status := 200, ip := "1.2.3.4", user := "n1", events := [⟨"getkey", "t0", "k1"⟩] }] := by
  refine ⟨by decide, by decide⟩

/-- `policy_bearer_spec` / `policy_request_shape` -/
example : bearerToken "BeArEr  x y" = " x y" ∧ bearerToken "Bearer" = "" ∧ bearerToken "Basic abc" = "" ∧
    bearerToken "Bearertok" = "" ∧ usesDefault "http://opa/" = true ∧ usesDefault "http://opa/v1/datax" = false ∧
    usesDefault "http://opa/V1/DATA" = true := by
  refine ⟨by decide, by decide, by decide, by decide, by decide, by decide, by decide⟩

end Relic.Props.C04

/-
  C11 — Malformed input yields an error, never a crash.   DEB part: the panic sites of `signdeb.Sign` / `signdeb.Verify`
  and of the `ar` reader under them, characterised on the model `Relic.Model.Deb`.
-/
import Relic.Props.C01_Deb
namespace Relic.Props.C11
open Relic Relic.Deb

/-- **deb_sign_panic_iff.** `Sign` panics exactly when (a) the first member on which its loop body fails is a digested member
    (cleaned name not `_gpg…`) with a negative size field (`ar.Reader.Read` slices `b[0:nb]`), or (b) no member fails and the walk
    stops at a header whose mode field has fewer than three significant bytes (`ar.Reader.octal` slices `b[3:i+1]`). -/
theorem deb_sign_panic_iff (H1 H2 cs ctl) (mt signer date role f : Bytes) :
    (∃ s, sign H1 H2 cs ctl mt signer date role f = .panic s) ↔
      signFail ctl (entries f).1 = some .read ∨ (signFail ctl (entries f).1 = none ∧ (entries f).2 = .octal) := by
  unfold sign
  simp only []
  generalize signFail ctl (entries f).1 = sf
  generalize (entries f).2 = st
  cases sf with
  | some x => cases x <;> simp
  | none =>
    cases st <;> simp
    split <;> simp

/-- **deb_verify_panic_iff.** The walk of `Verify` (digests on) panics exactly when some member has a negative size field
    (every member is read) or the walk stops at a header whose mode field has fewer than three significant bytes.
    (Per-role: `checkSig` panics on a validly signed line of ≥ 76 bytes with fewer than four fields — `checkLines`.) -/
theorem deb_verify_panic_iff (H1 H2 : Bytes → Bytes) (pgp : Bytes → Option Bytes) (f : Bytes) :
    (∃ s, verify H1 H2 pgp f = .panic s) ↔ verifyFail (entries f).1 = true ∨ (entries f).2 = .octal := by
  unfold verify
  simp only []
  generalize verifyFail (entries f).1 = vf
  generalize (entries f).2 = st
  cases vf
  · cases st <;> simp
    split <;> simp
  · simp

/-- neither function loops: the reader consumes at least 60 bytes per member -/
theorem deb_no_diverge (H1 H2 cs ctl) (pgp : Bytes → Option Bytes) (mt signer date role f : Bytes) :
    sign H1 H2 cs ctl mt signer date role f ≠ .diverge ∧ verify H1 H2 pgp f ≠ .diverge := by
  have hnf : (entries f).2 ≠ .fuel := parse_no_fuel _ _ (by simp [List.length_drop]; omega)
  constructor
  · unfold sign
    simp only []
    generalize signFail ctl (entries f).1 = sf
    revert hnf
    generalize (entries f).2 = st
    intro hnf
    cases sf with
    | some x => cases x <;> simp
    | none =>
      cases st <;> simp
      · split <;> simp
      · exact hnf rfl
  · unfold verify
    simp only []
    generalize verifyFail (entries f).1 = vf
    revert hnf
    generalize (entries f).2 = st
    intro hnf
    cases vf
    · cases st <;> simp
      · split <;> simp
      · exact hnf rfl
    · simp

/-- `ext := name[11:]` cannot panic: the slice is taken only under `strings.HasPrefix(name, "control.tar")` -/
theorem deb_ctl_ext_in_range (n : Bytes) (h : isCtlName n = true) : 11 ≤ n.length := by
  have := C01.isPrefix_eq ctlPrefix n h
  rw [this]
  simp [ctlPrefix]

/-- `role := hdr.Name[4:]` in `Verify` cannot panic either -/
theorem deb_role_slice_in_range (n : Bytes) (h : isGpgName n = true) : 4 ≤ n.length := by
  have := C01.isPrefix_eq gpg n h
  rw [this]
  simp [gpg]

/-- `patchOffset == 0` is used for "no old signature found": a found member never has offset 0 (the reader starts at 8) -/
theorem deb_patch_offset_pos (role : Bytes) (es : List Entry) (off : Nat) (len : Int) (h : sigSlot role 8 es = some (off, len)) :
    8 ≤ off := by
  obtain ⟨_, _, _, _, _, _, h4, _⟩ := sigSlot_some role es 8 off len h
  omega

def hdrShortMode : Bytes :=
  [120, 32, 32, 32, 32, 32, 32, 32, 32, 32, 32, 32, 32, 32, 32, 32, 49, 32, 32, 32, 32, 32, 32, 32, 32, 32, 32, 32, 48, 32, 32, 32, 32, 32,
   48, 32, 32, 32, 32, 32, 54, 52, 32, 32, 32, 32, 32, 32, 48, 32, 32, 32, 32, 32, 32, 32, 32, 32, 96, 10]

def hdrNegSize : Bytes :=
  [120, 32, 32, 32, 32, 32, 32, 32, 32, 32, 32, 32, 32, 32, 32, 32, 49, 32, 32, 32, 32, 32, 32, 32, 32, 32, 32, 32, 48, 32, 32, 32, 32, 32,
   48, 32, 32, 32, 32, 32, 49, 48, 48, 54, 52, 52, 32, 32, 45, 49, 32, 32, 32, 32, 32, 32, 32, 32, 96, 10]

set_option maxRecDepth 100000 in
/-- both panic sites are reachable with 68 bytes: mode field "64", size field "-1" (replayed: corpus/C01/deb-panics.ops) -/
theorem deb_panics_reachable :
    verify (fun _ => []) (fun _ => []) (fun _ => none) (List.replicate 8 0 ++ hdrShortMode) = .panic "ar.octal" ∧
    verify (fun _ => []) (fun _ => []) (fun _ => none) (List.replicate 8 0 ++ hdrNegSize) = .panic "ar.Read" ∧
    sign (fun _ => []) (fun _ => []) (fun _ => []) (fun _ _ => true) [] [] [] [] (List.replicate 8 0 ++ hdrNegSize) = .panic "ar.Read" := by
  decide

end Relic.Props.C11

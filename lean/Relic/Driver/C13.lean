/- line-protocol handler for C13 (file-system traces)

  C13 trace <dest> <input> <ninit> {<path> <hex>}^ninit <op tokens …>
     op tokens:  O <path> <fd> <cet>   openat, c/e/t = 0|1 for O_CREAT / O_EXCL / O_TRUNC
                 W <fd> <hex>          write            P <fd> <off> <hex>   pwrite64
                 C <in> <out> <n>      copy_file_range / sendfile (n = result)
                 T <fd> <n>            ftruncate        M <fd> <mode>        fchmod
                 R <fd> <n>            read (n = result) L <fd> <res>        lseek (res = result)
                 X <fd>                close            U <path>             unlink
                 N <a> <b>             rename
  answer: ok shape=<0|1> bad=<k|-> n=<#ops> dest=<one letter per prefix 0..n> final=<name>:<len>:<adler32>:<crc32>,…
     letters: o = old content, n = final content, b = both (old = final), x = missing, t = anything else
-/
import Relic.Model.FS
namespace Relic.Driver.C13
open Relic Relic.FS

/-- tail-recursive hex decoder (traces carry whole file contents) -/
def unhexLoop : List Char → Bytes → Option Bytes
  | [], acc => some acc.reverse
  | [_], _ => none
  | a :: b :: rest, acc =>
    match hexVal a, hexVal b with
    | some x, some y => unhexLoop rest (UInt8.ofNat (x * 16 + y) :: acc)
    | _, _ => none

def unhex (s : String) : Option Bytes :=
  if s = "-" then some [] else unhexLoop s.toList []

/-- zlib's Adler-32 and CRC-32 (python: `zlib.adler32`, `zlib.crc32`); only used to print and compare file contents -/
def adler32 (b : Bytes) : Nat :=
  let r := b.foldl (fun (p : Nat × Nat) x => let a := (p.1 + x.toNat) % 65521; (a, (p.2 + a) % 65521)) (1, 0)
  r.2 * 65536 + r.1

def crcByte (c : UInt32) (x : UInt8) : UInt32 :=
  let step := fun (c : UInt32) => if c &&& 1 = 1 then (c >>> 1) ^^^ 0xEDB88320 else c >>> 1
  step (step (step (step (step (step (step (step (c ^^^ x.toUInt32))))))))

def crc32 (b : Bytes) : UInt32 := (b.foldl crcByte 0xFFFFFFFF) ^^^ 0xFFFFFFFF

def parseInit : Nat → List String → Option (List (String × Bytes) × List String)
  | 0, rest => some ([], rest)
  | n + 1, p :: h :: rest => do
    let b ← unhex h
    let (l, r) ← parseInit n rest
    pure ((p, b) :: l, r)
  | _, _ => none

def flag (c : Char) : Bool := c = '1'

def parseOps (toks : List String) (acc : List Op) : Option (List Op) :=
  match toks with
  | [] => some acc.reverse
  | "O" :: p :: fd :: fl :: rest =>
    match fd.toNat?, fl.toList with
    | some fd, [c, e, t] => parseOps rest (.openF p fd (flag c) (flag e) (flag t) :: acc)
    | _, _ => none
  | "W" :: fd :: h :: rest =>
    match fd.toNat?, unhex h with
    | some fd, some b => parseOps rest (.write fd b :: acc)
    | _, _ => none
  | "P" :: fd :: off :: h :: rest =>
    match fd.toNat?, off.toNat?, unhex h with
    | some fd, some off, some b => parseOps rest (.pwrite fd off b :: acc)
    | _, _, _ => none
  | "C" :: a :: b :: n :: rest =>
    match a.toNat?, b.toNat?, n.toNat? with
    | some a, some b, some n => parseOps rest (.copy a b n :: acc)
    | _, _, _ => none
  | "T" :: fd :: n :: rest =>
    match fd.toNat?, n.toNat? with
    | some fd, some n => parseOps rest (.ftruncate fd n :: acc)
    | _, _ => none
  | "M" :: fd :: n :: rest =>
    match fd.toNat?, n.toNat? with
    | some fd, some n => parseOps rest (.fchmod fd n :: acc)
    | _, _ => none
  | "R" :: fd :: n :: rest =>
    match fd.toNat?, n.toNat? with
    | some fd, some n => parseOps rest (.read fd n :: acc)
    | _, _ => none
  | "L" :: fd :: n :: rest =>
    match fd.toNat?, n.toNat? with
    | some fd, some n => parseOps rest (.lseek fd n :: acc)
    | _, _ => none
  | "X" :: fd :: rest =>
    match fd.toNat? with
    | some fd => parseOps rest (.close fd :: acc)
    | none => none
  | "U" :: p :: rest => parseOps rest (.unlink p :: acc)
  | "N" :: a :: b :: rest => parseOps rest (.rename a b :: acc)
  | _ => none

def opPaths : Op → List String
  | .openF p _ _ _ _ => [p]
  | .unlink p => [p]
  | .rename a b => [a, b]
  | _ => []

def letter (dest : String) (s0 s sfin : State) : Char :=
  let c := lookup s dest
  let o := decide (c = lookup s0 dest)
  let n := decide (c = lookup sfin dest)
  if o && n then 'b' else if o then 'o' else if n then 'n' else if c.isNone then 'x' else 't'

def letters (dest : String) (s0 sfin : State) : List Op → State → List Char → List Char
  | [], s, acc => (letter dest s0 s sfin :: acc).reverse
  | op :: rest, s, acc => letters dest s0 sfin rest (step s op) (letter dest s0 s sfin :: acc)

def listing (s : State) (paths : List String) : String :=
  let ents := paths.eraseDups.filterMap fun p =>
    match lookup s p with
    | some c => some s!"{p}:{c.length}:{adler32 c}:{crc32 c}"
    | none => none
  if ents.isEmpty then "-" else ",".intercalate ents

def handle : List String → String
  | "trace" :: dest :: input :: n :: rest =>
    match n.toNat? with
    | none => "bad-op"
    | some n =>
      match parseInit n rest with
      | none => "bad-op"
      | some (init, toks) =>
        match parseOps toks [] with
        | none => "bad-op"
        | some tr =>
          let s0 := mkState init
          let sfin := run tr s0
          let shape := atomicShape dest input tr
          let bad := firstBad dest input s0 sfin tr s0 0
          let ls := String.ofList (letters dest s0 sfin tr s0 [])
          let paths := init.map (·.1) ++ tr.flatMap opPaths
          let badS := match bad with | some k => toString k | none => "-"
          s!"ok shape={if shape then 1 else 0} bad={badS} n={tr.length} dest={ls} final={listing sfin paths}"
  | _ => "bad-op"

end Relic.Driver.C13

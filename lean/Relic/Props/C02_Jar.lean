/-
  C02 fragment — JAR: what relic's verifier does and does not notice (model Relic.Model.Jar of lib/signjar/verify.go).
-/
import Relic.Proofs.Jar
namespace Relic.Props.C02
open Relic Relic.Jar

theorem verifyFiles_congr (algs : Algs) (l1 l2 : Bytes → Option Bytes) : ∀ (fs : List (Bytes × Hdr)),
    (∀ kv ∈ fs, l1 kv.1 = l2 kv.1) → verifyFiles algs l1 fs = verifyFiles algs l2 fs
  | [], _ => rfl
  | (name, keys) :: rest, h => by
    have h1 : l1 name = l2 name := h (name, keys) (by simp)
    have ih := verifyFiles_congr algs l1 l2 rest (fun kv hkv => h kv (by simp [hkv]))
    unfold verifyFiles
    rw [h1, ih]

theorem collect_append_other (ms : List Member) (x : Member) (cls : Nat) (h : (classify x.name).1 ≠ cls) :
    collect (ms ++ [x]) cls = collect ms cls := by
  unfold collect
  rw [List.foldl_append]
  simp [h]

theorem lastMember_append_other (ms : List Member) (x : Member) (n : Bytes) (h : x.name ≠ n) :
    lastMember (ms ++ [x]) n = lastMember ms n := by
  unfold lastMember
  simp [List.reverse_append, List.find?_cons, h]

/-- **jar_unlisted_member_accepted** (F18, model level).  `signjar.Verify` iterates over the *manifest's* sections, not
    over the archive's members: for every archive `ms` and every member `x` that is not one of the files `Verify`
    classifies (manifest, .SF, signature block) and whose name the manifest does not list, the verification result
    of the archive with `x` added is the result without it – whatever `x` contains.  This is the negation of the
    "insert a member" clause of C02 for JAR; the witness is replayed on the real code by the `signx … add:` ops
    (known finding F18). -/
theorem jar_unlisted_member_accepted (algs : Algs) (cmsOk : Bytes → Bytes → Bool) (skip : Bool)
    (ms : List Member) (x : Member)
    (hcls : (classify x.name).1 = 0)
    (hunl : ∀ manifest fm, (collect ms 1).lookup [] = some manifest → parseManifestStrict manifest = .ok fm →
      ∀ kv ∈ fm.files, kv.1 ≠ x.name) :
    verify algs cmsOk skip (ms ++ [x]) = verify algs cmsOk skip ms := by
  unfold verify
  rw [collect_append_other ms x 1 (by omega), collect_append_other ms x 2 (by omega), collect_append_other ms x 3 (by omega)]
  cases hm : (collect ms 1).lookup [] with
  | none => rfl
  | some manifest =>
    simp only
    split
    · rfl
    · split
      · cases skip
        · simp only [Bool.false_eq_true, ↓reduceIte]
          unfold verifyManifest
          cases hp : parseManifestStrict manifest with
          | ok fm =>
            simp only
            apply verifyFiles_congr
            intro kv hkv
            exact lastMember_append_other ms x kv.1 (fun e => hunl manifest fm hm hp kv hkv e.symm)
          | err e => rfl
          | panic p => rfl
          | diverge => rfl
        · rfl
      · rfl

/-- non-vacuity: an archive whose manifest lists `a` only, and an extra member `evil.class` -/
example : (classify (asc "evil.class")).1 = 0 := by decide
example : (classify (asc "META-INF/services/x")).1 = 0 := by decide
example : (classify (asc "META-INF/RELIC.SF")).1 = 2 := by decide
/-- lower-case names are signature files for the verifier (but `keepFile` keeps them: finding F33) -/
example : (classify (asc "META-INF/old.sf")).1 = 2 ∧ keepFile (asc "META-INF/old.sf") = true := by decide

/-- **jar_listed_member_protected.** Conversely, for a member the manifest *does* list (without `Magic`), the loop
    compares every `…-Digest` attribute of its section with the digest of the member's content as found in the
    archive: a section whose digests do not all match makes `verifyFiles` fail. -/
theorem jar_listed_member_protected (algs : Algs) (lookup : Bytes → Option Bytes) (name : Bytes) (keys : Hdr)
    (rest : List (Bytes × Hdr)) (content : Bytes) (e : String)
    (hmagic : (hget keys kMagic).isEmpty = true) (hl : lookup name = some content)
    (hbad : hashFile algs keys content [] = .err e) :
    verifyFiles algs lookup ((name, keys) :: rest) = .err e := by
  unfold verifyFiles
  simp [hmagic, hl, hbad]

example : hashFile (fun n => if n == asc "sha256" then some (fun _ => asc "GOOD") else none)
    [(asc "Sha-256-Digest", asc "BAD")] [1, 2, 3] [] = .err "mismatch" := by decide

/-- **jar_manifest_append_rejected.**  When the signature file carries a whole-manifest digest (`…-Digest-Manifest`, i.e. it
    was not made with `--sections-only`) and that digest does not match the manifest found in the archive, `verifySigFile`
    fails; it does *not* fall back to the per-section digests (only the absence of every whole-manifest digest does).  So
    appending a section for a new member to a signed manifest is noticed.  (A seeded change made the mismatch fall through
    to the section loop; the `signx … mfadd:` ops replay it on the real code.) -/
theorem jar_manifest_append_rejected (algs : Algs) (sigfile manifest : Bytes) (sf : FilesMap)
    (hp : parseManifestStrict sigfile = .ok sf)
    (hbad : hashFile algs sf.main manifest (asc "-Manifest") = .err "mismatch") :
    verifySigFile algs sigfile manifest = .err "mismatch" := by
  unfold verifySigFile
  simp [hp, hbad]

/-- what "does not match" means: every whole-manifest digest names a known algorithm, there is at least one, and not all
    of them equal the digest of the manifest in the archive -/
theorem hashFile_mismatch (algs : Algs) (keys : Hdr) (content suffix : Bytes)
    (hknown : (keys.filter (fun kv => (asc "-Digest" ++ suffix).isSuffixOf kv.1)).any
        (fun kv => (algs (normalName (toUpper (kv.1.take (kv.1.length - (asc "-Digest" ++ suffix).length))))).isNone) = false)
    (hne : (keys.filter (fun kv => (asc "-Digest" ++ suffix).isSuffixOf kv.1)).isEmpty = false)
    (hbad : (keys.filter (fun kv => (asc "-Digest" ++ suffix).isSuffixOf kv.1)).all
        (fun kv => match algs (normalName (toUpper (kv.1.take (kv.1.length - (asc "-Digest" ++ suffix).length)))) with
          | some h => h content == kv.2
          | none => false) = false) :
    hashFile algs keys content suffix = .err "mismatch" := by
  unfold hashFile
  dsimp only
  rw [hknown, hne]
  simp only [Bool.false_eq_true, ↓reduceIte]
  split
  · next h => exact absurd (h.symm.trans hbad) (by decide)
  · rfl

/-- non-vacuity: a signature file with a stale whole-manifest digest -/
example : verifySigFile (fun n => if n == asc "sha256" then some (fun c => if c == asc "M\r\n\r\n" then asc "OLD" else asc "NEW") else none)
    (asc "Signature-Version: 1.0\r\nSHA-256-Digest-Manifest: OLD\r\n\r\n") (asc "M\r\n\r\nName: x\r\n\r\n") = .err "mismatch" := by
  decide

end Relic.Props.C02

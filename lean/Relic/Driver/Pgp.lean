/- line-protocol handlers for the OpenPGP model (lib/pgptools; used by C01, C03, C05, C08, C11) -/
import Relic.Model.Pgp
import Relic.Model.PgpDetached
import Relic.Spec.OpenPgp
namespace Relic.Driver.Pgp
open Relic Relic.Pgp

def showRes {α} (r : Res α) (f : α → String) : String :=
  match r with
  | .ok a => f a
  | .err e => s!"err {e}"
  | .panic p => s!"panic {p}"
  | .diverge => "diverge"

/-- byte-string descriptor: parts joined by `+`; a part is hex, `rep:<n>:<byte hex>` (n copies) or `seq:<n>:<start>`
    (bytes start, start+7, start+14, … mod 256 with the line feed 0x0a replaced by 0x0b) -/
def part (s : String) : Option Bytes :=
  match s.splitOn ":" with
  | ["rep", n, b] =>
    match n.toNat?, fromHex b with
    | some n, some [x] => some (List.replicate n x)
    | _, _ => none
  | ["seq", n, st] =>
    match n.toNat?, st.toNat? with
    | some n, some st => some ((List.range n).map fun i => let v := (st + 7 * i) % 256; UInt8.ofNat (if v = 10 then 11 else v))
    | _, _ => none
  | [h] => fromHex h
  | _ => none

def body (s : String) : Option Bytes :=
  (s.splitOn "+").foldr (fun p acc => match part p, acc with
    | some a, some b => some (a ++ b)
    | _, _ => none) (some [])

/-- RFC 4880 §9.4 hash algorithm ids (and the names of the `Hash:` armor header) -/
def hashId : String → Option (UInt8 × String)
  | "sha1" => some (2, "SHA1")
  | "sha256" => some (8, "SHA256")
  | "sha384" => some (9, "SHA384")
  | "sha512" => some (10, "SHA512")
  | "sha224" => some (11, "SHA224")
  | _ => none

def showPackets (ps : List Spec.OpenPgp.Packet) : String :=
  " ".intercalate (ps.map fun p => s!"{p.tag}:{p.body.length}")

def handle : List String → String
  | ["hdr", pt, n] =>
    match pt.toNat?, n.toNat? with
    | some pt, some n => s!"ok {toHex (serializeHeader pt n)}"
    | _, _ => "bad-op"
  | ["lit", b, fn] =>
    match body b, fromHex fn with
    | some b, some fn => showRes (serializeLiteral b fn) fun o => s!"ok {toHex o}"
    | _, _ => "bad-op"
  | ["inline", mode, b, fn, h, _armor] =>
    if h = "sha1" then "err hash" else      -- refused by the library's signer (policy), before relic's code runs
    match body b, fromHex fn, hashId h with
    | some b, some fn, some (hid, _) =>
      let st : UInt8 := if mode = "text" then 1 else 0
      -- key id printed as zero (the harness checks it against the key and blanks it); signature = opaque tail
      showRes (mergeSignature ⟨st, hid, 1, 0⟩ [] b fn) fun o => s!"ok {toHex o} sig=tail verify=ok"
    | _, _, _ => "bad-op"
  | ["clearsign", t, h] =>
    if h = "sha1" then "err hash" else      -- clearsign.Encode knows no name for SHA-1
    match body t, hashId h with
    | some t, some (_, name) =>
      s!"ok {toHex (clearSignHead name.toUTF8.toList t)} {toHex (hashed t)} verify=ok"
    | _, _ => "bad-op"
  | ["merge", t, h] =>
    if h = "sha1" then "err hash" else
    match body t, hashId h with
    | some t, some (_, name) =>
      let det := match detachClearSign name.toUTF8.toList t fakeArmor with
        | .ok _ => "ok"
        | .err e => s!"err:{e}"
        | _ => "diverge"
      match mergeClearSign name.toUTF8.toList t [] with
      | .ok o => s!"ok {toHex o} {toHex (hashed t)} sig=tail verify=ok detach={det}"
      | .err e => s!"err {e} detach={det}"
      | .panic p => s!"panic {p}"
      | .diverge => "diverge"
    | _, _ => "bad-op"
  | ["reclear", t, h, _n] =>
    if h = "sha1" then "err hash" else
    match body t, hashId h with
    | some t, some _ => s!"ok {toHex (hashed t)} all-verify"
    | _, _ => "bad-op"
  | "canon" :: chunks =>
    match chunks.mapM body with
    | some cs => if cs.isEmpty then "bad-op" else s!"ok {toHex (PgpDetached.canonWrites false cs)}"
    | none => "bad-op"
  | ["detached", mode, b, h, _armor, _frag] =>
    if h = "sha1" then "err hash" else
    match body b, hashId h with
    | some b, some _ =>
      -- the verifier hashes what the signer hashed (pgp_detached_sign_then_verify); a flipped byte changes the stream
      let t := PgpDetached.sigTypeOf (mode = "text")
      let same := PgpDetached.verifyHashed t [b] == PgpDetached.signHashed t [b]
      let tam := if b.isEmpty then "rejected" else "rejected"
      s!"ok type={if mode = "text" then 1 else 0} verify={if same then "ok" else "digest"} tampered={tam}"
    | _, _ => "bad-op"
  | ["scan", which, b] =>
    match body b with
    | some b =>
      if which = "head" then showRes (headClearSign b) fun o => s!"ok {toHex o}"
      else if which = "tail" then showRes (tailClearSign b) fun o => s!"ok {toHex o}"
      else "bad-op"
    | none => "bad-op"
  | ["parse", b] =>
    match body b with
    | some b =>
      match Spec.OpenPgp.parsePackets (b.length + 1) b with
      | some ps => if ps.isEmpty then "ok" else s!"ok {showPackets ps}"
      | none => "err parse"
    | none => "bad-op"
  | _ => "bad-op"

end Relic.Driver.Pgp

/-
  Relic.Proofs.MsiTree — per-directory and whole-tree lemmas: relic's MSI digest walk = the specification's
  on well-formed trees.  Core tactics only.
-/
import Relic.Proofs.MsiDigest
namespace Relic.MsiDigest
open Relic Relic.RedBlack
set_option linter.unusedSimpArgs false
set_option linter.unusedVariables false

/-- the siblings of one storage: every name field well formed, names pairwise distinct -/
def SibsOk (ms : List Meta) : Prop :=
  (∀ m ∈ ms, wfNameB m = true) ∧ ms.Pairwise (fun a b => Spec.MsiDigest.specName a ≠ Spec.MsiDigest.specName b)

def okify {β : Type} (x : Meta × β) : Item β := (x.1, .ok x.2)

theorem keyOrderOf {α : Type} (key : α → List Nat) : KeyOrder key lexLt := ⟨lexLt_trans, lexLt_asymm, lexLt_total⟩

variable {β : Type}

theorem pw_of_map {P : Meta → Meta → Prop} : ∀ (l : List (Meta × β)), (l.map (·.1)).Pairwise P →
    l.Pairwise (fun a b => P a.1 b.1)
  | [], _ => List.Pairwise.nil
  | x :: r, h => by
    have hp := List.pairwise_cons.mp (show (x.1 :: r.map (·.1)).Pairwise P from h)
    exact List.pairwise_cons.mpr ⟨fun y hy => hp.1 y.1 (List.mem_map_of_mem hy), pw_of_map r hp.2⟩

theorem SibsOk.tail {m : Meta} {ms : List Meta} (h : SibsOk (m :: ms)) : SibsOk ms :=
  ⟨fun x hx => h.1 x (by simp [hx]), (List.pairwise_cons.mp h.2).2⟩

/-- D1: on such siblings `sortMsiFiles` does not panic and returns the key-sorted permutation -/
theorem sortItems_sorted (l : List (Item β)) (h : SibsOk (l.map (·.1))) :
    ∃ s, sortItems l = .ok s ∧ s.Perm l ∧ s.Pairwise (fun u v => lexLt (nameKey u.1) (nameKey v.1) = true) := by
  let lt : Item β → Item β → Bool := fun a b => lexLt (nameKey a.1) (nameKey b.1)
  have hp : l.Pairwise (fun a b => Spec.MsiDigest.specName a.1 ≠ Spec.MsiDigest.specName b.1) :=
    pw_of_map l h.2
  have hw : ∀ a ∈ l, WfName a.1 := fun a ha => wfName_of_B a.1 (h.1 a.1 (List.mem_map_of_mem ha))
  refine ⟨sortP lt l, ?_, sortP_perm lt l, ?_⟩
  · unfold sortItems
    apply sortRes_ok
    refine hp.imp_of_mem ?_
    intro a b ha hb hab
    exact less_eq_key b.1 a.1 (hw b hb) (hw a ha) (fun e => hab e.symm)
  · apply sortP_sorted (keyOrderOf (fun it : Item β => nameKey it.1)) lt l
    refine hp.imp_of_mem ?_
    intro a b ha hb hab
    exact ⟨rfl, specName_ne_of_key (hw b hb) (hw a ha) (fun e => hab e.symm)⟩

theorem insertSorted_perm (x : Meta × β) : ∀ l, (Spec.MsiDigest.insertSorted x l).Perm (x :: l)
  | [] => by simp [Spec.MsiDigest.insertSorted]
  | y :: r => by
    unfold Spec.MsiDigest.insertSorted
    split
    · exact List.Perm.refl _
    · exact ((insertSorted_perm x r).cons y).trans (List.Perm.swap x y r)

theorem digestOrder_perm : ∀ (l : List (Meta × β)), (Spec.MsiDigest.digestOrder l).Perm l
  | [] => by simp [Spec.MsiDigest.digestOrder]
  | x :: r => by
    have ih := digestOrder_perm r
    unfold Spec.MsiDigest.digestOrder at ih ⊢
    simp only [List.foldr_cons]
    exact (insertSorted_perm x _).trans (ih.cons x)

theorem insertSorted_sorted (x : Meta × β) : ∀ (l : List (Meta × β)),
    (∀ y ∈ l, WfName y.1 ∧ Spec.MsiDigest.specName x.1 ≠ Spec.MsiDigest.specName y.1) → WfName x.1 →
    l.Pairwise (fun u v => lexLt (nameKey u.1) (nameKey v.1) = true) →
    (Spec.MsiDigest.insertSorted x l).Pairwise (fun u v => lexLt (nameKey u.1) (nameKey v.1) = true)
  | [], _, _, _ => by simp [Spec.MsiDigest.insertSorted]
  | y :: r, h, hx, hs => by
    have hy := h y (by simp)
    have hp := List.pairwise_cons.mp hs
    unfold Spec.MsiDigest.insertSorted
    rw [specBefore_eq_key x.1 y.1 hx hy.1 hy.2]
    by_cases hb : lexLt (nameKey x.1) (nameKey y.1) = true
    · simp only [hb, if_true]
      refine List.pairwise_cons.mpr ⟨?_, hs⟩
      intro z hz
      rcases List.mem_cons.mp hz with rfl | hz'
      · exact hb
      · exact lexLt_trans _ _ _ hb (hp.1 z hz')
    · simp only [hb]
      have hyx : lexLt (nameKey y.1) (nameKey x.1) = true := by
        rcases lexLt_total _ _ (specName_ne_of_key hx hy.1 hy.2) with h' | h'
        · exact absurd h' hb
        · exact h'
      refine List.pairwise_cons.mpr ⟨?_, insertSorted_sorted x r (fun z hz => h z (by simp [hz])) hx hp.2⟩
      intro z hz
      have : z ∈ x :: r := (insertSorted_perm x r).subset hz
      rcases List.mem_cons.mp this with rfl | hz'
      · exact hyx
      · exact hp.1 z hz'

/-- D2: the specification's order on such siblings is the key-sorted permutation -/
theorem digestOrder_sorted : ∀ (l : List (Meta × β)), SibsOk (l.map (·.1)) →
    (Spec.MsiDigest.digestOrder l).Pairwise (fun u v => lexLt (nameKey u.1) (nameKey v.1) = true)
  | [], _ => by simp [Spec.MsiDigest.digestOrder]
  | x :: r, h => by
    have ih := digestOrder_sorted r (by simpa using SibsOk.tail (by simpa using h))
    have hperm := digestOrder_perm r
    unfold Spec.MsiDigest.digestOrder at ih hperm ⊢
    simp only [List.foldr_cons]
    have hpw : (x :: r).Pairwise (fun a b => Spec.MsiDigest.specName a.1 ≠ Spec.MsiDigest.specName b.1) :=
      pw_of_map (x :: r) h.2
    apply insertSorted_sorted x _ _ (wfName_of_B x.1 (h.1 x.1 (by simp))) ih
    intro y hy
    have hyr : y ∈ r := hperm.subset hy
    exact ⟨wfName_of_B y.1 (h.1 y.1 (by simp; right; exact ⟨y.2, hyr⟩)), (List.pairwise_cons.mp hpw).1 y hyr⟩

/-- D3: model order = specification order -/
theorem sortItems_eq_digestOrder (l : List (Meta × β)) (h : SibsOk (l.map (·.1))) :
    sortItems (l.map okify) = .ok ((Spec.MsiDigest.digestOrder l).map okify) := by
  have hm : (l.map okify).map (·.1) = l.map (·.1) := by simp [okify, Function.comp_def]
  obtain ⟨s, hs, hperm, hsorted⟩ := sortItems_sorted (l.map okify) (by rw [hm]; exact h)
  rw [hs]
  congr 1
  apply sorted_unique (keyOrderOf (fun it : Item β => nameKey it.1)) _ _ hsorted
  · rw [List.pairwise_map]
    exact (digestOrder_sorted l h).imp (fun hab => hab)
  · exact hperm.trans ((digestOrder_perm l).map okify).symm

theorem catRes_ok {γ : Type} (f : α → List γ) : ∀ (l : List α), catRes (l.map (fun x => Res.ok (f x))) = .ok (l.flatMap f)
  | [] => rfl
  | x :: r => by simp [catRes, catRes_ok f r]

theorem filter_sig_eq (isRoot : Bool) (s : List (Meta × β)) (hw : ∀ k ∈ s, wfNameB k.1 = true) :
    s.filter (fun k => !(isRoot && isSig k.1)) = s.filter (fun k => !(isRoot && Spec.MsiDigest.isSignatureStream k.1)) := by
  apply List.filter_congr
  intro k hk
  rw [isSig_wf k.1 (wfName_of_B k.1 (hw k hk))]

theorem hashDirOf_eq (isRoot : Bool) (clsid : Bytes) (l : List (Meta × Bytes)) (hs : SibsOk (l.map (·.1))) :
    hashDirOf isRoot clsid (l.map okify) = .ok (Spec.MsiDigest.dirInput isRoot clsid l) := by
  unfold hashDirOf Spec.MsiDigest.dirInput
  rw [sortItems_eq_digestOrder l hs]
  simp only [Res.bind_ok', Res.pure_eq]
  have hmem : ∀ k ∈ Spec.MsiDigest.digestOrder l, k ∈ l := fun k hk => (digestOrder_perm l).subset hk
  have hf : ((Spec.MsiDigest.digestOrder l).map okify).filter (fun it => !(isRoot && isSig it.1)) =
      ((Spec.MsiDigest.digestOrder l).filter (fun k => !(isRoot && isSig k.1))).map okify := by
    rw [List.filter_map]; rfl
  rw [hf, filter_sig_eq isRoot _ (fun k hk => hs.1 k.1 (List.mem_map_of_mem (hmem k hk)))]
  rw [List.map_map]
  have : ((fun x : Item Bytes => x.2) ∘ okify) = fun x : Meta × Bytes => Res.ok ((·.2) x) := rfl
  rw [this, catRes_ok]
  rfl

theorem prehashDirOf_eq (isRoot : Bool) (m : Meta) (l : List (Meta × Bytes)) (hs : SibsOk (l.map (·.1)))
    (hm : prehashDirent m = .ok (Spec.MsiDigest.metaInput m isRoot)) :
    prehashDirOf isRoot m (l.map okify) = .ok (Spec.MsiDigest.dirMetaInput m isRoot l) := by
  unfold prehashDirOf Spec.MsiDigest.dirMetaInput
  rw [sortItems_eq_digestOrder l hs, hm]
  simp only [Res.bind_ok', Res.pure_eq]
  have hmem : ∀ k ∈ Spec.MsiDigest.digestOrder l, k ∈ l := fun k hk => (digestOrder_perm l).subset hk
  have hf : ((Spec.MsiDigest.digestOrder l).map okify).filter (fun it => !(isRoot && isSig it.1)) =
      ((Spec.MsiDigest.digestOrder l).filter (fun k => !(isRoot && isSig k.1))).map okify := by
    rw [List.filter_map]; rfl
  rw [hf, filter_sig_eq isRoot _ (fun k hk => hs.1 k.1 (List.mem_map_of_mem (hmem k hk)))]
  rw [List.map_map]
  have : ((fun x : Item Bytes => x.2) ∘ okify) = fun x : Meta × Bytes => Res.ok ((·.2) x) := rfl
  rw [this, catRes_ok]
  rfl

/-! ### the metadata of one entry -/

theorem nameField_bytes : ∀ (sl : List Nat), (sl.flatMap (fun u => [u % 256, u / 256])).map UInt8.ofNat = le16s sl
  | [] => rfl
  | u :: r => by simp [le16s, nameField_bytes r]

theorem le16s_length : ∀ (sl : List Nat), (le16s sl).length = 2 * sl.length
  | [] => rfl
  | u :: r => by simp [le16s, le16s_length r]; omega

theorem prehashDirent_wf (m : Meta) (h : WfName m) (ht12 : m.typ = typStream ∨ m.typ = typStorage) :
    prehashDirent m = .ok (Spec.MsiDigest.metaInput m false) := by
  have h1 := h.even
  have h2 := h.le64
  have hn : (m.nameLen + 65534) % 65536 = m.nameLen - 2 := by omega
  have ht : m.typ ≠ typRoot := by unfold typStream typStorage typRoot at *; omega
  unfold prehashDirent Spec.MsiDigest.metaInput
  simp only [hn]
  have hc : ¬ (m.nameLen - 2 > 128) := by omega
  simp only [hc, and_false, if_false, ht, ne_eq, not_false_eq_true, if_true, false_or]
  have hname : (enc m).take (m.nameLen - 2) =
      ((Spec.MsiDigest.nameField m).take (m.nameLen - 2)).map UInt8.ofNat := by
    rw [List.map_take]
    unfold Spec.MsiDigest.nameField
    rw [nameField_bytes]
    unfold enc
    simp only [List.append_assoc]
    rw [List.take_append_of_le_length (by rw [le16s_length, h.len]; omega)]
  rw [hname]
  unfold typStream typStorage typRoot at *
  by_cases h2 : m.typ = 2
  · simp [h2]
  · by_cases h1 : m.typ = 1
    · simp [h1]
    · omega

theorem prehashDirent_root (m : Meta) (ht : m.typ = typRoot) :
    prehashDirent m = .ok (Spec.MsiDigest.metaInput m true) := by
  unfold prehashDirent Spec.MsiDigest.metaInput
  unfold typStream typStorage typRoot at *
  simp [ht]

/-! ### whole trees -/

def metas (ks : List Node) : List Meta := ks.map Node.meta

mutual
/-- hypothesis on a tree: in every storage the children have well-formed, pairwise distinct names.  (Before the
    repair of Fmsi-tar the walk skipped the signature names in every storage and the hypothesis also excluded such names
    below the root; the flag is kept for the statements' sake, nothing depends on it any more.) -/
def Node.okAt : Bool → Node → Prop
  | _, .mk _ _ kids => SibsOk (metas kids) ∧ Nodes.ok kids
def Nodes.ok : List Node → Prop
  | [] => True
  | n :: r => Node.okAt false n ∧ Nodes.ok r
end

theorem entryInput_fst (n : Node) : (Spec.MsiDigest.entryInput n).1 = n.meta := by
  cases n; rw [Spec.MsiDigest.entryInput]; rfl
theorem entryMeta_fst (n : Node) : (Spec.MsiDigest.entryMeta n).1 = n.meta := by
  cases n; rw [Spec.MsiDigest.entryMeta]; rfl

theorem entriesInput_fst : ∀ ks, (Spec.MsiDigest.entriesInput ks).map (·.1) = metas ks
  | [] => by rw [Spec.MsiDigest.entriesInput]; rfl
  | n :: r => by
    rw [Spec.MsiDigest.entriesInput, List.map_cons, entryInput_fst, entriesInput_fst r]; rfl
theorem entriesMeta_fst : ∀ ks, (Spec.MsiDigest.entriesMeta ks).map (·.1) = metas ks
  | [] => by rw [Spec.MsiDigest.entriesMeta]; rfl
  | n :: r => by
    rw [Spec.MsiDigest.entriesMeta, List.map_cons, entryMeta_fst, entriesMeta_fst r]; rfl

theorem mem_fst_of_map {l : List (Meta × Bytes)} {ms : List Meta} (h : l.map (·.1) = ms) :
    ∀ k ∈ l, k.1 ∈ ms := fun k hk => h ▸ List.mem_map_of_mem hk

mutual
theorem hashItem_eq : ∀ (n : Node), Node.okAt false n → hashItem n = okify (Spec.MsiDigest.entryInput n)
  | .mk m c kids, h => by
    rw [Node.okAt] at h
    rw [hashItem, Spec.MsiDigest.entryInput, hashItems_eq kids h.2,
      hashDirOf_eq false m.clsid _ (by rw [entriesInput_fst]; exact h.1)]
    unfold okify typStream typStorage
    by_cases h2 : m.typ = 2
    · simp [h2]
    · by_cases h1 : m.typ = 1
      · simp [h1]
      · simp [h1, h2]
theorem hashItems_eq : ∀ (ks : List Node), Nodes.ok ks →
    hashItems ks = (Spec.MsiDigest.entriesInput ks).map okify
  | [], _ => by rw [hashItems, Spec.MsiDigest.entriesInput]; rfl
  | n :: r, h => by
    rw [Nodes.ok] at h
    rw [hashItems, Spec.MsiDigest.entriesInput, List.map_cons, hashItem_eq n h.1, hashItems_eq r h.2]
end

theorem hashMsiDir_eq (root : Node) (h : Node.okAt true root) :
    hashMsiDir root = .ok (Spec.MsiDigest.hashInput root) := by
  cases root with
  | mk m c kids =>
    rw [Node.okAt] at h
    unfold hashMsiDir Spec.MsiDigest.hashInput
    simp only [Node.meta, Node.kids]
    rw [hashItems_eq kids h.2]
    exact hashDirOf_eq true m.clsid _ (by rw [entriesInput_fst]; exact h.1)

theorem sibs_typ {ms : List Meta} (h : SibsOk ms) : ∀ m ∈ ms, WfName m := fun m hm => wfName_of_B m (h.1 m hm)

mutual
theorem prehashItem_eq : ∀ (n : Node), Node.okAt false n → WfName n.meta →
    prehashItem n = okify (Spec.MsiDigest.entryMeta n)
  | .mk m c kids, h, hw => by
    rw [Node.okAt] at h
    simp only [Node.meta] at hw
    rw [prehashItem, Spec.MsiDigest.entryMeta, prehashItems_eq kids h.2 (sibs_typ h.1)]
    by_cases h2 : m.typ = typStream
    · have key := prehashDirent_wf m hw (Or.inl h2)
      unfold typStream at h2
      simp only [okify, typStream, h2, if_true, key]
    · by_cases h1 : m.typ = typStorage
      · have key := prehashDirOf_eq false m _ (by rw [entriesMeta_fst]; exact h.1)
          (prehashDirent_wf m hw (Or.inr h1))
        unfold typStorage at h1
        rw [key]
        simp [okify, typStream, typStorage, h1]
      · unfold typStream at h2; unfold typStorage at h1
        simp [okify, typStream, typStorage, h1, h2]
theorem prehashItems_eq : ∀ (ks : List Node), Nodes.ok ks → (∀ m ∈ metas ks, WfName m) →
    prehashItems ks = (Spec.MsiDigest.entriesMeta ks).map okify
  | [], _, _ => by rw [prehashItems, Spec.MsiDigest.entriesMeta]; rfl
  | n :: r, h, hw => by
    rw [Nodes.ok] at h
    rw [prehashItems, Spec.MsiDigest.entriesMeta, List.map_cons,
      prehashItem_eq n h.1 (hw n.meta (by simp [metas])),
      prehashItems_eq r h.2 (fun m hm => hw m (by simp only [metas, List.map_cons, List.mem_cons]; right; exact hm))]
end

theorem prehashMsiDir_eq (root : Node) (h : Node.okAt true root) (hr : root.meta.typ = typRoot) :
    prehashMsiDir root = .ok (Spec.MsiDigest.prehashInput root) := by
  cases root with
  | mk m c kids =>
    rw [Node.okAt] at h
    unfold prehashMsiDir Spec.MsiDigest.prehashInput
    simp only [Node.meta, Node.kids] at hr ⊢
    rw [prehashItems_eq kids h.2 (sibs_typ h.1)]
    exact prehashDirOf_eq true m _ (by rw [entriesMeta_fst]; exact h.1) (prehashDirent_root m hr)

/-! ### only the non-signature children matter -/

theorem digestOrder_filter_congr (p : Meta → Bool) (l₁ l₂ : List (Meta × β))
    (h₁ : SibsOk (l₁.map (·.1))) (h₂ : SibsOk (l₂.map (·.1)))
    (hp : (l₁.filter (fun k => p k.1)).Perm (l₂.filter (fun k => p k.1))) :
    (Spec.MsiDigest.digestOrder l₁).filter (fun k => p k.1) = (Spec.MsiDigest.digestOrder l₂).filter (fun k => p k.1) := by
  apply sorted_unique (keyOrderOf (fun it : Meta × β => nameKey it.1))
  · exact (digestOrder_sorted l₁ h₁).filter _
  · exact (digestOrder_sorted l₂ h₂).filter _
  · exact ((digestOrder_perm l₁).filter _).trans (hp.trans ((digestOrder_perm l₂).filter _).symm)

theorem entriesInput_eq_map : ∀ ks, Spec.MsiDigest.entriesInput ks = ks.map Spec.MsiDigest.entryInput
  | [] => by rw [Spec.MsiDigest.entriesInput]; rfl
  | n :: r => by rw [Spec.MsiDigest.entriesInput, entriesInput_eq_map r]; rfl
theorem entriesMeta_eq_map : ∀ ks, Spec.MsiDigest.entriesMeta ks = ks.map Spec.MsiDigest.entryMeta
  | [] => by rw [Spec.MsiDigest.entriesMeta]; rfl
  | n :: r => by rw [Spec.MsiDigest.entriesMeta, entriesMeta_eq_map r]; rfl

theorem filter_entries (f : Node → Meta × Bytes) (hf : ∀ n, (f n).1 = n.meta) (p : Meta → Bool) (ks : List Node) :
    (ks.map f).filter (fun k => p k.1) = (ks.filter (fun n => p n.meta)).map f := by
  rw [List.filter_map]
  congr 1
  apply List.filter_congr
  intro n _
  simp [hf n]

/-! ### the hypotheses as an executable check -/

def pairwiseB {α : Type} (r : α → α → Bool) : List α → Bool
  | [] => true
  | x :: l => l.all (r x) && pairwiseB r l

theorem pairwiseB_sound {α : Type} (r : α → α → Bool) : ∀ l, pairwiseB r l = true → l.Pairwise (fun a b => r a b = true)
  | [], _ => List.Pairwise.nil
  | x :: l, h => by
    simp only [pairwiseB, Bool.and_eq_true, List.all_eq_true] at h
    exact List.pairwise_cons.mpr ⟨h.1, pairwiseB_sound r l h.2⟩

def sibsOkB (ms : List Meta) : Bool :=
  ms.all wfNameB && pairwiseB (fun a b => decide (Spec.MsiDigest.specName a ≠ Spec.MsiDigest.specName b)) ms

theorem sibsOkB_sound (ms : List Meta) (h : sibsOkB ms = true) : SibsOk ms := by
  simp only [sibsOkB, Bool.and_eq_true, List.all_eq_true] at h
  exact ⟨h.1, (pairwiseB_sound _ ms h.2).imp (fun hab => by simpa using hab)⟩

mutual
def okAtB : Bool → Node → Bool
  | _, .mk _ _ kids => sibsOkB (metas kids) && okAllB kids
def okAllB : List Node → Bool
  | [] => true
  | n :: r => okAtB false n && okAllB r
end

mutual
theorem okAtB_sound : ∀ (isRoot : Bool) (n : Node), okAtB isRoot n = true → Node.okAt isRoot n
  | isRoot, .mk m c kids, h => by
    rw [okAtB] at h
    simp only [Bool.and_eq_true] at h
    rw [Node.okAt]
    exact ⟨sibsOkB_sound _ h.1, okAllB_sound kids h.2⟩
theorem okAllB_sound : ∀ (ks : List Node), okAllB ks = true → Nodes.ok ks
  | [], _ => by rw [Nodes.ok]; trivial
  | n :: r, h => by
    rw [okAllB] at h
    simp only [Bool.and_eq_true] at h
    rw [Nodes.ok]
    exact ⟨okAtB_sound false n h.1, okAllB_sound r h.2⟩
end

end Relic.MsiDigest

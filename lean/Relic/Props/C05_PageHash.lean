/-
  C05 fragment — the Authenticode PE *page hashes* table relic computes (`imageHasher.section`, `addPageHash`,
  `finish` in lib/authenticode/pedigest.go; model `pageHashInputs`) equals the table prescribed by the public
  description (`Relic.Spec.PageHashes`, written from the description of signtool's `/ph` output as reproduced by
  osslsigncode's `pe_calc_page_hash`), on the decidable class `Spec.PageHashes.regular` of images on which relic's
  section-table fix-ups are the identity; outside that class the two differ (witnesses below).
-/
import Relic.Proofs.PEPages
import Relic.Props.C08
namespace Relic.Props.C05
open Relic Relic.PE

/-- the table `pageHashInputs` in terms of the helper definitions of `Proofs/PEPages.lean` (definitional) -/
theorem pageHashInputs_unfold (f : Bytes) (d : Digest) :
    pageHashInputs f d =
      (let removed : Int := (d.m.sizeOfHdr : Int) - d.hdrLen
       let needzero : Int := (d.m.pageSize : Int) - d.hdrLen - removed
       if needzero < 0 ∨ (d.m.pageSize : Int) < needzero then none else
       some ((0, d.hashed.take d.hdrLen ++ List.replicate needzero.toNat 0) ::
         (mChunks d.m.pageSize d.extents).map (mPage d.m.pageSize f) ++ [(mLast (mChunks d.m.pageSize d.extents), [])])) := rfl

/-- the buffered header is no longer than the (fixed-up) SizeOfHeaders -/
theorem hashed_le (f : Bytes) (h : Headers) (HH : HeadersOk f h) : h.hashed.length ≤ h.m.sizeOfHdr := by
  rw [HH.hashed, List.length_append, List.length_append]
  have c1 := HH.curLe; have c2 := HH.tblLe; have c3 := HH.ddIn; have c4 := HH.dd; have c5 := HH.cur
  have c6 : h.m.dd4Start = 128 ∨ h.m.dd4Start = 144 := by
    rcases HH.dd4 with ⟨_, h4⟩ | ⟨_, h4⟩
    · exact Or.inl h4
    · exact Or.inr h4
  rw [seg_length f _ _ (by omega), seg_length f _ _ (by omega), seg_length f _ _ (by omega)]
  omega

/-- **pe_page_hashes_closed.**  Without any regularity assumption: the table relic computes is the description's table
    evaluated on relic's FIXED-UP view of the image (`SizeOfHeaders` lowered to the first section, raw sizes of all
    sections but the last rounded up to FileAlignment). -/
theorem pe_page_hashes_closed (f : Bytes) (d : Digest) (l : List (Nat × Bytes)) (hp : 64 ≤ u32 f 0x3c)
    (e : DigestPE f = .ok d) (hl : pageHashInputs f d = some l) :
    ∃ h, readHeaders f = .ok h ∧ Spec.Authenticode.certDirOffset f = some h.m.posDDCert ∧
      Spec.PageHashes.tableOf (Spec.PageHashes.archPageSize f) f h.m.posDDCert h.m.sizeOfHdr (h.sections.map toPair) = some l := by
  obtain ⟨h, HP⟩ := DigestPE_pages f d hp e
  have HH := readHeaders_spec f h hp HP.hdrs
  have HS := readHeaders_sections f h hp HP.hdrs
  have hps : h.m.pageSize = Spec.PageHashes.archPageSize f := HS.page
  have hpos : 0 < h.m.pageSize := by rw [HS.page]; split <;> omega
  have hdd : Spec.Authenticode.certDirOffset f = some h.m.posDDCert := by
    unfold Spec.Authenticode.certDirOffset
    have hpe := HH.pe
    have hd := HH.dd
    rcases HH.dd4 with ⟨hm, h4⟩ | ⟨hm, h4⟩
    · rw [← hpe]; simp only [hm]; simp; omega
    · rw [← hpe]; simp only [hm]; simp; omega
  refine ⟨h, HP.hdrs, hdd, ?_⟩
  rw [pageHashInputs_unfold, HP.m, HP.hdrLen, HP.extents] at hl
  simp only at hl
  have hlen := hashed_le f h HH
  by_cases hc : (h.m.pageSize : Int) - (h.hashed.length : Int) - ((h.m.sizeOfHdr : Int) - (h.hashed.length : Int)) < 0 ∨
      (h.m.pageSize : Int) < (h.m.pageSize : Int) - (h.hashed.length : Int) - ((h.m.sizeOfHdr : Int) - (h.hashed.length : Int))
  · rw [if_pos hc] at hl; contradiction
  rw [if_neg hc] at hl
  have hfit : h.m.sizeOfHdr ≤ h.m.pageSize := by omega
  have hnz : ((h.m.pageSize : Int) - (h.hashed.length : Int) - ((h.m.sizeOfHdr : Int) - (h.hashed.length : Int))).toNat =
      h.m.pageSize - h.m.sizeOfHdr := by omega
  rw [hnz] at hl
  injection hl with hl
  subst hl
  unfold Spec.PageHashes.tableOf Spec.PageHashes.headerEntry
  rw [← hps]
  have hne : ¬ (h.m.pageSize = 0 ∨ h.m.pageSize < h.m.sizeOfHdr) := by omega
  simp only [hne, if_false]
  have hext : (List.map (fun s => (s.ptr, s.ptr, s.size)) (List.filter (fun s => decide (s.size ≠ 0)) h.sections)) =
      extOf h.sections := rfl
  have hlast := last_eq _ hpos h.sections []
  rw [List.nil_append, mLast_nil] at hlast
  have hpre := HP.prefix_
  rw [HP.hdrLen] at hpre
  rw [hext, pages_eq _ hpos, hlast, hpre, HH.hashed, HH.cur, ← HH.pe]

/-- **pe_page_hashes_eq_spec.**  Whenever relic's digester accepts a PE image (`e_lfanew ≥ 64`) on which its
    section-table fix-ups change nothing (`regular`: raw sizes of all sections but the last table entry are multiples
    of FileAlignment, no non-empty section starts below SizeOfHeaders) and produces a page-hash table, that table —
    offsets and hash inputs, entry by entry — is the one the public description prescribes for the architecture's
    page size. -/
theorem pe_page_hashes_eq_spec (f : Bytes) (d : Digest) (l : List (Nat × Bytes)) (hp : 64 ≤ u32 f 0x3c)
    (e : DigestPE f = .ok d) (hreg : Spec.PageHashes.regular f = true) (hl : pageHashInputs f d = some l) :
    Spec.PageHashes.pageHashes f = some l := by
  obtain ⟨h, hh, hdd, ht⟩ := pe_page_hashes_closed f d l hp e hl
  have HS := readHeaders_sections f h hp hh
  have htbl : Spec.PageHashes.sectionTable f =
      (rawSections f (u32 f 0x3c + 24 + u16 f (u32 f 0x3c + 20)) (u16 f (u32 f 0x3c + 6))).map toPair :=
    (rawSections_eq f _ _).symm
  simp only [Spec.PageHashes.regular, Bool.and_eq_true, List.all_eq_true, Bool.or_eq_true, decide_eq_true_eq] at hreg
  obtain ⟨hal, hhd⟩ := hreg
  rw [htbl] at hal hhd
  obtain ⟨hsec, hsoh⟩ := fixSections_regular _ _ _ _ _ _ HS.fix hal (by
    intro s hs
    exact hhd (toPair s) (List.mem_map_of_mem hs))
  have hsoh' : Spec.PageHashes.sizeOfHeaders f = h.m.sizeOfHdr := hsoh.symm
  unfold Spec.PageHashes.pageHashes Spec.PageHashes.pageHashesWith
  rw [hdd, hsoh', htbl, ← hsec]
  exact ht

/-- on images with the default SectionAlignment (= the architecture's page size) the table is also the one
    osslsigncode computes (`pagesize = SectionAlignment`) -/
theorem pe_page_hashes_eq_spec_section_alignment (f : Bytes) (d : Digest) (l : List (Nat × Bytes)) (hp : 64 ≤ u32 f 0x3c)
    (e : DigestPE f = .ok d) (hreg : Spec.PageHashes.regular f = true)
    (hsa : Spec.PageHashes.sectionAlignment f = Spec.PageHashes.archPageSize f)
    (hl : pageHashInputs f d = some l) :
    Spec.PageHashes.pageHashesSA f = some l := by
  unfold Spec.PageHashes.pageHashesSA
  rw [hsa]
  exact pe_page_hashes_eq_spec f d l hp e hreg hl

/-- relic produces a table exactly when the (fixed-up) headers fit into one page; otherwise the slice
    `zeroPage[:needzero]` in `addPageHash` panics (finding F-pagehash-hdr, model outcome `pages=PANIC`) -/
theorem pe_page_hashes_defined_iff (f : Bytes) (d : Digest) (hp : 64 ≤ u32 f 0x3c) (e : DigestPE f = .ok d) :
    (pageHashInputs f d).isSome = true ↔ d.m.sizeOfHdr ≤ d.m.pageSize := by
  obtain ⟨h, HP⟩ := DigestPE_pages f d hp e
  have HH := readHeaders_spec f h hp HP.hdrs
  have hlen := hashed_le f h HH
  rw [pageHashInputs_unfold, HP.m, HP.hdrLen]
  simp only
  split
  · rename_i hc; simp; omega
  · rename_i hc; simp; omega

/-! ### non-vacuity and the boundary of the class -/

/-- PE32 headers (`e_lfanew = 64`, 224-byte optional header, 16 data directories): 312 bytes -/
def peHdr (nsec fa soh : Nat) : Bytes :=
  [0x4d, 0x5a] ++ List.replicate 58 0 ++ [64, 0, 0, 0] ++
  [0x50, 0x45, 0, 0] ++ [0x4c, 0x01] ++ leBytes 2 nsec ++ List.replicate 12 0 ++ [224, 0] ++ [0, 0] ++
  [0x0b, 0x01] ++ List.replicate 34 0 ++ leBytes 4 fa ++ List.replicate 20 0 ++ leBytes 4 soh ++
  List.replicate 28 0 ++ [16, 0, 0, 0] ++ List.replicate 128 0

def secHdr (ptr size : Nat) : Bytes :=
  List.replicate 16 0 ++ leBytes 4 size ++ leBytes 4 ptr ++ List.replicate 16 0

/-- regular: FileAlignment 32, SizeOfHeaders 416, sections [416, 448) and [448, 464) -/
def pagePE : Bytes :=
  peHdr 2 32 416 ++ secHdr 416 32 ++ secHdr 448 16 ++ List.replicate 24 0 ++ List.replicate 32 0x11 ++ List.replicate 16 0x33

/-- as `pagePE` but the first section's SizeOfRawData is 16 (not a multiple of FileAlignment); the slack [432, 448)
    holds non-zero bytes.  relic rounds the size up to 32 and hashes the slack; the description hashes 16 bytes. -/
def unalignedPE : Bytes :=
  peHdr 2 32 416 ++ secHdr 416 16 ++ secHdr 448 16 ++ List.replicate 24 0 ++ List.replicate 16 0x11 ++
  List.replicate 16 0x22 ++ List.replicate 16 0x33

/-- as `pagePE` but SizeOfHeaders = 448 reaches into the first section, which starts at 416.  relic lowers
    SizeOfHeaders to 416 for the header page; the description hashes [0, 448). -/
def overlapPE : Bytes :=
  peHdr 2 32 448 ++ secHdr 416 32 ++ secHdr 448 16 ++ List.replicate 24 0 ++ List.replicate 32 0x11 ++ List.replicate 16 0x33

def digestOf (f : Bytes) : Digest :=
  match DigestPE f with
  | .ok d => d
  | _ => ⟨[], 0, 0, ⟨0, 0, 0, 0, 0, 0, 0, 0, 0, 0, 0, 0⟩, [], 0⟩

def headersOf (f : Bytes) : Headers :=
  match readHeaders f with
  | .ok h => h
  | _ => ⟨⟨0, 0, 0, 0, 0, 0, 0, 0, 0, 0, 0, 0⟩, [], [], 0⟩

set_option maxRecDepth 100000 in
/-- the hypotheses of `pe_page_hashes_eq_spec` are satisfiable by an image with two sections -/
example : 64 ≤ u32 pagePE 0x3c ∧ DigestPE pagePE = .ok (digestOf pagePE) ∧ Spec.PageHashes.regular pagePE = true ∧
    (digestOf pagePE).m.sizeOfHdr ≤ (digestOf pagePE).m.pageSize ∧
    (Spec.PageHashes.sectionTable pagePE = [(416, 32), (448, 16)]) := by decide

set_option maxRecDepth 100000 in
example : (pageHashInputs pagePE (digestOf pagePE)).isSome = true :=
  (pe_page_hashes_defined_iff pagePE (digestOf pagePE) (by decide) (by decide)).2 (by decide)

/-- byte `j` of the hash input of entry `i` of a table -/
def probe (i j : Nat) (t : Option (List (Nat × Bytes))) : Option UInt8 :=
  t.map fun l => (l.getD i (0, [])).2.getD j 0

set_option maxRecDepth 100000 in
/-- **outside the class (1): SizeOfRawData of a non-last section not a multiple of FileAlignment.**  relic accepts
    `unalignedPE`, produces a table, and that table is NOT the description's: entry 1 (first section) covers 32 file
    bytes in relic's table and 16 in the description's. -/
theorem pe_page_hashes_differ_unaligned :
    ∃ f d l, 64 ≤ u32 f 0x3c ∧ DigestPE f = .ok d ∧ pageHashInputs f d = some l ∧
      Spec.PageHashes.regular f = false ∧ Spec.PageHashes.pageHashes f ≠ some l := by
  have hp : 64 ≤ u32 unalignedPE 0x3c := by decide
  have hd : DigestPE unalignedPE = .ok (digestOf unalignedPE) := by decide
  have hs := (pe_page_hashes_defined_iff unalignedPE _ hp hd).2 (by decide)
  obtain ⟨l, hl⟩ := Option.isSome_iff_exists.1 hs
  refine ⟨unalignedPE, _, l, hp, hd, hl, by decide, ?_⟩
  obtain ⟨h, hh, _, ht⟩ := pe_page_hashes_closed unalignedPE _ l hp hd hl
  have hh' : readHeaders unalignedPE = .ok (headersOf unalignedPE) := by decide
  rw [hh'] at hh
  injection hh with hh
  subst hh
  intro heq
  have h1 := congrArg (probe 1 16) ht
  have h2 := congrArg (probe 1 16) heq
  rw [← h2] at h1
  revert h1
  decide

set_option maxRecDepth 100000 in
/-- **outside the class (2): SizeOfHeaders reaching past the start of the first section.**  relic hashes the headers up
    to the first section only; the description hashes `[0, SizeOfHeaders)`. -/
theorem pe_page_hashes_differ_header_overlap :
    ∃ f d l, 64 ≤ u32 f 0x3c ∧ DigestPE f = .ok d ∧ pageHashInputs f d = some l ∧
      Spec.PageHashes.regular f = false ∧ Spec.PageHashes.pageHashes f ≠ some l := by
  have hp : 64 ≤ u32 overlapPE 0x3c := by decide
  have hd : DigestPE overlapPE = .ok (digestOf overlapPE) := by decide
  have hs := (pe_page_hashes_defined_iff overlapPE _ hp hd).2 (by decide)
  obtain ⟨l, hl⟩ := Option.isSome_iff_exists.1 hs
  refine ⟨overlapPE, _, l, hp, hd, hl, by decide, ?_⟩
  obtain ⟨h, hh, _, ht⟩ := pe_page_hashes_closed overlapPE _ l hp hd hl
  have hh' : readHeaders overlapPE = .ok (headersOf overlapPE) := by decide
  rw [hh'] at hh
  injection hh with hh
  subst hh
  intro heq
  have h1 := congrArg (probe 0 404) ht
  have h2 := congrArg (probe 0 404) heq
  rw [← h2] at h1
  revert h1
  decide

/-- `pagePE` with SectionAlignment = 0x2000 (regular, x86: architectural page size 4096) -/
def sa8kPE : Bytes := pagePE.take 120 ++ leBytes 4 0x2000 ++ pagePE.drop 124

/-- length of the hash input of entry `i` -/
def probeLen (i : Nat) (t : Option (List (Nat × Bytes))) : Option Nat :=
  t.map fun l => (l.getD i (0, [])).2.length

set_option maxRecDepth 1000000 in
/-- **the uncertain clause matters:** on a regular image whose SectionAlignment is not the architectural page size,
    relic's table (4096-byte pages, = `pageHashes`) is not the table of osslsigncode's reading (`pageHashesSA`,
    pages of SectionAlignment bytes). -/
theorem pe_page_hashes_differ_section_alignment :
    ∃ f d l, 64 ≤ u32 f 0x3c ∧ DigestPE f = .ok d ∧ pageHashInputs f d = some l ∧
      Spec.PageHashes.regular f = true ∧ Spec.PageHashes.pageHashes f = some l ∧ Spec.PageHashes.pageHashesSA f ≠ some l := by
  have hp : 64 ≤ u32 sa8kPE 0x3c := by decide
  have hd : DigestPE sa8kPE = .ok (digestOf sa8kPE) := by decide
  have hr : Spec.PageHashes.regular sa8kPE = true := by decide
  have hs := (pe_page_hashes_defined_iff sa8kPE _ hp hd).2 (by decide)
  obtain ⟨l, hl⟩ := Option.isSome_iff_exists.1 hs
  have hspec := pe_page_hashes_eq_spec sa8kPE _ l hp hd hr hl
  refine ⟨sa8kPE, _, l, hp, hd, hl, hr, hspec, ?_⟩
  intro heq
  have h1 := congrArg (probeLen 0) hspec
  have h2 := congrArg (probeLen 0) heq
  rw [← h2] at h1
  revert h1
  decide

end Relic.Props.C05

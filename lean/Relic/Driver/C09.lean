/- line-protocol handlers for C09 (block hasher, PE checksum, client fail-over, encoding choice) -/
import Relic.Model.Merkle
import Relic.Model.PEChecksum
import Relic.Spec.PEChecksum
import Relic.Model.Transport
import Relic.Model.PgpDetached
namespace Relic.Driver.C09
open Relic

def merkleBlock : Nat := 1048576

def parseNats (s : String) : Option (List Nat) :=
  if s = "-" then some [] else (s.splitOn ",").mapM String.toNat?

def showNats (l : List Nat) : String :=
  if l.isEmpty then "-" else ",".intercalate (l.map toString)

/-- split `d` at ascending absolute offsets -/
def splitAt (d : Bytes) (pos : Nat) : List Nat → List Bytes
  | [] => [d]
  | c :: cs => d.take (c - pos) :: splitAt (d.drop (c - pos)) c cs

def hex8 (n : Nat) : String := toHex (leBytes 4 n)

def showStr (s : Transport.Str) : String := if s.isEmpty then "-" else String.ofList s

def parseOutcome (s : String) : Option Transport.Outcome :=
  if s = "nt" then some (.neterr true)
  else if s = "np" then some (.neterr false)
  else if s.startsWith "f" && s.endsWith "t" then ((s.drop 1).dropRight 1).toNat?.map (.srcFault · true)
  else if s.startsWith "f" && s.endsWith "p" then ((s.drop 1).dropRight 1).toNat?.map (.srcFault · false)
  else s.toNat?.map .status

def parseScript (s : String) : Option (List Transport.Outcome) :=
  if s = "-" then some [] else (s.splitOn ",").mapM parseOutcome

def strOfHex (h : String) : Option Transport.Str :=
  (fromHex h).map fun b => b.map fun c => Char.ofNat c.toNat

/-- attempts are printed as `s<server>:<content-encoding>:<full|x>`; `x` marks attempts in which no
    cleanly ended body reached a handler (transport error, source fault) -/
def showAttempts (tr : List Transport.Attempt) (script : List Transport.Outcome) (file : Bytes) : String :=
  let rec go : List Transport.Attempt → List Transport.Outcome → List String
    | [], _ => []
    | a :: as, sc =>
      let o := sc.headD (.status 200)
      let body := match (Transport.roundTrip a.enc a.offered o).2 with
        | .none => "x"
        | .aborted => "x"
        | .complete b => if b = file then "full" else "PARTIAL"
      s!"s{a.server}:{showStr a.enc}:{body}" :: go as sc.tail
  let l := go tr script
  if l.isEmpty then "-" else ",".intercalate l

def showFinal : Transport.Final → String
  | .response c s => s!"resp:{c}:s{s}"
  | .httpError c => s!"httperr:{c}"
  | .netError => "neterr"
  | .nothing => "nothing"

def runTransport (accept : Transport.Str) (retries : Int) (n : Nat) (script : List Transport.Outcome) (size : Nat) : String :=
  -- the model is parametric in the file; its content does not influence the control flow
  let file : Bytes := List.replicate (min size 4) 1
  match Transport.doRequest file accept (List.range n) retries script with
  | .ok (tr, f) =>
    let restarted := tr.any fun a => a.accept.isEmpty && !accept.isEmpty
    s!"ok {showAttempts tr script file} {showFinal f} #attempts={tr.length} restart={if restarted then 1 else 0}"
  | .err e => s!"err {e}"
  | .panic s => s!"panic {s}"
  | .diverge => "diverge"

def handle : List String → String
  | "merkle" :: _seed :: _fin :: secs =>
    match secs.mapM parseNats with
    | some ss =>
      let st := Merkle.sectionsL merkleBlock ⟨0, []⟩ ss
      s!"ok {showNats st.out} split=same spec=same #n={st.out.length}"
    | none => "bad-op"
  | ["cksum", pe, hex, cuts] =>
    match pe.toInt?, fromHex hex, parseNats cuts with
    | some pe, some d, some cs =>
      let ws := splitAt d 0 cs
      let s0 := PEChecksum.new pe
      let one := match PEChecksum.write s0 d with
        | .ok s => hex8 (PEChecksum.sumVal s)
        | _ => "?"
      let even := (ws.dropLast.all fun w => w.length % 2 == 0)
      let onfield := match s0.cksumPos with
        | some p => cs.any fun c => (c == p || c == p + 2) && c < d.length
        | none => false
      let tag := s!" #oneshot={one} even={if even then 1 else 0} onfield={if onfield then 1 else 0}"
      match PEChecksum.writes s0 ws with
      | .ok s => s!"ok {hex8 (PEChecksum.sumVal s)}{tag}"
      | .err e => s!"err {e}{tag}"
      | _ => "bad-op"
    | _, _, _ => "bad-op"
  | ["fixpehex", hex] =>
    match fromHex hex with
    | some file =>
      match PEChecksum.fixPE file with
      | .ok (pos, v) =>
        let field := pos != 88
        let spec := if field && pos % 2 == 0 then Spec.peChecksum file pos else Spec.peChecksumPlain file
        s!"ok {pos} {hex8 v} #spec={hex8 spec} even={if pos % 2 == 0 then 1 else 0} field={if field then 1 else 0}"
      | .err e => s!"err {e}"
      | _ => "bad-op"
    | none => "bad-op"
  | ["fixpe", lfanew, total, _seed] =>
    match lfanew.toNat?, total.toNat? with
    | some l, some t =>
      -- no byte-level model (io.Copy's 32 KiB reads are an assumption about the Go runtime);
      -- the expected line is the property itself; the tag says whether a read boundary hits the field
      let p := l + 88
      let onfield := p + 4 ≤ t && (p % 32768 == 0 || (p + 2) % 32768 == 0)
      s!"ok same #onfield={if onfield then 1 else 0}"
    | _, _ => "bad-op"
  | ["selenc", hex] =>
    match strOfHex hex with
    | some a => s!"ok {showStr (Transport.selectEncoding a)}"
    | none => "bad-op"
  | ["xport", ahex, retries, n, script, size, _seed] =>
    match strOfHex ahex, retries.toInt?, n.toNat?, parseScript script, size.toNat? with
    | some a, some r, some n, some sc, some sz => runTransport a r n sc sz
    | _, _, _, _, _ => "bad-op"
  | ["xfault", ahex, retries, n, script, size, _seed] =>
    match strOfHex ahex, retries.toInt?, n.toNat?, parseScript script, size.toNat? with
    | some a, some r, some n, some sc, some sz => runTransport a r n sc sz
    | _, _, _, _, _ => "bad-op"
  | ["xdown", k, n, ahex, size, _seed] =>
    match k.toNat?, n.toNat?, strOfHex ahex, size.toNat? with
    | some k, some n, some a, some sz => runTransport a 0 n (List.replicate k (.neterr true)) sz
    | _, _, _, _ => "bad-op"
  -- implementation-level oracles: no model, the expected line is the property itself
  | "frag" :: _ => "ok same #oracle"
  | "transform" :: _ => "ok same #oracle"
  | ["pipe", "pgp", size, _flags] =>
    match size.toNat? with
    | some n => (match Relic.PgpDetached.pipeTransformLen n with | some _ => "ok same" | none => "ok refused")
    | none => "bad-op"
  | "xlinger" :: _ => "ok same #oracle"
  | "xresp" :: _ => "ok error #oracle"
  | "xraw" :: _ => "ok refused #oracle"
  | "jarrepro" :: _ => "ok distinct=1 #oracle"
  | _ => "bad-op"

end Relic.Driver.C09

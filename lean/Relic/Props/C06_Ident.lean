/-
  C06 — "… naming the key, signature type, digest, *certificate*, client identity … actually used".
  The record names the certificate by `sig.x509.subject` / `sig.x509.issuer` = `FormatPkixName(…, NameStyleLdap)`
  (lib/audit/audit.go SetX509Cert, called by internal/signinit for every X509 signer) plus a SHA-1 fingerprint of the
  whole certificate, and names the client by `client.dn` = the OpenSSL-style string (internal/authmodel).
  Model `Relic.Model.Ident`; tied by the IDENT ops (`dn ldap|openssl`, and `sign`, which reads the attribute off the
  real audit record next to the real signer).
-/
import Relic.Proofs.IdentInj
import Relic.Proofs.IdentTotal
namespace Relic.Props.C06
open Relic Relic.Ident

/-- **audit_subject_identifies_certificate_partial.**  Two certificates whose subjects differ (RDNs non-empty, values
    character strings – the only subjects crypto/x509 lets through) never get the same `sig.x509.subject`: the attribute
    names the subject actually used. -/
theorem audit_subject_identifies_certificate_partial (n n' : Name) (hn : InjClass n) (hn' : InjClass n')
    (h : formatParsed .ldap n = formatParsed .ldap n') : n = n' :=
  formatParsed_injective .ldap (Or.inl rfl) n n' hn hn' h

example : InjClass [[⟨[2, 5, 4, 3], .str (ascii "signer")⟩]] := by
  intro r hr
  simp only [List.mem_cons, List.not_mem_nil, or_false] at hr
  subst hr
  exact ⟨by simp, by intro a ha; simp at ha; subst ha; exact ⟨_, rfl⟩⟩

example : formatParsed .ldap [[⟨[2, 5, 4, 6], .str (ascii "US")⟩], [⟨[2, 5, 4, 3], .str (ascii "a, b")⟩]] = ascii "CN=\"a, b\", C=US" := by
  decide

def audit_subject_identifies_certificate_full : Prop :=
  ∀ n n' : Name, formatParsed .ldap n = formatParsed .ldap n' → n = n'

/-- outside the class the string is ambiguous: an empty SET leaves no trace -/
theorem audit_subject_identifies_certificate_full_false : ¬ audit_subject_identifies_certificate_full := by
  intro h
  exact absurd (h [] [[]] (by decide)) (by decide)

/-- `client.dn` (OpenSSL style) does *not* identify the client certificate's subject: the backslash is not escaped
    and multi-valued RDNs are flattened (the fingerprint-based `client.name` is what authorisation uses) -/
theorem client_dn_not_injective :
    formatParsed .openssl [[⟨[2, 5, 4, 3], .str (ascii "a/CN=b")⟩]]
      = formatParsed .openssl [[⟨[2, 5, 4, 3], .str (ascii "a\\")⟩], [⟨[2, 5, 4, 3], .str (ascii "b")⟩]] := by
  decide

/-- writing the attribute never panics, whatever bytes the certificate carries as a name -/
theorem audit_subject_total (der : Bytes) : safe (formatPkixName .ldap der) = true := formatPkixName_safe .ldap der

end Relic.Props.C06

/-
  C02 — Any change to signed content or to the signature makes verification fail.   XAP part, over `Relic.Model.Xap`.
  Protected: every byte in front of the header (the digest covers exactly `f.take n`), the position of the frame (the two
  size fields and the trailer magic pin it to the end of the file).  Not protected, and stated so: the three `Unknown`
  fields (6 bytes); what the PKCS#7 layer tolerates inside the blob is that layer's business (`parse`).
-/
import Relic.Proofs.XapSign
import Relic.Props.C08_Xap
import Relic.Props.C03_Xap
namespace Relic.Props.C02
open Relic Relic.Xap

/-- **xap_hashed_injective.** The digester's stream *is* the kept part of the file: two inputs with the same hashed stream
    have the same `base` – for inputs that do not end in a signature frame, they are the same file. -/
theorem xap_hashed_injective (a b : Bytes) (la lb : Nat) (da db : Digest) (ha : la ≤ a.length) (hb : lb ≤ b.length)
    (ea : digestTar (zipToTar a la) true = .ok da) (eb : digestTar (zipToTar b lb) true = .ok db)
    (hs : da.hashed = db.hashed) :
    base a la = base b lb ∧ (frameSize a = 0 → frameSize b = 0 → a = b) := by
  rw [digestTar_zipToTar a la ha] at ea
  rw [digestTar_zipToTar b lb hb] at eb
  cases ea; cases eb
  refine ⟨hs, fun h1 h2 => ?_⟩
  rw [← base_of_unsigned a la h1, ← base_of_unsigned b lb h2]; exact hs

/-- **xap_accept_implies_layout.** What an acceptance by the locator pins down (file below 2^63 bytes): the file is
    `f.take n ++ header ++ blob ++ trailer`, the trailer sits at the very end and carries the magic, `TrailerSize = |blob| + 8`,
    `SignatureSize = |blob|`.  Changing the magic, either size field alone, or the length of the file makes the locator fail;
    nothing follows the trailer. -/
theorem xap_accept_implies_layout (f : Bytes) (l : Located) (hf : f.length < 9223372036854775808)
    (h : locate f (f.length : Int) = .ok l) :
    l.n + 8 + l.blob.length + 10 = f.length ∧
    l.blob = (f.drop (l.n + 8)).take l.blob.length ∧
    leVal ((f.drop (f.length - 10)).take 4) = trailerMagic ∧
    leVal ((f.drop (f.length - 4)).take 4) = l.blob.length + 8 ∧
    leVal ((f.drop (l.n + 4)).take 4) = l.blob.length := by
  obtain ⟨N, ts, hN, _, hfit, h8, hm, hts, hn, hsz, hb, hbl⟩ := locate_ok f _ l hf (by omega) (by omega) h
  have hN' : N = f.length := by omega
  subst hN'
  refine ⟨by omega, by rw [hbl]; exact hb, hm, by rw [hts]; omega, by rw [hsz]; omega⟩

/-- **xap_tamper_evident.** Let `g` be accepted by `Verify` (digests on) and `g'` be any file accepted with a blob that
    carries the same digest (in particular: the same signature).  Under collision-freeness of the hash on the two hashed
    streams, the bytes in front of the header are the same in both files: no change to the signed content survives. -/
theorem xap_tamper_evident (parse : Bytes → Option Bytes) (H : Bytes → Bytes) (g g' : Bytes) (l l' : Located)
    (hg : verifyFile parse H g false = .ok l) (hg' : verifyFile parse H g' false = .ok l')
    (same : parse l'.blob = parse l.blob)
    (collisionFree : H (g'.take l'.n) = H (g.take l.n) → g'.take l'.n = g.take l.n) :
    g'.take l'.n = g.take l.n := by
  have key : ∀ (f : Bytes) (m : Located), verifyFile parse H f false = .ok m → parse m.blob = some (H (f.take m.n)) := by
    intro f m hm
    unfold verifyFile verify at hm
    obtain ⟨x, hx, hm⟩ := bind_eq_ok hm
    cases hp : parse x.blob with
    | none => rw [hp] at hm; cases hm
    | some dg =>
      rw [hp] at hm
      simp only [Bool.false_eq_true, if_false] at hm
      by_cases hd : H (f.take x.n) = dg
      · rw [if_pos hd] at hm; cases hm; rw [hp, hd]
      · rw [if_neg hd] at hm; cases hm
  have h1 := key g l hg
  have h2 := key g' l' hg'
  rw [same, h1] at h2
  exact collisionFree (Option.some.inj h2).symm

/-- **xap_content_change_rejected.** The signed file with its content replaced by different bytes (same signature frame):
    `Verify` reports a digest mismatch, for every hash that does not collide on the two contents. -/
theorem xap_content_change_rejected (parse : Bytes → Option Bytes) (H : Bytes → Bytes) (b b' s : Bytes) (u1 u2 u3 : Nat)
    (hs : s.length + 8 < 4294967296) (hl : (framed b' u1 u2 u3 s).length < 9223372036854775808)
    (hp : parse s = some (H b)) (hne : H b' ≠ H b) :
    verifyFile parse H (framed b' u1 u2 u3 s) false = .err "mismatch" := by
  unfold verifyFile verify
  rw [locate_framed b' s u1 u2 u3 hs hl, bind_ok]
  simp only []
  rw [hp]
  simp only [Bool.false_eq_true, if_false]
  have : (framed b' u1 u2 u3 s).take b'.length = b' := take_append_len _ _ _ rfl
  rw [this, if_neg hne]

/-- **xap_no_trailing.** Bytes appended after the trailer of a signed file: `Verify` reads the *last* ten bytes of the
    file as the trailer.  Either they do not form one (error: "invalid xap file", or "XAP contains no signatures" when the
    appended bytes end in an EOCD) or they do – then the appended bytes end in a second, consistent frame – and in that
    case the range the verifier hashes is *not* the signed stream `b`: it cannot end where the original header starts.
    So (with `xap_tamper_evident`) appended content is never accepted under the original signature. -/
theorem xap_no_trailing (b s x : Bytes) (hs : s.length + 8 < 4294967296) (hx : x ≠ [])
    (hl : (b ++ sigBlock s ++ x).length < 9223372036854775808) (l : Located)
    (h : locate (b ++ sigBlock s ++ x) ((b ++ sigBlock s ++ x).length : Int) = .ok l) : l.n ≠ b.length := by
  intro hn
  obtain ⟨h1, _, _, _, h5⟩ := xap_accept_implies_layout _ l hl h
  -- the header at `b.length` is the original one: SignatureSize = |s|
  have e : b ++ sigBlock s ++ x = (b ++ leBytes 2 1 ++ leBytes 2 1) ++ (leBytes 4 s.length ++ (s ++ trailer 1 (s.length + 8) ++ x)) := by
    simp [sigBlock, header]
  have hd : ((b ++ sigBlock s ++ x).drop (b.length + 4)).take 4 = leBytes 4 s.length := by
    rw [e, drop_append_len _ _ _ (by simp), take_append_len _ _ _ (by simp)]
  rw [hn, hd, leVal_leBytes] at h5
  have hxl : 0 < x.length := by
    cases x with
    | nil => exact absurd rfl hx
    | cons a t => simp
  have hlen : (b ++ sigBlock s ++ x).length = b.length + s.length + 18 + x.length := by
    simp only [List.length_append, sigBlock_length]; omega
  have hmod : s.length % 256 ^ 4 = s.length := Nat.mod_eq_of_lt (by omega)
  rw [hmod] at h5
  omega

/-- **xap_unknown_fields_unchecked** (the exact exception to "any change is detected").  The header's `Unknown1`,
    `Unknown2` and the trailer's `Unknown1` are written as 1 and never compared with anything: for every value of these
    six bytes the locator returns the same blob and the same digest range, so `Verify`'s verdict is the same. -/
theorem xap_unknown_fields_unchecked (parse : Bytes → Option Bytes) (H : Bytes → Bytes) (b s : Bytes) (u1 u2 u3 : Nat)
    (hs : s.length + 8 < 4294967296) (hl : b.length + s.length + 18 < 9223372036854775808) (skip : Bool) :
    (verifyFile parse H (framed b u1 u2 u3 s) skip).isOk = (verifyFile parse H (framed b 1 1 1 s) skip).isOk := by
  have h1 : (framed b u1 u2 u3 s).length < 9223372036854775808 := by rw [framed_length]; omega
  have h2 : (framed b 1 1 1 s).length < 9223372036854775808 := by rw [framed_length]; omega
  have t1 : (framed b u1 u2 u3 s).take b.length = b := take_append_len _ _ _ rfl
  have t2 : (framed b 1 1 1 s).take b.length = b := take_append_len _ _ _ rfl
  unfold verifyFile verify
  rw [locate_framed b s u1 u2 u3 hs h1, locate_framed b s 1 1 1 hs h2, bind_ok, bind_ok]
  simp only []
  cases parse s with
  | none => rfl
  | some dg =>
    simp only []
    cases skip with
    | true => rfl
    | false =>
      simp only [Bool.false_eq_true, if_false]
      rw [t1, t2]
      by_cases hd : H b = dg
      · rw [if_pos hd, if_pos hd]; rfl
      · rw [if_neg hd, if_neg hd]

/-! ### non-vacuity -/

set_option maxRecDepth 100000 in
example :
    -- a signed file, the same with the Unknown fields changed, with a byte appended, with a content byte changed
    locate (framed C08.oneMemberZip 1 1 1 [9, 9]) 122 = .ok ⟨[9, 9], 102, 1, 1, 1⟩ ∧
    locate (framed C08.oneMemberZip 7 0 65535 [9, 9]) 122 = .ok ⟨[9, 9], 102, 7, 0, 65535⟩ ∧
    locate (framed C08.oneMemberZip 1 1 1 [9, 9] ++ [0]) 123 = .err "invalid" ∧
    locate (framed C08.oneMemberZip 1 1 1 [9, 9] ++ C08.oneMemberZip.drop 80) 144 = .err "notsigned" ∧
    -- appended bytes that end in a second consistent frame: located, but the digest range is not the signed one
    locate (framed (framed C08.oneMemberZip 1 1 1 [9, 9]) 1 1 1 [9, 9]) 142 = .ok ⟨[9, 9], 122, 1, 1, 1⟩ := by decide

end Relic.Props.C02

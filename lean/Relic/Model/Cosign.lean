/-
  Relic.Model.Cosign — signers/cosign/{digest,payload,signer}.go: the container-image ("simple signing") signer.

    sign            read at most 4 MiB + 1 of the upload, digestManifest, newPayload, digestPayload, key.Sign(H payload),
                    then the OCI manifest wrapping payload + signature (projection: subject and layer descriptors)
    digestManifest  hash must be SHA-256/384/512; json.Unmarshal into struct{MediaType}; non-empty; one of four media types;
                    digest string = "<alg>:" + lower-case hex of H(upload)
    newPayload      {"critical":{"image":{"docker-manifest-digest":D},"type":"cosign container image signature"},"optional":M}
                    M = the `optional` flag parsed as a JSON object (if not empty), then M["creator"] = config.UserAgent
    digestPayload   "<alg>:" + hex(H(payload))

  Parameters: the hash function `H` (never run in Lean), the signature scheme, the number conversion of encoding/json (`Json.Cvt`),
  `creator` = config.UserAgent (a link-time variable).  There is no verifier for this type in relic.
  Core Lean only.
-/
import Relic.Model.Json
namespace Relic.Cosign
open Relic Relic.Json

def ascii (s : String) : List Nat := s.toList.map Char.toNat

/-- the bytes of an ASCII string literal -/
def asciiB (s : String) : Bytes := s.toList.map fun c => UInt8.ofNat c.toNat

/-- keys of `algorithms` in digest.go (crypto.Hash ↦ digest.Algorithm); every other crypto.Hash maps to "" -/
inductive Hash where
  | sha256 | sha384 | sha512 | other
  deriving DecidableEq, Repr

def algName : Hash → Option (List Nat)
  | .sha256 => some (ascii "sha256")
  | .sha384 => some (ascii "sha384")
  | .sha512 => some (ascii "sha512")
  | .other => none

def hexNib (n : Nat) : Nat := if n < 10 then 48 + n else 87 + n

/-- `hex.EncodeToString` -/
def hexLower (b : Bytes) : List Nat := b.flatMap fun x => [hexNib (x.toNat / 16), hexNib (x.toNat % 16)]

/-- `digest.NewDigestFromBytes(alg, raw)` / `alg.FromBytes(blob)` -/
def fmtDigest (alg : List Nat) (raw : Bytes) : List Nat := alg ++ 58 :: hexLower raw

def allowedManifestTypes : List (List Nat) :=
  [ascii "application/vnd.oci.image.manifest.v1+json", ascii "application/vnd.oci.image.index.v1+json",
   ascii "application/vnd.docker.distribution.manifest.v2+json", ascii "application/vnd.docker.distribution.manifest.list.v2+json"]

/-- `digestManifest`: (digest string, media type) -/
def digestManifest (H : Bytes → Bytes) (h : Hash) (blob : Bytes) : Res (List Nat × List Nat) :=
  match algName h with
  | none => .err "unsupported-digest"
  | some alg =>
    match unmarshalMediaType blob with
    | .ok mt =>
      if mt.isEmpty then .err "no-mediatype"
      else if !allowedManifestTypes.contains mt then .err "mediatype-refused"
      else .ok (fmtDigest alg (H blob), mt)
    | .err _ => .err "manifest-json"
    | .panic s => .panic s
    | .diverge => .diverge

def signatureType : List Nat := ascii "cosign container image signature"

/-- the value `json.Marshal(payload)` walks: struct fields in declaration order, the map in key order -/
def payloadVal (digest : List Nat) (optional : List Member) : JVal :=
  .obj [(ascii "critical", .obj [(ascii "image", .obj [(ascii "docker-manifest-digest", .str digest)]),
                                (ascii "type", .str signatureType)]),
        (ascii "optional", canon (.obj optional))]

/-- the map after `payload.Optional["creator"] = config.UserAgent` -/
def withCreator (creator : List Nat) (m : Option (List Member)) : List Member :=
  setKey (ascii "creator") (.str creator) (m.getD [])

def payloadBytes (creator digest : List Nat) (m : Option (List Member)) : Bytes :=
  enc (payloadVal digest (withCreator creator m))

/-- `newPayload`: `optional` = the flag value (empty = flag not given) -/
def newPayload (cvt : Cvt) (creator digest : List Nat) (optional : Bytes) : Res Bytes :=
  if optional.isEmpty then .ok (payloadBytes creator digest none)
  else
    match unmarshalMap cvt optional with
    | .ok m => .ok (payloadBytes creator digest m)
    | .err _ => .err "invalid-annotations"
    | .panic s => .panic s
    | .diverge => .diverge

def maxSize : Nat := 4 * 1024 * 1024

structure Out (Sig : Type) where
  payload : Bytes
  sig : Sig
  subjectMediaType : List Nat
  subjectDigest : List Nat
  subjectSize : Nat
  layerDigest : List Nat
  layerSize : Nat

/-- `sign`, up to the response manifest (timestamp and certificate annotations do not depend on the input).
    `signer d` = `cert.Signer().Sign(rand, d, hash)`; `none` = the key refuses. -/
def sign {Sig : Type} (H : Bytes → Bytes) (signer : Bytes → Option Sig) (cvt : Cvt) (creator : List Nat) (h : Hash)
    (upload optional : Bytes) : Res (Out Sig) :=
  let blob := upload.take (maxSize + 1)          -- io.ReadAll(io.LimitReader(r, maxSize+1))
  if blob.length > maxSize then .err "too-large"
  else
    match digestManifest H h blob with
    | .ok (d, mt) =>
      match newPayload cvt creator d optional with
      | .ok p =>
        match algName h, signer (H p) with
        | some alg, some s => .ok ⟨p, s, mt, d, blob.length, fmtDigest alg (H p), p.length⟩
        | _, _ => .err "key"
      | .err e => .err e
      | .panic s => .panic s
      | .diverge => .diverge
    | .err e => .err e
    | .panic s => .panic s
    | .diverge => .diverge

/-- bytes requested by `sign` for the upload: the limited read, whatever the upload's length -/
def signAlloc (upload : Bytes) : Nat := (upload.take (maxSize + 1)).length

end Relic.Cosign

/-
  C16 — CMS structures survive parsing and re-encoding bit-exactly.
  Property theorems about `Relic.Model.Der` (model of the DER length/TLV layer of Go's encoding/asn1
  as used by /repo/lib/pkcs7, and of attributes.go / builder.go).  Helper lemmas: Relic/Proofs/Der*.lean.
-/
import Relic.Proofs.Der
import Relic.Proofs.DerTree
import Relic.Proofs.DerResynth
namespace Relic.Props.C16
open Relic Relic.Der

/-! ### length octets -/

/-- **len_codec.** Every length below 2^31 (the bound of Go's reader) survives encode → decode, whatever follows. -/
theorem len_codec (n : Nat) (rest : Bytes) (h : n < 2 ^ 31) : decLen (encLen n ++ rest) = .ok (n, rest) :=
  decLen_encLen n rest h

/-- **len_minimal.** Go's reader accepts *exactly* the minimal encodings of lengths below 2^31: what it
    consumed is `encLen n`, so re-encoding a decoded length always reproduces the octets. -/
theorem len_minimal (bs : Bytes) (n : Nat) (rest : Bytes) :
    decLen bs = .ok (n, rest) ↔ bs = encLen n ++ rest ∧ n < 2 ^ 31 :=
  ⟨decLen_inv bs n rest, fun ⟨e, h⟩ => e ▸ decLen_encLen n rest h⟩

/-- non-minimal long form, leading zero octet, indefinite form and 2^31 are refused; a BER reader
    would have accepted the first with a value whose re-encoding differs. -/
theorem len_nonminimal_refused :
    decLen [0x81, 0x05] = .err "structural" ∧ decLenLax [0x81, 0x05] = .ok (5, []) ∧ encLen 5 = [0x05] ∧
    decLen [0x82, 0x00, 0x80] = .err "structural" ∧ decLen [0x80, 0, 0] = .err "syntax" ∧
    decLen [0x84, 0x80, 0, 0, 0] = .err "structural" ∧
    decLen [0x84, 0x7f, 0xff, 0xff, 0xff] = .ok (2 ^ 31 - 1, []) := by decide

/-! ### TLV -/

/-- **tlv_roundtrip** (single-byte identifier octets, content below 2^31 bytes). -/
theorem tlv_roundtrip (t : UInt8) (c rest : Bytes) (ht : highTag t = false) (hc : c.length < 2 ^ 31) :
    untlv (tlv t c ++ rest) = .ok (t, c, rest) := untlv_tlv t c rest ht hc

/-- **tlv_unique.** Whatever the strict reader accepts is the canonical encoding of what it returns. -/
theorem tlv_unique (bs : Bytes) (t : UInt8) (c rest : Bytes) (h : untlv bs = .ok (t, c, rest)) :
    bs = tlv t c ++ rest := (untlv_inv bs t c rest h).1

/-! ### the SET OF that is digested -/

/-- **unsorted_set_is_retag.** `AttributeList.Bytes` is the SEQUENCE OF encoding with the first octet
    0x31: the attributes in the order of the list – nothing is sorted – under a minimal length. -/
theorem unsorted_set_is_retag (l : List Attr) :
    attrListBytes l = .ok (0x31 :: (encLen (l.flatMap encAttr).length ++ l.flatMap encAttr)) ∧
    encAttrList l = 0x30 :: (encLen (l.flatMap encAttr).length ++ l.flatMap encAttr) := by
  exact ⟨attrListBytes_eq l, rfl⟩

/-- anything whose tag number is not 16 is refused, and an empty encoding passes through -/
theorem retag_guard : retagSet [0x31, 0x00] = .err "expected-sequence" ∧ retagSet [] = .ok [] ∧
    retagSet [0x30, 0x00] = .ok [0x31, 0x00] ∧ retagSet [0xB0, 0x00] = .ok [0xB1, 0x00] := by decide

/-! ### signed attributes are digested as emitted -/

/-- Elements that the encoder can have produced and the reader can take back. -/
def ElemsOk (l : List (UInt8 × Bytes)) : Prop := ∀ p ∈ l, highTag p.1 = false ∧ p.2.length < 2 ^ 31

/-- **attrs_digested_as_emitted.** For a signer info as `asn1.Marshal` emits it from the builder
    (three elements, then the attributes under identifier 0xA0, then the rest – with or without
    unauthenticated attributes), `AuthenticatedAttributesBytes` of the *parsed* value (RawContent set,
    whatever the parsed attribute list is) returns exactly the bytes the builder hashed and signed,
    `AttributeList.Bytes` of the attribute list it emitted. -/
theorem attrs_digested_as_emitted (pre post : List (UInt8 × Bytes)) (attrs parsedAttrs : List Attr)
    (hpre : pre.length = 3) (hwf : ElemsOk (pre ++ post))
    (htot : ((pre ++ (0xA0, attrsContent attrs) :: post).flatMap (fun p => tlv p.1 p.2)).length < 2 ^ 31) :
    authAttrBytes ⟨emitSignerInfo pre (some attrs) post, parsedAttrs⟩ = attrListBytes attrs := by
  have ha : (attrsContent attrs).length < 2 ^ 31 := by
    have : (attrsContent attrs).length ≤
        ((pre ++ (0xA0, attrsContent attrs) :: post).flatMap (fun p => tlv p.1 p.2)).length := by
      simp [tlv]; omega
    omega
  rw [authAttrBytes_emit pre post attrs parsedAttrs hpre hwf ha htot, attrListBytes_eq]

/-- **adding_timestamp_preserves_signed.** What follows the attributes in the signer info (signature
    algorithm, signature, unauthenticated attributes such as an added timestamp token) has no influence
    on the digested bytes. -/
theorem adding_timestamp_preserves_signed (pre post post' : List (UInt8 × Bytes)) (attrs a1 a2 : List Attr)
    (hpre : pre.length = 3) (hwf : ElemsOk (pre ++ post)) (hwf' : ElemsOk (pre ++ post'))
    (htot : ((pre ++ (0xA0, attrsContent attrs) :: post).flatMap (fun p => tlv p.1 p.2)).length < 2 ^ 31)
    (htot' : ((pre ++ (0xA0, attrsContent attrs) :: post').flatMap (fun p => tlv p.1 p.2)).length < 2 ^ 31) :
    authAttrBytes ⟨emitSignerInfo pre (some attrs) post, a1⟩ =
    authAttrBytes ⟨emitSignerInfo pre (some attrs) post', a2⟩ := by
  rw [attrs_digested_as_emitted pre post attrs a1 hpre hwf htot,
      attrs_digested_as_emitted pre post' attrs a2 hpre hwf' htot']

/-- **attrs_digested_as_parsed.** Foreign input: whenever `AuthenticatedAttributesBytes` succeeds on a
    parsed signer info, the input is `30 ‖ len ‖ elements`, the fourth element `e` stands in the input as
    `tag ‖ minimal length ‖ content`, and the result is that very element with the identifier octet
    replaced by 0x31 – i.e. the encoding a signer digested if it digested what it emitted. -/
theorem attrs_digested_as_parsed (si : SignerInfo) (out : Bytes) (hne : si.rawContent ≠ [])
    (h : authAttrBytes si = .ok out) :
    ∃ (c trailing : Bytes) (seq : List RawVal) (e : RawVal), si.rawContent = tlv 0x30 c ++ trailing ∧
      c = seq.flatMap (·.full) ∧ seq[3]? = some e ∧ e.full = tlv e.tag e.bytes ∧ out = 0x31 :: e.full.tail := by
  obtain ⟨c, tr, seq, e, h1, h2, h3, h4, h5⟩ := authAttrBytes_parsed si out hne h
  exact ⟨c, tr, seq, e, h1, h2, h3, h4, by rw [h5, h4]; rfl⟩

/-- **foreign_nonminimal_iff.** The exact condition for foreign input: reading an element `el` the BER
    way (any definite length form), relic's derivation `31 ‖ minimal length ‖ content` coincides with
    "the element as emitted, re-tagged" iff the strict reader accepts the element, i.e. iff its length
    octets are minimal.  (Go's reader is strict, so the other case is refused – next theorem.) -/
theorem foreign_nonminimal_iff (el : Bytes) (t : UInt8) (c : Bytes) (hc : c.length < 2 ^ 31)
    (h : untlvLax el = .ok (t, c, [])) :
    tlv 0x31 c = 0x31 :: el.tail ↔ untlv el = .ok (t, c, []) := lax_equal_iff_strict el t c hc h

/-- witness for the case where they differ, and what relic does with it: the `[0]` element
    `A0 81 02 05 00` (non-minimal length) is refused, never silently re-encoded. -/
theorem foreign_nonminimal_rejected :
    untlvLax [0xA0, 0x81, 0x02, 0x05, 0x00] = .ok (0xA0, [0x05, 0x00], []) ∧
    tlv 0x31 [0x05, 0x00] ≠ 0x31 :: [0xA0, 0x81, 0x02, 0x05, 0x00].tail ∧
    untlv [0xA0, 0x81, 0x02, 0x05, 0x00] = .err "structural" ∧
    authAttrBytes ⟨[0x30, 0x0f, 2, 1, 1, 0x30, 0, 0x30, 0, 0xA0, 0x81, 0x02, 0x05, 0x00, 4, 1, 9], []⟩
      = .err "structural" := by
  refine ⟨by decide, by decide, by decide, ?_⟩
  have e : ([0x30, 0x0f, 2, 1, 1, 0x30, 0, 0x30, 0, 0xA0, 0x81, 0x02, 0x05, 0x00, 4, 1, 9] : Bytes) =
      tlv 0x30 (tlv 2 [1] ++ (tlv 0x30 [] ++ (tlv 0x30 [] ++ [0xA0, 0x81, 0x02, 0x05, 0x00, 4, 1, 9]))) ++ [] := by decide
  have hu := untlv_tlv 0x30 (tlv 2 [1] ++ (tlv 0x30 [] ++ (tlv 0x30 [] ++ [0xA0, 0x81, 0x02, 0x05, 0x00, 4, 1, 9]))) []
    (by decide) (by decide)
  have hs : splitTLVs (tlv 2 [1] ++ (tlv 0x30 [] ++ (tlv 0x30 [] ++ [0xA0, 0x81, 0x02, 0x05, 0x00, 4, 1, 9])))
      = .err "structural" := by
    rw [splitTLVs_cons _ _ _ (by decide) (by decide), splitTLVs_cons _ _ _ (by decide) (by decide),
        splitTLVs_cons _ _ _ (by decide) (by decide)]
    have : splitTLVs [0xA0, 0x81, 0x02, 0x05, 0x00, 4, 1, 9] = .err "structural" := by
      rw [splitTLVs]
      have hx : untlv [0xA0, 0x81, 0x02, 0x05, 0x00, 4, 1, 9] = .err "structural" := by decide
      simp only [List.isEmpty_cons, Bool.false_eq_true, if_false]
      split <;> rename_i hh <;> rw [hx] at hh <;> (try cases hh) <;> rfl
    rw [this]
  unfold authAttrBytes
  simp only [e, hu, hs]
  rw [if_neg (by simp [tlv])]
  simp

/-! ### required attributes -/

def ctAttr (ctype : Bytes) : Attr := ⟨oidContentType, ⟨[], 0x31, tlv 0x06 ctype⟩⟩
def mdAttr (digest : Bytes) : Attr := ⟨oidMessageDigest, ⟨[], 0x31, tlv 0x04 digest⟩⟩

/-- **required_attrs_once.** If the caller added at least one authenticated attribute and none of its
    own has the content-type or message-digest OID, `Sign` appends exactly one content-type attribute
    (single value: the content's type) and one message-digest attribute (single value: the digest it
    was given for the content), after the caller's attributes, in that order. -/
theorem required_attrs_once (l : List Attr) (ctype digest : Bytes)
    (hl : ∀ a ∈ l, a.oid ≠ oidContentType ∧ a.oid ≠ oidMessageDigest) :
    builderAttrs (some l) ctype digest = some (l ++ [ctAttr ctype, mdAttr digest]) ∧
    (l ++ [ctAttr ctype, mdAttr digest]).countP (·.oid = oidContentType) = 1 ∧
    (l ++ [ctAttr ctype, mdAttr digest]).countP (·.oid = oidMessageDigest) = 1 := by
  have h1 : appendAttr l oidContentType (tlv 0x06 ctype) = l ++ [ctAttr ctype] :=
    appendAttr_absent l _ _ (fun a ha => (hl a ha).1)
  have h2 : appendAttr (l ++ [ctAttr ctype]) oidMessageDigest (tlv 0x04 digest) = (l ++ [ctAttr ctype]) ++ [mdAttr digest] := by
    apply appendAttr_absent
    intro a ha
    simp only [List.mem_append, List.mem_singleton] at ha
    rcases ha with ha | rfl
    · exact (hl a ha).2
    · show oidContentType ≠ oidMessageDigest
      decide
  have c1 : l.countP (·.oid = oidContentType) = 0 := by
    rw [List.countP_eq_zero]; intro a ha; simpa using (hl a ha).1
  have c2 : l.countP (·.oid = oidMessageDigest) = 0 := by
    rw [List.countP_eq_zero]; intro a ha; simpa using (hl a ha).2
  refine ⟨?_, ?_, ?_⟩
  · simp [builderAttrs, h1, h2]
  · rw [List.countP_append, c1]
    have e1 : decide ((ctAttr ctype).oid = oidContentType) = true := by simp [ctAttr]
    have e2 : decide ((mdAttr digest).oid = oidContentType) = false := by
      show decide (oidMessageDigest = oidContentType) = false
      decide
    simp [e1, e2]
  · rw [List.countP_append, c2]
    have e1 : decide ((ctAttr ctype).oid = oidMessageDigest) = false := by
      show decide (oidContentType = oidMessageDigest) = false
      decide
    have e2 : decide ((mdAttr digest).oid = oidMessageDigest) = true := by simp [mdAttr]
    simp [e1, e2]

/-- no authenticated attribute at all: none is added, the content digest is signed directly -/
theorem no_attrs_none_added (ctype digest : Bytes) :
    builderAttrs none ctype digest = none ∧ emitAuthAttrs none = [] := ⟨rfl, rfl⟩

/-- the hypothesis of `required_attrs_once` is needed: a caller-supplied content-type attribute gets a
    *second value* appended instead (two-valued attribute; no relic signer does this). -/
theorem required_attrs_caller_dup :
    builderAttrs (some [⟨oidContentType, ⟨[], 0x31, [6, 1, 42]⟩⟩]) [43] [7] =
      some [⟨oidContentType, ⟨[], 0x31, [6, 1, 42, 6, 1, 43]⟩⟩, mdAttr [7]] := by decide

/-- hazard of `appendAttr` on a *parsed* attribute (FullBytes set): the appended value lands in `Bytes`
    and is ignored by the encoder.  relic only appends to attribute lists it built itself. -/
theorem append_after_parse_dropped (oid full bytes v : Bytes) (hf : full ≠ []) :
    encAttrList (appendAttr [⟨oid, ⟨full, 0x31, bytes⟩⟩] oid v) = encAttrList [⟨oid, ⟨full, 0x31, bytes⟩⟩] := by
  cases full with
  | nil => exact absurd rfl hf
  | cons x xs => simp [appendAttr, encAttrList, attrsContent, encAttr, encRaw]

/-! ### raw-captured and re-synthesised nodes -/

/-- **raw_nodes_verbatim.** Whatever the reader (Go's strict one, or a BER-tolerant one), every node
    captured raw (`asn1.RawValue` with FullBytes: certificates, attribute value sets, issuer names,
    algorithm parameters) occurs byte-for-byte in the input and in the re-encoding, whatever is inside
    it and whatever happened to the framing around it. -/
theorem raw_nodes_verbatim (lax : Bool) (sh : Shape) (bs : Bytes) (f : Forest) (h : parse lax sh bs = .ok f) :
    ∀ s ∈ f.rawSlices, s <:+: bs ∧ s <:+: emit f := raw_slices_infix lax sh bs f h

/-- **resynth_roundtrip_strict.** With Go's reader every accepted input is re-encoded to exactly the
    input bytes – re-synthesised headers included, `RawContent` structs (ContentInfo, SignerInfo)
    included – as long as no trailing element was dropped (and, outside this model, no SET OF had to
    be re-sorted and all primitive contents were canonical). -/
theorem resynth_roundtrip_strict (sh : Shape) (bs : Bytes) (f : Forest) (hs : sh.noTail = true)
    (h : parse false sh bs = .ok f) : emit f = bs := parse_strict_roundtrip sh bs f hs h

/-- **resynth_nodes_need_der_partial.** If the input read the BER way was in fact DER at every header
    the schema looks at (the strict reader accepts it too), the re-encoding reproduces it. -/
theorem resynth_nodes_need_der_partial (sh : Shape) (bs : Bytes) (f f' : Forest) (hs : sh.noTail = true)
    (hl : parse true sh bs = .ok f) (hd : parse false sh bs = .ok f') : emit f = bs := by
  have := parse_lax_of_strict sh bs f' hd
  rw [hl] at this
  injection this with e
  subst e
  exact parse_strict_roundtrip sh bs f hs hd

/-- **resynth_nodes_need_der** (was `resynth_nodes_need_der_full`).  Under a BER reader, a tree none of whose
    nodes is raw-captured (`sh.noRaw`: every header is re-synthesised) is reproduced by the re-encoding *iff* the
    strict reader accepts the input (with the same tree) — i.e. iff every header the schema looks at was DER.
    `bs.length < 2^31` is the limit of Go's parser (`parseTagAndLength` refuses longer lengths). -/
theorem resynth_nodes_need_der (sh : Shape) (bs : Bytes) (f : Forest) (hs : sh.noTail = true) (hr : sh.noRaw = true)
    (hb : bs.length < 2 ^ 31) (hl : parse true sh bs = .ok f) :
    emit f = bs ↔ parse false sh bs = .ok f := by
  rw [← parseMix_eq_strict sh hr bs]
  exact resynth_iff_mix sh bs f hs hb hl

/-- **resynth_nodes_need_der_mixed.**  The general form, raw-captured nodes included: the re-encoding reproduces the
    input iff the reader that is strict exactly at the re-synthesised headers (`prim`, `node`, `rawc`) and
    BER-tolerant at the raw-captured ones (`parseMix`) accepts it.  Raw-captured nodes never matter
    (`raw_nodes_verbatim`), re-synthesised ones always do. -/
theorem resynth_nodes_need_der_mixed (sh : Shape) (bs : Bytes) (f : Forest) (hs : sh.noTail = true)
    (hb : bs.length < 2 ^ 31) (hl : parse true sh bs = .ok f) :
    emit f = bs ↔ parseMix sh bs = .ok f := resynth_iff_mix sh bs f hs hb hl

/-- non-vacuity, both ways: a DER input (both sides true), a non-DER header on a re-synthesised node (both sides
    false), for a schema `SEQUENCE { prim, rawc { prim } }` -/
example : Shape.noTail (.node (.prim (.rawc .done)) .done) = true ∧ Shape.noRaw (.node (.prim (.rawc .done)) .done) = true ∧
    (parse true (.node (.prim (.rawc .done)) .done) [0x30, 8, 2, 1, 5, 0x30, 3, 4, 1, 7]).isOk = true ∧
    (parse false (.node (.prim (.rawc .done)) .done) [0x30, 8, 2, 1, 5, 0x30, 3, 4, 1, 7]).isOk = true ∧
    (parse true (.node (.prim (.rawc .done)) .done) [0x30, 9, 2, 0x81, 1, 5, 0x30, 3, 4, 1, 7]).isOk = true ∧
    (parse false (.node (.prim (.rawc .done)) .done) [0x30, 9, 2, 0x81, 1, 5, 0x30, 3, 4, 1, 7]).isOk = false := by decide

/-- the restriction to schemas without raw-captured nodes is needed for the statement with the *strict* reader on
    the right: a raw-captured node with a non-minimal header is reproduced although Go's reader refuses the
    input (this is the statement `resynth_nodes_need_der_full` asked for, without `noRaw`: it is false) -/
theorem resynth_nodes_need_der_needs_noRaw :
    ¬ ∀ (sh : Shape) (bs : Bytes) (f : Forest), sh.noTail = true → parse true sh bs = .ok f →
      (emit f = bs ↔ parse false sh bs = .ok f) := by
  intro h
  have := (h (.raw .done) [4, 0x81, 1, 7] (.raw [4, 0x81, 1, 7] .nil) (by decide) (by decide)).mp (by decide)
  revert this
  decide

/-- witness for the converse direction: a re-synthesised node with a non-minimal header changes, a raw
    node with the same liberty inside does not; a trailing element is dropped. -/
theorem resynth_changes_non_der :
    (parse true (.prim .done) [4, 0x81, 1, 7]).bind (fun f => .ok (emit f)) = .ok [4, 1, 7] ∧
    parse false (.prim .done) [4, 0x81, 1, 7] = .err "structural" ∧
    (parse true (.raw .done) [4, 0x81, 1, 7]).bind (fun f => .ok (emit f)) = .ok [4, 0x81, 1, 7] ∧
    (parse false (.node (.raw .done) .done) [0x30, 6, 0x31, 4, 4, 0x81, 1, 7]).bind (fun f => .ok (emit f))
      = .ok [0x30, 6, 0x31, 4, 4, 0x81, 1, 7] ∧
    (parse false (.node (.prim .tail) .done) [0x30, 6, 2, 1, 1, 2, 1, 2]).bind (fun f => .ok (emit f))
      = .ok [0x30, 3, 2, 1, 1] := by decide

/-! ### edits on a parsed SignedData: only the edited field changes -/

/-- **edit_preserves_other_fields.** Replacing field `i` of a parsed structure by one new node leaves every
    other field's emitted bytes – raw-captured or re-synthesised – exactly as they were, and the number
    of fields unchanged. -/
theorem edit_preserves_other_fields (i : Nat) (new f : Forest) (hi : i < (Forest.sibs f).length)
    (hn : (Forest.sibs new).length = 1) :
    (Forest.sibs (Forest.editField i new f)).length = (Forest.sibs f).length ∧
    ∀ j, j ≠ i → (Forest.sibs (Forest.editField i new f))[j]? = (Forest.sibs f)[j]? := by
  rw [Forest.sibs_editField]
  generalize Forest.sibs f = l at hi
  match hs : Forest.sibs new, hn with
  | [x], _ =>
    refine ⟨by simp [List.length_take, List.length_drop]; omega, fun j hj => ?_⟩
    rcases Nat.lt_or_gt_of_ne hj with h | h
    · rw [List.getElem?_append_left (by simp [List.length_take]; omega), List.getElem?_take_of_lt h]
    · rw [List.getElem?_append_right (by simp [List.length_take]; omega)]
      simp only [List.length_take, Nat.min_eq_left (Nat.le_of_lt hi), List.singleton_append]
      obtain ⟨k, rfl⟩ : ∃ k, j = i + 1 + k := ⟨j - (i + 1), by omega⟩
      have : i + 1 + k - i = k + 1 := by omega
      rw [this, List.getElem?_cons_succ, List.getElem?_drop]

/-- **detach_preserves_other_fields.** `Detach` on a parsed SignedData (children of its SEQUENCE:
    version, digestAlgorithms, contentInfo, certificates, crls, signerInfos – whichever are present, in
    whatever representation): the number of fields is unchanged, every field other than the ContentInfo
    (index 2) is emitted with the very bytes it had before – certificates, CRLs and every signer info
    included – and the whole `ContentInfoSignedData` is emitted as the fresh framing around these fields. -/
theorem detach_preserves_other_fields (kids : Forest) :
    (Forest.sibs (detachKids kids)).length = (Forest.sibs kids).length ∧
    (∀ j, j ≠ 2 → (Forest.sibs (detachKids kids))[j]? = (Forest.sibs kids)[j]?) ∧
    ∀ oid, emit (detachSD (wrapSD oid kids)) =
      tlv 0x30 (tlv 0x06 oid ++ tlv 0xA0 (tlv 0x30 (Forest.sibs (detachKids kids)).flatten)) := by
  refine ⟨?_, ?_, fun oid => emit_detachSD_wrapSD oid kids⟩
  all_goals
    unfold detachKids
    split
    · rename_i t full next hd
      split
      · rename_i oid _
        have hl : 2 < (Forest.sibs kids).length := by
          have := congrArg (fun f => (Forest.sibs f).length) hd
          simp only [Forest.sibs_dropSibs, List.length_drop, Forest.sibs, List.length_cons] at this
          omega
        first
          | exact (edit_preserves_other_fields 2 (detachedCI oid) kids hl (by simp [detachedCI, Forest.sibs])).1
          | exact (edit_preserves_other_fields 2 (detachedCI oid) kids hl (by simp [detachedCI, Forest.sibs])).2
      · first | rfl | exact fun _ _ => rfl
    · first | rfl | exact fun _ _ => rfl

/-- **detach_removes_content.** … and the ContentInfo field becomes `SEQUENCE { contentType }`: the
    encapsulated content is gone, the content type stays. -/
theorem detach_removes_content (kids : Forest) (t : UInt8) (full oid : Bytes) (next : Forest)
    (hd : Forest.dropSibs 2 kids = .rawc t full next) (ho : ciOid full = some oid) :
    (Forest.sibs (detachKids kids))[2]? = some (tlv 0x30 (tlv 0x06 oid)) := by
  have hl : 2 < (Forest.sibs kids).length := by
    have := congrArg (fun f => (Forest.sibs f).length) hd
    simp only [Forest.sibs_dropSibs, List.length_drop, Forest.sibs, List.length_cons] at this
    omega
  simp only [detachKids, hd, ho, Forest.sibs_editField]
  rw [List.getElem?_append_right (by simp [List.length_take]; omega)]
  simp [List.length_take, Nat.min_eq_left (Nat.le_of_lt hl), detachedCI, Forest.sibs, emit]

/-- a SignedData with certificates *and* CRLs: after `Detach` the CRL field (index 4) is still there,
    byte for byte; a rebuild that forgets the field (`editField 4 .nil`) is a different encoding. -/
theorem detach_keeps_crls :
    let kids : Forest := .prim 2 [1] (.node 0x31 (.raw [0x30, 0] .nil) (.rawc 0x30 [0x30, 7, 6, 1, 42, 0xA0, 2, 4, 0]
      (.node 0xA0 (.raw [0x30, 1, 7] .nil) (.node 0xA1 (.raw [0x30, 1, 9] .nil) (.node 0x31 (.rawc 0x30 [0x30, 0] .nil) .nil)))))
    (Forest.sibs (detachKids kids))[4]? = some [0xA1, 3, 0x30, 1, 9] ∧
    (Forest.sibs (detachKids kids))[2]? = some [0x30, 3, 6, 1, 42] ∧
    (Forest.sibs kids)[2]? = some [0x30, 7, 6, 1, 42, 0xA0, 2, 4, 0] ∧
    emit (Forest.editField 4 .nil (detachKids kids)) ≠ emit (detachKids kids) := by decide

/-! ### non-vacuity -/

example : encLen 127 = [0x7f] ∧ encLen 128 = [0x81, 0x80] ∧ encLen 65536 = [0x83, 1, 0, 0] := by
  refine ⟨by decide, ?_, ?_⟩
  · rw [encLen, if_neg (by decide), lenLen_1 _ (by decide)]; decide
  · rw [encLen, if_neg (by decide), lenLen_3 _ (by decide) (by decide)]; decide
example : untlv (tlv 0x04 [1, 2, 3] ++ [9]) = .ok (0x04, [1, 2, 3], [9]) := by decide
example : ElemsOk [(0x02, [1]), (0x30, [0x30, 0]), (0x30, [6, 1, 42])] := by
  intro p hp; simp only [List.mem_cons, List.not_mem_nil, or_false] at hp
  rcases hp with rfl | rfl | rfl <;> decide
/-- attributes in descending order stay in that order -/
example : attrListBytes [⟨[43], ⟨[], 0x31, [5, 0]⟩⟩, ⟨[42], ⟨[0x31, 0x02, 5, 0], 0, []⟩⟩] =
    .ok [0x31, 18, 0x30, 7, 6, 1, 43, 0x31, 2, 5, 0, 0x30, 7, 6, 1, 42, 0x31, 2, 5, 0] := by decide
example : ∀ a ∈ [(⟨[42], ⟨[], 0x31, [5, 0]⟩⟩ : Attr)], a.oid ≠ oidContentType ∧ a.oid ≠ oidMessageDigest := by decide
example : Shape.noTail (.node (.prim (.node (.rawc (.raw .done)) .done)) .done) = true := by decide
example : (2 : Nat) < (Forest.sibs (Forest.prim 2 [1] (.node 0x31 .nil (.rawc 0x30 [0x30, 3, 6, 1, 42] .nil)))).length ∧
    (Forest.sibs (detachedCI [42])).length = 1 := by decide
example : Forest.dropSibs 2 (Forest.prim 2 [1] (.node 0x31 .nil (.rawc 0x30 [0x30, 3, 6, 1, 42] .nil))) = .rawc 0x30 [0x30, 3, 6, 1, 42] .nil ∧
    ciOid [0x30, 3, 6, 1, 42] = some [42] := by decide

end Relic.Props.C16

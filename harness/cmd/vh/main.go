// vh: the verification harness. vh <property> gen|impl
package main

import (
	"bufio"
	"fmt"
	"os"

	"verifharness/c12"
	"verifharness/hx"
)

func main() {
	if len(os.Args) < 3 {
		fmt.Fprintln(os.Stderr, "usage: vh <Cnn> gen|impl")
		os.Exit(2)
	}
	prop, cmd := os.Args[1], os.Args[2]
	w := bufio.NewWriterSize(os.Stdout, 1<<20)
	defer w.Flush()
	switch prop + " " + cmd {
	case "C12 gen":
		c12.Gen(w, hx.Seed(), hx.Tier())
	case "C12 impl":
		w.Flush()
		c12.Impl()
	default:
		fmt.Fprintln(os.Stderr, "unknown", prop, cmd)
		os.Exit(2)
	}
}

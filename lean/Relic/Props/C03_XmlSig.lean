/-
  C03 — Signing preserves the payload.   XML-DSig part, at tree level (relic re-serialises the tree with etree):
  the tree `Sign` returns is the input tree with the parent's `Signature`-tagged children removed and one Signature
  element appended as last child; nothing else changes.  Taking that last child away gives back the input (minus old
  signatures), so its canonical form – the reference stream – is the one that was signed.
-/
import Relic.Props.C08_XmlSig
namespace Relic.Props.C03
open Relic Relic.Xml Relic.XmlSig

/-- **xml_payload_preserved.** -/
theorem xml_payload_preserved (S : Scheme) (ctx0 : List (List Attr)) (sp tag : Bytes) (as : List Attr) (ks : List Node)
    (h : HashId) (kt : KeyType) (o : SignOptions) :
    ∃ sig, isElemTag sSignature sig = true ∧
      (sign S ctx0 (.elem sp tag as ks) [] h kt o).out = .elem sp tag as (removeElements sSignature ks ++ [sig]) ∧
      removeAt [(removeElements sSignature ks).length] (sign S ctx0 (.elem sp tag as ks) [] h kt o).out =
        .elem sp tag as (removeElements sSignature ks) ∧
      (sign S ctx0 (.elem sp tag as ks) [] h kt o).refStream = canon ctx0 (.elem sp tag as (removeElements sSignature ks)) := by
  refine ⟨_, C08.isSig_signatureNode S o _ _, rfl, ?_, rfl⟩
  simp [sign, mapKidsAt, removeAt, C01.eraseIdx_append_last]

/-- an unsigned input (no Signature-tagged child of the parent) is a prefix of the output, unchanged -/
theorem xml_payload_preserved_unsigned (S : Scheme) (ctx0 : List (List Attr)) (sp tag : Bytes) (as : List Attr) (ks : List Node)
    (h : HashId) (kt : KeyType) (o : SignOptions) (hun : ∀ k ∈ ks, isElemTag sSignature k = false) :
    removeAt [ks.length] (sign S ctx0 (.elem sp tag as ks) [] h kt o).out = .elem sp tag as ks := by
  have e : removeElements sSignature ks = ks := by
    apply List.filter_eq_self.mpr
    intro k hk
    simp [hun k hk]
  have := (xml_payload_preserved S ctx0 sp tag as ks h kt o).choose_spec.2.2.1
  rw [e] at this
  exact this

example (S : Scheme) : removeAt [1] (sign S [] (el [97] [] [txt [104]]) [] .sha1 .ecdsa ⟨true, false, true, true⟩).out =
    el [97] [] [txt [104]] :=
  xml_payload_preserved_unsigned S [] [] [97] [] [txt [104]] .sha1 .ecdsa _ (by decide)

end Relic.Props.C03

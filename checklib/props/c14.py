"""C14 — concurrent requests are isolated and race-free."""
import hashlib, os, re, subprocess, sys
import runner
sys.path.insert(0, os.path.join(os.path.dirname(os.path.dirname(os.path.abspath(__file__))), "models"))
import chttp as _chttp   # compression layer: CHTTP ops as a second correspondence under the pseudo-property C14CH

TIE = "gen:sharedstate + corr:server.Handler"
TIE_THEOREM = ("Relic.Props.C14.inventory_closed / inventory_live (inventory of shared mutable state re-extracted from server, "
               "server/daemon, signers/*, internal/signinit, internal/zhttp, token/tokencache, lib/compresshttp, lib/audit, cmdline/shared, "
               "internal/closeonce) and Relic.Driver.C14 vs the real handler under concurrent clients")
RULE = ("T-gen: tools/extractshared lists every package-level var (and every receiver field of the infrastructure packages) written outside "
        "init, with the mutex lexically held at the write; `inventory_closed` (by `decide`) requires each entry to be a shared component of "
        "Relic.Model.Server.knownShared under the same lock or an allow-listed write (with reason). "
        "Dynamic: real s.Handler() behind httptest TLS with client certificates; two fake tokens (one rate limited) with four distinct keys "
        "(2x ECDSA P-256, 2x RSA-2048 with OpenPGP certificates); N in {2,8,16,64} concurrent clients sending a generated mix of /sign "
        "(cosign, ps, pgp x 3 digests x per-signer flags x 4 keys x 4 bodies, plus invalid ones), /list_keys, /keys/{k}, /health while a goroutine "
        "runs the real healthCheck in a loop; key cache off / 3 ms expiry / long-lived; every 2xx response is verified with independent code "
        "against THAT request's body, key, digest and flags, compared with the canonical response of the same request issued alone, audit file: "
        "one complete JSON line per 2xx sign with that request's fields. Shutdown: http.Server.Shutdown at a random delay with one connection "
        "per request: every handler that started is answered correctly, Shutdown returns nil, later requests fail to connect. The model side "
        "enumerates EVERY interleaving of the two-request scenarios (up to 1969110 merges each) and evaluates the isolation predicate. "
        "Thorough tier: the same ops through a -race build; a race report is a violation. "
        "Non-trivial = scenario with at least two requests that reach a token concurrently or a shutdown that refused/answered a strict subset.")
ASSUMPTIONS = ["http.Server.Shutdown's contract (stops accepting, waits for active connections, then returns) is assumed, not modelled",
               "O_APPEND write(2) of one buffer is atomic with respect to other appenders (kernel; see C06)",
               "a sync.Mutex critical section is atomic with respect to other holders of the same mutex (Go runtime)",
               "rate.Limiter.Wait returns once a token is available and tokens refill (golang.org/x/time/rate)",
               "the lock named at a write by the extractor (lexical Lock()/Unlock() pairing in the same function) is the lock held at run time",
               "objects classified per-request in Relic.Model.Server.allowList (zhttp.Logger, compresshttp.responseCompressor, audit.Info) "
               "are not shared between requests: checked dynamically only (record/response mix-ups would show), reasons recorded in the table",
               "prometheus counters/gauges are internally synchronised (commutative increments in the model)",
               "token.KeyID pinning in Cache.GetKey is not used by the server path and is not modelled here (see C15)"]
TRUSTED = ["tools/extractshared (go/ast -> Lean list; syntactic write and lock detection)",
           "Relic.Model.Server: granularity of the model (one critical section = one atomic step)",
           "fake tokens, client and verification code in harness/c14 (crypto/ecdsa, crypto/rsa, ProtonMail openpgp, relic's own "
           "authenticode.VerifyPowershell for the ps signer)",
           "Go race detector (thorough tier only; supports the search, proves nothing)"]
UNPROVED = ["data_race_free_full (Go-memory-model races are outside any model; -race run only)"]
IMPL_PARALLEL = 8
IMPL_TIMEOUT = 1800
EXTRA_MODULES = ()

GEN = os.path.join(runner.LEAN, "Relic", "Generated", "SharedState.lean")
_state = {"diag": "", "gen": {}}
ENTRY = re.compile(r'⟨"([^"]*)", "([^"]*)", "([^"]*)", (none|\(?some "([^"]*)"\)?)⟩')


def _entries(path):
    try:
        src = runner.strip_lean_comments(open(path).read())
    except OSError:
        return []
    return [(m.group(1), m.group(2), m.group(3), m.group(5) or "") for m in ENTRY.finditer(src)]


def generate(ctx):
    """T-gen: re-extract the inventory of shared mutable state from the current working tree."""
    tool = runner.build_tool("extractshared")
    os.makedirs(os.path.dirname(GEN), exist_ok=True)
    if os.path.exists(GEN):
        os.remove(GEN)
    r = subprocess.run([tool, runner.REPO, GEN], stdout=subprocess.PIPE, stderr=subprocess.STDOUT, text=True)
    info = {"extractor_rc": r.returncode, "extractor_msg": r.stdout.strip()[-600:]}
    if not os.path.exists(GEN):
        open(GEN, "w").write("/- GENERATED: extractor failed: %s -/\nimport Relic.Model.Server\n" % r.stdout.replace("-/", "- /")[-400:])
    src = open(GEN).read()
    info["generated_sha256"] = hashlib.sha256(src.encode()).hexdigest()
    info["generated_entries"] = len(_entries(GEN))
    _state["gen"] = info
    ctx["c14_gen"] = info
    # how the transform goroutines use the *os.File they share with Apply (tools/extractlocks -> Generated/Locks.lean;
    # obligation transform_goroutines_positional_generated in Props/C14_Offsets.lean)
    ltool = runner.build_tool("extractlocks")
    lgen = os.path.join(runner.LEAN, "Relic", "Generated", "Locks.lean")
    ltmp = lgen + ".tmp." + str(os.getpid())
    lr = runner.sh([ltool, runner.REPO, ltmp])
    if lr.returncode != 0 or not os.path.exists(ltmp):
        raise runner.Broken("extractlocks failed (ZipToTar / transformer.send not found?)", lr.stdout[-2000:])
    if not os.path.exists(lgen) or open(ltmp).read() != open(lgen).read():
        os.replace(ltmp, lgen)
    else:
        os.remove(ltmp)
    return []  # the generated obligations are theorems of Props/C14*.lean (inventory_closed, inventory_live, transform_goroutines_positional_generated)
    _chttp.generate(ctx)  # Relic.Generated.CompressHttp (compresshttp_package_state_readonly)
    return []  # the generated obligations are theorems of Props/C14.lean (inventory_closed, inventory_live)


def search_after_broken_obligation(ctx, broken):
    """name the inventory entries that the model's tables do not cover (the dynamic search runs afterwards anyway)"""
    table = set(_entries(os.path.join(runner.LEAN, "Relic", "Model", "Server.lean")))
    gen = _entries(GEN)
    extra = [e for e in gen if e not in table]
    gone = []
    if not extra and "inventory" not in (broken.detail or ""):
        return []
    what = "; ".join("%s.%s written in %s under %s" % (p, v, f, l or "NO LOCK") for p, v, f, l in extra[:6]) or "(see build output)"
    return [runner.Finding("broken-tie", "gen:sharedstate", "Relic.Props.C14.inventory_closed", "",
                           "every write to shared state is a known component under its lock, or allow-listed",
                           "not covered by Relic.Model.Server.knownShared/allowList: " + what + "\n" + (broken.detail or "")[-1500:],
                           "shared-state inventory of the source no longer matches the model")]


def _race_run(ctx, ops):
    """thorough tier: the same binary built with -race; any report is a concrete failing schedule"""
    out = os.path.join(runner.BUILD, "vh-race")
    env = dict(runner.GOENV, CGO_ENABLED="1")
    with runner.Lock("go"):
        r = runner.sh(["go", "build", "-race", "-tags", "verif", "-o", out, "./cmd/vh"], cwd=os.path.join(runner.VERIF, "harness"), env=env)
    if r.returncode != 0:
        return {"race_build": "unavailable: " + r.stdout[-300:]}, []
    sel = [o for o in ops if o.split()[1] in ("conc", "shut")]
    sel = sel[:60]
    renv = dict(env, VERIF_SEED=str(ctx["seed"]), VERIF_TIER=ctx["tier"], GORACE="halt_on_error=0")
    p = subprocess.run([out, "C14", "impl"], input="\n".join(sel) + "\n", stdout=subprocess.PIPE, stderr=subprocess.PIPE, text=True,
                       env=renv, timeout=3000)
    lines = [l for l in p.stdout.split("\n") if l]
    info = {"race_build": "ok", "race_ops": len(sel), "race_answers": len(lines), "race_reports": p.stderr.count("WARNING: DATA RACE")}
    findings = []
    # cold starts: a fresh process per op whose FIRST requests overlap (lazily initialised state is written under contention)
    cold = []
    for o in [x for x in sel if x.split()[1] == "conc"][:8]:
        f = o.split()
        cold.append(" ".join([f[0], "cold"] + f[2:]))
    cold_reports = 0
    for o in cold:
        q = subprocess.run([out, "C14", "impl"], input=o + "\n", stdout=subprocess.PIPE, stderr=subprocess.PIPE, text=True, env=renv, timeout=600)
        if "WARNING: DATA RACE" in q.stderr:
            cold_reports += 1
            if cold_reports == 1:
                i = q.stderr.index("WARNING: DATA RACE")
                findings.append(runner.Finding("counterexample", "race-detector", "data_race_free (search only: go build -race)", o,
                                               "no data race report", q.stderr[i:i + 6000],
                                               "first requests of a fresh server process, all at once; replay: VERIF_SEED=%d ./check C14 --tier thorough" % ctx["seed"]))
        elif not q.stdout.startswith("ok cold") or " wrong=0" not in q.stdout:
            findings.append(runner.Finding("counterexample", "race-build", "Relic.Props.C14.isolation", o, "ok cold ... wrong=0", (q.stdout + q.stderr[-1500:])[:3000], ""))
    info["race_cold_ops"] = len(cold)
    info["race_cold_reports"] = cold_reports
    if "WARNING: DATA RACE" in p.stderr:
        i = p.stderr.index("WARNING: DATA RACE")
        findings.append(runner.Finding("counterexample", "race-detector", "data_race_free (search only: go build -race)", sel[0] if sel else "",
                                       "no data race report", p.stderr[i:i + 6000],
                                       "replay: VERIF_SEED=%d ./check C14 --tier thorough (report is schedule dependent)" % ctx["seed"]))
    bad = [l for l in lines if not l.startswith("ok ") or re.search(r"(wrong|differ|miss|dup|mism|torn|lost|late)=[1-9]", l)]
    if bad or len(lines) != len(sel):
        findings.append(runner.Finding("counterexample", "race-build", "Relic.Props.C14.isolation", sel[0] if sel else "",
                                       "same observations as the normal build", (bad[0] if bad else "process died: " + p.stderr[-2000:])[:4000], ""))
    return info, findings


def run(ctx):
    mod = __import__("props.c14", fromlist=["x"])
    cov, findings, known = ({}, [], []) if _chttp.replay_only_chttp(ctx) else runner.correspondence("C14", ctx, mod)
    cov["generated"] = _state["gen"]
    cov["generated_obligations"] = ["inventory_closed", "inventory_live"]
    if ctx["tier"] == "thorough" and ctx.get("replay_ops") is None:
        env = dict(runner.GOENV, VERIF_SEED=str(ctx["seed"]), VERIF_TIER="quick")
        g = subprocess.run([runner.VH, "C14", "gen"], stdout=subprocess.PIPE, stderr=subprocess.PIPE, text=True, env=env)
        info, f2 = _race_run(ctx, [l for l in g.stdout.split("\n") if l])
        cov["race"] = info
        findings += f2
    return _chttp.second(ctx, "C14", "C14CH", cov, findings, known)


def canon_impl(il):
    i = il.find(" | ")
    if i < 0:
        _state["diag"] = ""
        return il
    _state["diag"] = il[i + 3:]
    return il[:i]


def _diag():
    d = {}
    for kv in _state["diag"].split(" "):
        if "=" in kv:
            k, v = kv.split("=", 1)
            d[k] = v
    return d


def weight(op):
    f = op.split()
    try:
        return int(f[3])
    except (IndexError, ValueError):
        return 1


def nontrivial(op, mres, tag):
    f = op.split()
    if len(f) < 4:
        return False
    if f[1] == "shut":
        return True
    m = re.search(r"st=(\S*)", mres)
    return bool(m) and m.group(1).count("2") >= 2


def branch(op, mres, tag):
    f = op.split()
    return "%s cache=%s n=%s" % (f[1], f[2], f[3]) if len(f) > 3 else "bad"


def predicate(op, il, mres, tag):
    """the property itself, evaluated on what the real handler did"""
    if op.split()[1] == "healthbusy":
        if il != "ok 200":
            return ("Relic.Props.C14.isolation", "ok 200 (answered at once from the last known state)",
                    "a health request that overlaps a hanging token ping: " + il)
        return None
    if op.split()[1] == "cachecancel":
        if il.split()[1:2] != ["b=1"]:
            return ("Relic.Props.C14.isolation", "every other request is answered as in isolation (with the key)",
                    "the cancellation of one request inside the shared key cache reached concurrent requests: " + il)
        return None
    if il.startswith("panic") or il.startswith("crash") or il.startswith("not-run"):
        return ("Relic.Props.C14.isolation", mres, "implementation crashed (fatal error: concurrent map access, deadlock, panic): " + il[:300])
    if "VIOLATED" in tag or re.search(r"violations=[1-9]", tag):
        return ("Relic.Props.C14.isolation", "every interleaving of the model satisfies the isolation predicate", "model-side enumeration: " + tag)
    if not il.startswith("ok "):
        return None
    d = _diag()
    n = lambda k: int(d.get(k, "0") or 0)
    det = d.get("detail", "-")
    if n("wrong") > 0:
        return ("Relic.Props.C14.isolation", "the signature covers that request's body and is made with that request's key, digest and options",
                "wrong=%d %s" % (n("wrong"), det))
    if n("differ") > 0:
        return ("Relic.Props.C14.isolation", "each request receives the result it would receive in isolation", "differ=%d %s" % (n("differ"), det))
    if n("torn") > 0 or n("miss") > 0 or n("dup") > 0 or n("mism") > 0:
        return ("Relic.Props.C14.isolation", "audit_complete: one complete record per successful sign, carrying that request's fields",
                "torn=%d miss=%d dup=%d mism=%d %s" % (n("torn"), n("miss"), n("dup"), n("mism"), det))
    if n("lost") > 0 or n("late") > 0:
        return ("Relic.Props.C14.shutdown_drains", "in-flight requests finish; later arrivals are refused; nothing is lost",
                "lost=%d late=%d %s" % (n("lost"), n("late"), det))
    if op.split()[1] == "shut" and d.get("lines") != d.get("n2xxsign"):
        return ("Relic.Props.C14.isolation", "audit lines = delivered signatures", "lines=%s n2xxsign=%s" % (d.get("lines"), d.get("n2xxsign")))
    return None


def matches_known(k, op, il, mres, tag):
    return False


# --- TSX conc ops (concurrent signing through ONE shared time-stamper: limiter, cache, pools): a second
# correspondence, checklib/models/tsx.py; theorems Relic.Props.C14.shared_stamper_order_irrelevant / shared_limiter_only_delays
import sys as _sys
_sys.path.insert(0, os.path.join(os.path.dirname(os.path.dirname(os.path.abspath(__file__))), "models"))
import tsx as _tsx
_run_c14 = run


def run(ctx):
    return _tsx.combined(ctx, _run_c14, "C14")


# --- SCD ops (concurrent signing through ONE scdaemon token: token/scdtoken over lib/assuan against a fake scdaemon): a further
# correspondence under the pseudo-property C14SCD, checklib/models/scd.py; theorems Relic.Props.C14.scd_sign_pair_atomic /
# scd_sign_pair_not_atomic_without_lock; T-gen tools/extractscd -> Relic.Generated.ScdLocks (scd_sign_holds_token_lock_generated)
import composite as _composite, scd as _scd
UNPROVED = UNPROVED + _scd.UNPROVED["C14"]
_run_c14_scd, _gen_c14_scd = run, generate


def generate(ctx):
    r = _gen_c14_scd(ctx)
    _scd.generate(ctx)
    return r


def run(ctx):
    own, none = _composite.split_replay(ctx, ["scd"])
    cov, f, k = ({"evaluations": 0, "distinct_nontrivial": 0}, [], []) if none else _run_c14_scd(own)
    return _scd.second(ctx, "C14", cov, f, k)


# --- DAEMON ops (server/daemon New / Serve / Close, internal/activation, zhttp recovery against the REAL daemon on loopback listeners):
# a further correspondence under the pseudo-property C14DMN, checklib/models/daemon.py; theorems in lean/Relic/Props/C14_Daemon.lean
import sys as _sys_dmn, os as _os_dmn
_sys_dmn.path.insert(0, _os_dmn.path.join(_os_dmn.path.dirname(_os_dmn.path.dirname(_os_dmn.path.abspath(__file__))), "models"))
import daemon as _dmn; _dmn.wrap(globals(), "C14")

/-
  C11 — what bounds the decoded size of a request body?  (Relic.Model.CompressHttp: DecompressRequest /
  Middleware of lib/compresshttp.)  Answer proved here: nothing in the package and nothing in the server
  (no http.MaxBytesReader, no io.LimitReader around request.Body): the handler is handed the whole decoded
  stream, whose length is limited only by the codec's expansion factor times the number of bytes on the
  wire.  With gzip that factor is about 1000 (measured by the tie), so a small upload can make a signer
  that buffers its input (io.ReadAll) allocate three orders of magnitude more: finding F-chttp-bomb.
-/
import Relic.Proofs.CompressHttp
import Relic.Generated.CompressHttp
namespace Relic.Props.C11
open Relic Relic.Transport Relic.CompressHttp

/-- the statement one would like: some limit `L` bounds what any handler is made to read -/
def decompress_bounded_full : Prop :=
  ∃ L : Nat, ∀ (fx : Bool) (C : Codecs) (next : Handler) (pre : Option Nat) (r : Req) (b : Bytes),
    (middlewareG fx C next pre r).ran = some (.complete b) → b.length ≤ L

/-- **decompress_unbounded.**  It is false — for every pair of codecs, every coding `k` and every
    length `n` there is a request under that coding whose body the handler reads to a clean end with
    exactly `n` decoded bytes. -/
theorem decompress_unbounded :
    (∀ (fx : Bool) (C : Codecs) (next : Handler) (pre : Option Nat) (k : Coding) (n : Nat),
      ∃ r : Req, requestCoding r = some k ∧
        (middlewareG fx C next pre r).ran = some (.complete (List.replicate n 0))) ∧
    ¬ decompress_bounded_full := by
  have key : ∀ (fx : Bool) (C : Codecs) (next : Handler) (pre : Option Nat) (k : Coding) (n : Nat),
      ∃ r : Req, requestCoding r = some k ∧
        (middlewareG fx C next pre r).ran = some (.complete (List.replicate n 0)) := by
    intro fx C next pre k n
    refine ⟨⟨[codingName k], [], ((C.of k).enc [.write (List.replicate n 0)], .eof)⟩, ?_, ?_⟩
    · exact requestCoding_name k [] _
    · have hk := requestCoding_name k [] ((C.of k).enc [.write (List.replicate n 0)], .eof)
      have hdec := (C.of k).roundtrip [.write (List.replicate n 0)]
      have ho := (C.of k).opens_of_dec _ _ hdec
      rw [middleware_ran fx C next pre _ k hk ho, readAll_eof _ _ _ hdec]
      simp [plainOf]
  refine ⟨key, ?_⟩
  intro ⟨L, hL⟩
  obtain ⟨r, _, hr⟩ := key true toyCodecs (fun _ => []) none .gzip (L + 1)
  have := hL true toyCodecs (fun _ => []) none r _ hr
  simp at this
  omega

/-- **decompress_bounded_by_expansion.**  The only bound there is: if every codec in use expands a
    stream by at most a factor `K` (identity: 1), the handler reads at most `K` times the bytes that
    arrived on the wire.  No constant term, no cap. -/
theorem decompress_bounded_by_expansion (fx : Bool) (C : Codecs) (K : Nat) (hK1 : 1 ≤ K)
    (hgz : ∀ w p, C.gz.dec w = some p → p.length ≤ K * w.length)
    (hsn : ∀ w p, C.sn.dec w = some p → p.length ≤ K * w.length)
    (next : Handler) (pre : Option Nat) (r : Req) (b : Bytes)
    (h : (middlewareG fx C next pre r).ran = some (.complete b)) : b.length ≤ K * r.body.1.length := by
  cases hk : requestCoding r with
  | none => rw [middleware_refuse fx C next pre r hk] at h; cases h
  | some k =>
    cases ho : (C.of k).opens r.body.1 with
    | false => rw [middleware_badopen fx C next pre r k hk ho] at h; cases h
    | true =>
      rw [middleware_ran fx C next pre r k hk ho] at h
      injection h with h
      unfold readAll at h
      split at h
      · cases h
      · split at h
        · next p hp =>
          injection h with h
          subst h
          cases k with
          | identity =>
            simp only [Codecs.of, idCodec] at hp
            injection hp with hp
            subst hp
            calc r.body.1.length = 1 * r.body.1.length := by omega
              _ ≤ K * r.body.1.length := Nat.mul_le_mul_right _ hK1
          | gzip => exact hgz _ _ hp
          | snappy => exact hsn _ _ hp
        · cases h

-- the toy codecs never expand (factor 1): the hypotheses are satisfiable; the real factors are measured by the tie
example : (middleware toyCodecs (fun _ => []) none ⟨[gzip], [], (encG [.write [5, 5, 5]], .eof)⟩).ran = some (.complete [5, 5, 5]) := by
  decide

/-- **decompress_no_state_no_panic.**  The model of the middleware is a total function without panic
    sites: every request, well-formed or not, is answered with a status (415, 400 or the handler's). -/
theorem decompress_total (fx : Bool) (C : Codecs) (next : Handler) (pre : Option Nat) (r : Req) :
    (middlewareG fx C next pre r).status = 415 ∨ (middlewareG fx C next pre r).status = 400 ∨
    (middlewareG fx C next pre r).ran ≠ none := by
  cases hk : requestCoding r with
  | none => left; rw [middleware_refuse fx C next pre r hk]; rfl
  | some k =>
    cases ho : (C.of k).opens r.body.1 with
    | false => right; left; rw [middleware_badopen fx C next pre r k hk ho]; rfl
    | true => right; right; rw [middleware_ran fx C next pre r k hk ho]; simp

/-! ## the signers that buffer (after the repair of F-chttp-bomb) -/

/-- **buffering_signers_bounded.**  For every limit and every (decoded) input stream, however long and
    however it ends: `ioutil.ReadAll(io.LimitReader(r, max+1))` holds at most `max + 1` bytes; an input
    longer than `max` is refused before any parsing (whatever follows in the stream, a read error
    included, is never looked at); an input of at most `max` bytes that ends cleanly is handed to the
    parser whole and unchanged; nothing else is accepted. -/
theorem buffering_signers_bounded (max : Nat) (s : Stream) :
    (bufferInput max s).held.length ≤ max + 1 ∧
    (max < s.1.length → (bufferInput max s).res = .err "too-large") ∧
    (s.1.length ≤ max → s.2 = .eof → bufferInput max s = ⟨s.1, .ok s.1⟩) ∧
    (∀ b, (bufferInput max s).res = .ok b → b = s.1 ∧ b.length ≤ max ∧ s.2 = .eof) := by
  have hlen : (s.1.take (max + 1)).length = min (max + 1) s.1.length := List.length_take
  refine ⟨?_, ?_, ?_, ?_⟩
  · unfold bufferInput
    simp only []
    split
    · simp only [hlen]; omega
    · split <;> (simp only [hlen]; omega)
  · intro h
    unfold bufferInput
    have : (s.1.take (max + 1)).length > max := by rw [hlen]; omega
    simp only []
    rw [if_pos this]
  · intro h he
    unfold bufferInput
    have h1 : ¬ (s.1.take (max + 1)).length > max := by rw [hlen]; omega
    have h2 : s.1.take (max + 1) = s.1 := List.take_of_length_le (by omega)
    simp only []
    rw [if_neg h1, he, h2]
  · intro b hb
    unfold bufferInput at hb
    simp only [] at hb
    split at hb
    · cases hb
    · next hgt =>
      rw [hlen] at hgt
      have hle : s.1.length ≤ max := by omega
      have h2 : s.1.take (max + 1) = s.1 := List.take_of_length_le (by omega)
      split at hb
      · next he =>
        simp only [Res.ok.injEq] at hb
        rw [h2] at hb
        exact ⟨hb.symm, by rw [← hb]; exact hle, he⟩
      · cases hb

/-- lengths-only form (what the native driver prints for the `sbuf` ops): bytes held = min (max + 1) n,
    refused iff n > max -/
theorem buffering_lengths (max : Nat) (s : Stream) :
    (bufferInput max s).held.length = min (max + 1) s.1.length ∧
    ((bufferInput max s).res = .err "too-large" ↔ max < s.1.length) := by
  have hlen : (s.1.take (max + 1)).length = min (max + 1) s.1.length := List.length_take
  constructor
  · unfold bufferInput
    simp only []
    split
    · exact hlen
    · split <;> exact hlen
  · constructor
    · intro h
      unfold bufferInput at h
      simp only [] at h
      split at h
      · next hgt => rw [hlen] at hgt; omega
      · split at h <;> simp at h
    · exact (buffering_signers_bounded max s).2.1

/-- the two signers: at most 64 MiB + 1 resp. 256 MiB + 1 bytes in memory, whatever the middleware hands on
    (`decompress_unbounded` remains true of the middleware itself) -/
theorem buffering_signers_limits (s : Stream) :
    (bufferInput appmanifestMax s).held.length ≤ 67108865 ∧ (bufferInput catMax s).held.length ≤ 268435457 := by
  have h1 := (buffering_signers_bounded appmanifestMax s).1
  have h2 := (buffering_signers_bounded catMax s).1
  have e1 : appmanifestMax = 67108864 := by decide
  have e2 : catMax = 268435456 := by decide
  rw [e1] at h1; rw [e2] at h2
  exact ⟨h1, h2⟩

example : bufferInput 3 ([1, 2, 3, 4, 5, 6], .eof) = ⟨[1, 2, 3, 4], .err "too-large"⟩ ∧
    bufferInput 3 ([1, 2, 3], .eof) = ⟨[1, 2, 3], .ok [1, 2, 3]⟩ ∧
    bufferInput 3 ([1, 2], .error true) = ⟨[1, 2], .err "read"⟩ := by decide

/-- **buffering_unbounded_orig** (finding F-chttp-bomb, the code before the repair): `ioutil.ReadAll(r)` held
    the whole input, of any length -/
theorem buffering_unbounded_orig (n : Nat) :
    (bufferInputOrig (List.replicate n 0, .eof)).held.length = n ∧
    (bufferInputOrig (List.replicate n 0, .eof)).res = .ok (List.replicate n 0) := by
  simp [bufferInputOrig]

/-- **generated_buffering_eq** (T-gen): both signers read through `io.LimitReader(r, maxInputSize+1)`, refuse
    `len(blob) > maxInputSize`, and their constants are the model's -/
theorem generated_buffering_eq :
    Generated.CompressHttp.bufferingSigners =
      [("signers/appmanifest", appmanifestMax, "io.LimitReader(r, maxInputSize+1)", "len(blob) > maxInputSize"),
       ("signers/cat", catMax, "io.LimitReader(r, maxInputSize+1)", "len(blob) > maxInputSize")] := by decide

end Relic.Props.C11

/-
  C08 — Re-signing replaces the signature; digests ignore existing signatures.   Apple disk image (UDIF) part.
  The two digests of a disk image are the hash of `image[0:bundle]` (code slot) and the hash of the trailer with
  SignatureOffset := bundle, SignatureLength := 0 and zero blank ranges (special slot −6).  Neither depends on whether
  a signature is present.  The patch replaces everything from `bundle` to the end, so an earlier signature is gone.
-/
import Relic.Proofs.Dmg
namespace Relic.Props.C08
open Relic Relic.Dmg Relic.CodeDir

/-- **dmg_digest_ignores_signature.** Two images whose trailers agree outside SignatureOffset, SignatureLength and the
    blank ranges, and which agree in front of the bundle size, are hashed identically (page stream and rep-specific
    bytes), whatever signature either of them carries. -/
theorem dmg_digest_ignores_signature (t t' f f' : Bytes) (pl pl' : Plan) (h : plan t f = .ok pl) (h' : plan t' f' = .ok pl')
    (hA : sl t 0 232 = sl t' 0 232) (hB : sl t 352 148 = sl t' 352 148)
    (hf : f.take pl.bundle.toNat = f'.take pl.bundle.toNat) :
    pl.bundle = pl'.bundle ∧ pl.stream = pl'.stream ∧ pl.rep = pl'.rep :=
  plan_digest_inputs t t' f f' pl pl' (plan_orig t f pl h).1 (plan_orig t' f' pl' h').1 hA hB hf

theorem bundle_le_of_fits (t f : Bytes) (pl : Plan) (h : plan t f = .ok pl) (hfit : pl.fits f.length = true) :
    0 ≤ pl.bundle ∧ pl.bundle.toNat + 512 ≤ f.length := by
  obtain ⟨_, h0, _⟩ := plan_safe t f pl h
  exact ⟨h0, (fits_iff pl f.length h0).mp hfit⟩

/-- **dmg_resign_replaces.** Signing relic's own output `g = written f pl b1` again (the trailer `transform` sends is
    the last 512 bytes of `g`): accepted by the guards and the `fits` test; same bundle size, page stream and rep-specific
    bytes as the first time; the old signature handed on for defaults is exactly `b1`; and the result with blob `b2` is
    what signing the original input with `b2` gives — image part, `b2`, trailer: nothing of `b1` survives. -/
theorem dmg_resign_replaces (t f : Bytes) (pl : Plan) (b1 b2 : Bytes) (h : plan t f = .ok pl)
    (hfit : pl.fits f.length = true) (hn : b1.length < 2 ^ 63) :
    let g := written f pl b1
    ∃ pl2, plan (g.drop (g.length - 512)) g = .ok pl2 ∧ pl2.fits g.length = true ∧ pl2.bundle = pl.bundle ∧
      pl2.stream = pl.stream ∧ pl2.rep = pl.rep ∧
      pl2.oldSig = (if pl.bundle = 0 then none else some b1) ∧ written g pl2 b2 = written f pl b2 := by
  intro g
  obtain ⟨h0, hb⟩ := bundle_le_of_fits t f pl h hfit
  have h1 : pl.bundle.toNat ≤ f.length := by omega
  have ho := (plan_orig t f pl h).1
  have hp := plan_written_fixed t f pl b1 h h1 hn
  have hpo := plan_written t f pl b1 ho h0 h1 hn
  have hlen : g.length = pl.bundle.toNat + b1.length + 512 := by
    have wf := plan_koly_wf t f pl ho
    have hel := enc_length (pl.newKoly b1.length) wf.head wf.tail
    simp only [g, written, List.length_append, List.length_take, hel]; omega
  refine ⟨_, hp, ?_, rfl, rfl, rfl, rfl, written_written t f pl _ b1 b2 ho h0 h1 hn hpo⟩
  show decide (pl.bundle ≤ ((g.length : Nat) : Int) - 512) = true
  rw [hlen]; simp only [decide_eq_true_eq]; omega

/-- one round on an image whose own trailer is accepted -/
theorem signRound_first (f : Bytes) (pl : Plan) (b : Bytes) (hl : 512 ≤ f.length)
    (h : plan (f.drop (f.length - 512)) f = .ok pl) (hfit : pl.fits f.length = true) :
    signRound f b = .ok (written f pl b) := by
  have : ¬ f.length < 512 := by omega
  simp [signRound, this, h, hfit]

/-- one round on relic's own output -/
theorem signRound_written (t f : Bytes) (pl : Plan) (b1 b2 : Bytes) (h : plan t f = .ok pl)
    (hfit : pl.fits f.length = true) (hn : b1.length < 2 ^ 63) :
    signRound (written f pl b1) b2 = .ok (written f pl b2) := by
  obtain ⟨pl2, hp, hf2, _, _, _, _, hw⟩ := dmg_resign_replaces t f pl b1 b2 h hfit hn
  obtain ⟨h0, hb⟩ := bundle_le_of_fits t f pl h hfit
  have hlen : 512 ≤ (written f pl b1).length := by
    have := (fits_iff pl2 _ (by obtain ⟨_, x, _⟩ := plan_safe _ _ _ hp; exact x)).mp hf2
    omega
  have c : ¬ (written f pl b1).length < 512 := by omega
  simp only [signRound, c, ↓reduceIte, hp, hf2]
  rw [hw]

/-- **dmg_history.** `sign^n` for every `n ≥ 1` and every sequence of blobs on an image the repaired `Sign` accepts: the
    result is the image part of the ORIGINAL input, the LAST blob, and the trailer for that blob — every earlier
    signature has been replaced, the image part never changes, every round is accepted again, and
    (C01.`dmg_sign_then_verify`, applicable to `written f pl last`) the result opens and is verified against the same
    page stream and rep-specific bytes as after the first round. -/
theorem dmg_history (f : Bytes) (pl : Plan) (hl : 512 ≤ f.length) (h : plan (f.drop (f.length - 512)) f = .ok pl)
    (hfit : pl.fits f.length = true) :
    ∀ (bs : List Bytes) (last : Bytes), (∀ b ∈ bs, b.length < 2 ^ 63) →
      history f (bs ++ [last]) = .ok (written f pl last) := by
  -- generalise over the current state: either the input or an output
  have step : ∀ (bs : List Bytes) (b0 last : Bytes), b0.length < 2 ^ 63 → (∀ b ∈ bs, b.length < 2 ^ 63) →
      history (written f pl b0) (bs ++ [last]) = .ok (written f pl last) := by
    intro bs
    induction bs with
    | nil =>
      intro b0 last hb0 _
      simp [history, signRound_written _ f pl b0 last h hfit hb0, Res.bind]
    | cons b bs ih =>
      intro b0 last hb0 hbs
      simp only [List.cons_append, history, signRound_written _ f pl b0 b h hfit hb0, Res.bind]
      exact ih b last (hbs b (by simp)) (fun x hx => hbs x (by simp [hx]))
  intro bs last hbs
  cases bs with
  | nil => simp [history, signRound_first f pl last hl h hfit, Res.bind]
  | cons b bs =>
    simp only [List.cons_append, history, signRound_first f pl b hl h hfit, Res.bind]
    exact step bs b last (hbs b (by simp)) (fun x hx => hbs x (by simp [hx]))

/-- **dmg_probe_unsigned.** The is-signed probe (`Verify` without digests) on an image with the koly magic and a zero
    SignatureLength answers "not signed", whatever SignatureOffset says. -/
theorem dmg_probe_unsigned (f : Bytes) (skip : Bool) (hl : 512 ≤ f.length)
    (hm : (decode (f.drop (f.length - 512))).magic = kolyMagic) (hz : (decode (f.drop (f.length - 512))).sigLength = 0) :
    verify f skip = .err "notsigned" := by
  have : ¬ f.length < 512 := by omega
  simp [verify, verifyG, openFileG, this, hm, hz, verifyBlob]

/-- the probe on relic's output reaches `csblob.Verify` with the new blob: it is not answered "not signed" by the
    container layer -/
theorem dmg_probe_signed (t f : Bytes) (pl : Plan) (blob : Bytes) (h : plan t f = .ok pl)
    (hfit : pl.fits f.length = true) (hne : blob ≠ []) (hmax : blob.length ≤ maxSig) :
    ∃ o, openFile (written f pl blob) = .ok o ∧ o.sigBlob = blob ∧ o.sigBlob ≠ [] := by
  obtain ⟨h0, hb⟩ := bundle_le_of_fits t f pl h hfit
  obtain ⟨_, _, hm⟩ := plan_safe t f pl h
  exact ⟨_, (verify_written t f pl blob true (plan_orig t f pl h).1 hm h0 (by omega) hne hmax).1, rfl, hne⟩

/-- **dmg_offset_without_length** (observation).  `Sign` takes "SignatureOffset ≠ 0" as "signed", `Open` takes
    "SignatureLength ≠ 0": an image with the offset set and a zero length is unsigned for the probe, yet `Sign` hands
    an EMPTY old signature to `csblob.Sign` (which refuses it: "parsing old signature: short read"). -/
theorem dmg_offset_without_length (t f : Bytes) (pl : Plan) (h : plan t f = .ok pl)
    (hso : (decode t).sigOffset ≠ 0) (hz : (decode t).sigLength = 0) : pl.oldSig = some [] := by
  obtain ⟨_, _, _, _, _, hor⟩ := plan_ok t f pl (plan_orig t f pl h).1
  rcases hor with ⟨h0, _⟩ | ⟨_, _, ho⟩
  · exact absurd h0 hso
  · rw [ho, hz]; simp [toI64]

/-! ### non-vacuity -/

set_option maxRecDepth 100000 in
example : sampleImage.drop (sampleImage.length - 512) = (sampleKoly 3 5 0 0).enc := by decide

set_option maxRecDepth 100000 in
example : history sampleImage [[9, 9], [7], [5, 5, 5]] = .ok (written sampleImage samplePlan [5, 5, 5]) :=
  dmg_history sampleImage samplePlan (by decide) (by decide) (by decide) [[9, 9], [7]] [5, 5, 5] (by decide)

set_option maxRecDepth 100000 in
example : verify sampleImage true = .err "notsigned" := dmg_probe_unsigned _ _ (by decide) (by decide) (by decide)

end Relic.Props.C08

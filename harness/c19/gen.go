package c19

// XML document generator: abstract random trees in three vocabularies (assembly/ClickOnce manifest,
// OPC package-signature object, AppX manifest) plus a free-form one, written out with random surface
// syntax (attribute order, quoting, character references, CDATA, empty-element form, white space in tags,
// comments, processing instructions).

import (
	"fmt"
	"strings"

	"verifharness/hx"
)

const (
	kElem = iota
	kText
	kCData
	kComment
	kPI
)

type gAttr struct{ prefix, local, value string }

type gNode struct {
	kind          int
	prefix, local string
	decls         []gAttr // prefix = declared prefix ("" = default), value = URI
	attrs         []gAttr
	kids          []*gNode
	text          string // text / cdata / comment; PI: local = target
}

type vocab struct {
	name     string
	rootPfx  string
	root     string
	rootDecl []gAttr
	elems    []string
	attrs    []string
	ns       [][2]string // prefix, uri available for new declarations
}

var vocabs = []vocab{
	{name: "asm", rootPfx: "asmv1", root: "assembly",
		rootDecl: []gAttr{{"", "", "urn:schemas-microsoft-com:asm.v2"}, {"asmv1", "", "urn:schemas-microsoft-com:asm.v1"},
			{"asmv2", "", "urn:schemas-microsoft-com:asm.v2"}, {"xsi", "", "http://www.w3.org/2001/XMLSchema-instance"},
			{"dsig", "", "http://www.w3.org/2000/09/xmldsig#"}, {"co.v1", "", "urn:schemas-microsoft-com:clickonce.v1"}},
		elems: []string{"assemblyIdentity", "description", "deployment", "dependency", "dependentAssembly", "hash", "file",
			"Transforms", "Transform", "DigestMethod", "DigestValue", "trustInfo", "security", "applicationRequestMinimum",
			"PermissionSet", "defaultAssemblyRequest", "entryPoint", "commandLine", "publisherIdentity"},
		attrs: []string{"name", "version", "publicKeyToken", "language", "processorArchitecture", "type", "publisher", "product",
			"install", "codebase", "size", "Algorithm", "dependencyType", "allowDelayedBinding", "schemaLocation", "manifestVersion", "ID", "Unrestricted"},
		ns: [][2]string{{"asmv1", "urn:schemas-microsoft-com:asm.v1"}, {"asmv2", "urn:schemas-microsoft-com:asm.v2"}, {"asmv3", "urn:schemas-microsoft-com:asm.v3"},
			{"dsig", "http://www.w3.org/2000/09/xmldsig#"}, {"xsi", "http://www.w3.org/2001/XMLSchema-instance"}, {"co.v1", "urn:schemas-microsoft-com:clickonce.v1"},
			{"", "urn:schemas-microsoft-com:asm.v2"}, {"", "urn:schemas-microsoft-com:asm.v1"}}},
	{name: "opc", rootPfx: "", root: "Signature",
		rootDecl: []gAttr{{"", "", "http://www.w3.org/2000/09/xmldsig#"}},
		elems: []string{"SignedInfo", "CanonicalizationMethod", "SignatureMethod", "Reference", "Transforms", "Transform", "DigestMethod",
			"DigestValue", "SignatureValue", "KeyInfo", "KeyValue", "RSAKeyValue", "Modulus", "Exponent", "X509Data", "X509Certificate",
			"Object", "Manifest", "SignatureProperties", "SignatureProperty", "SignatureTime", "Format", "Value", "RelationshipReference", "TimeStamp", "EncodedTime"},
		attrs: []string{"Id", "URI", "Algorithm", "Type", "Target", "SourceId", "Value", "URN", "type"},
		ns: [][2]string{{"", "http://www.w3.org/2000/09/xmldsig#"}, {"", "http://schemas.openxmlformats.org/package/2006/digital-signature"},
			{"mdssi", "http://schemas.openxmlformats.org/package/2006/digital-signature"}, {"opc", "http://schemas.openxmlformats.org/package/2006/relationships"},
			{"xsi", "http://www.w3.org/2001/XMLSchema-instance"}, {"ds", "http://www.w3.org/2000/09/xmldsig#"}}},
	{name: "appx", rootPfx: "", root: "Package",
		rootDecl: []gAttr{{"", "", "http://schemas.microsoft.com/appx/manifest/foundation/windows10"},
			{"uap", "", "http://schemas.microsoft.com/appx/manifest/uap/windows10"}, {"mp", "", "http://schemas.microsoft.com/appx/2014/phone/manifest"},
			{"rescap", "", "http://schemas.microsoft.com/appx/manifest/foundation/windows10/restrictedcapabilities"}},
		elems: []string{"Identity", "Properties", "DisplayName", "PublisherDisplayName", "Logo", "Dependencies", "TargetDeviceFamily", "Resources",
			"Resource", "Applications", "Application", "VisualElements", "DefaultTile", "SplashScreen", "Capabilities", "Capability", "DeviceCapability", "Extensions", "Extension", "PhoneIdentity"},
		attrs: []string{"Name", "Publisher", "Version", "ProcessorArchitecture", "IgnorableNamespaces", "MinVersion", "MaxVersionTested", "Language", "Id",
			"Executable", "EntryPoint", "DisplayName", "Description", "BackgroundColor", "Square150x150Logo", "Category", "PhoneProductId"},
		ns: [][2]string{{"uap", "http://schemas.microsoft.com/appx/manifest/uap/windows10"}, {"uap3", "http://schemas.microsoft.com/appx/manifest/uap/windows10/3"},
			{"mp", "http://schemas.microsoft.com/appx/2014/phone/manifest"}, {"rescap", "http://schemas.microsoft.com/appx/manifest/foundation/windows10/restrictedcapabilities"},
			{"", "http://schemas.microsoft.com/appx/manifest/foundation/windows10"}, {"build", "http://schemas.microsoft.com/developer/appx/2015/build"}}},
	{name: "wild", rootPfx: "", root: "r",
		elems: []string{"a", "b", "c", "d", "e", "f", "x", "y", "data", "item", "xmlnsx", "Xmlns"},
		attrs: []string{"a", "b", "c", "id", "k", "v", "w", "x", "lang", "space", "xmlnsy", "A", "B"},
		// prefix order and URI order deliberately disagree
		ns: [][2]string{{"a", "urn:z"}, {"b", "urn:y"}, {"c", "urn:x"}, {"d", "urn:w:1"}, {"a", "urn:other"}, {"", "urn:dflt"}, {"", "urn:dflt2"},
			{"p", "http://example.org/p"}, {"q", "HTTP://EXAMPLE.ORG/Q"}, {"zz", "a:first"}, {"A", "urn:zz"}, {"é", "urn:utf8"}}},
}

type genState struct {
	r      *hx.Rng
	v      *vocab
	odd    bool // allow documents outside the class Agree (redundant declarations, xmlns="", undeclared prefixes, PIs)
	budget int
	noCR   bool // no carriage returns in character data / attribute values
}

var textAlphabet = []string{"a", "b", "Z", "0", "9", " ", " ", "\t", "\n", "\r", "<", ">", "&", "\"", "'", "\u00e9", "\u4e2d", "\U0001F600", "]", "]]>", "=", "/", "-", ";", "&amp;", "#", "x", "\u00a0", "\ufffd", "\u0085", "\u2028"}

func (g *genState) randText(maxLen int) string {
	n := g.r.Intn(maxLen + 1)
	var sb strings.Builder
	for i := 0; i < n; i++ {
		sb.WriteString(textAlphabet[g.r.Intn(len(textAlphabet))])
	}
	if g.noCR {
		// also no "]]>": xmldsig.Verify re-parses its own canonical output with encoding/xml, which refuses a
		// literal ]]> inside attribute values (canonical form leaves '>' unescaped there)
		return strings.ReplaceAll(strings.ReplaceAll(sb.String(), "\r", ""), "]", ")")
	}
	return sb.String()
}

func (g *genState) wsText() string {
	ws := []string{" ", "\n", "\n  ", "\t", "\r\n    ", "  "}
	if g.noCR {
		return strings.ReplaceAll(ws[g.r.Intn(len(ws))], "\r", "")
	}
	return ws[g.r.Intn(len(ws))]
}

func (g *genState) value() string {
	switch g.r.Intn(6) {
	case 0:
		return ""
	case 1:
		return fmt.Sprintf("%d.%d.%d.%d", g.r.Intn(10), g.r.Intn(10), g.r.Intn(100), g.r.Intn(1000))
	case 2:
		return "urn:schemas-microsoft-com:HashTransforms.Identity"
	case 3:
		return hx.Hex(g.r.Bytes(1 + g.r.Intn(8)))
	default:
		return g.randText(8)
	}
}

type scope map[string]string

func (s scope) with(decls []gAttr) scope {
	n := scope{}
	for k, v := range s {
		n[k] = v
	}
	for _, d := range decls {
		n[d.prefix] = d.value
	}
	return n
}

func sortedKeys(s scope) []string {
	var ks []string
	for k := range s {
		ks = append(ks, k)
	}
	// insertion sort, deterministic
	for i := 1; i < len(ks); i++ {
		for j := i; j > 0 && ks[j] < ks[j-1]; j-- {
			ks[j], ks[j-1] = ks[j-1], ks[j]
		}
	}
	return ks
}

func hasDecl(decls []gAttr, p string) bool {
	for _, d := range decls {
		if d.prefix == p {
			return true
		}
	}
	return false
}

// pick a prefix for a name: mostly one in scope, sometimes declare a new one on this element
func (g *genState) pickPrefix(sc scope, n *gNode, forAttr bool) string {
	keys := sortedKeys(sc)
	roll := g.r.Intn(100)
	if roll < 55 && !forAttr {
		if _, ok := sc[""]; ok || g.r.Intn(3) == 0 {
			return ""
		}
	}
	switch {
	case roll < 80 && len(keys) > 0:
		k := keys[g.r.Intn(len(keys))]
		if forAttr && k == "" {
			return ""
		}
		return k
	case roll < 97 && len(g.v.ns) > 0:
		d := g.v.ns[g.r.Intn(len(g.v.ns))]
		if forAttr && d[0] == "" {
			return ""
		}
		if hasDecl(n.decls, d[0]) {
			return d[0]
		}
		if !g.odd && sc[d[0]] == d[1] {
			return d[0] // already bound to the same URI: no redundant redeclaration in the Agree class
		}
		n.decls = append(n.decls, gAttr{d[0], "", d[1]})
		return d[0]
	default:
		if g.odd && g.r.Intn(2) == 0 {
			return "undecl"
		}
		return ""
	}
}

func (g *genState) elem(depth int, sc scope) *gNode {
	n := &gNode{kind: kElem}
	n.local = g.v.elems[g.r.Intn(len(g.v.elems))]
	n.prefix = g.pickPrefix(sc, n, false)
	// unused declarations
	if g.r.Intn(5) == 0 && len(g.v.ns) > 0 {
		d := g.v.ns[g.r.Intn(len(g.v.ns))]
		if !hasDecl(n.decls, d[0]) && (g.odd || sc[d[0]] != d[1]) {
			n.decls = append(n.decls, gAttr{d[0], "", d[1]})
		}
	}
	if g.odd && g.r.Intn(12) == 0 && !hasDecl(n.decls, "") {
		n.decls = append(n.decls, gAttr{"", "", ""}) // xmlns=""
	}
	g.fill(n, depth, sc)
	return n
}

func (g *genState) fill(n *gNode, depth int, sc scope) {
	na := g.r.Pick(0, 0, 1, 1, 2, 3, 5)
	seen := map[string]bool{}
	for i := 0; i < na; i++ {
		a := gAttr{local: g.v.attrs[g.r.Intn(len(g.v.attrs))], value: g.value()}
		if g.r.Intn(4) == 0 {
			a.prefix = g.pickPrefix(sc.with(n.decls), n, true)
		} else if g.r.Intn(25) == 0 {
			a.prefix = "xml"
			a.local = []string{"lang", "space", "id"}[g.r.Intn(3)]
		}
		key := a.prefix + ":" + a.local
		if seen[key] {
			continue
		}
		seen[key] = true
		n.attrs = append(n.attrs, a)
	}
	sc2 := sc.with(n.decls)
	if depth <= 0 || g.budget <= 0 {
		if g.r.Intn(2) == 0 {
			n.kids = append(n.kids, &gNode{kind: kText, text: g.randText(10)})
		}
		return
	}
	nk := g.r.Pick(0, 1, 1, 2, 2, 3, 4, 6)
	for i := 0; i < nk; i++ {
		g.budget--
		switch r := g.r.Intn(20); {
		case r < 10:
			n.kids = append(n.kids, g.elem(depth-1, sc2))
		case r < 13:
			n.kids = append(n.kids, &gNode{kind: kText, text: g.randText(12)})
		case r < 16:
			n.kids = append(n.kids, &gNode{kind: kText, text: g.wsText()})
		case r < 17:
			n.kids = append(n.kids, &gNode{kind: kCData, text: strings.ReplaceAll(g.randText(8), "]]>", "]] >")})
		case r < 19:
			n.kids = append(n.kids, &gNode{kind: kComment, text: strings.ReplaceAll(g.randText(8), "-", "~")})
		default:
			if g.odd {
				n.kids = append(n.kids, &gNode{kind: kPI, local: "pi" + fmt.Sprint(g.r.Intn(3)), text: strings.TrimLeft(strings.ReplaceAll(g.randText(6), "?", "!"), " \t\r\n")})
			} else {
				n.kids = append(n.kids, &gNode{kind: kComment, text: "c"})
			}
		}
	}
}

// genDoc: one abstract document of the given vocabulary
func genDoc(r *hx.Rng, vi int, odd bool) *gNode { return genDocCR(r, vi, odd, false) }

func genDocCR(r *hx.Rng, vi int, odd, noCR bool) *gNode {
	g := &genState{r: r, v: &vocabs[vi], odd: odd, budget: 6 + r.Intn(40), noCR: noCR}
	root := &gNode{kind: kElem, prefix: g.v.rootPfx, local: g.v.root}
	for _, d := range g.v.rootDecl {
		if r.Intn(6) != 0 || d.prefix == g.v.rootPfx {
			root.decls = append(root.decls, d)
		}
	}
	g.fill(root, 1+r.Intn(5), scope{})
	return root
}

/* ---------- surface syntax ---------- */

type surf struct {
	r *hx.Rng
}

func (s *surf) escAttr(v string, q byte) string {
	var sb strings.Builder
	rs := []rune(v)
	for i, c := range rs {
		switch {
		case c == '>' && i >= 2 && rs[i-1] == ']' && rs[i-2] == ']':
			sb.WriteString("&gt;") // encoding/xml refuses a literal ]]> in attribute values too
		case c == '<':
			sb.WriteString("&lt;")
		case c == '&':
			sb.WriteString([]string{"&amp;", "&#38;", "&#x26;"}[s.r.Intn(3)])
		case c == rune(q):
			if q == '"' {
				sb.WriteString([]string{"&quot;", "&#34;"}[s.r.Intn(2)])
			} else {
				sb.WriteString([]string{"&apos;", "&#39;"}[s.r.Intn(2)])
			}
		case c == '\t':
			sb.WriteString([]string{"&#9;", "&#x9;", "\t"}[s.r.Intn(3)])
		case c == '\n':
			sb.WriteString([]string{"&#10;", "&#xA;", "\n"}[s.r.Intn(3)])
		case c == '\r':
			sb.WriteString([]string{"&#13;", "&#xD;", "&#xd;"}[s.r.Intn(3)])
		case c == '>':
			sb.WriteString([]string{"&gt;", ">"}[s.r.Intn(2)])
		case c == 0x85 || c == 0x2028:
			sb.WriteString(fmt.Sprintf("&#x%X;", c))
		default:
			if s.r.Intn(40) == 0 && c > ' ' {
				fmt.Fprintf(&sb, "&#%d;", c)
			} else {
				sb.WriteRune(c)
			}
		}
	}
	return sb.String()
}

func (s *surf) escText(v string) string {
	var sb strings.Builder
	rs := []rune(v)
	for i, c := range rs {
		switch {
		case c == '<':
			sb.WriteString([]string{"&lt;", "&#60;"}[s.r.Intn(2)])
		case c == '&':
			sb.WriteString("&amp;")
		case c == '>':
			if (i >= 2 && rs[i-1] == ']' && rs[i-2] == ']') || s.r.Intn(2) == 0 {
				sb.WriteString("&gt;")
			} else {
				sb.WriteByte('>')
			}
		case c == '\r':
			sb.WriteString([]string{"&#13;", "&#xD;"}[s.r.Intn(2)])
		case c == '"' && s.r.Intn(3) == 0:
			sb.WriteString("&quot;")
		case c == '\'' && s.r.Intn(3) == 0:
			sb.WriteString("&apos;")
		default:
			if s.r.Intn(40) == 0 && c > ' ' {
				fmt.Fprintf(&sb, "&#x%x;", c)
			} else {
				sb.WriteRune(c)
			}
		}
	}
	return sb.String()
}

func qname(p, l string) string {
	if p == "" {
		return l
	}
	return p + ":" + l
}

func (s *surf) sp() string {
	return []string{" ", " ", " ", "  ", "\n ", "\t"}[s.r.Intn(6)]
}

func (s *surf) write(sb *strings.Builder, n *gNode) {
	switch n.kind {
	case kText:
		sb.WriteString(s.escText(n.text))
	case kCData:
		// a literal CR inside CDATA would be normalised by the parser: keep it out
		sb.WriteString("<![CDATA[" + strings.ReplaceAll(n.text, "\r", "") + "]]>")
	case kComment:
		sb.WriteString("<!--" + strings.ReplaceAll(n.text, "\r", "") + "-->")
	case kPI:
		sb.WriteString("<?" + n.local)
		if n.text != "" {
			sb.WriteString(" " + strings.ReplaceAll(n.text, "\r", ""))
		}
		sb.WriteString("?>")
	case kElem:
		sb.WriteString("<" + qname(n.prefix, n.local))
		var all []gAttr
		for _, d := range n.decls {
			if d.prefix == "" {
				all = append(all, gAttr{"", "xmlns", d.value})
			} else {
				all = append(all, gAttr{"xmlns", d.prefix, d.value})
			}
		}
		all = append(all, n.attrs...)
		for i := len(all) - 1; i > 0; i-- {
			j := s.r.Intn(i + 1)
			all[i], all[j] = all[j], all[i]
		}
		for _, a := range all {
			q := byte('"')
			if s.r.Intn(3) == 0 {
				q = '\''
			}
			eq := "="
			if s.r.Intn(10) == 0 {
				eq = " = "
			}
			sb.WriteString(s.sp() + qname(a.prefix, a.local) + eq + string(q) + s.escAttr(a.value, q) + string(q))
		}
		if s.r.Intn(8) == 0 {
			sb.WriteString(" ")
		}
		if len(n.kids) == 0 {
			if s.r.Intn(2) == 0 {
				sb.WriteString("/>")
			} else {
				sb.WriteString("></" + qname(n.prefix, n.local) + ">")
			}
			return
		}
		sb.WriteString(">")
		for _, k := range n.kids {
			s.write(sb, k)
		}
		sb.WriteString("</" + qname(n.prefix, n.local))
		if s.r.Intn(8) == 0 {
			sb.WriteString(" ")
		}
		sb.WriteString(">")
	}
}

// serialise: the document text, optionally with prolog / trailing misc
func serialise(r *hx.Rng, root *gNode) []byte {
	s := &surf{r: r}
	var sb strings.Builder
	switch r.Intn(4) {
	case 0:
		sb.WriteString("<?xml version=\"1.0\" encoding=\"utf-8\"?>\n")
	case 1:
		sb.WriteString("<?xml version='1.0' encoding='UTF-8' standalone='yes'?><!-- prolog -->\n")
	case 2:
		sb.WriteString("\xef\xbb\xbf<?xml version=\"1.0\"?>")
	}
	s.write(&sb, root)
	if r.Intn(4) == 0 {
		sb.WriteString("\n<!-- trailer -->\n")
	}
	return []byte(sb.String())
}

/* ---------- meaning-preserving noise at tree level ---------- */

func cloneG(n *gNode) *gNode {
	c := *n
	c.decls = append([]gAttr(nil), n.decls...)
	c.attrs = append([]gAttr(nil), n.attrs...)
	c.kids = nil
	for _, k := range n.kids {
		c.kids = append(c.kids, cloneG(k))
	}
	return &c
}

// addNoise: comments anywhere, declarations of prefixes nothing uses
func addNoise(r *hx.Rng, n *gNode, serial *int) {
	if n.kind != kElem {
		return
	}
	if r.Intn(3) == 0 {
		*serial++
		n.decls = append(n.decls, gAttr{fmt.Sprintf("unused%d", *serial), "", "urn:unused:" + fmt.Sprint(r.Intn(3))})
	}
	var kids []*gNode
	for _, k := range n.kids {
		if r.Intn(4) == 0 {
			kids = append(kids, &gNode{kind: kComment, text: " noise "})
		}
		addNoise(r, k, serial)
		kids = append(kids, k)
	}
	if r.Intn(5) == 0 {
		kids = append(kids, &gNode{kind: kComment, text: "tail"})
	}
	n.kids = kids
}

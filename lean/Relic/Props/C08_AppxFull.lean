/-
  C08 (APPX), end to end: signing relic's own output again with the same parts reproduces the file and the five hashed
  streams (`appx_resign_idempotent`).  The statement `appx_resign_replaces_full` of C08_Appx.lean is provable but says
  nothing (`appx_resign_replaces_vacuous`).
  Proofs: Relic/Proofs/ZipOwn.lean, Relic/Proofs/AppxVerify.lean, Relic/Proofs/AppxRoundTrip.lean, Relic/Proofs/AppxResign.lean.
-/
import Relic.Props.C08_Appx
import Relic.Props.C01_AppxFull
import Relic.Proofs.AppxResign
namespace Relic.Props.C08
open Relic Relic.Zip Relic.ZipOwn Relic.Appx

/-- **appx_resign_replaces_vacuous.** `appx_resign_replaces_full` holds VACUOUSLY: it asks for SOME codec `c'` under which
    every successful second signing reproduces the file, and a codec whose manifest parser always fails never signs
    anything (`DigestAppxTar` ends with "no manifest").  The statement therefore carries no information about relic; the
    meaningful statement is `appx_resign_idempotent` below (same codec, the second signing SUCCEEDS). -/
theorem appx_resign_replaces_vacuous : appx_resign_replaces_full := by
  intro c z ps r _ _
  refine ⟨{ c with manifestOk := fun _ => false }, fun r' h' => ?_⟩
  exact absurd h' (sign_needs_manifestOk (fun _ => rfl) _ _ _)

/-- **appx_resign_idempotent.** For every codec, package and parts: if relic signs (`sign c z ps = .ok r`), then signing the
    output again with the SAME codec and the SAME parts succeeds and returns the same file and the same five streams
    (`∃ r', sign c r.out ps = .ok r' ∧ r'.out = r.out ∧ r'.streams = r.streams`), provided that
    * the deflated parts are coherent with the codec (block map, content types, signature, and the catalog when one is
      written; the manifest is stored), and the codec's parsers accept the parts relic wrote: manifest, content types, and
      the block map part parses to the block map this signing marshalled (`r.bm`: names and `Size` attributes);
    * sizes as in `C01.appx_sign_then_verify_zip`: manifest not empty, block map descriptor recognised (F7a), part sizes and
      signature length < 2^64, output < 2^63 (no 4 GiB limit since fix 7d5f1c2: `WriteDirectory` is idempotent).
    No hypothesis about `*.appx` members (F41 concerns the verifier only) nor about the payload otherwise: the second forward
    pass re-reads, at the same offsets of an identical prefix, what the first one read. -/
theorem appx_resign_idempotent (c : Codec) (z : Bytes) (ps : Parts) (r : Signed) (hsign : sign c z ps = .ok r)
    (hbm : c.inflate ps.blockmap.compd = some ps.blockmap.plain)
    (hct : c.inflate ps.ctypes.compd = some ps.ctypes.plain)
    (hcat : r.streams.axci.isSome = true → c.inflate ps.catalog.compd = some ps.catalog.plain)
    (hsg : c.inflate ps.signature.compd = some ps.signature.plain)
    (hmo : c.manifestOk ps.manifest.plain = true) (hcto : c.ctypesOk ps.ctypes.plain = true)
    (hold : c.blockMap ps.blockmap.plain = some (r.bm.map fun f => (f.name, f.blocks.map (·.2))))
    (hman : ps.manifest.plain ≠ [] ∧ ps.manifest.plain.length < 2 ^ 64)
    (hbms : descWideOk ps.blockmap.compd.length ps.blockmap.plain.length ∧
      ps.blockmap.compd.length < 2 ^ 64 ∧ ps.blockmap.plain.length < 2 ^ 64)
    (hcts : ps.ctypes.compd.length < 2 ^ 64 ∧ ps.ctypes.plain.length < 2 ^ 64)
    (hcats : r.streams.axci.isSome = true → ps.catalog.compd.length < 2 ^ 64 ∧ ps.catalog.plain.length < 2 ^ 64)
    (hsigs : ps.signature.plain.length < 2 ^ 64)
    (h63 : r.out.length < 2 ^ 63) :
    ∃ r', sign c r.out ps = .ok r' ∧ r'.out = r.out ∧ r'.streams = r.streams := by
  have hsmall : ∀ g, digest c z = .ok g → PartsSmall g.p.hasPE ps := by
    intro g hg n hn
    have hpe := C01.sign_digest_unique hsign hg
    cases hb : g.p.hasPE <;> simp only [partMembers, hb, List.append_nil, List.cons_append, List.nil_append, List.mem_cons,
      List.not_mem_nil, or_false, if_true, if_false, Bool.false_eq_true] at hn
    · rcases hn with rfl | rfl | rfl
      · exact ⟨hman.2, hman.2⟩
      · exact ⟨hbms.2.1, hbms.2.2⟩
      · exact hcts
    · rcases hn with rfl | rfl | rfl | rfl
      · exact ⟨hman.2, hman.2⟩
      · exact ⟨hbms.2.1, hbms.2.2⟩
      · exact hcts
      · exact hcats (by rw [hpe, hb])
  exact resign_same ⟨hsign, hman.1, hbms.1, hsmall, hsigs, h63⟩ hbm hct
    (fun g hg hb => hcat (by rw [C01.sign_digest_unique hsign hg, hb])) hsg hmo hcto hold

/-! ### non-vacuity -/

/-- a codec that inflates the deflated parts of `C05.psEx` and parses its block map part `[66]` as the block map the
    signing of `C05.zEx` marshals (payload member `a`, one block; the manifest, one block) -/
def cR : Codec :=
  { inflate := fun x => if x = [3, 0] then some [66] else if x = [3, 1] then some [67]
      else if x = [9, 9] then some [80, 75, 67, 88] else none,
    peOk := fun _ => true, manifestOk := fun _ => true,
    blockMap := fun x => if x = [66] then some [([97], [0]), (zipToDos Appx.sManifest, [0])] else none,
    ctypesOk := fun _ => true }

set_option maxRecDepth 20000 in
/-- the hypotheses of `appx_resign_idempotent` hold for the witness package of C05: its signed form is signed again into
    the same file -/
example : ∃ r r', sign cR C05.zEx C05.psEx = .ok r ∧ sign cR r.out C05.psEx = .ok r' ∧ r'.out = r.out ∧ r'.streams = r.streams := by
  have h : C05.okAnd (sign cR C05.zEx C05.psEx) (fun r => r.streams.axci.isNone &&
      decide (r.out.length < 2 ^ 63) &&
      decide (cR.blockMap C05.psEx.blockmap.plain = some (r.bm.map fun f => (f.name, f.blocks.map (·.2))))) = true := by decide
  obtain ⟨r, hr, hp⟩ := C01.okAnd_ok h
  simp only [Bool.and_eq_true, decide_eq_true_eq] at hp
  obtain ⟨⟨h1, h3⟩, h4⟩ := hp
  have hnone : ¬ r.streams.axci.isSome = true := by
    cases hx : r.streams.axci <;> simp [hx] at h1 ⊢
  obtain ⟨r', e1, e2, e3⟩ := appx_resign_idempotent cR C05.zEx C05.psEx r hr (by decide) (by decide) (fun hc => absurd hc hnone)
    (by decide) (by decide) (by decide) h4 (by decide) ⟨by unfold descWideOk; decide, by decide, by decide⟩ (by decide)
    (fun hc => absurd hc hnone) (by decide) h3
  exact ⟨r, r', hr, e1, e2, e3⟩

end Relic.Props.C08

/-
  Relic.Model.Magic — file-type detection (`lib/magic/magic.go`) and signer dispatch (`signers/signers.go`,
  `cmdline/{token,remotecmd}/signcmd.go`, `server/view_sign.go`, `cmdline/verify/verify.go`).

  What is modelled, line by line:
  * `bufio.NewReaderSize(r, 65540)` + `Peek`: nothing is ever consumed, so every `Peek(n)` looks at the stream from
    offset 0.  `Peek(n)` with `n ≤ 65540` yields the first `min n len` bytes and an error iff fewer than `n` arrived;
    with `n > 65540` it yields what the buffer holds and `ErrBufferFull`.  The stream is a fixed byte string followed by a
    persistent end (EOF or error): `peekAny` is the data, `peekOk` the data when `err == nil`.
  * `hasPrefix` / `atPosition` / `contains`, the `switch` of `Detect` as a decision list (`rules`, first match wins; a
    `case` with several expressions is a disjunction), the `MZ` case that probes `e_lfanew` (read as **uint16**) and leaves the
    switch without a verdict when the probe fails, `isTar` → `detectTar` (which returns Unknown).
  * `DetectCompressed`: gzip / xz / ZIP local-header prefixes, else `Detect`.  `detectZip` walks what `archive/zip` lists
    (a parameter: `none` = `zip.NewReader` failed), cleaning every name as the code does.
  * the registered signer modules in registration order and the three look-ups; `ByFile`; the `mod.Sign == nil` test of
    both sign commands; the server's `ByName(sigtype)`; `verifyOne`.
  Go slice expressions are `slice?` (a `none` would be a panic): see `detectR`.
  Repaired findings keep their original code as `…Orig…` definitions: `rulesOrigFM3` / `detectOrigFM3` (little-endian Mach-O
  magics only), `rulesOrigFM1` / `mzProbeOrig` / `detectOrigFM1` (4096-byte reader), `detectCompressedOrigP` (gzip / xz
  decoded), `serverDispatchOrig` (no test for a module without `Sign`).
  Core Lean only.
-/
import Relic.Base.Bytes
import Relic.Model.Deb
namespace Relic.Magic
open Relic

/-! ### types -/

/-- `magic.FileType`, in declaration order (`FileTypeUnknown = 0`) -/
inductive FileType where
  | unknown | rpm | deb | pgp | jar | pkcs7 | pecoff | msi | cab | appManifest | cat | appx | vsix | xap | apk
  | machO | machOFat | ipa | xar
  deriving Repr, DecidableEq, Inhabited

def FileType.all : List FileType :=
  [.unknown, .rpm, .deb, .pgp, .jar, .pkcs7, .pecoff, .msi, .cab, .appManifest, .cat, .appx, .vsix, .xap, .apk,
   .machO, .machOFat, .ipa, .xar]

def FileType.toNat : FileType → Nat
  | .unknown => 0 | .rpm => 1 | .deb => 2 | .pgp => 3 | .jar => 4 | .pkcs7 => 5 | .pecoff => 6 | .msi => 7 | .cab => 8
  | .appManifest => 9 | .cat => 10 | .appx => 11 | .vsix => 12 | .xap => 13 | .apk => 14 | .machO => 15 | .machOFat => 16
  | .ipa => 17 | .xar => 18

def FileType.ofNat? (n : Nat) : Option FileType := FileType.all[n]?

def FileType.name : FileType → String
  | .unknown => "unknown" | .rpm => "rpm" | .deb => "deb" | .pgp => "pgp" | .jar => "jar" | .pkcs7 => "pkcs7"
  | .pecoff => "pecoff" | .msi => "msi" | .cab => "cab" | .appManifest => "appmanifest" | .cat => "cat" | .appx => "appx"
  | .vsix => "vsix" | .xap => "xap" | .apk => "apk" | .machO => "macho" | .machOFat => "machofat" | .ipa => "ipa"
  | .xar => "xar"

/-- `magic.CompressionType` -/
inductive Compression where
  | none | gzip | xz
  deriving Repr, DecidableEq, Inhabited

def Compression.name : Compression → String
  | .none => "none" | .gzip => "gzip" | .xz => "xz"

/-! ### bufio -/

/-- the size of `Detect`'s buffer, `bufio.NewReaderSize(r, 0x10000+4)`: the most `Detect` can ever look at, and enough for
    the PE probe at any 16-bit `e_lfanew` -/
def bufSize : Nat := 65540

/-- `bufio`'s default buffer size, which `Detect` used before finding FM1 was repaired -/
def bufSizeOrig : Nat := 4096

/-- the bytes `br.Peek(n)` returns (whatever the error) -/
def peekAny (bs : Bytes) (n : Nat) : Bytes := bs.take (min n bufSize)

/-- the bytes `br.Peek(n)` returns when `err == nil` -/
def peekOk (bs : Bytes) (n : Nat) : Option Bytes :=
  if n ≤ bufSize ∧ n ≤ bs.length then some (bs.take n) else none

/-- `bytes.Contains(d, pat)` -/
def isInfix (pat : Bytes) : Bytes → Bool
  | [] => pat.isEmpty
  | c :: cs => pat.isPrefixOf (c :: cs) || isInfix pat cs

/-- `atPosition(br, pat, pos)`; `hasPrefix` is `pos = 0` -/
def atPos (bs pat : Bytes) (pos : Nat) : Bool :=
  let l := pos + pat.length
  let d := peekAny bs l
  if d.length < l then false else d.drop pos == pat

/-- `contains(br, pat, win)` -/
def containsIn (bs pat : Bytes) (win : Nat) : Bool :=
  let d := peekAny bs win
  if d.length < pat.length then false else isInfix pat d

/-! ### the decision list of `Detect` -/

inductive Test where
  | at (pos : Nat) (pat : Bytes)
  | contains (win : Nat) (pat : Bytes)
  deriving Repr, DecidableEq

inductive Action where
  /-- `return FileTypeX` -/
  | ret (t : FileType)
  /-- `return detectTar(br)` -/
  | tar
  /-- the body of `case hasPrefix(br, "MZ")` -/
  | mzpe
  /-- the same body over the 4096-byte reader of the original code (finding FM1) -/
  | mzpeOrig
  deriving Repr, DecidableEq

structure Rule where
  tests : List Test
  act : Action
  deriving Repr, DecidableEq

def Test.eval (bs : Bytes) : Test → Bool
  | .at pos pat => atPos bs pat pos
  | .contains win pat => containsIn bs pat win

def Rule.fires (bs : Bytes) (r : Rule) : Bool := r.tests.any (Test.eval bs)

def pRpm : Bytes := [0xed, 0xab, 0xee, 0xdb]
/-- `!<arch>\ndebian` -/
def pDeb : Bytes := [33, 60, 97, 114, 99, 104, 62, 10, 100, 101, 98, 105, 97, 110]
/-- `-----BEGIN PGP` -/
def pArmor : Bytes := [45, 45, 45, 45, 45, 66, 69, 71, 73, 78, 32, 80, 71, 80]
/-- DER of OID 1.3.6.1.4.1.311.10.1 (certTrustList) -/
def pOidCtl : Bytes := [0x06, 0x09, 0x2B, 0x06, 0x01, 0x04, 0x01, 0x82, 0x37, 0x0A, 0x01]
/-- DER of OID 1.2.840.113549.1.7.2 (signedData) -/
def pOidSigned : Bytes := [0x06, 0x09, 0x2A, 0x86, 0x48, 0x86, 0xF7, 0x0D, 0x01, 0x07, 0x02]
/-- `ustar` -/
def pUstar : Bytes := [117, 115, 116, 97, 114]
def pMZ : Bytes := [77, 90]
def pCfb : Bytes := [0xd0, 0xcf]
/-- `MSCF` -/
def pCab : Bytes := [77, 83, 67, 70]
/-- `<assembly` -/
def pAsm1 : Bytes := [60, 97, 115, 115, 101, 109, 98, 108, 121]
/-- `:assembly` -/
def pAsm2 : Bytes := [58, 97, 115, 115, 101, 109, 98, 108, 121]
def pMacho64 : Bytes := [0xcf, 0xfa, 0xed, 0xfe]
def pMacho32 : Bytes := [0xce, 0xfa, 0xed, 0xfe]
/-- big-endian images (`FE ED FA CF` / `FE ED FA CE`) -/
def pMacho64BE : Bytes := [0xfe, 0xed, 0xfa, 0xcf]
def pMacho32BE : Bytes := [0xfe, 0xed, 0xfa, 0xce]
def pFat : Bytes := [0xca, 0xfe, 0xba, 0xbe]
/-- `xar!` -/
def pXar : Bytes := [0x78, 0x61, 0x72, 0x21]
/-- `PE\0\0` -/
def pPE : Bytes := [80, 69, 0, 0]

/-- the `switch` of `Detect`, in source order -/
def rules : List Rule := [
  ⟨[.at 0 pRpm], .ret .rpm⟩,
  ⟨[.at 0 pDeb], .ret .deb⟩,
  ⟨[.at 0 pArmor], .ret .pgp⟩,
  ⟨[.contains 256 pOidCtl], .ret .cat⟩,
  ⟨[.contains 256 pOidSigned], .ret .pkcs7⟩,
  ⟨[.at 257 pUstar], .tar⟩,
  ⟨[.at 0 pMZ], .mzpe⟩,
  ⟨[.at 0 pCfb], .ret .msi⟩,
  ⟨[.at 0 pCab], .ret .cab⟩,
  ⟨[.contains 256 pAsm1, .contains 256 pAsm2], .ret .appManifest⟩,
  ⟨[.at 0 pMacho64, .at 0 pMacho32, .at 0 pMacho64BE, .at 0 pMacho32BE], .ret .machO⟩,
  ⟨[.at 0 pFat], .ret .machOFat⟩,
  ⟨[.at 0 pXar], .ret .xar⟩,
  ⟨[.at 0 [0x89], .at 0 [0xc2], .at 0 [0xc4]], .ret .pgp⟩
]

/-- the `switch` of `Detect` before the big-endian Mach-O magics were added (finding FM3) -/
def rulesOrigFM3 : List Rule := [
  ⟨[.at 0 pRpm], .ret .rpm⟩,
  ⟨[.at 0 pDeb], .ret .deb⟩,
  ⟨[.at 0 pArmor], .ret .pgp⟩,
  ⟨[.contains 256 pOidCtl], .ret .cat⟩,
  ⟨[.contains 256 pOidSigned], .ret .pkcs7⟩,
  ⟨[.at 257 pUstar], .tar⟩,
  ⟨[.at 0 pMZ], .mzpe⟩,
  ⟨[.at 0 pCfb], .ret .msi⟩,
  ⟨[.at 0 pCab], .ret .cab⟩,
  ⟨[.contains 256 pAsm1, .contains 256 pAsm2], .ret .appManifest⟩,
  ⟨[.at 0 pMacho64, .at 0 pMacho32], .ret .machO⟩,
  ⟨[.at 0 pFat], .ret .machOFat⟩,
  ⟨[.at 0 pXar], .ret .xar⟩,
  ⟨[.at 0 [0x89], .at 0 [0xc2], .at 0 [0xc4]], .ret .pgp⟩
]

/-- the `switch` of `Detect` with the `MZ` probe over the original 4096-byte reader (finding FM1) -/
def rulesOrigFM1 : List Rule := [
  ⟨[.at 0 pRpm], .ret .rpm⟩,
  ⟨[.at 0 pDeb], .ret .deb⟩,
  ⟨[.at 0 pArmor], .ret .pgp⟩,
  ⟨[.contains 256 pOidCtl], .ret .cat⟩,
  ⟨[.contains 256 pOidSigned], .ret .pkcs7⟩,
  ⟨[.at 257 pUstar], .tar⟩,
  ⟨[.at 0 pMZ], .mzpeOrig⟩,
  ⟨[.at 0 pCfb], .ret .msi⟩,
  ⟨[.at 0 pCab], .ret .cab⟩,
  ⟨[.contains 256 pAsm1, .contains 256 pAsm2], .ret .appManifest⟩,
  ⟨[.at 0 pMacho64, .at 0 pMacho32, .at 0 pMacho64BE, .at 0 pMacho32BE], .ret .machO⟩,
  ⟨[.at 0 pFat], .ret .machOFat⟩,
  ⟨[.at 0 pXar], .ret .xar⟩,
  ⟨[.at 0 [0x89], .at 0 [0xc2], .at 0 [0xc4]], .ret .pgp⟩
]

/-- the body of the `MZ` case: `Peek(0x3e)` complete, `reloc := uint16le(blob[0x3c:0x3e])`, `Peek(reloc+4)` without error,
    `blob[reloc:reloc+4] == "PE\0\0"` -/
def mzProbe (bs : Bytes) : Bool :=
  let blob := peekAny bs 0x3e
  if blob.length = 0x3e then
    let reloc := leVal (blob.drop 0x3c)
    match peekOk bs (reloc + 4) with
    | some b2 => b2.drop reloc == pPE
    | none => false
  else false

/-- `br.Peek(n)` with `err == nil` on the original 4096-byte reader -/
def peekOkOrig (bs : Bytes) (n : Nat) : Option Bytes :=
  if n ≤ bufSizeOrig ∧ n ≤ bs.length then some (bs.take n) else none

/-- the `MZ` probe of the original code: `Peek(reloc+4)` fails with `ErrBufferFull` beyond 4096 bytes -/
def mzProbeOrig (bs : Bytes) : Bool :=
  let blob := peekAny bs 0x3e
  if blob.length = 0x3e then
    let reloc := leVal (blob.drop 0x3c)
    match peekOkOrig bs (reloc + 4) with
    | some b2 => b2.drop reloc == pPE
    | none => false
  else false

def runAction (bs : Bytes) : Action → FileType
  | .ret t => t
  | .tar => .unknown
  | .mzpe => if mzProbe bs then .pecoff else .unknown
  | .mzpeOrig => if mzProbeOrig bs then .pecoff else .unknown

def detectWith : List Rule → Bytes → FileType
  | [], _ => .unknown
  | r :: rs, bs => if r.fires bs then runAction bs r.act else detectWith rs bs

/-- `magic.Detect` on a stream delivering `bs` -/
def detect (bs : Bytes) : FileType := detectWith rules bs

/-- `magic.Detect` with the Mach-O rule as it was before finding FM3 was repaired (little-endian magics only) -/
def detectOrigFM3 (bs : Bytes) : FileType := detectWith rulesOrigFM3 bs

/-- `magic.Detect` with the 4096-byte reader it had before finding FM1 was repaired -/
def detectOrigFM1 (bs : Bytes) : FileType := detectWith rulesOrigFM1 bs

/-- how many bytes of the stream can influence the verdict on `bs` -/
def inspected (bs : Bytes) : Nat :=
  if atPos bs pMZ 0 ∧ 0x3e ≤ bs.length then min bufSize (max 262 (leVal ((bs.take 0x3e).drop 0x3c) + 4)) else 262

/-- bytes taken from the underlying reader when it hands out everything it is asked for (`bytes.Reader`, a file) -/
def consumed (bs : Bytes) : Nat := min bs.length bufSize

/-! ### the same with every Go slice expression explicit -/

/-- `atPosition` with `d[n:]` as a slice expression -/
def atPosR (bs pat : Bytes) (pos : Nat) : Res Bool :=
  let l := pos + pat.length
  let d := peekAny bs l
  if d.length < l then .ok false else
  match slice? d pos d.length with
  | none => .panic "atPosition:d[n:]"
  | some s => .ok (s == pat)

def Test.evalR (bs : Bytes) : Test → Res Bool
  | .at pos pat => atPosR bs pat pos
  | .contains win pat => .ok (containsIn bs pat win)

def anyR (bs : Bytes) : List Test → Res Bool
  | [] => .ok false
  | t :: ts =>
    match t.evalR bs with
    | .ok true => .ok true
    | .ok false => anyR bs ts
    | .err e => .err e
    | .panic s => .panic s
    | .diverge => .diverge

/-- `reloc` is an `int` here (`int(binary.LittleEndian.Uint16(…))`), so `reloc+4` cannot wrap.  (In the original code it was a
    `uint16`; `blob[reloc:reloc+4]` would have wrapped for `reloc ≥ 0xFFFC`, which the 4096-byte reader made unreachable.) -/
def mzProbeR (bs : Bytes) : Res Bool :=
  let blob := peekAny bs 0x3e
  if blob.length = 0x3e then
    match slice? blob 0x3c 0x3e with
    | none => .panic "Detect:blob[0x3c:0x3e]"
    | some w =>
      let reloc := leVal w
      match peekOk bs (reloc + 4) with
      | some b2 =>
        match slice? b2 reloc (reloc + 4) with
        | none => .panic "Detect:blob[reloc:reloc+4]"
        | some s => .ok (s == pPE)
      | none => .ok false
  else .ok false

def runActionR (bs : Bytes) : Action → Res FileType
  | .ret t => .ok t
  | .tar => .ok .unknown
  | .mzpe =>
    match mzProbeR bs with
    | .ok true => .ok .pecoff
    | .ok false => .ok .unknown
    | .err e => .err e
    | .panic s => .panic s
    | .diverge => .diverge
  | .mzpeOrig => .ok (if mzProbeOrig bs then .pecoff else .unknown)

def detectWithR : List Rule → Bytes → Res FileType
  | [], _ => .ok .unknown
  | r :: rs, bs =>
    match anyR bs r.tests with
    | .ok true => runActionR bs r.act
    | .ok false => detectWithR rs bs
    | .err e => .err e
    | .panic s => .panic s
    | .diverge => .diverge

def detectR (bs : Bytes) : Res FileType := detectWithR rules bs

/-! ### ZIP family -/

/-- `if strings.HasPrefix(name, "/") { name = "." + name }; name = path.Clean(name)` -/
def zipName (n : Bytes) : Bytes := Deb.pathClean (if n.head? = some 47 then 46 :: n else n)

def nAndroid : Bytes := [65, 110, 100, 114, 111, 105, 100, 77, 97, 110, 105, 102, 101, 115, 116, 46, 120, 109, 108]
def nXap : Bytes := [65, 112, 112, 77, 97, 110, 105, 102, 101, 115, 116, 46, 120, 97, 109, 108]
def nAppx : Bytes := [65, 112, 112, 120, 77, 97, 110, 105, 102, 101, 115, 116, 46, 120, 109, 108]
def nBundle : Bytes := [65, 112, 112, 120, 77, 101, 116, 97, 100, 97, 116, 97, 47, 65, 112, 112, 120, 66, 117, 110, 100, 108,
  101, 77, 97, 110, 105, 102, 101, 115, 116, 46, 120, 109, 108]
def nVsix : Bytes := [101, 120, 116, 101, 110, 115, 105, 111, 110, 46, 118, 115, 105, 120, 109, 97, 110, 105, 102, 101, 115, 116]
/-- `META-INF/MANIFEST.MF` -/
def nManifest : Bytes := [77, 69, 84, 65, 45, 73, 78, 70, 47, 77, 65, 78, 73, 70, 69, 83, 84, 46, 77, 70]
/-- `.app/Info.plist` -/
def sIpa1 : Bytes := [46, 97, 112, 112, 47, 73, 110, 102, 111, 46, 112, 108, 105, 115, 116]
/-- `.app/Contents/Info.plist` -/
def sIpa2 : Bytes := [46, 97, 112, 112, 47, 67, 111, 110, 116, 101, 110, 116, 115, 47, 73, 110, 102, 111, 46, 112, 108, 105, 115, 116]

/-- the first `switch name` of `detectZip` (the cases that return) -/
def markers : List (Bytes × FileType) :=
  [(nAndroid, .apk), (nXap, .xap), (nAppx, .appx), (nBundle, .appx), (nVsix, .vsix)]

def ipaSuffixes : List Bytes := [sIpa1, sIpa2]

def isSuffix (s b : Bytes) : Bool := s.reverse.isPrefixOf b.reverse

def isIpaName (name : Bytes) : Bool := ipaSuffixes.any (fun s => isSuffix s name)

/-- the loop of `detectZip` over `inz.File` -/
def classifyLoop (isJar : Bool) : List Bytes → FileType
  | [] => if isJar then .jar else .unknown
  | n :: rest =>
    let name := zipName n
    match markers.lookup name with
    | some t => t
    | none =>
      if isIpaName name then .ipa else classifyLoop (isJar || name == nManifest) rest

/-- `detectZip`; `none` = `zip.NewReader` returned an error -/
def detectZip (zn : Option (List Bytes)) : FileType :=
  match zn with
  | none => .unknown
  | some names => classifyLoop false names

def pGzip : Bytes := [0x1f, 0x8b]
def pXz : Bytes := [253, 55, 122, 88, 90, 0]
def pZip : Bytes := [0x50, 0x4b, 0x03, 0x04]

/-- `isTar(zbr)` then `detectTar(zbr)` on the decoded stream (`none`: the decoder refused the header) -/
def innerType (inner : Option Bytes) : FileType :=
  match inner with
  | none => .unknown
  | some d => if atPos d pUstar 257 then .unknown else .unknown

/-- `DetectCompressed` as it was before finding FM7 was repaired: it opened the gzip / xz decoder and looked for a tar header
    in what came out (`inner` = the decoded stream, a parameter) -/
def detectCompressedOrigP (bs : Bytes) (zn : Option (List Bytes)) (inner : Option Bytes) : FileType × Compression :=
  if atPos bs pGzip 0 then (innerType inner, .gzip)
  else if atPos bs pXz 0 then (innerType inner, .xz)
  else if atPos bs pZip 0 then (detectZip zn, .none)
  else (detect bs, .none)

/-- `DetectCompressed` (the compressed stream is not decoded) -/
def detectCompressed (bs : Bytes) (zn : Option (List Bytes)) : FileType × Compression :=
  if atPos bs pGzip 0 then (.unknown, .gzip)
  else if atPos bs pXz 0 then (.unknown, .xz)
  else if atPos bs pZip 0 then (detectZip zn, .none)
  else (detect bs, .none)

/-- `Decompress`: which decoder (`none` = "invalid compression type") -/
def decompressKind (ctype : Int) : Option Compression :=
  if ctype = 0 then some .none else if ctype = 1 then some .gzip else if ctype = 2 then some .xz else none

/-! ### signer modules -/

inductive PathTest where
  /-- `strings.HasSuffix(s, ".dmg")` -/
  | dmg
  /-- `psExtMap[filepath.Ext(fp)]` present -/
  | ps
  deriving Repr, DecidableEq

structure Signer where
  name : Bytes
  aliases : List Bytes
  magic : FileType
  testPath : Option PathTest
  allowStdin : Bool
  hasSign : Bool
  hasVerify : Bool
  hasVerifyStream : Bool
  deriving Repr, DecidableEq

/-- `filepath.Ext` (Unix separator) -/
def extGo : Bytes → Bytes → Bytes
  | [], _ => []
  | c :: rest, acc => if c = 47 then [] else if c = 46 then 46 :: acc else extGo rest (c :: acc)

def ext (p : Bytes) : Bytes := extGo p.reverse []

def extDmg : Bytes := [46, 100, 109, 103]
/-- the keys of `psExtMap`: .ps1 .ps1xml .psc1 .psd1 .psm1 .cdxml .mof -/
def psExts : List Bytes := [[46, 112, 115, 49], [46, 112, 115, 49, 120, 109, 108], [46, 112, 115, 99, 49], [46, 112, 115, 100, 49],
  [46, 112, 115, 109, 49], [46, 99, 100, 120, 109, 108], [46, 109, 111, 102]]

def PathTest.eval (p : Bytes) : PathTest → Bool
  | .dmg => isSuffix extDmg p
  | .ps => psExts.contains (ext p)

def mk (name : Bytes) (magic : FileType) (sign verify : Bool) : Signer :=
  { name, aliases := [], magic, testPath := none, allowStdin := false, hasSign := sign, hasVerify := verify, hasVerifyStream := false }

def sAppmanifest : Signer := { mk [97, 112, 112, 109, 97, 110, 105, 102, 101, 115, 116] .appManifest true false with hasVerifyStream := true }
def sCosign : Signer := mk [99, 111, 115, 105, 103, 110] .unknown true false
def sDeb : Signer := mk [100, 101, 98] .deb true true
def sDmg : Signer := { mk [100, 109, 103] .unknown true true with testPath := some .dmg }
def sFat : Signer := mk [109, 97, 99, 104, 45, 111, 45, 102, 97, 116] .machOFat false true
def sIpa : Signer := mk [105, 112, 97] .ipa false true
def sMacho : Signer := mk [109, 97, 99, 104, 45, 111] .machO true true
def sPe : Signer := mk [112, 101, 45, 99, 111, 102, 102] .pecoff true true
def sCab : Signer := mk [99, 97, 98] .cab true true
def sMsi : Signer := { mk [109, 115, 105] .msi true true with aliases := [[109, 115, 105, 45, 116, 97, 114]] }
def sPgp : Signer := { mk [112, 103, 112] .pgp true false with allowStdin := true, hasVerifyStream := true }
def sPkcs7 : Signer := mk [112, 107, 99, 115, 55] .pkcs7 false true
def sCat : Signer := mk [99, 97, 116] .cat true true
def sPs : Signer := { mk [112, 115] .unknown true true with testPath := some .ps }
def sRpm : Signer := mk [114, 112, 109] .rpm true true
def sXar : Signer := mk [120, 97, 114] .xar true true
def sApk : Signer := mk [97, 112, 107] .apk true true
def sAppx : Signer := mk [97, 112, 112, 120] .appx true true
def sJar : Signer := mk [106, 97, 114] .jar true true
def sVsix : Signer := mk [118, 115, 105, 120] .vsix true true
def sXap : Signer := mk [120, 97, 112] .xap true true

/-- `signers.registered` in registration (package initialisation) order -/
def registered : List Signer :=
  [sAppmanifest, sCosign, sDeb, sDmg, sFat, sIpa, sMacho, sPe, sCab, sMsi, sPgp, sPkcs7, sCat, sPs, sRpm, sXar, sApk, sAppx,
   sJar, sVsix, sXap]

def Signer.answers (s : Signer) (n : Bytes) : Bool := s.name == n || s.aliases.contains n

/-- `signers.ByName` over a module list -/
def byNameIn (l : List Signer) (n : Bytes) : Option Signer := l.find? (·.answers n)
/-- `signers.ByMagic` -/
def byMagicIn (l : List Signer) (t : FileType) : Option Signer :=
  if t = .unknown then none else l.find? (·.magic == t)
/-- `signers.ByFileName` -/
def byFileNameIn (l : List Signer) (p : Bytes) : Option Signer :=
  l.find? (fun s => match s.testPath with | some t => t.eval p | none => false)

def byName := byNameIn registered
def byMagic := byMagicIn registered
def byFileName := byFileNameIn registered

inductive DErr where
  | nosigner | stdin | compressed | unknownType | cantsign (name : Bytes)
  deriving Repr, DecidableEq

instance {ε α : Type} [DecidableEq ε] [DecidableEq α] : DecidableEq (Except ε α) := fun a b =>
  match a, b with
  | .ok x, .ok y => if h : x = y then isTrue (by rw [h]) else isFalse (by intro e; cases e; exact h rfl)
  | .error x, .error y => if h : x = y then isTrue (by rw [h]) else isFalse (by intro e; cases e; exact h rfl)
  | .ok _, .error _ => isFalse (by intro e; cases e)
  | .error _, .ok _ => isFalse (by intro e; cases e)

/-- `signers.ByFile(name, sigtype)` for an existing regular file `name` with content `bs` -/
def byFileIn (l : List Signer) (name sigtype : Bytes) (bs : Bytes) (zn : Option (List Bytes)) : Except DErr Signer :=
  if sigtype ≠ [] then
    match byNameIn l sigtype with
    | none => .error .nosigner
    | some m => .ok m
  else if name = [45] then .error .stdin
  else
    let (t, c) := detectCompressed bs zn
    if c ≠ .none then .error .compressed
    else match byMagicIn l t with
      | some m => .ok m
      | none => match byFileNameIn l name with
        | some m => .ok m
        | none => .error .unknownType

def byFile := byFileIn registered

/-- the first lines of `signCmd` in `cmdline/token/signcmd.go` and in `cmdline/remotecmd/signcmd.go` (they are the same):
    `ByFile`, then `mod.Sign == nil` → "can't sign files of type" -/
def signDispatchIn (l : List Signer) (name sigtype : Bytes) (bs : Bytes) (zn : Option (List Bytes)) : Except DErr Signer :=
  match byFileIn l name sigtype bs zn with
  | .error e => .error e
  | .ok m => if m.hasSign then .ok m else .error (.cantsign m.name)

def signDispatch := signDispatchIn registered

/-- what `serveSign` does with the query values `filename`, `sigtype` (key present and authorised) -/
inductive SrvOut where
  | missingParameter
  | unknownSigtype
  /-- `mod.Sign(...)` entered -/
  | sign (m : Signer)
  /-- (original code only) `mod.Sign` is nil: calling it panics (recovered by the middleware: 500) -/
  | panicNilSign (m : Signer)
  deriving Repr, DecidableEq

/-- `serveSign` as it was before finding FM5 was repaired: no test for a module without `Sign` -/
def serverDispatchOrigIn (l : List Signer) (sigtype filename : Bytes) : SrvOut :=
  if filename = [] then .missingParameter else
  match byNameIn l sigtype with
  | none => .unknownSigtype
  | some m => if m.hasSign then .sign m else .panicNilSign m

def serverDispatchOrig := serverDispatchOrigIn registered

/-- `serveSign`: `if mod == nil || mod.Sign == nil { return ErrUnknownSignatureType }` -/
def serverDispatchIn (l : List Signer) (sigtype filename : Bytes) : SrvOut :=
  if filename = [] then .missingParameter else
  match byNameIn l sigtype with
  | none => .unknownSigtype
  | some m => if m.hasSign then .sign m else .unknownSigtype

def serverDispatch := serverDispatchIn registered

/-- `values.Add("sigtype", mod.Name)`: what the remote client asks the server for -/
def remoteDispatchIn (l : List Signer) (name sigtype : Bytes) (bs : Bytes) (zn : Option (List Bytes)) (base : Bytes) :
    Except DErr SrvOut :=
  match signDispatchIn l name sigtype bs zn with
  | .error e => .error e
  | .ok m => .ok (serverDispatchIn l m.name base)

def remoteDispatch := remoteDispatchIn registered

/-- what `verifyOne` enters -/
inductive VOut where
  | unknownType
  | compressed
  /-- `mod.VerifyStream(Decompress(f, c))` -/
  | stream (m : Signer) (c : Compression)
  /-- `mod.Verify(f)` -/
  | file (m : Signer)
  /-- neither entry point present: a nil call -/
  | panicNil (m : Signer)
  deriving Repr, DecidableEq

def verifyDispatchIn (l : List Signer) (name : Bytes) (bs : Bytes) (zn : Option (List Bytes)) : VOut :=
  let (t, c) := detectCompressed bs zn
  let mod := match byMagicIn l t with
    | some m => some m
    | none => byFileNameIn l name
  match mod with
  | none => .unknownType
  | some m =>
    if m.hasVerifyStream then .stream m c
    else if c ≠ .none then .compressed
    else if m.hasVerify then .file m else .panicNil m

def verifyDispatch := verifyDispatchIn registered

end Relic.Magic

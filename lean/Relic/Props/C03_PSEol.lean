/-
  C03 — Signing never corrupts or alters the payload.   PowerShell: the script text in front of an EXISTING signature block.

  `ps_payload_preserved` (C03_PS.lean) is relative to the `TextSize` the digester reports.  Here the question is whether
  that `TextSize` is right: re-signing a script that already carries a block must keep every character of the script in
  front of the block, the block being in whatever state (stale, truncated, its lines converted to LF).  The code removes the
  line break in front of the marker line with a fixed width (2 bytes, UTF-16: 4) without looking at it.

    ps_text_before_block_preserved_partial   proved: when that line break is CRLF the text found is exactly the text in front
    ps_text_before_block_preserved_full      false for the code as it is: `ps_mixed_eol_loses_text` (finding F-ps-eol): a bare LF
                                             in front of the marker line costs the script its last character
-/
import Relic.Proofs.PSEol
import Relic.Props.C03_PS
namespace Relic.Props.C03
open Relic Relic.PS

/-- CRLF in the file's encoding -/
def eolBytes (u16 : Bool) : Bytes := if u16 then widen crlf else crlf

/-- no tail of the text turns into the begin marker once the line break is appended (the standing assumption of the
    PowerShell theorems, cf. `C08.ps_digest_ignores_signature`) -/
def NoFalseMarker (st en : Bytes) (u16 : Bool) (text : Bytes) : Prop :=
  ∀ l, l ++ eolBytes u16 = firstLine st en u16 → ¬ l <:+ text

/-- **full statement.**  `T` is an unsigned script (digesting it alone finds no block); it is followed by the begin marker
    line and anything.  Whatever the digester then cuts off the end of `T` consists of line-break bytes only. -/
def ps_text_before_block_preserved_full : Prop :=
  ∀ (T rest : Bytes) (style : Nat) (st en : Bytes) (dT d : Digest),
    styleOf style = some (st, en) →
    DigestPS T style = .ok dT → dT.sigSize = 0 →
    DigestPS (T ++ (firstLine st en (isUtf16 T) ++ rest)) style = .ok d →
    ∀ x ∈ T.drop d.textSize, x = 13 ∨ x = 10 ∨ x = 0

theorem isUtf16_len (l : Bytes) (h : isUtf16 l = true) : 2 ≤ l.length := by
  match l with
  | [] => simp [isUtf16] at h
  | [a] => simp [isUtf16] at h
  | a :: b :: r => simp

/-- **ps_text_before_block_preserved_partial.**  `text` is an unsigned script; it is followed by CRLF, the begin marker line
    and ANY bytes (a complete block, a truncated one, one whose own lines were converted to LF, trailing text).  Digesting
    the whole finds exactly `text` again: same text size, same hashed stream, and what is cut off in front of the marker
    is the CRLF and nothing else.  Hence re-signing replaces `[text.length, end)` and keeps every byte of `text`
    (`ps_payload_preserved`). -/
theorem ps_text_before_block_preserved_partial (text rest : Bytes) (style : Nat) (st en : Bytes) (dT : Digest)
    (hs : styleOf style = some (st, en)) (e : DigestPS text style = .ok dT) (h0 : dT.sigSize = 0)
    (nf : NoFalseMarker st en (isUtf16 text) text) (ev : isUtf16 text = true → text.length % 2 = 0) :
    ∃ d, DigestPS (text ++ (eolBytes (isUtf16 text) ++ (firstLine st en (isUtf16 text) ++ rest))) style = .ok d ∧
      d.textSize = text.length ∧ d.hashed = dT.hashed ∧
      ((text ++ eolBytes (isUtf16 text)).drop d.textSize = eolBytes (isUtf16 text)) := by
  have H := DigestPS_spec text style dT e
  have hz := H.sizes
  have hts : dT.textSize = text.length := by omega
  have htk : text.take dT.textSize = text := by rw [hts]; exact List.take_length
  cases hu : isUtf16 text with
  | false =>
    rw [hu] at nf
    simp only [eolBytes, Bool.false_eq_true, if_false] at nf ⊢
    obtain ⟨d', h1, h2, h3, _⟩ := DigestPS_before_block8 text style dT st en rest e hs hu (by rw [htk]; exact nf)
    rw [htk] at h1
    refine ⟨d', h1, by omega, h2, ?_⟩
    rw [h3, hts, List.drop_left]
  | true =>
    rw [hu] at nf
    simp only [eolBytes, if_true] at nf ⊢
    have hl := isUtf16_len text hu
    obtain ⟨d', h1, h2, h3, _⟩ := DigestPS_before_block16 text style dT st en rest e hs hu (by rw [hts]; exact ev hu) (by omega)
      (by rw [htk]; exact nf)
    rw [htk] at h1
    refine ⟨d', h1, by omega, h2, ?_⟩
    rw [h3, hts, List.drop_left]

/-- hypotheses satisfiable, conclusion non-trivial: "exit 0", CRLF, marker line, a stale block on LF-only lines -/
example : (match DigestPS (ascii "exit 0" ++ (crlf ++ (firstLine (ascii "# ") [] false ++ ascii "# QUJD\n# SIG # End signature block\n"))) 1 with
    | .ok d => d.textSize == 6 && d.sigSize == 68
    | _ => false) = true := by decide

/-- a script with LF line endings whose block was written / kept with CRLF: "a", LF, then a CRLF block -/
def mixedEol : Bytes := ascii "a\n" ++ (firstLine (ascii "# ") [] false ++ lastLine (ascii "# ") [] false)

/-- **ps_mixed_eol_loses_text (finding F-ps-eol).**  `a\n` alone is an unsigned two-byte script.  Followed by a block whose
    marker line ends in CRLF, the digester removes two bytes in front of the marker: the LF *and the character `a`*.
    `TextSize` is 0, so signing replaces the whole file by the new block and nothing else: the script text is gone, and the verifier agrees
    with the digest of the empty text. -/
theorem ps_mixed_eol_loses_text :
    DigestPS (ascii "a\n") 1 = .ok ⟨widen (ascii "a\n"), 2, 0, false, 1⟩ ∧
    DigestPS mixedEol 1 = .ok ⟨[], 0, 62, false, 1⟩ ∧
    C08.psSignRound 1 mixedEol [0x37] = .ok (block (ascii "# ") [] false [0x37]) := by
  decide

/-- the full statement does not hold for the code as it is -/
theorem ps_text_before_block_preserved_full_false : ¬ ps_text_before_block_preserved_full := by
  intro h
  have := h (ascii "a\n") (lastLine (ascii "# ") [] false) 1 (ascii "# ") [] ⟨widen (ascii "a\n"), 2, 0, false, 1⟩ ⟨[], 0, 62, false, 1⟩
    rfl ps_mixed_eol_loses_text.1 rfl ps_mixed_eol_loses_text.2.1 97 (by decide)
  revert this
  decide

end Relic.Props.C03

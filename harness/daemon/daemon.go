// Package daemon: tie of Relic.Model.Daemon to the REAL server daemon layer (first op token DAEMON).
//
// Every op starts the real daemon.New(cfg, false) on 127.0.0.1:0 listeners (TLS with a harness-made certificate, plaintext,
// metrics), a fake token type ("veriffake-daemon") that can gate, fail, panic or sleep inside SignContext and records when
// it is closed, and real HTTP clients (one connection per request).
//
//	DAEMON sh n=<k> K=<t|h|th> S=<ev,…>      shutdown histories: s Serve, a<i>.<id> request on listener i (held inside the token),
//	                                         t<id> let request id use the token and answer, c Close, f<i> listener i fails underneath
//	DAEMON mx T= X= L= C= H= E=              listener matrix: trusted proxy?, X-Forwarded-For?, listener, TLS client cert,
//	                                         Ssl-Client-Cert header, endpoint  ->  status
//	DAEMON act P=<thm> E=<hex:hex,…> F=<kinds>   socket activation in a child process (vh DAEMON actchild)
//	DAEMON newerr K=<case>                   error paths of daemon.New: is the server left open?
//	DAEMON panic V=<str|abort> L=<tls|plain> a panic inside the token during /sign
//	DAEMON wt ctx=<0|1>                      WriteTimeout (1 s) fires while the token is signing
package daemon

import (
	"bufio"
	"bytes"
	"context"
	"crypto"
	"crypto/ecdsa"
	"crypto/elliptic"
	"crypto/rand"
	"crypto/sha256"
	"crypto/tls"
	"crypto/x509"
	"crypto/x509/pkix"
	"encoding/base64"
	"encoding/hex"
	"encoding/json"
	"encoding/pem"
	"errors"
	"fmt"
	"io"
	"math/big"
	"net"
	"net/http"
	"net/url"
	"os"
	"os/exec"
	"path/filepath"
	"runtime"
	"strconv"
	"strings"
	"sync"
	"sync/atomic"
	"time"

	"github.com/spf13/cobra"

	"github.com/sassoftware/relic/v8/cmdline/shared"
	"github.com/sassoftware/relic/v8/config"
	"github.com/sassoftware/relic/v8/lib/passprompt"
	rdaemon "github.com/sassoftware/relic/v8/server/daemon"
	"github.com/sassoftware/relic/v8/signers"
	_ "github.com/sassoftware/relic/v8/signers/cosign"
	"github.com/sassoftware/relic/v8/token"

	"verifharness/hx"
)

// ---------------------------------------------------------------------------------------------
// universe: certificates and keys

type ident struct {
	key  *ecdsa.PrivateKey
	cert *x509.Certificate
	fp   string
}

type universe struct {
	dir      string
	certFile string
	keyFile  string
	clients  map[string]*ident
	signKey  *ecdsa.PrivateKey
	signCert *x509.Certificate
}

var (
	uniOnce   sync.Once
	uni       *universe
	lateHooks sync.Once
)

func selfSigned(cn string, k *ecdsa.PrivateKey, usage x509.ExtKeyUsage, ips []net.IP) *x509.Certificate {
	serial, _ := rand.Int(rand.Reader, big.NewInt(1<<62))
	t := &x509.Certificate{
		SerialNumber: serial,
		Subject:      pkix.Name{CommonName: cn, Organization: []string{"verif"}},
		NotBefore:    time.Now().Add(-time.Hour),
		NotAfter:     time.Now().Add(24 * time.Hour),
		KeyUsage:     x509.KeyUsageDigitalSignature,
		ExtKeyUsage:  []x509.ExtKeyUsage{usage},
		IPAddresses:  ips,
	}
	der, err := x509.CreateCertificate(rand.Reader, t, t, &k.PublicKey, k)
	if err != nil {
		panic(err)
	}
	c, err := x509.ParseCertificate(der)
	if err != nil {
		panic(err)
	}
	return c
}

func pemOf(c *x509.Certificate) []byte {
	return pem.EncodeToMemory(&pem.Block{Type: "CERTIFICATE", Bytes: c.Raw})
}

// getUniverse makes the key material; with dir != "" the server certificate files are (re)used from there (child processes)
func getUniverse() *universe {
	uniOnce.Do(func() {
		u := &universe{clients: map[string]*ident{}}
		dir, err := os.MkdirTemp("", "verif-daemon-")
		if err != nil {
			panic(err)
		}
		u.dir = dir
		hx.OnExit(func() { os.RemoveAll(dir) })
		sk, _ := ecdsa.GenerateKey(elliptic.P256(), rand.Reader)
		sc := selfSigned("verif daemon server", sk, x509.ExtKeyUsageServerAuth, []net.IP{net.ParseIP("127.0.0.1")})
		kb, _ := x509.MarshalECPrivateKey(sk)
		u.certFile = filepath.Join(dir, "server.crt")
		u.keyFile = filepath.Join(dir, "server.key")
		_ = os.WriteFile(u.certFile, pemOf(sc), 0o600)
		_ = os.WriteFile(u.keyFile, pem.EncodeToMemory(&pem.Block{Type: "EC PRIVATE KEY", Bytes: kb}), 0o600)
		for _, n := range []string{"known", "unknown"} {
			k, _ := ecdsa.GenerateKey(elliptic.P256(), rand.Reader)
			c := selfSigned(n, k, x509.ExtKeyUsageClientAuth, nil)
			d := sha256.Sum256(c.RawSubjectPublicKeyInfo)
			u.clients[n] = &ident{key: k, cert: c, fp: hex.EncodeToString(d[:])}
		}
		u.signKey, _ = ecdsa.GenerateKey(elliptic.P256(), rand.Reader)
		u.signCert = selfSigned("verif daemon k1", u.signKey, x509.ExtKeyUsageCodeSigning, nil)
		uni = u
	})
	return uni
}

// ---------------------------------------------------------------------------------------------
// fake token

var seq atomic.Int64 // global order of token events

type entry struct {
	release chan struct{}
}

type fakeToken struct {
	cfg      *config.Config
	name     string
	pings    atomic.Int64
	closes   atomic.Int64
	closed   atomic.Bool
	closeSeq atomic.Int64 // seq of the first Close
	lastSign atomic.Int64 // seq of the latest SignContext return
	signs    atomic.Int64 // SignContext calls that produced a signature
	useAfter atomic.Int64 // SignContext calls that found the token closed
	gated    atomic.Bool
	entered  chan *entry
	sleep    time.Duration
	honour   bool // honour ctx while sleeping
}

var (
	tokMu      sync.Mutex
	lastTokens []*fakeToken
)

func (t *fakeToken) Close() error {
	t.closes.Add(1)
	if t.closed.CompareAndSwap(false, true) {
		t.closeSeq.Store(seq.Add(1))
	}
	return nil
}
func (t *fakeToken) Ping(ctx context.Context) error { t.pings.Add(1); return nil }
func (t *fakeToken) Config() *config.TokenConfig   { c, _ := t.cfg.GetToken(t.name); return c }
func (t *fakeToken) GetKey(ctx context.Context, keyName string) (token.Key, error) {
	kc, err := t.cfg.GetKey(keyName)
	if err != nil {
		return nil, err
	}
	return &fakeKey{kc: kc, t: t}, nil
}
func (t *fakeToken) Import(string, crypto.PrivateKey) (token.Key, error) {
	return nil, errors.New("not implemented")
}
func (t *fakeToken) ImportCertificate(*x509.Certificate, string) error {
	return errors.New("not implemented")
}
func (t *fakeToken) Generate(string, token.KeyType, uint) (token.Key, error) {
	return nil, errors.New("not implemented")
}
func (t *fakeToken) ListKeys(token.ListOptions) error { return errors.New("not implemented") }

type fakeKey struct {
	kc *config.KeyConfig
	t  *fakeToken
}

func (k *fakeKey) Public() crypto.PublicKey { return &getUniverse().signKey.PublicKey }
func (k *fakeKey) Sign(r io.Reader, digest []byte, opts crypto.SignerOpts) ([]byte, error) {
	return k.SignContext(context.Background(), digest, opts)
}
func (k *fakeKey) SignContext(ctx context.Context, digest []byte, opts crypto.SignerOpts) ([]byte, error) {
	t := k.t
	defer func() { t.lastSign.Store(seq.Add(1)) }()
	switch k.kc.Name() {
	case "kpanic":
		panic("verif: the token blew up")
	case "kabort":
		panic(http.ErrAbortHandler)
	}
	if t.gated.Load() {
		e := &entry{release: make(chan struct{})}
		t.entered <- e
		<-e.release
	}
	if t.sleep > 0 {
		if t.honour {
			select {
			case <-time.After(t.sleep):
			case <-ctx.Done():
				return nil, ctx.Err()
			}
		} else {
			time.Sleep(t.sleep)
		}
	}
	if t.closed.Load() {
		t.useAfter.Add(1)
		return nil, errors.New("verif: token is closed")
	}
	sig, err := getUniverse().signKey.Sign(rand.Reader, digest, opts)
	if err == nil {
		t.signs.Add(1)
	}
	return sig, err
}
func (k *fakeKey) Config() *config.KeyConfig                 { return k.kc }
func (k *fakeKey) Certificate() []byte                       { return getUniverse().signCert.Raw }
func (k *fakeKey) GetID() []byte                             { return []byte(k.kc.Name()) }
func (k *fakeKey) ImportCertificate(*x509.Certificate) error { return errors.New("not implemented") }

func init() {
	token.Openers["veriffake-daemon"] = func(cfg *config.Config, tokenName string, _ passprompt.PasswordGetter) (token.Token, error) {
		t := &fakeToken{cfg: cfg, name: tokenName, entered: make(chan *entry, 64)}
		tokMu.Lock()
		lastTokens = append(lastTokens, t)
		tokMu.Unlock()
		return t, nil
	}
}

func takeToken() *fakeToken {
	tokMu.Lock()
	defer tokMu.Unlock()
	if len(lastTokens) == 0 {
		return nil
	}
	t := lastTokens[len(lastTokens)-1]
	lastTokens = nil
	return t
}

// ---------------------------------------------------------------------------------------------
// configuration and clients

type opts struct {
	tls, plain, metrics bool
	trusted             bool
	writeTimeout        int
	audit               bool
	tokenType           string
	certFile            string
	httpAddr            string
	metricsAddr         string
	logLevel            string
}

func makeConfig(o opts) (*config.Config, string, error) {
	lateHooks.Do(func() { signers.MergeFlags(&cobra.Command{Use: "sign"}) })
	u := getUniverse()
	dir, err := os.MkdirTemp(u.dir, "op-")
	if err != nil {
		return nil, "", err
	}
	tt := o.tokenType
	if tt == "" {
		tt = "veriffake-daemon"
	}
	sc := &config.ServerConfig{TokenCacheSeconds: -1, LogLevel: "disabled", LogFile: "-"}
	if o.logLevel != "" {
		sc.LogLevel = o.logLevel
	}
	if o.tls {
		sc.Listen = "127.0.0.1:0"
		sc.CertFile, sc.KeyFile = u.certFile, u.keyFile
		if o.certFile != "" {
			sc.CertFile = o.certFile
		}
	}
	if o.plain {
		sc.ListenHTTP = "127.0.0.1:0"
		if o.httpAddr != "" {
			sc.ListenHTTP = o.httpAddr
		}
	}
	if o.metrics {
		sc.ListenMetrics = "127.0.0.1:0"
		if o.metricsAddr != "" {
			sc.ListenMetrics = o.metricsAddr
		}
	}
	if o.trusted {
		sc.TrustedProxies = []string{"127.0.0.1"}
	}
	sc.WriteTimeout = o.writeTimeout
	cfg := &config.Config{
		Tokens: map[string]*config.TokenConfig{"tok": {Type: tt}},
		Keys: map[string]*config.KeyConfig{
			"k1":     {Token: "tok", Roles: []string{"r"}},
			"kpanic": {Token: "tok", Roles: []string{"r"}},
			"kabort": {Token: "tok", Roles: []string{"r"}},
		},
		Clients: map[string]*config.ClientConfig{u.clients["known"].fp: {Nickname: "alice", Roles: []string{"r"}}},
		Server:  sc,
	}
	if o.audit {
		cfg.AuditFile = filepath.Join(dir, "audit.log")
	}
	if err := cfg.Normalize(filepath.Join(dir, "relic.yml")); err != nil {
		return nil, dir, err
	}
	shared.CurrentConfig = cfg
	return cfg, dir, nil
}

func client(who string, timeout time.Duration) *http.Client {
	u := getUniverse()
	tc := &tls.Config{InsecureSkipVerify: true}
	if id := u.clients[who]; id != nil {
		tc.Certificates = []tls.Certificate{{Certificate: [][]byte{id.cert.Raw}, PrivateKey: id.key}}
	}
	return &http.Client{Timeout: timeout, Transport: &http.Transport{TLSClientConfig: tc, DisableKeepAlives: true}}
}

func healthLoops() int {
	buf := make([]byte, 1<<20)
	for {
		n := runtime.Stack(buf, true)
		if n < len(buf) {
			buf = buf[:n]
			break
		}
		buf = make([]byte, 2*len(buf))
	}
	return strings.Count(string(buf), ").healthCheckLoop(")
}

func payloadOf(id int) []byte {
	return []byte(fmt.Sprintf(`{"schemaVersion":2,"mediaType":"application/vnd.oci.image.manifest.v1+json","config":{"mediaType":"application/vnd.oci.image.config.v1+json","digest":"sha256:%064x","size":2},"layers":[],"annotations":{"req":"%d"}}`, id, id))
}

// checkCosign: is `body` a cosign manifest over THIS payload, signed with the token's key?
func checkCosign(body, payload []byte) string {
	u := getUniverse()
	var m struct {
		Subject struct {
			Digest string `json:"digest"`
			Size   int64  `json:"size"`
		} `json:"subject"`
		Layers []struct {
			Data        []byte            `json:"data"`
			Annotations map[string]string `json:"annotations"`
		} `json:"layers"`
	}
	if err := json.Unmarshal(body, &m); err != nil || len(m.Layers) != 1 {
		return "torn"
	}
	d := sha256.Sum256(payload)
	if m.Subject.Digest != "sha256:"+hex.EncodeToString(d[:]) || m.Subject.Size != int64(len(payload)) {
		return "othersubject"
	}
	sig, err := base64.StdEncoding.DecodeString(m.Layers[0].Annotations["dev.cosignproject.cosign/signature"])
	ld := sha256.Sum256(m.Layers[0].Data)
	if err != nil || !ecdsa.VerifyASN1(&u.signKey.PublicKey, ld[:], sig) {
		return "badsig"
	}
	if !bytes.Contains(m.Layers[0].Data, []byte(hex.EncodeToString(d[:]))) {
		return "otherpayload"
	}
	return ""
}

func signURL(base, key string, id int) string {
	v := url.Values{}
	v.Set("key", key)
	v.Set("filename", fmt.Sprintf("f-%d.json", id))
	v.Set("sigtype", "cosign")
	return base + "/sign?" + v.Encode()
}

// ---------------------------------------------------------------------------------------------
// sh: shutdown histories

type inflight struct {
	id      int
	e       *entry
	done    chan clientRes
	payload []byte
}

type clientRes struct {
	status int
	body   []byte
	err    error
}

func field(fs []string, k string) string {
	for _, f := range fs {
		if strings.HasPrefix(f, k+"=") {
			return f[len(k)+1:]
		}
	}
	return ""
}

func dialRefused(addr string) bool {
	c, err := net.DialTimeout("tcp", addr, time.Second)
	if err != nil {
		return true
	}
	// a connection that is reset / closed at once counts as refused too
	_ = c.SetReadDeadline(time.Now().Add(50 * time.Millisecond))
	_ = c.Close()
	return false
}

func hostOf(u string) string {
	p, err := url.Parse(u)
	if err != nil {
		return u
	}
	return p.Host
}

func runSh(fs []string) string {
	kinds := field(fs, "K")
	script := field(fs, "S")
	if kinds == "" {
		return "bad-op"
	}
	base := healthLoops()
	// 127.0.0.1 is a trusted proxy here: requests on the plaintext listener authenticate through Ssl-Client-Cert
	cfg, dir, err := makeConfig(opts{tls: strings.Contains(kinds, "t"), plain: strings.Contains(kinds, "h"), trusted: true})
	defer os.RemoveAll(dir)
	if err != nil {
		return "err config " + err.Error()
	}
	d, err := rdaemon.New(cfg, false)
	if err != nil {
		return "err new " + strings.ReplaceAll(err.Error(), " ", "_")
	}
	tok := takeToken()
	tok.gated.Store(true)
	addrs := d.VerifAddrs()
	lis := d.VerifListeners()
	serveCh := make(chan error, 1)
	var serveRes *error
	serveCalled, shutdownBegun := false, false
	lstate := make([]string, len(addrs)) // bound | serving | closed | failed
	for i := range lstate {
		lstate[i] = "bound"
	}
	var pendingClose []chan error
	closeErrs := []string{}
	fl := map[int]*inflight{}
	var accepted, resp []string
	waitServe := func(d time.Duration) {
		if serveRes != nil {
			return
		}
		select {
		case e := <-serveCh:
			serveRes = &e
		case <-time.After(d):
		}
	}
	drainCloses := func() {
		if len(fl) != 0 {
			return
		}
		for _, ch := range pendingClose {
			select {
			case e := <-ch:
				if e != nil {
					closeErrs = append(closeErrs, e.Error())
				}
			case <-time.After(10 * time.Second):
				closeErrs = append(closeErrs, "close-hangs")
			}
		}
		pendingClose = nil
	}
	allDown := func() bool {
		for _, s := range lstate {
			if s == "bound" || s == "serving" {
				return false
			}
		}
		return true
	}
	var events []string
	if script != "-" && script != "" {
		events = strings.Split(script, ",")
	}
	for _, ev := range events {
		switch {
		case ev == "s":
			if serveCalled {
				continue
			}
			serveCalled = true
			go func() { serveCh <- d.Serve() }()
			if shutdownBegun {
				for i := range lstate {
					lstate[i] = "closed"
				}
				waitServe(10 * time.Second)
			} else {
				for i, a := range addrs {
					ok := false
					for try := 0; try < 100 && !ok; try++ {
						r, err := client("", 2*time.Second).Get(a + "/health")
						if err == nil {
							io.Copy(io.Discard, r.Body)
							r.Body.Close()
							ok = r.StatusCode == 200
						}
						if !ok {
							time.Sleep(10 * time.Millisecond)
						}
					}
					if !ok {
						return "err serve-not-up " + strconv.Itoa(i)
					}
					lstate[i] = "serving"
				}
			}
		case ev == "c":
			ch := make(chan error, 1)
			go func() { ch <- d.Close() }()
			pendingClose = append(pendingClose, ch)
			shutdownBegun = true
			for i, a := range addrs {
				if lstate[i] != "serving" {
					continue
				}
				down := false
				for try := 0; try < 300 && !down; try++ {
					down = dialRefused(hostOf(a))
					if !down {
						time.Sleep(5 * time.Millisecond)
					}
				}
				if !down {
					return "err listener-still-up-after-close " + strconv.Itoa(i)
				}
				lstate[i] = "closed"
			}
			if !serveCalled {
				// nothing tracks the listeners yet: Shutdown has nothing to wait for
				time.Sleep(20 * time.Millisecond)
			}
			drainCloses()
		case strings.HasPrefix(ev, "a"):
			p := strings.Split(ev[1:], ".")
			if len(p) != 2 {
				return "bad-op"
			}
			li, _ := strconv.Atoi(p[0])
			id, _ := strconv.Atoi(p[1])
			if li >= len(addrs) {
				return "bad-op"
			}
			if _, dup := fl[id]; dup {
				continue
			}
			to := 10 * time.Second
			if lstate[li] == "bound" {
				to = 300 * time.Millisecond // nobody accepts yet: the connection sits in the backlog
			}
			f := &inflight{id: id, done: make(chan clientRes, 1), payload: payloadOf(id)}
			go func() {
				rq, _ := http.NewRequest("POST", signURL(addrs[li], "k1", id), bytes.NewReader(f.payload))
				rq.Header.Set("Content-Type", "application/octet-stream")
				rq.Header.Set("X-Forwarded-For", "10.9.9.9")
				rq.Header.Set("Ssl-Client-Cert", url.PathEscape(string(pemOf(getUniverse().clients["known"].cert))))
				r, err := client("known", to).Do(rq)
				if err != nil {
					f.done <- clientRes{err: err}
					return
				}
				b, err := io.ReadAll(r.Body)
				r.Body.Close()
				f.done <- clientRes{status: r.StatusCode, body: b, err: err}
			}()
			select {
			case e := <-tok.entered:
				f.e = e
				fl[id] = f
				accepted = append(accepted, strconv.Itoa(id))
			case r := <-f.done:
				if r.err == nil {
					return fmt.Sprintf("err unexpected-answer id=%d status=%d", id, r.status)
				}
				// refused
			case <-time.After(12 * time.Second):
				return "err request-neither-served-nor-refused"
			}
		case strings.HasPrefix(ev, "t"):
			id, _ := strconv.Atoi(ev[1:])
			f := fl[id]
			if f == nil {
				continue
			}
			close(f.e.release)
			var r clientRes
			select {
			case r = <-f.done:
			case <-time.After(10 * time.Second):
				r = clientRes{err: errors.New("timeout")}
			}
			delete(fl, id)
			switch {
			case r.err != nil:
				resp = append(resp, fmt.Sprintf("%d:lost", id))
			case r.status == 200:
				if bad := checkCosign(r.body, f.payload); bad != "" {
					resp = append(resp, fmt.Sprintf("%d:%s", id, bad))
				} else {
					resp = append(resp, fmt.Sprintf("%d:g", id))
				}
			case r.status == 500:
				resp = append(resp, fmt.Sprintf("%d:c", id))
			default:
				resp = append(resp, fmt.Sprintf("%d:s%d", id, r.status))
			}
			drainCloses()
		case strings.HasPrefix(ev, "f"):
			li, _ := strconv.Atoi(ev[1:])
			if li >= len(lis) || lstate[li] != "serving" {
				continue
			}
			lis[li].Close()
			for try := 0; try < 300 && !dialRefused(hostOf(addrs[li])); try++ {
				time.Sleep(5 * time.Millisecond)
			}
			lstate[li] = "failed"
		default:
			return "bad-op"
		}
		if serveCalled && allDown() && len(pendingClose) == 0 {
			waitServe(10 * time.Second)
		}
	}
	// final observation
	serve := "notcalled"
	if serveCalled {
		if allDown() && len(pendingClose) == 0 {
			waitServe(10 * time.Second)
		} else {
			waitServe(60 * time.Millisecond)
		}
		switch {
		case serveRes == nil:
			serve = "blocked"
		case *serveRes == nil:
			serve = "nil"
		case strings.Contains((*serveRes).Error(), "deadline"):
			serve = "err:deadline"
		default:
			serve = "err:accept"
		}
	}
	tokState := "open"
	if tok.closed.Load() {
		tokState = "closed"
	}
	health := "running"
	for try := 0; try < 400; try++ {
		if healthLoops()-base <= 0 {
			health = "exited"
			break
		}
		if !tok.closed.Load() {
			break
		}
		time.Sleep(5 * time.Millisecond)
	}
	cbl := 0
	if tok.closed.Load() && tok.closeSeq.Load() < tok.lastSign.Load() {
		cbl = 1
	}
	out := fmt.Sprintf("ok acc=%s resp=%s serve=%s closes=%d tok=%s health=%s crash=0 | cbl=%d uac=%d closeerrs=%s pings=%d",
		joinOr(accepted), joinOr(resp), serve, tok.closes.Load(), tokState, health, cbl, tok.useAfter.Load(), joinOr(closeErrs), tok.pings.Load())
	// cleanup: let everything go
	for _, f := range fl {
		close(f.e.release)
	}
	tok.gated.Store(false)
	for _, f := range fl {
		select {
		case <-f.done:
		case <-time.After(5 * time.Second):
		}
	}
	if !tok.closed.Load() || len(pendingClose) > 0 {
		ch := make(chan error, 1)
		go func() { ch <- d.Close() }()
		select {
		case <-ch:
		case <-time.After(10 * time.Second):
		}
	}
	for _, l := range lis {
		l.Close()
	}
	return out
}

func joinOr(l []string) string {
	if len(l) == 0 {
		return "-"
	}
	return strings.Join(l, ".")
}

// ---------------------------------------------------------------------------------------------
// mx: listener matrix

type live struct {
	d     *rdaemon.Daemon
	addrs []string
	tok   *fakeToken
	dir   string
	cfg   *config.Config
}

var (
	liveMu sync.Mutex
	lives  = map[string]*live{}
)

func getLive(name string, o opts) (*live, error) {
	liveMu.Lock()
	defer liveMu.Unlock()
	if l := lives[name]; l != nil {
		shared.CurrentConfig = l.cfg
		return l, nil
	}
	cfg, dir, err := makeConfig(o)
	if err != nil {
		return nil, err
	}
	d, err := rdaemon.New(cfg, false)
	if err != nil {
		return nil, err
	}
	l := &live{d: d, addrs: d.VerifAddrs(), tok: takeToken(), dir: dir, cfg: cfg}
	go d.Serve()
	for _, a := range l.addrs {
		for try := 0; try < 200; try++ {
			r, err := client("", 2*time.Second).Get(a + "/health")
			if err == nil {
				r.Body.Close()
				if r.StatusCode == 200 {
					break
				}
			}
			time.Sleep(10 * time.Millisecond)
		}
	}
	lives[name] = l
	hx.OnExit(func() { d.Close() })
	return l, nil
}

func runMx(fs []string) string {
	T, X, L, C, H, E := field(fs, "T"), field(fs, "X"), field(fs, "L"), field(fs, "C"), field(fs, "H"), field(fs, "E")
	l, err := getLive("mx"+T, opts{tls: true, plain: true, trusted: T == "1"})
	if err != nil {
		return "err " + err.Error()
	}
	u := getUniverse()
	var base string
	switch L {
	case "tls":
		base = l.addrs[0]
	case "plain":
		base = l.addrs[1]
	default:
		return "bad-op"
	}
	who := ""
	if L == "tls" && C != "none" {
		who = C
	}
	method, path := "GET", ""
	switch E {
	case "health":
		path = "/health"
	case "directory":
		path = "/directory"
	case "home":
		path = "/"
	case "list":
		path = "/list_keys"
	case "getkey":
		path = "/keys/k1"
	case "sign":
		method, path = "POST", "/sign?key=k1"
	default:
		return "bad-op"
	}
	req, err := http.NewRequest(method, base+path, strings.NewReader(""))
	if err != nil {
		return "err " + err.Error()
	}
	if X == "1" {
		req.Header.Set("X-Forwarded-For", "10.9.9.9")
	}
	switch H {
	case "none":
	case "known", "unknown":
		req.Header.Set("Ssl-Client-Cert", url.PathEscape(string(pemOf(u.clients[H].cert))))
	case "bad":
		req.Header.Set("Ssl-Client-Cert", "%zz")
	case "empty":
		req.Header.Set("Ssl-Client-Cert", "no-pem-here")
	default:
		return "bad-op"
	}
	r, err := client(who, 10*time.Second).Do(req)
	if err != nil {
		return "err client " + strings.ReplaceAll(err.Error(), " ", "_")
	}
	b, _ := io.ReadAll(r.Body)
	r.Body.Close()
	prob := "-"
	var p struct {
		Type string `json:"type"`
	}
	if json.Unmarshal(b, &p) == nil && p.Type != "" {
		prob = p.Type[strings.LastIndex(p.Type, "/")+1:]
	}
	return fmt.Sprintf("ok %d | problem=%s", r.StatusCode, prob)
}

// ---------------------------------------------------------------------------------------------
// newerr: error paths of daemon.New

func classify(err error) string {
	if err == nil {
		return "nil"
	}
	s := err.Error()
	var ne *strconv.NumError
	var oe *net.OpError
	switch {
	case errors.As(err, &ne):
		return "atoi"
	case strings.Contains(s, "configuring logging"):
		return "logging"
	case strings.Contains(s, "no listeners configured"):
		return "no-listeners"
	case strings.Contains(s, "configuring token"):
		return "server"
	case strings.Contains(s, "isn't tcp"):
		return "not-tcp"
	case strings.Contains(s, "Missing environment variable"):
		return "einhorn"
	case errors.As(err, &oe) && oe.Op == "listen":
		return "listen"
	case strings.Contains(s, "listen "):
		return "listen"
	case strings.Contains(s, "no such file") && strings.Contains(s, "nonexistent.crt"):
		return "tls"
	}
	return "fd"
}

func runNewErr(fs []string) string {
	k := field(fs, "K")
	o := opts{plain: true}
	test := false
	switch k {
	case "tls":
		o = opts{tls: true, certFile: filepath.Join(getUniverse().dir, "nonexistent.crt")}
	case "listen":
		o.httpAddr = "256.256.256.256:1"
	case "none":
		o = opts{}
	case "test":
		test = true
	case "server":
		o.tokenType = "veriffake-daemon-nosuch"
	case "metrics":
		o.metrics, o.metricsAddr = true, "256.256.256.256:1"
	case "loglevel":
		o.logLevel = "no-such-level"
	case "ok":
	default:
		return "bad-op"
	}
	base := healthLoops()
	takeToken()
	cfg, dir, err := makeConfig(o)
	defer os.RemoveAll(dir)
	if err != nil {
		return "err config " + err.Error()
	}
	d, err := rdaemon.New(cfg, test)
	tok := takeToken()
	time.Sleep(20 * time.Millisecond) // let a started health goroutine reach its loop
	open := 0
	if tok != nil && !tok.closed.Load() && healthLoops()-base > 0 {
		open = 1
	}
	closes := int64(0)
	if tok != nil {
		closes = tok.closes.Load()
	}
	res := ""
	switch {
	case err != nil:
		res = "err " + classify(err)
	case d == nil:
		res = "ok test"
	default:
		res = "ok daemon"
	}
	out := fmt.Sprintf("%s serverOpen=%d | closes=%d loops=%d", res, open, closes, healthLoops()-base)
	if d != nil {
		d.Close()
		for _, l := range d.VerifListeners() {
			l.Close()
		}
		if m := d.VerifMetrics(); m != nil {
			m.Close()
		}
	}
	// restore logging for the rest of the process
	return out
}

// ---------------------------------------------------------------------------------------------
// panic / wt

func runPanic(fs []string) string {
	V, L := field(fs, "V"), field(fs, "L")
	l, err := getLive("mx0", opts{tls: true, plain: true})
	if err != nil {
		return "err " + err.Error()
	}
	base, who := l.addrs[0], "known"
	if L == "plain" {
		return "bad-op" // the plaintext listener has no certificate: the request would stop at 401 before the token
	}
	key := "kpanic"
	if V == "abort" {
		key = "kabort"
	}
	res := ""
	r, err := client(who, 10*time.Second).Post(signURL(base, key, 1), "application/octet-stream", bytes.NewReader(payloadOf(1)))
	if err != nil {
		res = "aborted"
	} else {
		b, _ := io.ReadAll(r.Body)
		r.Body.Close()
		res = strconv.Itoa(r.StatusCode)
		if bytes.Contains(b, []byte("blew up")) || bytes.Contains(b, []byte("goroutine ")) {
			res += "+leak"
		}
	}
	alive := 0
	if h, err := client("", 5*time.Second).Get(base + "/health"); err == nil {
		h.Body.Close()
		if h.StatusCode == 200 {
			alive = 1
		}
	}
	return fmt.Sprintf("ok %s alive=%d", res, alive)
}

func runWt(fs []string) string {
	honour := field(fs, "ctx") == "1"
	cfg, dir, err := makeConfig(opts{tls: true, writeTimeout: 1, audit: true})
	defer os.RemoveAll(dir)
	if err != nil {
		return "err config " + err.Error()
	}
	d, err := rdaemon.New(cfg, false)
	if err != nil {
		return "err new " + err.Error()
	}
	tok := takeToken()
	tok.sleep, tok.honour = 1500*time.Millisecond, honour
	go d.Serve()
	base := d.VerifAddrs()[0]
	delivered := 0
	status := "-"
	r, err := client("known", 10*time.Second).Post(signURL(base, "k1", 7), "application/octet-stream", bytes.NewReader(payloadOf(7)))
	if err == nil {
		b, rerr := io.ReadAll(r.Body)
		r.Body.Close()
		status = strconv.Itoa(r.StatusCode)
		if rerr == nil && r.StatusCode == 200 && checkCosign(b, payloadOf(7)) == "" {
			delivered = 1
		}
	}
	time.Sleep(50 * time.Millisecond)
	audit := 0
	if b, err := os.ReadFile(cfg.AuditFile); err == nil {
		audit = bytes.Count(b, []byte("\n"))
	}
	out := fmt.Sprintf("ok sign=%d audit=%d delivered=%d | status=%s", tok.signs.Load(), audit, delivered, status)
	d.Close()
	return out
}

// ---------------------------------------------------------------------------------------------
// act: socket activation in a child process

func runAct(fs []string) string {
	P, E, F := field(fs, "P"), field(fs, "E"), field(fs, "F")
	u := getUniverse()
	dir, err := os.MkdirTemp(u.dir, "act-")
	if err != nil {
		return "err " + err.Error()
	}
	defer os.RemoveAll(dir)
	var files []*os.File
	var keep []io.Closer
	var inh []string
	defer func() {
		for _, f := range files {
			f.Close()
		}
		for _, c := range keep {
			c.Close()
		}
	}()
	for j, c := range F {
		switch c {
		case 'T':
			l, err := net.Listen("tcp", "127.0.0.1:0")
			if err != nil {
				return "err " + err.Error()
			}
			f, _ := l.(*net.TCPListener).File()
			keep = append(keep, l)
			files = append(files, f)
			inh = append(inh, l.Addr().String())
		case 'U':
			p := filepath.Join(dir, fmt.Sprintf("s%d.sock", j))
			l, err := net.Listen("unix", p)
			if err != nil {
				return "err " + err.Error()
			}
			l.(*net.UnixListener).SetUnlinkOnClose(false)
			f, _ := l.(*net.UnixListener).File()
			keep = append(keep, l)
			files = append(files, f)
			inh = append(inh, p)
		case 'C':
			l, err := net.Listen("tcp", "127.0.0.1:0")
			if err != nil {
				return "err " + err.Error()
			}
			c, err := net.Dial("tcp", l.Addr().String())
			if err != nil {
				return "err " + err.Error()
			}
			f, _ := c.(*net.TCPConn).File()
			keep = append(keep, l, c)
			files = append(files, f)
			inh = append(inh, c.LocalAddr().String())
		default:
			f, err := os.Open(os.DevNull)
			if err != nil {
				return "err " + err.Error()
			}
			files = append(files, f)
			inh = append(inh, "-")
		}
	}
	exe, err := os.Executable()
	if err != nil {
		return "err " + err.Error()
	}
	cmd := exec.Command(exe, "DAEMON", "actchild")
	cmd.ExtraFiles = files
	env := []string{}
	for _, kv := range os.Environ() {
		n := strings.SplitN(kv, "=", 2)[0]
		if strings.HasPrefix(n, "LISTEN_") || strings.HasPrefix(n, "EINHORN_") || strings.HasPrefix(n, "NOTIFY_") {
			continue
		}
		env = append(env, kv)
	}
	cmd.Env = append(env, "VERIF_DMN_PLAN="+P, "VERIF_DMN_ENV="+E, "VERIF_DMN_INH="+strings.Join(inh, ","), "VERIF_DMN_KINDS="+F,
		"VERIF_DMN_CERT="+u.certFile, "VERIF_DMN_KEY="+u.keyFile, "VERIF_DMN_DIR="+dir)
	var so, se bytes.Buffer
	cmd.Stdout, cmd.Stderr = &so, &se
	done := make(chan error, 1)
	if err := cmd.Start(); err != nil {
		return "err " + err.Error()
	}
	go func() { done <- cmd.Wait() }()
	select {
	case err := <-done:
		ob, _ := os.ReadFile(filepath.Join(dir, "out"))
		line := strings.TrimSpace(string(ob))
		if err != nil || line == "" {
			msg := se.String()
			if i := strings.Index(msg, "panic:"); i >= 0 {
				msg = msg[i:]
			}
			if len(msg) > 300 {
				msg = msg[:300]
			}
			return "crash " + strings.ReplaceAll(strings.ReplaceAll(msg, "\n", " "), "  ", " ")
		}
		return line
	case <-time.After(30 * time.Second):
		cmd.Process.Kill()
		return "diverge"
	}
}

// ActChild is the body of `vh DAEMON actchild`: one daemon.New in a fresh process with the scripted environment.
func ActChild(args []string) {
	// the result goes to a file: hostile variables can name fd 0-2, and relic's fdListener closes whatever fd it was given
	report := func(line string) {
		_ = os.WriteFile(filepath.Join(os.Getenv("VERIF_DMN_DIR"), "out"), []byte(line+"\n"), 0o600)
	}
	plan, envs, inh, kinds := os.Getenv("VERIF_DMN_PLAN"), os.Getenv("VERIF_DMN_ENV"), strings.Split(os.Getenv("VERIF_DMN_INH"), ","), os.Getenv("VERIF_DMN_KINDS")
	subst := func(v string) string {
		v = strings.ReplaceAll(v, "@PPID", strconv.Itoa(os.Getppid()))
		v = strings.ReplaceAll(v, "@PID", strconv.Itoa(os.Getpid()))
		v = strings.ReplaceAll(v, "@OTHER", strconv.Itoa(os.Getpid()+1))
		return v
	}
	if envs != "-" && envs != "" {
		for _, kv := range strings.Split(envs, ",") {
			p := strings.Split(kv, ":")
			if len(p) != 2 {
				report("bad-op")
				return
			}
			unhex := func(s string) string {
				if s == "-" {
					return ""
				}
				b, _ := hex.DecodeString(s)
				return string(b)
			}
			os.Setenv(unhex(p[0]), subst(unhex(p[1])))
		}
	}
	sc := &config.ServerConfig{TokenCacheSeconds: -1, LogLevel: "disabled", LogFile: "-"}
	if strings.Contains(plan, "t") {
		sc.Listen = "127.0.0.1:0"
		sc.CertFile, sc.KeyFile = os.Getenv("VERIF_DMN_CERT"), os.Getenv("VERIF_DMN_KEY")
	}
	if strings.Contains(plan, "h") {
		sc.ListenHTTP = "127.0.0.1:0"
	}
	if strings.Contains(plan, "m") {
		sc.ListenMetrics = "127.0.0.1:0"
	}
	cfg := &config.Config{
		Tokens:  map[string]*config.TokenConfig{"tok": {Type: "veriffake-daemon"}},
		Keys:    map[string]*config.KeyConfig{"k1": {Token: "tok", Roles: []string{"r"}}},
		Clients: map[string]*config.ClientConfig{strings.Repeat("ab", 32): {Nickname: "alice", Roles: []string{"r"}}},
		Server:  sc,
	}
	if err := cfg.Normalize(filepath.Join(os.Getenv("VERIF_DMN_DIR"), "relic.yml")); err != nil {
		report("err config " + err.Error())
		return
	}
	shared.CurrentConfig = cfg
	d, err := rdaemon.New(cfg, false)
	if err != nil {
		report("err " + classify(err))
		return
	}
	which := func(addr string) string {
		for j, a := range inh {
			if a != "-" && a != "" && a == addr {
				return fmt.Sprintf("inh%d%c", 3+j, kinds[j])
			}
		}
		return "listen"
	}
	var parts []string
	roles := []string{}
	if sc.Listen != "" {
		roles = append(roles, "tls")
	}
	if sc.ListenHTTP != "" {
		roles = append(roles, "http")
	}
	for i, l := range d.VerifListeners() {
		parts = append(parts, roles[i]+"="+which(l.Addr().String()))
	}
	if m := d.VerifMetrics(); m != nil {
		parts = append(parts, "metrics="+which(m.Addr().String()))
	}
	// is it really served there?
	serveCh := make(chan error, 1)
	go func() { serveCh <- d.Serve() }()
	served := []string{}
	for i, l := range d.VerifListeners() {
		var cl *http.Client
		var u string
		if l.Addr().Network() == "unix" {
			p := l.Addr().String()
			cl = &http.Client{Timeout: 3 * time.Second, Transport: &http.Transport{DisableKeepAlives: true,
				DialContext: func(ctx context.Context, _, _ string) (net.Conn, error) { return net.Dial("unix", p) }}}
			u = "http://unix/health"
		} else {
			cl = client("", 3*time.Second)
			u = d.VerifAddrs()[i] + "/health"
		}
		ok := "0"
		for try := 0; try < 30 && ok == "0"; try++ {
			r, err := cl.Get(u)
			if err == nil {
				r.Body.Close()
				if r.StatusCode == 200 {
					ok = "1"
				}
			} else {
				time.Sleep(10 * time.Millisecond)
			}
		}
		served = append(served, ok)
	}
	early := "blocked"
	select {
	case e := <-serveCh:
		early = "returned:" + classifyServe(e)
	case <-time.After(30 * time.Millisecond):
	}
	cl := make(chan error, 1)
	go func() { cl <- d.Close() }()
	final := "hang"
	select {
	case e := <-cl:
		final = classifyServe(e)
	case <-time.After(10 * time.Second):
	}
	report(fmt.Sprintf("ok %s | served=%s serve=%s close=%s", strings.Join(parts, " "), strings.Join(served, ""), early, final))
}

func classifyServe(e error) string {
	if e == nil {
		return "nil"
	}
	return "err"
}

// ---------------------------------------------------------------------------------------------

// Handle runs one op (fields after the first token).
func Handle(f []string) string {
	if len(f) < 1 {
		return "bad-op"
	}
	switch f[0] {
	case "sh":
		return runSh(f[1:])
	case "mx":
		return runMx(f[1:])
	case "act":
		return runAct(f[1:])
	case "newerr":
		return runNewErr(f[1:])
	case "panic":
		return runPanic(f[1:])
	case "wt":
		return runWt(f[1:])
	}
	return "bad-op"
}

var _ = bufio.NewWriter

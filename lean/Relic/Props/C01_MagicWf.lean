/-
  C01 (fragment): every file a format model accepts is detected as that format — or the exact exceptions.

  For each format with a Lean model: what the model's acceptance implies about the bytes `Detect` looks at, hence the
  verdict, under the explicit side conditions that no earlier rule of the decision list pre-empts it.  Each exception is a
  witness accepted by the format model (where one exists) and mis-detected; the correspondence replays them on the real
  code (known findings magic:*).  The ZIP family is decided by member names in directory order.
-/
import Relic.Proofs.MagicTable
import Relic.Proofs.MagicDispatch
import Relic.Proofs.PEFrame
import Relic.Proofs.Cab
import Relic.Model.MachO
import Relic.Model.Zip
import Relic.Model.Cfb
import Relic.Props.C01_Magic
import Relic.Props.C08
namespace Relic.Props.C01
open Relic Relic.Magic

/-! ### ZIP family: member names in directory order -/

/-- what a single member name decides: the marker names (after `path.Clean`, with a leading `/` made relative), the IPA
    suffixes -/
theorem hit_spec (n : Bytes) : hit n =
    if zipName n = nAndroid then some .apk else if zipName n = nXap then some .xap
    else if zipName n = nAppx then some .appx else if zipName n = nBundle then some .appx
    else if zipName n = nVsix then some .vsix
    else if isSuffix sIpa1 (zipName n) || isSuffix sIpa2 (zipName n) then some .ipa else none := by
  simp only [hit, markers, List.lookup, isIpaName, ipaSuffixes, List.any_cons, List.any_nil, Bool.or_false]
  by_cases h1 : zipName n = nAndroid
  · simp [h1]
  by_cases h2 : zipName n = nXap
  · simp [h2]; decide
  by_cases h3 : zipName n = nAppx
  · simp [h3]; decide
  by_cases h4 : zipName n = nBundle
  · simp [h4]; decide
  by_cases h5 : zipName n = nVsix
  · simp [h5]; decide
  have b1 : (zipName n == nAndroid) = false := by simpa using h1
  have b2 : (zipName n == nXap) = false := by simpa using h2
  have b3 : (zipName n == nAppx) = false := by simpa using h3
  have b4 : (zipName n == nBundle) = false := by simpa using h4
  have b5 : (zipName n == nVsix) = false := by simpa using h5
  simp [h1, h2, h3, h4, h5, b1, b2, b3, b4, b5]

/-- **ZIP sub-types, exactly.**  `detectZip` answers with the type of the *first* member (central-directory order) whose
    cleaned name is a marker or ends in an IPA suffix; if there is none, JAR iff some member cleans to
    `META-INF/MANIFEST.MF`, else Unknown.  (For ALL member lists.) -/
theorem detectZip_exact (names : List Bytes) (t : FileType) :
    detectZip (some names) = t ↔
      (∃ pre n post, names = pre ++ n :: post ∧ (∀ m ∈ pre, hit m = none) ∧ hit n = some t) ∨
      ((∀ n ∈ names, hit n = none) ∧ t = if names.any isManifest then .jar else .unknown) := by
  unfold detectZip
  simp only
  constructor
  · intro h
    rcases first_hit_or_none names with ⟨pre, n, post, t0, hn, hpre, hhit⟩ | hall
    · have := classifyLoop_first_hit false pre n post t0 hpre hhit
      rw [← hn, h] at this
      exact Or.inl ⟨pre, n, post, hn, hpre, by rw [this]; exact hhit⟩
    · have := classifyLoop_no_hit false names hall
      rw [h] at this
      exact Or.inr ⟨hall, by simpa using this⟩
  · rintro (⟨pre, n, post, hn, hpre, hhit⟩ | ⟨hall, ht⟩)
    · rw [hn]; exact classifyLoop_first_hit false pre n post t hpre hhit
    · rw [classifyLoop_no_hit false names hall, ht]; simp

theorem detectZip_jar_iff (names : List Bytes) :
    detectZip (some names) = .jar ↔ (∀ n ∈ names, hit n = none) ∧ ∃ n ∈ names, zipName n = nManifest := by
  rw [detectZip_exact]
  constructor
  · rintro (⟨pre, n, post, _, _, hhit⟩ | ⟨hall, ht⟩)
    · rw [hit_spec] at hhit
      repeat' (split at hhit <;> try (injection hhit with hhit; cases hhit))
      cases hhit
    · refine ⟨hall, ?_⟩
      by_cases ha : names.any isManifest = true
      · simpa [List.any_eq_true, isManifest] using ha
      · simp [ha] at ht
  · rintro ⟨hall, n, hn, hm⟩
    refine Or.inr ⟨hall, ?_⟩
    have : names.any isManifest = true := by
      simp only [List.any_eq_true]
      exact ⟨n, hn, by simp [isManifest, hm]⟩
    simp [this]

/-- an archive `archive/zip` cannot open is Unknown; so is an empty one -/
theorem detectZip_degenerate : detectZip none = .unknown ∧ detectZip (some []) = .unknown := by decide

/-- `PK\x03\x04` at offset 0 sends the file to `detectZip`; gzip / xz cannot also match -/
theorem detectCompressed_zip (bs : Bytes) (zn : Option (List Bytes)) (h : atPos bs pZip 0 = true) :
    detectCompressed bs zn = (detectZip zn, .none) := by
  unfold detectCompressed
  have h1 : atPos bs pGzip 0 = false := atPos0_excl (q := [0x8b]) h (by decide)
  have h2 : atPos bs pXz 0 = false := atPos0_excl (q := pXz.tail) h (by decide)
  simp [h1, h2, h]

set_option maxRecDepth 100000 in
/-- the order of the members decides (witnesses): an APK is an APK even with the JAR manifest first; a JAR with a resource
    called `AndroidManifest.xml` is an APK; an APK that ships `x.app/Info.plist` before its manifest is an IPA; the names
    are cleaned (`./X`, `/X`, `a/../X`, `X/` all count) but compared case-sensitively -/
theorem detectZip_witnesses :
    detectZip (some [nManifest, nAndroid]) = .apk ∧
    detectZip (some [nManifest, [97], nAndroid]) = .apk ∧
    detectZip (some [[120] ++ sIpa1, nAndroid]) = .ipa ∧
    detectZip (some [nAndroid, [120] ++ sIpa1]) = .apk ∧
    detectZip (some [[46, 47] ++ nAndroid]) = .apk ∧ detectZip (some [[47] ++ nAndroid]) = .apk ∧
    detectZip (some [[97, 47, 46, 46, 47] ++ nAndroid]) = .apk ∧ detectZip (some [nAndroid ++ [47]]) = .apk ∧
    detectZip (some [[97, 47] ++ nAndroid]) = .unknown ∧
    detectZip (some [[97] ++ nAndroid.tail]) = .unknown ∧
    detectZip (some [[109, 101, 116, 97, 45, 105, 110, 102, 47, 109, 97, 110, 105, 102, 101, 115, 116, 46, 109, 102]]) = .unknown := by
  decide

/-- link to the ZIP model: a member whose local header relic's reader (`zipslicer`) accepts at offset 0 means the file
    starts with `PK\x03\x04`, i.e. the file goes to `detectZip` -/
theorem detect_wf_zip_prefix (r : Zip.Rd) (f : Zip.File) (l : Zip.Lfh) (r' : Zip.Rd)
    (hnone : f.lfh = none) (hoff : f.offset = 0) (h : Zip.readLocalHeader r f = .ok (l, r')) : atPos r.z pZip 0 = true := by
  unfold Zip.readLocalHeader at h
  simp only [hnone, hoff] at h
  cases hr : r.readFullAt 0 30 with
  | ok p =>
    obtain ⟨b, r1⟩ := p
    simp only [hr] at h
    split at h
    · cases h
    · rename_i hsig
      have hsig' : Zip.fld b 0 4 = Zip.sigFile := by simpa using hsig
      -- what was read are the first 30 bytes
      have hb : b = r.z.take 30 ∧ 30 ≤ r.z.length := by
        unfold Zip.Rd.readFullAt Zip.Rd.readAt at hr
        simp only [show (30 : Nat) ≠ 0 by decide, if_false] at hr
        split at hr
        · cases hr
        · split at hr
          · split at hr
            · cases hr
            · split at hr
              · injection hr with hr; injection hr with hr1 _
                exact ⟨by simpa using hr1.symm, by omega⟩
              · cases hr
          · split at hr
            · cases hr
            · split at hr
              · injection hr with hr; injection hr with hr1 _
                exact ⟨by simpa using hr1.symm, by omega⟩
              · cases hr
      rw [atPos0_iff]
      refine ⟨by decide, ?_⟩
      have h4 : (b.take 4).length = 4 := by rw [hb.1]; simp [List.length_take]; omega
      have hv : leVal (b.take 4) = Zip.sigFile := by simpa [Zip.fld] using hsig'
      have := Cab.leBytes_leVal (b.take 4)
      rw [h4, hv] at this
      have e : r.z.take 4 = b.take 4 := by rw [hb.1, List.take_take]; rfl
      show r.z.take 4 = pZip
      rw [e, ← this]
      decide
  | err e => simp [hr] at h
  | panic s => simp [hr] at h
  | diverge => simp [hr] at h

/-! ### PE -/

/-- **PE.**  Every image whose headers relic's PE reader accepts (`readHeaders`, the first step of `DigestPE`) with
    `64 ≤ e_lfanew < 65536` is detected as PE/COFF (since the repair of FM1; before: `e_lfanew + 4 ≤ 4096`), provided no
    earlier rule pre-empts (no certTrustList / signedData OID in the first 256 bytes, no `ustar` at 257). -/
theorem detect_wf_pe (f : Bytes) (h : PE.Headers) (e : PE.readHeaders f = .ok h) (h64 : 64 ≤ PE.u32 f 0x3c)
    (hbuf : PE.u32 f 0x3c < 65536) (hc : hasCtl f = false) (hs : hasSignedData f = false) (ht : isTar f = false) :
    detect f = .pecoff := by
  have F := PE.readHeaders_full f h h64 e
  have hsig := F.sig
  rw [F.pe] at hsig
  have hlen : PE.u32 f 60 + 4 ≤ f.length := by
    have : (PE.seg f (PE.u32 f 60) (PE.u32 f 60 + 4)).length = 4 := by rw [hsig]; rfl
    simp [PE.seg, List.length_take, List.length_drop] at this
    omega
  have hrel : reloc f = PE.u32 f 60 := by
    unfold reloc peekAny PE.u32 PE.seg
    have e1 : List.drop 60 (List.take (min 62 bufSize) f) = (f.drop 60).take 2 := by
      rw [List.drop_take]; rfl
    have e2 : List.take (60 + 4 - 60) (List.drop 60 f) = (f.drop 60).take 4 := rfl
    rw [e1, e2]
    apply leVal_take2_of_small
    have : leVal ((f.drop 60).take 4) = PE.u32 f 60 := rfl
    rw [this]
    exact hbuf
  rw [detect_pecoff_iff]
  refine ⟨hc, hs, ht, ?_, ?_⟩
  · rw [atPos0_iff]
    refine ⟨by decide, ?_⟩
    have := F.mz
    show f.take 2 = [77, 90]
    simpa [PE.seg] using this
  · rw [mzProbe_iff, hrel]
    refine ⟨by omega, by simp only [bufSize]; omega, hlen, ?_⟩
    have : PE.seg f (PE.u32 f 60) (PE.u32 f 60 + 4) = (f.drop (PE.u32 f 60)).take 4 := by
      unfold PE.seg; congr 1; omega
    rw [← this, hsig]; rfl

set_option maxRecDepth 100000 in
/-- the model's own minimal image satisfies the hypotheses, and is detected -/
example : (PE.readHeaders C08.minimalPE).isOk = true ∧ 64 ≤ PE.u32 C08.minimalPE 0x3c ∧ hasCtl C08.minimalPE = false ∧
    detect C08.minimalPE = .pecoff := by decide

/-! ### CAB, Mach-O -/

/-- **CAB.**  Every cabinet `cabfile.Digest` accepts is detected as CAB unless an OID in the first 256 bytes or `ustar` at
    257 pre-empts it. -/
theorem detect_wf_cab (f : Bytes) (d : Cab.Digest) (e : Cab.DigestCab f = .ok d)
    (hc : hasCtl f = false) (hs : hasSignedData f = false) (ht : isTar f = false) : detect f = .cab := by
  unfold Cab.DigestCab at e
  split at e
  · cases e
  · rename_i hl
    split at e
    · cases e
    · rename_i hm
      have hm' : PE.u32 f 0 = 0x4643534d := by simpa using hm
      rw [detect_cab_iff]
      refine ⟨hc, hs, ht, ?_⟩
      rw [atPos0_iff]
      refine ⟨by decide, ?_⟩
      have h4 : (f.take 4).length = 4 := by simp [List.length_take]; omega
      have hv : leVal (f.take 4) = 0x4643534d := by simpa [PE.u32, PE.seg] using hm'
      have := Cab.leBytes_leVal (f.take 4)
      rw [h4, hv] at this
      show f.take 4 = pCab
      rw [← this]; decide

/-- **Mach-O.**  Every thin image `machos.scanFile` accepts — in either byte order, since the repair of FM3 — is detected
    as Mach-O unless an OID / `ustar` / `…assembly` in the first 256 bytes pre-empts it. -/
theorem detect_wf_macho (f : Bytes) (m : MachO.Markers) (e : MachO.scan f = .ok m)
    (hc : hasCtl f = false) (hs : hasSignedData f = false) (ht : isTar f = false) (ha : hasAsm f = false) : detect f = .machO := by
  have hl : 4 ≤ f.length ∧ (MachO.readMagic f).isSome := by
    unfold MachO.scan at e
    split at e
    · cases e
    · refine ⟨by omega, ?_⟩
      split at e
      · cases e
      · rename_i hm; rw [hm]; rfl
  have h4 : (f.take 4).length = 4 := by simp [List.length_take]; omega
  rw [detect_machO_iff]
  refine ⟨hc, hs, ht, ha, ?_⟩
  have key : ∀ p : Bytes, p.length = 4 → f.take 4 = p → atPos f p 0 = true := by
    intro p hp he
    rw [atPos0_iff]; exact ⟨by rw [hp]; decide, by rw [hp]; exact he⟩
  have hm := hl.2
  unfold MachO.readMagic at hm
  simp only at hm
  split at hm
  · rename_i hv
    -- big-endian
    have hcases : beVal (f.take 4) = 0xfeedface ∨ beVal (f.take 4) = 0xfeedfacf := by omega
    have hb := be4_eq (f.take 4) h4
    rcases hcases with hv' | hv'
    · rw [hv'] at hb
      have : atPos f pMacho32BE 0 = true := key _ rfl (by rw [hb]; decide)
      simp [this]
    · rw [hv'] at hb
      have : atPos f pMacho64BE 0 = true := key _ rfl (by rw [hb]; decide)
      simp [this]
  · split at hm
    · rename_i hv
      have hcases : leVal (f.take 4) = 0xfeedface ∨ leVal (f.take 4) = 0xfeedfacf := by omega
      have hb := Cab.leBytes_leVal (f.take 4)
      rw [h4] at hb
      rcases hcases with hv' | hv'
      · rw [hv'] at hb
        have : atPos f pMacho32 0 = true := key _ rfl (by rw [← hb]; decide)
        simp [this]
      · rw [hv'] at hb
        have : atPos f pMacho64 0 = true := key _ rfl (by rw [← hb]; decide)
        simp [this]
    · cases hm

/-! ### by file name: PowerShell, DMG; DEB, MSI by their first bytes -/

/-- **PowerShell / DMG.**  A file whose content `DetectCompressed` does not recognise (Unknown, not compressed) is dispatched
    by its name: `filepath.Ext` among the seven PowerShell extensions → `ps`; suffix `.dmg` → `dmg`.  Case-sensitive. -/
theorem detect_wf_ps_dmg (name bs : Bytes) (zn : Option (List Bytes)) (hn : name ≠ [45])
    (hd : detectCompressed bs zn = (.unknown, .none)) :
    (psExts.contains (ext name) = true → byFile name [] bs zn = .ok sPs) ∧
    (isSuffix extDmg name = true → byFile name [] bs zn = .ok sDmg) := by
  constructor
  · intro h
    have := byFileName_ps name h
    unfold byFileName at this
    simp [byFile, byFileIn, hn, hd, byMagicIn, this]
  · intro h
    have := byFileName_dmg name h
    unfold byFileName at this
    simp [byFile, byFileIn, hn, hd, byMagicIn, this]

/-- content is looked at before the name: the detected module wins over the extension -/
theorem content_before_filename (name bs : Bytes) (zn : Option (List Bytes)) (m : Signer) (hn : name ≠ [45])
    (hc : (detectCompressed bs zn).2 = .none) (hm : byMagic (detectCompressed bs zn).1 = some m) :
    byFile name [] bs zn = .ok m := by
  unfold byFile byFileIn
  unfold byMagic at hm
  simp [hn, hc, hm]

/-- **DEB / MSI / RPM / XAR** are decided by their first bytes alone (`!<arch>\ndebian`; `D0 CF`; `ED AB EE DB`; `xar!`) — for
    MSI and XAR unless an OID / `ustar` (/ `…assembly`) pre-empts.  The DEB model (`signdeb`) never compares the global header
    nor requires `debian-binary` first; `Detect` does. -/
theorem detect_wf_by_prefix (rest : Bytes) :
    detect (pDeb ++ rest) = .deb ∧ detect (pRpm ++ rest) = .rpm ∧
    (hasCtl (pCfb ++ rest) = false → hasSignedData (pCfb ++ rest) = false → isTar (pCfb ++ rest) = false → detect (pCfb ++ rest) = .msi) := by
  refine ⟨?_, ?_, ?_⟩
  · rw [detect_deb_iff, atPos0_iff]; exact ⟨by decide, by simp [pDeb]⟩
  · rw [detect_rpm_iff, atPos0_iff]; exact ⟨by decide, by simp [pRpm]⟩
  · intro h1 h2 h3
    rw [detect_msi_iff]
    refine ⟨h1, h2, h3, ?_⟩
    rw [atPos0_iff]; exact ⟨by decide, by simp [pCfb]⟩

/-- **MSI.**  Every compound file whose header `comdoc` accepts (`readHeader`: the 8-byte signature and a complete
    512-byte header) is detected as MSI — `Detect` compares only the first two signature bytes — unless an OID in the first
    256 bytes or `ustar` at 257 pre-empts it.  (Every CFB file is "MSI" to relic: .doc, .xls, .msp alike.) -/
theorem detect_wf_msi (b : Cfb.Buf) (h : Cfb.Header) (e : Cfb.readHeader b = .ok h)
    (hc : hasCtl b.toList = false) (hs : hasSignedData b.toList = false) (ht : isTar b.toList = false) :
    detect b.toList = .msi := by
  have hm : b.toList.take 8 = Cfb.magic := by
    unfold Cfb.readHeader at e
    cases hb : Cfb.bytes? b 0 8 with
    | none => simp [hb] at e
    | some m =>
      simp only [hb] at e
      by_cases hm : m = Cfb.magic
      · unfold Cfb.bytes? at hb
        split at hb
        · injection hb with hb
          rw [← hm, ← hb]
          simp [Array.toList_extract]
        · cases hb
      · simp [hm] at e
        cases e
  rw [detect_msi_iff]
  refine ⟨hc, hs, ht, ?_⟩
  rw [atPos0_iff]
  refine ⟨by decide, ?_⟩
  have : (b.toList.take 8).take 2 = b.toList.take 2 := by rw [List.take_take]; rfl
  show b.toList.take 2 = pCfb
  rw [← this, hm]; rfl

/-! ### the exceptions (each accepted by the format model or plainly well-formed, each mis-detected) -/

/-- a PE image with `e_lfanew = 4096` (a 4 KiB DOS stub): accepted by the PE model's `readHeaders` -/
def deepStubPE : Bytes :=
  [0x4d, 0x5a] ++ List.replicate 58 0 ++ [0, 0x10, 0, 0] ++ List.replicate 4032 0 ++
  [0x50, 0x45, 0, 0] ++ [0x4c, 0x01, 0, 0] ++ List.replicate 12 0 ++ [224, 0] ++ [0, 0] ++
  [0x0b, 0x01] ++ List.replicate 58 0 ++ [0xf8, 0x10, 0, 0] ++ List.replicate 28 0 ++ [16, 0, 0, 0] ++
  List.replicate 128 0 ++ [1, 2, 3]

set_option maxRecDepth 1000000 in
/-- **the original 4096-byte reader (finding FM1).**  That image was Unknown to `Detect`, hence "unknown filetype" without
    `--sig-type`; through the 65540-byte reader it is PE/COFF and dispatched to `pe-coff` -/
theorem detect_wf_pe_exception_deep_stub :
    (PE.readHeaders deepStubPE).isOk = true ∧ 64 ≤ PE.u32 deepStubPE 0x3c ∧ detectOrigFM1 deepStubPE = .unknown ∧
    detect deepStubPE = .pecoff ∧ byFile [120, 46, 101, 120, 101] [] deepStubPE none = .ok sPe := by decide

/-- what remains of FM1: the probe reads the 32-bit `e_lfanew` as 16 bits.  For every file with a complete DOS header the
    offset it looks at is `e_lfanew mod 65536` — an image whose PE header starts at 64 KiB or later is probed in the wrong
    place (relic's PE reader follows the full 32-bit value). -/
theorem mz_probe_reads_low_half (f : Bytes) (h : 0x40 ≤ f.length) : reloc f = PE.u32 f 0x3c % 65536 := by
  unfold reloc peekAny PE.u32 PE.seg
  have e1 : List.drop 60 (List.take (min 62 bufSize) f) = (f.drop 60).take 2 := by
    rw [List.drop_take]; rfl
  have e2 : List.take (60 + 4 - 60) (List.drop 60 f) = (f.drop 60).take 4 := rfl
  rw [e1, e2]
  exact leVal_take2_mod _ (by simp [List.length_drop]; omega)

set_option maxRecDepth 100000 in
/-- the low half alone decides: `e_lfanew = 0x10040` with `PE\0\0` at 0x40 is PE/COFF to `Detect` although the PE reader,
    which looks at 0x10040, finds the file too short -/
theorem detect_wf_pe_exception_lfanew_32bit :
    detect ([77, 90] ++ List.replicate 58 0 ++ [0x40, 0, 1, 0] ++ [80, 69, 0, 0]) = .pecoff ∧
    PE.readHeaders ([77, 90] ++ List.replicate 58 0 ++ [0x40, 0, 1, 0] ++ [80, 69, 0, 0]) = .err "eof" := by decide

/-- the same image as `C08.minimalPE` with the signedData OID in its (otherwise unused) DOS header: still accepted by the PE
    model, detected as PKCS#7 -/
def oidPE : Bytes :=
  [0x4d, 0x5a] ++ [0, 0] ++ pOidSigned ++ List.replicate 45 0 ++ [64, 0, 0, 0] ++ (C08.minimalPE.drop 64)

set_option maxRecDepth 1000000 in
theorem detect_wf_pe_exception_oid :
    (PE.readHeaders oidPE).isOk = true ∧ detect oidPE = .pkcs7 := by decide

set_option maxRecDepth 100000 in
/-- **the original table (finding FM3).**  A big-endian Mach-O header passes `readMagic` (both byte orders are read) but was
    Unknown to `Detect`; with the two magics added it is Mach-O -/
theorem detect_wf_macho_exception_big_endian :
    MachO.readMagic [0xfe, 0xed, 0xfa, 0xcf, 0, 0, 0, 0] = some (true, 0xfeedfacf) ∧
    detectOrigFM3 ([0xfe, 0xed, 0xfa, 0xcf] ++ List.replicate 28 0) = .unknown ∧
    detectOrigFM3 ([0xfe, 0xed, 0xfa, 0xce] ++ List.replicate 24 0) = .unknown ∧
    detect ([0xfe, 0xed, 0xfa, 0xcf] ++ List.replicate 28 0) = .machO ∧
    detect ([0xfe, 0xed, 0xfa, 0xce] ++ List.replicate 24 0) = .machO := by decide

set_option maxRecDepth 100000 in
/-- a PowerShell script that mentions `$script:assembly…` within its first 256 bytes goes to the application-manifest
    signer although it is called `t.ps1`; the same text 260 bytes further down is fine; an upper-case extension is not
    recognised -/
theorem detect_wf_ps_exception :
    byFile [116, 46, 112, 115, 49] [] ([36, 115, 99, 114, 105, 112, 116] ++ pAsm2 ++ [32, 61, 32, 49, 10]) none = .ok sAppmanifest ∧
    byFile [116, 46, 112, 115, 49] [] (List.replicate 260 32 ++ [36, 115, 99, 114, 105, 112, 116] ++ pAsm2) none = .ok sPs ∧
    byFile [84, 46, 80, 83, 49] [] [36, 120, 10] none = .error .unknownType := by decide

set_option maxRecDepth 100000 in
/-- an application manifest whose root element starts beyond byte 256 (a licence comment first) is Unknown -/
theorem detect_wf_appmanifest_exception :
    detect ([60, 33, 45, 45] ++ List.replicate 250 120 ++ [45, 45, 62] ++ pAsm1 ++ [47, 62]) = .unknown ∧
    detect ([60, 33, 45, 45] ++ List.replicate 200 120 ++ [45, 45, 62] ++ pAsm1 ++ [47, 62]) = .appManifest := by decide

end Relic.Props.C01

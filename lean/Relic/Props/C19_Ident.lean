/-
  C19, last clause — "the identity fields written into a manifest (public-key token, publisher) are those of the signing
  key".  Model `Relic.Model.Ident` (lib/appmanifest/publictoken.go, signmanifest.go, verify.go; lib/x509tools/names.go,
  util.go), specification side `Relic.Spec.Ident`.  Hashing stays outside Lean: statements are about the byte string fed
  to SHA-1 and about the selection of digest bytes, for every 20-byte digest; `sha1` is a parameter elsewhere.
-/
import Relic.Proofs.IdentToken
import Relic.Proofs.IdentName
import Relic.Proofs.IdentInj
import Relic.Proofs.IdentSign
import Relic.Proofs.IdentTotal
import Relic.Proofs.Der
namespace Relic.Props.C19
open Relic Relic.Ident

/-! ## 1. publicKeyToken -/

/-- **token_is_spec.**  For every RSA key the byte string relic hashes is the strong-name `PublicKeyBlob` of the
    specification (SigAlgID, HashAlgID, cbPublicKey, CAPI PUBLICKEYBLOB of (e, n)), and for every 20-byte digest the token
    is the specification's selection (low 64 bits of the digest, most significant byte first). -/
theorem token_is_spec :
    (∀ n e, snkRsa n e = Spec.Ident.strongNameBlob n e) ∧
    (∀ d : Bytes, d.length = 20 → tokenSel d = .ok (Spec.Ident.tokenOfDigest d)) :=
  ⟨snkRsa_eq_spec, tokenSel_eq_spec⟩

/-- non-vacuity: the blob of the key (n = 0x0103, e = 65537), byte for byte -/
example : snkRsa 259 65537 =
    [0x00, 0x24, 0, 0, 0x04, 0x80, 0, 0, 22, 0, 0, 0, 0x06, 0x02, 0, 0, 0x00, 0x24, 0, 0, 0x52, 0x53, 0x41, 0x31, 16, 0, 0, 0,
     1, 0, 1, 0, 3, 1] := by
  have h : natLE 259 = [3, 1] := by
    rw [natLE_pos 259 (by decide), natLE_pos (259 / 256) (by decide)]
    have : 259 / 256 / 256 = 0 := by decide
    rw [this, natLE_zero]; decide
  simp only [snkRsa, bigIntToLE_eq, h]
  decide

example : tokenSel (List.range 20 |>.map UInt8.ofNat) = .ok [19, 18, 17, 16, 15, 14, 13, 12] := by decide

/-- whatever is handed over as a digest, a short one makes the loop panic (SHA-1 always gives 20 bytes) -/
theorem token_sel_short_panics (d : Bytes) (h : d.length < 20) :
    tokenSel d = .panic "publictoken.go:PublicKeyToken:sum[19-i]" := tokenSel_short d h

/-- **token_blob_injective.**  Different (n, e) give different blobs, so the token identifies the key up to SHA-1
    (exponent within the DWORD the format has for it; Go's crypto/rsa only works with e < 2^31). -/
theorem token_blob_injective (n e n' e' : Nat) (he : e < 2 ^ 32) (he' : e' < 2 ^ 32)
    (h : snkRsa n e = snkRsa n' e') : n = n' ∧ e = e' := snkRsa_injective n e n' e' he he' h

example : (65537 : Nat) < 2 ^ 32 ∧ (3 : Nat) < 2 ^ 32 := by decide

def token_blob_injective_full : Prop := ∀ n e n' e', snkRsa n e = snkRsa n' e' → n = n' ∧ e = e'

/-- the exact exception: `uint32(k.E)` – exponents that differ by a multiple of 2^32 share a blob -/
theorem token_blob_injective_full_false : ¬ token_blob_injective_full := by
  intro h
  have := (h 1 1 1 (2 ^ 32 + 1) (by rw [snkRsa_exponent_mod 1 (2 ^ 32 + 1)])).2
  exact absurd this (by decide)

/-- non-RSA keys: for one curve the blob still determines the point (coordinates below 2^528) … -/
theorem ecdsa_blob_injective (m x y x' y' : Nat) (hx : x < 256 ^ 66) (hx' : x' < 256 ^ 66)
    (h : snkEcdsa m x y = snkEcdsa m x' y') : x = x' ∧ y = y' := snkEcdsa_injective m x y x' y' hx hx' h

/-- … but it is no documented layout: coordinates are written at their minimal length and the size field counts
    `12 + 2·|X|` where `16 + |X| + |Y|` bytes follow (exact only if |X| = |Y| + 4) -/
theorem ecdsa_blob_size_field (m x y : Nat) :
    (snkEcdsa m x y).length = 12 + (16 + (natBE x).length + (natBE y).length) := snkEcdsa_length m x y

/-- other key types are refused -/
theorem token_other_keys_refused : publicKeyToSnk .other = .err "unsupported-key" ∧
    publicKeyToSnk (.ec 224 1 1) = .err "unsupported-curve" := by decide

/-! ## 2. publisher: the distinguished-name string -/

/-- **publisher_is_spec.**  On the decidable class `Spec.Ident.Agree` (every value a character string; no apostrophe
    in a value; no leading / trailing TAB, VT, FF, CR; attribute type none of UID, X21Address, dnQualifier) relic's
    MS-OSCO string is the documented `CertNameToStr(CERT_X500_NAME_STR | CERT_NAME_STR_REVERSE_FLAG)` string. -/
theorem publisher_is_spec (n : Name) (h : Spec.Ident.Agree n = true) :
    formatParsed .msosco n = Spec.Ident.certNameToStr n := formatParsed_eq_spec n h

def cn : List Nat := [2, 5, 4, 3]
def org : List Nat := [2, 5, 4, 10]
def country : List Nat := [2, 5, 4, 6]

/-- C=US, O=Acme #1 Widgets, CN=Demo Publisher (encoded order) -/
def demoName : Name :=
  [[⟨country, .str (ascii "US")⟩], [⟨org, .str (ascii "Acme #1 Widgets")⟩], [⟨cn, .str (ascii "Demo Publisher")⟩]]

example : Spec.Ident.Agree demoName = true := by decide

/-- '#' anywhere in a value forces quotes (the seeded change C19b-2 broke exactly this) -/
example : formatParsed .msosco demoName = ascii "CN=Demo Publisher, O=\"Acme #1 Widgets\", C=US" := by decide

def publisher_is_spec_full : Prop :=
  ∀ n : Name, (∀ r ∈ n, ∀ a ∈ r, Spec.Ident.isStr a.val = true) → formatParsed .msosco n = Spec.Ident.certNameToStr n

/-- exact exceptions (1): an apostrophe makes relic quote, the documented rule does not -/
theorem publisher_ne_spec_apostrophe :
    formatParsed .msosco [[⟨org, .str (ascii "a'b")⟩]] = ascii "O=\"a'b\"" ∧
    Spec.Ident.certNameToStr [[⟨org, .str (ascii "a'b")⟩]] = ascii "O=a'b" := by decide

/-- (2): leading / trailing white space other than the space character -/
theorem publisher_ne_spec_edge_white :
    formatParsed .msosco [[⟨org, .str [9, 97]⟩]] = [79, 61, 9, 97] ∧
    Spec.Ident.certNameToStr [[⟨org, .str [9, 97]⟩]] = [79, 61, 34, 9, 97, 34] := by decide

/-- (3): key names – UID has a name only in relic's table, X21Address / dnQualifier only in the documented one -/
theorem publisher_ne_spec_key_name :
    (formatParsed .msosco [[⟨uid, .str [97]⟩]]).head? = some 85 ∧
    (Spec.Ident.certNameToStr [[⟨uid, .str [97]⟩]]).head? = some 79 ∧
    (formatParsed .msosco [[⟨Spec.Ident.dnqOid, .str [97]⟩]]).head? = some 79 ∧
    Spec.Ident.certNameToStr [[⟨Spec.Ident.dnqOid, .str [97]⟩]] = ascii "dnQualifier=a" ∧
    (formatParsed .msosco [[⟨Spec.Ident.x21Oid, .str [97]⟩]]).head? = some 79 ∧
    Spec.Ident.certNameToStr [[⟨Spec.Ident.x21Oid, .str [97]⟩]] = ascii "X21Address=a" := by decide

theorem publisher_is_spec_full_false : ¬ publisher_is_spec_full := by
  intro h
  have := h [[⟨org, .str (ascii "a'b")⟩]] (by decide)
  rw [publisher_ne_spec_apostrophe.1, publisher_ne_spec_apostrophe.2] at this
  exact absurd this (by decide)

/-- **dn_format_injective_partial.**  In the LDAP and the MS-OSCO style, two names whose RDNs are non-empty and whose
    values are character strings have the same string only if they are the same name (separators, quoting and
    attribute names never make two such names collide). -/
theorem dn_format_injective_partial (s : NameStyle) (hs : s = .ldap ∨ s = .msosco) (n n' : Name)
    (hn : InjClass n) (hn' : InjClass n') (h : formatParsed s n = formatParsed s n') : n = n' :=
  formatParsed_injective s hs n n' hn hn' h

example : InjClass demoName := by
  intro r hr
  simp only [demoName, List.mem_cons, List.not_mem_nil, or_false] at hr
  rcases hr with h | h | h <;> subst h <;> exact ⟨by simp, by intro a ha; simp at ha; subst ha; exact ⟨_, rfl⟩⟩

def dn_format_injective_full : Prop :=
  ∀ (s : NameStyle) (n n' : Name), formatParsed s n = formatParsed s n' → n = n'

/-- exact collisions outside the class (1): an empty SET is invisible -/
theorem dn_format_collision_empty_rdn : formatParsed .msosco [] = formatParsed .msosco [[]] ∧ ([] : Name) ≠ [[]] := by decide

/-- (2): values that are not character strings all print as `<invalid>` -/
theorem dn_format_collision_nonstring :
    formatParsed .ldap [[⟨cn, .other⟩]] = ascii "CN=<invalid>" ∧
    (⟨cn, .other⟩ : ATV) ≠ ⟨cn, .str (ascii "<invalid>")⟩ ∧
    formatParsed .ldap [[⟨cn, .str (ascii "<invalid>")⟩]] = ascii "CN=\"<invalid>\"" := by decide

/-- (3): the OpenSSL style (audit attribute `client.dn`) escapes '/' but not the backslash, and flattens
    multi-valued RDNs: distinct subjects with the same string -/
theorem openssl_style_not_injective :
    formatParsed .openssl [[⟨cn, .str (ascii "a/CN=b")⟩]] = formatParsed .openssl [[⟨cn, .str (ascii "a\\")⟩], [⟨cn, .str (ascii "b")⟩]] ∧
    formatParsed .openssl [[⟨cn, .str [97]⟩, ⟨cn, .str [98]⟩]] = formatParsed .openssl [[⟨cn, .str [97]⟩], [⟨cn, .str [98]⟩]] := by
  decide

theorem dn_format_injective_full_false : ¬ dn_format_injective_full := by
  intro h
  exact dn_format_collision_empty_rdn.2 (h .msosco [] [[]] dn_format_collision_empty_rdn.1)

/-- `FormatPkixName` has an answer for every byte string: never a panic, never a loop
    (`err` only for inputs outside the model: a time value or a multi-byte tag in the value position) -/
theorem format_total (style : NameStyle) (der : Bytes) : safe (formatPkixName style der) = true :=
  formatPkixName_safe style der

/-- the DER `30 0c 31 0a 30 08 06 03 55 04 03 0c 01 61` is read as CN=a and printed in the three styles -/
def derCNa : Bytes := [0x30, 0x0c, 0x31, 0x0a, 0x30, 0x08, 0x06, 0x03, 0x55, 0x04, 0x03, 0x0c, 0x01, 0x61]

theorem parse_example : parseName derCNa = .ok [[⟨cn, .str [97]⟩]] := by
  have e1 : derCNa = Der.tlv 0x30 (Der.tlv 0x31 (Der.tlv 0x30 (Der.tlv 0x06 [0x55, 0x04, 0x03] ++ Der.tlv 0x0c [0x61]))) ++ [] := by decide
  have u1 := Der.untlv_tlv 0x30 (Der.tlv 0x31 (Der.tlv 0x30 (Der.tlv 0x06 [0x55, 0x04, 0x03] ++ Der.tlv 0x0c [0x61]))) []
    (by decide) (by decide)
  have s1 : Der.splitTLVs (Der.tlv 0x31 (Der.tlv 0x30 (Der.tlv 0x06 [0x55, 0x04, 0x03] ++ Der.tlv 0x0c [0x61])) ++ []) =
      .ok [⟨Der.tlv 0x31 (Der.tlv 0x30 (Der.tlv 0x06 [0x55, 0x04, 0x03] ++ Der.tlv 0x0c [0x61])), 0x31,
        Der.tlv 0x30 (Der.tlv 0x06 [0x55, 0x04, 0x03] ++ Der.tlv 0x0c [0x61])⟩] := by
    rw [Der.splitTLVs_cons _ _ _ (by decide) (by decide), Der.splitTLVs_nil]
  have s2 : Der.splitTLVs (Der.tlv 0x30 (Der.tlv 0x06 [0x55, 0x04, 0x03] ++ Der.tlv 0x0c [0x61]) ++ []) =
      .ok [⟨Der.tlv 0x30 (Der.tlv 0x06 [0x55, 0x04, 0x03] ++ Der.tlv 0x0c [0x61]), 0x30,
        Der.tlv 0x06 [0x55, 0x04, 0x03] ++ Der.tlv 0x0c [0x61]⟩] := by
    rw [Der.splitTLVs_cons _ _ _ (by decide) (by decide), Der.splitTLVs_nil]
  have a1 : parseATV (Der.tlv 0x06 [0x55, 0x04, 0x03] ++ Der.tlv 0x0c [0x61]) = .ok ⟨cn, .str [97]⟩ := by decide
  rw [e1]
  simp only [parseName, u1, liftTLV]
  simp only [List.append_nil] at s1 s2
  simp only [parseElems, s1, s2, liftTLV, parseEach, a1]
  decide

example : formatPkixName .msosco derCNa = .ok (ascii "CN=a") := by
  simp only [formatPkixName, parse_example]; decide

/-! ## 3. the manifest -/

/-- **identity_fields_are_signers.**  When `Sign` succeeds, the manifest carries exactly one top-level
    `publisherIdentity`, whose name and issuerKeyHash are those derived from the signing certificate; every other part of
    the manifest is untouched; the `publicKeyToken` a reader finds on `assemblyIdentity` is the signing key's (provided no
    namespace-prefixed attribute of that local name precedes it), all other attributes keep their values; and signing
    again with any other certificate gives exactly what signing the original with that certificate gives. -/
theorem identity_fields_are_signers {α} (sha1 : Bytes → Bytes) (m m' : Manifest α) (c : Loaded)
    (h : signIdent sha1 m c = .ok m') :
    ∃ id attrs, identOf sha1 c = .ok id ∧ m.asi = some attrs ∧
      m'.publishers = [(id.name, id.issuerKeyHash)] ∧ m'.others = m.others ∧
      (NoPrefixedBefore "publicKeyToken" attrs → m'.asi.map (attrValue "publicKeyToken") = some id.token) ∧
      (∀ k, k ≠ "publicKeyToken" → m'.asi.map (attrValue k) = some (attrValue k attrs)) ∧
      (∀ c2, signIdent sha1 m' c2 = signIdent sha1 m c2) := by
  obtain ⟨id, attrs, hid, ha, hm⟩ := signIdent_ok sha1 m m' c h
  refine ⟨id, attrs, hid, ha, ?_, ?_, ?_, ?_, ?_⟩
  · rw [hm]
  · rw [hm]
  · intro hp; rw [hm]; simp [attrValue_createAttr _ _ _ hp]
  · intro k hk; rw [hm]; simp [attrValue_createAttr_other _ _ _ _ hk]
  · intro c2; exact signIdent_resign sha1 m m' c c2 h

/-- … where the derived identity is: token = hex of the selected bytes of SHA-1 over the key blob; issuerKeyHash = hex
    of SHA-1 over the subjectPublicKey bits of the first loaded certificate whose subject equals the leaf's issuer;
    name = the MS-OSCO string of the leaf's subject -/
theorem identity_is_derived_from_certificate (sha1 : Bytes → Bytes) (c : Loaded) (id : Ident) (h : identOf sha1 c = .ok id) :
    ∃ snk t ik s n, publicKeyToSnk c.leaf.key = .ok snk ∧ tokenSel (sha1 snk) = .ok t ∧ id.token = hexStr t ∧
      issuerOf c = some ik ∧ skidStream ik = .ok s ∧ id.issuerKeyHash = hexStr (sha1 s) ∧
      formatPkixName .msosco c.leaf.subject = .ok n ∧ id.name = bytesToString n := by
  unfold identOf publicKeyToken publisherIdentity at h
  cases h1 : publicKeyToSnk c.leaf.key with
  | ok snk =>
    cases h2 : tokenSel (sha1 snk) with
    | ok t =>
      cases h3 : issuerOf c with
      | none => simp [h1, h2, h3] at h
      | some ik =>
        cases h4 : skidStream ik with
        | ok s =>
          cases h5 : formatPkixName .msosco c.leaf.subject with
          | ok n =>
            simp only [h1, h2, h3, h4, h5] at h
            cases h
            exact ⟨snk, t, ik, s, n, rfl, h2, rfl, rfl, h4, rfl, rfl, rfl⟩
          | err e => simp [h1, h2, h3, h4, h5] at h
          | panic p => simp [h1, h2, h3, h4, h5] at h
          | diverge => simp [h1, h2, h3, h4, h5] at h
        | err e => simp [h1, h2, h3, h4] at h
        | panic p => simp [h1, h2, h3, h4] at h
        | diverge => simp [h1, h2, h3, h4] at h
    | err e => simp [h1, h2] at h
    | panic p => simp [h1, h2] at h
    | diverge => simp [h1, h2] at h
  | err e => simp [h1] at h
  | panic p => simp [h1] at h
  | diverge => simp [h1] at h

/-- non-vacuity: a self-signed P-256 certificate with subject CN=a, a hash that answers twenty 7s, a manifest with a
    stale token and two stale publishers: `Sign` succeeds -/
def demoCert : Loaded := ⟨⟨.ec 256 1 2, derCNa, derCNa⟩, [(derCNa, .ec 256 1 2)]⟩
def demoManifest : Manifest Unit := ⟨some [⟨"", "name", "App.exe"⟩, ⟨"", "publicKeyToken", "0000000000000000"⟩],
  [("CN=Old", "00"), ("CN=Older", "01")], ()⟩

def demoHash : Bytes → Bytes := fun _ => List.replicate 20 7

theorem demo_token : publicKeyToken demoHash demoCert.leaf.key = .ok (hexStr (List.replicate 8 7)) := by
  have t : ∀ b : Bytes, tokenSel (demoHash b) = .ok (List.replicate 8 7) := by
    intro b; show tokenSel (List.replicate 20 7) = _; decide
  simp [publicKeyToken, demoCert, publicKeyToSnk, ecMagic, t]

theorem demo_publisher :
    publisherIdentity demoHash demoCert = .ok (bytesToString (ascii "CN=a"), hexStr (List.replicate 20 7)) := by
  have f : formatPkixName .msosco derCNa = .ok (ascii "CN=a") := by
    simp only [formatPkixName, parse_example]; decide
  simp [publisherIdentity, issuerOf, demoCert, skidStream, ecMagic, f, demoHash]

example : ∃ m', signIdent demoHash demoManifest demoCert = .ok m' := by
  rw [signIdent_eq, demo_token, demo_publisher]
  exact ⟨_, rfl⟩

/-- the exact exception to "a reader finds the signer's token": a namespace-prefixed attribute of the same local name
    that comes first is what etree's `SelectAttrValue` returns -/
theorem identity_token_prefixed_exception :
    attrValue "publicKeyToken" (createAttr "publicKeyToken" "0123456789abcdef" [⟨"q", "publicKeyToken", "x"⟩]) = "x" ∧
    ¬ NoPrefixedBefore "publicKeyToken" [⟨"q", "publicKeyToken", "x"⟩] := by decide

/-- what relic's verifier accepts after its own `Sign` (identity comparison only; both XML signatures are C19's
    other clauses) -/
theorem verify_accepts_signed_partial {α} (sha1 : Bytes → Bytes) (m m' : Manifest α) (c : Loaded)
    (h : signIdent sha1 m c = .ok m') (attrs : List XAttr) (ha : m.asi = some attrs)
    (hp : NoPrefixedBefore "publicKeyToken" attrs) : verifyIdent sha1 m' c.leaf.key = .ok () :=
  verifyIdent_signed sha1 m m' c h attrs ha hp

/-- **stated gap.**  `Verify` compares the token with the key of the signature and nothing else: whatever the
    `publisherIdentity` elements say (or if there is none), the outcome is the same. -/
theorem verify_ignores_publisher {α} (sha1 : Bytes → Bytes) (m : Manifest α) (pubs : List (String × String)) (k : PubKey) :
    verifyIdent sha1 { m with publishers := pubs } k = verifyIdent sha1 m k := verifyIdent_publishers sha1 m pubs k

def verify_checks_identity_full : Prop :=
  ∀ (sha1 : Bytes → Bytes) (m : Manifest Unit) (c : Loaded) (id : Ident),
    identOf sha1 c = .ok id → verifyIdent sha1 m c.leaf.key = .ok () → m.publishers = [(id.name, id.issuerKeyHash)]

theorem verify_checks_identity_full_false : ¬ verify_checks_identity_full := by
  intro h
  have hid : identOf demoHash demoCert = .ok ⟨hexStr (List.replicate 8 7), bytesToString (ascii "CN=a"), hexStr (List.replicate 20 7)⟩ := by
    simp [identOf, demo_token, demo_publisher]
  have hv : verifyIdent demoHash (⟨some [⟨"", "publicKeyToken", hexStr (List.replicate 8 7)⟩], [], ()⟩ : Manifest Unit)
      demoCert.leaf.key = .ok () := by
    simp [verifyIdent, demo_token, attrValue]
  have := h demoHash _ demoCert _ hid hv
  simp at this

/-- RSA exponents of 31 bits: accepted by crypto/rsa and written by `xmldsig.Sign`, refused by `xmldsig.parsePublicKey` -/
theorem rsa_exponent_31_bits_refused : xmlKeyValueOk (.rsa 35 (2 ^ 31 - 1)) = false ∧ xmlKeyValueOk (.rsa 35 65537) = true := by
  decide

end Relic.Props.C19

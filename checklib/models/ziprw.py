"""ZIP rewriters (JAR insertSignature, VSIX Mangler) on generated archives: glue for C03 / C08.

Two stages.  Stage 1 is the op itself (`ZIPRW jar|vsix <zip> <rounds>`): the Lean model says whether the rewriter accepts the
input (error class otherwise) and which members stay.  The members relic *adds* carry a fresh signature and a time stamp, so
they cannot be part of a generated op: the harness reads them back from relic's output and stage 2 asks the model for the
exact output bytes given those members (`ZIPRW jarout|vsixout …`, one driver call per round from `equiv`)."""
import os, subprocess

TOKENS = ["ZIPRW"]
RULE = ("ZIPRW: archives from the raw ZIP writer of harness/c17 through relic's real JAR and VSIX signing (sg.Sign: ZipToTar, ReadZipTar, "
        "digest pass, insertSignature / Mangle+MakePatch, binary patch applied to a new path), 1-2 rounds: shapes plain, launcher prefix with "
        "adjusted directory offsets, plain `cat stub zip` prefix, gap between members, gap before the directory, already signed, zero-length "
        "members (stored/deflated x no/16/24-byte descriptor), names of 255..65535 bytes, 60-300 members, directory entries, ZIP64 marks and "
        "end records, extra fields, member comments, descriptor/ZIP64 quirks (F7d/F7e), archive comment (F7c), no manifest, truncated; "
        "manifest first/middle/last, stored or deflated, with digests or without. Per round: relic's output = Lean model's output byte for "
        "byte (tie), archive/zip and Spec.Zip accept it, kept members identical through archive/zip (name, method, flags, crc, size, extra, "
        "comment, raw and inflated bytes, order), added members first (JAR) / last (VSIX), relic's verifier accepts; or refusal with the input "
        "byte-identical and no output. Non-trivial = distinct op whose first round signs.")
TRUSTED = ["Relic.Model.ZipRewrite is hand-written from lib/signjar/sign.go, lib/zipslicer/mangle.go, signers/vsix/mangle.go; tied by "
           "differential execution (exact output bytes, every round)",
           "members added by relic (manifest, .SF, PKCS#7, OPC parts) are read back from relic's output by the harness and given to the model"]
ASSUMPTIONS = ["member contents are valid (inflate, CRC) and manifests well-formed: the model accounts for bytes consumed, not for content errors",
               "member names have clean path segments (signjar.keepFile's path.Dir is modelled for those)",
               "VSIX part names carry an extension (relic's VSIX signer panics otherwise: side finding, outside C03)",
               "archives below 4 GiB / 65535 members (ZIP64 reached through forced records and marks)"]

DRIVER = os.path.join(os.path.dirname(os.path.dirname(os.path.dirname(os.path.abspath(__file__)))), "lean", ".lake", "build", "bin", "relic_driver")
_cache = {}


def _sections(il):
    parts = il.split(" @@ ")
    sec = {}
    for p in parts[1:]:
        k, _, v = p.partition(" ")
        sec[k] = v
    return parts[0], sec


def _drive(lines):
    p = subprocess.run([DRIVER], input="\n".join(lines) + "\n", stdout=subprocess.PIPE, stderr=subprocess.PIPE, text=True)
    out = p.stdout.split("\n")
    return (out + ["crash"] * len(lines))[:len(lines)]


def _split_tag(line):
    i = line.find(" #")
    return (line, "") if i < 0 else (line[:i], line[i + 2:])


def stage2(op, il):
    """per round: ('ok'|'err', model line, tag, expectation from the implementation); cached per op"""
    key = (op, il)
    if key in _cache:
        return _cache[key]
    f = op.split(" ")
    typ = f[1]
    core, sec = _sections(il)
    res = []
    cur = f[2]
    lines, meta = [], []
    r = 1
    while "O%d" % r in sec:
        added = sec.get("N%d" % r, "?")
        if added == "?":
            meta.append((r, "ok", None, sec["O%d" % r]))
            lines.append("ZIPRW bad")
        else:
            a = added.split(" ")
            if typ == "jar":
                lines.append("ZIPRW jarout %s %s" % (cur, added))
            else:
                lines.append("ZIPRW vsixout %s %s %s 1 %s" % (cur, a[0], a[1], " ".join(a[2:])))
            meta.append((r, "ok", added, sec["O%d" % r]))
        cur = sec["O%d" % r]
        r += 1
    if "E%d" % r in sec and r > 1:
        lines.append("ZIPRW %s %s 1" % (typ, cur))
        meta.append((r, "err", None, sec["E%d" % r]))
    outs = _drive(lines) if lines else []
    for (rnd, kind, added, want), ml in zip(meta, outs):
        mres, tag = _split_tag(ml)
        res.append((rnd, kind, mres, tag, want))
    _cache.clear()
    _cache[key] = res
    return res


def equiv(op, il, mres):
    core, sec = _sections(il)
    m = mres.split(" ")
    if core.startswith("err") or mres.startswith("err"):
        if core != mres:
            return False
    elif not (core == "ok" and m[0] == "ok"):
        return False
    for rnd, kind, mline, tag, want in stage2(op, il):
        if kind == "ok":
            if mline != "ok " + want:
                return False
        elif mline != "err " + want:
            return False
    return True


def weight(op):
    return int(op.split(" ")[3])


def nontrivial(op, mres, tag):
    return mres.startswith("ok")


def _flags(tag):
    for p in tag.split(" "):
        if p.startswith("flags="):
            return set(x for x in p[6:].split(",") if x)
    return set()


def branch(op, mres, tag):
    f = op.split(" ")
    key = mres if mres.startswith("err") else "ok"
    return "ziprw-%s:%s:%s:%s" % (f[1], key, tag.split(" ")[0], ",".join(sorted(_flags(tag))))


def _rows(v):
    if not v.startswith("ok"):
        return None
    return [r for r in v[3:].split(",") if r]


def _keep_mask(mres):
    for p in mres.split(" "):
        if p.startswith("keep="):
            return [] if p[5:] == "-" else [c == "1" for c in p[5:]]
    return None


def evaluate(prop, op, il, mres, tag):
    """the property on what the implementation did: (theorem, cause, expected, note) or None"""
    f = op.split(" ")
    typ = f[1]
    thm = "Relic.Props.C03.zip_rewrite_preserves_members"
    if il.startswith("crash") or il.startswith("not-run") or il.startswith("panic"):
        return ("Relic.Props.%s (ziprw)" % prop, "died", mres, "implementation died or panicked: " + il[:200])
    core, sec = _sections(il)
    if sec.get("U") == "0":
        return ("Relic.Props.C03.zip_refusal_is_clean", "input-touched", "input byte-identical, no output file",
                "the input file was modified, or an output was left behind by a refused signing")
    inrows = _rows(sec.get("I", "err"))
    r = 1
    cur_rows = inrows
    s2 = {x[0]: x for x in stage2(op, il)}
    in_valid = tag.startswith("spec=valid")     # Spec.Zip's verdict on this round's input
    while "O%d" % r in sec:
        g = _rows(sec.get("G%d" % r, "err"))
        if g is None:
            return (thm, "output-unreadable", "a well-formed archive",
                    "round %d: relic signed (exit 0) and archive/zip refuses the result" % r)
        if any((x.endswith("oerr") or x.endswith("rerr")) and x not in (cur_rows or []) for x in g):
            return (thm, "output-unreadable", "a well-formed archive",
                    "round %d: relic signed (exit 0) and archive/zip cannot open a member of the result through the rewritten directory" % r)
        st = s2.get(r)
        if in_valid and st is not None and st[2].startswith("ok") and "specout=valid" not in st[3]:
            return (thm, "output-invalid-spec", "a well-formed archive", "round %d: Spec.Zip refuses the archive relic wrote" % r)
        added = sec.get("N%d" % r, "?")
        k = int(added.split(" ")[2]) if added != "?" else 0
        if typ == "jar" and k != 4:
            return (thm, "added-count", "4 members added in front", "round %d: %d leading members written by relic" % (r, k))
        kept_out = g[k:] if typ == "jar" else g[:len(g) - k]
        if cur_rows is not None:
            # what must stay: every member of the input that is not signature metadata of the format
            names_added = set(x.split(":")[0] for x in (g[:k] if typ == "jar" else g[len(g) - k:]))
            want = [x for x in cur_rows if _payload(typ, x.split(":")[0])]
            # a member the reference reader cannot open in the *input* has no contents to compare: metadata only
            if len(kept_out) == len(want):
                kept_out = [o.rsplit(":", 1)[0] + ":" + w.rsplit(":", 1)[1] if w.endswith("err") else o for o, w in zip(kept_out, want)]
            if kept_out != want:
                return (thm, "kept-differ", ",".join(want)[:300],
                        "round %d: members kept by relic differ from the input's payload members (through archive/zip): %s" % (r, ",".join(kept_out)[:300]))
            if any(x.split(":")[0] in names_added for x in kept_out):
                return (thm, "duplicate-of-added", "added names unique", "round %d: a kept member has the name of an added one" % r)
        if in_valid and st is not None and st[2].startswith("ok") and "view=same" not in st[3]:
            return (thm, "spec-view-differs", "view=same", "round %d: standard-reader view (Spec.Zip) of the output is not added ++ kept: %s" % (r, st[3]))
        v = sec.get("V%d" % r, "?")
        if v != "ok":
            return ("Relic.Props.%s (ziprw verify)" % prop, "verify-fails", "ok", "round %d: relic's own verifier refuses what relic signed: %s" % (r, v[:200]))
        cur_rows = g
        in_valid = st is not None and "specout=valid" in st[3]
        r += 1
    return None


def _payload(typ, hexname):
    """independent statement of which members are signature metadata (JAR spec / OPC digital signatures)"""
    name = bytes.fromhex(hexname).decode("latin-1") if hexname != "-" else ""
    if typ == "jar":
        if name == "META-INF/":
            return False
        if not name.startswith("META-INF/") or "/" in name[9:]:
            return True
        base = name[9:]
        if base.startswith("SIG-") or base == "MANIFEST.MF":
            return False
        ext = base[base.rfind("."):] if "." in base else ""
        return ext not in (".SF", ".RSA", ".DSA", ".EC", ".SIG")
    if name in ("_rels/", "[Content_Types].xml"):
        return False
    base = name.rsplit("/", 1)[-1]
    ext = base[base.rfind("."):] if "." in base else ""
    if ext in (".rels", ".psdsxs", ".psdor"):
        return False
    return not name.startswith("package/services/digital-signature/")


def predicate(prop, op, il, mres, tag):
    ev = evaluate(prop, op, il, mres, tag)
    return (ev[0], ev[2], ev[1] + " :: " + ev[3]) if ev else None


def matches_known(k, op, il, mres, tag):
    """F7a only: the input (of the failing round) holds an empty member with a 24-byte descriptor, and the failure is one the
    misread width explains"""
    ident = k.get("identity", {})
    trig = ident.get("ziprw_trigger")
    if not trig:
        return False
    ev = evaluate("C03", op, il, mres, tag)
    if ev is None or ev[1] not in ident.get("ziprw_observed", []):
        return False
    flags = _flags(tag)
    # later rounds: ask the model about that round's input
    for rnd, kind, mline, t2, want in stage2(op, il):
        flags |= _flags(t2)
    return trig in flags
